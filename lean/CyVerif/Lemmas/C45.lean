import CyVerif.Model.C45Safe
/-! C45 — lemmas about the stack checker and the invariant of `exec`. -/
namespace CyVerif.C45

theorem go_append (stk : List Fr) (a b : List Ev) :
    go stk (a ++ b) = (go stk a).bind (fun s => go s b) := by
  induction a generalizing stk with
  | nil => simp [go]
  | cons e a ih =>
    simp only [List.cons_append, go]
    cases h : step stk e with
    | none => simp
    | some s => simpa using ih s

/-- the checker only looks at the top of the stack: anything below is carried along -/
theorem step_frame (s s' t : List Fr) (e : Ev) (h : step s e = some s') : step (s ++ t) e = some (s' ++ t) := by
  unfold step at h ⊢
  cases hk : e.kind <;> simp only [hk] at h ⊢
  case start => cases h; rfl
  case resume => cases h; rfl
  all_goals
    cases s with
    | nil => simp at h
    | cons x xs =>
      simp only [List.cons_append]
      dsimp only at h ⊢
      split at h
      · next hc => cases h; simp [hc]
      · simp at h

theorem go_frame (w : List Ev) : ∀ (s s' t : List Fr), go s w = some s' → go (s ++ t) w = some (s' ++ t) := by
  induction w with
  | nil => intro s s' t h; simp [go] at h ⊢; exact h
  | cons e w ih =>
    intro s s' t h
    simp only [go] at h ⊢
    cases hs : step s e with
    | none => simp [hs] at h
    | some s1 =>
      simp only [hs] at h
      rw [step_frame s s1 t e hs]
      exact ih s1 s' t h

/-- a word that is balanced on the empty stack is neutral on every stack -/
theorem go_neutral (w : List Ev) (h : go [] w = some []) (stk : List Fr) : go stk w = some stk := by
  simpa using go_frame w [] [] stk h

/-- the stack seen inside function `c` called on stack `stk` -/
def fr (cfg : Cfg) (c : Fn) (stk : List Fr) : List Fr :=
  if traced cfg c then ⟨c.fid, c.first, c.last⟩ :: stk else stk

/-- the stack after a statement that ended with `o` -/
def post (cfg : Cfg) (c : Fn) (stk : List Fr) (o : Out) : List Fr :=
  if o = .ret ∧ cfg.fixRet = false then stk else fr cfg c stk

theorem post_fix (cfg : Cfg) (c : Fn) (stk : List Fr) (o : Out) (h : cfg.fixRet = true) :
    post cfg c stk o = fr cfg c stk := by
  simp [post, h]

theorem go_evLine (cfg : Cfg) (c : Fn) (stk : List Fr) (ln : Nat) (w : List Ev) (h : lnIn c ln = true) :
    go (fr cfg c stk) (evLine cfg c ln ++ w) = go (fr cfg c stk) w := by
  unfold evLine fr
  cases ht : traced cfg c <;> cases hl : cfg.linetrace <;> simp [go, step]
  simp [lnIn] at h
  simp [h]

theorem go_evOpen (cfg : Cfg) (c : Fn) (stk : List Fr) (k : Kind) (w : List Ev) (hk : k.isOpen = true) :
    go stk (evOpen cfg c k ++ w) = go (fr cfg c stk) w := by
  unfold evOpen fr
  cases ht : traced cfg c <;> simp [go, step]
  cases k <;> simp [Kind.isOpen] at hk <;> simp

theorem go_evClose (cfg : Cfg) (c : Fn) (stk : List Fr) (k : Kind) (w : List Ev)
    (hk : k = .ret ∨ k = .unwind ∨ k = .yield) :
    go (fr cfg c stk) (evClose cfg c k ++ w) = go stk w := by
  unfold evClose fr
  cases ht : traced cfg c <;> simp [go, step]
  rcases hk with h | h | h <;> subst h <;> simp

theorem fr_untraced (cfg : Cfg) (c : Fn) (stk : List Fr) (h : traced cfg c = false) : fr cfg c stk = stk := by
  simp [fr, h]

theorem safeFn_cskip (cfg : Cfg) (f : Fn) (o : Out) (h : safeFn cfg f o = true) :
    f.fk = .cskip → cfg.fixCpdef = true := by
  intro hk
  simpa [safeFn, hk] using h

theorem wrapRet_nil (cfg : Cfg) (f : Fn) (o : Out) (h : safeFn cfg f o = true) : wrapRet cfg f = [] := by
  unfold wrapRet
  split
  · next hk hc hr => simp [safeFn, hk, hc, hr] at h
  · rfl

theorem post_untraced (cfg : Cfg) (c : Fn) (stk : List Fr) (o : Out) (h : traced cfg c = false) :
    post cfg c stk o = stk := by
  simp [post, fr, h]

theorem go_evStart (cfg : Cfg) (c : Fn) (stk : List Fr) (w : List Ev)
    (hk : c.fk = .cskip → cfg.fixCpdef = true) :
    go stk (evStart cfg c ++ w) = go (fr cfg c stk) w := by
  have h := go_evOpen cfg c stk .start w (by simp [Kind.isOpen])
  unfold evStart
  split
  · next h1 h2 => simp [hk h1] at h2
  · exact h

end CyVerif.C45

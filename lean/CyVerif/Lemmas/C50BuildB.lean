import CyVerif.Lemmas.C50BuildA
/-! RE → NFA, part B: build certificates (added edges + a state labelling that proves soundness). -/
namespace CyVerif.C50

/-- path inside an edge relation -/
inductive APath (A : Nat → Option CurChar → Nat → Prop) : Nat → List CurChar → Nat → Prop
  | refl (s : Nat) : APath A s [] s
  | step {s t : Nat} {lab : Option CurChar} {w : List CurChar} {u : Nat} :
      A s lab t → APath A t w u → APath A s (lab.toList ++ w) u

theorem APath.mono {A B : Nat → Option CurChar → Nat → Prop} (h : ∀ s l u, A s l u → B s l u)
    {s u : Nat} {w : List CurChar} (p : APath A s w u) : APath B s w u := by
  induction p with
  | refl => exact .refl _
  | step e _ ih => exact .step (h _ _ _ e) ih

theorem APath.append {A : Nat → Option CurChar → Nat → Prop} {s t u : Nat} {w1 w2 : List CurChar}
    (p : APath A s w1 t) (q : APath A t w2 u) : APath A s (w1 ++ w2) u := by
  induction p with
  | refl => simpa using q
  | step e _ ih => rw [List.append_assoc]; exact .step e (ih q)

/-- What one `build_machine` call contributes: the edges `added` between `i`, `f` and fresh states, and a
labelling `lab s w` ("`w` can lead from `i` to `s`") that is an inductive invariant of those edges. The
labelling gives soundness (`lab f w → L w`), `complete` gives completeness. -/
structure BuildCert (m n : NFA) (i f : Nat) (L : List CurChar → Prop) where
  added : Nat → Option CurChar → Nat → Prop
  lab : Nat → List CurChar → Prop
  wf : n.WF
  grow : m.nodes.length ≤ n.nodes.length
  inits : n.inits = m.inits
  acts : ∀ s, (n.node s).action = (m.node s).action ∧ (n.node s).prio = (m.node s).prio
  edges : ∀ s l u, NEdge n s l u ↔ NEdge m s l u ∨ added s l u
  src : ∀ s l u, added s l u → s = i ∨ (m.nodes.length ≤ s ∧ s < n.nodes.length)
  dst : ∀ s l u, added s l u → u = f ∨ (m.nodes.length ≤ u ∧ u < n.nodes.length)
  labInit : lab i []
  labEdge : ∀ s l u w, added s l u → lab s w → lab u (w ++ l.toList)
  labSupp : ∀ s w, lab s w → s = i ∨ s = f ∨ (m.nodes.length ≤ s ∧ s < n.nodes.length)
  labI : ∀ w, lab i w → w = []
  labF : ∀ w, lab f w → L w
  complete : ∀ w, L w → APath added i w f

theorem BuildCert.congr {m n : NFA} {i f : Nat} {L L' : List CurChar → Prop} (h : ∀ w, L w ↔ L' w)
    (c : BuildCert m n i f L) : Nonempty (BuildCert m n i f L') :=
  ⟨{ c with labF := fun w hw => (h w).1 (c.labF w hw), complete := fun w hw => c.complete w ((h w).2 hw) }⟩

/-- nothing is built: the empty language -/
def certNone (m : NFA) (hm : m.WF) (i f : Nat) (hif : i ≠ f) : BuildCert m m i f (fun _ => False) where
  added := fun _ _ _ => False
  lab := fun s w => s = i ∧ w = []
  wf := hm
  grow := Nat.le_refl _
  inits := rfl
  acts := fun _ => ⟨rfl, rfl⟩
  edges := fun _ _ _ => by simp
  src := fun _ _ _ h => h.elim
  dst := fun _ _ _ h => h.elim
  labInit := ⟨rfl, rfl⟩
  labEdge := fun _ _ _ _ h => h.elim
  labSupp := fun _ _ h => .inl h.1
  labI := fun _ h => h.2
  labF := fun _ h => absurd h.1.symm hif
  complete := fun _ h => h.elim

/-- the language of a single transition -/
def EvLang (ev : Ev) (w : List CurChar) : Prop := ∃ l : Option CurChar, ValidLab l ∧ EvMatches ev l ∧ w = l.toList

/-- one `add_transition(event, f)` on state `i` -/
def certEdge (m : NFA) (hm : m.WF) (i f : Nat) (hif : i ≠ f) (hi : i < m.nodes.length) (ev : Ev) (hb : ev.InBounds) :
    BuildCert m (m.addTrans i ev f) i f (EvLang ev) where
  added := fun s l u => s = i ∧ u = f ∧ ValidLab l ∧ EvMatches ev l
  lab := fun s w => (s = i ∧ w = []) ∨ (s = f ∧ EvLang ev w)
  wf := (addTrans_spec m hm i ev f hi hb).1
  grow := by rw [(addTrans_spec m hm i ev f hi hb).2.1]; exact Nat.le_refl _
  inits := (addTrans_spec m hm i ev f hi hb).2.2.1
  acts := (addTrans_spec m hm i ev f hi hb).2.2.2.1
  edges := (addTrans_spec m hm i ev f hi hb).2.2.2.2
  src := fun _ _ _ h => .inl h.1
  dst := fun _ _ _ h => .inl h.2.1
  labInit := .inl ⟨rfl, rfl⟩
  labEdge := by
    rintro s l u w ⟨rfl, rfl, hv, hm'⟩ (⟨_, rfl⟩ | ⟨e, _⟩)
    · exact .inr ⟨rfl, l, hv, hm', by simp⟩
    · exact absurd e hif
  labSupp := by
    rintro s w (⟨e, _⟩ | ⟨e, _⟩)
    · exact .inl e
    · exact .inr (.inl e)
  labI := by
    rintro w (⟨_, e⟩ | ⟨e, _⟩)
    · exact e
    · exact absurd e hif
  labF := by
    rintro w (⟨e, _⟩ | ⟨_, h⟩)
    · exact absurd e.symm hif
    · exact h
  complete := by
    rintro w ⟨l, hv, hm', rfl⟩
    have := APath.step (A := fun s l u => s = i ∧ u = f ∧ ValidLab l ∧ EvMatches ev l)
      (s := i) (t := f) (lab := l) ⟨rfl, rfl, hv, hm'⟩ (.refl f)
    simpa using this

end CyVerif.C50

import CyVerif.Lemmas.C02Frame
/-!
C02: `+`, `-`, `*` of `__Pyx_Unpacked_…` are exact (or the slot fallback), in both operand orders.
-/
namespace CyVerif.C02
open CyVerif.C05

/-- "the helper defers to CPython" -/
def IsFallback (o : Out) : Prop := ∃ h, o = .fallback h

theorem ofE_ok (o : Out) : ofE (.ok o) = o := rfl

theorem add_raw (P : Plat) (hP : PlatOK P) (cfg : Cfg) (ord : Order) (p : PyLong) (hwf : p.WF P.shift)
    (c : Int) (hc : CBnd c) (zc : Bool) :
    IsFallback (unpacked P cfg .add ord p c zc) ∨
      unpacked P cfg .add ord p c zc = .int (opA ord (p.value P.shift) c + opB ord (p.value P.shift) c) := by
  have hP' := hP
  obtain ⟨hS, hi0, hiL, hL4, hLLL, hLL8, hSL, hSLL⟩ := hP'
  apply unpacked_frame P hP cfg .add ord p hwf c zc
    (fun o => IsFallback o ∨ o = .int (opA ord (p.value P.shift) c + opB ord (p.value P.shift) c))
  · intro hz o ho
    rw [value_zero hz]
    cases ord <;> simp [zeroCase] at ho <;> subst ho <;> simp [opA, opB]
  · exact .inl ⟨_, rfl⟩
  · intro h; cases h
  · intro v n hv _ _ hb h1 _
    subst hv
    have hr := inRange_addsub (t := P.tLong) rfl hb hc (by rw [tLong_bits]; omega) (by rw [tLong_bits]; omega)
    right
    cases ord <;> simp only [calcLong, opA, opB, bind, Except.bind, pure, Except.pure]
    · rw [cadd_ok hr.1]; rfl
    · rw [cadd_ok hr.2.1]; rfl
  · intro v n hv _ _ hb h2 _
    subst hv
    simp only [extra] at h2
    have hr := inRange_addsub (t := P.tLL) rfl hb hc (by rw [tLL_bits]; simp at h2; omega) (by rw [tLL_bits]; omega)
    right
    cases ord <;> simp only [calcLL, opA, opB, bind, Except.bind, pure, Except.pure]
    · rw [cadd_ok hr.1]; rfl
    · rw [cadd_ok hr.2.1]; rfl

theorem sub_raw (P : Plat) (hP : PlatOK P) (cfg : Cfg) (ord : Order) (p : PyLong) (hwf : p.WF P.shift)
    (c : Int) (hc : CBnd c) (zc : Bool) :
    IsFallback (unpacked P cfg .sub ord p c zc) ∨
      unpacked P cfg .sub ord p c zc = .int (opA ord (p.value P.shift) c - opB ord (p.value P.shift) c) := by
  have hP' := hP
  obtain ⟨hS, hi0, hiL, hL4, hLLL, hLL8, hSL, hSLL⟩ := hP'
  apply unpacked_frame P hP cfg .sub ord p hwf c zc
    (fun o => IsFallback o ∨ o = .int (opA ord (p.value P.shift) c - opB ord (p.value P.shift) c))
  · intro hz o ho
    rw [value_zero hz]
    cases ord
    · -- `PyLong_FromLong(-intval)`
      have hneg : P.tLong.inRange (-c) :=
        inRange_of_bnd rfl (bnd_neg (cbnd_bnd hc)) (by rw [tLong_bits]; omega)
      simp only [zeroCase, cneg_ok rfl hneg, bind, Except.bind, pure, Except.pure, ofE_ok, Option.some.injEq] at ho
      subst ho; simp [opA, opB]
    · simp [zeroCase] at ho; subst ho; simp [opA, opB]
  · exact .inl ⟨_, rfl⟩
  · intro h; cases h
  · intro v n hv _ _ hb h1 _
    subst hv
    have hr := inRange_addsub (t := P.tLong) rfl hb hc (by rw [tLong_bits]; omega) (by rw [tLong_bits]; omega)
    right
    cases ord <;> simp only [calcLong, opA, opB, bind, Except.bind, pure, Except.pure]
    · rw [csub_ok rfl hr.2.2.1]; rfl
    · rw [csub_ok rfl hr.2.2.2]; rfl
  · intro v n hv _ _ hb h2 _
    subst hv
    simp only [extra] at h2
    have hr := inRange_addsub (t := P.tLL) rfl hb hc (by rw [tLL_bits]; simp at h2; omega) (by rw [tLL_bits]; omega)
    right
    cases ord <;> simp only [calcLL, opA, opB, bind, Except.bind, pure, Except.pure]
    · rw [csub_ok rfl hr.2.2.1]; rfl
    · rw [csub_ok rfl hr.2.2.2]; rfl

theorem mul_raw (P : Plat) (hP : PlatOK P) (cfg : Cfg) (ord : Order) (p : PyLong) (hwf : p.WF P.shift)
    (c : Int) (hc : CBnd c) (zc : Bool) :
    IsFallback (unpacked P cfg .mul ord p c zc) ∨
      unpacked P cfg .mul ord p c zc = .int (opA ord (p.value P.shift) c * opB ord (p.value P.shift) c) := by
  have hP' := hP
  obtain ⟨hS, hi0, hiL, hL4, hLLL, hLL8, hSL, hSLL⟩ := hP'
  have key : ∀ v n, Bnd n v → n + 30 + 1 ≤ 8 * P.llBytes →
      ofE (calcLL P cfg .mul (opA ord v c) (opB ord v c)) = .int (opA ord v c * opB ord v c) := by
    intro v n hb h2
    have hr : P.tLL.inRange (v * c) := inRange_of_bnd rfl (bnd_mul hb hc) (by rw [tLL_bits]; omega)
    cases ord <;> simp only [calcLL, opA, opB, bind, Except.bind, pure, Except.pure]
    · rw [cmul_ok rfl hr]; rfl
    · rw [cmul_ok rfl (by rw [Int.mul_comm]; exact hr)]; rfl
  apply unpacked_frame P hP cfg .mul ord p hwf c zc
    (fun o => IsFallback o ∨ o = .int (opA ord (p.value P.shift) c * opB ord (p.value P.shift) c))
  · intro hz o ho
    rw [value_zero hz]
    cases ord <;> simp [zeroCase] at ho <;> subst ho <;> simp [opA, opB]
  · exact .inl ⟨_, rfl⟩
  · intro h; cases h
  · intro v n hv _ _ hb _ h2
    subst hv
    right
    have : extra .mul = 30 := rfl
    rw [this] at h2
    simp only [calcLong]
    exact key _ n hb h2
  · intro v n hv _ _ hb h2 _
    subst hv
    right
    have : extra .mul = 30 := rfl
    rw [this] at h2
    exact key _ n hb (by omega)

end CyVerif.C02

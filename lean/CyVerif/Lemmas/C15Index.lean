import CyVerif.Lemmas.C15Arith
/-! # C15 — index helpers against `pyGet` / `pySet` / `pyDel` -/
namespace CyVerif.C15

variable {α : Type}

theorem pyNorm_nonneg {n : Nat} {i : Int} (h0 : 0 ≤ i) (h1 : i < n) : pyNorm n i = some i.toNat := by
  simp only [pyNorm]
  have : ¬ i < 0 := by omega
  simp [this, h0, h1]

theorem pyNorm_neg {n : Nat} {i : Int} (hneg : i < 0) (h0 : 0 ≤ i + n) : pyNorm n i = some (i + n).toNat := by
  simp only [pyNorm]
  have : i + (n : Int) < n := by omega
  simp [hneg, h0, this]

theorem pyNorm_oob_nonneg {n : Nat} {i : Int} (h : (n : Int) ≤ i) : pyNorm n i = none := by
  simp only [pyNorm]
  have h1 : ¬ i < 0 := by omega
  have h2 : ¬ i < n := by omega
  simp [h1, h2]

theorem pyNorm_oob_neg {n : Nat} {i : Int} (h : i + n < 0) : pyNorm n i = none := by
  simp only [pyNorm]
  have h1 : i < 0 := by omega
  have h2 : ¬ (0 ≤ i + (n : Int)) := by omega
  simp [h1, h2]

theorem pyNorm_lt {n : Nat} {i : Int} {k : Nat} (h : pyNorm n i = some k) : k < n := by
  simp only [pyNorm] at h
  by_cases hc : (0 ≤ (if i < 0 then i + (n : Int) else i) ∧ (if i < 0 then i + (n : Int) else i) < n)
  · rw [if_pos hc] at h
    simp at h
    omega
  · rw [if_neg hc] at h
    simp at h

theorem pyGet_not_ub (l : List α) (i : Int) : (pyGet l i).isUB = false := by
  unfold pyGet
  split
  · split <;> rfl
  · rfl

theorem pyGet_oob_nonneg {l : List α} {i : Int} (h : (l.length : Int) ≤ i) : pyGet l i = .err "IndexError" := by
  simp [pyGet, pyNorm_oob_nonneg h]

theorem pyGet_oob_neg {l : List α} {i : Int} (h : i + l.length < 0) : pyGet l i = .err "IndexError" := by
  simp [pyGet, pyNorm_oob_neg h]

theorem readArr_eq_pyGet {l : List α} {k : Int} (h0 : 0 ≤ k) (h1 : k < l.length) : readArr l k = pyGet l k := by
  have hk : k.toNat < l.length := by omega
  simp [readArr, pyGet, pyNorm_nonneg h0 h1, h0, List.getElem?_eq_getElem hk]

theorem readArr_wrap_eq_pyGet {l : List α} {i : Int} (hneg : i < 0) (h0 : 0 ≤ i + l.length) :
    readArr l (i + l.length) = pyGet l i := by
  have hk : (i + (l.length : Int)).toNat < l.length := by omega
  simp [readArr, pyGet, pyNorm_neg hneg h0, h0, List.getElem?_eq_getElem hk]

/-- a value that is not a `Py_ssize_t` is out of range for every real sequence -/
theorem pyNorm_none_of_not_inSS {sw : Nat} {n : Nat} {v : Int} (hn : (n : Int) ≤ ssMax sw)
    (h : inSS sw v = false) : pyNorm n v = none := by
  have h' : ¬ (ssMin sw ≤ v ∧ v ≤ ssMax sw) := by
    intro hc; rw [← inSS_iff] at hc; simp [hc] at h
  have hp := two_pow_pos (sw - 1)
  unfold ssMin ssMax at *
  by_cases hv : 0 ≤ v
  · exact pyNorm_oob_nonneg (by omega)
  · exact pyNorm_oob_neg (by omega)

theorem pyGet_of_not_inSS {sw : Nat} {l : List α} {v : Int} (hn : (l.length : Int) ≤ ssMax sw)
    (h : inSS sw v = false) : pyGet l v = .err "IndexError" := by
  simp [pyGet, pyNorm_none_of_not_inSS hn h]

theorem addSS_wrap {sw : Nat} {i : Int} {n : Nat} (hn : (n : Int) ≤ ssMax sw) (hi : inSS sw i = true)
    (hneg : i < 0) : addSS sw i n = .ok (i + n) ∧ inSS sw (i + n) = true := by
  rw [inSS_iff] at hi
  have : inSS sw (i + n) = true := by rw [inSS_iff]; omega
  simp [addSS, this]

/-- `__Pyx_GetItemInt_{List,Tuple}_Fast` with boundscheck on: Python semantics for every `Py_ssize_t` index,
whatever the wraparound flag, provided a cleared flag comes with a non-negative index … -/
theorem seqFast_bc {sw : Nat} (hsw : 0 < sw) {l : List α} (hn : (l.length : Int) ≤ ssMax sw) {i : Int}
    (hi : inSS sw i = true) (wrap : Bool) : seqFast sw l i wrap true = pyGet l i := by
  have hlen0 : (0 : Int) ≤ l.length := by omega
  unfold seqFast
  simp only [Bool.or_true, if_true, Bool.not_true, Bool.false_or]
  by_cases hw : (wrap && decide (i < 0)) = true
  · simp only [hw, if_true]
    have hneg : i < 0 := by simp at hw; exact hw.2
    obtain ⟨ha, hin⟩ := addSS_wrap hn hi hneg
    rw [ha]; simp only [Out.bind]
    by_cases hv : isValidIndex sw (i + l.length) l.length = true
    · rw [if_pos hv]
      rw [isValidIndex_iff hsw hlen0 hn hin] at hv
      exact readArr_wrap_eq_pyGet hneg hv.1
    · rw [if_neg hv]
  · simp only [hw, Bool.false_eq_true, if_false, Out.bind]
    by_cases hv : isValidIndex sw i l.length = true
    · rw [if_pos hv]
      rw [isValidIndex_iff hsw hlen0 hn hi] at hv
      exact readArr_eq_pyGet hv.1 hv.2
    · rw [if_neg hv]

/-- common core of the three string-like fast paths (they raise IndexError themselves) -/
theorem strCore_bc {sw : Nat} (hsw : 0 < sw) {l : List α} (hn : (l.length : Int) ≤ ssMax sw) {i : Int}
    (hi : inSS sw i = true) {wrap : Bool} (hwr : wrap = false → 0 ≤ i) :
    ((if (wrap && decide (i < 0)) = true then addSS sw i l.length else Out.ok i).bind fun i' =>
      if isValidIndex sw i' l.length = true then readArr l i' else Out.err "IndexError") = pyGet l i := by
  have hlen0 : (0 : Int) ≤ l.length := by omega
  by_cases hw : (wrap && decide (i < 0)) = true
  · simp only [hw, if_true]
    have hneg : i < 0 := by simp at hw; exact hw.2
    obtain ⟨ha, hin⟩ := addSS_wrap hn hi hneg
    rw [ha]; simp only [Out.bind]
    by_cases hv : isValidIndex sw (i + l.length) l.length = true
    · rw [if_pos hv]
      rw [isValidIndex_iff hsw hlen0 hn hin] at hv
      exact readArr_wrap_eq_pyGet hneg hv.1
    · rw [if_neg hv]
      rw [isValidIndex_iff hsw hlen0 hn hin] at hv
      exact (pyGet_oob_neg (by omega)).symm
  · have h0 : 0 ≤ i := by
      cases wrap
      · exact hwr rfl
      · simp at hw; exact hw
    simp only [hw, Bool.false_eq_true, if_false, Out.bind]
    by_cases hv : isValidIndex sw i l.length = true
    · rw [if_pos hv]
      rw [isValidIndex_iff hsw hlen0 hn hi] at hv
      exact readArr_eq_pyGet hv.1 hv.2
    · rw [if_neg hv]
      rw [isValidIndex_iff hsw hlen0 hn hi] at hv
      exact (pyGet_oob_nonneg (by omega)).symm

theorem unicodeFast_bc {sw : Nat} (hsw : 0 < sw) {l : List α} (hn : (l.length : Int) ≤ ssMax sw) {i : Int}
    (hi : inSS sw i = true) {wrap : Bool} (hwr : wrap = false → 0 ≤ i) :
    unicodeFast sw l i wrap true = pyGet l i := by
  unfold unicodeFast
  simp only [Bool.or_true, if_true, Bool.not_true, Bool.false_or]
  exact strCore_bc hsw hn hi hwr

theorem byteArrayFast_bc {sw : Nat} (hsw : 0 < sw) {l : List α} (hn : (l.length : Int) ≤ ssMax sw) {i : Int}
    (hi : inSS sw i = true) {wrap : Bool} (hwr : wrap = false → 0 ≤ i) :
    byteArrayFast sw l i wrap true = pyGet l i := by
  unfold byteArrayFast
  simp only [Bool.or_true, if_true, Bool.not_true, Bool.false_or]
  exact strCore_bc hsw hn hi hwr

theorem bytesFast_bc {sw : Nat} (hsw : 0 < sw) {l : List α} (hn : (l.length : Int) ≤ ssMax sw) {i : Int}
    (hi : inSS sw i = true) {wrap : Bool} (hwr : wrap = false → 0 ≤ i) :
    bytesFast sw l i wrap true = pyGet l i := by
  unfold bytesFast
  rw [← strCore_bc hsw hn hi hwr]
  congr 1
  funext i'
  cases isValidIndex sw i' l.length <;> simp

end CyVerif.C15

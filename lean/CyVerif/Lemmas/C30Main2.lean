import CyVerif.Lemmas.C30Main
namespace CyVerif.C30

theorem errs_agree (p : Params) (hp : p.WF) (v : Var) (s : ClassSpec) (hs : s.wf = true)
    (h : Hyp v s = true) (hb : s.fields.any (·.dflt == .both) = false) :
    cyErrs p v s = [] ↔ pyErr s = none := by
  obtain ⟨hFe, hkw, happ⟩ := fields_agree p hp v s hs h hb
  obtain ⟨hT, hO, _⟩ := hp
  obtain ⟨hwf, _, _, _, _⟩ := nodupStr_and hs
  rw [hO] at hFe
  simp only [Hyp, Bool.and_eq_true] at h
  obtain ⟨⟨⟨⟨⟨⟨⟨⟨⟨⟨⟨h2, h8⟩, h11⟩, h1⟩, h3⟩, h4⟩, h5⟩, h6⟩, _⟩, h9⟩, h10⟩, _⟩ := h
  have h2' : ∀ f ∈ s.fields, f.kind ≠ .kwSentinel := by
    intro f hf hk
    have := List.all_eq_true.mp h2 f hf
    rw [hk] at this; cases this
  have h8' : ∀ f ∈ s.fields, f.kind = .classvar ∨ (names s.baseFields).contains f.name = false := by
    intro f hf
    have := List.all_eq_true.mp h8 f hf
    simp only [Bool.or_eq_true, beq_iff_eq, Bool.not_eq_true'] at this
    exact this
  have h11' : ∀ f ∈ s.fields, f.kind = .initvar → f.dflt ≠ .factory ∧ f.dflt ≠ .mutable := by
    intro f hf hk
    have := List.all_eq_true.mp h11 f hf
    rw [hk] at this
    constructor <;> intro hd <;> rw [hd] at this <;> cases this
  have h1' : v.fieldKwOnly = true ∨ ∀ f ∈ s.fields, f.kwOnly = none := by
    simp only [Bool.or_eq_true, Bool.and_eq_true] at h1
    cases h1 with
    | inl h => exact Or.inl h
    | inr h => exact Or.inr fun f hf => Option.isNone_iff_eq_none.mp (List.all_eq_true.mp h.1 f hf)
  have hfe := fieldErrs_iff v s.baseFields false s.fields h2' h8' h1' h11' (List.all_eq_true.mp hwf)
  have hha := hashAct_agree (s.opts.resolve pyOptD).unsafeHash (s.opts.resolve pyOptD).eq
      (s.opts.resolve pyOptD).frozen s.user.hash s.user.eq h10 [] s.user rfl rfl
  unfold cyErrs pyErr
  simp only [hO, hFe, redeclare_nil _ _ h8', List.nil_append, List.append_eq_nil_iff, tagIf_nil,
    firstSome_none, List.forall_mem_cons, chk_none, hfe, hb, cyBadOrder_py v _ _ hkw,
    cyHashAct_eq p hT, hha.2.1]
  have L4 : ∀ (a b c : Bool), (a || !(b && !c)) = true → ((a && b && !c) = false ↔ (b && !c) = false) := by decide
  have L6 : ∀ (a o l1 l2 l3 l4 : Bool), (a || !(o && (l1 || l2 || l3 || l4))) = true →
      (((((a && o && l1) = false ∧ (a && o && l2) = false) ∧ (a && o && l3) = false) ∧ (a && o && l4) = false) ↔
        (o && (l1 || l2 || l3 || l4)) = false) := by decide
  have L7 : ∀ (a f x y : Bool), (a || !(f && (x || y))) = true →
      (((a && f && x) = false ∧ (a && f && y) = false) ↔ (f && (x || y)) = false) := by decide
  have L5 : ∀ (i ui bo : Bool), (!(i && ui && bo)) = true → ((i && !ui && bo) = false ↔ (i && bo) = false) := by decide
  have L3 : ∀ (a m : Bool), (a || !m) = true → ((a && m) = false ↔ m = false) := by decide
  unfold UserDefs.anyOrder at h4 ⊢
  rw [L3 _ _ h5, L4 _ _ _ h3, L6 _ _ _ _ _ _ h4, L7 _ _ _ _ h6, L5 _ _ _ h9]
  simp only [true_and, and_assoc, List.not_mem_nil, false_imp_iff, implies_true, and_true]
  constructor
  · rintro ⟨a, b, c, d, e, f, g⟩
    exact ⟨a, b, c, f, d, e, g⟩
  · rintro ⟨a, b, c, f, d, e, g⟩
    exact ⟨a, b, c, d, e, f, g⟩

/-- main lemma: on the specifications admitted by `Hyp` both implementations reject, or both accept
with identical decisions -/
theorem agree_main (p : Params) (hp : p.WF) (v : Var) (s : ClassSpec) (hs : s.wf = true)
    (h : Hyp v s = true) : sameOutcome (cy p v s) (py s) := by
  cases hb : s.fields.any (·.dflt == .both) with
  | false =>
    have he := errs_agree p hp v s hs h hb
    have ho := out_agree p hp v s hs h hb
    unfold cy py
    cases hc : cyErrs p v s with
    | nil =>
      rw [he.mp hc]
      exact ho
    | cons e es =>
      cases hpe : pyErr s with
      | none => rw [he.mpr hpe] at hc; cases hc
      | some e' => trivial
  | true =>
    -- both reject: `field(default=…, default_factory=…)`
    have hpy : pyErr s = some "ValueError" := by
      unfold pyErr
      simp [firstSome, chk, hb]
    have hcy : cyErrs p v s ≠ [] := by
      intro hnil
      unfold cyErrs at hnil
      simp only [List.append_eq_nil_iff] at hnil
      have hfe := hnil.1.1.1.1.1.1.2
      -- a `both` field that is not skipped yields the tag "both"
      simp only [Hyp, Bool.and_eq_true] at h
      obtain ⟨⟨⟨⟨⟨⟨⟨⟨⟨⟨⟨_, h8⟩, _⟩, _⟩, _⟩, _⟩, _⟩, _⟩, _⟩, _⟩, _⟩, _⟩ := h
      obtain ⟨hwf, _, _, _, _⟩ := nodupStr_and hs
      obtain ⟨f, hf, hfb⟩ := List.any_eq_true.mp hb
      have key : ∀ fs : List FieldSpec, f ∈ fs →
          (∀ g ∈ fs, g.kind == .classvar || !(names s.baseFields).contains g.name) →
          (∀ g ∈ fs, g.wf = true) → cyFieldErrs v (names s.baseFields) fs ≠ [] := by
        intro fs
        induction fs with
        | nil => intro hm; cases hm
        | cons a t ih =>
          intro hm h8 hw
          unfold cyFieldErrs
          cases hm with
          | head =>
            have hcv : (f.kind == Kind.classvar) = false := by
              cases hk : f.kind with
              | classvar =>
                have := hw f (by simp)
                unfold FieldSpec.wf at this
                simp only [hk, Bool.and_eq_true, Bool.or_eq_true, beq_iff_eq] at this
                have hd := beq_iff_eq.mp hfb
                rcases this.2 with h | h <;> rw [hd] at h <;> cases h
              | _ => rfl
            have h8f := h8 f (by simp)
            rw [hcv] at h8f
            simp only [Bool.false_or, Bool.not_eq_true'] at h8f
            have hnm : ¬ f.name ∈ names s.baseFields := by
              intro hm
              have : (names s.baseFields).contains f.name = true := List.contains_iff_mem.mpr hm
              rw [h8f] at this; cases this
            simp [hcv, hnm, hfb]
          | tail _ hm =>
            have := ih hm (fun g hg => h8 g (by simp [hg])) (fun g hg => hw g (by simp [hg]))
            simp [this]
      exact key s.fields hf (List.all_eq_true.mp h8) (List.all_eq_true.mp hwf) hfe
    unfold cy py
    rw [hpy]
    cases hc : cyErrs p v s with
    | nil => exact absurd hc hcy
    | cons e es => trivial

end CyVerif.C30

import CyVerif.Lemmas.C40Agree
/-! C40: agreement lemmas for unary operators, comparisons, calls. -/
namespace CyVerif.C40

variable {F : Type}

theorem pyUn_int {fo : FOps F} {op : UnOp} {a r : Val F} (ha : IsIntLike a) (h : pyUn fo op a = .ok r) :
    IsIntLike r := by
  rcases ha with ⟨n, rfl⟩ | ⟨b, rfl⟩ <;> cases op <;> simp only [pyUn, Val.num?, Val.int?] at h <;> cases h
  all_goals first | exact Or.inl ⟨_, rfl⟩ | exact Or.inr ⟨_, rfl⟩

theorem pyUn_intN {fo : FOps F} {op : UnOp} {a r : Val F} (ha : IsIntLikeN a) (h : pyUn fo op a = .ok r) :
    IsIntLike r := by
  rcases ha.cases with ha | rfl
  · exact pyUn_int ha h
  · cases op <;> simp only [pyUn, Val.num?, Val.int?] at h <;> cases h
    exact Or.inr ⟨_, rfl⟩

theorem widest_plain {t : Ty} (h : t.isPlainCInt = true) : widest t .cint = t := by
  cases t <;> simp [Ty.isPlainCInt] at h <;> rfl

theorem inRange_not {t : Ty} {n : Int} (ht : t.isPlainCInt = true) (h : inRange t n = true) :
    inRange t (intNot n) = true := by
  cases t <;> simp [Ty.isPlainCInt] at ht <;> simp only [inRange, intNot, decide_eq_true_eq] at h ⊢ <;> (apply decide_eq_true; omega)

theorem plain_conf {t : Ty} {v : Val F} (ht : t.isPlainCInt = true) (h : conf t v) :
    ∃ n, v = .int n ∧ inRange t n = true := by
  cases t <;> simp [Ty.isPlainCInt] at ht <;> exact h

theorem unOK_sound {fo : FOps F} {op : UnOp} {Γ : Nat → Ty} {nt : Nat → Option Ty} {e : Expr}
    {sa oa ts to : Ty} {va : Val F}
    (hsa : aty Γ nt e = some sa) (hoa : aty objEnv noNt e = some oa)
    (h : unOK op Γ nt e (sa, oa) = .ok (ts, to)) (ca : conf sa va) :
    aty Γ nt (.un op e) = some ts ∧ aty objEnv noNt (.un op e) = some to ∧
    Agree (unSem fo op sa va) (unSem fo op oa va) := by
  unfold unOK at h
  simp only at h
  split at h
  · rename_i ts' to' hts hto
    split at h
    · rename_i hs; cases h; subst hs
      exact ⟨hts, hto, Agree.rfl' _⟩
    · split at h
      · rename_i hop; cases h
        refine ⟨hts, hto, ?_⟩
        unfold unSem; simp [hop]; exact Agree.rfl' _
      · rename_i hnot
        split at h
        · rename_i hp; cases h
          obtain ⟨hps, rfl, hc⟩ := hp
          refine ⟨hts, hto, ?_⟩
          have e1 : unSem fo op sa va = (pyUn fo op va).bind (fromPy fo (if sa.isBuiltin then sa else .obj)) := by
            unfold unSem; rw [if_neg hnot, if_pos hps]
          have e2 : unSem fo op .obj va = (pyUn fo op va).bind (fromPy fo .obj) := by
            unfold unSem; rw [if_neg hnot]; rfl
          rw [e1, e2]
          rcases hc with rfl | rfl
          · exact Agree.rfl' _
          · refine Agree.bind (Agree.rfl' _) ?_
            intro r hr _
            have := pyUn_intN ca hr
            show Agree (fromPy fo .pyint r) (fromPy fo .obj r)
            rw [fromPy_of_conf (t := .pyint) (by rcases this with h | h; exact Or.inl h; exact Or.inr (Or.inl h)) (by decide)]
            exact Agree.rfl' _
        · split at h
          · rename_i hp; cases h
            obtain ⟨hop, hpl, rfl⟩ := hp
            refine ⟨hts, hto, ?_⟩
            obtain ⟨n, rfl, hr⟩ := plain_conf hpl ca
            have hnp : sa.isPyObject = false := by cases sa <;> simp [Ty.isPlainCInt] at hpl <;> rfl
            have hnu : sa ≠ .ucs4 := by intro h; subst h; simp [Ty.isPlainCInt] at hpl
            have hi : sa.isInt = true := by cases sa <;> simp [Ty.isPlainCInt] at hpl <;> rfl
            have hb : sa ≠ .bint := by intro h; subst h; simp [Ty.isPlainCInt] at hpl
            rcases hop with rfl | rfl
            · have e1 : unSem fo .inv sa (.int n) = .ok (.int (intNot n)) := by
                unfold unSem
                simp only [hnp, Bool.false_eq_true, if_false, if_neg hnu, hi, if_true, cInt?, widest_plain hpl,
                  mkInt, inRange_not hpl hr, hb, reduceCtorEq]
              rw [e1]; exact Agree.rfl' _
            · have e1 : unSem fo .pos sa (.int n) = .ok (.int n) := by
                unfold unSem
                simp only [hnp, Bool.false_eq_true, if_false, if_neg hnu, hi, if_true, cInt?, widest_plain hpl,
                  mkInt, hr, hb, reduceCtorEq]
              rw [e1]; exact Agree.rfl' _
          · split at h
            · rename_i hp; cases h
              obtain ⟨hop, rfl, rfl⟩ := hp
              refine ⟨hts, hto, ?_⟩
              obtain ⟨x, rfl⟩ := ca
              rcases hop with rfl | rfl <;> exact Agree.rfl' _
            · cases h
  · cases h

theorem cmpSem_nonis_c {fo : FOps F} {op : CmpOp} {ta tb : Ty} {a b : Val F} (hop : ¬(op = .is_ ∨ op = .isnot))
    (hc : cCompare ta tb = false) : cmpSem fo op ta tb a b = pyCmp fo op a b := by
  unfold cmpSem
  rw [if_neg hop]
  simp [hc]

/-- values of C integers and bints as integers -/
theorem intLikeC_cInt {t : Ty} {v : Val F} (ht : t.isPlainCInt = true ∨ t = .bint) (h : conf t v) :
    ∃ n, cInt? v = some n ∧ v.num? = some (.i n) := by
  rcases ht with ht | rfl
  · obtain ⟨n, rfl, _⟩ := plain_conf ht h; exact ⟨n, rfl, rfl⟩
  · obtain ⟨b, rfl⟩ := h; exact ⟨_, rfl, rfl⟩

theorem pyCmp_ints {fo : FOps F} {op : CmpOp} {a b : Val F} {x y : Int} (hop : ¬(op = .is_ ∨ op = .isnot))
    (ha : a.num? = some (.i x)) (hb : b.num? = some (.i y)) : pyCmp fo op a b = .ok (.bool (cmpInt op x y)) := by
  unfold pyCmp
  cases op <;> simp at hop <;> simp [ha, hb]

theorem cmpOK_sound {fo : FOps F} {op : CmpOp} {Γ : Nat → Ty} {nt : Nat → Option Ty} {e1 e2 : Expr}
    {sa oa sb ob ts to : Ty} {va vb : Val F}
    (h : cmpOK op Γ nt e1 e2 (sa, oa) (sb, ob) = .ok (ts, to)) (ca : conf sa va) (cb : conf sb vb)
    (hnone : e2 = .none → vb = .none) :
    aty Γ nt (.cmp op e1 e2) = some ts ∧ aty objEnv noNt (.cmp op e1 e2) = some to ∧
    Agree (cmpSem fo op sa sb va vb) (cmpSem fo op oa ob va vb) := by
  unfold cmpOK at h
  simp only at h
  split at h
  · rename_i ts' to' hts hto
    split at h
    · rename_i hs; cases h; obtain ⟨rfl, rfl⟩ := hs
      exact ⟨hts, hto, Agree.rfl' _⟩
    · split at h
      · -- is / is not None
        rename_i hop
        split at h
        · rename_i hp; cases h
          obtain ⟨hpo, hcs, he⟩ := hp
          refine ⟨hts, hto, ?_⟩
          have hv := hnone he; subst hv
          unfold cmpSem
          rw [if_pos hop, if_pos hop, if_pos hpo]
          by_cases hps : sa.isPyObject = true
          · rw [if_pos hps]; exact Agree.rfl' _
          · rw [if_neg hps]
            have hva : ∀ (P : Prop), va = .none → P := by
              intro P hh; subst hh
              rcases hcs with h | h | h | h | h
              · exact absurd h hps
              · obtain ⟨n, hn, _⟩ := plain_conf h ca; cases hn
              · subst h; obtain ⟨b, hb⟩ := ca; cases hb
              · subst h; obtain ⟨b, hb⟩ := ca; cases hb
              · subst h; obtain ⟨b, hb⟩ := ca; cases hb
            rcases hop with rfl | rfl
            · cases va <;> first | exact Agree.rfl' _ | exact hva _ rfl
            · cases va <;> first | exact Agree.rfl' _ | exact hva _ rfl
        · cases h
      · rename_i hop
        split at h
        · -- C integers / bints
          rename_i hp; cases h
          obtain ⟨hia, hib, hoa, hob⟩ := hp
          refine ⟨hts, hto, ?_⟩
          have hia' : sa.isPlainCInt = true ∨ sa = .bint := by simpa using hia
          have hib' : sb.isPlainCInt = true ∨ sb = .bint := by simpa using hib
          obtain ⟨x, hx, hxn⟩ := intLikeC_cInt hia' ca
          obtain ⟨y, hy, hyn⟩ := intLikeC_cInt hib' cb
          have e1 : cmpSem fo op sa sb va vb = .ok (.bool (cmpInt op x y)) := by
            unfold cmpSem
            rw [if_neg hop]
            have hc : cCompare sa sb = true := by
              rcases hia' with h | rfl <;> rcases hib' with h' | rfl
              · cases sa <;> simp [Ty.isPlainCInt] at h <;> cases sb <;> simp [Ty.isPlainCInt] at h' <;> rfl
              · cases sa <;> simp [Ty.isPlainCInt] at h <;> rfl
              · cases sb <;> simp [Ty.isPlainCInt] at h' <;> rfl
              · rfl
            have hii : sa.isInt = true ∧ sb.isInt = true := by
              constructor
              · rcases hia' with h | rfl
                · cases sa <;> simp [Ty.isPlainCInt] at h <;> rfl
                · rfl
              · rcases hib' with h | rfl
                · cases sb <;> simp [Ty.isPlainCInt] at h <;> rfl
                · rfl
            rw [if_pos hc, if_pos hii, hx, hy]
          rw [e1]
          by_cases hsame : oa = sa ∧ ob = sb
          · obtain ⟨rfl, rfl⟩ := hsame; rw [e1]; exact Agree.rfl' _
          · have hc : cCompare oa ob = false := by
              rcases hoa with rfl | rfl <;> rcases hob with rfl | rfl
              · exact absurd ⟨rfl, rfl⟩ hsame
              · simp [cCompare, Ty.isNumeric]
              · simp [cCompare, Ty.isNumeric]
              · simp [cCompare, Ty.isNumeric]
            rw [cmpSem_nonis_c hop hc, pyCmp_ints hop hxn hyn]
            exact Agree.rfl' _
        · split at h
          · -- C doubles
            rename_i hp; cases h
            obtain ⟨rfl, rfl, hoa, hob⟩ := hp
            refine ⟨hts, hto, ?_⟩
            obtain ⟨x, rfl⟩ := ca
            obtain ⟨y, rfl⟩ := cb
            have e1 : cmpSem fo op .cdouble .cdouble (.flt x) (.flt y) = .ok (.bool (fo.cmp op x y) : Val F) := by
              unfold cmpSem
              rw [if_neg hop]
              rfl
            rw [e1]
            have e2 : pyCmp fo op (.flt x) (.flt y) = .ok (.bool (fo.cmp op x y) : Val F) := by
              unfold pyCmp
              cases op <;> simp at hop <;> rfl
            rcases hoa with rfl | rfl <;> rcases hob with rfl | rfl
            · rw [e1]; exact Agree.rfl' _
            · rw [cmpSem_nonis_c hop (by simp [cCompare, Ty.isNumeric]), e2]; exact Agree.rfl' _
            · rw [cmpSem_nonis_c hop (by simp [cCompare, Ty.isNumeric]), e2]; exact Agree.rfl' _
            · rw [cmpSem_nonis_c hop (by simp [cCompare, Ty.isNumeric]), e2]; exact Agree.rfl' _
          · split at h
            · rename_i hp; cases h
              obtain ⟨h1, h2⟩ := hp
              refine ⟨hts, hto, ?_⟩
              rw [cmpSem_nonis_c hop (by simpa using h1), cmpSem_nonis_c hop (by simpa using h2)]
              exact Agree.rfl' _
            · cases h
  · cases h

end CyVerif.C40

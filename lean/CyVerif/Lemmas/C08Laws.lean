import CyVerif.Model.C08Drv
/-!
# C08 — the IEEE-754 facts used as hypotheses.

Each structure lists facts that hold for IEEE-754 binary64/binary32 arithmetic in round-to-nearest with
NaNs identified (and C99 Annex F for `hypot`).  They are HYPOTHESES of the theorems: nothing here is
proved about hardware floats, except `floatConstLaws`, which the kernel checks on Lean's `Float` model.
-/
namespace CyVerif.C08

variable {F : Type}

/-- commutativity of `+` and `*` -/
structure CommLaws (o : FOps F) : Prop where
  add_comm : ∀ x y, o.add x y = o.add y x
  mul_comm : ∀ x y, o.mul x y = o.mul y x

/-- comparisons with zero -/
structure OrderLaws (o : FOps F) : Prop where
  /-- `-x == 0` iff `x == 0` -/
  eq_neg_zero : ∀ x, o.eq (o.neg x) o.zero = o.eq x o.zero
  /-- any two zeros compare `<=` -/
  le_of_eq_zero : ∀ x y, o.eq x o.zero = true → o.eq y o.zero = true → o.le x y = true
  /-- `x < 0` implies not `-x < 0` -/
  lt_neg_zero : ∀ x, o.lt x o.zero = true → o.lt (o.neg x) o.zero = false
  /-- `u <= v`, `v == 0`, not `u < 0` imply `u == 0` -/
  eq_zero_of_le : ∀ u v, o.le u v = true → o.eq v o.zero = true → o.lt u o.zero = false → o.eq u o.zero = true

/-- `fabs(y) <= fabs(x)` agrees with CPython's `(y < 0 ? -y : y) <= (x < 0 ? -x : x)` -/
structure AbsLaws (o : FOps F) : Prop where
  le_abs : ∀ x y, o.le (o.abs y) (o.abs x) = o.le (absLt o y) (absLt o x)

/-- C99 F.10.4.3 `hypot`, and `fabs`/classification of infinities -/
structure HypotLaws (o : FOps F) : Prop where
  hypot_inf_left : ∀ x y, o.isInf x = true → o.hypot x y = o.abs x
  hypot_inf_right : ∀ x y, o.isInf y = true → o.hypot x y = o.abs y
  hypot_nan : ∀ x y, (o.isNaN x || o.isNaN y) = true → o.isInf x = false → o.isInf y = false → o.hypot x y = o.nan

/-- NaN propagation through the sqrt formula -/
structure NanLaws (o : FOps F) : Prop where
  mul_nan : ∀ x, o.isNaN x = true → o.isNaN (o.mul x x) = true
  add_nan_right : ∀ x y, o.isNaN y = true → o.isNaN (o.add x y) = true
  sqrt_nan : ∀ x, o.isNaN x = true → o.isNaN (o.sqrt x) = true
  abs_inf : ∀ x, o.isInf x = true → o.isInf (o.abs x) = true
  nan_not_inf : ∀ x, o.isNaN x = true → o.isInf x = false

/-- arithmetic on the constants 0.0 and 1.0 (all exact in IEEE-754) -/
structure ConstLaws (o : FOps F) : Prop where
  lt_one_zero : o.lt o.one o.zero = false
  lt_zero_zero : o.lt o.zero o.zero = false
  le_zero_one : o.le o.zero o.one = true
  eq_one_zero : o.eq o.one o.zero = false
  div_zero_one : o.div o.zero o.one = o.zero
  mul_zero_zero : o.mul o.zero o.zero = o.zero
  mul_one_zero : o.mul o.one o.zero = o.zero
  add_one_zero : o.add o.one o.zero = o.one
  sub_zero_zero : o.sub o.zero o.zero = o.zero
  div_one_one : o.div o.one o.one = o.one
  inf_one : o.isInf o.one = false
  inf_zero : o.isInf o.zero = false

/-- multiplying by 1.0 and 0.0, adding / subtracting a zero -/
structure UnitLaws (o : FOps F) : Prop where
  one_mul : ∀ x, o.mul o.one x = x
  zero_mul : ∀ x, o.isInf x = false → o.isNaN x = false → o.eq (o.mul o.zero x) o.zero = true
  sub_zero : ∀ x z, o.eq z o.zero = true → o.eq x o.zero = false → o.sub x z = x
  add_zero : ∀ x z, o.eq z o.zero = true → o.eq x o.zero = false → o.add x z = x

/-- the constant facts hold on Lean's `Float` model of binary64 (kernel computation) -/
theorem floatConstLaws : ConstLaws floatOps := by
  constructor <;> decide

end CyVerif.C08

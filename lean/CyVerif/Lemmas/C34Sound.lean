import CyVerif.Lemmas.C34Map
/-! Soundness of the type mapper w.r.t. the documented rule, case by case on the argument class. -/
namespace CyVerif.C34

variable {below : Ty → Bool} {s ms : List (Ty × Nat)} {an : Bool} {i : Nat}

theorem biggest_nil {K : Ty → Bool} (h : ∀ q ∈ ms, K q.1 = false) : biggest K ms = [] := by
  simp only [biggest, List.filter_eq_nil_iff]
  intro p hp; simp [h p hp]

theorem numeric_sound (v : Val) (K : Ty → Bool)
    (hperm : s.Perm ms) (hs : NoInv below s)
    (hI : ∀ p ∈ s, isInst v p.1 = K p.1)
    (hnp : ∀ t, npMatch v t = false) (htr : ∀ t, trialOK v t = false) (hnone : (v == Val.none) = false)
    (hex : exactSet ms an v = []) (hnum : numSet ms v = biggest K ms)
    (hmono : ∀ p ∈ ms, ∀ q ∈ ms, K p.1 = true → K q.1 = true → lt below q.1 p.1 = false → q.1.size ≤ p.1.size)
    (h : mapType s an v = some i) : i ∈ docChoice ms an v := by
  have hc : s.find? (fun p => isInst v p.1) = s.find? (fun p => K p.1) := find_congr hI
  cases hf : s.find? (fun p => K p.1) with
  | some p =>
    rw [hf] at hc
    simp only [mapType, hc] at h
    cases h
    obtain ⟨hp, hK, -⟩ := first_hit hf hs
    have hpm := hperm.mem_iff.mp hp
    have hb : p ∈ biggest K ms :=
      first_is_biggest hperm hs hf (fun q hq hk hlt => hmono p hpm q hq hK hk hlt)
    exact doc_of_num hex (hnum ▸ hb)
  | none =>
    rw [hf] at hc
    rw [mapType_tail hnp htr hnone hc] at h
    obtain ⟨p, hp, ho, rfl⟩ := obj_find hperm h
    have hn : numSet ms v = [] := by
      rw [hnum]; apply biggest_nil
      intro q hq
      have := List.find?_eq_none.mp hf q (hperm.mem_iff.mpr hq)
      simpa using this
    exact doc_of_obj hex hn hp ho

theorem cint_mono (hn : Nice ms v) :
    ∀ p ∈ ms, ∀ q ∈ ms, Ty.isCint p.1 = true → Ty.isCint q.1 = true → lt below q.1 p.1 = false → q.1.size ≤ p.1.size := by
  intro p hp q hq hkp hkq hlt
  rcases q with ⟨tq, iq⟩; rcases p with ⟨tp, ip⟩
  cases tq <;> simp [Ty.isCint] at hkq
  cases tp <;> simp [Ty.isCint] at hkp
  next r1 g1 z1 r2 g2 z2 =>
  have e1 := hn.signed _ hq _ _ _ rfl
  have e2 := hn.signed _ hp _ _ _ rfl
  subst e1; subst e2
  exact hn.mono _ hq _ hp rfl (lt_false_cint hlt)

theorem cfloat_mono (hn : Nice ms v) :
    ∀ p ∈ ms, ∀ q ∈ ms, Ty.isCfloat p.1 = true → Ty.isCfloat q.1 = true → lt below q.1 p.1 = false → q.1.size ≤ p.1.size := by
  intro p hp q hq hkp hkq hlt
  rcases q with ⟨tq, iq⟩; rcases p with ⟨tp, ip⟩
  cases tq <;> simp [Ty.isCfloat] at hkq
  cases tp <;> simp [Ty.isCfloat] at hkp
  exact hn.mono _ hq _ hp rfl (lt_false_cfloat hlt)

theorem ccomplex_mono (hn : Nice ms v) :
    ∀ p ∈ ms, ∀ q ∈ ms, Ty.isCcomplex p.1 = true → Ty.isCcomplex q.1 = true → lt below q.1 p.1 = false → q.1.size ≤ p.1.size := by
  intro p hp q hq hkp hkq hlt
  rcases q with ⟨tq, iq⟩; rcases p with ⟨tp, ip⟩
  cases tq <;> simp [Ty.isCcomplex] at hkq
  cases tp <;> simp [Ty.isCcomplex] at hkp
  exact hn.mono _ hq _ hp rfl (lt_false_ccomplex hlt)

theorem sound_int (hperm : s.Perm ms) (hs : NoInv below s) (hn : Nice ms .int)
    (h : mapType s an .int = some i) : i ∈ docChoice ms an .int :=
  numeric_sound .int Ty.isCint hperm hs (fun p _ => by cases p.1 <;> simp [isInst, Ty.isCint])
    (fun t => by cases t <;> simp [npMatch]) (fun t => by cases t <;> simp [trialOK]) (by decide)
    rfl rfl (cint_mono hn) h

theorem sound_float (hperm : s.Perm ms) (hs : NoInv below s) (hn : Nice ms .float)
    (h : mapType s an .float = some i) : i ∈ docChoice ms an .float :=
  numeric_sound .float Ty.isCfloat hperm hs (fun p _ => by cases p.1 <;> simp [isInst, Ty.isCfloat])
    (fun t => by cases t <;> simp [npMatch]) (fun t => by cases t <;> simp [trialOK]) (by decide)
    rfl rfl (cfloat_mono hn) h

theorem sound_complex (hperm : s.Perm ms) (hs : NoInv below s) (hn : Nice ms .complex)
    (h : mapType s an .complex = some i) : i ∈ docChoice ms an .complex :=
  numeric_sound .complex Ty.isCcomplex hperm hs (fun p _ => by cases p.1 <;> simp [isInst, Ty.isCcomplex])
    (fun t => by cases t <;> simp [npMatch]) (fun t => by cases t <;> simp [trialOK]) (by decide)
    rfl rfl (ccomplex_mono hn) h


theorem npMatch_false_of_not_buf {v : Val} (h : ∀ a b c d e f g, v ≠ .buf a b c d e f g) (t : Ty) : npMatch v t = false := by
  cases t <;> try (simp [npMatch]; done)
  cases v <;> try (simp [npMatch]; done)
  all_goals exact absurd rfl (h _ _ _ _ _ _ _)

theorem trialOK_false_of_not_buf {v : Val} (h : ∀ a b c d e f g, v ≠ .buf a b c d e f g) (t : Ty) : trialOK v t = false := by
  cases t <;> try (simp [trialOK]; done)
  all_goals (cases v <;> try (simp [trialOK]; done))
  all_goals exact absurd rfl (h _ _ _ _ _ _ _)

/-- a first `isinstance` hit that is an exact match -/
theorem exact_hit_sound {v : Val} {p : Ty × Nat}
    (hf : s.find? (fun p => isInst v p.1) = some p) (hp : p ∈ exactSet ms an v)
    (h : mapType s an v = some i) : i ∈ docChoice ms an v := by
  simp only [mapType, hf] at h
  cases h
  exact doc_of_exact hp

theorem sound_bool (hperm : s.Perm ms) (hs : NoInv below s) (hn : Nice ms .bool)
    (h : mapType s an .bool = some i) : i ∈ docChoice ms an .bool := by
  by_cases hb : ∃ p ∈ ms, p.1 = Ty.bint
  · have hnc := hn.boolOK rfl hb
    cases hf : s.find? (fun p => isInst .bool p.1) with
    | some p =>
      have hpm := hperm.mem_iff.mp (List.mem_of_find?_eq_some hf)
      have hP : isInst .bool p.1 = true := by have := List.find?_some hf; simpa using this
      have hpb : p.1 = Ty.bint := by
        have := hnc p hpm
        rcases p with ⟨t, j⟩
        cases t <;> simp_all [isInst, Ty.isCint]
      refine exact_hit_sound hf ?_ h
      simp only [exactSet, List.mem_filter]
      exact ⟨hpm, by simp [hpb]⟩
    | none =>
      obtain ⟨q, hq, hqb⟩ := hb
      have := List.find?_eq_none.mp hf q (hperm.mem_iff.mpr hq)
      simp [hqb, isInst] at this
  · have hnb : ∀ p ∈ ms, p.1 ≠ Ty.bint := fun p hp hpb => hb ⟨p, hp, hpb⟩
    refine numeric_sound .bool Ty.isCint hperm hs ?_ (fun t => by cases t <;> simp [npMatch])
      (fun t => by cases t <;> simp [trialOK]) (by decide) ?_ rfl (cint_mono hn) h
    · intro p hp
      have := hnb p (hperm.mem_iff.mp hp)
      rcases p with ⟨t, j⟩
      cases t <;> simp_all [isInst, Ty.isCint]
    · simp only [exactSet, List.filter_eq_nil_iff]
      intro p hp; simpa using hnb p hp

theorem sound_other_like {v : Val}
    (hperm : s.Perm ms)
    (hI : ∀ t, isInst v t = false) (hnb : ∀ a b c d e f g, v ≠ .buf a b c d e f g) (hnone : (v == Val.none) = false)
    (hex : exactSet ms an v = []) (hnum : numSet ms v = [])
    (h : mapType s an v = some i) : i ∈ docChoice ms an v := by
  have hf : s.find? (fun p => isInst v p.1) = none := find_none_of (fun x _ => hI x.1)
  rw [mapType_tail (npMatch_false_of_not_buf hnb) (trialOK_false_of_not_buf hnb) hnone hf] at h
  obtain ⟨p, hp, ho, rfl⟩ := obj_find hperm h
  exact doc_of_obj hex hnum hp ho

theorem sound_other (hperm : s.Perm ms) (h : mapType s an .other = some i) : i ∈ docChoice ms an .other :=
  sound_other_like hperm (fun t => by cases t <;> simp [isInst]) (by intros; simp) (by decide) rfl rfl h

theorem sound_builtin (n : Nat) (e : Bool) (hperm : s.Perm ms) (hn : Nice ms (.builtin n e))
    (h : mapType s an (.builtin n e) = some i) : i ∈ docChoice ms an (.builtin n e) := by
  cases hf : s.find? (fun p => isInst (.builtin n e) p.1) with
  | some p =>
    have hpm := hperm.mem_iff.mp (List.mem_of_find?_eq_some hf)
    have hP : isInst (.builtin n e) p.1 = true := by have := List.find?_some hf; simpa using this
    have hpe : p.1 = Ty.builtin n := by
      rcases p with ⟨t, j⟩
      cases t <;> simp [isInst] at hP
      simp [hP]
    cases e with
    | true =>
      refine exact_hit_sound hf ?_ h
      simp only [exactSet, List.mem_filter]
      exact ⟨hpm, by simp [hpe]⟩
    | false => exact absurd hpe (hn.subOK n rfl p hpm)
  | none =>
    have hnone : ∀ q ∈ ms, q.1 ≠ Ty.builtin n := by
      intro q hq hqe
      have := List.find?_eq_none.mp hf q (hperm.mem_iff.mpr hq)
      simp [hqe, isInst] at this
    have hex : exactSet ms an (.builtin n e) = [] := by
      cases e with
      | true =>
        simp only [exactSet, List.filter_eq_nil_iff]
        intro q hq; simpa using hnone q hq
      | false => rfl
    rw [mapType_tail (npMatch_false_of_not_buf (by intros; simp)) (trialOK_false_of_not_buf (by intros; simp)) (by simp) hf] at h
    obtain ⟨p, hp, ho, rfl⟩ := obj_find hperm h
    exact doc_of_obj hex rfl hp ho


theorem sound_none (hperm : s.Perm ms) (h : mapType s an .none = some i) : i ∈ docChoice ms an .none := by
  have hf : s.find? (fun p => isInst .none p.1) = none :=
    find_none_of (fun x _ => by cases x.1 <;> simp [isInst])
  have hnp : (s.filter (fun p => p.1.isMv)).find? (fun p => npMatch .none p.1) = none :=
    find_none_of (fun x _ => by cases x.1 <;> simp [npMatch])
  have htr : (s.filter (fun p => p.1.isMv)).find? (fun p => sizeNdim .none p.1 && trialOK .none p.1) = none :=
    find_none_of (fun x _ => by cases x.1 <;> simp [trialOK])
  simp only [mapType, hf, hnp, htr] at h
  cases hh : (if (an && (Val.none == Val.none)) = true then (s.filter (fun p => p.1.isMv)).head? else none) with
  | some p =>
    simp only [hh] at h
    cases h
    cases an with
    | false => simp at hh
    | true =>
      simp at hh
      have hm := List.mem_of_find?_eq_some hh
      have hmv : p.1.isMv = true := by have := List.find?_some hh; simpa using this
      apply doc_of_exact
      simp only [exactSet, List.mem_filter]
      exact ⟨hperm.mem_iff.mp hm, by simp [hmv]⟩
  | none =>
    simp only [hh] at h
    obtain ⟨p, hp, ho, rfl⟩ := obj_find hperm h
    apply doc_of_exact
    simp only [exactSet, List.mem_filter]
    exact ⟨hp, by simp [ho]⟩

theorem fromPyOK_trial {v : Val} {t : Ty} (h : fromPyOK v t = true) :
    t.isMv = true ∧ (sizeNdim v t && trialOK v t) = true := by
  cases t <;> simp [fromPyOK] at h
  cases v <;> simp at h
  simp [Ty.isMv, sizeNdim, trialOK, h]

theorem sound_buf (a : Bool) (b c d : Nat) (e f g : Bool) (hperm : s.Perm ms) (hn : Nice ms (.buf a b c d e f g))
    (h : mapType s an (.buf a b c d e f g) = some i) : i ∈ docChoice ms an (.buf a b c d e f g) := by
  have hf : s.find? (fun p => isInst (.buf a b c d e f g) p.1) = none :=
    find_none_of (fun x _ => by cases x.1 <;> simp [isInst])
  have hnn : (an && (Val.buf a b c d e f g == Val.none)) = false := by simp
  simp only [mapType, hf, hnn] at h
  cases h1 : (s.filter (fun p => p.1.isMv)).find? (fun p => npMatch (.buf a b c d e f g) p.1) with
  | some p =>
    simp only [h1] at h; cases h
    have hm := (List.mem_filter.mp (List.mem_of_find?_eq_some h1)).1
    have hP : npMatch (.buf a b c d e f g) p.1 = true := by have := List.find?_some h1; simpa using this
    apply doc_of_exact
    simp only [exactSet, List.mem_filter]
    exact ⟨hperm.mem_iff.mp hm, hn.bufOK p (hperm.mem_iff.mp hm) (Or.inl hP)⟩
  | none =>
    simp only [h1] at h
    cases h2 : (s.filter (fun p => p.1.isMv)).find? (fun p => sizeNdim (.buf a b c d e f g) p.1 && trialOK (.buf a b c d e f g) p.1) with
    | some p =>
      simp [h2] at h; cases h
      have hm := (List.mem_filter.mp (List.mem_of_find?_eq_some h2)).1
      have hP : (sizeNdim (.buf a b c d e f g) p.1 && trialOK (.buf a b c d e f g) p.1) = true := by
        have := List.find?_some h2; simpa using this
      have hT : trialOK (.buf a b c d e f g) p.1 = true := by
        have := Bool.and_eq_true_iff.mp hP; exact this.2
      apply doc_of_exact
      simp only [exactSet, List.mem_filter]
      exact ⟨hperm.mem_iff.mp hm, hn.bufOK p (hperm.mem_iff.mp hm) (Or.inr hT)⟩
    | none =>
      simp [h2] at h
      obtain ⟨p, hp, ho, rfl⟩ := obj_find hperm (by simpa using h)
      have hex : exactSet ms an (.buf a b c d e f g) = [] := by
        simp only [exactSet, List.filter_eq_nil_iff]
        intro q hq hqf
        obtain ⟨hmv, htr⟩ := fromPyOK_trial hqf
        have hqs : q ∈ s.filter (fun p => p.1.isMv) := List.mem_filter.mpr ⟨hperm.mem_iff.mpr hq, hmv⟩
        have := List.find?_eq_none.mp h2 q hqs
        exact this htr
      exact doc_of_obj hex rfl hp ho


theorem isInst_inst {mro : List Nat} {t : Ty} (h : isInst (.inst mro) t = true) : ∃ c, t = .ext c ∧ c ∈ mro := by
  cases t <;> simp [isInst] at h
  next c => exact ⟨c, rfl, h⟩

theorem sound_inst (mro : List Nat) (hperm : s.Perm ms) (hn : Nice ms (.inst mro))
    (h : mapType s an (.inst mro) = some i) : i ∈ docChoice ms an (.inst mro) := by
  cases hf : s.find? (fun p => isInst (.inst mro) p.1) with
  | some p =>
    have hpm := hperm.mem_iff.mp (List.mem_of_find?_eq_some hf)
    have hP : isInst (.inst mro) p.1 = true := by have := List.find?_some hf; simpa using this
    obtain ⟨c, hpc, hc⟩ := isInst_inst hP
    refine exact_hit_sound hf ?_ h
    cases hne : nearestExt ms mro with
    | none =>
      have := List.find?_eq_none.mp hne c hc
      simp only [List.any_eq_true, not_exists, not_and] at this
      exact absurd (by simp [hpc]) (this p hpm)
    | some c0 =>
      have hc0 : c0 ∈ mro := List.mem_of_find?_eq_some hne
      have hany : (ms.any fun p => p.1 == Ty.ext c0) = true := by have := List.find?_some hne; simpa using this
      obtain ⟨q, hq, hqe⟩ := List.any_eq_true.mp hany
      have hqe' : q.1 = Ty.ext c0 := by simpa using hqe
      have := hn.extOK mro rfl p hpm q hq c c0 hpc hqe' hc hc0
      subst this
      simp only [exactSet, hne, List.mem_filter]
      exact ⟨hpm, by simp [hpc]⟩
  | none =>
    have hne : nearestExt ms mro = none := by
      apply List.find?_eq_none.mpr
      intro c hc hany
      obtain ⟨q, hq, hqe⟩ := List.any_eq_true.mp hany
      have hqe' : q.1 = Ty.ext c := by simpa using hqe
      have := List.find?_eq_none.mp hf q (hperm.mem_iff.mpr hq)
      simp [hqe', isInst, hc] at this
    have hex : exactSet ms an (.inst mro) = [] := by simp [exactSet, hne]
    rw [mapType_tail (npMatch_false_of_not_buf (by intros; simp)) (trialOK_false_of_not_buf (by intros; simp)) (by simp) hf] at h
    obtain ⟨p, hp, ho, rfl⟩ := obj_find hperm h
    exact doc_of_obj hex rfl hp ho

/-- **Soundness of the generated type tests w.r.t. the documented rule**, all argument classes -/
theorem mapType_sound (v : Val) (hperm : s.Perm ms) (hs : NoInv below s) (hn : Nice ms v)
    (h : mapType s an v = some i) : i ∈ docChoice ms an v := by
  cases v with
  | int => exact sound_int hperm hs hn h
  | bool => exact sound_bool hperm hs hn h
  | float => exact sound_float hperm hs hn h
  | complex => exact sound_complex hperm hs hn h
  | none => exact sound_none hperm h
  | builtin n e => exact sound_builtin n e hperm hn h
  | inst mro => exact sound_inst mro hperm hn h
  | buf a b c d e f g => exact sound_buf a b c d e f g hperm hn h
  | other => exact sound_other hperm h

end CyVerif.C34

import CyVerif.Lemmas.C33Basic
/-! # C33 — error propagation: the first failing position (any depth) decides the outcome -/
namespace CyVerif.C33

def errOf {α} : R α → Option String
  | .error e => some e
  | .ok _ => none

/-- the error raised by the node itself, before any element is converted: a failing leaf conversion or a
wrong container shape (not iterable, no `.items()`, not a mapping / missing key, wrong length) -/
def immediate (m : Mode) : Ty → PyVal → Option String
  | .int w sg, p => errOf (intLeaf w sg p)
  | .dbl, p => errOf (dblLeaf p)
  | .bool, _ => none
  | .str, p => errOf (strLeaf m p)
  | .cstr, p => errOf (strLeaf m p)
  | .cplx, p => errOf (cplxLeaf p)
  | .pair _ _, p => match iterate p with
    | .error e => some e
    | .ok xs => if xs.length = 2 then none else some "ValueError"
  | .vec _, p => errOf (iterate p)
  | .lst _, p => errOf (iterate p)
  | .set _, p => errOf (iterate p)
  | .uset _, p => errOf (iterate p)
  | .map _ _, p => errOf (items p)
  | .umap _ _, p => errOf (items p)
  | .struct ns _, p => if isMapping p then errOf (lookups p ns) else some "TypeError"
  | .union _ _, _ => none
  | .carray _ n, p => match pyLen p with
    | some l => if l = n then errOf (iterate p) else some "IndexError"
    | none => errOf (iterate p)
  | .ctuple ts, p => match p with
    | .tuple xs => if xs.length = ts.length then none else some "TypeError"
    | .list xs => if xs.length = ts.length then none else some "TypeError"
    | p => if isSequence p then
        match iterate p with
        | .error e => some e
        | .ok xs => if xs.length = ts.length then none else some "TypeError"
      else some "TypeError"

/-- homogeneous containers: element type and the values converted one after the other -/
def elems : Ty → PyVal → Option (Ty × List PyVal)
  | .vec t, p => match iterate p with | .ok xs => some (t, xs) | _ => none
  | .lst t, p => match iterate p with | .ok xs => some (t, xs) | _ => none
  | .set t, p => match iterate p with | .ok xs => some (t, xs) | _ => none
  | .uset t, p => match iterate p with | .ok xs => some (t, xs) | _ => none
  | .carray t n, p => match pyLen p, iterate p with
    | some l, .ok xs => if l = n then some (t, xs) else none
    | none, .ok xs => some (t, xs.take n)
    | _, _ => none
  | _, _ => none

/-- positional containers: component types and the values converted in order -/
def comps : Ty → PyVal → Option (List Ty × List PyVal)
  | .pair a b, p => match iterate p with | .ok [x, y] => some ([a, b], [x, y]) | _ => none
  | .struct ns ts, p => if isMapping p then
      match lookups p ns with | .ok vs => some (ts, vs) | _ => none
    else none
  | .ctuple ts, p => match p with
    | .tuple xs => if xs.length = ts.length then some (ts, xs) else none
    | .list xs => if xs.length = ts.length then some (ts, xs) else none
    | p => if isSequence p then
        match iterate p with
        | .ok xs => if xs.length = ts.length then some (ts, xs) else none
        | _ => none
      else none
  | _, _ => none

def mapTys : Ty → Option (Ty × Ty)
  | .map k v => some (k, v) | .umap k v => some (k, v) | _ => none

/-- `FirstBad m t p e`: walking `p` in conversion order, the first thing that goes wrong is an error `e`
raised at some node (leaf or container, at ANY depth); everything converted before it was fine. -/
inductive FirstBad (m : Mode) : Ty → PyVal → String → Prop
  | node {t p e} : immediate m t p = some e → FirstBad m t p e
  | elem {t p t' pre x post e} : elems t p = some (t', pre ++ x :: post) →
      (∀ a ∈ pre, ∃ c, fromPy m t' a = .ok c) → FirstBad m t' x e → FirstBad m t p e
  | comp {t p ts xs tpre ti tpost xpre xi xpost e} : comps t p = some (ts, xs) →
      ts = tpre ++ ti :: tpost → xs = xpre ++ xi :: xpost → tpre.length = xpre.length →
      (∀ cs, fromPyL m tpre xpre ≠ .error cs) → FirstBad m ti xi e → FirstBad m t p e
  | mapKey {t p k v kvs pre kx vx post e} : mapTys t = some (k, v) → items p = .ok kvs →
      kvs = pre ++ (kx, vx) :: post →
      (∀ kv ∈ pre, ∃ ck cv, fromPy m k kv.1 = .ok ck ∧ fromPy m v kv.2 = .ok cv) →
      FirstBad m k kx e → FirstBad m t p e
  | mapVal {t p k v kvs pre kx vx post ck e} : mapTys t = some (k, v) → items p = .ok kvs →
      kvs = pre ++ (kx, vx) :: post →
      (∀ kv ∈ pre, ∃ ck cv, fromPy m k kv.1 = .ok ck ∧ fromPy m v kv.2 = .ok cv) →
      fromPy m k kx = .ok ck → FirstBad m v vx e → FirstBad m t p e
  /-- `carray.from_py` on an iterator without `len`: all of the first `n` items converted, then the count is wrong -/
  | carrayLate {t n p xs} : pyLen p = none → iterate p = .ok xs → xs.length ≠ n →
      (∀ a ∈ xs.take n, ∃ c, fromPy m t a = .ok c) → FirstBad m (.carray t n) p "IndexError"

theorem mapR_all_ok {α β} (f : α → R β) (xs : List α) (h : ∀ a ∈ xs, ∃ b, f a = .ok b) :
    ∃ ys, mapR f xs = .ok ys := by
  induction xs with
  | nil => exact ⟨[], rfl⟩
  | cons x xs ih =>
    obtain ⟨y, hy⟩ := h x (by simp)
    obtain ⟨ys, hys⟩ := ih (fun a ha => h a (by simp [ha]))
    exact ⟨y :: ys, mapR_cons_ok f x xs y ys hy hys⟩

theorem errOf_some {α} (r : R α) (e : String) (h : errOf r = some e) : r = .error e := by
  cases r <;> simp [errOf] at h; subst h; rfl

theorem fromPyL_append_err (m : Mode) : ∀ (tpre : List Ty) (xpre : List PyVal) (ti : Ty) (xi : PyVal)
    (tpost : List Ty) (xpost : List PyVal) (e : String), tpre.length = xpre.length →
    (∀ cs, fromPyL m tpre xpre ≠ .error cs) → fromPy m ti xi = .error e →
    fromPyL m (tpre ++ ti :: tpost) (xpre ++ xi :: xpost) = .error e
  | [], [], ti, xi, tpost, xpost, e, _, _, h => by simp [fromPyL, h, bind, Except.bind]
  | [], _ :: _, _, _, _, _, _, hl, _, _ => by simp at hl
  | _ :: _, [], _, _, _, _, _, hl, _, _ => by simp at hl
  | t :: tpre, x :: xpre, ti, xi, tpost, xpost, e, hl, hok, h => by
    cases hx : fromPy m t x with
    | error e' => exact absurd (by simp [fromPyL, hx, bind, Except.bind]) (hok e')
    | ok c =>
      have ih := fromPyL_append_err m tpre xpre ti xi tpost xpost e (by simpa using hl) (by
        intro cs hcs
        exact hok cs (by simp [fromPyL, hx, hcs, bind, Except.bind])) h
      simp [fromPyL, hx, ih, bind, Except.bind]

end CyVerif.C33

import CyVerif.Lemmas.C35AList
import CyVerif.Model.C35Nanny
/-! The refnanny `Context` against a counting specification. -/
namespace CyVerif.C35

/-- what an event means for the checker -/
inductive Kind where
  | nop
  | reg (p : Option Nat)
  | del (p : Option Nat) (decref : Bool)
  deriving DecidableEq, Repr

def NEv.line : NEv → Nat
  | .acquire _ => 0
  | .gotref _ l | .giveref _ l | .incref _ l | .decref _ l
  | .xgotref _ l | .xgiveref _ l | .xincref _ l | .xdecref _ l => l

def NEv.kind : NEv → Kind
  | .acquire _ => .nop
  | .gotref p _ => .reg p
  | .incref p _ => .reg p
  | .giveref p _ => .del p false
  | .decref p _ => .del p true
  | .xgotref p _ => if p.isNone then .nop else .reg p
  | .xincref p _ => if p.isNone then .nop else .reg p
  | .xgiveref p _ => if p.isNone then .nop else .del p false
  | .xdecref p _ => if p.isNone then .nop else .del p true

/-- refcount effect of an event that does not depend on the checker -/
def NEv.plus (e : NEv) (o : Nat) : Int :=
  match e with
  | .acquire x => if x = o then 1 else 0
  | .incref (some x) _ => if x = o then 1 else 0
  | .xincref (some x) _ => if x = o then 1 else 0
  | _ => 0

def inc (held : Nat → Nat) (o : Nat) : Nat → Nat := fun x => if x = o then held x + 1 else held x
def dec (held : Nat → Nat) (o : Nat) : Nat → Nat := fun x => if x = o then held x - 1 else held x

/-- counting specification: `held o` registered references to `o` are outstanding; every
registration is of a non-NULL pointer, every release finds an outstanding registration, nothing is
outstanding at the end -/
def balFrom (held : Nat → Nat) : List NEv → Prop
  | [] => ∀ o, held o = 0
  | e :: es =>
    match e.kind with
    | .nop => balFrom held es
    | .reg none => False
    | .del none _ => False
    | .reg (some o) => balFrom (inc held o) es
    | .del (some o) _ => 0 < held o ∧ balFrom (dec held o) es

def Balanced (es : List NEv) : Prop := balFrom (fun _ => 0) es

def cnt (c : Ctx) (o : Nat) : Nat :=
  match aget c.refs o with
  | none => 0
  | some e => e.1

/-- the checker state represents the counting state and has logged nothing -/
structure Rep (c : Ctx) (held : Nat → Nat) : Prop where
  noErr : c.errors = []
  pos : ∀ o e, aget c.refs o = some e → 0 < e.1
  count : ∀ o, cnt c o = held o

theorem rep_init : Rep Ctx.init (fun _ => 0) := by
  constructor <;> simp [Ctx.init, cnt, aget]

theorem rep_regref {c : Ctx} {held : Nat → Nat} (r : Rep c held) (o l : Nat) :
    Rep (c.regref (some o) l) (inc held o) := by
  have hc := r.count o
  unfold cnt at hc
  unfold Ctx.regref
  simp only
  split
  · rename_i hg
    rw [hg] at hc
    constructor
    · exact r.noErr
    · intro x e h
      by_cases hx : x = o
      · subst hx; simp only [aget_aset_self] at h; cases h; exact Nat.one_pos
      · simp only [aget_aset_ne _ _ hx] at h; exact r.pos x e h
    · intro x
      by_cases hx : x = o
      · subst hx; simp [cnt, aget_aset_self, inc, ← hc]
      · have := r.count x; simp [cnt, aget_aset_ne _ _ hx, inc, hx] at this ⊢; exact this
  · rename_i n ls hg
    rw [hg] at hc
    constructor
    · exact r.noErr
    · intro x e h
      by_cases hx : x = o
      · subst hx; simp only [aget_aset_self] at h; cases h; exact Nat.succ_pos _
      · simp only [aget_aset_ne _ _ hx] at h; exact r.pos x e h
    · intro x
      by_cases hx : x = o
      · subst hx; simp only [cnt, aget_aset_self, inc, if_true]; simp at hc; omega
      · have := r.count x; simp [cnt, aget_aset_ne _ _ hx, inc, hx] at this ⊢; exact this

theorem aget_filter_ne {β : Type} (l : List (Nat × β)) (o x : Nat) :
    aget (l.filter (fun e => e.1 != o)) x = if x = o then none else aget l x := by
  induction l with
  | nil => simp [aget]
  | cons p l ih =>
    by_cases hp : p.1 = o
    · simp only [List.filter_cons, hp, bne_self_eq_false, Bool.false_eq_true, if_false, ih, aget]
      by_cases hx : x = o
      · simp [hx]
      · have : ¬ o = x := fun e => hx e.symm
        simp [hx, this]
    · have : (p.1 != o) = true := by simp [hp]
      simp only [List.filter_cons, this, if_true, aget, ih]
      by_cases hx : x = o
      · have : ¬ p.1 = x := fun e => hp (e.trans hx)
        simp [hx, hp]
      · simp [hx]

theorem rep_delref {c : Ctx} {held : Nat → Nat} (r : Rep c held) (o l : Nat) (h : 0 < held o) :
    Rep (c.delref (some o) l).1 (dec held o) ∧ (c.delref (some o) l).2 = true := by
  have hc := r.count o
  unfold cnt at hc
  unfold Ctx.delref
  simp only
  split
  · rename_i hg; rw [hg] at hc; simp at hc; omega
  · rename_i n ls hg
    rw [hg] at hc
    simp only at hc
    have hn0 : ¬ n = 0 := by omega
    simp only [hn0, if_false]
    by_cases h1 : n = 1
    · simp only [h1, if_true, and_true]
      constructor
      · exact r.noErr
      · intro x e hx
        rw [aget_filter_ne] at hx
        split at hx
        · cases hx
        · exact r.pos x e hx
      · intro x
        simp only [cnt, aget_filter_ne, dec]
        by_cases hx : x = o
        · subst hx; simp; omega
        · have := r.count x; simp only [cnt] at this; simp [hx, this]
    · simp only [h1, if_false, and_true]
      constructor
      · exact r.noErr
      · intro x e hx
        by_cases hxo : x = o
        · subst hxo; simp only [aget_aset_self] at hx; cases hx; show 0 < n - 1; omega
        · simp only [aget_aset_ne _ _ hxo] at hx; exact r.pos x e hx
      · intro x
        by_cases hx : x = o
        · subst hx; simp only [cnt, aget_aset_self, dec, if_true]; omega
        · have := r.count x; simp [cnt, aget_aset_ne _ _ hx, dec, hx] at this ⊢; exact this

theorem delref_zero_errors {c : Ctx} {held : Nat → Nat} (r : Rep c held) (o l : Nat) (h : held o = 0) :
    (c.delref (some o) l).1.errors ≠ [] := by
  have hc := r.count o
  unfold cnt at hc
  unfold Ctx.delref
  simp only
  split
  · simp
  · rename_i n ls hg
    rw [hg] at hc
    have := r.pos o _ hg
    simp only at hc this
    omega

end CyVerif.C35

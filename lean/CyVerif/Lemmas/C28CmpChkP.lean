import CyVerif.Lemmas.C28CmpChk
/-! # C28 — `total_ordering` against an unrelated Python class: kernel evaluation -/
namespace CyVerif.C28

theorem toUnrelChk_p00 : toUnrelChk .py false false = true := by decide +kernel
theorem toUnrelChk_p01 : toUnrelChk .py false true = true := by decide +kernel
theorem toUnrelChk_p10 : toUnrelChk .py true false = true := by decide +kernel
theorem toUnrelChk_p11 : toUnrelChk .py true true = true := by decide +kernel

end CyVerif.C28

import CyVerif.Lemmas.C19Xform
/-! `has_duplicate_values` and the well-formedness of the emitted switch. -/
namespace CyVerif.C19

theorem hasDupFrom_false_iff (V : Variant) : ∀ (cs : List Const) (seen : List Key),
    hasDupFrom V seen cs = false ↔ (∀ c ∈ cs, c.key V ∉ seen) ∧ (cs.map (·.key V)).Nodup := by
  intro cs
  induction cs with
  | nil => intro seen; simp [hasDupFrom]
  | cons c rest ih =>
    intro seen
    unfold hasDupFrom
    by_cases hc : seen.contains (c.key V) = true
    · simp only [hc, ↓reduceIte, Bool.true_eq_false, false_iff]
      intro ⟨h1, _⟩
      have := h1 c (by simp)
      simp only [List.contains_eq_mem, decide_eq_true_eq] at hc
      exact this hc
    · simp only [hc, Bool.false_eq_true, ↓reduceIte]
      rw [ih]
      simp only [List.contains_eq_mem, decide_eq_true_eq] at hc
      simp only [List.mem_cons, not_or, List.map_cons, List.nodup_cons, List.mem_map, not_exists, not_and]
      constructor
      · rintro ⟨h1, h2⟩
        refine ⟨?_, ?_, h2⟩
        · intro d hd
          rcases hd with rfl | hd
          · exact hc
          · exact (h1 d hd).2
        · intro d hd heq
          exact (h1 d hd).1 heq
      · rintro ⟨h1, h2, h3⟩
        refine ⟨?_, h3⟩
        intro d hd
        exact ⟨fun heq => h2 d hd heq, h1 d (Or.inr hd)⟩

def Const.noExt : Const → Bool
  | .ext _ => false
  | _ => true

theorem key_eq_int (V : Variant) (hB : V.bchrInt = true) (ext : Nat → Int) (c : Const) (h : c.noExt = true) :
    c.key V = .int (c.pyval ext) := by
  cases c <;> simp_all [Const.key, Const.pyval, Const.noExt]

/-- no duplicate key ⇒ the labels are pairwise distinct C values in the promoted switch type -/
theorem labelsDistinct_of_noDup (V : Variant) (hB : V.bchrInt = true) (ty : CTy) (hb : 0 < ty.bits)
    (ext : Nat → Int) : ∀ (cs : List Const),
    (∀ c ∈ cs, c.noExt = true ∧ ty.promote.has (c.cval ext) = true ∧ c.cval ext = c.pyval ext) →
    (cs.map (·.key V)).Nodup → labelsDistinct ty ext cs = true := by
  intro cs
  induction cs with
  | nil => intro _ _; rfl
  | cons c rest ih =>
    intro hall hnd
    simp only [List.map_cons, List.nodup_cons, List.mem_map, not_exists, not_and] at hnd
    unfold labelsDistinct
    simp only [Bool.and_eq_true, Bool.not_eq_eq_eq_not, Bool.not_true, List.any_eq_false, beq_iff_eq]
    refine ⟨?_, ih (fun d hd => hall d (by simp [hd])) hnd.2⟩
    intro d hd heq
    obtain ⟨hc1, hc2, hc3⟩ := hall c (by simp)
    obtain ⟨hd1, hd2, hd3⟩ := hall d (by simp [hd])
    have hpb := promote_bits_pos ty hb
    rw [wrap_of_has _ hpb _ hc2, wrap_of_has _ hpb _ hd2, hc3, hd3] at heq
    apply hnd.1 d hd
    rw [key_eq_int V hB ext c hc1, key_eq_int V hB ext d hd1, heq]

/-- all labels collected by the clause loop passed extraction and the guard -/
theorem collect_labels (V : Variant) (vk : Nat → VarKind) :
    ∀ (cl : List (Cond × Nat)) (common : Option Nat) (w : Option Nat) (cases : List (List Const × Nat)),
      collect V vk common cl = some (w, cases) →
      ∀ k ∈ cases.flatMap (·.1), ∃ p ∈ cl, ∃ com ni v cs, extractCommon V vk com p.1 false = some (ni, v, cs) ∧
        k ∈ cs ∧ (∀ u, w = some u → v = u) := by
  intro cl
  induction cl with
  | nil =>
    intro common w cases h k hk
    simp only [collect, Option.some.injEq, Prod.mk.injEq] at h
    obtain ⟨_, rfl⟩ := h
    simp at hk
  | cons p rest ih =>
    intro common w cases h k hk
    obtain ⟨c, b⟩ := p
    unfold collect at h
    cases hx : extractCommon V vk common c false with
    | none => simp [hx] at h
    | some r =>
      obtain ⟨ni, v', cs⟩ := r
      simp only [hx] at h
      cases hr : collect V vk (some v') rest with
      | none => simp [hr] at h
      | some r2 =>
        obtain ⟨w', cases'⟩ := r2
        simp only [hr, Option.some.injEq, Prod.mk.injEq] at h
        obtain ⟨rfl, rfl⟩ := h
        simp only [List.flatMap_cons, List.mem_append] at hk
        rcases hk with hk | hk
        · refine ⟨(c, b), by simp, common, ni, v', cs, hx, hk, ?_⟩
          intro u hu
          -- the final variable is the variable of every clause
          have : ∀ (cl : List (Cond × Nat)) (com : Nat) (w : Option Nat) (cs' : List (List Const × Nat)),
              collect V vk (some com) cl = some (w, cs') → w = some com := by
            intro cl
            induction cl with
            | nil => intro com w cs' h; simp only [collect, Option.some.injEq, Prod.mk.injEq] at h; exact h.1.symm
            | cons q qs ihq =>
              intro com w cs' h
              obtain ⟨c2, b2⟩ := q
              unfold collect at h
              cases hx2 : extractCommon V vk (some com) c2 false with
              | none => simp [hx2] at h
              | some r3 =>
                obtain ⟨ni2, v2, cs2⟩ := r3
                simp only [hx2] at h
                cases hr2 : collect V vk (some v2) qs with
                | none => simp [hr2] at h
                | some r4 =>
                  obtain ⟨w4, c4⟩ := r4
                  simp only [hr2, Option.some.injEq, Prod.mk.injEq] at h
                  obtain ⟨rfl, _⟩ := h
                  have e := ihq v2 w4 c4 hr2
                  have hv2 := (extractCommon_some V vk (some com) c2 false ni2 v2 cs2 hx2).2.2.2.2 com rfl
                  rw [e, hv2]
          have e := this rest v' w' cases' hr
          rw [e] at hu
          cases hu; rfl
        · obtain ⟨p, hp, com, ni2, v2, cs2, h1, h2, h3⟩ := ih (some v') w' cases' hr k hk
          exact ⟨p, by simp [hp], com, ni2, v2, cs2, h1, h2, h3⟩

/-- no test compares with an extern constant of unknown value -/
def CondNoExt : Cond → Prop
  | .cmp _ _ c => c.noExt = true
  | .bin _ a b => CondNoExt a ∧ CondNoExt b
  | .not a => CondNoExt a
  | _ => True

theorem extract_noExt (V : Variant) (vk : Nat → VarKind) :
    ∀ (c : Cond) (allowNot ni : Bool) (v : Nat) (cs : List Const),
      extract V vk c allowNot = some (ni, v, cs) → CondNoExt c → ∀ k ∈ cs, k.noExt = true := by
  intro c
  induction c with
  | cmp ne w k0 =>
    intro allowNot ni v cs h hok k hk
    unfold extract at h
    split at h
    · cases h
    · split at h
      · cases h
      · simp only [Option.some.injEq, Prod.mk.injEq] at h
        obtain ⟨rfl, rfl, rfl⟩ := h
        simp only [List.mem_singleton] at hk
        subst hk
        exact hok
  | inStr notin w chars bytes =>
    intro allowNot ni v cs h _ k hk
    unfold extract at h
    split at h
    · split at h
      · cases h
      · simp only [Option.some.injEq, Prod.mk.injEq] at h
        obtain ⟨rfl, rfl, rfl⟩ := h
        obtain ⟨ch, _, rfl⟩ := mem_strConsts k chars bytes hk
        cases bytes <;> rfl
    · cases h
  | bin isAnd a b iha ihb =>
    intro allowNot ni v cs h hok k hk
    unfold extract at h
    cases hV : V.andFix <;> simp only [hV, Bool.false_eq_true, ↓reduceIte] at h
    all_goals
      split at h
      · split at h
        · rename_i n1 t1 c1 n2 t2 c2 ha hb
          split at h
          · rename_i hcommon
            split at h
            · simp only [Option.some.injEq, Prod.mk.injEq] at h
              obtain ⟨rfl, rfl, rfl⟩ := h
              simp only [List.mem_append] at hk
              rcases hk with hk | hk
              · exact iha _ _ _ _ ha hok.1 k hk
              · exact ihb _ _ _ _ hb hok.2 k hk
            · cases h
          · cases h
        · cases h
      · cases h
  | not a _ => intro allowNot ni v cs h; simp [extract] at h
  | other k => intro allowNot ni v cs h; simp [extract] at h

/-- the labels of a switch that `build_simple_switch_statement` creates are pairwise distinct C values -/
theorem sw_labels_distinct (V : Variant) (hG : V.rangeGuard = true) (hB : V.bchrInt = true)
    (vk : Nat → VarKind) (ext : Nat → Int) (hwf : ∀ v, (vk v).WF) (c : Cond) (hok : CondOK vk ext c)
    (hne : CondNoExt c) (ni : Bool) (w : Nat) (cs : List Const)
    (hx : extractCommon V vk none c true = some (ni, w, cs)) (hd : hasDup V cs = false) :
    (match vk w with
     | .cint ty _ _ _ => labelsDistinct ty ext cs
     | _ => false) = true := by
  obtain ⟨hex, hci, hint, hsafe, _⟩ := extractCommon_some V vk none c true ni w cs hx
  have hcs := extract_consts_ok V vk ext c true ni w cs hex hok
  have hnx := extract_noExt V vk c true ni w cs hex hne
  cases hvk : vk w with
  | cint ty glo ghi e =>
    simp only
    have hw := hwf w
    rw [hvk] at hw
    apply labelsDistinct_of_noDup V hB ty hw.1 ext
    · intro k hk
      obtain ⟨h1, _, h3⟩ := hcs k hk
      have hs := hsafe hG k hk
      rw [hvk] at hs
      exact ⟨hnx k hk, fits_of_safe V ty glo ghi e k ext hw h1 (h3 ty glo ghi e hvk) (hint k hk) hs⟩
    · unfold hasDup at hd
      exact ((hasDupFrom_false_iff V _ []).mp hd).2
  | dbl => simp [hvk, isCInt] at hci
  | obj => simp [hvk, isCInt] at hci

/-- **expression level**: every switch inside a transformed test is valid C (repaired transform) -/
theorem xformE_labels_distinct (V : Variant) (hG : V.rangeGuard = true) (hB : V.bchrInt = true)
    (vk : Nat → VarKind) (ext : Nat → Int) (hwf : ∀ v, (vk v).WF) (c : Cond) (hok : CondOK vk ext c)
    (hne : CondNoExt c) : allSwDistinct vk ext (xformE V vk c) = true := by
  induction c with
  | cmp ne v k => rfl
  | other k => rfl
  | not a ih => simp only [xformE, allSwDistinct]; exact ih hok hne
  | inStr n v ch b =>
    unfold xformE
    cases hx : extractCommon V vk none (.inStr n v ch b) true with
    | none => rfl
    | some r =>
      obtain ⟨ni, w, cs⟩ := r
      simp only []
      split
      · rfl
      · rename_i hcond
        simp only [Bool.or_eq_true, decide_eq_true_eq, not_or, Bool.not_eq_true] at hcond
        simp only [allSwDistinct]
        exact sw_labels_distinct V hG hB vk ext hwf _ hok hne ni w cs hx hcond.2
  | bin isAnd a b iha ihb =>
    unfold xformE
    have hrec : allSwDistinct vk ext (.bin isAnd (xformE V vk a) (xformE V vk b)) = true := by
      simp only [allSwDistinct, Bool.and_eq_true]
      exact ⟨iha hok.1 hne.1, ihb hok.2 hne.2⟩
    cases hx : extractCommon V vk none (.bin isAnd a b) true with
    | none => exact hrec
    | some r =>
      obtain ⟨ni, w, cs⟩ := r
      simp only []
      split
      · exact hrec
      · rename_i hcond
        simp only [Bool.or_eq_true, decide_eq_true_eq, not_or, Bool.not_eq_true] at hcond
        simp only [allSwDistinct]
        exact sw_labels_distinct V hG hB vk ext hwf _ hok hne ni w cs hx hcond.2

end CyVerif.C19

import CyVerif.Lemmas.C49Reset3
/-! The simulation over whole steps and whole histories. -/
namespace CyVerif.C49
open Forest

/-- every guarded step of the specification is matched by the heap model -/
theorem sim_step {σ : St} {sp sp' : Spec} {F : Forest} (h : Sim σ sp F) (op : Op)
    (hs : sp.step op = some sp') : ∃ σ' F', σ.step op = some σ' ∧ Sim σ' sp' F' := by
  cases op with
  | new =>
    simp only [Spec.step, Option.some.injEq] at hs
    subst hs
    exact ⟨_, _, rfl, step_new h⟩
  | write k s ms =>
    simp only [Spec.step] at hs
    by_cases hk : k < sp.n
    · obtain ⟨b, hb⟩ := h.handle_of_lt hk
      simp only [hk, if_true] at hs
      by_cases hse : s = ""
      · subst hse
        by_cases hme : ms = []
        · subst hme
          simp only [if_true, Option.some.injEq] at hs
          subst hs
          refine ⟨⟨writeH σ.heap b "" [], σ.handles⟩, F, by simp [St.step, hb], ?_⟩
          rw [writeH_empty]; exact h
        · simp [hme] at hs
      · simp only [hse, if_false, Option.some.injEq] at hs
        subst hs
        exact ⟨_, _, by simp [St.step, hb], step_write h hb ms hse⟩
    · simp [hk] at hs
  | ip k =>
    simp only [Spec.step] at hs
    by_cases hk : k < sp.n
    · obtain ⟨b, hb⟩ := h.handle_of_lt hk
      simp only [hk, if_true, Option.some.injEq] at hs
      subst hs
      obtain ⟨F', hF'⟩ := step_ip h hb
      exact ⟨_, F', by simp [St.step, hb], hF'⟩
    · simp [hk] at hs
  | insert k t =>
    simp only [Spec.step] at hs
    by_cases hg : k < sp.n ∧ t ∈ sp.roots ∧ t ≠ k ∧ Item.cl k ∉ region t sp.doc
    · obtain ⟨hk, hroot, htk, hout⟩ := hg
      simp only [hk, hroot, htk, hout, ne_eq, not_false_eq_true, and_self, if_true,
        Option.some.injEq] at hs
      subst hs
      obtain ⟨b, hb⟩ := h.handle_of_lt hk
      have htn : t < sp.n := by
        rw [h.n]
        exact h.name_lt (Forest.rootNames_sub_names (h.roots ▸ hroot))
      obtain ⟨it, hit⟩ := h.handle_of_lt htn
      obtain ⟨F', hF'⟩ := step_insert h hb hit hroot htk hout
      exact ⟨_, F', by simp [St.step, hb, hit], hF'⟩
    · simp [hg] at hs
  | commit k =>
    simp only [Spec.step] at hs
    by_cases hk : k < sp.n
    · obtain ⟨b, hb⟩ := h.handle_of_lt hk
      simp only [hk, if_true, Option.some.injEq] at hs
      subst hs
      obtain ⟨F', _, hF', _⟩ := step_commit h hb
      exact ⟨_, F', by simp [St.step, hb], hF'⟩
    · simp [hk] at hs
  | reset k =>
    simp only [Spec.step] at hs
    by_cases hk : k < sp.n
    · obtain ⟨b, hb⟩ := h.handle_of_lt hk
      simp only [hk, if_true, Option.some.injEq] at hs
      subst hs
      obtain ⟨F', hF'⟩ := step_reset h hb
      exact ⟨_, F', by simp [St.step, hb], hF'⟩
    · simp [hk] at hs

theorem sim_run {σ : St} {sp sp' : Spec} {F : Forest} (h : Sim σ sp F) (ops : List Op)
    (hs : sp.run ops = some sp') : ∃ σ' F', σ.run ops = some σ' ∧ Sim σ' sp' F' := by
  induction ops generalizing σ sp F with
  | nil =>
    simp only [Spec.run, Option.some.injEq] at hs
    subst hs
    exact ⟨σ, F, rfl, h⟩
  | cons o os ih =>
    simp only [Spec.run] at hs
    cases h1 : sp.step o with
    | none => rw [h1] at hs; cases hs
    | some sp1 =>
      rw [h1] at hs
      obtain ⟨σ1, F1, hσ1, hsim1⟩ := sim_step h o h1
      obtain ⟨σ', F', hσ', hsim'⟩ := ih hsim1 hs
      exact ⟨σ', F', by simp [St.run, hσ1, hσ'], hsim'⟩

/-- pigeonhole: distinct numbers below `n` are at most `n` many -/
theorem length_le_of_nodup_lt {l : List Nat} {n : Nat} (hnd : l.Nodup) (hlt : ∀ x ∈ l, x < n) :
    l.length ≤ n := by
  have := List.Nodup.length_le_of_subset (l₂ := List.range n) hnd
    (fun x hx => List.mem_range.2 (hlt x hx))
  simpa using this

end CyVerif.C49

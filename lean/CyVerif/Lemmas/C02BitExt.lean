import CyVerif.Lemmas.C02Bits
/-!
C02: an integer is determined by its bits, so the bitwise characterisation of `& | ^` pins down the value.
-/
namespace CyVerif.C02
open CyVerif.C05

theorem bit_ext {a b : Int} (h : ∀ k, bit a k = bit b k) : a = b := by
  let w := a.natAbs + b.natAbs + 1
  have hU : toU w a = toU w b := by
    apply Nat.eq_of_testBit_eq
    intro k
    by_cases hk : k < w
    · rw [← bit_eq_testBit hk, ← bit_eq_testBit hk, h k]
    · have hp : 2 ^ w ≤ 2 ^ k := Nat.pow_le_pow_right (by omega) (by omega)
      rw [Nat.testBit_lt_two_pow (Nat.lt_of_lt_of_le (toU_lt w a) hp),
        Nat.testBit_lt_two_pow (Nat.lt_of_lt_of_le (toU_lt w b) hp)]
  have hmod : a % two w = b % two w := by rw [← toU_cast, ← toU_cast, hU]
  have hdvd : two w ∣ a - b := Int.dvd_of_emod_eq_zero (Int.emod_eq_emod_iff_emod_sub_eq_zero.mp hmod)
  have hlt : (a - b).natAbs < (two w).natAbs := by
    have h1 : a.natAbs + b.natAbs < 2 ^ (a.natAbs + b.natAbs) := Nat.lt_two_pow_self
    have h2 : 2 ^ (a.natAbs + b.natAbs + 1) = 2 * 2 ^ (a.natAbs + b.natAbs) := by rw [Nat.pow_succ]; omega
    have h3 : (two w).natAbs = 2 ^ (a.natAbs + b.natAbs + 1) := by unfold two; simp [w]
    rw [h3]; omega
  have := Int.eq_zero_of_dvd_of_natAbs_lt_natAbs hdvd hlt
  omega

end CyVerif.C02

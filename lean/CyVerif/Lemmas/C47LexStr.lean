import CyVerif.Lemmas.C47Lex
/-! The string-mode search against the reference lexer (states `str`/`esc`) (C47 completeness). -/
namespace CyVerif.C47

/-- after the leading run of backslashes comes no quote character -/
def NQ (l : List Char) : Prop := ∀ q r, (spanEq '\\' l).2 = q :: r → isQuote q = false

def strTail : Tok → List Char → List Char
  | .quote _ run, post => run ++ post
  | t, post => t.chars ++ post

def strExtra : Tok → Nat
  | .quote f _ => (fch f).length
  | _ => 0

theorem spanEq_cons_bs (cs : List Char) : (spanEq '\\' ('\\' :: cs)).2 = (spanEq '\\' cs).2 := by
  simp [spanEq]

theorem mEscape_none_bs {cs : List Char} (h : mEscape ('\\' :: cs) = none) : NQ cs := by
  intro q r hs
  simp only [mEscape, if_true] at h
  rw [← spanEq_cons_bs] at hs
  split at h
  · rename_i bs q' post heq
    rw [heq] at hs
    simp only [List.cons.injEq] at hs
    obtain ⟨rfl, rfl⟩ := hs
    split at h
    · simp at h
    · rename_i hq; simpa using hq
  · rename_i heq
    rw [heq] at hs; simp at hs

theorem mEscape_some {l : List Char} {t : Tok} {post : List Char} (h : mEscape l = some (t, post)) :
    ∃ bs q, t = .escape bs q ∧ (spanEq '\\' l) = (bs, q :: post) ∧ isQuote q = true ∧ ∃ cs, l = '\\' :: cs := by
  cases l with
  | nil => simp [mEscape] at h
  | cons c cs =>
    simp only [mEscape] at h
    split at h
    · rename_i hc
      split at h
      · rename_i bs q post' hs
        split at h
        · rename_i hq
          simp only [Option.some.injEq, Prod.mk.injEq] at h
          obtain ⟨rfl, rfl⟩ := h
          exact ⟨bs, q, rfl, hs, hq, cs, by rw [hc]⟩
        · simp at h
      · simp at h
    · simp at h

theorem mStr_none {c : Char} {cs : List Char} (h : mStr (c :: cs) = none) :
    mEscape (c :: cs) = none ∧ mQuote (c :: cs) = none := by
  simp only [mStr] at h
  split at h
  · simp at h
  · rename_i he; exact ⟨he, h⟩

theorem mStr_some {l : List Char} {t : Tok} {post : List Char} (h : mStr l = some (t, post)) :
    mEscape l = some (t, post) ∨ (mEscape l = none ∧ mQuote l = some (t, post)) := by
  simp only [mStr] at h
  split at h
  · rename_i r he; simp only [Option.some.injEq] at h; subst h; exact Or.inl he
  · rename_i he; exact Or.inr ⟨he, h⟩

theorem isQuote_ne_bs {q : Char} (h : isQuote q = true) : q ≠ '\\' := by
  intro h'; subst h'; simp [isQuote] at h

theorem refLex_str_other {q c : Char} {t : Bool} {cs : List Char} (h1 : c ≠ '\\') (h2 : c ≠ q) :
    refLex (.str q t) 0 (c :: cs) = (refLex (.str q t) 0 cs).map (true :: ·) := by
  simp only [refLex, h1, h2, if_false]

theorem refLex_str_bs {q : Char} {t : Bool} {cs : List Char} :
    refLex (.str q t) 0 ('\\' :: cs) = (refLex (.esc q t) 0 cs).map (true :: ·) := by
  simp only [refLex, if_true]

theorem refLex_esc {q c : Char} {t : Bool} {cs : List Char} :
    refLex (.esc q t) 0 (c :: cs) = (refLex (.str q t) 0 cs).map (true :: ·) := by
  simp only [refLex]

theorem tt_succ (n : Nat) : tt (n + 1) = true :: tt n := List.replicate_succ

/-- the string-mode search against the reference lexer in the states `str` and `esc` -/
theorem search_str_ref {q : Char} (hq : isQuote q = true) (t : Bool) : ∀ (l : List Char),
    (∀ pre tok post, search mStr l = some (pre, tok, post) →
      refLex (.str q t) 0 l = (refLex (.str q t) 0 (strTail tok post)).map (tt (pre.length + strExtra tok) ++ ·) ∧
      (NQ l → refLex (.esc q t) 0 l
        = (refLex (.str q t) 0 (strTail tok post)).map (tt (pre.length + strExtra tok) ++ ·))) ∧
    (search mStr l = none →
      refLex (.str q t) 0 l = some (tt l.length) ∧ (NQ l → refLex (.esc q t) 0 l = some (tt l.length))) := by
  intro l
  induction l with
  | nil => exact ⟨fun _ _ _ h => by simp [search] at h, fun _ => by simp [refLex]⟩
  | cons c cs ih =>
    obtain ⟨ihS, ihN⟩ := ih
    by_cases hm : mStr (c :: cs) = none
    · -- no token starts here
      obtain ⟨he, hmq⟩ := mStr_none hm
      obtain ⟨hcq, _⟩ := mQuote_none hmq
      have hcne : c ≠ q := fun h => by rw [h, hq] at hcq; simp at hcq
      have stepS : ∀ X : Option (List Bool), (refLex (.str q t) 0 cs = X ∧ (NQ cs → refLex (.esc q t) 0 cs = X)) →
          refLex (.str q t) 0 (c :: cs) = X.map (true :: ·) := by
        intro X hX
        by_cases hc : c = '\\'
        · subst hc
          rw [refLex_str_bs, hX.2 (mEscape_none_bs he)]
        · rw [refLex_str_other hc hcne, hX.1]
      refine ⟨?_, ?_⟩
      · intro pre tok post h
        simp only [search, hm] at h
        split at h
        · rename_i pre' t' p' hs
          simp only [Option.some.injEq, Prod.mk.injEq] at h
          obtain ⟨rfl, rfl, rfl⟩ := h
          obtain ⟨h1, h2⟩ := ihS _ _ _ hs
          have e : tt ((c :: pre').length + strExtra t') = true :: tt (pre'.length + strExtra t') := by
            rw [List.length_cons, Nat.add_right_comm, tt_succ]
          refine ⟨?_, fun _ => ?_⟩
          · rw [stepS _ ⟨h1, h2⟩, Option.map_map, e]; rfl
          · rw [refLex_esc, h1, Option.map_map, e]; rfl
        · simp at h
      · intro h
        simp only [search, hm] at h
        split at h
        · simp at h
        · rename_i hs
          obtain ⟨h1, h2⟩ := ihN hs
          refine ⟨?_, fun _ => ?_⟩
          · rw [stepS _ ⟨h1, h2⟩]; simp [tt_succ]
          · rw [refLex_esc, h1]; simp [tt_succ]
    · -- a token starts here: `pre = []`
      obtain ⟨⟨tok, post⟩, hm'⟩ := Option.ne_none_iff_exists'.mp hm
      refine ⟨?_, fun h => by simp [search, hm'] at h⟩
      intro pre tok' post' h
      simp only [search, hm', Option.some.injEq, Prod.mk.injEq] at h
      obtain ⟨rfl, rfl, rfl⟩ := h
      rcases mStr_some hm' with he | ⟨he, hmq⟩
      · obtain ⟨bs, eq, rfl, hsp, heq, cs', hl⟩ := mEscape_some he
        obtain ⟨e, _⟩ := mEscape_sound he
        refine ⟨by simp [strTail, strExtra, ← e], fun hnq => ?_⟩
        have := hnq eq post (by rw [hsp])
        rw [heq] at this; simp at this
      · obtain ⟨e, f, run, rfl, hrun⟩ := mQuote_sound hmq
        cases f with
        | false =>
          simp only [Tok.chars, fch, Bool.false_eq_true, if_false, List.nil_append] at e
          refine ⟨by simp [strTail, strExtra, fch, ← e], fun hnq => ?_⟩
          obtain ⟨q', hq', hne, hall⟩ := hrun
          cases run with
          | nil => exact absurd rfl hne
          | cons r rs =>
            simp only [List.cons_append, List.cons.injEq] at e
            have hr : r = q' := hall r (by simp)
            have hcb : c ≠ '\\' := by rw [e.1, hr]; exact isQuote_ne_bs hq'
            have := hnq c cs (by simp [spanEq, List.dropWhile_cons_of_neg, hcb])
            rw [e.1, hr, hq'] at this; simp at this
        | true =>
          simp only [Tok.chars, fch, if_true, List.cons_append, List.nil_append, List.cons.injEq] at e
          obtain ⟨hc, hcs⟩ := e
          have hfq : 'f' ≠ q := fun h => by rw [← h] at hq; simp [isQuote] at hq
          subst hc
          refine ⟨?_, fun _ => ?_⟩
          · rw [refLex_str_other (by decide) hfq, hcs]; simp [strTail, strExtra, fch]
          · rw [refLex_esc, hcs]; simp [strTail, strExtra, fch]

end CyVerif.C47

import CyVerif.Lemmas.C50ScanA
/-! Scanner loop, part B: `run_machine_inlined` returns the longest accepted prefix of the symbol stream. -/
namespace CyVerif.C50

theorem evStream_eq (text : List Nat) (c : Cursor) :
    evStream text c = if c.curChar = .empty then [] else c.curChar :: evStream text (nextChar text c) := by
  rw [evStream]; split <;> simp_all

theorem step_empty (st : DState) : st.step .empty = none := rfl

/-- what the loop returns, in terms of the symbol stream of the cursor -/
def loopResult (d : Dfa) (text : List Nat) (q : Nat) (c : Cursor) (b : Option (Nat × Cursor)) : Option Nat × Cursor :=
  match bestK d q (evStream text c) with
  | some (k, a) => (some a, nextN text k c)
  | none =>
    match b with
    | some (a, cb) => (some a, cb)
    | none => (none, nextN text (travLen d q (evStream text c)) c)

theorem runLoop_spec (d : Dfa) (text : List Nat) (q : Nat) (c : Cursor) (b : Option (Nat × Cursor)) :
    runLoop d text q c b = loopResult d text q c b := by
  fun_induction runLoop d text q c b with
  | case1 q c b b' q' hs ih =>
    rw [ih]
    have hne : c.curChar ≠ .empty := step_ne_empty hs
    unfold loopResult
    rw [evStream_eq text c]
    simp only [hne, if_false, bestK, travLen, hs]
    cases hb : bestK d q' (evStream text (nextChar text c)) with
    | some ka => obtain ⟨k, a⟩ := ka; simp [nextN]
    | none =>
      simp only
      cases ha : (dstate d q).action with
      | none =>
        have : b' = b := by simp [b', ha]
        rw [this]
        cases b with
        | none => simp [nextN]
        | some ab => simp
      | some a =>
        have : b' = some (a, c) := by simp [b', ha]
        rw [this]
        simp [nextN]
  | case2 q c b b' hs a cb hb' =>
    unfold loopResult
    rw [evStream_eq text c]
    by_cases hne : c.curChar = .empty
    · simp only [hne, if_true, bestK]
      cases ha : (dstate d q).action with
      | none =>
        have : b' = b := by simp [b', ha]
        rw [this] at hb'
        simp [hb']
      | some a0 =>
        have : b' = some (a0, c) := by simp [b', ha]
        rw [this] at hb'
        simp only [Option.some.injEq, Prod.mk.injEq] at hb'
        simp [nextN, hb'.1, hb'.2]
    · simp only [hne, if_false, bestK, hs]
      cases ha : (dstate d q).action with
      | none =>
        have : b' = b := by simp [b', ha]
        rw [this] at hb'
        simp [hb']
      | some a0 =>
        have : b' = some (a0, c) := by simp [b', ha]
        rw [this] at hb'
        simp only [Option.some.injEq, Prod.mk.injEq] at hb'
        simp [nextN, hb'.1, hb'.2]
  | case3 q c b b' hs hb' =>
    unfold loopResult
    rw [evStream_eq text c]
    have ha : (dstate d q).action = none := by
      cases ha : (dstate d q).action with
      | none => rfl
      | some a0 => simp [b', ha] at hb'
    have hb : b = none := by
      have : b' = b := by simp [b', ha]
      rw [← this]; exact hb'
    by_cases hne : c.curChar = .empty
    · simp [hne, bestK, ha, hb, travLen, nextN]
    · simp [hne, bestK, hs, ha, hb, travLen, nextN]

end CyVerif.C50

import CyVerif.Model.C10Table
import CyVerif.Lemmas.C10Utf8
/-! Walking the length index over the concatenated blob recovers every string. -/
namespace CyVerif.C10

/-! ### bit-field widths -/

theorem le_foldl_max (l : List Nat) (a : Nat) : a ≤ l.foldl max a ∧ ∀ v ∈ l, v ≤ l.foldl max a := by
  induction l generalizing a with
  | nil => simp
  | cons x t ih =>
    simp only [List.foldl_cons, List.mem_cons]
    obtain ⟨h1, h2⟩ := ih (max a x)
    refine ⟨by omega, ?_⟩
    intro v hv
    rcases hv with rfl | hv
    · omega
    · exact h2 v hv

theorem le_maxOf (l : List Nat) : ∀ v ∈ l, v ≤ maxOf l := (le_foldl_max l 0).2

theorem foldl_max_mem (l : List Nat) (a : Nat) : l.foldl max a = a ∨ l.foldl max a ∈ l := by
  induction l generalizing a with
  | nil => simp
  | cons x t ih =>
    simp only [List.foldl_cons, List.mem_cons]
    rcases ih (max a x) with h | h
    · rw [h]; by_cases hx : a ≤ x
      · right; left; omega
      · left; omega
    · right; right; exact h

theorem lt_two_pow_bitLength (n : Nat) : n < 2 ^ bitLength n := by
  unfold bitLength
  split
  · subst_vars; simp
  · exact Nat.lt_log2_self

theorem bitLength_le (n k : Nat) (h : n < 2 ^ k) : bitLength n ≤ k := by
  unfold bitLength
  split
  · omega
  · rename_i hn
    have := (Nat.log2_lt hn).2 h
    omega

theorem bitLength_pos (n : Nat) (h : n ≠ 0) : 1 ≤ bitLength n := by
  unfold bitLength; simp [h]

/-- every entry of an index can be read back from a bit-field of the width the generator
chooses, provided that width is a legal one -/
theorem bitfield_widthOf (p : TableP) (index : List Nat) (v : Nat) (hv : v ∈ index)
    (h1 : 1 ≤ widthOf p index) (h32 : widthOf p index ≤ 32) :
    bitfield (widthOf p index) v = .ok v := by
  have hle := le_maxOf index v hv
  have hlt := lt_two_pow_bitLength (maxOf index)
  have hpow : 2 ^ bitLength (maxOf index) ≤ 2 ^ widthOf p index :=
    Nat.pow_le_pow_right (by decide) (by unfold widthOf; omega)
  unfold bitfield
  rw [if_neg (by omega)]
  congr 1
  exact Nat.mod_eq_of_lt (by omega)

theorem widthOf_le (p : TableP) (hp : p.WF) (index : List Nat) (h : ∀ v ∈ index, v < 2 ^ 32) :
    widthOf p index ≤ 32 := by
  have hm : maxOf index < 2 ^ 32 := by
    rcases foldl_max_mem index 0 with h0 | h0
    · unfold maxOf; rw [h0]; decide
    · exact h _ h0
  have := bitLength_le _ _ hm
  unfold widthOf
  have := hp.2
  omega

theorem widthOf_pos (p : TableP) (index : List Nat)
    (h : 1 ≤ p.minWidth ∨ ∃ v ∈ index, v ≠ 0) : 1 ≤ widthOf p index := by
  unfold widthOf
  rcases h with h | ⟨v, hv, hv0⟩
  · omega
  · have := le_maxOf index v hv
    have := bitLength_pos (maxOf index) (by omega)
    omega

/-! ### slicing -/

theorem slice_mid (pre d post : List Nat) :
    slice (pre ++ d ++ post) pre.length d.length = .ok d := by
  unfold slice
  rw [if_pos (by simp)]
  congr 1
  rw [List.append_assoc, List.drop_left' rfl, List.take_left' rfl]

/-! ### the bytes loop -/

theorem runBytes_walk (w : Nat) (bs : List (List Nat)) :
    ∀ (pre post : List Nat), (∀ d ∈ bs, bitfield w d.length = .ok d.length) →
      runBytes (pre ++ bs.flatten ++ post) w (bs.map List.length) pre.length =
        .ok (bs.map PyConst.bytes) := by
  induction bs with
  | nil => intro pre post _; simp [runBytes]
  | cons d t ih =>
    intro pre post hw
    have hd := hw d (by simp)
    simp only [List.map_cons, List.flatten_cons, runBytes, hd]
    have hs : slice (pre ++ (d ++ t.flatten) ++ post) pre.length d.length = .ok d := by
      have := slice_mid pre d (t.flatten ++ post)
      simpa [List.append_assoc] using this
    rw [hs]
    have := ih (pre ++ d) post (fun x hx => hw x (by simp [hx]))
    simp only [List.length_append, List.append_assoc] at this ⊢
    rw [this]

/-! ### the text loop -/

/-- the run-time interned flag of entry `i` -/
def rtInterned (first : Option Nat) (i : Nat) : Bool :=
  match first with
  | some f => decide (f ≤ i)
  | none => false

theorem runTexts_walk (w : Nat) (first : Option Nat) (ts : List (List Nat)) :
    ∀ (pre post : List Nat) (i : Nat), (∀ t ∈ ts, t.all isScalar = true) →
      (∀ t ∈ ts, bitfield w (t.flatMap utf8Enc1).length = .ok (t.flatMap utf8Enc1).length) →
      runTexts (pre ++ (ts.map (·.flatMap utf8Enc1)).flatten ++ post) w first
          (ts.map fun t => (t.flatMap utf8Enc1).length) i pre.length =
        .ok (ts.zipIdx.map (fun (t, j) => PyConst.text t (rtInterned first (i + j))),
             pre.length + ((ts.map (·.flatMap utf8Enc1)).flatten).length) := by
  induction ts with
  | nil => intro pre post i _ _; simp [runTexts]
  | cons t rest ih =>
    intro pre post i hsc hw
    have hd := hw t (by simp)
    have hs : slice (pre ++ (t.flatMap utf8Enc1 ++ (rest.map (·.flatMap utf8Enc1)).flatten) ++ post)
        pre.length (t.flatMap utf8Enc1).length = .ok (t.flatMap utf8Enc1) := by
      have := slice_mid pre (t.flatMap utf8Enc1) ((rest.map (·.flatMap utf8Enc1)).flatten ++ post)
      simpa [List.append_assoc] using this
    simp only [List.map_cons, List.flatten_cons, runTexts, hd, hs, utf8_roundtrip t (hsc t (by simp))]
    have := ih (pre ++ t.flatMap utf8Enc1) post (i + 1) (fun x hx => hsc x (by simp [hx]))
      (fun x hx => hw x (by simp [hx]))
    simp only [List.length_append, List.append_assoc] at this ⊢
    rw [this]
    simp only [List.zipIdx_cons, List.map_cons, rtInterned, Nat.add_zero]
    congr 2
    · congr 1
      rw [List.zipIdx_succ, List.map_map]
      apply List.map_congr_left
      intro ⟨a, j⟩ _
      simp [Nat.add_assoc, Nat.add_comm 1 j]
    · omega

end CyVerif.C10

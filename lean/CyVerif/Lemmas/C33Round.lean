import CyVerif.Lemmas.C33WF
/-! # C33 — `fromPy (toPy c) = c` for every well-formed C value, by structural induction on the type -/
namespace CyVerif.C33

theorem strToPy_hashable (m : Mode) (b : List Nat) (p : PyVal) (h : strToPy m b = .ok p) : hashable p = true := by
  cases m with
  | bytes => simp [strToPy] at h; subst h; rfl
  | ascii =>
    simp only [strToPy, asciiDecode, bind, Except.bind] at h
    split at h <;> simp at h
    subst h; rfl
  | utf8 =>
    simp only [strToPy] at h
    split at h <;> simp at h
    subst h; rfl

/-- the Python image of a key-typed value is hashable -/
theorem keyTy_hashable (m : Mode) : ∀ (t : Ty) (c : CVal) (p : PyVal),
    KeyTy t = true → toPy m t c = .ok p → hashable p = true
  | .int _ _, c, p, _, h => by cases c <;> simp [toPy] at h; subst h; rfl
  | .bool, c, p, _, h => by cases c <;> simp [toPy] at h; subst h; rfl
  | .str, c, p, _, h => by
    cases c <;> simp [toPy] at h
    exact strToPy_hashable m _ p h
  | .pair a b, c, p, hk, h => by
    cases c <;> simp [toPy] at h
    rename_i x y
    simp only [KeyTy, Bool.and_eq_true] at hk
    simp only [bind, Except.bind] at h
    cases hx : toPy m a x with
    | error e => rw [hx] at h; simp at h
    | ok px =>
      rw [hx] at h
      cases hy : toPy m b y with
      | error e => rw [hy] at h; simp at h
      | ok py =>
        rw [hy] at h; simp at h; subst h
        simp [hashable, hashableL, keyTy_hashable m a x px hk.1 hx, keyTy_hashable m b y py hk.2 hy]
  | .dbl, _, _, hk, _ => by simp [KeyTy] at hk
  | .cstr, _, _, hk, _ => by simp [KeyTy] at hk
  | .cplx, _, _, hk, _ => by simp [KeyTy] at hk
  | .vec _, _, _, hk, _ => by simp [KeyTy] at hk
  | .lst _, _, _, hk, _ => by simp [KeyTy] at hk
  | .set _, _, _, hk, _ => by simp [KeyTy] at hk
  | .uset _, _, _, hk, _ => by simp [KeyTy] at hk
  | .map _ _, _, _, hk, _ => by simp [KeyTy] at hk
  | .umap _ _, _, _, hk, _ => by simp [KeyTy] at hk
  | .struct _ _, _, _, hk, _ => by simp [KeyTy] at hk
  | .union _ _, _, _, hk, _ => by simp [KeyTy] at hk
  | .carray _ _, _, _, hk, _ => by simp [KeyTy] at hk
  | .ctuple _, _, _, hk, _ => by simp [KeyTy] at hk

/-- the string leaf round-trips on well-formed strings -/
theorem str_roundtrip (m : Mode) (b : List Nat) (h : StrOk m b) :
    ∃ p, strToPy m b = .ok p ∧ strLeaf m p = .ok b := by
  cases m with
  | bytes => exact ⟨.bytes b, rfl, rfl⟩
  | ascii =>
    have hall : b.all (· < 128) = true := by simpa [StrOk] using h
    exact ⟨.str b, by simp [strToPy, asciiDecode, hall, bind, Except.bind],
      by simp [strLeaf, strEncode, asciiEncode, hall]⟩
  | utf8 =>
    obtain ⟨s, hd, he⟩ := h
    exact ⟨.str s, by simp [strToPy, hd], by simp [strLeaf, strEncode, he]⟩

/-- element-wise round trip with the hashability check of `set.to_py` -/
theorem mapR_roundtrip_hash (f : CVal → R PyVal) (g : PyVal → R CVal) (cs : List CVal)
    (h : ∀ c ∈ cs, ∃ p, f c = .ok p ∧ g p = .ok c ∧ hashable p = true) :
    ∃ ps, mapR (fun c => do let p ← f c; if hashable p then .ok p else .error "TypeError") cs = .ok ps ∧
      mapR g ps = .ok cs := by
  apply mapR_roundtrip
  intro c hc
  obtain ⟨p, h1, h2, h3⟩ := h c hc
  exact ⟨p, by simp [h1, h3, bind, Except.bind], h2⟩

theorem mapR_roundtrip_kv (fk fv : CVal → R PyVal) (gk gv : PyVal → R CVal) (kvs : List (CVal × CVal))
    (h : ∀ kv ∈ kvs, ∃ pk pv, fk kv.1 = .ok pk ∧ fv kv.2 = .ok pv ∧ gk pk = .ok kv.1 ∧ gv pv = .ok kv.2 ∧
      hashable pk = true) :
    ∃ ps, mapR (fun kv => do
        let pk ← fk kv.1; let pv ← fv kv.2
        if hashable pk then .ok (pk, pv) else .error "TypeError") kvs = .ok ps ∧
      mapR (fun kv => do let ck ← gk kv.1; let cv ← gv kv.2; .ok (ck, cv)) ps = .ok kvs := by
  apply mapR_roundtrip
  intro kv hkv
  obtain ⟨pk, pv, h1, h2, h3, h4, h5⟩ := h kv hkv
  exact ⟨(pk, pv), by simp [h1, h2, h5, bind, Except.bind], by simp [h3, h4, bind, Except.bind]⟩

end CyVerif.C33

import CyVerif.Lemmas.C18Parse
/-! C18 lemmas: meaning of the format specs mapped by `_parse_format`. -/
namespace CyVerif.C18

/-- specs on which a `_parse_format` without the respective repair and `format()` disagree -/
def BadSpecFor (var : ParseVariant) (spec : List Char) : Prop :=
  (var.rejectGtZero = false ∧ ∃ r, spec = '>' :: '0' :: r) ∨
  (var.rejectSignC = false ∧ ∃ r, spec = '-' :: r ∧ spec.getLast? = some 'c')

theorem parseSpec_type_only (t : Char) (ht : isTypeC t = true) :
    parseSpec [t] 'd' '>' = some ⟨' ', '>', none, false, false, none, 0, none, t⟩ := by
  obtain ⟨f1, f2, f3, f4, f5, f6, f7, f8, f9⟩ := isTypeC_facts t ht
  have := pTail_digits [] [t] rfl (Or.inr ⟨t, rfl, ht⟩) (by decide)
  simp only [List.nil_append] at this
  unfold parseSpec
  simp [pFillAlign, f1, pSign_cons, f2, pFlag_cons, f4, f5, f6, this]

/-- the rendering step, common to all shapes with a width -/
theorem renderInt_mapped (a : List Char) (c0 : Char) (w : Nat) (tl : List Char) (ft : FmtC) (v : Int)
    (htl : (tl = [] ∧ ft = .num .d) ∨ ∃ t, tl = [t] ∧ fmtCOfChar t = some ft)
    (hg1 : ¬ (a = ['-'] ∧ ft = .chr)) (hg2 : ¬ (a = ['>'] ∧ c0 = '0')) :
    renderInt ⟨if c0 = '0' then '0' else ' ',
      if a = ['>'] then '>' else if c0 = '0' then '=' else '>',
      if a = ['-'] then some '-' else none, false, false, some w, 0, none, tl.head?.getD 'd'⟩ v =
    specTextOf ft w (if c0 = '0' then '0' else ' ') v := by
  -- (fill, align) is one of the two mapped combinations
  have hfa : (if a = ['>'] then '>' else if c0 = '0' then '=' else '>') = (if c0 = '0' then '=' else '>') := by
    by_cases h1 : a = ['>']
    · have : c0 ≠ '0' := fun h => hg2 ⟨h1, h⟩
      simp [h1, this]
    · simp [h1]
  rw [hfa]
  have hsg : (if a = ['-'] then some '-' else (none : Option Char)) = none ∨
      (if a = ['-'] then some '-' else (none : Option Char)) = some '-' := by
    by_cases h : a = ['-'] <;> simp [h]
  have hzero : ∀ (z : Bool), z = decide (c0 = '0') →
      ((if c0 = '0' then '0' else ' ') = (if z then '0' else ' ')) ∧
      ((if c0 = '0' then '=' else '>') = (if z then '=' else '>')) := by
    intro z hz; subst hz; by_cases h : c0 = '0' <;> simp [h]
  obtain ⟨hf, hal⟩ := hzero (decide (c0 = '0')) rfl
  cases ft with
  | num fm =>
    have hty : intBody (tl.head?.getD 'd') v.natAbs = cps (pyDigits fm v.natAbs) ∧ tl.head?.getD 'd' ≠ 'c' := by
      rcases htl with ⟨rfl, hd⟩ | ⟨t, rfl, ht⟩
      · simp only [FmtC.num.injEq] at hd; subst hd; exact ⟨rfl, by decide⟩
      · exact intBody_of_fmt t fm ht v.natAbs
    unfold renderInt
    simp only [Option.isSome_none, Bool.false_eq_true, if_false, hty.2, hty.1]
    rw [hf, hal, numberText_mapped (decide (c0 = '0')) _ hsg]
    unfold specTextOf pyFormatInt
    by_cases hz : c0 = '0' <;> by_cases hn : v < 0 <;>
      simp [hz, hn, cps, List.map_append, List.map_replicate]
  | chr =>
    have ht : tl.head?.getD 'd' = 'c' := by
      rcases htl with ⟨_, hd⟩ | ⟨t, rfl, ht⟩
      · exact absurd hd (by simp)
      · simp [fmtCOfChar_chr t ht]
    have ha' : a ≠ ['-'] := fun h => hg1 ⟨h, rfl⟩
    unfold renderInt
    simp only [Option.isSome_none, Bool.false_eq_true, if_false, ht, if_true, ha']
    unfold specTextOf pyFormatChr
    by_cases hr : v < 0 ∨ v > 0x10ffff
    · simp [hr]
    · simp only [hr, if_false]
      rw [hf, hal, numberText_mapped (decide (c0 = '0')) none (Or.inl rfl)]
      by_cases hz : c0 = '0' <;> simp [hz] <;> rfl

/-- **Meaning of the specs `_parse_format` maps**: CPython's `format(v, spec)` is the text for the
mapped `(format_char, width, padding_char)`. -/
theorem parseFormat_meaning (var : ParseVariant) (spec : List Char) (ft : FmtC) (w : Nat) (pad : Char)
    (h : parseFormat var spec = some (ft, w, pad)) (hw : w ≤ SSIZE_MAX)
    (hgood : ¬ BadSpecFor var spec) (v : Int) :
    pyFormat (.int v) spec = some (specTextOf ft w pad v) := by
  unfold parseFormat at h
  rcases List.eq_nil_or_concat spec with rfl | ⟨init, last, rfl⟩
  · simp only [List.isEmpty_nil, if_true, Option.some.injEq, Prod.mk.injEq] at h
    obtain ⟨rfl, rfl, rfl⟩ := h
    simp [pyFormat, specTextOf, pyFormatInt, intStr, pyDigits, Fmt.base]
  · simp only [List.concat_eq_append] at h hgood ⊢
    have hne : (init ++ [last]).isEmpty = false := by simp
    simp only [hne, Bool.false_eq_true, if_false, List.getLast?_concat, Option.getD_some,
      List.dropLast_concat] at h
    -- common continuation once the shape is known
    have finish : ∀ (a : List Char) (c0 : Char) (r tl : List Char),
        init ++ [last] = a ++ c0 :: r ++ tl → (a = [] ∨ a = ['>'] ∨ a = ['-']) → isDig c0 = true →
        r.all isDig = true → ((tl = [] ∧ ft = .num .d) ∨ ∃ t, tl = [t] ∧ fmtCOfChar t = some ft) →
        (c0 = '0' → r ≠ []) → w = digitsVal (c0 :: r) → pad = (if c0 = '0' then '0' else ' ') →
        (var.rejectSignC = true → ¬ (a = ['-'] ∧ ft = .chr)) →
        (var.rejectGtZero = true → ¬ (a = ['>'] ∧ c0 = '0')) →
        pyFormat (.int v) (init ++ [last]) = some (specTextOf ft w pad v) := by
      intro a c0 r tl hs ha h0 hr htl hz hwv hp hfix1 hfix2
      subst hwv hp
      have htt : TypeTail tl := by
        rcases htl with ⟨rfl, _⟩ | ⟨t, rfl, ht⟩
        · exact Or.inl rfl
        · exact Or.inr ⟨t, rfl, fmtCOfChar_some t ft ht⟩
      -- the bad specs are excluded: by the repaired source, or by hypothesis
      have hg : ¬ (a = ['-'] ∧ ft = .chr) ∧ ¬ (a = ['>'] ∧ c0 = '0') := by
        constructor
        · cases hv : var.rejectSignC with
          | true => exact hfix1 hv
          | false =>
            rintro ⟨rfl, rfl⟩
            apply hgood
            right
            refine ⟨hv, c0 :: r ++ tl, by rw [hs]; simp, ?_⟩
            rcases htl with ⟨_, hd⟩ | ⟨t, rfl, ht⟩
            · exact absurd hd (by simp)
            · rw [hs, fmtCOfChar_chr t ht]
              have : ['-'] ++ c0 :: r ++ ['c'] = ('-' :: c0 :: r) ++ ['c'] := by simp
              rw [this, List.getLast?_concat]
        · cases hv : var.rejectGtZero with
          | true => exact hfix2 hv
          | false =>
            rintro ⟨rfl, rfl⟩
            apply hgood
            left
            exact ⟨hv, r ++ tl, by rw [hs]; simp⟩
      have hps := parseSpec_shape a c0 r tl ha h0 hr htt hz hw
      unfold pyFormat
      simp only [hne, Bool.false_eq_true, if_false]
      rw [hs, hps]
      have hty : ∀ (x : Char), x = tl.head?.getD 'd' →
          (x = 'b' ∨ x = 'c' ∨ x = 'd' ∨ x = 'o' ∨ x = 'x' ∨ x = 'X') := by
        intro x hx
        rcases htl with ⟨rfl, _⟩ | ⟨t, rfl, ht⟩
        · simp at hx; simp [hx]
        · simp at hx; subst hx
          have := fmtCOfChar_some x ft ht
          simp only [isTypeC, Bool.or_eq_true, decide_eq_true_eq] at this
          rcases this with (((h | h) | h) | h) | h <;> simp [h]
      simp only [hty _ rfl, if_true, ne_eq, not_true_eq_false, if_false]
      rw [renderInt_mapped a c0 (digitsVal (c0 :: r)) tl ft v htl hg.1 hg.2]
    cases hf : fmtCOfChar last with
    | some ft0 =>
      simp only [hf] at h
      by_cases hie : init.isEmpty = true
      · -- spec = [t]
        have hi : init = [] := by cases init <;> simp_all
        subst hi
        simp only [List.isEmpty_nil, if_true, Option.some.injEq, Prod.mk.injEq] at h
        obtain ⟨rfl, rfl, rfl⟩ := h
        have htc := fmtCOfChar_some last ft0 hf
        unfold pyFormat
        simp only [List.nil_append, List.isEmpty_cons, Bool.false_eq_true, if_false,
          parseSpec_type_only last htc]
        have hty : (last = 'b' ∨ last = 'c' ∨ last = 'd' ∨ last = 'o' ∨ last = 'x' ∨ last = 'X') := by
          simp only [isTypeC, Bool.or_eq_true, decide_eq_true_eq] at htc
          rcases htc with (((h | h) | h) | h) | h <;> simp [h]
        simp only [hty, if_true, ne_eq, not_true_eq_false, if_false]
        have e : renderInt ⟨' ', '>', none, false, false, none, 0, none, last⟩ v =
            renderInt ⟨' ', '>', none, false, false, some 0, 0, none, last⟩ v := by
          unfold renderInt numberText; rfl
        have := renderInt_mapped [] ' ' 0 [last] ft0 v (Or.inr ⟨last, rfl, hf⟩) (by simp) (by simp)
        have c1 : (' ' : Char) ≠ '0' := by decide
        have c2 : ¬ (([] : List Char) = ['>']) := by simp
        have c3 : ¬ (([] : List Char) = ['-']) := by simp
        simp only [c1, c2, c3, if_false, List.head?_cons, Option.getD_some] at this
        rw [e, this]
      · simp only [hie, Bool.false_eq_true, if_false] at h
        obtain ⟨e1, a, c0, r, hpre, ha, h0, hr, hz, hwv, hp, hfix1, hfix2⟩ := parsePrefix_shape var ft0 ft init w pad h
        subst e1
        exact finish a c0 r [last] (by rw [hpre]) ha h0 hr (Or.inr ⟨last, rfl, hf⟩) hz hwv hp hfix1 hfix2
    | none =>
      simp only [hf] at h
      by_cases hd : isDig last = true
      · simp only [hd, if_true, hne, Bool.false_eq_true, if_false] at h
        obtain ⟨e1, a, c0, r, hpre, ha, h0, hr, hz, hwv, hp, hfix1, hfix2⟩ :=
          parsePrefix_shape var (.num .d) ft (init ++ [last]) w pad h
        subst e1
        exact finish a c0 r [] (by rw [hpre]; simp) ha h0 hr (Or.inl ⟨rfl, rfl⟩) hz hwv hp hfix1 hfix2
      · simp [hd] at h

theorem parseFormat_pad (var : ParseVariant) (spec : List Char) (ft : FmtC) (w : Nat) (pad : Char)
    (h : parseFormat var spec = some (ft, w, pad)) : pad = ' ' ∨ pad = '0' := by
  unfold parseFormat at h
  by_cases he : spec.isEmpty = true
  · simp only [he, if_true, Option.some.injEq, Prod.mk.injEq] at h
    exact Or.inl h.2.2.symm
  · simp only [he, Bool.false_eq_true, if_false] at h
    split at h
    · exact absurd h (by simp)
    · rename_i ft0 pre _
      by_cases hp : pre.isEmpty = true
      · simp only [hp, if_true, Option.some.injEq, Prod.mk.injEq] at h
        exact Or.inl h.2.2.symm
      · simp only [hp, Bool.false_eq_true, if_false] at h
        obtain ⟨_, a, c0, r, _, _, _, _, _, _, hpad, _, _⟩ := parsePrefix_shape var ft0 ft pre w pad h
        by_cases hc : c0 = '0' <;> simp [hc] at hpad <;> simp [hpad]

end CyVerif.C18

import CyVerif.Lemmas.C30Init
/-! C30 helper lemmas: body sources, hash decision, error lists. -/
namespace CyVerif.C30

theorem nodup_unique {l : List RField} (hn : nodupStr (names l) = true) {f g : RField}
    (hf : f ∈ l) (hg : g ∈ l) (h : f.name = g.name) : f = g := by
  induction l with
  | nil => cases hf
  | cons a t ih =>
    simp only [names, List.map_cons] at hn
    obtain ⟨h1, h2⟩ := nodupStr_cons.mp hn
    have notin : ∀ x ∈ t, x.name ≠ a.name := by
      intro x hx hxa
      have : (List.map (fun x => x.name) t).contains a.name = true := by
        simp only [List.contains_iff_mem, List.mem_map]
        exact ⟨x, hx, hxa⟩
      rw [h1] at this; cases this
    cases hf with
    | head =>
      cases hg with
      | head => rfl
      | tail _ hg => exact absurd h.symm (notin g hg)
    | tail _ hf =>
      cases hg with
      | head => exact absurd h (notin f hf)
      | tail _ hg => exact ih h2 hf hg

theorem src_unset_dflt {f : RField} (h : f.src = .unset) : f.dflt = .none := by
  unfold RField.src at h
  split at h
  · cases h
  · split at h
    · split at h <;> cases h
    · split at h
      · cases h
      · split at h
        · rename_i hd; exact beq_iff_eq.mp hd
        · cases h

theorem pySrc_eq_base {bfs : List RField} (hn : nodupStr (names bfs) = true) {f : RField} (hf : f ∈ bfs) :
    pySrc bfs f = f.src := by
  unfold pySrc
  split
  · rename_i hc
    simp only [Bool.and_eq_true, beq_iff_eq] at hc
    obtain ⟨hu, hb⟩ := hc
    unfold baseAttr at hb
    simp only [List.any_eq_true, Bool.and_eq_true, beq_iff_eq] at hb
    obtain ⟨g, hg, hgn, hgd⟩ := hb
    have : g = f := nodup_unique hn hg hf hgn
    rw [this, src_unset_dflt hu] at hgd
    cases hgd
  · rfl

theorem pySrc_eq_own {bfs : List RField} {f : RField} (h : (names bfs).contains f.name = false) :
    pySrc bfs f = f.src := by
  unfold pySrc
  cases hb : baseAttr bfs f.name with
  | false => simp
  | true => rw [baseAttr_names hb] at h; cases h

theorem body_eq (bfs own : List RField) (hn : nodupStr (names bfs) = true)
    (hd : ∀ f ∈ own, (names bfs).contains f.name = false) :
    (bfs ++ own).map (fun f => (f.name, pySrc bfs f)) = (bfs ++ own).map (fun f => (f.name, f.src)) := by
  apply List.map_congr_left
  intro f hf
  cases List.mem_append.mp hf with
  | inl h => rw [pySrc_eq_base hn h]
  | inr h => rw [pySrc_eq_own (hd f h)]

/-! hash -/

theorem cyHashAct_eq (p : Params) (hp : HashWF p.hashTree) (o : Opts) (u : UserDefs) :
    cyHashAct p o u = pyHashAction o.unsafeHash o.eq o.frozen u.hash.present := by
  unfold cyHashAct
  rw [hp]

theorem hashAct_agree (uh e f : Bool) (h : HashDef) (ueq : Bool)
    (hok : (!(h == .setNone && ueq) || (!uh && !(e && f))) = true) (ns : List String) (u : UserDefs)
    (hu : u.hash = h) (hue : u.eq = ueq) :
    hashState (pyHashAction uh e f h.present) u ns = hashState (pyHashAction uh e f (pyExplicitHash u)) u ns ∧
    (pyHashAction uh e f h.present == .raise) = (pyHashAction uh e f (pyExplicitHash u) == .raise) ∧
    (pyHashAction uh e f h.present == .add) = (pyHashAction uh e f (pyExplicitHash u) == .add
      || (h == .setNone && ueq && e && f && !uh)) := by
  cases h <;> cases ueq <;> cases uh <;> cases e <;> cases f <;>
    simp_all [pyExplicitHash, pyHashAction, hashState, HashDef.present] <;> decide

theorem cyHashNames_eq (v : Var) (fs : List RField)
    (h : v.hashCompare = true ∨ ∀ f ∈ fs, f.initvar = true ∨ f.hash.isSome = true ∨ f.compare = true) :
    cyHashNames v fs = hashNames fs := by
  unfold cyHashNames hashNames
  congr 1
  apply List.filter_congr
  intro f hf
  cases h with
  | inl h => simp [h]
  | inr h =>
    cases h f hf with
    | inl hi => simp [hi]
    | inr h2 =>
      cases h2 with
      | inl hs => cases hh : f.hash with
        | none => rw [hh] at hs; cases hs
        | some b => simp
      | inr hc => cases hh : f.hash <;> simp [hc]

theorem hashState_names (a : HashAct) (u : UserDefs) (n1 n2 : List String) (h : a = .add → n1 = n2) :
    hashState a u n1 = hashState a u n2 := by
  cases a with
  | add => rw [h rfl]
  | _ => rfl

end CyVerif.C30

import CyVerif.Lemmas.C30Out
/-! C30 helper lemmas: the error checks of the two implementations. -/
namespace CyVerif.C30

theorem firstSome_none (l : List (Option String)) : firstSome l = none ↔ ∀ x ∈ l, x = none := by
  induction l with
  | nil => simp [firstSome]
  | cons a t ih =>
    cases a with
    | none => simp [firstSome, ih]
    | some e => simp [firstSome]

theorem chk_none (b : Bool) (e : String) : chk b e = none ↔ b = false := by
  cases b <;> simp [chk]

theorem tagIf_nil (b : Bool) (t : String) : tagIf b t = [] ↔ b = false := by
  cases b <;> simp [tagIf]

/-- per-field errors: Cython reports one exactly when CPython raises one -/
theorem fieldErrs_iff (v : Var) (bfs : List RField) (seen : Bool) (fs : List FieldSpec)
    (h1 : ∀ f ∈ fs, f.kind ≠ .kwSentinel)
    (h3 : ∀ f ∈ fs, f.kind = .classvar ∨ (names bfs).contains f.name = false)
    (h4 : v.fieldKwOnly = true ∨ ∀ f ∈ fs, f.kwOnly = none)
    (h11 : ∀ f ∈ fs, f.kind = .initvar → f.dflt ≠ .factory ∧ f.dflt ≠ .mutable)
    (hwf : ∀ f ∈ fs, f.wf = true) :
    cyFieldErrs v (names bfs) fs = [] ↔ (fs.any (·.dflt == .both) = false ∧ pyOwnErr seen fs = none) := by
  induction fs with
  | nil => simp [cyFieldErrs, pyOwnErr]
  | cons f t ih =>
    have iht := ih (fun g hg => h1 g (by simp [hg])) (fun g hg => h3 g (by simp [hg]))
      (h4.imp id (fun h g hg => h g (by simp [hg]))) (fun g hg => h11 g (by simp [hg]))
      (fun g hg => hwf g (by simp [hg]))
    have k1 := h1 f (by simp)
    have k3 := h3 f (by simp)
    have k11 := h11 f (by simp)
    have kwf := hwf f (by simp)
    have kkw : (f.kwOnly.isSome && !v.fieldKwOnly) = false := by
      cases h4 with
      | inl h => simp [h]
      | inr h => simp [h f (by simp)]
    unfold cyFieldErrs pyOwnErr
    simp only [List.any_cons, List.append_eq_nil_iff, Bool.or_eq_false_iff]
    cases hk : f.kind with
    | kwSentinel => exact absurd hk k1
    | classvar =>
      have hd : (f.dflt == Dflt.both) = false := by
        unfold FieldSpec.wf at kwf
        simp only [hk, Bool.and_eq_true, Bool.or_eq_true, beq_iff_eq] at kwf
        cases kwf.2 with
        | inl h => rw [h]; rfl
        | inr h => rw [h]; rfl
      simp [hd, iht]
    | plain =>
      have hn : (names bfs).contains f.name = false := by
        cases k3 with
        | inl h => rw [hk] at h; cases h
        | inr h => exact h
      simp only [show (Kind.plain == Kind.classvar) = false from rfl, hn, Bool.or_false,
        Bool.false_eq_true, if_false, kkw]
      cases hd : f.dflt <;> simp [tagIf, iht]
    | initvar =>
      have hn : (names bfs).contains f.name = false := by
        cases k3 with
        | inl h => rw [hk] at h; cases h
        | inr h => exact h
      have ⟨n1, n2⟩ := k11 hk
      simp only [show (Kind.initvar == Kind.classvar) = false from rfl, hn, Bool.or_false,
        Bool.false_eq_true, if_false, kkw]
      cases hd : f.dflt <;> first | exact absurd hd n1 | exact absurd hd n2 | simp [tagIf, iht]

theorem redeclare_nil (bn : List String) (fs : List FieldSpec)
    (h3 : ∀ f ∈ fs, f.kind = .classvar ∨ bn.contains f.name = false) :
    (fs.filter fun f => f.kind != .classvar && !f.bare && bn.contains f.name).map (fun _ => "redeclare") = [] := by
  rw [List.map_eq_nil_iff, List.filter_eq_nil_iff]
  intro f hf
  cases h3 f hf with
  | inl h => simp [h]
  | inr h =>
    have : ¬ f.name ∈ bn := by
      intro hm
      have : bn.contains f.name = true := List.contains_iff_mem.mpr hm
      rw [h] at this; cases this
    simp [this]

end CyVerif.C30

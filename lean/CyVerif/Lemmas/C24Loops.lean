import CyVerif.Lemmas.C24Base
/-! C24 helper lemmas, part 2: `__Pyx_ParseKeywordsTuple` and the keyword loop of `initialize_locals`
    as instances of the generic loop. -/
namespace CyVerif.C24

theorem locate_from (names : List Nat) (first t : Nat) :
    locate names first t =
      match locate names 0 t with
      | some i => if first ≤ i then some i else none
      | none => none := by
  unfold locate
  by_cases h1 : names.idxOf t < names.length
  · by_cases h2 : first ≤ names.idxOf t <;> simp [h1, h2]
  · simp [h1]

theorem any_take_eq {names : List Nat} (hn : names.Nodup) (first t : Nat) :
    (names.take first).any (fun n => t == n) =
      match locate names 0 t with
      | some i => decide (i < first)
      | none => false := by
  cases hl : locate names 0 t with
  | none =>
    simp only
    rw [Bool.eq_false_iff]
    intro h
    rw [List.any_eq_true] at h
    obtain ⟨x, hx, hxe⟩ := h
    have hxe : t = x := by simpa using hxe
    subst hxe
    rw [List.mem_iff_getElem?] at hx
    obtain ⟨i, hi⟩ := hx
    rw [List.getElem?_take] at hi
    split at hi
    · exact (locate_eq_none hn).1 hl i (Nat.zero_le _) hi
    · cases hi
  | some i =>
    simp only
    have hi := (locate_eq_some hn).1 hl
    by_cases hlt : i < first
    · simp only [hlt, decide_true]
      rw [List.any_eq_true]
      refine ⟨t, ?_, by simp⟩
      rw [List.mem_iff_getElem?]
      exact ⟨i, by rw [List.getElem?_take]; simp [hlt, hi.2]⟩
    · simp only [hlt, decide_false]
      rw [Bool.eq_false_iff]
      intro h
      rw [List.any_eq_true] at h
      obtain ⟨x, hx, hxe⟩ := h
      have hxe : t = x := by simpa using hxe
      subst hxe
      rw [List.mem_iff_getElem?] at hx
      obtain ⟨i', hi'⟩ := hx
      rw [List.getElem?_take] at hi'
      split at hi'
      · rename_i hlt'
        have := (locate_eq_some hn (lo := 0)).2 ⟨Nat.zero_le _, hi'⟩
        rw [hl] at this
        injection this with this
        omega
      · cases hi'

theorem search_ptrEq {names : List Nat} (hn : names.Nodup) (k : Key) (lo : Nat) :
    searchFrom k.ptrEq names lo = if k.kind == .interned then locate names lo k.text else none :=
  searchFrom_eq hn (k.kind == .interned) k.text lo

theorem search_txtEq {names : List Nat} (hn : names.Nodup) (k : Key) (lo : Nat) :
    searchFrom k.txtEq names lo = if k.isStr then locate names lo k.text else none :=
  searchFrom_eq hn k.isStr k.text lo

theorem any_take_txtEq {names : List Nat} (hn : names.Nodup) (k : Key) (first : Nat) :
    (names.take first).any k.txtEq =
      (k.isStr && match locate names 0 k.text with
        | some i => decide (i < first)
        | none => false) := by
  rw [← any_take_eq hn first k.text]
  cases h : k.isStr
  · simp [Key.txtEq, h]
  · have : k.txtEq = fun n => k.text == n := by funext n; simp [Key.txtEq, h]
    rw [this]; simp

/-- where `__Pyx_ParseKeywordsTuple` puts a key -/
def cyLoc (names : List Nat) (first base : Nat) (hasK2 ignore : Bool) (k : Key) : Land :=
  if !k.isStr then .bad
  else match locate names 0 k.text with
    | some i => if first ≤ i then .slot (base + i) else .bad
    | none => if hasK2 then .extra else if ignore then .skip else .bad

theorem parseTupleStep_eq {names : List Nat} (hn : names.Nodup) (first base : Nat) (hasK2 ignore : Bool)
    (st : KwState) (kv : Key × Val) :
    parseTupleStep names first base hasK2 ignore st kv = genStep (cyLoc names first base hasK2 ignore) st kv := by
  obtain ⟨k, v⟩ := kv
  unfold parseTupleStep genStep cyLoc matchKeywordArg matchStr matchNoStr
  simp only [search_ptrEq hn, search_txtEq hn, any_take_txtEq hn, locate_from names first k.text]
  obtain ⟨t, kind⟩ := k
  cases kind <;> simp only [Key.isStr, Key.exact] <;>
    rcases hl : locate names 0 t with _ | i <;>
    first
      | (cases hasK2 <;> cases ignore <;> simp [tyErr]; done)
      | (by_cases hf : first ≤ i
         · simp [hf]
         · have hf' : i < first := by omega
           simp [tyErr, hf, hf'])

theorem foldRes_congr {σ α : Type} {f g : σ → α → Res σ} (h : ∀ st a, f st a = g st a) (st : σ) (l : List α) :
    foldRes f st l = foldRes g st l := by
  have : f = g := by funext st a; exact h st a
  rw [this]

/-- the texts of the keys of a call are pairwise distinct -/
def KeysDistinct (kws : List (Key × Val)) : Prop := (kws.map (fun kv => kv.1.text)).Nodup

theorem KeysDistinct.pairwise {kws : List (Key × Val)} (h : KeysDistinct kws) :
    kws.Pairwise (fun a b => a.1.text ≠ b.1.text) := by
  have := List.nodup_iff_pairwise_ne.1 h
  rwa [List.pairwise_map] at this

theorem cyLoc_slot_iff {names : List Nat} (hn : names.Nodup) (first base : Nat) (hasK2 ignore : Bool)
    (k : Key) (j : Nat) :
    cyLoc names first base hasK2 ignore k = .slot j ↔
      k.isStr = true ∧ ∃ i, first ≤ i ∧ names[i]? = some k.text ∧ j = base + i := by
  unfold cyLoc
  cases hs : k.isStr
  · simp
  · simp only [Bool.not_true, Bool.false_eq_true, if_false, true_and]
    rcases hl : locate names 0 k.text with _ | i
    · simp only
      have hnone := (locate_eq_none hn).1 hl
      constructor
      · intro h; cases hasK2 <;> cases ignore <;> simp at h
      · rintro ⟨i, _, hi, _⟩
        exact absurd hi (hnone i (Nat.zero_le _))
    · simp only
      have hsome := (locate_eq_some hn).1 hl
      by_cases hf : first ≤ i
      · simp only [hf, if_true]
        constructor
        · intro h; injection h with h; exact ⟨i, hf, hsome.2, h.symm⟩
        · rintro ⟨i', _, hi', hj⟩
          have : locate names 0 k.text = some i' := (locate_eq_some hn).2 ⟨Nat.zero_le _, hi'⟩
          rw [hl] at this; injection this with this
          subst this; rw [hj]
      · simp only [hf, if_false]
        constructor
        · intro h; cases h
        · rintro ⟨i', hf', hi', _⟩
          have : locate names 0 k.text = some i' := (locate_eq_some hn).2 ⟨Nat.zero_le _, hi'⟩
          rw [hl] at this; injection this with this
          omega

theorem cyLoc_distinct {names : List Nat} (hn : names.Nodup) (first base : Nat) (hasK2 ignore : Bool)
    {kws : List (Key × Val)} (hk : KeysDistinct kws) :
    SlotsDistinct (cyLoc names first base hasK2 ignore) kws := by
  refine List.Pairwise.imp ?_ hk.pairwise
  intro a b hab j ha hb
  obtain ⟨_, ia, _, hia, hja⟩ := (cyLoc_slot_iff hn first base hasK2 ignore a.1 j).1 ha
  obtain ⟨_, ib, _, hib, hjb⟩ := (cyLoc_slot_iff hn first base hasK2 ignore b.1 j).1 hb
  have : ia = ib := by omega
  subst this
  rw [hia] at hib
  injection hib with hib
  exact hab hib

/-- the slot array after the keyword loop, by dict lookup -/
def kwSlots (names : List Nat) (first base : Nat) (kws : List (Key × Val)) (init : Slots) : Slots :=
  fun j => if base + first ≤ j ∧ j < base + names.length then
      match dictGet kws (names.getD (j - base) 0) with
      | some v => some v
      | none => init j
    else init j

theorem genSlots_cyLoc {names : List Nat} (hn : names.Nodup) (first base : Nat) (hasK2 ignore : Bool)
    (kws : List (Key × Val)) (init : Slots) :
    genSlots (cyLoc names first base hasK2 ignore) kws init = kwSlots names first base kws init := by
  funext j
  unfold genSlots kwSlots dictGet
  by_cases hr : base + first ≤ j ∧ j < base + names.length
  · simp only [hr, and_self, if_true]
    have hget : names[j - base]? = some (names.getD (j - base) 0) := by
      rw [List.getD_eq_getElem?_getD]
      have : j - base < names.length := by omega
      simp [List.getElem?_eq_getElem this]
    have : kws.find? (fun kv => cyLoc names first base hasK2 ignore kv.1 == .slot j) =
        kws.find? (fun kv => kv.1.txtEq (names.getD (j - base) 0)) := by
      apply find?_congr'
      intro kv _
      rw [Bool.eq_iff_iff]
      simp only [beq_iff_eq]
      rw [cyLoc_slot_iff hn]
      unfold Key.txtEq
      simp only [Bool.and_eq_true, beq_iff_eq]
      constructor
      · rintro ⟨hs, i, hf, hi, hj⟩
        refine ⟨hs, ?_⟩
        have hji : j - base = i := by omega
        rw [hji] at hget
        rw [hi] at hget
        injection hget with hget
        rw [hji]; exact hget
      · rintro ⟨hs, ht⟩
        refine ⟨hs, j - base, by omega, ?_, by omega⟩
        rw [hget, ht]
    rw [this]
    cases kws.find? (fun kv => kv.1.txtEq (names.getD (j - base) 0)) <;> rfl
  · simp only [hr, if_false]
    have : kws.find? (fun kv => cyLoc names first base hasK2 ignore kv.1 == .slot j) = none := by
      rw [List.find?_eq_none]
      intro kv _ h
      simp only [beq_iff_eq] at h
      obtain ⟨_, i, hf, hi, hj⟩ := (cyLoc_slot_iff hn first base hasK2 ignore kv.1 j).1 h
      have : i < names.length := by
        rw [List.getElem?_eq_some_iff] at hi; exact hi.1
      omega
    rw [this]

/-- closed form shared by the three variants of `__Pyx_ParseKeywords` -/
def parseClosed (names : List Nat) (first base : Nat) (hasK2 ignore : Bool)
    (values : Slots) (kws : List (Key × Val)) : Res KwState :=
  if kws.any (fun kv => cyLoc names first base hasK2 ignore kv.1 == .bad) then tyErr
  else .ok ⟨kwSlots names first base kws values,
            kws.filter (fun kv => cyLoc names first base hasK2 ignore kv.1 == .extra)⟩

theorem parseTuple_closed {names : List Nat} (hn : names.Nodup) (first base : Nat) (hasK2 ignore : Bool)
    (values : Slots) {kws : List (Key × Val)} (hk : KeysDistinct kws) :
    parseTuple names first base hasK2 ignore values kws = parseClosed names first base hasK2 ignore values kws := by
  unfold parseTuple
  rw [foldRes_congr (parseTupleStep_eq hn first base hasK2 ignore),
    genLoop_closed _ _ _ (cyLoc_distinct hn first base hasK2 ignore hk)]
  simp [genClosed, parseClosed, genSlots_cyLoc hn]

/-! ### CPython's keyword loop -/

def Sig.declNames (s : Sig) : List Nat := s.decl.map (·.name)

/-- where `initialize_locals` puts a key, given the slots filled from the positional arguments -/
def pyLoc (s : Sig) (init : Slots) (k : Key) : Land :=
  if !k.isStr then .bad
  else match locate s.declNames s.npo k.text with
    | some j => if (init j).isSome then .bad else .slot j
    | none => if s.sstar then .extra else .bad

theorem py_resolve {names : List Nat} (hn : names.Nodup) (k : Key) (lo : Nat) (hs : k.isStr = true) :
    (searchFrom k.ptrEq names lo).orElse (fun _ => searchFrom k.txtEq names lo) = locate names lo k.text := by
  rw [search_ptrEq hn, search_txtEq hn, hs]
  cases k.kind == Kind.interned <;> simp

theorem pyKwStep_eq {s : Sig} (hn : s.declNames.Nodup) (init : Slots) (st : KwState) (kv : Key × Val)
    (hag : ∀ j, locate s.declNames s.npo kv.1.text = some j → (st.slots j).isSome = (init j).isSome) :
    pyKwStep s st kv = genStep (pyLoc s init) st kv := by
  obtain ⟨k, v⟩ := kv
  unfold pyKwStep genStep pyLoc
  cases hs : k.isStr
  · simp [tyErr]
  · simp only [Bool.not_true, Bool.false_eq_true, if_false]
    have hres := py_resolve hn k s.npo hs
    unfold Sig.declNames at hres hag ⊢
    rw [hres]
    rcases hl : locate (List.map (fun x => x.name) s.decl) s.npo k.text with _ | j
    · cases hss : s.sstar <;> simp [tyErr, hl]
    · have := hag j hl
      simp only [hl]
      rw [this]
      cases hi : (init j).isSome <;> simp [tyErr]

theorem pyLoc_slot_iff (s : Sig) (init : Slots) (k : Key) (j : Nat) :
    pyLoc s init k = .slot j ↔
      k.isStr = true ∧ locate s.declNames s.npo k.text = some j ∧ (init j).isSome = false := by
  unfold pyLoc
  cases hs : k.isStr
  · simp
  · simp only [Bool.not_true, Bool.false_eq_true, if_false, true_and]
    rcases hl : locate s.declNames s.npo k.text with _ | j2
    · cases hss : s.sstar <;> simp
    · simp only
      cases hi : (init j2).isSome
      · simp only [Bool.false_eq_true, if_false]
        constructor
        · intro h; injection h with h; subst h; exact ⟨rfl, hi⟩
        · rintro ⟨h, _⟩; injection h with h; subst h; rfl
      · simp only [if_true]
        constructor
        · intro h; cases h
        · rintro ⟨h, h2⟩; injection h with h; subst h; rw [hi] at h2; cases h2

theorem pyLoop_gen {s : Sig} (hn : s.declNames.Nodup) (init : Slots) :
    ∀ (kws : List (Key × Val)) (st : KwState), KeysDistinct kws →
      (∀ kv ∈ kws, ∀ j, locate s.declNames s.npo kv.1.text = some j → (st.slots j).isSome = (init j).isSome) →
      foldRes (pyKwStep s) st kws = foldRes (genStep (pyLoc s init)) st kws
  | [], _, _, _ => rfl
  | kv :: rest, st, hk, hag => by
    have hpw := List.pairwise_cons.1 hk.pairwise
    have hk' : KeysDistinct rest := by
      unfold KeysDistinct at hk ⊢
      rw [List.map_cons, List.nodup_cons] at hk
      exact hk.2
    simp only [foldRes]
    rw [pyKwStep_eq hn init st kv (hag kv List.mem_cons_self)]
    cases hstep : genStep (pyLoc s init) st kv with
    | err e => rfl
    | ok st' =>
      simp only
      apply pyLoop_gen hn init rest st' hk'
      intro kv' hkv' j' hj'
      have hold := hag kv' (List.mem_cons_of_mem _ hkv') j' hj'
      unfold genStep at hstep
      cases hl : pyLoc s init kv.1 with
      | bad => rw [hl] at hstep; simp [tyErr] at hstep
      | skip => rw [hl] at hstep; simp at hstep; subst hstep; exact hold
      | extra => rw [hl] at hstep; simp at hstep; subst hstep; exact hold
      | slot j =>
        rw [hl] at hstep; simp at hstep; subst hstep
        have hne : j' ≠ j := by
          intro he
          subst he
          obtain ⟨_, hl2, _⟩ := (pyLoc_slot_iff s init kv.1 j').1 hl
          have h1 := ((locate_eq_some hn).1 hl2).2
          have h2 := ((locate_eq_some hn).1 hj').2
          rw [h1] at h2
          injection h2 with h2
          exact hpw.1 kv' hkv' h2
        simp [Slots.set, hne, hold]

end CyVerif.C24

import CyVerif.Lemmas.C50BuildE
/-! RE → NFA, part F: every `build_machine` realises the reference semantics (structural induction). -/
namespace CyVerif.C50

theorem Pre.after {m n : NFA} {i f i' f' : Nat} {L : List CurChar → Prop} (hp : Pre m i f)
    (c : BuildCert m n i' f' L) : Pre n i f :=
  ⟨c.wf, hp.hif, Nat.lt_of_lt_of_le hp.hi c.grow, Nat.lt_of_lt_of_le hp.hf c.grow⟩

theorem caseRange_bounds {c0 c1 a b : Int} (h : uppercaseRange c0 c1 = some (a, b) ∨ lowercaseRange c0 c1 = some (a, b)) :
    (Ev.range a b).InBounds := by
  unfold Ev.InBounds maxint
  rcases h with h | h
  · unfold uppercaseRange at h
    simp only at h
    split at h
    · simp only [Option.some.injEq, Prod.mk.injEq] at h
      obtain ⟨rfl, rfl⟩ := h
      omega
    · cases h
  · unfold lowercaseRange at h
    simp only at h
    split at h
    · simp only [Option.some.injEq, Prod.mk.injEq] at h
      obtain ⟨rfl, rfl⟩ := h
      omega
    · cases h

/-- `if self.uppercase_range: initial_state.add_transition(self.uppercase_range, final_state)` -/
theorem certOptRange {m0 n : NFA} {i f : Nat} {L : List CurChar → Prop} (hp : Pre m0 i f)
    (c : BuildCert m0 n i f L) (r : Option (Int × Int)) (hr : ∀ a b, r = some (a, b) → (Ev.range a b).InBounds) :
    Nonempty (BuildCert m0 (addOptRange n i r f) i f (fun w => L w ∨ ∃ a b, r = some (a, b) ∧ EvLang (.range a b) w)) := by
  cases r with
  | none =>
    refine BuildCert.congr ?_ c
    intro w; simp
  | some ab =>
    obtain ⟨a, b⟩ := ab
    have hp' := hp.after c
    have c2 := certEdge n c.wf i f hp.hif hp'.hi (.range a b) (hr a b rfl)
    refine BuildCert.congr ?_ (certAlt hp.hif hp.hi hp.hf c c2)
    intro w
    constructor
    · rintro (h | h)
      · exact .inl h
      · exact .inr ⟨a, b, rfl, h⟩
    · rintro (h | ⟨a', b', e, h⟩)
      · exact .inl h
      · simp only [Option.some.injEq, Prod.mk.injEq] at e
        obtain ⟨rfl, rfl⟩ := e
        exact .inr h

theorem evLang_nl (w : List CurChar) : EvLang (.range 10 11) w ↔ w = [.chr 10] := by
  unfold EvLang
  constructor
  · rintro ⟨l, hv, hm, rfl⟩
    cases l with
    | none => simp [EvMatches] at hm
    | some x =>
      cases x with
      | chr c =>
        simp only [EvMatches] at hm
        have : c = 10 := by omega
        subst this; rfl
      | _ => simp [EvMatches] at hm
  · rintro rfl
    exact ⟨some (.chr 10), by simp [ValidLab, ValidSym, maxint], by simp [EvMatches], rfl⟩

theorem semAltNon_false : ∀ (rs : REs) (nc : Bool) (w : List CurChar), rs.allNullable = true → ¬ rs.SemAltNon nc w
  | .nil, _, _, _ => fun h => h
  | .cons r rs, nc, w, h => by
    simp only [REs.allNullable, Bool.and_eq_true] at h
    simp only [REs.SemAltNon]
    rintro (⟨h1, _⟩ | h2)
    · rw [h.1] at h1; cases h1
    · exact semAltNon_false rs nc w h.2 h2

theorem isNil_eq : ∀ rs : REs, rs.isNil = true → rs = .nil
  | .nil, _ => rfl
  | .cons _ _, h => by simp [REs.isNil] at h

end CyVerif.C50

import CyVerif.Lemmas.C47LexAux
/-! Simulation of the scanner (no f-string) by the reference lexer: kept characters are never literal/comment body characters (C47 completeness). -/
namespace CyVerif.C47

def SimS (fuel : Nat) : Prop := ∀ (q : Char) (triple : Bool) (pend rest : List Char) (m : List Bool),
  isQuote q = true → rest.length < fuel → refLex (.str q triple) 0 rest = some m →
  ∃ m1 m2, m = m1 ++ m2 ∧
    (keptMask (parseString fuel (qsOf q triple) false pend rest).1).length = pend.length + m1.length ∧
    disj (keptMask (parseString fuel (qsOf q triple) false pend rest).1) (tt pend.length ++ m1) = true ∧
    (match (parseString fuel (qsOf q triple) false pend rest).2 with
      | none => m2 = []
      | some r => refLex .code 0 r = some m2)

def SimC (fuel : Nat) : Prop := ∀ (pend rest : List Char) (m : List Bool),
  rest.length < fuel → refLex .code 0 rest = some m →
    (keptMask (parseCode fuel false pend rest).1).length = pend.length + m.length ∧
    disj (keptMask (parseCode fuel false pend rest).1) (ff pend.length ++ m) = true

theorem QS_qsOf {q : Char} (hq : isQuote q = true) (triple : Bool) : QS (qsOf q triple) := by
  have hd : isDelim q = true := by
    simp [isQuote] at hq; rcases hq with h | h <;> simp [isDelim, h]
  cases triple
  · exact ⟨q, [], rfl, hd⟩
  · exact ⟨q, [q, q], rfl, hd⟩

/-- the scanner continues with `k` more body characters pending -/
theorem simS_continue {K : List Bool} {pend pend' : List Char} {k : Nat} {m' : List Bool} {R : List Bool → Prop}
    (hp : pend'.length = pend.length + k)
    (H : ∃ m1 m2, m' = m1 ++ m2 ∧ K.length = pend'.length + m1.length ∧
      disj K (tt pend'.length ++ m1) = true ∧ R m2) :
    ∃ m1 m2, tt k ++ m' = m1 ++ m2 ∧ K.length = pend.length + m1.length ∧
      disj K (tt pend.length ++ m1) = true ∧ R m2 := by
  obtain ⟨m1, m2, h1, h2, h3, h4⟩ := H
  refine ⟨tt k ++ m1, m2, by rw [h1, List.append_assoc], by simp [h2, hp]; omega, ?_, h4⟩
  rw [← List.append_assoc, ← tt_add, ← hp]; exact h3

theorem map_eq_some_append {o : Option (List Bool)} {x m : List Bool} (h : o.map (x ++ ·) = some m) :
    ∃ m', o = some m' ∧ m = x ++ m' := by
  cases o with
  | none => simp at h
  | some m' => simp at h; exact ⟨m', rfl, h.symm⟩

theorem simS_step (fuel : Nat) (ihS : SimS fuel) : SimS (fuel + 1) := by
  intro q triple pend rest m hq hl href
  have hqb : q ≠ '\\' := isQuote_ne_bs hq
  cases hs : search mStr rest with
  | none =>
    have h1 := ((search_str_ref hq triple rest).2 hs).1
    rw [h1] at href
    simp only [Option.some.injEq] at href
    subst href
    simp only [parseString, Bool.false_eq_true, if_false, hs]
    exact ⟨tt rest.length, [], by simp, by simp [keptMask_lit], by simp [keptMask_lit, disj_false_left], rfl⟩
  | some x =>
    obtain ⟨pre, tok, post⟩ := x
    have hs' : search (if false = true then mFStr else mStr) rest = some (pre, tok, post) := by simpa using hs
    obtain ⟨e, hstr⟩ := strSearch hs'
    have hpost : QP tok post := search_post (fun _ _ _ h => mStr_post h) hs
    have href2 := ((search_str_ref hq triple rest).1 pre tok post hs).1
    rw [href2] at href
    obtain ⟨m', hm', rfl⟩ := map_eq_some_append href
    cases tok with
    | comment => simp [Tok.isStr] at hstr
    | brace c => simp [Tok.isStr] at hstr
    | braces run => simp [Tok.isStr] at hstr
    | escape bs eq =>
      obtain ⟨⟨n, hbs⟩, heq⟩ := hpost
      simp only [strTail, Tok.chars, strExtra, Nat.add_zero, List.append_assoc, List.cons_append, List.nil_append] at hm' e ⊢
      have hrl : rest.length = pre.length + bs.length + 1 + post.length := by simp [e]; omega
      have hbl : bs.length = n + 1 := by rw [hbs]; simp
      rw [hbs, refLex_escape] at hm'
      have heqb : eq ≠ '\\' := isQuote_ne_bs heq
      simp only [parseString, Bool.false_eq_true, if_false, hs]
      have hhead : (qsOf q triple).head? = some q := by cases triple <;> rfl
      by_cases hpar : (n + 1) % 2 = 0
      · rw [if_pos hpar] at hm'
        obtain ⟨m'', hm'', rfl⟩ := map_eq_some_append hm'
        by_cases hqe : eq = q
        · -- even run before the terminator candidate: look at the quote next
          subst hqe
          have hc : bs.length % 2 = 0 ∧ some eq = (qsOf eq triple).head? := ⟨by rw [hbl]; exact hpar, by rw [hhead]⟩
          rw [if_pos hc]
          have := ihS eq triple (pend ++ pre ++ bs) (eq :: post) m'' hq (by simp; omega) hm''
          rw [← List.append_assoc, ← tt_add]
          exact simS_continue (by simp [hbl] <;> omega) this
        · have hc : ¬ (bs.length % 2 = 0 ∧ some eq = (qsOf q triple).head?) := by
            rw [hhead]; intro h; exact hqe (by simpa using h.2)
          rw [if_neg hc]
          rw [refLex_str_other heqb hqe] at hm''
          have : (fun (x : List Bool) => true :: x) = (tt 1 ++ ·) := by funext x; rfl
          rw [this] at hm''
          obtain ⟨m3, hm3, rfl⟩ := map_eq_some_append hm''
          have := ihS q triple (pend ++ pre ++ bs ++ [eq]) post m3 hq (by omega) hm3
          rw [← List.append_assoc, ← tt_add, ← List.append_assoc, ← tt_add]
          exact simS_continue (by simp [hbl] <;> omega) this
      · rw [if_neg hpar] at hm'
        obtain ⟨m'', hm'', rfl⟩ := map_eq_some_append hm'
        have hc : ¬ (bs.length % 2 = 0 ∧ some eq = (qsOf q triple).head?) := by
          rw [hbl]; intro h; exact hpar h.1
        rw [if_neg hc]
        have := ihS q triple (pend ++ pre ++ bs ++ [eq]) post m'' hq (by omega) hm''
        rw [← List.append_assoc, ← tt_add]
        exact simS_continue (by simp [hbl] <;> omega) this
    | quote f run =>
      obtain ⟨c, n, hc, hrun, hmax⟩ := hpost
      simp only [strTail, strExtra, Tok.chars, List.append_assoc] at hm' e ⊢
      have hrl : rest.length = pre.length + (fch f).length + run.length + post.length := by simp [e]; omega
      have hrunl : run.length = n + 1 := by rw [hrun]; simp
      simp only [parseString, Bool.false_eq_true, if_false, hs]
      by_cases hp : (qsOf q triple).isPrefixOf run = true
      · rw [if_pos hp]
        rw [hrun, isPrefixOf_qsOf] at hp
        obtain ⟨hcq, htr⟩ := hp
        subst hcq
        have hbody : (pend ++ pre ++ fch f).length = pend.length + (pre.length + (fch f).length) := by
          simp <;> omega
        cases triple with
        | false =>
          have hr : run = c :: rep n c := by rw [hrun]; simp [rep, List.replicate_succ]
          rw [hr, List.cons_append, refLex_close1 hc] at hm'
          have : (fun (x : List Bool) => false :: x) = (ff 1 ++ ·) := by funext x; rfl
          rw [this] at hm'
          obtain ⟨m2, hm2, rfl⟩ := map_eq_some_append hm'
          refine ⟨tt (pre.length + (fch f).length) ++ ff 1, m2, by simp, ?_, ?_, ?_⟩
          · simp [keptMask_append, keptMask_litIf, keptMask_kept, qsOf]; omega
          · rw [keptMask_append, keptMask_litIf, keptMask_kept, ← List.append_assoc, ← tt_add, ← hbody]
            rw [disj_append _ _ (by simp), disj_false_left]
            simp [qsOf, disj]
          · simpa [qsOf, hr] using hm2
        | true =>
          have h2 := htr rfl
          obtain ⟨n', rfl⟩ : ∃ n', n = n' + 2 := ⟨n - 2, by omega⟩
          have hr : run = c :: c :: c :: rep n' c := by rw [hrun]; simp [rep, List.replicate_succ]
          rw [hr] at hm'
          simp only [List.cons_append] at hm'
          rw [refLex_close3 hc] at hm'
          obtain ⟨m2, hm2, rfl⟩ := map_eq_some_append hm'
          refine ⟨tt (pre.length + (fch f).length) ++ ff 3, m2, by simp, ?_, ?_, ?_⟩
          · simp [keptMask_append, keptMask_litIf, keptMask_kept, qsOf]; omega
          · rw [keptMask_append, keptMask_litIf, keptMask_kept, ← List.append_assoc, ← tt_add, ← hbody]
            rw [disj_append _ _ (by simp), disj_false_left]
            simp [qsOf, disj, tt, ff, List.replicate_succ]
          · simpa [qsOf, hr] using hm2
      · rw [if_neg hp]
        have hbody : (pend ++ pre ++ fch f ++ run).length
            = pend.length + (pre.length + (fch f).length + (n + 1)) := by simp [hrunl]; omega
        have hcont : ∀ m'', refLex (.str q triple) 0 post = some m'' → m' = tt (n + 1) ++ m'' →
            ∃ m1 m2, tt (pre.length + (fch f).length) ++ m' = m1 ++ m2 ∧
              (keptMask (parseString fuel (qsOf q triple) false (pend ++ pre ++ fch f ++ run) post).1).length
                = pend.length + m1.length ∧
              disj (keptMask (parseString fuel (qsOf q triple) false (pend ++ pre ++ fch f ++ run) post).1)
                (tt pend.length ++ m1) = true ∧
              (match (parseString fuel (qsOf q triple) false (pend ++ pre ++ fch f ++ run) post).2 with
                | none => m2 = []
                | some r => refLex .code 0 r = some m2) := by
          intro m'' h1 h2
          have := ihS q triple (pend ++ pre ++ fch f ++ run) post m'' hq (by omega) h1
          rw [h2, ← List.append_assoc, ← tt_add]
          exact simS_continue hbody this
        rw [hrun, isPrefixOf_qsOf] at hp
        by_cases hcq : c = q
        · subst hcq
          have htr : triple = true ∧ n < 2 := by
            cases triple with
            | false => exact absurd ⟨rfl, fun h' => by cases h'⟩ hp
            | true => exact ⟨rfl, by
                by_cases h2 : 2 ≤ n
                · exact absurd ⟨rfl, fun _ => h2⟩ hp
                · omega⟩
          obtain ⟨rfl, hn⟩ := htr
          match n, hn with
          | 0, _ =>
            have hr : run = [c] := by rw [hrun]; rfl
            rw [hr] at hm'
            simp only [List.cons_append, List.nil_append] at hm'
            rw [refLex_triple_q1 hc post hmax] at hm'
            have : (fun (x : List Bool) => true :: x) = (tt 1 ++ ·) := by funext x; rfl
            rw [this] at hm'
            obtain ⟨m'', h1, h2⟩ := map_eq_some_append hm'
            exact hcont m'' h1 h2
          | 1, _ =>
            have hr : run = [c, c] := by rw [hrun]; rfl
            rw [hr] at hm'
            simp only [List.cons_append, List.nil_append] at hm'
            rw [refLex_triple_q2 hc post hmax] at hm'
            obtain ⟨m'', h1, h2⟩ := map_eq_some_append hm'
            exact hcont m'' h1 h2
        · rw [hrun, refLex_str_otherq hc hcq] at hm'
          obtain ⟨m'', h1, h2⟩ := map_eq_some_append hm'
          exact hcont m'' h1 h2


theorem keptMask_cons_kept (s : List Char) (ps : List Piece) :
    keptMask (.kept s :: ps) = tt s.length ++ keptMask ps := by
  simp [keptMask, tt, List.map_const']

theorem keptMask_cons_lit (s : List Char) (ps : List Piece) :
    keptMask (.lit s :: ps) = ff s.length ++ keptMask ps := by
  simp [keptMask, ff, List.map_const']

theorem ff_append_ff (a b : Nat) : ff a ++ ff b = ff (a + b) := (ff_add a b).symm

theorem simC_step (fuel : Nat) (ihS : SimS fuel) (ihC : SimC fuel) : SimC (fuel + 1) := by
  intro pend rest m hl href
  cases hs : search mCode rest with
  | none =>
    rw [search_code_none rest hs] at href
    simp only [Option.some.injEq] at href
    subst href
    simp only [parseCode, hs, keptMask_kept]
    exact ⟨by simp, by rw [ff_append_ff]; exact disj_false_right _ _⟩
  | some x =>
    obtain ⟨pre, tok, post⟩ := x
    obtain ⟨e, hcode⟩ := codeSearch hs
    have hpost : QP tok post := search_post (fun _ _ _ h => mCode_post h) hs
    rw [search_code_some rest pre tok post hs] at href
    obtain ⟨m', hm', rfl⟩ := map_eq_some_append href
    cases tok with
    | braces run => simp [Tok.isCode] at hcode
    | escape bs q => simp [Tok.isCode] at hcode
    | brace c =>
      simp only [Tok.chars, Tok.isCode, List.cons_append, List.nil_append] at hm' e hcode
      have hrl : rest.length = pre.length + 1 + post.length := by simp [e]; omega
      rw [refLex_code_brace hcode] at hm'
      have : (fun (x : List Bool) => false :: x) = (ff 1 ++ ·) := by funext x; rfl
      rw [this] at hm'
      obtain ⟨m'', hm'', rfl⟩ := map_eq_some_append hm'
      simp only [parseCode, hs, Bool.false_eq_true, if_false]
      obtain ⟨h1, h2⟩ := ihC (pend ++ pre ++ [c]) post m'' (by omega) hm''
      refine ⟨by rw [h1]; simp; omega, ?_⟩
      rw [← List.append_assoc, ← List.append_assoc, ff_append_ff, ff_append_ff]
      have : pend.length + pre.length + 1 = (pend ++ pre ++ [c]).length := by simp <;> omega
      rw [this]; exact h2
    | comment =>
      simp only [Tok.chars, List.cons_append, List.nil_append] at hm' e
      have hrl : rest.length = pre.length + 1 + post.length := by simp [e]; omega
      have h0 : refLex .code 0 ('#' :: post) = (refLex .comment 0 post).map (ff 1 ++ ·) := by
        simp [refLex] <;> rfl
      rw [h0, refLex_comment] at hm'
      obtain ⟨mc, hmc, rfl⟩ := map_eq_some_append hm'
      obtain ⟨m3, hm3, rfl⟩ := map_eq_some_append hmc
      have hkl : (pend ++ pre ++ ['#']).length = pend.length + pre.length + 1 := by simp <;> omega
      simp only [parseCode, hs]
      cases hd : post.dropWhile (· != '\n') with
      | nil =>
        rw [hd] at hm3
        simp [refLex] at hm3
        subst hm3
        simp only [List.append_nil]
        have hk : keptMask [Piece.kept (pend ++ pre ++ ['#']), Piece.lit (List.takeWhile (fun x => x != '\n') post)]
            = tt (pend.length + pre.length + 1) ++ ff (List.takeWhile (fun x => x != '\n') post).length := by
          rw [keptMask_cons_kept, keptMask_cons_lit, hkl]; simp [keptMask]
        rw [hk]
        refine ⟨by simp; omega, ?_⟩
        rw [← List.append_assoc, ← List.append_assoc, ff_append_ff, ff_append_ff,
          disj_append _ _ (by simp), disj_false_right, disj_false_left]; rfl
      | cons nl after =>
        rw [hd] at hm3
        have hpl : (nl :: after).length ≤ post.length := by
          rw [← hd]; exact (List.dropWhile_suffix _).length_le
        obtain ⟨h1, h2⟩ := ihC [] (nl :: after) m3 (by simp at hpl ⊢; omega) hm3
        simp only [List.length_nil, Nat.zero_add, ff, List.replicate_zero, List.nil_append] at h1 h2
        have hk : ∀ ps, keptMask (Piece.kept (pend ++ pre ++ ['#']) :: Piece.lit (List.takeWhile (fun x => x != '\n') post) :: ps)
            = tt (pend.length + pre.length + 1) ++ (ff (List.takeWhile (fun x => x != '\n') post).length ++ keptMask ps) := by
          intro ps; rw [keptMask_cons_kept, keptMask_cons_lit, hkl]
        rw [hk]
        refine ⟨by simp [h1]; omega, ?_⟩
        rw [← List.append_assoc (ff pend.length), ff_append_ff, ← List.append_assoc, ← List.append_assoc,
          ff_append_ff, List.append_assoc, disj_append _ _ (by simp), disj_false_right,
          disj_append _ _ (by simp), disj_false_left, h2]; rfl
    | quote f run =>
      obtain ⟨c, n, hc, hrun, hmax⟩ := hpost
      simp only [Tok.chars, List.append_assoc] at hm' e
      cases f with
      | true =>
        rw [hrun] at hm'
        simp only [fch, if_true, rep, List.replicate_succ, List.cons_append, List.nil_append] at hm'
        rw [refLex_code_fquote hc] at hm'
        simp at hm'
      | false =>
        simp only [fch, Bool.false_eq_true, if_false, List.nil_append] at hm' e
        have hrl : rest.length = pre.length + run.length + post.length := by simp [e]; omega
        have hrunl : run.length = n + 1 := by rw [hrun]; simp
        simp only [parseCode, hs, fch, Bool.false_eq_true, if_false, List.append_nil]
        cases hk : quoteKind run with
        | none =>
          simp only []
          rw [hrun] at hk hm'
          rw [code_noopen hc post hmax hk] at hm'
          obtain ⟨m'', hm'', rfl⟩ := map_eq_some_append hm'
          obtain ⟨h1, h2⟩ := ihC (pend ++ pre ++ run) post m'' (by omega) hm''
          refine ⟨by rw [h1]; simp [hrunl]; omega, ?_⟩
          rw [← List.append_assoc, ← List.append_assoc, ff_append_ff, ff_append_ff]
          have : pend.length + pre.length + (n + 1) = (pend ++ pre ++ run).length := by simp [hrunl] <;> omega
          rw [this]; exact h2
        | some qb =>
          obtain ⟨qs, back⟩ := qb
          simp only []
          rw [hrun] at hk
          obtain ⟨triple, rfl, hb1, hb2, hopen⟩ := code_open hc post hmax hk
          rw [hrun, hopen] at hm'
          obtain ⟨ms, hms, rfl⟩ := map_eq_some_append hm'
          have hdrop : List.drop (run.length - back) run = rep back c := by
            rw [hrun]; simp [rep, List.drop_replicate] <;> omega
          have htake : (List.take (run.length - back) run).length = n + 1 - back := by
            rw [hrunl]; simp [hrunl] <;> omega
          rw [hdrop]
          have hlen2 : (rep back c ++ post).length < fuel := by simp; omega
          obtain ⟨m1, m2, rfl, g1, g2, g3⟩ := ihS c triple [] (rep back c ++ post) ms hc hlen2 hms
          have hacc := (scan_all.1 fuel (qsOf c triple) false [] (rep back c ++ post)) hlen2 (QS_qsOf hc triple)
          simp only [List.length_nil, Nat.zero_add, tt, List.replicate_zero, List.nil_append] at g1 g2
          have hkl : (pend ++ pre ++ List.take (run.length - back) run).length
              = pend.length + pre.length + (n + 1 - back) := by simp [htake] <;> omega
          cases hr : (parseString fuel (qsOf c triple) false [] (rep back c ++ post)).2 with
          | none =>
            rw [hr] at g3
            simp only at g3
            subst g3
            simp only [List.append_nil]
            rw [keptMask_cons_kept, hkl]
            refine ⟨by simp [g1]; omega, ?_⟩
            rw [← List.append_assoc (ff pend.length), ff_append_ff, ← List.append_assoc, ff_append_ff,
              disj_append _ _ (by simp), disj_false_right, g2]; rfl
          | some rest' =>
            rw [hr] at g3
            simp only at g3
            have hlen3 : rest'.length < fuel := by
              have := hacc.2.1
              rw [hr] at this
              simp at this; omega
            obtain ⟨k1, k2⟩ := ihC [] rest' m2 hlen3 g3
            simp only [List.length_nil, Nat.zero_add, ff, List.replicate_zero, List.nil_append] at k1 k2
            simp only [List.cons_append]
            rw [keptMask_cons_kept, keptMask_append, hkl]
            refine ⟨by simp [g1, k1]; omega, ?_⟩
            rw [← List.append_assoc (ff pend.length), ff_append_ff,
              ← List.append_assoc (ff (pend.length + pre.length)), ff_append_ff,
              disj_append _ _ (by simp), disj_false_right, disj_append _ _ g1, g2, k2]; rfl

theorem sim_all : ∀ fuel, SimS fuel ∧ SimC fuel := by
  intro fuel
  induction fuel with
  | zero => exact ⟨fun _ _ _ _ _ _ h => by simp at h, fun _ _ _ h => by simp at h⟩
  | succ n ih => exact ⟨simS_step n ih.1, simC_step n ih.1 ih.2⟩

theorem disj_getElem : ∀ (a b : List Bool), disj a b = true → a.length = b.length →
    ∀ i : Nat, a[i]? = some true → b[i]? = some false := by
  intro a
  induction a with
  | nil => intro b _ _ i h; simp at h
  | cons x xs ih =>
    intro b hd hl i h
    cases b with
    | nil => simp at hl
    | cons y ys =>
      simp only [disj, Bool.and_eq_true, Bool.not_eq_true', Bool.and_eq_false_iff] at hd
      cases i with
      | zero =>
        simp only [List.getElem?_cons_zero, Option.some.injEq] at h ⊢
        rcases hd.1 with h' | h'
        · rw [h] at h'; cases h'
        · exact h'
      | succ i =>
        simp only [List.getElem?_cons_succ] at h ⊢
        exact ih ys hd.2 (by simpa using hl) i h

end CyVerif.C47

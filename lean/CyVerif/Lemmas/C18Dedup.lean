import CyVerif.Model.C18Dedup
/-! C18 lemmas: a `seen` dictionary keyed with the conversion character only holds texts that a fresh
evaluation would produce again. -/
namespace CyVerif.C18

/-- every cached text is what evaluating a spec-free placeholder with that key gives -/
def CacheOk (sv : SrcVariant) (args : List Arg) (cache : List ((Nat × Char) × List Nat)) : Prop :=
  ∀ (i : Nat) (conv : Option Char) (t : List Nat), cacheFind (dedupKey true i conv) cache = some t →
    ∀ (a : Arg), args[i]? = some a → evalFieldArg sv conv [] a = some (.text t)

/-- no conversion and `!s` give the same text without a format spec (the `or 's'` of the key) -/
def StrIsDefault (sv : SrcVariant) (args : List Arg) : Prop :=
  ∀ (i : Nat) (a : Arg), args[i]? = some a → evalFieldArg sv none [] a = evalFieldArg sv (some 's') [] a

theorem dedupKey_eq (i j : Nat) (c d : Option Char) (h : dedupKey true i c = dedupKey true j d) :
    i = j ∧ c.getD 's' = d.getD 's' := by
  simp only [dedupKey, if_true, Prod.mk.injEq] at h; exact h

theorem evalField_getD (sv : SrcVariant) (args : List Arg) (hd : StrIsDefault sv args) (i : Nat) (a : Arg)
    (ha : args[i]? = some a) (c d : Option Char) (h : c.getD 's' = d.getD 's') :
    evalFieldArg sv c [] a = evalFieldArg sv d [] a := by
  have key : ∀ x : Option Char, evalFieldArg sv x [] a = evalFieldArg sv (some (x.getD 's')) [] a := by
    intro x; cases x with
    | none => exact hd i a ha
    | some y => rfl
  rw [key c, key d, h]

theorem evalPiecesD_eq (sv : SrcVariant) (args : List Arg) (hd : StrIsDefault sv args) :
    ∀ (ps : List Piece) (cache : List ((Nat × Char) × List Nat)) (acc : List Nat), CacheOk sv args cache →
      evalPiecesD true sv ps args cache acc = evalPiecesA sv ps args acc := by
  intro ps
  induction ps with
  | nil => intro cache acc _; rfl
  | cons p more ih =>
    intro cache acc hc
    cases p with
    | lit s => simp only [evalPiecesD, evalPiecesA]; exact ih cache _ hc
    | field i conv spec =>
      simp only [evalPiecesD, evalPiecesA]
      cases ha : args[i]? with
      | none => rfl
      | some a =>
        simp only []
        by_cases hs : spec.isEmpty = true
        · have hsp : spec = [] := by cases spec <;> simp_all
          subst hsp
          simp only [List.isEmpty_nil, if_true]
          cases hf : cacheFind (dedupKey true i conv) cache with
          | some t =>
            simp only []
            rw [hc i conv t hf a ha]
            exact ih cache _ hc
          | none =>
            simp only []
            cases he : evalFieldArg sv conv [] a with
            | none => rfl
            | some r =>
              cases r with
              | text t =>
                simp only []
                apply ih
                intro j c t' hfind a' ha'
                simp only [cacheFind] at hfind
                by_cases hk : dedupKey true i conv = dedupKey true j c
                · simp only [hk, if_true, Option.some.injEq] at hfind
                  obtain ⟨hij, hcd⟩ := dedupKey_eq i j conv c hk
                  subst hij
                  rw [ha] at ha'; cases ha'
                  rw [← hfind, ← he]
                  exact (evalField_getD sv args hd i a ha conv c hcd).symm
                · simp only [hk, if_false] at hfind
                  exact hc j c t' hfind a' ha'
              | err e => rfl
              | ub k => rfl
        · simp only [hs, Bool.false_eq_true, if_false]
          cases he : evalFieldArg sv conv spec a with
          | none => rfl
          | some r =>
            cases r with
            | text t => simp only []; exact ih cache _ hc
            | err e => rfl
            | ub k => rfl

end CyVerif.C18

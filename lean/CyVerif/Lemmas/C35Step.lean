import CyVerif.Lemmas.C35WF
/-! Every operation of the `FunctionState` model preserves the invariant `WF`. -/
namespace CyVerif.C35

theorem order_split {l : List Nat} {n : Nat} (h : l.getLast? = some n) : l = l.dropLast ++ [n] := by
  obtain ⟨ys, rfl⟩ := List.getLast?_eq_some_iff.mp h
  simp

theorem reuseCandidate_some {s : FS} {k : Key} {r : Bool} {fl : FreeList} {n : Nat}
    (h : reuseCandidate s k r = some (fl, n)) :
    r = true ∧ aget s.free k = some fl ∧ fl.order.getLast? = some n := by
  unfold reuseCandidate at h
  split at h
  · rename_i hr
    split at h
    · rename_i fl' hfl
      simp only [Option.map_eq_some_iff] at h
      obtain ⟨m, hm, e⟩ := h
      cases e
      exact ⟨hr, hfl, hm⟩
    · cases h
  · cases h

theorem wf_allocFresh {s : FS} (w : WF s) (ty : Ty) (m st r : Bool)
    (hm : m = true → ty.needsRefcounting = true) : WF (allocFresh s ty m st r).1 := by
  have hn := nextName_spec s.taken s.counter
  have fresh : nextName s.taken s.counter ∉ names s := by
    intro h
    obtain ⟨t, ht, e⟩ := mem_names.mp h
    have := w.bound t ht; omega
  constructor
  · show ((s.allocated ++ [_]).map Temp.name).Nodup
    simp only [List.map_append, List.map_cons, List.map_nil]
    exact List.nodup_append.mpr ⟨w.namesNodup, by simp, by
      intro a ha b hb; simp at hb; subst hb; exact fun e => fresh (e ▸ ha)⟩
  · intro t ht
    rcases List.mem_append.mp ht with ht | ht
    · have := w.bound t ht; show t.name ≤ nextName s.taken s.counter; omega
    · simp at ht; subst ht; exact Nat.le_refl _
  · intro t ht
    rcases List.mem_append.mp ht with ht | ht
    · exact w.notTaken t ht
    · simp at ht; subst ht; exact hn.2
  · intro t ht
    show aget (aset s.usedType _ _) t.name = _
    rcases List.mem_append.mp ht with ht | ht
    · have : t.name ≠ nextName s.taken s.counter := fun e => fresh (e ▸ mem_names.mpr ⟨t, ht, rfl⟩)
      rw [aget_aset_ne _ _ this]; exact w.used t ht
    · simp at ht; subst ht; exact aget_aset_self _ _ _
  · intro n k h
    show n ∈ (s.allocated ++ [_]).map Temp.name
    change aget (aset s.usedType _ _) n = _ at h
    by_cases e : n = nextName s.taken s.counter
    · simp [e]
    · rw [aget_aset_ne _ _ e] at h
      have := w.usedOnly n k h
      simp only [List.map_append, List.mem_append]; exact Or.inl this
  · exact w.freeKeys
  · intro k fl h n hn'
    obtain ⟨t, ht, e⟩ := w.members k fl h n hn'
    exact ⟨t, List.mem_append.mpr (Or.inl ht), e⟩
  · intro k fl h n hn'
    have := w.orderSub k fl h n hn'
    refine ⟨this.1, ?_⟩
    show n ∉ (if r then s.zombies else s.zombies ++ [_])
    split
    · exact this.2
    · intro hz
      rcases List.mem_append.mp hz with hz | hz
      · exact this.2 hz
      · simp at hz
        obtain ⟨t, ht, e⟩ := w.members k fl h n this.1
        exact fresh (hz ▸ mem_names.mpr ⟨t, ht, e.1⟩)
  · intro k fl h n hn' hno
    have := w.dead k fl h n hn' hno
    show n ∈ (if r then s.zombies else s.zombies ++ [_])
    split
    · exact this
    · exact List.mem_append.mpr (Or.inl this)
  · exact w.membersNodup
  · exact w.orderNodup
  · intro t ht
    rcases List.mem_append.mp ht with ht | ht
    · exact w.canonManage t ht
    · simp at ht; subst ht; exact hm
  · intro n hz
    show n ∈ (s.allocated ++ [_]).map Temp.name
    change n ∈ (if r then s.zombies else s.zombies ++ [_]) at hz
    simp only [List.map_append, List.mem_append]
    split at hz
    · exact Or.inl (w.zombiesSub n hz)
    · rcases List.mem_append.mp hz with hz | hz
      · exact Or.inl (w.zombiesSub n hz)
      · right; simpa using hz

theorem wf_allocReuse {s : FS} (w : WF s) {k : Key} {fl : FreeList} {n : Nat}
    (hfl : aget s.free k = some fl) (hlast : fl.order.getLast? = some n) :
    WF (allocReuse s k fl n).1 := by
  have hsplit := order_split hlast
  have hnord : n ∈ fl.order := by rw [hsplit]; simp
  have hnmem := (w.orderSub k fl hfl n hnord).1
  have ond := w.orderNodup k fl hfl
  have mnd := w.membersNodup k fl hfl
  have hdl : ∀ x ∈ fl.order.dropLast, x ≠ n ∧ x ∈ fl.order := by
    intro x hx
    rw [hsplit] at ond
    have := (List.nodup_append.mp ond).2.2 x hx n (by simp)
    exact ⟨this, (List.dropLast_sublist _).subset hx⟩
  -- lookups in the updated free table
  have look : ∀ k' fl', aget (aset s.free k ⟨fl.order.dropLast, fl.members.erase n⟩) k' = some fl' →
      (k' = k ∧ fl' = ⟨fl.order.dropLast, fl.members.erase n⟩) ∨ (k' ≠ k ∧ aget s.free k' = some fl') := by
    intro k' fl' h
    by_cases e : k' = k
    · subst e; rw [aget_aset_self] at h; left; exact ⟨rfl, (Option.some.inj h).symm⟩
    · rw [aget_aset_ne _ _ e] at h; exact Or.inr ⟨e, h⟩
  constructor
  · exact w.namesNodup
  · exact w.bound
  · exact w.notTaken
  · intro t ht
    show aget (aset s.usedType n k) t.name = _
    by_cases e : t.name = n
    · rw [e, aget_aset_self]
      obtain ⟨u, hu, hun, huk⟩ := w.members k fl hfl n hnmem
      have : t = u := temp_eq_of_name w ht hu (by rw [e, hun])
      rw [this, huk]
    · rw [aget_aset_ne _ _ e]; exact w.used t ht
  · intro m k' h
    change aget (aset s.usedType n k) m = _ at h
    by_cases e : m = n
    · obtain ⟨u, hu, hun, _⟩ := w.members k fl hfl n hnmem
      exact mem_names.mpr ⟨u, hu, e ▸ hun⟩
    · rw [aget_aset_ne _ _ e] at h; exact w.usedOnly m k' h
  · exact keys_aset_nodup _ _ w.freeKeys
  · intro k' fl' h x hx
    rcases look k' fl' h with ⟨rfl, rfl⟩ | ⟨_, h'⟩
    · exact w.members _ fl hfl x (List.mem_of_mem_erase hx)
    · exact w.members k' fl' h' x hx
  · intro k' fl' h x hx
    rcases look k' fl' h with ⟨rfl, rfl⟩ | ⟨_, h'⟩
    · have := hdl x hx
      have hs := w.orderSub _ fl hfl x this.2
      exact ⟨(List.Nodup.mem_erase_iff mnd).mpr ⟨this.1, hs.1⟩, hs.2⟩
    · exact w.orderSub k' fl' h' x hx
  · intro k' fl' h x hx hno
    rcases look k' fl' h with ⟨rfl, rfl⟩ | ⟨_, h'⟩
    · have hx' := (List.Nodup.mem_erase_iff mnd).mp hx
      apply w.dead _ fl hfl x hx'.2
      intro hxo
      rw [hsplit] at hxo
      rcases List.mem_append.mp hxo with hxo | hxo
      · exact hno hxo
      · simp at hxo; exact hx'.1 hxo
    · exact w.dead k' fl' h' x hx hno
  · intro k' fl' h
    rcases look k' fl' h with ⟨rfl, rfl⟩ | ⟨_, h'⟩
    · exact List.Nodup.erase _ mnd
    · exact w.membersNodup k' fl' h'
  · intro k' fl' h
    rcases look k' fl' h with ⟨rfl, rfl⟩ | ⟨_, h'⟩
    · exact List.Nodup.sublist (List.dropLast_sublist _) ond
    · exact w.orderNodup k' fl' h'
  · exact w.canonManage
  · exact w.zombiesSub

end CyVerif.C35

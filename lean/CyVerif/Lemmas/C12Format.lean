import CyVerif.Lemmas.C12Bits
/-!
Format level of C12: the decoder model run on `emit ts` for a well-formed token list
reconstructs `expand ts`, consumes exactly `emit ts`, and stays inside its buffers.
-/
namespace CyVerif.C12

/-- array version of `applyTok`, literally what `dloop` does to `dst` -/
def applyTokA (out : Array Nat) : Token → Array Nat
  | .lit b => out.push b
  | t => out ++ out.extract (out.size - t.off - t.len) (out.size - t.off - t.len + t.len)

theorem applyTokA_toList (out : Array Nat) (t : Token) :
    (applyTokA out t).toList = applyTok out.toList t := by
  cases t <;> simp [applyTokA, applyTok, List.extract]

theorem foldl_applyTokA_toList (ts : List Token) : ∀ (out : Array Nat),
    (ts.foldl applyTokA out).toList = ts.foldl applyTok out.toList := by
  induction ts with
  | nil => intro out; rfl
  | cons t ts ih => intro out; simp [List.foldl_cons, ih, applyTokA_toList]

def sumLen (ts : List Token) : Nat := (ts.map Token.len).sum

@[simp] theorem sumLen_nil : sumLen [] = 0 := rfl
@[simp] theorem sumLen_cons (t : Token) (ts : List Token) : sumLen (t :: ts) = t.len + sumLen ts := by
  simp [sumLen]
theorem sumLen_append (a b : List Token) : sumLen (a ++ b) = sumLen a + sumLen b := by
  simp [sumLen]

theorem TokOK.len_pos {m : Nat} {t : Token} (h : TokOK m t) : 1 ≤ t.len := by
  cases t <;> simp [TokOK, Token.len] at * <;> omega

theorem applyTokA_size {out : Array Nat} {t : Token} (h : TokOK out.size t) :
    (applyTokA out t).size = out.size + t.len := by
  cases t <;> simp [applyTokA, TokOK, Token.len, Token.off] at * <;> omega

theorem foldl_applyTokA_size : ∀ (ts : List Token) (out : Array Nat), ToksOK out.size ts →
    (ts.foldl applyTokA out).size = out.size + sumLen ts := by
  intro ts
  induction ts with
  | nil => intro out _; simp
  | cons t ts ih =>
    intro out h
    obtain ⟨h1, h2⟩ := h
    rw [List.foldl_cons, ih, applyTokA_size h1, sumLen_cons]
    · omega
    · rw [applyTokA_size h1]; exact h2

theorem ToksOK_sumLen_pos : ∀ {m : Nat} {ts : List Token}, ToksOK m ts → ts ≠ [] → 1 ≤ sumLen ts := by
  intro m ts h hne
  cases ts with
  | nil => contradiction
  | cons t ts => have := h.1.len_pos; rw [sumLen_cons]; omega

theorem encTok_length_pos (t : Token) : 1 ≤ (encTok t).length := by
  cases t <;> simp [encTok]

theorem flatMap_encTok_length_ge (ts : List Token) : ts.length ≤ (ts.flatMap encTok).length := by
  induction ts with
  | nil => simp
  | cons t ts ih =>
    have := encTok_length_pos t
    simp only [List.flatMap_cons, List.length_append, List.length_cons]; omega

/-- One token: with bit 8 of `flags` set and bit 0 announcing the token kind, the decoder
reads exactly `encTok t`, performs in-bounds accesses only and applies the token. -/
theorem dloop_tok (dstLen fuel : Nat) (t : Token) (tail : List Nat) (pos : Nat) (out : Array Nat)
    (flags : Nat) (h8 : flags &&& 0x100 ≠ 0) (h1 : flags &&& 1 ≠ 0 ↔ t.isLit = true)
    (hok : TokOK out.size t) (hfit : out.size + t.len ≤ dstLen) :
    dloop dstLen (fuel + 1) (encTok t ++ tail) pos out flags =
      if (applyTokA out t).size ≥ dstLen then .ok (applyTokA out t) (pos + (encTok t).length)
      else dloop dstLen fuel tail (pos + (encTok t).length) (applyTokA out t) (flags >>> 1) := by
  cases t with
  | lit b =>
    have hl : flags &&& 1 ≠ 0 := h1.2 rfl
    simp only [Token.len] at hfit
    have hlt : out.size < dstLen := by omega
    have hl' : flags % 2 = 1 := by have := Nat.and_one_is_mod flags; omega
    simp [dloop, encTok, applyTokA, h8, hl', hlt]
  | short off len =>
    have hl : ¬ (flags &&& 1 ≠ 0) := fun h => by simpa [Token.isLit] using h1.1 h
    simp only [TokOK] at hok
    simp only [Token.len] at hfit
    obtain ⟨ho, hl3, hl258, hm⟩ := hok
    have hoff : off &&& 0x80 = 0 := (hibit_facts off (by omega)).2.2.2
    have e3 : len - 3 + 3 = len := by omega
    have c1 : ¬ (out.size < off + len) := by omega
    have c2 : ¬ (dstLen < out.size + len) := by omega
    simp only [ne_eq, Decidable.not_not] at hl
    simp [dloop, encTok, applyTokA, h8, hl, hoff, e3, c1, c2, Token.off, Token.len]
  | mid off len =>
    have hl : ¬ (flags &&& 1 ≠ 0) := fun h => by simpa [Token.isLit] using h1.1 h
    simp only [TokOK] at hok
    simp only [Token.len] at hfit
    obtain ⟨ho1, ho2, hl3, hl35, hm⟩ := hok
    obtain ⟨k1, k2, k3, k4, _, _⟩ := mid_codec (off - 0x80) (len - 3) (by omega) (by omega)
    have e3 : len - 3 + 3 = len := by omega
    have eo : 0x80 + (off - 0x80) = off := by omega
    have c1 : ¬ (out.size < off + len) := by omega
    have c2 : ¬ (dstLen < out.size + len) := by omega
    simp only [ne_eq, Decidable.not_not] at hl
    simp only [dloop, encTok, List.cons_append, List.nil_append]
    simp [h8, hl, k1, k2, k3, k4, e3, eo, c1, c2, applyTokA, Token.off, Token.len]
  | long off len =>
    have hl : ¬ (flags &&& 1 ≠ 0) := fun h => by simpa [Token.isLit] using h1.1 h
    simp only [TokOK] at hok
    simp only [Token.len] at hfit
    obtain ⟨ho1, ho2, hl3, hl258, hm⟩ := hok
    obtain ⟨k1, k2, k3, _, _⟩ := long_codec (off - 0x80) (by omega)
    have e3 : len - 3 + 3 = len := by omega
    have eo : 0x80 + (off - 0x80) = off := by omega
    have c1 : ¬ (out.size < off + len) := by omega
    have c2 : ¬ (dstLen < out.size + len) := by omega
    simp only [ne_eq, Decidable.not_not] at hl
    simp only [dloop, encTok, List.cons_append, List.nil_append]
    simp [h8, hl, k1, k2, k3, e3, eo, c1, c2, applyTokA, Token.off, Token.len]


/-- The tokens `g.drop j` of one group, decoder positioned before token `j`. -/
theorem dloop_group (dstLen : Nat) (g : List Token) (hg : g.length ≤ 8) :
    ∀ (rest : List Token) (j : Nat), g.drop j = rest →
    ∀ (fuel : Nat) (tail : List Nat) (pos : Nat) (out : Array Nat) (extra : Nat),
    rest ≠ [] → ToksOK out.size rest → dstLen = out.size + sumLen rest + extra →
    dloop dstLen (fuel + rest.length) (rest.flatMap encTok ++ tail) pos out
        ((flagByte g ||| 0xFF00) >>> j) =
      if extra = 0 then .ok (rest.foldl applyTokA out) (pos + (rest.flatMap encTok).length)
      else dloop dstLen fuel tail (pos + (rest.flatMap encTok).length) (rest.foldl applyTokA out)
             ((flagByte g ||| 0xFF00) >>> (j + rest.length)) := by
  intro rest
  induction rest with
  | nil => intro j _ fuel tail pos out extra hne; contradiction
  | cons t rest' ih =>
    intro j hdrop fuel tail pos out extra _ hok hdst
    obtain ⟨hok1, hok2⟩ := hok
    have hjlt : j < g.length := by
      by_cases h : j < g.length
      · exact h
      · rw [List.drop_eq_nil_of_le (by omega)] at hdrop; contradiction
    have hgj : g[j]? = some t := by
      have := congrArg (fun l => l[0]?) hdrop
      simpa [List.getElem?_drop] using this
    have hdrop' : g.drop (j + 1) = rest' := by
      have := congrArg List.tail hdrop
      simpa [List.tail_drop] using this
    have hff := flagFacts (g.map Token.isLit) (by simpa using hg)
    obtain ⟨_, _, _, _, hbits, _⟩ := hff
    obtain ⟨hb8, hb1⟩ := hbits j (by simpa using hjlt)
    rw [← flagByte_eq_fb] at hb8 hb1
    have hb1' : ((flagByte g ||| 0xFF00) >>> j) &&& 1 ≠ 0 ↔ t.isLit = true := by
      rw [hb1]; simp [List.getElem?_map, hgj]
    have hsz := applyTokA_size hok1
    rw [sumLen_cons] at hdst
    have hstep := dloop_tok dstLen (fuel + rest'.length) t (rest'.flatMap encTok ++ tail) pos out _
      hb8 hb1' hok1 (by omega)
    have e1 : fuel + (t :: rest').length = fuel + rest'.length + 1 := by simp; omega
    rw [e1, List.flatMap_cons, List.append_assoc, hstep]
    have hshift : ((flagByte g ||| 0xFF00) >>> j) >>> 1 = (flagByte g ||| 0xFF00) >>> (j + 1) := by
      rw [Nat.shiftRight_add]
    rw [hshift]
    cases hr : rest' with
    | nil =>
      subst hr
      simp only [sumLen_nil, Nat.add_zero] at hdst
      by_cases hex : extra = 0
      · have : (applyTokA out t).size ≥ dstLen := by omega
        simp [this, hex]
      · have : ¬ (applyTokA out t).size ≥ dstLen := by omega
        simp [this, hex]
    | cons t2 rest2 =>
      rw [← hr]
      have hne : rest' ≠ [] := by rw [hr]; simp
      have hpos := ToksOK_sumLen_pos hok2 hne
      have : ¬ (applyTokA out t).size ≥ dstLen := by omega
      rw [if_neg this]
      have hok2' : ToksOK (applyTokA out t).size rest' := by rw [hsz]; exact hok2
      rw [ih (j + 1) hdrop' fuel tail _ (applyTokA out t) extra hne hok2' (by omega)]
      simp only [List.foldl_cons, List.length_append, List.length_cons]
      have ea : pos + (encTok t).length + (rest'.flatMap encTok).length =
          pos + ((encTok t).length + (rest'.flatMap encTok).length) := by omega
      have eb : j + 1 + rest'.length = j + (rest'.length + 1) := by omega
      rw [ea, eb]

theorem emit_nil : emit [] = [] := by rw [emit]; simp

theorem emit_of_ne {ts : List Token} (h : ts ≠ []) :
    emit ts = flagByte (ts.take 8) :: ((ts.take 8).flatMap encTok ++ emit (ts.drop 8)) := by
  rw [emit]; simp [h, emitGroup]

theorem ToksOK_append : ∀ (a b : List Token) (m : Nat),
    ToksOK m (a ++ b) ↔ ToksOK m a ∧ ToksOK (m + sumLen a) b := by
  intro a
  induction a with
  | nil => intro b m; simp [ToksOK]
  | cons t a ih =>
    intro b m
    simp only [List.cons_append, ToksOK, ih, sumLen_cons, and_assoc, Nat.add_assoc]

theorem dloop_emit : ∀ (n : Nat) (ts : List Token), ts.length ≤ n → ts ≠ [] →
    ∀ (fuel pos : Nat) (out : Array Nat) (flags : Nat), flags &&& 0x100 = 0 →
    ToksOK out.size ts → (emit ts).length ≤ fuel →
    dloop (out.size + sumLen ts) fuel (emit ts) pos out flags =
      .ok (ts.foldl applyTokA out) (pos + (emit ts).length) := by
  intro n
  induction n with
  | zero =>
    intro ts hlen hne
    cases ts with
    | nil => contradiction
    | cons => simp at hlen
  | succ n ih =>
    intro ts hlen hne fuel pos out flags hfl hok hfuel
    have hsplit : ts.take 8 ++ ts.drop 8 = ts := List.take_append_drop 8 ts
    have hgne : ts.take 8 ≠ [] := by
      cases ts with
      | nil => contradiction
      | cons => simp
    have hglen : (ts.take 8).length ≤ 8 := by simp; omega
    rw [← hsplit, ToksOK_append] at hok
    obtain ⟨hokg, hokr⟩ := hok
    have hsum : sumLen ts = sumLen (ts.take 8) + sumLen (ts.drop 8) := by
      rw [← sumLen_append, hsplit]
    rw [emit_of_ne hne] at hfuel ⊢
    simp only [List.length_cons, List.length_append] at hfuel
    have hge := flatMap_encTok_length_ge (ts.take 8)
    obtain ⟨f, rfl⟩ : ∃ f, fuel = f + (ts.take 8).length + 1 :=
      ⟨fuel - (ts.take 8).length - 1, by omega⟩
    rw [dloop]
    simp only [hfl, if_true]
    have hg := dloop_group (out.size + sumLen ts) (ts.take 8) hglen (ts.take 8) 0 (by simp)
      f (emit (ts.drop 8)) (pos + 1) out (sumLen (ts.drop 8)) hgne hokg (by omega)
    rw [Nat.shiftRight_zero] at hg
    rw [hg]
    by_cases hr : ts.drop 8 = []
    · have hts : ts.take 8 = ts := by
        have h2 := hsplit
        rw [hr, List.append_nil] at h2
        exact h2
      simp only [hr, sumLen_nil, if_true, emit_nil, List.length_nil, Nat.add_zero,
        List.length_cons, List.length_append, hts]
      congr 1
      omega
    · have hpos := ToksOK_sumLen_pos hokr hr
      rw [if_neg (by omega)]
      have hlen8 : (ts.take 8).length = 8 := by
        have : 8 < ts.length := by
          by_cases h : 8 < ts.length
          · exact h
          · exact absurd (List.drop_eq_nil_of_le (by omega)) hr
        simp; omega
      have hff := flagFacts ((ts.take 8).map Token.isLit) (by simpa using hglen)
      obtain ⟨_, _, _, _, _, hlast⟩ := hff
      rw [← flagByte_eq_fb] at hlast
      have hsz := foldl_applyTokA_size (ts.take 8) out hokg
      have hokr' : ToksOK ((ts.take 8).foldl applyTokA out).size (ts.drop 8) := by
        rw [hsz]; exact hokr
      have hdst : out.size + sumLen ts = ((ts.take 8).foldl applyTokA out).size + sumLen (ts.drop 8) := by
        rw [hsz]; omega
      have hrl : (ts.drop 8).length ≤ n := by
        simp only [List.length_drop]; omega
      rw [hdst, hlen8, Nat.zero_add]
      rw [ih (ts.drop 8) hrl hr f _ _ _ hlast hokr' (by omega)]
      congr 1
      · rw [← List.foldl_append, hsplit]
      · simp only [List.length_cons, List.length_append]; omega

/-- **Format-level theorem**: for every non-empty well-formed token list the decoder run
on `emit ts` with a destination buffer of exactly `|expand ts|` bytes returns `expand ts`,
reports having consumed exactly `|emit ts|` bytes, and performs no access outside
`src[0..|emit ts|)` or `dst[0..|expand ts|)`. -/
theorem decompress_emit (ts : List Token) (hne : ts ≠ []) (hok : ToksOK 0 ts) :
    decompress (emit ts) (expand ts).length = .ok (expand ts).toArray (emit ts).length := by
  have hexp : expand ts = (ts.foldl applyTokA #[]).toList := by
    rw [foldl_applyTokA_toList]; rfl
  have hlen : (expand ts).length = (#[] : Array Nat).size + sumLen ts := by
    rw [hexp, Array.length_toList, foldl_applyTokA_size ts #[] (by simpa using hok)]
  unfold decompress
  rw [hlen, dloop_emit ts.length ts (Nat.le_refl _) hne _ 0 #[] 0 (by decide) (by simpa using hok)
    (by omega)]
  simp [hexp]

theorem expand_length {ts : List Token} (hok : ToksOK 0 ts) : (expand ts).length = sumLen ts := by
  have hexp : expand ts = (ts.foldl applyTokA #[]).toList := by
    rw [foldl_applyTokA_toList]; rfl
  rw [hexp, Array.length_toList, foldl_applyTokA_size ts #[] (by simpa using hok)]
  simp

end CyVerif.C12

import CyVerif.Lemmas.C14Spec
/-! The C loop statement simulates the Python loop over a list (C14). -/
namespace CyVerif.C14

theorem CTy.inR_iff {t : CTy} {x : Int} : t.inR x = true ↔ t.lo ≤ x ∧ x ≤ t.hi := by
  simp [CTy.inR]

theorem arith_of_inR {m : Mode} {t : CTy} {x : Int} (h : t.inR x = true) : arith m t x = some x := by
  unfold arith; rw [if_pos h]

theorem store_of_inR {t : CTy} {x : Int} (h : t.inR x = true) : store t x = x := by
  unfold store; rw [if_pos h]

private theorem two_pow_mono {a b : Nat} (h : a ≤ b) : (2 : Int) ^ a ≤ (2 : Int) ^ b := by
  have := Nat.pow_le_pow_right (n := 2) (by omega) h
  exact_mod_cast this

private theorem two_pow_pos (a : Nat) : 0 < (2 : Int) ^ a := by
  have := Nat.two_pow_pos a
  exact_mod_cast this

theorem CTy.lo_nonpos (t : CTy) : t.lo ≤ 0 := by
  unfold CTy.lo; split
  · have := two_pow_pos (t.w - 1); omega
  · omega

/-- integer promotion keeps every value -/
theorem CTy.prom_inR {t : CTy} {x : Int} (h : t.inR x = true) : t.prom.inR x = true := by
  unfold CTy.prom
  split
  · rename_i hw
    rw [CTy.inR_iff] at h ⊢
    simp only [CTy.lo, CTy.hi] at h ⊢
    simp only [if_true]
    have e31 : (2 : Int) ^ (32 - 1) = 2147483648 := by decide
    rw [e31]
    split at h
    · have := two_pow_mono (a := t.w - 1) (b := 31) (by omega)
      have e : (2 : Int) ^ 31 = 2147483648 := by decide
      omega
    · have := two_pow_mono (a := t.w) (b := 31) (by omega)
      have e : (2 : Int) ^ 31 = 2147483648 := by decide
      omega
  · exact h

/-! ### simulation -/

/-- If an invariant `R lv xs` ("the loop temp is `lv`, the values still to be visited are `xs`") is established and kept by
    the three parts of the loop statement, the C loop does exactly what the Python loop over `xs` does. -/
theorem gloop_eq_pyFor {σ : Type} (L : Loop) (body : σ → Int → σ × Ctl) (R : Int → List Int → Prop)
    (hnil : ∀ lv, R lv [] → L.cond lv = some false)
    (hcons : ∀ lv x xs, R lv (x :: xs) →
      L.cond lv = some true ∧ ∃ lv1, L.pre lv = some lv1 ∧ L.view lv1 = x ∧ ∃ lv2, L.post lv1 = some lv2 ∧ R lv2 xs)
    (xs : List Int) (lv : Int) (st : σ) (fuel : Nat) (hR : R lv xs) (hf : xs.length < fuel) :
    gloop L body fuel lv st = Out.done (pyFor body xs st).1 (pyFor body xs st).2 := by
  induction xs generalizing lv st fuel with
  | nil =>
    cases fuel with
    | zero => simp at hf
    | succ fuel => simp [gloop, hnil lv hR, pyFor]
  | cons x xs ih =>
    cases fuel with
    | zero => simp at hf
    | succ fuel =>
      obtain ⟨hc, lv1, hpre, hview, lv2, hpost, hR'⟩ := hcons lv x xs hR
      simp only [gloop, hc, hpre, hview]
      cases hb : body st x with
      | mk st' c =>
        cases c with
        | brk => simp [pyFor, hb]
        | next =>
          simp only [hpost, pyFor, hb]
          exact ih lv2 st' fuel hR' (by simp at hf; omega)

/-! ### the ordinary form `for (lv = b1 offset; lv rel2 b2; lv += step)` -/

/-- the stop bound of relation2 as an exclusive bound -/
def Rel.excl : Rel → Int → Int
  | .lt, b => b
  | .le, b => b + 1
  | .gt, b => b
  | .ge, b => b - 1

/-- relation1 and relation2 point the same way (true for every loop `IterationTransform` builds) -/
def Rel.sameDir (r1 r2 : Rel) : Bool := r2.isDown == decide (r1.dir = -1)

theorem holds_eq_before (r1 r2 : Rel) (h : Rel.sameDir r1 r2 = true) {step : Int} (hs : 0 < step) (lv b2 : Int) :
    r2.holds lv b2 = decide (before lv (r2.excl b2) (r1.dir * step)) := by
  cases r1 <;> cases r2 <;> simp [Rel.sameDir, Rel.isDown, Rel.dir] at h <;>
    simp only [Rel.holds, Rel.excl, Rel.dir, before, Int.one_mul, Int.neg_mul, decide_eq_decide] <;>
    constructor <;> intro <;> omega

theorem forFrom_normal {σ : Type} (m : Mode) (f : ForFrom) (body : σ → Int → σ × Ctl) (st : σ) (fuel : Nat)
    (hnorm : f.unsignedDown = false) (hdir : Rel.sameDir f.rel1 f.rel2 = true) (hstep : 0 < f.step)
    (hoff : f.rel1.offset = 0 ∨ f.B1.prom.inR (f.b1 + f.rel1.offset) = true)
    (hinit : f.T.inR (f.b1 + f.rel1.offset) = true)
    (hsafe : ∀ x ∈ pyRange (f.b1 + f.rel1.offset) (f.rel2.excl f.b2) (f.rel1.dir * f.step),
      f.T.inR (x + f.rel1.dir * f.step) = true)
    (hfuel : (pyRange (f.b1 + f.rel1.offset) (f.rel2.excl f.b2) (f.rel1.dir * f.step)).length < fuel) :
    forFrom m f body fuel st =
      Out.done (pyFor body (pyRange (f.b1 + f.rel1.offset) (f.rel2.excl f.b2) (f.rel1.dir * f.step)) st).1
               (pyFor body (pyRange (f.b1 + f.rel1.offset) (f.rel2.excl f.b2) (f.rel1.dir * f.step)) st).2 := by
  have hi : forFromInit m f = some (f.b1 + f.rel1.offset) := by
    unfold forFromInit
    simp only [hnorm, Bool.false_eq_true, if_false]
    unfold addOffset
    split
    · rename_i h0
      rw [h0, Int.add_zero] at hinit ⊢
      simp [store_of_inR hinit]
    · rename_i h0
      rcases hoff with h | h
      · exact absurd h h0
      · simp [arith_of_inR h, store_of_inR hinit]
  unfold forFrom
  rw [hi]
  apply gloop_eq_pyFor (forFromLoop m f) body
    (fun lv xs => xs = pyRange lv (f.rel2.excl f.b2) (f.rel1.dir * f.step) ∧
      ∀ x ∈ xs, f.T.inR (x + f.rel1.dir * f.step) = true)
  · intro lv ⟨hxs, _⟩
    have hb : ¬ before lv (f.rel2.excl f.b2) (f.rel1.dir * f.step) := by
      intro hb; rw [pyRange_cons hb] at hxs; cases hxs
    simp [forFromLoop, hnorm, holds_eq_before f.rel1 f.rel2 hdir hstep, hb]
  · intro lv x xs ⟨hxs, hall⟩
    have hb : before lv (f.rel2.excl f.b2) (f.rel1.dir * f.step) := by
      by_cases hb : before lv (f.rel2.excl f.b2) (f.rel1.dir * f.step)
      · exact hb
      · rw [pyRange_nil hb] at hxs; cases hxs
    rw [pyRange_cons hb] at hxs
    injection hxs with hx hxs
    subst hx
    have hin := hall x (List.mem_cons_self)
    refine ⟨by simp [forFromLoop, hnorm, holds_eq_before f.rel1 f.rel2 hdir hstep, hb], x, ?_, ?_, x + f.rel1.dir * f.step, ?_, hxs, ?_⟩
    · simp [forFromLoop, hnorm]
    · simp [forFromLoop, hnorm]
    · simp [forFromLoop, hnorm, arith_of_inR (CTy.prom_inR hin), store_of_inR hin]
    · intro y hy; exact hall y (List.mem_cons_of_mem _ hy)
  · exact ⟨rfl, hsafe⟩
  · exact hfuel

/-! ### the unsigned count-down forms -/

theorem CTy.lo_unsigned {t : CTy} (h : t.signed = false) : t.lo = 0 := by
  unfold CTy.lo; simp [h]

theorem unsignedDown_dir {f : ForFrom} (hud : f.unsignedDown = true) (hdir : Rel.sameDir f.rel1 f.rel2 = true) :
    f.rel1.dir = -1 ∧ f.T.signed = false := by
  unfold ForFrom.unsignedDown at hud
  simp only [Bool.and_eq_true, Bool.not_eq_true'] at hud
  unfold Rel.sameDir at hdir
  rw [hud.2] at hdir
  simp at hdir
  exact ⟨hdir, hud.1⟩

/-- the form as it is in the tree: `for (lv = b1 offset + step; lv rel2 b2 + step; ) { lv -= step; … }` -/
theorem forFrom_unsignedDown_old {σ : Type} (m : Mode) (f : ForFrom) (body : σ → Int → σ × Ctl) (st : σ) (fuel : Nat)
    (hud : f.unsignedDown = true) (hold : f.usesNewForm = false)
    (hdir : Rel.sameDir f.rel1 f.rel2 = true) (hstep : 0 < f.step) (hb2 : 0 ≤ f.b2)
    (hoff : f.rel1.offset = 0 ∨ f.B1.prom.inR (f.b1 + f.rel1.offset) = true)
    (hinit1 : f.B1.prom.inR (f.b1 + f.rel1.offset + f.step) = true)
    (hinitT : f.T.inR (f.b1 + f.rel1.offset + f.step) = true)
    (hcond : f.B2.prom.inR (f.b2 + f.step) = true)
    (hfuel : (pyRange (f.b1 + f.rel1.offset) (f.rel2.excl f.b2) (-f.step)).length < fuel) :
    forFrom m f body fuel st =
      Out.done (pyFor body (pyRange (f.b1 + f.rel1.offset) (f.rel2.excl f.b2) (-f.step)) st).1
               (pyFor body (pyRange (f.b1 + f.rel1.offset) (f.rel2.excl f.b2) (-f.step)) st).2 := by
  obtain ⟨hd, hsg⟩ := unsignedDown_dir hud hdir
  have hlo := CTy.lo_unsigned hsg
  have hiT := CTy.inR_iff.mp hinitT
  have hi : forFromInit m f = some (f.b1 + f.rel1.offset + f.step) := by
    unfold forFromInit
    simp only [hud, hold, if_true, Bool.false_eq_true, if_false]
    unfold addOffset
    split
    · rename_i h0
      rw [h0, Int.add_zero] at hinit1 hinitT ⊢
      simp [arith_of_inR hinit1, store_of_inR hinitT]
    · rename_i h0
      rcases hoff with h | h
      · exact absurd h h0
      · simp [arith_of_inR h, arith_of_inR hinit1, store_of_inR hinitT]
  have hcmp : ∀ lv, (forFromLoop m f).cond lv = some (decide (before (lv - f.step) (f.rel2.excl f.b2) (-f.step))) := by
    intro lv
    have hnn : ¬ (f.b2 + f.step < 0) := by omega
    simp only [forFromLoop, hud, hold, if_true, Bool.false_eq_true, if_false, arith_of_inR hcond, Option.map_some, cmpConv]
    rw [if_neg (fun h => hnn h.1)]
    have := holds_eq_before f.rel1 f.rel2 hdir hstep (lv - f.step) f.b2
    rw [hd] at this
    simp only [Int.neg_mul, Int.one_mul] at this
    rw [← this]
    congr 1
    have hdn : f.rel2.isDown = true := by
      unfold ForFrom.unsignedDown at hud; simp at hud; exact hud.2
    cases hr : f.rel2 <;> simp [hr, Rel.isDown] at hdn <;> simp only [Rel.holds, decide_eq_decide] <;> constructor <;> intro <;> omega
  unfold forFrom
  rw [hi]
  apply gloop_eq_pyFor (forFromLoop m f) body
    (fun lv xs => xs = pyRange (lv - f.step) (f.rel2.excl f.b2) (-f.step) ∧ lv ≤ f.b1 + f.rel1.offset + f.step)
  · intro lv ⟨hxs, _⟩
    have hb : ¬ before (lv - f.step) (f.rel2.excl f.b2) (-f.step) := by
      intro hb; rw [pyRange_cons hb] at hxs; cases hxs
    rw [hcmp]; simp [hb]
  · intro lv x xs ⟨hxs, hle⟩
    have hb : before (lv - f.step) (f.rel2.excl f.b2) (-f.step) := by
      by_cases hb : before (lv - f.step) (f.rel2.excl f.b2) (-f.step)
      · exact hb
      · rw [pyRange_nil hb] at hxs; cases hxs
    rw [pyRange_cons hb] at hxs
    injection hxs with hx hxs
    have hexcl : f.b2 - 1 ≤ f.rel2.excl f.b2 := by cases f.rel2 <;> simp [Rel.excl] <;> omega
    have hgt : f.rel2.excl f.b2 < lv - f.step := by
      unfold before at hb; omega
    have hinx : f.T.inR (lv - f.step) = true := by
      rw [CTy.inR_iff]; omega
    refine ⟨by rw [hcmp]; simp [hb], lv - f.step, ?_, ?_, lv - f.step, ?_, ?_, by omega⟩
    · have e : lv + f.rel1.dir * f.step = lv - f.step := by rw [hd]; omega
      simp [forFromLoop, hud, hold, e, arith_of_inR (CTy.prom_inR hinx), store_of_inR hinx]
    · simp [forFromLoop, hud, hold, hx]
    · simp [forFromLoop, hud, hold]
    · rw [hxs]; congr 1
  · exact ⟨by congr 1; omega, by omega⟩
  · exact hfuel

/-- the repaired form: `for (u = b1; u > b2; u = (u - b2 > step) ? u - step : b2)` — no side condition at all -/
theorem forFrom_unsignedDown_new {σ : Type} (m : Mode) (f : ForFrom) (body : σ → Int → σ × Ctl) (st : σ) (fuel : Nat)
    (hnew : f.usesNewForm = true) (hstep : 0 < f.step)
    (hb1 : f.T.inR f.b1 = true) (hb2 : f.T.inR f.b2 = true)
    (hfuel : (pyRange f.b1 f.b2 (-f.step)).length < fuel) :
    forFrom m f body fuel st =
      Out.done (pyFor body (pyRange f.b1 f.b2 (-f.step)) st).1 (pyFor body (pyRange f.b1 f.b2 (-f.step)) st).2 := by
  have hparts : f.fixedU = true ∧ f.T.signed = false ∧ f.rel1 = .ge ∧ f.rel2 = .gt := by
    unfold ForFrom.usesNewForm at hnew
    simp only [Bool.and_eq_true, Bool.not_eq_true', beq_iff_eq] at hnew
    exact ⟨hnew.1.1.1, hnew.1.1.2, hnew.1.2, hnew.2⟩
  have hud : f.unsignedDown = true := by
    unfold ForFrom.unsignedDown; simp [hparts.2.1, hparts.2.2.2, Rel.isDown]
  unfold forFrom
  have hi : forFromInit m f = some f.b1 := by
    unfold forFromInit; simp [hud, hnew, store_of_inR hb1]
  rw [hi]
  apply gloop_eq_pyFor (forFromLoop m f) body (fun u xs => xs = pyRange u f.b2 (-f.step))
  · intro u hxs
    have hb : ¬ before u f.b2 (-f.step) := by
      intro hb; rw [pyRange_cons hb] at hxs; cases hxs
    have : ¬ (f.b2 < u) := by unfold before at hb; omega
    simp [forFromLoop, hud, hnew, this]
  · intro u x xs hxs
    have hb : before u f.b2 (-f.step) := by
      by_cases hb : before u f.b2 (-f.step)
      · exact hb
      · rw [pyRange_nil hb] at hxs; cases hxs
    rw [pyRange_cons hb] at hxs
    injection hxs with hx hxs
    have hlt : f.b2 < u := by unfold before at hb; omega
    refine ⟨by simp [forFromLoop, hud, hnew, hlt], u, by simp [forFromLoop, hud, hnew], by simp [forFromLoop, hud, hnew, hx],
      if u - f.b2 > f.step then u - f.step else f.b2, by simp [forFromLoop, hud, hnew, store_of_inR hb2], ?_⟩
    rw [hxs]
    split
    · congr 1
    · rename_i hsm
      have h1 : ¬ before (u + -f.step) f.b2 (-f.step) := by unfold before; omega
      have h2 : ¬ before f.b2 f.b2 (-f.step) := by unfold before; omega
      rw [pyRange_nil h1, pyRange_nil h2]
  · rfl
  · exact hfuel

/-- `forFrom_unsignedDown_old` with the initial value as a hypothesis (it may have been reached through two cancelling
    wrap-arounds: `0 - 1 + 1` in an unsigned type) -/
theorem forFrom_unsignedDown_old_core {σ : Type} (m : Mode) (f : ForFrom) (body : σ → Int → σ × Ctl) (st : σ) (fuel : Nat)
    (hud : f.unsignedDown = true) (hold : f.usesNewForm = false)
    (hdir : Rel.sameDir f.rel1 f.rel2 = true) (hstep : 0 < f.step) (hb2 : 0 ≤ f.b2)
    (hi : forFromInit m f = some (f.b1 + f.rel1.offset + f.step))
    (hinitT : f.T.inR (f.b1 + f.rel1.offset + f.step) = true)
    (hcond : f.B2.prom.inR (f.b2 + f.step) = true)
    (hfuel : (pyRange (f.b1 + f.rel1.offset) (f.rel2.excl f.b2) (-f.step)).length < fuel) :
    forFrom m f body fuel st =
      Out.done (pyFor body (pyRange (f.b1 + f.rel1.offset) (f.rel2.excl f.b2) (-f.step)) st).1
               (pyFor body (pyRange (f.b1 + f.rel1.offset) (f.rel2.excl f.b2) (-f.step)) st).2 := by
  obtain ⟨hd, hsg⟩ := unsignedDown_dir hud hdir
  have hlo := CTy.lo_unsigned hsg
  have hiT := CTy.inR_iff.mp hinitT
  have hcmp : ∀ lv, (forFromLoop m f).cond lv = some (decide (before (lv - f.step) (f.rel2.excl f.b2) (-f.step))) := by
    intro lv
    have hnn : ¬ (f.b2 + f.step < 0) := by omega
    simp only [forFromLoop, hud, hold, if_true, Bool.false_eq_true, if_false, arith_of_inR hcond, Option.map_some, cmpConv]
    rw [if_neg (fun h => hnn h.1)]
    have := holds_eq_before f.rel1 f.rel2 hdir hstep (lv - f.step) f.b2
    rw [hd] at this
    simp only [Int.neg_mul, Int.one_mul] at this
    rw [← this]
    congr 1
    have hdn : f.rel2.isDown = true := by
      unfold ForFrom.unsignedDown at hud; simp at hud; exact hud.2
    cases hr : f.rel2 <;> simp [hr, Rel.isDown] at hdn <;> simp only [Rel.holds, decide_eq_decide] <;> constructor <;> intro <;> omega
  unfold forFrom
  rw [hi]
  apply gloop_eq_pyFor (forFromLoop m f) body
    (fun lv xs => xs = pyRange (lv - f.step) (f.rel2.excl f.b2) (-f.step) ∧ lv ≤ f.b1 + f.rel1.offset + f.step)
  · intro lv ⟨hxs, _⟩
    have hb : ¬ before (lv - f.step) (f.rel2.excl f.b2) (-f.step) := by
      intro hb; rw [pyRange_cons hb] at hxs; cases hxs
    rw [hcmp]; simp [hb]
  · intro lv x xs ⟨hxs, hle⟩
    have hb : before (lv - f.step) (f.rel2.excl f.b2) (-f.step) := by
      by_cases hb : before (lv - f.step) (f.rel2.excl f.b2) (-f.step)
      · exact hb
      · rw [pyRange_nil hb] at hxs; cases hxs
    rw [pyRange_cons hb] at hxs
    injection hxs with hx hxs
    have hexcl : f.b2 - 1 ≤ f.rel2.excl f.b2 := by cases f.rel2 <;> simp [Rel.excl] <;> omega
    have hgt : f.rel2.excl f.b2 < lv - f.step := by
      unfold before at hb; omega
    have hinx : f.T.inR (lv - f.step) = true := by
      rw [CTy.inR_iff]; omega
    refine ⟨by rw [hcmp]; simp [hb], lv - f.step, ?_, ?_, lv - f.step, ?_, ?_, by omega⟩
    · have e : lv + f.rel1.dir * f.step = lv - f.step := by rw [hd]; omega
      simp [forFromLoop, hud, hold, e, arith_of_inR (CTy.prom_inR hinx), store_of_inR hinx]
    · simp [forFromLoop, hud, hold, hx]
    · simp [forFromLoop, hud, hold]
    · rw [hxs]; congr 1
  · exact ⟨by congr 1; omega, by omega⟩
  · exact hfuel

/-- `0 - 1 + 1` in a wide unsigned type: two wrap-arounds that cancel -/
theorem arith_unsigned_zero_minus_one_plus_one (m : Mode) (P : CTy) (hu : P.signed = false) :
    (arith m P (0 + -1)).bind (fun x => (arith m P (x + 1))) = some 0 := by
  have hpos : 0 < (2 : Int) ^ P.w := by
    have := Nat.two_pow_pos P.w
    exact_mod_cast this
  have h1 : arith m P (0 + -1) = some ((2 : Int) ^ P.w - 1) := by
    unfold arith
    have hn : P.inR (0 + -1) = false := by
      simp [CTy.inR, CTy.lo, hu]
    rw [hn]
    simp only [Bool.false_eq_true, if_false, hu]
    unfold CTy.wrap
    simp only [hu, Bool.false_eq_true, if_false]
    have e : (0 + -1 : Int) = ((2 : Int) ^ P.w - 1) + (-1) * (2 : Int) ^ P.w := by omega
    rw [e, Int.add_mul_emod_self_right, Int.emod_eq_of_lt (by omega) (by omega)]
  rw [h1]
  simp only [Option.bind_some]
  unfold arith
  have hn : P.inR ((2 : Int) ^ P.w - 1 + 1) = false := by
    simp only [CTy.inR, CTy.hi, hu, Bool.false_eq_true, if_false, Bool.and_eq_false_iff, decide_eq_false_iff_not]
    right; omega
  rw [hn]
  simp only [Bool.false_eq_true, if_false, hu]
  unfold CTy.wrap
  simp only [hu, Bool.false_eq_true, if_false]
  have e : ((2 : Int) ^ P.w - 1 + 1) = 0 + 1 * (2 : Int) ^ P.w := by omega
  rw [e, Int.add_mul_emod_self_right]
  rfl

end CyVerif.C14

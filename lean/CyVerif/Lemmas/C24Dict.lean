import CyVerif.Lemmas.C24Loops
/-! C24 helper lemmas, part 3: `__Pyx_ParseKeywordDictToDict` and `__Pyx_ParseKeywordDict`
    have the same closed form as `__Pyx_ParseKeywordsTuple`. -/
namespace CyVerif.C24

theorem dictGet_isSome {kws : List (Key × Val)} {n : Nat} :
    (dictGet kws n).isSome = true ↔ ∃ kv ∈ kws, kv.1.txtEq n = true := by
  unfold dictGet
  rw [Option.isSome_map, List.find?_isSome]

theorem dictGet_eq_none {kws : List (Key × Val)} {n : Nat} :
    dictGet kws n = none ↔ ∀ kv ∈ kws, kv.1.txtEq n = false := by
  unfold dictGet
  rw [Option.map_eq_none_iff, List.find?_eq_none]
  simp

theorem txtEq_iff (k : Key) (n : Nat) : k.txtEq n = true ↔ k.isStr = true ∧ k.text = n := by
  simp [Key.txtEq]

theorem dictGet_filter_ne (kws : List (Key × Val)) {n n' : Nat} (h : n' ≠ n) :
    dictGet (kws.filter (fun kv => !kv.1.txtEq n)) n' = dictGet kws n' := by
  unfold dictGet
  rw [List.find?_filter]
  congr 1
  apply find?_congr'
  intro kv _
  rw [Bool.eq_iff_iff]
  simp only [decide_eq_true_eq, Bool.not_eq_true', txtEq_iff]
  constructor
  · exact fun h => h.2
  · intro h2
    refine ⟨?_, h2⟩
    rw [Bool.eq_false_iff]
    intro h3
    rw [txtEq_iff] at h3
    exact h (h2.2.symm.trans h3.2)

theorem kwSlots_full (names : List Nat) (base : Nat) (kws : List (Key × Val)) (vals : Slots) :
    kwSlots names names.length base kws vals = vals := by
  funext j
  unfold kwSlots
  have : ¬(base + names.length ≤ j ∧ j < base + names.length) := by omega
  simp [this]

/-- one step of a loop over `names[f:]`: extending the assigned range by the slot of `names[f]` -/
theorem kwSlots_step {names : List Nat} (hn : names.Nodup) {f : Nat} (hf : f < names.length) (base : Nat)
    (kws kws' : List (Key × Val)) (vals : Slots)
    (hk : ∀ n', n' ≠ names[f] → dictGet kws' n' = dictGet kws n') :
    kwSlots names (f + 1) base kws'
        (match dictGet kws names[f] with
         | some v => vals.set (base + f) (some v)
         | none => vals) =
      kwSlots names f base kws vals := by
  funext j
  unfold kwSlots
  by_cases h1 : base + (f + 1) ≤ j ∧ j < base + names.length
  · have h2 : base + f ≤ j ∧ j < base + names.length := by omega
    simp only [h1, h2, and_self, if_true]
    have hjf : j - base ≠ f := by omega
    have hlt : j - base < names.length := by omega
    have hne : names.getD (j - base) 0 ≠ names[f] := by
      rw [List.getD_eq_getElem?_getD, List.getElem?_eq_getElem hlt]
      simp only [Option.getD_some]
      intro he
      have := (List.getElem_inj hn).1 he
      exact hjf this
    rw [hk _ hne]
    have hjb : j ≠ base + f := by omega
    cases dictGet kws names[f] <;> simp [Slots.set, hjb]
  · by_cases h2 : base + f ≤ j ∧ j < base + names.length
    · have hj : j = base + f := by omega
      subst hj
      rw [if_neg h1, if_pos h2]
      have : names.getD (base + f - base) 0 = names[f] := by
        rw [List.getD_eq_getElem?_getD]
        have : base + f - base = f := by omega
        rw [this, List.getElem?_eq_getElem hf]; rfl
      rw [this]
      cases dictGet kws names[f] <;> simp [Slots.set]
    · simp only [h1, h2, if_false]
      have hjb : j ≠ base + f := by omega
      cases dictGet kws names[f] <;> simp [Slots.set, hjb]

theorem popLoop_closed {names : List Nat} (hn : names.Nodup) (base : Nat) :
    ∀ (d f : Nat), f + d = names.length → ∀ (vals : Slots) (k2 : List (Key × Val)),
      popLoop base (names.drop f) f vals k2 =
        (kwSlots names f base k2 vals,
         k2.filter (fun kv => !(names.drop f).any (fun n => kv.1.txtEq n)))
  | 0, f, hfd, vals, k2 => by
    have : f = names.length := by omega
    subst this
    simp only [List.drop_length, popLoop, kwSlots_full, List.any_nil, Bool.not_false]
    congr 1
    exact (List.filter_eq_self.2 (fun _ _ => rfl)).symm
  | d + 1, f, hfd, vals, k2 => by
    have hf : f < names.length := by omega
    have hdrop : names.drop f = names[f] :: names.drop (f + 1) := List.drop_eq_getElem_cons hf
    rw [hdrop]
    simp only [popLoop]
    have ih := popLoop_closed hn base d (f + 1) (by omega)
    cases hg : dictGet k2 names[f] with
    | none =>
      simp only [ih]
      congr 1
      · have := kwSlots_step hn hf base k2 k2 vals (fun _ _ => rfl)
        rw [hg] at this; exact this
      · apply List.filter_congr
        intro kv hkv
        have := (dictGet_eq_none.1 hg) kv hkv
        rw [List.any_cons, this, Bool.false_or]
    | some v =>
      simp only [ih]
      congr 1
      · have := kwSlots_step hn hf base k2 (k2.filter (fun kv => !kv.1.txtEq names[f])) vals
          (fun n' hn' => dictGet_filter_ne k2 hn')
        rw [hg] at this; exact this
      · rw [List.filter_filter]
        apply List.filter_congr
        intro kv _
        simp only [List.any_cons, Bool.not_or]
        rw [Bool.and_comm]

theorem cyLoc_bad_iff {names : List Nat} (hn : names.Nodup) (first base : Nat) (hasK2 ignore : Bool) (k : Key) :
    cyLoc names first base hasK2 ignore k = .bad ↔
      k.isStr = false ∨ (∃ i, i < first ∧ names[i]? = some k.text) ∨
        ((∀ i : Nat, names[i]? ≠ some k.text) ∧ hasK2 = false ∧ ignore = false) := by
  unfold cyLoc
  cases hs : k.isStr
  · simp
  · simp only [Bool.not_true, Bool.false_eq_true, if_false, Bool.true_eq_false, false_or]
    rcases hl : locate names 0 k.text with _ | i
    · have hnone := (locate_eq_none hn).1 hl
      have hnone' : ∀ i, names[i]? ≠ some k.text := fun i => hnone i (Nat.zero_le _)
      simp only
      constructor
      · intro h
        right
        refine ⟨hnone', ?_⟩
        cases hasK2 <;> cases ignore <;> simp at h ⊢
      · rintro (⟨i, _, hi⟩ | ⟨_, h1, h2⟩)
        · exact absurd hi (hnone' i)
        · simp [h1, h2]
    · have hsome := ((locate_eq_some hn).1 hl).2
      simp only
      by_cases hf : first ≤ i
      · simp only [hf, if_true]
        constructor
        · intro h; cases h
        · rintro (⟨i', hi', hget⟩ | ⟨h, _⟩)
          · have : locate names 0 k.text = some i' := (locate_eq_some hn).2 ⟨Nat.zero_le _, hget⟩
            rw [hl] at this; injection this with this; omega
          · exact absurd hsome (h i)
      · simp only [hf, if_false, true_iff]
        left
        exact ⟨i, by omega, hsome⟩

theorem cyLoc_extra_iff {names : List Nat} (hn : names.Nodup) (first base : Nat) (hasK2 ignore : Bool) (k : Key) :
    cyLoc names first base hasK2 ignore k = .extra ↔
      k.isStr = true ∧ (∀ i : Nat, names[i]? ≠ some k.text) ∧ hasK2 = true := by
  unfold cyLoc
  cases hs : k.isStr
  · simp
  · simp only [Bool.not_true, Bool.false_eq_true, if_false, true_and]
    rcases hl : locate names 0 k.text with _ | i
    · have hnone := (locate_eq_none hn).1 hl
      have hnone' : ∀ i, names[i]? ≠ some k.text := fun i => hnone i (Nat.zero_le _)
      simp only
      cases hasK2 <;> cases ignore <;> simp [hnone']
    · have hsome := ((locate_eq_some hn).1 hl).2
      simp only
      constructor
      · intro h; split at h <;> cases h
      · rintro ⟨h, _⟩; exact absurd hsome (h i)

theorem mem_take_iff {names : List Nat} {first t : Nat} :
    t ∈ names.take first ↔ ∃ i, i < first ∧ names[i]? = some t := by
  rw [List.mem_iff_getElem?]
  constructor
  · rintro ⟨i, hi⟩
    rw [List.getElem?_take] at hi
    split at hi
    · exact ⟨i, ‹_›, hi⟩
    · cases hi
  · rintro ⟨i, hlt, hi⟩
    exact ⟨i, by rw [List.getElem?_take]; simp [hlt, hi]⟩

theorem mem_drop_iff {names : List Nat} {first t : Nat} :
    t ∈ names.drop first ↔ ∃ i, first ≤ i ∧ names[i]? = some t := by
  rw [List.mem_iff_getElem?]
  constructor
  · rintro ⟨i, hi⟩
    rw [List.getElem?_drop] at hi
    exact ⟨first + i, by omega, hi⟩
  · rintro ⟨i, hle, hi⟩
    refine ⟨i - first, ?_⟩
    rw [List.getElem?_drop]
    have : first + (i - first) = i := by omega
    rw [this]; exact hi

theorem dupPosArgs_iff {names : List Nat} {first : Nat} {kws : List (Key × Val)} :
    dupPosArgs kws names first = true ↔
      ∃ kv ∈ kws, kv.1.isStr = true ∧ ∃ i, i < first ∧ names[i]? = some kv.1.text := by
  unfold dupPosArgs
  rw [List.any_eq_true]
  constructor
  · rintro ⟨n, hn, hs⟩
    obtain ⟨kv, hkv, he⟩ := dictGet_isSome.1 hs
    rw [txtEq_iff] at he
    obtain ⟨i, hi, hget⟩ := mem_take_iff.1 hn
    exact ⟨kv, hkv, he.1, i, hi, by rw [he.2]; exact hget⟩
  · rintro ⟨kv, hkv, hs, i, hi, hget⟩
    refine ⟨kv.1.text, mem_take_iff.2 ⟨i, hi, hget⟩, ?_⟩
    exact dictGet_isSome.2 ⟨kv, hkv, (txtEq_iff _ _).2 ⟨hs, rfl⟩⟩

theorem hasNonStr_iff {kws : List (Key × Val)} :
    hasNonStr kws = true ↔ ∃ kv ∈ kws, kv.1.isStr = false := by
  unfold hasNonStr
  rw [List.any_eq_true]
  simp

theorem any_drop_txtEq {names : List Nat} {first : Nat} (k : Key) (hs : k.isStr = true) :
    (names.drop first).any (fun n => k.txtEq n) = true ↔ ∃ i, first ≤ i ∧ names[i]? = some k.text := by
  rw [List.any_eq_true, ← mem_drop_iff]
  constructor
  · rintro ⟨n, hn, he⟩
    rw [txtEq_iff] at he
    rw [he.2]; exact hn
  · intro h
    exact ⟨k.text, h, (txtEq_iff _ _).2 ⟨hs, rfl⟩⟩

theorem any_bad_iff {names : List Nat} (hn : names.Nodup) (first base : Nat) (hasK2 ignore : Bool)
    (kws : List (Key × Val)) :
    kws.any (fun kv => cyLoc names first base hasK2 ignore kv.1 == .bad) = true ↔
      hasNonStr kws = true ∨ dupPosArgs kws names first = true ∨
        (hasK2 = false ∧ ignore = false ∧ ∃ kv ∈ kws, ∀ i : Nat, names[i]? ≠ some kv.1.text) := by
  rw [List.any_eq_true, hasNonStr_iff, dupPosArgs_iff]
  constructor
  · rintro ⟨kv, hkv, hb⟩
    rw [beq_iff_eq, cyLoc_bad_iff hn] at hb
    rcases hb with h | ⟨i, hi, hget⟩ | ⟨h1, h2, h3⟩
    · exact Or.inl ⟨kv, hkv, h⟩
    · cases hs : kv.1.isStr
      · exact Or.inl ⟨kv, hkv, hs⟩
      · exact Or.inr (Or.inl ⟨kv, hkv, hs, i, hi, hget⟩)
    · exact Or.inr (Or.inr ⟨h2, h3, kv, hkv, h1⟩)
  · rintro (⟨kv, hkv, h⟩ | ⟨kv, hkv, _, i, hi, hget⟩ | ⟨h2, h3, kv, hkv, h1⟩)
    · exact ⟨kv, hkv, by rw [beq_iff_eq, cyLoc_bad_iff hn]; exact Or.inl h⟩
    · exact ⟨kv, hkv, by rw [beq_iff_eq, cyLoc_bad_iff hn]; exact Or.inr (Or.inl ⟨i, hi, hget⟩)⟩
    · exact ⟨kv, hkv, by rw [beq_iff_eq, cyLoc_bad_iff hn]; exact Or.inr (Or.inr ⟨h1, h2, h3⟩)⟩

theorem parseDictToDict_closed {names : List Nat} (hn : names.Nodup) {first : Nat} (hf : first ≤ names.length)
    (base : Nat) (ignore : Bool) (values : Slots) (kws : List (Key × Val)) :
    parseDictToDict names first base values kws = parseClosed names first base true ignore values kws := by
  unfold parseDictToDict parseClosed
  have hbad := any_bad_iff hn first base true ignore kws
  cases hns : hasNonStr kws
  · rw [popLoop_closed hn base (names.length - first) first (by omega)]
    simp only [Bool.false_eq_true, if_false]
    cases hdup : dupPosArgs kws names first
    · have hnb : kws.any (fun kv => cyLoc names first base true ignore kv.1 == .bad) = false := by
        rw [Bool.eq_false_iff]; intro h
        rcases hbad.1 h with h | h | ⟨h, _⟩
        · rw [hns] at h; cases h
        · rw [hdup] at h; cases h
        · cases h
      simp only [hnb, Bool.false_eq_true, if_false, ite_self]
      congr 2
      apply List.filter_congr
      intro kv hkv
      have hs : kv.1.isStr = true := by
        cases h : kv.1.isStr
        · exact absurd (hasNonStr_iff.2 ⟨kv, hkv, h⟩) (by rw [hns]; exact Bool.false_ne_true)
        · rfl
      rw [Bool.eq_iff_iff, beq_iff_eq, cyLoc_extra_iff hn, Bool.not_eq_true', Bool.eq_false_iff,
        Ne, any_drop_txtEq kv.1 hs]
      constructor
      · intro h
        refine ⟨hs, fun i hget => ?_, rfl⟩
        by_cases hi : first ≤ i
        · exact h ⟨i, hi, hget⟩
        · have : dupPosArgs kws names first = true :=
            dupPosArgs_iff.2 ⟨kv, hkv, hs, i, by omega, hget⟩
          rw [hdup] at this; cases this
      · rintro ⟨_, h, _⟩ ⟨i, _, hget⟩
        exact h i hget
    · have hb : kws.any (fun kv => cyLoc names first base true ignore kv.1 == .bad) = true :=
        hbad.2 (Or.inr (Or.inl hdup))
      simp only [hb, if_true]
      obtain ⟨kv, hkv, hs, i, hi, hget⟩ := dupPosArgs_iff.1 hdup
      have hmem : kv ∈ kws.filter (fun kv => !(names.drop first).any (fun n => kv.1.txtEq n)) := by
        rw [List.mem_filter]
        refine ⟨hkv, ?_⟩
        rw [Bool.not_eq_true', Bool.eq_false_iff, Ne, any_drop_txtEq kv.1 hs]
        rintro ⟨i', hi', hget'⟩
        have h1 : locate names 0 kv.1.text = some i := (locate_eq_some hn).2 ⟨Nat.zero_le _, hget⟩
        have h2 : locate names 0 kv.1.text = some i' := (locate_eq_some hn).2 ⟨Nat.zero_le _, hget'⟩
        rw [h1] at h2; injection h2 with h2; omega
      have hpos : 0 < (kws.filter (fun kv => !(names.drop first).any (fun n => kv.1.txtEq n))).length :=
        List.length_pos_iff_exists_mem.2 ⟨kv, hmem⟩
      simp [hpos]
  · have hb : kws.any (fun kv => cyLoc names first base true ignore kv.1 == .bad) = true :=
      hbad.2 (Or.inl hns)
    simp [hb]

/-! ### `__Pyx_ParseKeywordDict`: unknown keywords are detected by counting -/

def matchedLen (kws : List (Key × Val)) (ns : List Nat) : Nat :=
  (ns.filter (fun n => (dictGet kws n).isSome)).length

theorem kwSlots_none {names : List Nat} {f : Nat} (base : Nat) {kws : List (Key × Val)} (vals : Slots)
    (h : ∀ n ∈ names.drop f, dictGet kws n = none) : kwSlots names f base kws vals = vals := by
  funext j
  unfold kwSlots
  split
  · rename_i hr
    have hlt : j - base < names.length := by omega
    have hmem : names.getD (j - base) 0 ∈ names.drop f := by
      rw [mem_drop_iff]
      refine ⟨j - base, by omega, ?_⟩
      rw [List.getD_eq_getElem?_getD, List.getElem?_eq_getElem hlt]; rfl
    rw [h _ hmem]
  · rfl

theorem dictLoop_closed {names : List Nat} (hn : names.Nodup) (base : Nat) (kws : List (Key × Val)) (K : Nat) :
    ∀ (d f : Nat), f + d = names.length → ∀ (vals : Slots) (ex : Nat),
      ex + matchedLen kws (names.drop f) ≤ K →
      dictLoop kws K base (names.drop f) f vals ex =
        (kwSlots names f base kws vals, ex + matchedLen kws (names.drop f))
  | 0, f, hfd, vals, ex, _ => by
    have : f = names.length := by omega
    subst this
    simp [dictLoop, kwSlots_full, matchedLen]
  | d + 1, f, hfd, vals, ex, hH => by
    have hf : f < names.length := by omega
    have hdrop : names.drop f = names[f] :: names.drop (f + 1) := List.drop_eq_getElem_cons hf
    have ih := dictLoop_closed hn base kws K d (f + 1) (by omega)
    have hml : matchedLen kws (names.drop f) =
        (if (dictGet kws names[f]).isSome then 1 else 0) + matchedLen kws (names.drop (f + 1)) := by
      unfold matchedLen
      rw [hdrop, List.filter_cons]
      split <;> simp <;> omega
    rw [hdrop] at hH ⊢
    rw [← hdrop] at hH
    simp only [dictLoop]
    by_cases hK : K > ex
    · simp only [hK, if_true]
      cases hg : dictGet kws names[f] with
      | none =>
        rw [hml, hg] at hH
        simp only [Option.isSome_none, Bool.false_eq_true, if_false, Nat.zero_add] at hH
        dsimp only
        rw [ih vals ex hH]
        congr 1
        · have := kwSlots_step hn hf base kws kws vals (fun _ _ => rfl)
          rw [hg] at this; exact this
        · rw [← hdrop, hml, hg]; simp
      | some v =>
        rw [hml, hg] at hH
        simp only [Option.isSome_some, if_true] at hH
        dsimp only
        rw [ih _ (ex + 1) (by omega)]
        congr 1
        · have := kwSlots_step hn hf base kws kws vals (fun _ _ => rfl)
          rw [hg] at this; exact this
        · rw [← hdrop, hml, hg]; simp; omega
    · simp only [hK, if_false]
      have hz : matchedLen kws (names.drop f) = 0 := by omega
      have hall : ∀ n ∈ names.drop f, dictGet kws n = none := by
        intro n hmem
        unfold matchedLen at hz
        rw [List.length_eq_zero_iff, List.filter_eq_nil_iff] at hz
        have := hz n hmem
        cases h : dictGet kws n with
        | none => rfl
        | some v => rw [h] at this; simp at this
      rw [← hdrop, kwSlots_none base vals hall, hz]
      rfl

theorem filter_or_length {α : Type} (p q : α → Bool) : ∀ (l : List α), (∀ x ∈ l, ¬(p x = true ∧ q x = true)) →
    (l.filter (fun x => p x || q x)).length = (l.filter p).length + (l.filter q).length
  | [], _ => rfl
  | a :: l, h => by
    have ih := filter_or_length p q l (fun x hx => h x (List.mem_cons_of_mem _ hx))
    have ha := h a List.mem_cons_self
    simp only [List.filter_cons]
    cases hp : p a <;> cases hq : q a <;> simp_all <;> omega

theorem filter_text_length {kws : List (Key × Val)} (hk : KeysDistinct kws) (n : Nat) :
    (kws.filter (fun kv => kv.1.text == n)).length = if ∃ kv ∈ kws, kv.1.text = n then 1 else 0 := by
  induction kws with
  | nil => simp
  | cons kv rest ih =>
    have hpw := List.pairwise_cons.1 hk.pairwise
    have hk' : KeysDistinct rest := by
      unfold KeysDistinct at hk ⊢
      rw [List.map_cons, List.nodup_cons] at hk
      exact hk.2
    have ih := ih hk'
    simp only [List.filter_cons]
    by_cases he : kv.1.text = n
    · have hnone : ¬∃ kv' ∈ rest, kv'.1.text = n := by
        rintro ⟨kv', hkv', h⟩
        exact hpw.1 kv' hkv' (he.trans h.symm)
      rw [if_neg hnone] at ih
      have : ∃ kv' ∈ kv :: rest, kv'.1.text = n := ⟨kv, List.mem_cons_self, he⟩
      simp [he, ih]
    · have : (∃ kv' ∈ kv :: rest, kv'.1.text = n) ↔ ∃ kv' ∈ rest, kv'.1.text = n := by
        constructor
        · rintro ⟨kv', hm, h⟩
          rcases List.mem_cons.1 hm with rfl | hm
          · exact absurd h he
          · exact ⟨kv', hm, h⟩
        · rintro ⟨kv', hm, h⟩; exact ⟨kv', List.mem_cons_of_mem _ hm, h⟩
      have hb : (kv.1.text == n) = false := by simpa using he
      simp only [hb, Bool.false_eq_true, if_false, ih]
      simp only [this]

theorem matchedLen_eq {ns : List Nat} (hns : ns.Nodup) {kws : List (Key × Val)} (hk : KeysDistinct kws)
    (hstr : hasNonStr kws = false) :
    matchedLen kws ns = (kws.filter (fun kv => ns.contains kv.1.text)).length := by
  have hall : ∀ kv ∈ kws, kv.1.isStr = true := by
    intro kv hkv
    cases h : kv.1.isStr
    · exact absurd (hasNonStr_iff.2 ⟨kv, hkv, h⟩) (by rw [hstr]; exact Bool.false_ne_true)
    · rfl
  induction ns with
  | nil =>
    have : kws.filter (fun _ => false) = [] := List.filter_eq_nil_iff.2 (fun _ _ => by simp)
    simp [matchedLen, this]
  | cons n ns' ih =>
    rw [List.nodup_cons] at hns
    have ih := ih hns.2
    have hsplit : (kws.filter (fun kv => (n :: ns').contains kv.1.text)).length =
        (kws.filter (fun kv => kv.1.text == n)).length + (kws.filter (fun kv => ns'.contains kv.1.text)).length := by
      have : (fun kv : Key × Val => (n :: ns').contains kv.1.text) =
          (fun kv => kv.1.text == n || ns'.contains kv.1.text) := by
        funext kv; rw [List.contains_cons]
      rw [this]
      apply filter_or_length
      intro kv _ ⟨h1, h2⟩
      rw [beq_iff_eq] at h1
      rw [List.contains_iff_mem] at h2
      rw [h1] at h2
      exact hns.1 h2
    rw [hsplit, ← ih, filter_text_length hk n]
    unfold matchedLen
    rw [List.filter_cons]
    have hiff : (dictGet kws n).isSome = true ↔ ∃ kv ∈ kws, kv.1.text = n := by
      rw [dictGet_isSome]
      constructor
      · rintro ⟨kv, hkv, h⟩; exact ⟨kv, hkv, ((txtEq_iff _ _).1 h).2⟩
      · rintro ⟨kv, hkv, h⟩; exact ⟨kv, hkv, (txtEq_iff _ _).2 ⟨hall kv hkv, h⟩⟩
    by_cases hex : ∃ kv ∈ kws, kv.1.text = n
    · rw [if_pos hex, if_pos (hiff.2 hex)]
      simp; omega
    · have : ¬((dictGet kws n).isSome = true) := fun h => hex (hiff.1 h)
      rw [if_neg hex, if_neg this]
      simp

theorem extra_nil_of_noK2 {names : List Nat} (hn : names.Nodup) (first base : Nat) (ignore : Bool)
    (kws : List (Key × Val)) :
    kws.filter (fun kv => cyLoc names first base false ignore kv.1 == .extra) = [] := by
  rw [List.filter_eq_nil_iff]
  intro kv _ h
  rw [beq_iff_eq, cyLoc_extra_iff hn] at h
  exact absurd h.2.2 Bool.false_ne_true

theorem parseDict_closed {names : List Nat} (hn : names.Nodup) {first : Nat} (hf : first ≤ names.length)
    (base : Nat) (ignore : Bool) (values : Slots) {kws : List (Key × Val)} (hk : KeysDistinct kws) :
    parseDict names first base ignore values kws kws.length =
      parseClosed names first base false ignore values kws := by
  unfold parseDict parseClosed
  have hbad := any_bad_iff hn first base false ignore kws
  rw [extra_nil_of_noK2 hn]
  cases hns : hasNonStr kws
  · have hall : ∀ kv ∈ kws, kv.1.isStr = true := by
      intro kv hkv
      cases h : kv.1.isStr
      · exact absurd (hasNonStr_iff.2 ⟨kv, hkv, h⟩) (by rw [hns]; exact Bool.false_ne_true)
      · rfl
    have hdn : (names.drop first).Nodup := (List.drop_sublist first names).nodup hn
    have hcount := matchedLen_eq hdn hk hns
    have hle : 0 + matchedLen kws (names.drop first) ≤ kws.length := by
      rw [hcount, Nat.zero_add]; exact List.length_filter_le _ _
    rw [dictLoop_closed hn base kws kws.length (names.length - first) first (by omega) values 0 hle]
    simp only [Bool.false_eq_true, if_false, Nat.zero_add]
    -- `num_kwargs > extracted` iff some key is not one of `names[first:]`
    have hgt : kws.length > matchedLen kws (names.drop first) ↔
        ∃ kv ∈ kws, ¬∃ i, first ≤ i ∧ names[i]? = some kv.1.text := by
      rw [hcount, gt_iff_lt, List.length_filter_lt_length_iff_exists]
      constructor
      · rintro ⟨kv, hkv, h⟩
        refine ⟨kv, hkv, fun hex => h ?_⟩
        rw [List.contains_iff_mem, mem_drop_iff]; exact hex
      · rintro ⟨kv, hkv, h⟩
        refine ⟨kv, hkv, fun hc => h ?_⟩
        rw [List.contains_iff_mem, mem_drop_iff] at hc; exact hc
    by_cases hex : kws.length > matchedLen kws (names.drop first)
    · simp only [hex, if_true]
      obtain ⟨kv, hkv, hno⟩ := hgt.1 hex
      cases hig : ignore
      · -- any remaining keyword is an error
        have hb : kws.any (fun kv => cyLoc names first base false false kv.1 == .bad) = true := by
          rw [hig] at hbad
          apply hbad.2
          by_cases hin : ∃ i : Nat, names[i]? = some kv.1.text
          · obtain ⟨i, hget⟩ := hin
            have : i < first := by
              rcases Nat.lt_or_ge i first with h | h
              · exact h
              · exact absurd ⟨i, h, hget⟩ hno
            exact Or.inr (Or.inl (dupPosArgs_iff.2 ⟨kv, hkv, hall kv hkv, i, this, hget⟩))
          · exact Or.inr (Or.inr ⟨rfl, rfl, kv, hkv, fun i hget => hin ⟨i, hget⟩⟩)
        simp [hb]
      · simp only [if_true]
        rw [hig] at hbad
        cases hdup : dupPosArgs kws names first
        · have hnb : kws.any (fun kv => cyLoc names first base false true kv.1 == .bad) = false := by
            rw [Bool.eq_false_iff]; intro h
            rcases hbad.1 h with h | h | ⟨_, h, _⟩
            · rw [hns] at h; cases h
            · rw [hdup] at h; cases h
            · cases h
          simp [hnb]
        · have hb := hbad.2 (Or.inr (Or.inl hdup))
          simp [hb]
    · simp only [hex, if_false]
      have hallin : ∀ kv ∈ kws, ∃ i, first ≤ i ∧ names[i]? = some kv.1.text := by
        intro kv hkv
        exact Classical.byContradiction fun h => hex (hgt.2 ⟨kv, hkv, h⟩)
      have hnb : kws.any (fun kv => cyLoc names first base false ignore kv.1 == .bad) = false := by
        rw [Bool.eq_false_iff]; intro h
        rcases hbad.1 h with h | h | ⟨_, _, kv, hkv, h⟩
        · rw [hns] at h; cases h
        · obtain ⟨kv, hkv, _, i, hi, hget⟩ := dupPosArgs_iff.1 h
          obtain ⟨i', hi', hget'⟩ := hallin kv hkv
          have h1 : locate names 0 kv.1.text = some i := (locate_eq_some hn).2 ⟨Nat.zero_le _, hget⟩
          have h2 : locate names 0 kv.1.text = some i' := (locate_eq_some hn).2 ⟨Nat.zero_le _, hget'⟩
          rw [h1] at h2; injection h2 with h2; omega
        · obtain ⟨i, _, hget⟩ := hallin kv hkv
          exact h i hget
      simp [hnb]
  · have hb : kws.any (fun kv => cyLoc names first base false ignore kv.1 == .bad) = true :=
      hbad.2 (Or.inl hns)
    simp [hb]

/-- all three variants of `__Pyx_ParseKeywords` compute the same closed form -/
theorem parseKeywords_closed (cfg : Cfg) (sstar : Bool) {names : List Nat} (hn : names.Nodup)
    {first : Nat} (hf : first ≤ names.length) (base : Nat) (values : Slots)
    {kws : List (Key × Val)} (hk : KeysDistinct kws) :
    parseKeywords cfg sstar names first base values kws =
      parseClosed names first base (sstar && cfg.kwUsed) sstar values kws := by
  unfold parseKeywords
  cases hv : cfg.vec
  · cases hu : (sstar && cfg.kwUsed)
    · simp only [Bool.false_eq_true, if_false]
      exact parseDict_closed hn hf base sstar values hk
    · simp only [if_true, Bool.false_eq_true, if_false]
      exact parseDictToDict_closed hn hf base sstar values kws
  · simp only [if_true]
    exact parseTuple_closed hn first base _ sstar values hk

end CyVerif.C24

import CyVerif.Lemmas.C50DfaF
/-! Subset construction, part G: `emitItems` (the loop over `transitions.items()`). -/
namespace CyVerif.C50

theorem oldToNew_dstate (n : NFA) (sm : SMap) (S : SSet) (hlen : sm.keys.length = sm.states.length)
    {q : Nat} (hq : q < sm.states.length) :
    dstate (sm.oldToNew n S).1.states q = dstate sm.states q ∧
    (∃ extra, (sm.oldToNew n S).1.keys = sm.keys ++ extra) ∧
    (sm.oldToNew n S).1.keys.length = (sm.oldToNew n S).1.states.length ∧
    q < (sm.oldToNew n S).1.states.length := by
  obtain ⟨_, _, hc⟩ := oldToNew_spec n sm S hlen
  rcases hc with hc | ⟨hk, hs⟩
  · rw [hc]; exact ⟨rfl, ⟨[], by simp⟩, hlen, hq⟩
  · refine ⟨?_, ⟨[S], hk⟩, by rw [hk, hs]; simp [hlen], by rw [hs]; simp; omega⟩
    unfold dstate
    rw [hs, List.getElem?_append_left hq]

theorem emitItems_spec (n : NFA) (q : Nat) (R : List (Ev × SSet)) :
    ∀ (P : List (Ev × SSet)) (sm sm' : SMap), sm.keys.length = sm.states.length → q < sm.states.length →
      FromItems sm.keys P (dstate sm.states q) → Covers P (dstate sm.states q) →
      emitItems n q R sm = .ok sm' →
      Ext n q R sm sm' ∧ FromItems sm'.keys (P ++ R) (dstate sm'.states q) ∧
        Covers (P ++ R) (dstate sm'.states q) := by
  induction R with
  | nil =>
    intro P sm sm' hlen hq hf hc hr
    simp only [emitItems, Except.ok.injEq] at hr
    subst hr
    exact ⟨Ext.refl n q sm hlen, by simpa using hf, by simpa using hc⟩
  | cons it R ih =>
    intro P sm sm' hlen hq hf hc hr
    obtain ⟨ev, S⟩ := it
    simp only [emitItems] at hr
    obtain ⟨hk, _, _⟩ := oldToNew_spec n sm S hlen
    obtain ⟨hd, ⟨extra, hex⟩, hlen1, hq1⟩ := oldToNew_dstate n sm S hlen hq
    have extA := ext_oldToNew n q sm ev S hlen hq
    generalize sm.oldToNew n S = r at hr hk hd hex hlen1 hq1 extA
    have hst : ((r.1.states[q]?).getD ⟨[], none, none, none, none, none⟩) = dstate r.1.states q := rfl
    rw [hst] at hr
    cases ha : (dstate r.1.states q).addTransitions ev r.2 with
    | none => simp [ha] at hr
    | some st =>
      simp only [ha] at hr
      have hf1 : FromItems r.1.keys P (dstate r.1.states q) := by
        rw [hd, hex]; simpa using hf.mono (extra := extra) (B := [])
      have hc1 : Covers P (dstate r.1.states q) := by rw [hd]; exact hc
      obtain ⟨hf2, hc2⟩ := step_item hf1 hc1 hk ha
      have extB := ext_modify n q r.1 st hlen1 (addTransitions_action ha)
      have hdst := dstate_modify q r.1.states st hq1
      obtain ⟨e3, f3, c3⟩ := ih (P ++ [(ev, S)]) { r.1 with states := modifyNth (fun _ => st) q r.1.states } sm'
        (by simp [modifyNth_length, hlen1]) (by simp [modifyNth_length, hq1])
        (by simp only [hdst]; exact hf2) (by simp only [hdst]; exact hc2) hr
      refine ⟨?_, by simpa using f3, by simpa using c3⟩
      have := Ext.trans hq (Ext.trans hq extA extB) e3
      simpa using this

end CyVerif.C50

import CyVerif.Model.C09
/-! Helper lemmas for C09 part A: `int()` on clean digit strings. -/
namespace CyVerif.C09

theorem digitValue_us : digitValue '_' = 37 := by decide

/-- value of a digit string in base `b`, starting from `acc` -/
def dfold (b : Nat) (acc : Nat) (ds : List Char) : Nat := ds.foldl (fun a c => a * b + digitValue c) acc

theorem dfold_nil (b acc : Nat) : dfold b acc [] = acc := rfl
theorem dfold_cons (b acc : Nat) (c : Char) (cs : List Char) :
    dfold b acc (c :: cs) = dfold b (acc * b + digitValue c) cs := rfl

theorem ne_us_of_digit {b : Nat} (hb : b ≤ 36) {c : Char} (h : digitValue c < b) : c ≠ '_' := by
  intro hc; subst hc; rw [digitValue_us] at h; omega

/-- the scan accepts a non-empty string of digits of the base and returns its positional value -/
theorem scanDigits_clean (b : Nat) (hb : b ≤ 36) : ∀ (ds : List Char) (p : Bool) (acc n : Nat),
    ds ≠ [] → (∀ c ∈ ds, digitValue c < b) →
    scanDigits b ds p acc n = some (dfold b acc ds, n + ds.length) := by
  intro ds
  induction ds with
  | nil => intro p acc n h; exact absurd rfl h
  | cons c cs ih =>
    intro p acc n _ hall
    have hc : digitValue c < b := hall c (by simp)
    have hne : c ≠ '_' := ne_us_of_digit hb hc
    rw [scanDigits]
    simp only [hne, if_false, hc, if_true]
    cases cs with
    | nil => simp [scanDigits, dfold]
    | cons d ds =>
      rw [ih false _ _ (by simp) (fun x hx => hall x (by simp [hx]))]
      simp [dfold_cons]; omega

/-- a character that is neither `_` nor a digit of the base makes the scan fail -/
theorem scanDigits_bad (b : Nat) : ∀ (ds : List Char) (p : Bool) (acc n : Nat),
    (∃ c ∈ ds, b ≤ digitValue c ∧ c ≠ '_') → scanDigits b ds p acc n = none := by
  intro ds
  induction ds with
  | nil => intro p acc n h; obtain ⟨c, hc, _⟩ := h; simp at hc
  | cons c cs ih =>
    intro p acc n h
    obtain ⟨x, hx, hxb, hxu⟩ := h
    rw [scanDigits]
    by_cases hcu : c = '_'
    · subst hcu
      have hx' : x ∈ cs := by
        rcases List.mem_cons.mp hx with h | h
        · exact absurd h hxu
        · exact h
      simp only [if_true]
      split
      · rfl
      · exact ih _ _ _ ⟨x, hx', hxb, hxu⟩
    · simp only [hcu, if_false]
      split
      · rename_i hlt
        have hx' : x ∈ cs := by
          rcases List.mem_cons.mp hx with h | h
          · subst h; omega
          · exact h
        exact ih _ _ _ ⟨x, hx', hxb, hxu⟩
      · rfl

theorem digit_toNat {c : Char} (h : digitValue c < 37) :
    (48 ≤ c.toNat ∧ c.toNat ≤ 57) ∨ (97 ≤ c.toNat ∧ c.toNat ≤ 122) ∨ (65 ≤ c.toNat ∧ c.toNat ≤ 90) := by
  unfold digitValue at h
  simp only at h
  split at h
  · left; assumption
  · split at h
    · right; left; assumption
    · split at h
      · right; right; assumption
      · omega

theorem isWs_digit {c : Char} (h : digitValue c < 37) : isWs c = false := by
  have := digit_toNat h
  unfold isWs
  simp only [Bool.or_eq_false_iff, Bool.and_eq_false_iff, decide_eq_false_iff_not, beq_eq_false_iff_ne]
  omega

theorem stripWs_clean (s : List Char) (h : ∀ c ∈ s, isWs c = false) : stripWs s = s := by
  unfold stripWs
  have h1 : s.dropWhile isWs = s := by
    cases s with
    | nil => rfl
    | cons c r => simp [List.dropWhile, h c (by simp)]
  rw [h1]
  have h2 : s.reverse.dropWhile isWs = s.reverse := by
    cases hr : s.reverse with
    | nil => rfl
    | cons c r =>
      have : c ∈ s := by
        have : c ∈ s.reverse := by rw [hr]; simp
        simpa using this
      simp [List.dropWhile, h c this]
  rw [h2, List.reverse_reverse]

theorem splitSign_digit {c : Char} (r : List Char) (h : digitValue c < 37) :
    splitSign (c :: r) = (false, c :: r) := by
  have h1 : c ≠ '+' := by intro hc; subst hc; revert h; decide
  have h2 : c ≠ '-' := by intro hc; subst hc; revert h; decide
  unfold splitSign
  split
  · rename_i heq; simp at heq; exact absurd heq.1 h1
  · rename_i heq; simp at heq; exact absurd heq.1 h2
  · rfl

theorem chooseBase_nonzero (b : Nat) (s : List Char) (hb : b ≠ 0) : chooseBase b s = (b, false) := by
  simp [chooseBase, hb]

theorem chooseBase_dec {c : Char} (r : List Char) (hc : c ≠ '0') : chooseBase 0 (c :: r) = (10, false) := by
  simp [chooseBase, hc]

/-- no base prefix is skipped when the text consists of digits of the base -/
theorem stripBasePrefix_clean (b : Nat) (s : List Char) (h : ∀ c ∈ s, digitValue c < b) (hb : b ≤ 36) :
    stripBasePrefix b s = s := by
  unfold stripBasePrefix
  split
  · rename_i c0 c r
    have hc : digitValue c < b := h c (by simp)
    have hx : digitValue 'x' = 33 := by decide
    have hX : digitValue 'X' = 33 := by decide
    have ho : digitValue 'o' = 24 := by decide
    have hO : digitValue 'O' = 24 := by decide
    have hbb : digitValue 'b' = 11 := by decide
    have hB : digitValue 'B' = 11 := by decide
    rw [if_neg]
    rintro ⟨_, h16 | h8 | h2⟩
    · rcases h16 with ⟨rfl, rfl | rfl⟩ <;> omega
    · rcases h8 with ⟨rfl, rfl | rfl⟩ <;> omega
    · rcases h2 with ⟨rfl, rfl | rfl⟩ <;> omega
  · rfl

/-- `int(ds, b)` for an explicit base on a clean digit string -/
theorem pyInt_clean (lim b : Nat) (ds : List Char) (hb2 : 2 ≤ b) (hb : b ≤ 36) (hne : ds ≠ [])
    (hall : ∀ c ∈ ds, digitValue c < b) :
    pyInt lim ds b =
      if !isPow2Base b ∧ ds.length > 640 ∧ lim ≠ 0 ∧ ds.length > lim then .err "ValueError"
      else .ok (dfold b 0 ds : Nat) := by
  obtain ⟨c, r, rfl⟩ := List.exists_cons_of_ne_nil hne
  have hws : stripWs (c :: r) = c :: r := stripWs_clean _ (fun x hx => isWs_digit (by have := hall x hx; omega))
  have hc : digitValue c < 37 := by have := hall c (by simp); omega
  unfold pyInt
  rw [if_neg (by omega)]
  simp only [hws, splitSign_digit r hc, chooseBase_nonzero b _ (by omega), stripBasePrefix_clean b _ hall hb]
  unfold pyIntCore
  rw [if_neg (by simp), scanDigits_clean b hb _ _ _ _ (by simp) hall]
  simp

end CyVerif.C09

import CyVerif.Lemmas.C23Ops
namespace CyVerif.C23
variable {σ ι : Type}

theorem relO_methodReturn (o : Res) (c : CyObj σ ι) (p : PyObj σ ι) (h : RelO o c p) : RelO (methodReturn o) c p := by
  refine ⟨h.1, ?_⟩
  intro v hv
  cases o with
  | next w => exact h.2 w rfl
  | ret w => simp [methodReturn] at hv
  | div => simp [methodReturn] at hv
  | err e => simp [methodReturn] at hv

/-- `__Pyx_Coroutine_CloseIter` vs `gen_close_iter` on a delegate -/
theorem sim_closeIter (fl : Flags) (O : OpqSem ι) (rc : CyRec σ ι) (rp : PyRec σ ι)
    (H : SimAll fl rc rp) (y : CyObj σ ι) (y' : PyObj σ ι) (hd : RelD y y') :
    RSim fl (fun _ c p => RelN c p) (cyCloseIter O rc y) (pyCloseIter O rp y') := by
  cases hd with
  | null =>
    simp only [cyCloseIter, pyCloseIter]
    exact RSim.mapOut _ (H.nonrun _ _ .close RelN.null trivial) (fun _ _ _ h => h.1)
  | opq o =>
    simp only [cyCloseIter, pyCloseIter]
    cases O.close o with
    | none => exact RSim.pure rfl rfl (.deleg (.opq o))
    | some c => exact RSim.pure rfl rfl (.deleg (.opq _))
  | gen s h =>
    simp only [cyCloseIter, pyCloseIter]
    exact RSim.mapOut _ (H.nonrun _ _ .close (.deleg (.gen s h)) trivial) (fun _ _ _ h => h.1)

theorem sim_throw_suspended (fl : Flags) (B : Body σ ι) (O : OpqSem ι) (rc : CyRec σ ι) (rp : PyRec σ ι)
    (H : SimAll fl rc rp) (st : σ) (yf : CyObj σ ι) (yf' : PyObj σ ι) (hd : RelD yf yf') (e : Exc) :
    RSim fl RelO (cyThrow fl B O rc .suspended false st yf e) (pyThrow fl.coro B O rp .suspended st yf' e) := by
  have hgx : ∀ (y : CyObj σ ι) (y' : PyObj σ ι), RelD y y' →
      RSim fl RelO
        ((R.bind .null (cyCloseIter O rc y) fun o sub => cyFinish fl B rc .suspended st sub (.throw (excOfStatus e o))).mapOut methodReturn)
        ((R.bind .null (pyCloseIter O rp y') fun o sub =>
          pySendEx2 fl.coro B O rp .suspended st sub (.throw (excOfStatus e o)) false).mapOut methodReturn) := by
    intro y y' hy
    refine RSim.mapOut _ ?_ relO_methodReturn
    apply RSim.bind (sim_closeIter fl O rc rp H y y' hy) (relO_null _)
    intro o ca pa _ hq
    exact sim_finish_throw fl B O rc rp H st ca pa hq _
  cases hd with
  | null =>
    simp only [cyThrow, pyThrow, pyYf, Bool.false_eq_true, if_false]
    exact RSim.mapOut _ (sim_sendEx_suspended fl B O rc rp H st (.throw e) false).unset relO_methodReturn
  | opq o =>
    simp only [cyThrow, pyThrow, pyYf, Bool.false_eq_true, if_false]
    by_cases hg : e = .generatorExit
    · simp only [hg, if_true]
      exact hg ▸ hgx _ _ (.opq o)
    · simp only [hg, if_false]
      cases O.throw o with
      | none =>
        exact RSim.mapOut _ (sim_finish_throw fl B O rc rp H st _ _ (.deleg (.opq o)) e) relO_methodReturn
      | some f =>
        simp only
        generalize f e = c
        rcases c with ⟨tg, ir, o'⟩
        apply RSim.pre
        cases ir with
        | val x => exact RSim.pure rfl rfl (relO_next_suspended (.opq o'))
        | exc e' =>
          exact RSim.mapOut _ (sim_finish_leave fl B rc rp H st _ _ (.deleg (.opq o')) _) relO_methodReturn
  | gen s h =>
    simp only [cyThrow, pyThrow, pyYf, Bool.false_eq_true, if_false]
    by_cases hg : e = .generatorExit
    · simp only [hg, if_true]
      exact hg ▸ hgx _ _ (.gen s h)
    · simp only [hg, if_false]
      apply RSim.bind (Q0 := RelO) (H.nonrun _ _ (.throw e) (.deleg (.gen s h)) trivial) (relO_null _)
      intro o ca pa hne hq
      cases o with
      | div => exact absurd rfl hne
      | next x => exact RSim.pure rfl rfl (relO_next_suspended (hq.2 x rfl))
      | ret x => exact RSim.mapOut _ (sim_finish_leave fl B rc rp H st _ _ hq.1 _) relO_methodReturn
      | err e' => exact RSim.mapOut _ (sim_finish_leave fl B rc rp H st _ _ hq.1 _) relO_methodReturn

theorem sim_throw_created (fl : Flags) (B : Body σ ι) (O : OpqSem ι) (rc : CyRec σ ι) (rp : PyRec σ ι)
    (H : SimAll fl rc rp) (st : σ) (e : Exc) :
    RSim fl RelO (cyThrow fl B O rc .created false st .null e) (pyThrow fl.coro B O rp .created st .null e) := by
  simp only [cyThrow, pyThrow, pyYf, Bool.false_eq_true, if_false]
  exact RSim.mapOut _ (sim_sendEx_created fl B O rc rp H st (.throw e) false).unset relO_methodReturn

theorem sim_throw_finished (fl : Flags) (B : Body σ ι) (O : OpqSem ι) (rc : CyRec σ ι) (rp : PyRec σ ι)
    (st st' : σ) (e : Exc) :
    RSim fl RelO (cyThrow fl B O rc .finished false st .null e) (pyThrow fl.coro B O rp .cleared st' .null e) := by
  simp only [cyThrow, pyThrow, pyYf, Bool.false_eq_true, if_false]
  exact RSim.mapOut _ (sim_sendEx_finished fl B O rc rp st st' e false).unset relO_methodReturn

end CyVerif.C23

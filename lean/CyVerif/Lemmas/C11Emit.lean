import CyVerif.Lemmas.C11Split
/-! Assembly: lexing the emitted literal. -/
namespace CyVerif.C11

theorem noQQ_append {x y : List Nat} (h : noQQ (x ++ y) = true) : noQQ x = true ∧ noQQ y = true := by
  induction x with
  | nil => exact ⟨rfl, h⟩
  | cons a x ih =>
    have ht := noQQ_tail h
    obtain ⟨h1, h2⟩ := ih ht
    refine ⟨?_, h2⟩
    by_cases ha : a = 63
    · subst ha
      cases x with
      | nil => simp [noQQ]
      | cons a' x' =>
        by_cases ha' : a' = 63
        · subst ha'; simp [noQQ] at h
        · rw [noQQ_63_cons _ (by simp [ha'])]; exact h1
    · rw [noQQ_cons_of_ne ha]; exact h1

theorem noQQ_of_flatten {L : List (List Nat)} (h : noQQ L.flatten = true) : ∀ c ∈ L, noQQ c = true := by
  induction L with
  | nil => simp
  | cons a L ih =>
    rw [List.flatten_cons] at h
    obtain ⟨h1, h2⟩ := noQQ_append h
    intro c hc
    rcases List.mem_cons.1 hc with rfl | hc
    · exact h1
    · exact ih h2 c hc

/-- Gluing two `??`-free texts with a separator that is not a question mark. -/
theorem noQQ_glue {x y : List Nat} {c : Nat} (hc : c ≠ 63) (hx : noQQ x = true) (hy : noQQ y = true) :
    noQQ (x ++ c :: y) = true := by
  induction x with
  | nil => simpa [noQQ_cons_of_ne hc] using hy
  | cons a x ih =>
    have ih' := ih (noQQ_tail hx)
    by_cases ha : a = 63
    · subst ha
      cases x with
      | nil => simp only [List.cons_append, List.nil_append]; rw [noQQ_63_cons _ (by simp [hc])]; simpa using ih'
      | cons a' x' =>
        by_cases ha' : a' = 63
        · subst ha'; simp [noQQ] at hx
        · simp only [List.cons_append]; rw [noQQ_63_cons _ (by simp [ha'])]; simpa using ih'
    · simp only [List.cons_append]; rw [noQQ_cons_of_ne ha]; exact ih'

theorem noQQ_join (cs : List (List Nat)) (h : ∀ c ∈ cs, noQQ c = true) : noQQ (joinChunks cs) = true := by
  induction cs with
  | nil => rfl
  | cons c cs ih =>
    cases cs with
    | nil => simpa [joinChunks] using h c (by simp)
    | cons c' cs' =>
      simp only [joinChunks]
      apply noQQ_glue (by omega) (h c (by simp))
      rw [noQQ_cons_of_ne (by omega)]
      exact ih (fun d hd => h d (by simp [hd]))

theorem mem_joinChunks {cs : List (List Nat)} {x : Nat} (h : x ∈ joinChunks cs) : x = 34 ∨ ∃ c ∈ cs, x ∈ c := by
  induction cs with
  | nil => simp [joinChunks] at h
  | cons c cs ih =>
    cases cs with
    | nil => right; exact ⟨c, by simp, by simpa [joinChunks] using h⟩
    | cons c' cs' =>
      simp only [joinChunks, List.mem_append, List.mem_cons] at h
      rcases h with h | h | h | h
      · right; exact ⟨c, by simp, h⟩
      · left; exact h
      · left; exact h
      · rcases ih h with h | ⟨d, hd, hx⟩
        · left; exact h
        · right; exact ⟨d, by simp [hd], hx⟩

theorem tok_no_newline {t : List Nat} {v : Nat} (h : tokVal t = some v) : 10 ∉ t := by
  rcases t with _ | ⟨a, _ | ⟨b, _ | ⟨c, _ | ⟨d, _ | ⟨e, t⟩⟩⟩⟩⟩
  · simp
  · simp only [tokVal] at h
    split at h
    · rename_i hc; simp; omega
    · simp at h
  · simp only [tokVal] at h
    split at h
    · rename_i hb; subst hb
      have : b ≠ 10 := by
        intro h10; subst h10; simp [simpleEsc] at h
      simp; omega
    · simp at h
  · simp [tokVal] at h
  · simp only [tokVal] at h
    split at h
    · rename_i hh
      obtain ⟨hb, hx, hy, hz, _⟩ := hh
      simp only [isOct, Bool.and_eq_true, decide_eq_true_eq] at hx hy hz
      simp; omega
    · simp at h
  · simp [tokVal] at h

theorem toks_no_newline {ts : List (List Nat)} {vs : List Nat} (h : decodeToks ts = some vs) : 10 ∉ ts.flatten := by
  induction ts generalizing vs with
  | nil => simp
  | cons t ts ih =>
    obtain ⟨v, vs', hv, hts, _⟩ := decodeToks_cons h
    rw [List.flatten_cons, List.mem_append]
    intro h'
    rcases h' with h' | h'
    · exact tok_no_newline hv h'
    · exact ih hts h'

/-- Text in which phases 1 and 2 change nothing is read by the automaton directly. -/
theorem cLex_plain (tri : Bool) (text : List Nat) (h1 : noQQ text = true) (h2 : 10 ∉ text) :
    cLex tri text = match run 34 .out text with
      | some (.out, bytes) => some bytes
      | _ => none := by
  unfold cLex
  cases tri
  · simp only [Bool.false_eq_true, if_false]; rw [splice_id _ h2]; rfl
  · simp only [if_true]; rw [trigraphs_id _ h1, splice_id _ h2]; rfl

theorem flatten_flatten' (L : List (List (List Nat))) : L.flatten.flatten = (L.map List.flatten).flatten := by
  induction L with
  | nil => rfl
  | cons g gs ih => simp [ih]

/-- The emitted literal for groups of whole safe tokens: lexes to the token values,
contains no `??` and no newline. -/
theorem lex_groups (tri : Bool) (groups : List (List (List Nat))) (vs : List Nat)
    (hdec : decodeToks groups.flatten = some vs) (hqq : noQQ groups.flatten.flatten = true) :
    cLex tri (34 :: joinChunks (groups.map List.flatten) ++ [34]) = some vs ∧
    noQQ (34 :: joinChunks (groups.map List.flatten) ++ [34]) = true := by
  have hq : noQQ (34 :: joinChunks (groups.map List.flatten) ++ [34]) = true := by
    rw [List.cons_append, noQQ_cons_of_ne (by omega)]
    apply noQQ_glue (by omega) _ rfl
    apply noQQ_join
    rw [flatten_flatten'] at hqq
    exact noQQ_of_flatten hqq
  have hn : 10 ∉ (34 :: joinChunks (groups.map List.flatten) ++ [34]) := by
    have hno := toks_no_newline hdec
    simp only [List.cons_append, List.mem_cons, List.mem_append, List.mem_nil_iff, or_false, not_or]
    refine ⟨by omega, ?_, by omega⟩
    intro h
    rcases mem_joinChunks h with h | ⟨c, hc, hx⟩
    · omega
    · obtain ⟨g, hg, rfl⟩ := List.mem_map.1 hc
      apply hno
      rw [List.mem_flatten] at hx ⊢
      obtain ⟨t, ht, hxt⟩ := hx
      exact ⟨t, List.mem_flatten.2 ⟨g, hg, ht⟩, hxt⟩
  refine ⟨?_, hq⟩
  rw [cLex_plain tri _ hq hn]
  simp only [List.cons_append, run, step, if_true]
  rw [run_join groups vs hdec]
  simp

/-- `split` of a text of safe tokens terminates and yields the join of the texts of
consecutive groups of whole tokens. -/
theorem split_groups (p : SplitParams) (hp : p.WF) (ts : List (List Nat)) (hs : ∀ t ∈ ts, Shape t) :
    ∃ groups : List (List (List Nat)), groups.flatten = ts ∧
      split p ts.flatten = some (joinChunks (groups.map List.flatten)) := by
  unfold split
  split
  · exact ⟨[ts], by simp, by simp [joinChunks]⟩
  · obtain ⟨groups, hg, hc⟩ := chunks_groups p hp (ts.flatten.length + 1) ts hs (by omega)
    exact ⟨groups, hg, by rw [hc]; rfl⟩

end CyVerif.C11

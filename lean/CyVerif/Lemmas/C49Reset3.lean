import CyVerif.Lemmas.C49Reset2
/-! Simulation of `reset`. -/
namespace CyVerif.C49
open Forest

theorem Forest.names_find {b : Nat} {fs0 : List Frag} {kids0 : Forest} :
    ∀ F : Forest, F.names.Nodup → F.find b = some (fs0, kids0) → kids0.names.Nodup := by
  intro F
  induction F with
  | nil => intro _ h; simp [Forest.find] at h
  | cons id nm fs kd r ihk ihr =>
    intro hnm hf
    obtain ⟨n1, n2, n3, n4⟩ := Forest.nodup_names_cons hnm
    simp only [Forest.find] at hf
    by_cases e : id = b
    · simp only [e, if_true, Option.some.injEq, Prod.mk.injEq] at hf
      obtain ⟨rfl, rfl⟩ := hf
      exact n2
    · simp only [e, if_false] at hf
      cases hk : Forest.find b kd with
      | some p => rw [hk] at hf; simp only [Option.some.injEq] at hf; subst hf; exact ihk n2 hk
      | none => rw [hk] at hf; exact ihr n3 hf

/-- `reset`: the buffer's segment is emptied; buffers nested directly in it become stand-alone -/
theorem step_reset {σ : St} {sp : Spec} {F : Forest} (h : Sim σ sp F) {k b : Nat}
    (hk : σ.handles[k]? = some b) :
    ∃ F', Sim ⟨σ.heap.set b emptyNode, σ.handles⟩
      ⟨clearRegion k sp.doc ++ keepTop none (region k sp.doc), sp.n,
        sp.roots ++ topNames none (region k sp.doc)⟩ F' := by
  obtain ⟨htag, fs0, kids0, hfind⟩ := h.find hk
  obtain ⟨n, hn, hch, hst, hmk, hck, hbk, _⟩ := Cons_find F h.cons hfind h.ids
  have hlt : b < σ.heap.length := (List.getElem?_eq_some_iff.1 hn).1
  let g : List Frag → Forest → List Frag × Forest := fun _ _ => ([], Forest.nil)
  obtain ⟨A, B, hd, hA, hi, hm⟩ := Forest.doc_decomp g F hfind htag h.ids h.names
  have hkn : kids0.names.Nodup := Forest.names_find F h.names hfind
  have hreg : region k sp.doc = kids0.doc ++ fragItems fs0 := by
    rw [← h.doc, hd, region_split hA hi]
  have hclr : clearRegion k sp.doc = (F.modify b g).doc := by
    rw [← h.doc, hd, clearRegion_split hA hi, hm]
    simp [g, Forest.doc, fragItems]
  have horph := Forest.doc_orphans kids0 hkn (fragItems fs0)
  have hkt : keepTop none (region k sp.doc) = kids0.orphans.doc := by
    rw [hreg, horph.1]
    have := keepTop_none_frags fs0 []
    simp only [List.append_nil] at this
    rw [this]; simp [keepTop]
  have htn : topNames none (region k sp.doc) = kids0.orphans.rootNames := by
    rw [hreg, horph.2]
    have := topNames_none_frags fs0 []
    simp only [List.append_nil] at this
    rw [this]; simp [topNames]
  have hfr : ∀ i, i ≠ b → ∀ nd, σ.heap[i]? = some nd → (σ.heap.set b emptyNode)[i]? = some nd := by
    intro i hi nd hnd
    rw [List.getElem?_set_ne (Ne.symm hi)]; exact hnd
  have hperm : ((F.modify b g).tags ++ kids0.tags).Perm F.tags := by
    have := Forest.tags_modify_gen g F hfind h.ids
    simpa [g, Forest.tags] using this
  have hsub : ((F.modify b g).tags ++ kids0.orphans.tags).Sublist ((F.modify b g).tags ++ kids0.tags) :=
    List.Sublist.append (List.Sublist.refl _) (Forest.orphans_tags_sublist kids0)
  have hT : ((F.modify b g).append kids0.orphans).tags = (F.modify b g).tags ++ kids0.orphans.tags :=
    Forest.tags_append _ _
  refine ⟨(F.modify b g).append kids0.orphans, ?_⟩
  rw [hclr, hkt, htn]
  exact
    { cons := by
        refine Cons_append (Cons_modify (g := g) hfr ?_ (show Cons _ Forest.nil from trivial) F h.cons hfind h.ids)
          (Cons_orphans ?_)
        · exact ⟨emptyNode, List.getElem?_set_self hlt, rfl, rfl, rfl⟩
        · exact Cons_frame (fun i hi nd hnd => hfr i (fun e => hbk (e ▸ hi)) nd hnd) hck
      doc := Forest.doc_append _ _
      ids := by
        show (((F.modify b g).append kids0.orphans).tags.map (·.1)).Nodup
        rw [hT]
        refine List.Nodup.sublist (hsub.map _) ?_
        exact ((hperm.map (·.1)).nodup_iff).2 (show (F.tags.map (·.1)).Nodup from h.ids)
      names := by
        show (((F.modify b g).append kids0.orphans).tags.filterMap (·.2)).Nodup
        rw [hT]
        refine List.Nodup.sublist (hsub.filterMap _) ?_
        exact ((hperm.filterMap (·.2)).nodup_iff).2 (show (F.tags.filterMap (·.2)).Nodup from h.names)
      ne := by
        refine Forest.NE_append (Forest.NE_modify ?_ F h.ne) (Forest.NE_orphans (Forest.NE_find F h.ne hfind).2)
        intro fs kids _ _
        exact ⟨by simp [g], trivial⟩
      n := h.n
      h2t := by
        intro k' b' hk'
        rw [hT]
        rcases List.mem_append.1 (hperm.mem_iff.2 (h.h2t k' b' hk')) with hm' | hm'
        · exact List.mem_append_left _ hm'
        · exact List.mem_append_right _ (Forest.orphans_named hm')
      t2h := by
        intro k' b' hk'
        rw [hT] at hk'
        exact h.t2h k' b' (hperm.mem_iff.1 (hsub.subset hk'))
      roots := by rw [Forest.rootNames_append, Forest.rootNames_modify, h.roots] }

end CyVerif.C49

import CyVerif.Lemmas.C50DfaM
import CyVerif.Lemmas.C50TMapH
/-! RE → NFA, part A: the labelled edges of the NFA and the effect of the `Machine`/`Node` operations. -/
namespace CyVerif.C50

def symOfSp : Sp → Option CurChar
  | .bol => some .bol
  | .eol => some .eol
  | .eof => some .eof
  | .eps => none

/-- the target set of a transition map under a label (`none` = epsilon) -/
def TMap.targets (tm : TMap) : Option CurChar → SSet
  | none => tm.lookupSp .eps
  | some (.chr c) => tm.lookup c
  | some .bol => tm.lookupSp .bol
  | some .eol => tm.lookupSp .eol
  | some .eof => tm.lookupSp .eof
  | some .empty => []

def ValidLab : Option CurChar → Prop
  | none => True
  | some x => ValidSym x

/-- labelled edge of the NFA (`none` = epsilon move) -/
def NEdge (n : NFA) (s : Nat) (lab : Option CurChar) (u : Nat) : Prop :=
  ValidLab lab ∧ u ∈ (n.node s).trans.targets lab

/-- the labels an event of `add_transition` stands for -/
def EvMatches : Ev → Option CurChar → Prop
  | .range c0 c1, some (.chr c) => c0 ≤ (c : Int) ∧ (c : Int) < c1
  | .range _ _, _ => False
  | .sp k, lab => lab = symOfSp k

theorem targets_add (tm : TMap) (hw : tm.WF) (ev : Ev) (t : Nat) (hb : ev.InBounds) (lab : Option CurChar)
    (hv : ValidLab lab) (u : Nat) :
    u ∈ (tm.add ev t).targets lab ↔ u ∈ tm.targets lab ∨ (u = t ∧ EvMatches ev lab) := by
  have hsort : ∀ a, Sorted a → Sorted (sins t a) := fun _ ha => sins_sorted ha
  cases ev with
  | range c0 c1 =>
    obtain ⟨_, w2, w3⟩ := tm.addWith_range hw _ hsort c0 c1 hb.1 hb.2.1 hb.2.2.1 hb.2.2.2
    have hsp : ∀ k, (tm.add (.range c0 c1) t).lookupSp k = tm.lookupSp k := by
      intro k; unfold TMap.lookupSp TMap.add; rw [w3]
    cases lab with
    | none => simp [TMap.targets, hsp, EvMatches]
    | some x =>
      cases x with
      | chr c =>
        have hv' : (c : Int) < maxint := hv
        simp only [TMap.targets, EvMatches]
        unfold TMap.add
        rw [w2 c hv']
        by_cases hin : c0 ≤ (c : Int) ∧ (c : Int) < c1
        · simp only [hin, and_self, if_true, mem_sins, and_true]
          exact Or.comm
        · simp only [hin, if_false, and_false, or_false]
      | bol => simp [TMap.targets, hsp, EvMatches]
      | eol => simp [TMap.targets, hsp, EvMatches]
      | eof => simp [TMap.targets, hsp, EvMatches]
      | empty => simp [TMap.targets, EvMatches]
  | sp k =>
    obtain ⟨_, w2, w3⟩ := tm.addWith_sp hw _ hsort k
    have hlk : ∀ c, (tm.add (.sp k) t).lookup c = tm.lookup c := w2
    have hsp : ∀ k', (tm.add (.sp k) t).lookupSp k' =
        if k' = k then sins t (tm.lookupSp k) else tm.lookupSp k' := w3
    have key : ∀ k', u ∈ (tm.add (.sp k) t).lookupSp k' ↔ u ∈ tm.lookupSp k' ∨ (u = t ∧ k' = k) := by
      intro k'
      rw [hsp]
      by_cases hk : k' = k
      · subst hk; simp only [if_true, mem_sins, and_true]; exact Or.comm
      · simp [hk]
    cases lab with
    | none =>
      simp only [TMap.targets, EvMatches, key]
      cases k <;> simp [symOfSp]
    | some x =>
      cases x with
      | chr c => simp only [TMap.targets, EvMatches, hlk]; cases k <;> simp [symOfSp]
      | bol => simp only [TMap.targets, EvMatches, key]; cases k <;> simp [symOfSp]
      | eol => simp only [TMap.targets, EvMatches, key]; cases k <;> simp [symOfSp]
      | eof => simp only [TMap.targets, EvMatches, key]; cases k <;> simp [symOfSp]
      | empty => simp only [TMap.targets, EvMatches]; cases k <;> simp [symOfSp]

theorem node_modify (n : NFA) (f : Node → Node) (s s' : Nat) (hs : s < n.nodes.length) :
    NFA.node { n with nodes := modifyNth f s n.nodes } s' = if s' = s then f (n.node s) else n.node s' := by
  unfold NFA.node
  simp only [modifyNth_get]
  by_cases h : s' = s
  · subst h
    simp [List.getElem?_eq_getElem hs]
  · simp [h]

theorem eps_eq_lookupSp (n : NFA) (s : Nat) : n.eps s = (n.node s).trans.lookupSp .eps := rfl

theorem NFA.wf_modify (n : NFA) (h : n.WF) (f : Node → Node) (s : Nat)
    (hf : ∀ nd, nd.trans.WF → (f nd).trans.WF) : NFA.WF { n with nodes := modifyNth f s n.nodes } := by
  intro nd hnd
  obtain ⟨p, hp, hget⟩ := List.getElem_of_mem hnd
  have : (modifyNth f s n.nodes)[p]? = some nd := by rw [List.getElem?_eq_getElem hp, hget]
  rw [modifyNth_get] at this
  split at this
  · cases hq : n.nodes[p]? with
    | none => rw [hq] at this; cases this
    | some nd0 =>
      rw [hq] at this
      simp only [Option.map_some, Option.some.injEq] at this
      rw [← this]
      exact hf nd0 (h nd0 (List.mem_of_getElem? hq))
  · exact h nd (List.mem_of_getElem? this)

/-- `state.add_transition(event, new_state)` adds exactly the edges the event stands for -/
theorem addTrans_spec (n : NFA) (h : n.WF) (s : Nat) (ev : Ev) (t : Nat) (hs : s < n.nodes.length) (hb : ev.InBounds) :
    (n.addTrans s ev t).WF ∧ (n.addTrans s ev t).nodes.length = n.nodes.length ∧
    (n.addTrans s ev t).inits = n.inits ∧
    (∀ s', ((n.addTrans s ev t).node s').action = (n.node s').action ∧ ((n.addTrans s ev t).node s').prio = (n.node s').prio) ∧
    (∀ s' lab u, NEdge (n.addTrans s ev t) s' lab u ↔
      NEdge n s' lab u ∨ (s' = s ∧ u = t ∧ ValidLab lab ∧ EvMatches ev lab)) := by
  have hw := NFA.node_wf h s
  have hsort : ∀ a, Sorted a → Sorted (sins t a) := fun _ ha => sins_sorted ha
  refine ⟨?_, by simp [NFA.addTrans, modifyNth_length], rfl, ?_, ?_⟩
  · apply NFA.wf_modify n h
    intro nd hnd
    cases ev with
    | range c0 c1 => exact (nd.trans.addWith_range hnd _ hsort c0 c1 hb.1 hb.2.1 hb.2.2.1 hb.2.2.2).1
    | sp k => exact (nd.trans.addWith_sp hnd _ hsort k).1
  · intro s'
    unfold NFA.addTrans
    rw [node_modify n _ s s' hs]
    split
    · rename_i e; subst e; exact ⟨rfl, rfl⟩
    · exact ⟨rfl, rfl⟩
  · intro s' lab u
    unfold NEdge NFA.addTrans
    rw [node_modify n _ s s' hs]
    by_cases hss : s' = s
    · subst hss
      rw [if_pos rfl]
      constructor
      · rintro ⟨hv, hu⟩
        rcases (targets_add _ hw ev t hb lab hv u).1 hu with e | ⟨e1, e2⟩
        · exact .inl ⟨hv, e⟩
        · exact .inr ⟨rfl, e1, hv, e2⟩
      · rintro (⟨hv, hu⟩ | ⟨_, e1, hv, e2⟩)
        · exact ⟨hv, (targets_add _ hw ev t hb lab hv u).2 (.inl hu)⟩
        · exact ⟨hv, (targets_add _ hw ev t hb lab hv u).2 (.inr ⟨e1, e2⟩)⟩
    · rw [if_neg hss]
      constructor
      · intro h'; exact .inl h'
      · rintro (h' | ⟨e, _⟩)
        · exact h'
        · exact absurd e hss

end CyVerif.C50

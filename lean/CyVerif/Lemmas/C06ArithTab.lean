import CyVerif.Model.C06Arith
/-! Finite enumeration of the class abstraction (so that statements over all classes are decided by the kernel). -/
namespace CyVerif.C06

def allFC : List FC := [.nan, .inf false, .inf true, .zero false, .zero true, .fin false, .fin true]
def allRel : List Rel :=
  [.small false, .small true, .multiple false, .multiple true,
   .other false false, .other true false, .other false true, .other true true]

theorem mem_allFC (a : FC) : a ∈ allFC := by
  cases a with
  | nan => simp [allFC]
  | inf s => cases s <;> simp [allFC]
  | zero s => cases s <;> simp [allFC]
  | fin s => cases s <;> simp [allFC]

theorem mem_allRel (r : Rel) : r ∈ allRel := by
  cases r with
  | small u => cases u <;> simp [allRel]
  | multiple o => cases o <;> simp [allRel]
  | other o o2 => cases o <;> cases o2 <;> simp [allRel]

/-- a Boolean statement checked on the whole table holds for every class and relation -/
theorem forall_of_table (f : FC → FC → Rel → Bool)
    (h : (allFC.all fun a => allFC.all fun b => allRel.all fun r => f a b r) = true) :
    ∀ a b r, f a b r = true := by
  intro a b r
  simp only [List.all_eq_true] at h
  exact h a (mem_allFC a) b (mem_allFC b) r (mem_allRel r)

/-- where the pinned `ModFloat` differs from `float_rem` (class level) -/
def modExcluded (a b : FC) (rel : Rel) : Bool :=
  match a, b with
  | .zero _, .inf _ => true                 -- 0.0 % inf: 0 * inf = NaN added
  | .fin s, .inf t => s == t                -- 1.0 % inf
  | .zero false, .fin true => true          -- 0.0 % -1.0: +0 instead of -0
  | .fin false, .fin true =>                -- 4.0 % -2.0: +0 instead of -0
    match rel with
    | .multiple _ => true
    | _ => false
  | _, _ => false

/-- where `floor(a / b)` differs from `float_floor_div` (class level) -/
def floorExcluded (a b : FC) (rel : Rel) : Bool :=
  match a, b with
  | .inf _, .fin _ => true                  -- inf // 1.0: inf instead of NaN
  | .fin s, .inf t => s != t                -- -1.0 // inf: -0.0 instead of -1.0
  | .fin s, .fin t =>
    match rel with
    | .small u => u && (s != t)             -- quotient underflows: -0.0 instead of -1.0
    | .multiple _ => false
    | .other o o2 => o != o2                -- only one of the two quotients overflows
  | _, _ => false

end CyVerif.C06

import CyVerif.Lemmas.C11Emit
/-! The MSVC array form: `_split_characters` recovers the tokens, each is a valid character constant. -/
namespace CyVerif.C11

theorem simpleEsc_not_oct {e v : Nat} (h : simpleEsc e = some v) : isOct e = false := by
  unfold simpleEsc at h
  simp only [isOct]
  repeat (split at h; (subst_vars; rfl))
  simp at h

theorem tokLen_tok {t : List Nat} {v : Nat} (h : tokVal t = some v) (F : List Nat) :
    tokLen (t ++ F) = t.length ∧ t ≠ [] := by
  rcases t with _ | ⟨a, _ | ⟨b, _ | ⟨c, _ | ⟨d, _ | ⟨e, t⟩⟩⟩⟩⟩
  · simp [tokVal] at h
  · simp only [tokVal] at h
    split at h
    · rename_i hc
      refine ⟨?_, by simp⟩
      cases F with
      | nil => simp [tokLen]
      | cons f F => simp [tokLen, hc.2.2.2.2]
    · simp at h
  · simp only [tokVal] at h
    split at h
    · rename_i hb; subst hb
      have := simpleEsc_not_oct h
      refine ⟨?_, by simp⟩
      rcases F with _ | ⟨f, _ | ⟨g, F⟩⟩ <;> simp [tokLen, this]
    · simp at h
  · simp [tokVal] at h
  · simp only [tokVal] at h
    split at h
    · rename_i hh
      obtain ⟨hb, hx, hy, hz, _⟩ := hh
      subst hb
      exact ⟨by simp [tokLen, hx, hy, hz], by simp⟩
    · simp at h
  · simp [tokVal] at h

theorem splitCharactersF_toks (ts : List (List Nat)) (vs : List Nat) (h : decodeToks ts = some vs) :
    ∀ fuel, ts.flatten.length ≤ fuel → splitCharactersF fuel ts.flatten = ts := by
  induction ts generalizing vs with
  | nil => intro fuel _; cases fuel <;> simp [splitCharactersF]
  | cons t ts ih =>
    obtain ⟨v, vs', hv, hts, _⟩ := decodeToks_cons h
    intro fuel hf
    obtain ⟨hl, hne⟩ := tokLen_tok hv ts.flatten
    rw [List.flatten_cons] at hf ⊢
    cases ht : t with
    | nil => exact absurd ht hne
    | cons c r =>
      rw [← ht]
      cases fuel with
      | zero => rw [ht] at hf; simp at hf
      | succ f =>
        have hcons : t ++ ts.flatten = c :: (r ++ ts.flatten) := by rw [ht]; rfl
        rw [hcons]
        simp only [splitCharactersF]
        rw [← hcons, hl, List.take_left' rfl, List.drop_left' rfl]
        rw [ih vs' hts f (by rw [List.length_append, ht, List.length_cons] at hf; omega)]

theorem splitCharacters_toks (ts : List (List Nat)) (vs : List Nat) (h : decodeToks ts = some vs) :
    splitCharacters ts.flatten = ts :=
  splitCharactersF_toks ts vs h _ (Nat.le_refl _)

theorem cchar_tok (tri : Bool) (t : List Nat) (v : Nat) (h : tokVal t = some v) :
    cCharLex tri (39 :: t ++ [39]) = some v := by
  have hrun : run 39 .out (39 :: t ++ [39]) = some (.out, [v]) := by
    simp only [List.cons_append, run, step, if_true]
    rw [run_append, tok_run 39 (Or.inr rfl) t v h]
    simp [run, step, stepLit]
  have hn : 10 ∉ (39 :: t ++ [39]) := by
    have := tok_no_newline h
    simp only [List.cons_append, List.mem_cons, List.mem_append, List.mem_nil_iff, or_false, not_or]
    exact ⟨by omega, this, by omega⟩
  have hq : noQQ (39 :: t ++ [39]) = true := by
    rw [List.cons_append, noQQ_cons_of_ne (by omega)]
    have hs := shape_of_tokVal h
    cases hs with
    | plain c _ =>
      by_cases hc : c = 63
      · subst hc; simp [noQQ]
      · simp [noQQ]
    | two e =>
      simp only [List.cons_append, List.nil_append]
      rw [noQQ_cons_of_ne (by omega)]
      by_cases hc : e = 63
      · subst hc; simp [noQQ]
      · simp [noQQ]
    | four x y z _ _ _ =>
      simp only [tokVal] at h
      split at h
      · rename_i hh
        obtain ⟨_, hx, hy, hz, _⟩ := hh
        simp only [isOct, Bool.and_eq_true, decide_eq_true_eq] at hx hy hz
        simp only [List.cons_append, List.nil_append]
        rw [noQQ_cons_of_ne (by omega), noQQ_cons_of_ne (by omega), noQQ_cons_of_ne (by omega), noQQ_cons_of_ne (by omega)]
        simp [noQQ]
      · simp at h
  unfold cCharLex
  cases tri
  · simp only [Bool.false_eq_true, if_false]; rw [splice_id _ hn, hrun]
  · simp only [if_true]; rw [trigraphs_id _ hq, splice_id _ hn, hrun]

theorem cchar_toks (tri : Bool) (ts : List (List Nat)) (vs : List Nat) (h : decodeToks ts = some vs) :
    ts.map (fun t => cCharLex tri (39 :: t ++ [39])) = vs.map some := by
  induction ts generalizing vs with
  | nil => simp [decodeToks] at h; subst h; rfl
  | cons t ts ih =>
    obtain ⟨v, vs', hv, hts, rfl⟩ := decodeToks_cons h
    rw [List.map_cons, List.map_cons, cchar_tok tri t v hv, ih vs' hts]

end CyVerif.C11

import CyVerif.Lemmas.C49Once
/-! One marker per output line: if every write carries exactly one marker per
newline of its text (what `CCodeWriter._write_lines` does), then for every
buffer the marker list is as long as the number of lines of its output. -/
namespace CyVerif.C49

/-- every fragment of the document carries one marker per newline -/
def Lined (d : Doc) : Prop := ∀ s ms, Item.frag s ms ∈ d → ms.length = nlCount s

def opLined : Op → Prop
  | .write _ s ms => ms.length = nlCount s
  | _ => True

instance : DecidablePred opLined := fun o => by
  cases o <;> simp only [opLined] <;> infer_instance

theorem nlCount_append (a b : String) : nlCount (a ++ b) = nlCount a + nlCount b := by
  simp [nlCount, String.toList_append, List.filter_append]

theorem nlCount_empty : nlCount "" = 0 := by decide

theorem mem_insBefore {a y : Item} {x d : Doc} (h : a ∈ insBefore y x d) : a ∈ x ∨ a ∈ d := by
  induction d with
  | nil => simp at h
  | cons c r ih =>
    by_cases e : c = y
    · rw [e, insBefore_cons_self] at h
      rcases List.mem_append.1 h with h | h
      · exact Or.inl h
      · exact Or.inr (e ▸ h)
    · rw [insBefore_cons_ne e] at h
      rcases List.mem_cons.1 h with h | h
      · exact Or.inr (by simp [h])
      · rcases ih h with h | h
        · exact Or.inl h
        · exact Or.inr (List.mem_cons_of_mem _ h)

theorem mem_before {a y : Item} {d : Doc} (h : a ∈ before y d) : a ∈ d := by
  induction d with
  | nil => simp [before] at h
  | cons c r ih =>
    by_cases e : c = y
    · simp [before, e] at h
    · simp only [before, e, if_false, List.mem_cons] at h
      rcases h with h | h
      · simp [h]
      · exact List.mem_cons_of_mem _ (ih h)

theorem mem_after {a y : Item} {d : Doc} (h : a ∈ after y d) : a ∈ d := by
  induction d with
  | nil => simp [after] at h
  | cons c r ih =>
    by_cases e : c = y
    · simp only [after, e, if_true] at h; exact List.mem_cons_of_mem _ h
    · simp only [after, e, if_false] at h; exact List.mem_cons_of_mem _ (ih h)

theorem mem_keepTop {a : Item} : ∀ (d : Doc) (st : Option Nat), a ∈ keepTop st d → a ∈ d := by
  intro d
  induction d with
  | nil => intro st h; cases st <;> simp [keepTop] at h
  | cons c r ih =>
    intro st h
    cases st with
    | none =>
      cases c with
      | op j =>
        simp only [keepTop, List.mem_cons] at h
        rcases h with h | h
        · simp [h]
        · exact List.mem_cons_of_mem _ (ih _ h)
      | frag s ms => simp only [keepTop] at h; exact List.mem_cons_of_mem _ (ih _ h)
      | cl j => simp only [keepTop] at h; exact List.mem_cons_of_mem _ (ih _ h)
    | some j =>
      simp only [keepTop, List.mem_cons] at h
      rcases h with h | h
      · simp [h]
      · exact List.mem_cons_of_mem _ (ih _ h)

theorem mem_region {a : Item} {k : Nat} {d : Doc} (h : a ∈ region k d) : a ∈ d :=
  mem_after (mem_before h)

theorem Lined.region {d : Doc} (h : Lined d) (k : Nat) : Lined (region k d) :=
  fun s ms hm => h s ms (mem_region hm)

theorem lines_step {sp sp' : Spec} (h : Lined sp.doc) (op : Op) (hop : opLined op)
    (hs : sp.step op = some sp') : Lined sp'.doc := by
  intro s ms hm
  cases op with
  | new =>
    simp only [Spec.step, Option.some.injEq] at hs
    subst hs
    simp only [List.mem_append, List.mem_cons, reduceCtorEq, List.not_mem_nil, or_false] at hm
    exact h s ms hm
  | write k s' ms' =>
    simp only [Spec.step] at hs
    split at hs
    · split at hs
      · split at hs
        · simp only [Option.some.injEq] at hs; subst hs; exact h s ms hm
        · cases hs
      · simp only [Option.some.injEq] at hs
        subst hs
        rcases mem_insBefore hm with hm | hm
        · simp only [List.mem_singleton, Item.frag.injEq] at hm
          obtain ⟨rfl, rfl⟩ := hm
          exact hop
        · exact h s ms hm
    · cases hs
  | ip k =>
    simp only [Spec.step] at hs
    split at hs
    · simp only [Option.some.injEq] at hs
      subst hs
      rcases mem_insBefore hm with hm | hm
      · simp at hm
      · exact h s ms hm
    · cases hs
  | insert k t =>
    simp only [Spec.step] at hs
    split at hs
    · simp only [Option.some.injEq] at hs
      subst hs
      rcases mem_insBefore hm with hm | hm
      · simp only [List.cons_append, List.mem_cons, reduceCtorEq, List.mem_append,
          List.not_mem_nil, or_false, false_or] at hm
        exact h s ms (mem_region hm)
      · simp only [cut, List.mem_append] at hm
        rcases hm with hm | hm
        · exact h s ms (mem_before hm)
        · exact h s ms (mem_after (mem_after hm))
    · cases hs
  | commit k =>
    simp only [Spec.step] at hs
    split at hs
    · simp only [Option.some.injEq] at hs; subst hs; exact h s ms hm
    · cases hs
  | reset k =>
    simp only [Spec.step] at hs
    split at hs
    · simp only [Option.some.injEq] at hs
      subst hs
      simp only [clearRegion, List.mem_append, List.mem_cons, reduceCtorEq, false_or] at hm
      rcases hm with (hm | hm) | hm
      · exact h s ms (mem_before hm)
      · exact h s ms (mem_after (mem_after hm))
      · exact h s ms (mem_region (mem_keepTop _ _ hm))
    · cases hs

theorem lines_run {sp sp' : Spec} (h : Lined sp.doc) (ops : List Op) (hop : ∀ o ∈ ops, opLined o)
    (hs : sp.run ops = some sp') : Lined sp'.doc := by
  induction ops generalizing sp with
  | nil => simp only [Spec.run, Option.some.injEq] at hs; subst hs; exact h
  | cons o os ih =>
    simp only [Spec.run] at hs
    cases h1 : sp.step o with
    | none => rw [h1] at hs; cases hs
    | some sp1 =>
      rw [h1] at hs
      exact ih (lines_step h o (hop o (by simp)) h1) (fun o' ho' => hop o' (by simp [ho'])) hs

theorem marks_count {d : Doc} (h : Lined d) : (marksD d).length = nlCount (textD d) := by
  induction d with
  | nil => simp [marksD, textD, nlCount_empty]
  | cons a r ih =>
    have hr : Lined r := fun s ms hm => h s ms (List.mem_cons_of_mem _ hm)
    cases a with
    | frag s ms =>
      simp only [marksD, textD, List.length_append, nlCount_append, ih hr]
      rw [h s ms (by simp)]
    | op j => simpa [marksD, textD] using ih hr
    | cl j => simpa [marksD, textD] using ih hr

end CyVerif.C49

import CyVerif.Lemmas.C46Graph
/-!
The invariant of `transitive_merge_helper` and its proof (DESIGN appendix A,
corrected: a cached child returns `loop = None` although it may reach open
stack vertices, so clause (c) is a disjunction "lower loop head reported OR the
whole closure of that stack vertex is already in `deps`").
-/
namespace CyVerif.C46

variable {g E : Nat → List Nat}

/-- Every cached entry is exactly the closure of its key. -/
def CacheOK (g E : Nat → List Nat) (seen : Cache) : Prop :=
  ∀ n d, lookup seen n = some d → ∀ x, x ∈ d ↔ InClos g E n x

theorem CacheOK.nil : CacheOK g E [] := by
  intro n d h; simp [lookup] at h

/-- Post-condition of a helper call on `node` with open stack `S`. -/
structure Post (g E : Nat → List Nat) (S : List Nat) (node : Nat)
    (deps : List Nat) (loop : Option Nat) (seen' : Cache) : Prop where
  cache : CacheOK g E seen'
  sound : ∀ x, x ∈ deps → InClos g E node x
  loopIn : ∀ s, loop = some s → s ∈ S
  avoid : ∀ v, RA g S node v → ∀ x, x ∈ E v → x ∈ deps
  heads : ∀ t, t ∈ S → RA g S node t →
    (∃ s, loop = some s ∧ pos S s ≤ pos S t) ∨ (∀ x, InClos g E t x → x ∈ deps)

/-- With no open loop reported, `deps` is the complete closure. -/
theorem Post.complete {S : List Nat} {node : Nat} {deps : List Nat} {seen' : Cache}
    (h : Post g E S node deps none seen') : ∀ x, InClos g E node x → x ∈ deps := by
  rintro x ⟨v, hv, hx⟩
  rcases hv.split S with hra | ⟨t, ht, hra, htv⟩
  · exact h.avoid v hra x hx
  · rcases h.heads t ht hra with ⟨s, hs, _⟩ | hc
    · cases hs
    · exact hc x ⟨v, htv, hx⟩

/-- What a recursive-call function must satisfy on stack `S`. -/
def HSpec (g E : Nat → List Nat) (S : List Nat) (h : Nat → Cache → Out) : Prop :=
  ∀ c seen, CacheOK g E seen → ∃ d l s', h c seen = .ok d l s' ∧ Post g E S c d l s'

/-- "a loop head at or below `t` is reported" -/
def Below (S : List Nat) (loop : Option Nat) (t : Nat) : Prop :=
  ∃ s, loop = some s ∧ pos S s ≤ pos S t

theorem mergeLoop_spec {S : List Nat} {loop sl : Option Nat}
    (h1 : ∀ s, loop = some s → s ∈ S) (h2 : ∀ s, sl = some s → s ∈ S) :
    ∃ l', mergeLoop S loop sl = some l' ∧ (∀ s, l' = some s → s ∈ S) ∧
      (∀ t, Below S loop t → Below S l' t) ∧ (∀ t, Below S sl t → Below S l' t) := by
  cases sl with
  | none =>
    refine ⟨loop, rfl, h1, fun _ h => h, ?_⟩
    rintro t ⟨s, hs, _⟩; cases hs
  | some b =>
    cases loop with
    | none =>
      refine ⟨some b, rfl, h2, ?_, fun _ h => h⟩
      rintro t ⟨s, hs, _⟩; cases hs
    | some a =>
      have ha := h1 a rfl
      have hb := h2 b rfl
      simp only [mergeLoop, ha, hb, and_self, if_true]
      by_cases hlt : pos S a < pos S b
      · simp only [hlt, if_true]
        refine ⟨some a, rfl, h1, fun _ h => h, ?_⟩
        rintro t ⟨s, hs, hle⟩
        cases hs
        exact ⟨a, rfl, by omega⟩
      · simp only [hlt, if_false]
        refine ⟨some b, rfl, h2, ?_, fun _ h => h⟩
        rintro t ⟨s, hs, hle⟩
        cases hs
        exact ⟨b, rfl, by omega⟩

/-- The `for` loop over the children. -/
theorem foldKids_spec {S : List Nat} {h : Nat → Cache → Out} (hh : HSpec g E S h) :
    ∀ (cs deps0 : List Nat) (loop0 : Option Nat) (seen0 : Cache),
      CacheOK g E seen0 → (∀ s, loop0 = some s → s ∈ S) →
      ∃ D L s1, foldKids h S cs deps0 loop0 seen0 = .ok D L s1 ∧
        CacheOK g E s1 ∧
        (∀ x, x ∈ D → x ∈ deps0 ∨ ∃ c, c ∈ cs ∧ InClos g E c x) ∧
        (∀ x, x ∈ deps0 → x ∈ D) ∧
        (∀ s, L = some s → s ∈ S) ∧
        (∀ c, c ∈ cs → ∀ v, RA g S c v → ∀ x, x ∈ E v → x ∈ D) ∧
        (∀ t, Below S loop0 t → Below S L t) ∧
        (∀ c, c ∈ cs → ∀ t, t ∈ S → RA g S c t →
          Below S L t ∨ (∀ x, InClos g E t x → x ∈ D)) := by
  intro cs
  induction cs with
  | nil =>
    intro deps0 loop0 seen0 hc hl
    refine ⟨deps0, loop0, seen0, rfl, hc, fun x hx => .inl hx, fun x hx => hx, hl, ?_, fun _ h => h, ?_⟩
    · intro c hc; cases hc
    · intro c hc; cases hc
  | cons c cs ih =>
    intro deps0 loop0 seen0 hc hl
    obtain ⟨sd, sl, seen', hcall, hp⟩ := hh c seen0 hc
    obtain ⟨l', hml, hl', hb1, hb2⟩ := mergeLoop_spec hl hp.loopIn
    obtain ⟨D, L, s1, hfold, hc1, hsound, hsub, hL, havoid, hbelow, hheads⟩ :=
      ih (union deps0 sd) l' seen' hp.cache hl'
    refine ⟨D, L, s1, ?_, hc1, ?_, ?_, hL, ?_, ?_, ?_⟩
    · simp only [foldKids, hcall, hml]; exact hfold
    · intro x hx
      rcases hsound x hx with hx | ⟨c', hc', hx⟩
      · rcases mem_union.1 hx with hx | hx
        · exact .inl hx
        · exact .inr ⟨c, List.mem_cons_self .., hp.sound x hx⟩
      · exact .inr ⟨c', List.mem_cons_of_mem _ hc', hx⟩
    · intro x hx; exact hsub x (mem_union.2 (.inl hx))
    · intro c' hc' v hv x hx
      rcases List.mem_cons.1 hc' with rfl | hc'
      · exact hsub x (mem_union.2 (.inr (hp.avoid v hv x hx)))
      · exact havoid c' hc' v hv x hx
    · intro t ht; exact hbelow t (hb1 t ht)
    · intro c' hc' t ht hra
      rcases List.mem_cons.1 hc' with rfl | hc'
      · rcases hp.heads t ht hra with hb | hcl
        · exact .inl (hbelow t (hb2 t hb))
        · exact .inr fun x hx => hsub x (mem_union.2 (.inr (hcl x hx)))
      · exact hheads c' hc' t ht hra

/-- Assembling the post-condition of a fresh node from the result of its `for` loop. -/
theorem post_of_fold {S : List Nat} {node : Nat} (hS : node ∉ S)
    {D : List Nat} {L : Option Nat} {s1 : Cache}
    (hc1 : CacheOK g E s1)
    (hsound : ∀ x, x ∈ D → x ∈ E node ∨ ∃ c, c ∈ g node ∧ InClos g E c x)
    (hsub : ∀ x, x ∈ E node → x ∈ D)
    (hL : ∀ s, L = some s → s ∈ node :: S)
    (havoid : ∀ c, c ∈ g node → ∀ v, RA g (node :: S) c v → ∀ x, x ∈ E v → x ∈ D)
    (hheads : ∀ c, c ∈ g node → ∀ t, t ∈ node :: S → RA g (node :: S) c t →
      Below (node :: S) L t ∨ (∀ x, InClos g E t x → x ∈ D)) :
    Post g E S node D (if L = some node then none else L)
      (if (if L = some node then none else L) = none then insert s1 node D else s1) := by
  have hsound' : ∀ x, x ∈ D → InClos g E node x := by
    intro x hx
    rcases hsound x hx with hx | ⟨c, hc, hx⟩
    · exact InClos.self hx
    · exact InClos.of_reach (.step hc (.refl c)) hx
  have hloopIn : ∀ s, (if L = some node then none else L) = some s → s ∈ S := by
    intro s hs
    split at hs
    · cases hs
    · rename_i hne
      rcases List.mem_cons.1 (hL s hs) with rfl | h
      · exact absurd hs hne
      · exact h
  have havoid' : ∀ v, RA g S node v → ∀ x, x ∈ E v → x ∈ D := by
    intro v hv x hx
    rcases hv.from_node with rfl | ⟨c, hc, hra⟩
    · exact hsub x hx
    · exact havoid c hc v hra x hx
  have hheads' : ∀ t, t ∈ S → RA g S node t →
      Below S (if L = some node then none else L) t ∨ (∀ x, InClos g E t x → x ∈ D) := by
    intro t ht hra
    have htn : t ≠ node := fun h => hS (h ▸ ht)
    rcases hra.from_node with h | ⟨c, hc, hra'⟩
    · exact absurd h htn
    · rcases hheads c hc t (List.mem_cons_of_mem _ ht) hra' with ⟨s, hs, hle⟩ | hcl
      · left
        rw [pos_cons_ne htn] at hle
        have hlt := pos_lt ht
        by_cases hsn : s = node
        · subst hsn; rw [pos_cons_self] at hle; omega
        · rw [pos_cons_ne hsn] at hle
          refine ⟨s, ?_, hle⟩
          rw [if_neg]; exact hs
          rw [hs]; intro h; exact hsn (Option.some.inj h)
      · exact .inr hcl
  have hcache : CacheOK g E
      (if (if L = some node then none else L) = none then insert s1 node D else s1) := by
    generalize (if L = some node then none else L) = l' at hheads'
    by_cases hnone : l' = none
    · rw [if_pos hnone]
      intro n d hlk x
      rw [lookup_insert] at hlk
      by_cases hnn : node = n
      · rw [if_pos hnn] at hlk
        have hd : D = d := Option.some.inj hlk
        subst hd; subst hnn
        constructor
        · exact hsound' x
        · have hp : Post g E S node D none s1 := by
            refine ⟨hc1, hsound', ?_, havoid', ?_⟩
            · intro s hs; cases hs
            · intro t ht hra; have := hheads' t ht hra; rwa [hnone] at this
          exact hp.complete x
      · rw [if_neg hnn] at hlk
        exact hc1 n d hlk x
    · rw [if_neg hnone]; exact hc1
  exact ⟨hcache, hsound', hloopIn, havoid', hheads'⟩

/-- Main invariant: for every fuel above the number of free vertices, the helper
returns normally and satisfies `Post`. -/
theorem helper_spec {N : Nat} (hfin : ∀ n, N ≤ n → g n = []) :
    ∀ (fuel node : Nat) (seen : Cache) (S : List Nat),
      CacheOK g E seen → countFree N S < fuel →
      ∃ d l s', helper g E fuel node seen S = .ok d l s' ∧ Post g E S node d l s' := by
  intro fuel
  induction fuel with
  | zero => intro _ _ _ _ h; omega
  | succ fuel ih =>
    intro node seen S hc hfuel
    unfold helper
    cases hlk : lookup seen node with
    | some d =>
      refine ⟨d, none, seen, rfl, hc, fun x hx => (hc node d hlk x).1 hx, (by intro s hs; cases hs), ?_, ?_⟩
      · intro v hv x hx
        exact (hc node d hlk x).2 ⟨v, hv.reach, hx⟩
      · intro t _ hra
        exact .inr fun x hx => (hc node d hlk x).2 (InClos.of_reach hra.reach hx)
    | none =>
      by_cases hS : node ∈ S
      · simp only [hS, if_true]
        refine ⟨E node, some node, seen, rfl, hc, fun x hx => InClos.self hx, ?_, ?_, ?_⟩
        · intro s hs; cases hs; exact hS
        · intro v hv x hx; rw [hv.of_mem hS] at hx; exact hx
        · intro t _ hra
          rw [hra.of_mem hS]
          exact .inl ⟨node, rfl, Nat.le_refl _⟩
      · simp only [hS, if_false]
        -- the recursive calls satisfy the spec on the pushed stack (if there are any)
        by_cases hkids : g node = []
        · rw [hkids]
          simp only [foldKids]
          have := post_of_fold (g := g) (E := E) (L := none) (D := E node) (s1 := seen) hS hc
            (fun x hx => .inl hx) (fun x hx => hx) (by intro s hs; cases hs)
            (by intro c hc; rw [hkids] at hc; cases hc)
            (by intro c hc; rw [hkids] at hc; cases hc)
          exact ⟨_, _, _, rfl, this⟩
        · have hnN : node < N := by
            apply Classical.byContradiction
            intro h; exact hkids (hfin node (by omega))
          have hcf := countFree_push hnN hS
          have hh : HSpec g E (node :: S) (fun c s => helper g E fuel c s (node :: S)) := by
            intro c s hcs
            exact ih c s (node :: S) hcs (by omega)
          obtain ⟨D, L, s1, hfold, hc1, hsound, hsub, hL, havoid, _, hheads⟩ :=
            foldKids_spec hh (g node) (E node) none seen hc (by intro s hs; cases hs)
          rw [hfold]
          exact ⟨_, _, _, rfl, post_of_fold hS hc1 hsound hsub hL havoid hheads⟩

/-- `max([...])` of a non-empty list is its greatest element. -/
theorem maxList_spec (l : List Int) (hne : l ≠ []) :
    ∃ m, maxList l = some m ∧ m ∈ l ∧ ∀ y, y ∈ l → y ≤ m := by
  induction l with
  | nil => exact absurd rfl hne
  | cons x xs ih =>
    cases xs with
    | nil => exact ⟨x, by simp [maxList], by simp, by simp⟩
    | cons y ys =>
      obtain ⟨m, hm, hmem, hmax⟩ := ih (by simp)
      simp only [maxList] at hm ⊢
      rw [hm]
      by_cases hlt : x < m
      · refine ⟨m, by simp [hlt], List.mem_cons_of_mem _ hmem, ?_⟩
        intro z hz
        rcases List.mem_cons.1 hz with rfl | hz
        · omega
        · exact hmax z hz
      · refine ⟨x, by simp [hlt], List.mem_cons_self .., ?_⟩
        intro z hz
        rcases List.mem_cons.1 hz with rfl | hz
        · omega
        · have := hmax z hz; omega

end CyVerif.C46

import CyVerif.Lemmas.C49Steps2
/-! Simulation of `commit` (invisible in the flat document). -/
namespace CyVerif.C49
open Forest

theorem Forest.find_modify {b : Nat} {g : List Frag → Forest → List Frag × Forest}
    {fs0 : List Frag} {kids0 : Forest} :
    ∀ F : Forest, F.find b = some (fs0, kids0) → F.ids.Nodup →
      (F.modify b g).find b = some (g fs0 kids0) := by
  intro F
  induction F with
  | nil => intro h; simp [Forest.find] at h
  | cons id nm fs kd r ihk ihr =>
    intro hf hid
    obtain ⟨i1, i2, i3, i4, i5⟩ := Forest.nodup_ids_cons hid
    rcases Forest.find_cons_cases hid hf with ⟨e, hp⟩ | ⟨e, hbk, hbr, hfk⟩ | ⟨e, hbk, hbr, hfr⟩
    · simp only [Prod.mk.injEq] at hp
      obtain ⟨rfl, rfl⟩ := hp
      simp [Forest.modify, e, Forest.find]
    · simp only [Forest.modify, e, if_false, Forest.find, ihk hfk i3]
    · simp only [Forest.modify, e, if_false, Forest.find, Forest.modify_of_not_mem hbk,
        Forest.find_of_not_mem hbk, ihr hfr i4]

theorem commitH_of_empty {H : Heap} {b : Nat} {n : Node} (hn : H[b]? = some n) (hs : n.stream = "") :
    commitH H b = H := by
  simp [commitH, hn, hs]

theorem commitH_of_nonempty {H : Heap} {b : Nat} {n : Node} (hn : H[b]? = some n) (hs : n.stream ≠ "") :
    commitH H b = (H.set b ⟨"", n.children ++ [H.length], []⟩) ++ [⟨n.stream, [], n.markers⟩] := by
  simp [commitH, hn, hs]

/-- `commit`: the document does not change; afterwards the node of the buffer holds no fragments -/
theorem step_commit {σ : St} {sp : Spec} {F : Forest} (h : Sim σ sp F) {k b : Nat}
    (hk : σ.handles[k]? = some b) :
    ∃ F' kids1, Sim ⟨commitH σ.heap b, σ.handles⟩ sp F' ∧ F'.find b = some ([], kids1) := by
  obtain ⟨htag, fs0, kids0, hfind⟩ := h.find hk
  obtain ⟨n, hn, hch, hst, hmk, hck, hbk, _⟩ := Cons_find F h.cons hfind h.ids
  obtain ⟨hfs0, hk0⟩ := Forest.NE_find F h.ne hfind
  have hlt : b < σ.heap.length := (List.getElem?_eq_some_iff.1 hn).1
  by_cases hs : n.stream = ""
  · -- nothing to commit
    have : fs0 = [] := frags_nil_of_text hfs0 (hst ▸ hs)
    subst this
    refine ⟨F, kids0, ?_, hfind⟩
    rw [commitH_of_empty hn hs]
    exact h
  · -- the stream moves into a new anonymous child
    let c := σ.heap.length
    let g : List Frag → Forest → List Frag × Forest := fun fs kids => ([], kids.append (leaf c none fs))
    have hH := commitH_of_nonempty hn hs
    have hfr : ∀ i, i ≠ b → ∀ nd, σ.heap[i]? = some nd → (commitH σ.heap b)[i]? = some nd := by
      intro i hi nd hnd
      rw [hH]
      apply getElem?_push_of_some
      rw [List.getElem?_set_ne (Ne.symm hi)]; exact hnd
    have hsim : Sim ⟨commitH σ.heap b, σ.handles⟩ ⟨insBefore (Item.cl k) [] F.doc, sp.n, sp.roots⟩
        (F.modify b g) := by
      refine Sim_modify (new := [(c, none)]) h.cons h.ids h.names h.ne h.roots hfind htag ?_ ?_ ?_ hfr
        ?_ ?_ ?_ ?_ h.n ?_ ?_
      · simp [g, Forest.doc_append, leaf, Forest.doc, wrap, fragItems]
      · simp [g, Forest.tags_append, leaf, Forest.tags]
      · intro fs kids hfs hkids
        exact ⟨by simp [g], Forest.NE_append hkids ⟨hfs, trivial, trivial⟩⟩
      · refine ⟨⟨"", n.children ++ [c], []⟩, ?_, ?_, ?_, ?_⟩
        · rw [hH]
          apply getElem?_push_of_some
          exact List.getElem?_set_self hlt
        · simp [g, Forest.rootIds_append, leaf, Forest.rootIds, hch]
        · simp [g, fragItems, textD]
        · simp [g, fragItems, marksD]
      · refine Cons_append ?_ ?_
        · exact Cons_frame (fun i hi nd hnd => hfr i (fun e => hbk (e ▸ hi)) nd hnd) hck
        · refine Cons_leaf (s := n.stream) (ms := n.markers) ?_ hst hmk
          rw [hH]
          have : c = (σ.heap.set b ⟨"", n.children ++ [σ.heap.length], []⟩).length := by
            simp [c]
          rw [this]
          exact List.getElem?_concat_length
      · exact nodup_ids_push h.ids (h.fresh_id (Nat.le_refl _))
      · exact nodup_names_push_none h.names
      · exact h2t_anon _ h.h2t
      · exact t2h_anon _ h.t2h
    refine ⟨F.modify b g, kids0.append (leaf c none fs0), ?_, ?_⟩
    · rw [insBefore_empty, h.doc] at hsim
      exact hsim
    · rw [Forest.find_modify F hfind h.ids]

/-- after `commit` the stream of the buffer's cell is empty -/
theorem commitH_length_le (H : Heap) (b : Nat) : H.length ≤ (commitH H b).length := by
  unfold commitH
  cases H[b]? with
  | none => exact Nat.le_refl _
  | some n => by_cases hs : n.stream = "" <;> simp [hs]

end CyVerif.C49

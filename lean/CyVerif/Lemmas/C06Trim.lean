import CyVerif.Model.C06
/-! White-space trimming: `dropWhile`, `trimR`, `region`. -/
namespace CyVerif.C06

variable {p : Nat → Bool}

theorem mem_takeWhile_sat {l : List Nat} : ∀ c ∈ l.takeWhile p, p c = true := by
  induction l with
  | nil => simp
  | cons a as ih =>
    intro c hc
    rw [List.takeWhile_cons] at hc
    split at hc
    · rcases List.mem_cons.1 hc with rfl | h
      · assumption
      · exact ih c h
    · simp at hc

theorem dropWhile_head {l : List Nat} {c : Nat} {cs : List Nat} (h : l.dropWhile p = c :: cs) : p c = false := by
  have := List.head?_dropWhile_not p l
  rw [h] at this
  simpa using this

theorem dropWhile_all_append {lead x : List Nat} (hl : ∀ c ∈ lead, p c = true) :
    (lead ++ x).dropWhile p = x.dropWhile p := by
  induction lead with
  | nil => rfl
  | cons a as ih =>
    rw [List.cons_append, List.dropWhile_cons, if_pos (hl a (by simp))]
    exact ih (fun c hc => hl c (by simp [hc]))

theorem dropWhile_of_head {c : Nat} {cs : List Nat} (h : p c = false) : (c :: cs).dropWhile p = c :: cs := by
  rw [List.dropWhile_cons]; simp [h]

theorem trimR_all {tl : List Nat} (ht : ∀ c ∈ tl, p c = true) : trimR p tl = [] := by
  induction tl with
  | nil => rfl
  | cons a as ih =>
    simp only [trimR]
    rw [ih (fun c hc => ht c (by simp [hc]))]
    simp [ht a (by simp)]

theorem trimR_append_all {x tl : List Nat} (ht : ∀ c ∈ tl, p c = true) : trimR p (x ++ tl) = trimR p x := by
  induction x with
  | nil => simpa [trimR] using trimR_all ht
  | cons a as ih => simp only [List.cons_append, trimR, ih]

/-- `trimR` splits the list into what it keeps and a tail of `p`-characters -/
theorem trimR_decomp (x : List Nat) :
    trimR p x ++ x.drop (trimR p x).length = x ∧ ∀ c ∈ x.drop (trimR p x).length, p c = true := by
  induction x with
  | nil => simp [trimR]
  | cons a as ih =>
    simp only [trimR]
    cases h : trimR p as with
    | nil =>
      rw [h] at ih
      simp only [List.length_nil, List.drop_zero, List.nil_append] at ih
      by_cases ha : p a = true
      · simp only [ha, if_true, List.length_nil, List.drop_zero, List.nil_append, true_and]
        intro c hc
        rcases List.mem_cons.1 hc with rfl | hc
        · exact ha
        · exact ih.2 c hc
      · simpa [ha] using ih.2
    | cons b bs =>
      rw [h] at ih
      simp only [List.length_cons, List.drop_succ_cons, List.cons_append]
      simp only [List.length_cons] at ih
      exact ⟨congrArg (a :: ·) ih.1, ih.2⟩

theorem trimR_eq_self {x : List Nat} (h : ∀ d, x.getLast? = some d → p d = false) : trimR p x = x := by
  induction x with
  | nil => rfl
  | cons a as ih =>
    simp only [trimR]
    cases as with
    | nil =>
      have := h a (by simp)
      simp [trimR, this]
    | cons b bs =>
      have hh : trimR p (b :: bs) = b :: bs := ih (fun d hd => h d (by rw [List.getLast?_cons_cons]; exact hd))
      rw [hh]

theorem trimR_last (x : List Nat) : ∀ d, (trimR p x).getLast? = some d → p d = false := by
  induction x with
  | nil => simp [trimR]
  | cons a as ih =>
    intro d hd
    simp only [trimR] at hd
    cases h : trimR p as with
    | nil =>
      rw [h] at hd
      by_cases ha : p a = true
      · simp [ha] at hd
      · simp only [ha] at hd
        simp at hd; subst hd; simpa using ha
    | cons b bs =>
      rw [h] at hd ih
      rw [List.getLast?_cons_cons] at hd
      exact ih d hd

/-- `x` is what the C trimming loops leave: first character kept, no trailing `p`-character after it -/
def Trimmed (p : Nat → Bool) (x : List Nat) : Prop := region p x = x

theorem region_trimmed (a : List Nat) : Trimmed p (region p a) := by
  cases a with
  | nil => rfl
  | cons c cs =>
    simp only [Trimmed, region]
    rw [trimR_eq_self (trimR_last cs)]

theorem region_decomp (a : List Nat) :
    region p a ++ a.drop (region p a).length = a ∧ ∀ c ∈ a.drop (region p a).length, p c = true := by
  cases a with
  | nil => simp [region]
  | cons c cs =>
    simp only [region, List.length_cons, List.drop_succ_cons, List.cons_append]
    have := trimR_decomp (p := p) cs
    exact ⟨by rw [this.1], this.2⟩

theorem region_ne_nil {a : List Nat} (h : a ≠ []) : region p a ≠ [] := by
  cases a with
  | nil => exact absurd rfl h
  | cons c cs => simp [region]

theorem region_head (a : List Nat) : (region p a).head? = a.head? := by
  cases a <;> simp [region]

theorem region_append {x tl : List Nat} (hx : Trimmed p x) (hne : x ≠ []) (ht : ∀ c ∈ tl, p c = true) :
    region p (x ++ tl) = x := by
  cases x with
  | nil => exact absurd rfl hne
  | cons c cs =>
    simp only [Trimmed, region] at hx
    simp only [List.cons_append, region, trimR_append_all ht]
    exact hx

theorem trimmed_cons_iff {c : Nat} {cs : List Nat} :
    Trimmed p (c :: cs) ↔ ∀ d, cs.getLast? = some d → p d = false := by
  constructor
  · intro h d hd
    simp only [Trimmed, region, List.cons.injEq, true_and] at h
    rw [← h] at hd
    exact trimR_last cs d hd
  · intro h
    simp only [Trimmed, region]
    rw [trimR_eq_self h]

import CyVerif.Lemmas.C21Transfer
import CyVerif.Lemmas.C21Sound
/-! The model of `reaching_definitions` (round-robin sweeps until nothing changes) ends in a
state that the checker accepts. -/
namespace CyVerif.C21

def SEq (a b : List Nat) : Prop := ∀ x, x ∈ a ↔ x ∈ b

theorem seteq_iff {a b : List Nat} : seteq a b = true ↔ SEq a b := by
  simp only [seteq, Bool.and_eq_true, sub_iff, SEq]
  constructor
  · rintro ⟨h1, h2⟩ x; exact ⟨h1 x, h2 x⟩
  · intro h; exact ⟨fun x => (h x).1, fun x => (h x).2⟩

theorem getD_set_same {l : List (List Nat)} {b : Nat} (hb : b < l.length) (v : List Nat) :
    (l.set b v).getD b [] = v := by
  rw [List.getD_eq_getElem?_getD, List.getElem?_set_self hb]; rfl

theorem getD_set_ne {l : List (List Nat)} {b b' : Nat} (h : b ≠ b') (v : List Nat) :
    (l.set b v).getD b' [] = l.getD b' [] := by
  rw [List.getD_eq_getElem?_getD, List.getElem?_set_ne h, ← List.getD_eq_getElem?_getD]

theorem getD_set_ge {l : List (List Nat)} {b : Nat} (hb : ¬ b < l.length) (v : List Nat) (b' : Nat) :
    (l.set b v).getD b' [] = l.getD b' [] := by
  by_cases h : b = b'
  · subst h
    rw [List.getD_eq_getElem?_getD, List.getD_eq_getElem?_getD,
      List.getElem?_eq_none (by simp; omega), List.getElem?_eq_none (by omega)]
  · exact getD_set_ne h v

/-- invariant of one sweep that has not set `dirty`, relative to the state `s0` it started from -/
structure SweepInv (g : Graph) (s0 sol : Sol) (done : List Nat) : Prop where
  len_i : sol.inp.length = g.blocks.length
  len_o : sol.out.length = g.blocks.length
  eq : ∀ b, SEq (sol.o b) (s0.o b)
  dn : ∀ b ∈ done, b < g.blocks.length →
    (∀ p ∈ parents g b, ∀ x ∈ s0.o p, x ∈ sol.i b) ∧ sol.o b = transfer g (g.ev b) (sol.i b)

theorem visit_fst (g : Graph) (sol : Sol) (d d' : Bool) (b : Nat) :
    (visit g (sol, d) b).1 = (visit g (sol, d') b).1 := rfl

theorem visit_inv {g : Graph} {s0 sol : Sol} {done : List Nat} (h : SweepInv g s0 sol done) (b : Nat)
    (hd : (visit g (sol, false) b).2 = false) : SweepInv g s0 (visit g (sol, false) b).1 (b :: done) := by
  have hse : SEq (transfer g (g.ev b) (dedup ((parents g b).flatMap sol.o))) (sol.o b) := by
    simp only [visit, Bool.false_or, Bool.not_eq_false'] at hd
    exact seteq_iff.mp hd
  refine ⟨by simp [visit, h.len_i], by simp [visit, h.len_o], ?_, ?_⟩
  · intro b'
    by_cases hb : b < g.blocks.length
    · by_cases hbb : b = b'
      · subst hbb
        have : (visit g (sol, false) b).1.o b = transfer g (g.ev b) (dedup ((parents g b).flatMap sol.o)) := by
          simp only [visit, Sol.o]; exact getD_set_same (by rw [h.len_o]; exact hb) _
        rw [this]
        intro x; exact (hse x).trans (h.eq b x)
      · have : (visit g (sol, false) b).1.o b' = sol.o b' := by
          simp only [visit, Sol.o]; exact getD_set_ne hbb _
        rw [this]; exact h.eq b'
    · have : (visit g (sol, false) b).1.o b' = sol.o b' := by
        simp only [visit, Sol.o]; exact getD_set_ge (by rw [h.len_o]; exact hb) _ _
      rw [this]; exact h.eq b'
  · intro b' hb' hlt
    by_cases hbb : b = b'
    · subst hbb
      have hi : (visit g (sol, false) b).1.i b = dedup ((parents g b).flatMap sol.o) := by
        simp only [visit, Sol.i]; exact getD_set_same (by rw [h.len_i]; exact hlt) _
      have ho : (visit g (sol, false) b).1.o b = transfer g (g.ev b) (dedup ((parents g b).flatMap sol.o)) := by
        simp only [visit, Sol.o]; exact getD_set_same (by rw [h.len_o]; exact hlt) _
      rw [hi, ho]
      refine ⟨fun p hp x hx => ?_, rfl⟩
      exact mem_dedup.mpr (List.mem_flatMap.mpr ⟨p, hp, (h.eq p x).mpr hx⟩)
    · have hi : (visit g (sol, false) b).1.i b' = sol.i b' := by
        simp only [visit, Sol.i]; exact getD_set_ne hbb _
      have ho : (visit g (sol, false) b).1.o b' = sol.o b' := by
        simp only [visit, Sol.o]; exact getD_set_ne hbb _
      rw [hi, ho]
      rcases List.mem_cons.mp hb' with rfl | hb'
      · exact absurd rfl hbb
      · exact h.dn b' hb' hlt

theorem foldl_dirty_mono (g : Graph) (order : List Nat) (st : Sol × Bool)
    (h : (order.foldl (visit g) st).2 = false) : st.2 = false := by
  induction order generalizing st with
  | nil => exact h
  | cons b rest ih =>
    have := ih _ h
    simp only [visit, Bool.or_eq_false_iff] at this
    exact this.1

theorem sweep_inv {g : Graph} {s0 : Sol} (order : List Nat) (sol : Sol) (d : Bool) (done : List Nat)
    (h : SweepInv g s0 sol done) (hd : (order.foldl (visit g) (sol, d)).2 = false) :
    SweepInv g s0 (order.foldl (visit g) (sol, d)).1 (order.reverse ++ done) := by
  induction order generalizing sol d done with
  | nil => simpa using h
  | cons b rest ih =>
    simp only [List.foldl_cons] at hd ⊢
    have h1 := foldl_dirty_mono g rest _ hd
    have hd0 : d = false := by
      simp only [visit, Bool.or_eq_false_iff] at h1
      exact h1.1
    subst hd0
    have hinv := visit_inv h b h1
    have hst : visit g (sol, false) b = ((visit g (sol, false) b).1, (visit g (sol, false) b).2) := rfl
    rw [hst] at hd ⊢
    have := ih _ _ (b :: done) hinv hd
    simpa [List.reverse_cons, List.append_assoc] using this

/-- facts preserved by every sweep whose order avoids the entry block -/
structure LoopInv (g : Graph) (sol : Sol) : Prop where
  len_i : sol.inp.length = g.blocks.length
  len_o : sol.out.length = g.blocks.length
  entry : sol.o g.entry = allUninit g

theorem visit_loopInv {g : Graph} {sol : Sol} {d : Bool} (h : LoopInv g sol) (b : Nat) (hb : b ≠ g.entry) :
    LoopInv g (visit g (sol, d) b).1 := by
  refine ⟨by simp [visit, h.len_i], by simp [visit, h.len_o], ?_⟩
  have : (visit g (sol, d) b).1.o g.entry = sol.o g.entry := by
    simp only [visit, Sol.o]; exact getD_set_ne hb _
  rw [this]; exact h.entry

theorem foldl_loopInv {g : Graph} (order : List Nat) (hne : g.entry ∉ order) (st : Sol × Bool)
    (h : LoopInv g st.1) : LoopInv g (order.foldl (visit g) st).1 := by
  induction order generalizing st with
  | nil => exact h
  | cons b rest ih =>
    simp only [List.foldl_cons]
    apply ih (fun hx => hne (List.mem_cons_of_mem _ hx))
    exact visit_loopInv h b (fun hb => hne (hb ▸ List.mem_cons_self))

/-- the loop stops only after a sweep that changed nothing -/
theorem solveLoop_some {g : Graph} {order : List Nat} (hne : g.entry ∉ order) (fuel : Nat) (sol sol' : Sol)
    (h : LoopInv g sol) (hs : solveLoop g order fuel sol = some sol') :
    ∃ s0, LoopInv g s0 ∧ sweep g order s0 = (sol', false) := by
  induction fuel generalizing sol with
  | zero => simp [solveLoop] at hs
  | succ n ih =>
    simp only [solveLoop] at hs
    by_cases hd : (sweep g order sol).2 = true
    · simp only [hd, if_true] at hs
      exact ih _ (foldl_loopInv order hne (sol, false) h) hs
    · simp only [hd, Bool.false_eq_true, if_false, Option.some.injEq] at hs
      refine ⟨sol, h, ?_⟩
      rw [← hs]
      have : (sweep g order sol).2 = false := by simpa using hd
      exact Prod.ext rfl this

theorem initSol_loopInv {g : Graph} (he : g.entry < g.blocks.length) : LoopInv g (initSol g) := by
  refine ⟨by simp [initSol], by simp [initSol], ?_⟩
  simp only [initSol, Sol.o]
  rw [List.getD_eq_getElem?_getD, List.getElem?_map, List.getElem?_range he]
  simp

end CyVerif.C21

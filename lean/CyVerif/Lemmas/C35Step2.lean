import CyVerif.Lemmas.C35Step
/-! `allocate` / `release` preserve `WF`; histories. -/
namespace CyVerif.C35

theorem wf_allocate {s : FS} (w : WF s) (ty : Ty) (m st r : Bool) : WF (allocate s ty m st r).1 := by
  unfold allocate
  simp only
  split
  · rename_i fl n h
    obtain ⟨_, hfl, hlast⟩ := reuseCandidate_some h
    exact wf_allocReuse w hfl hlast
  · apply wf_allocFresh w
    intro h
    split at h
    · assumption
    · cases h

/-- what a successful `release_temp` did -/
theorem release_ok {s s' : FS} {n : Nat} (h : release s n = .ok s') :
    ∃ k, aget s.usedType n = some k ∧
      n ∉ ((aget s.free k).getD ⟨[], []⟩).members ∧
      s' = { s with free := aset s.free k (FreeList.mk
        (if n ∈ s.zombies then ((aget s.free k).getD ⟨[], []⟩).order
          else ((aget s.free k).getD ⟨[], []⟩).order ++ [n])
        (((aget s.free k).getD ⟨[], []⟩).members ++ [n])) } := by
  unfold release at h
  split at h
  · cases h
  · rename_i k hk
    simp only at h
    split at h
    · cases h
    · rename_i hn
      cases h
      exact ⟨k, hk, hn, rfl⟩

theorem wf_release {s s' : FS} (w : WF s) {n : Nat} (h : release s n = .ok s') : WF s' := by
  obtain ⟨k, hk, hn, rfl⟩ := release_ok h
  -- the old free list of key k (empty if there was none) satisfies the per-list invariants
  generalize hfl0 : (aget s.free k).getD ⟨[], []⟩ = fl0 at hn
  have hmem : ∀ x ∈ fl0.members, ∃ t ∈ s.allocated, t.name = x ∧ t.key = k := by
    intro x hx; cases hg : aget s.free k with
    | none => rw [hg] at hfl0; simp at hfl0; subst hfl0; simp at hx
    | some fl => rw [hg] at hfl0; simp at hfl0; subst hfl0; exact w.members k _ hg x hx
  have hord : ∀ x ∈ fl0.order, x ∈ fl0.members ∧ x ∉ s.zombies := by
    intro x hx; cases hg : aget s.free k with
    | none => rw [hg] at hfl0; simp at hfl0; subst hfl0; simp at hx
    | some fl => rw [hg] at hfl0; simp at hfl0; subst hfl0; exact w.orderSub k _ hg x hx
  have hdead : ∀ x ∈ fl0.members, x ∉ fl0.order → x ∈ s.zombies := by
    intro x hx; cases hg : aget s.free k with
    | none => rw [hg] at hfl0; simp at hfl0; subst hfl0; simp at hx
    | some fl => rw [hg] at hfl0; simp at hfl0; subst hfl0; exact w.dead k _ hg x hx
  have hmnd : fl0.members.Nodup := by
    cases hg : aget s.free k with
    | none => rw [hg] at hfl0; simp at hfl0; subst hfl0; simp
    | some fl => rw [hg] at hfl0; simp at hfl0; subst hfl0; exact w.membersNodup k _ hg
  have hond : fl0.order.Nodup := by
    cases hg : aget s.free k with
    | none => rw [hg] at hfl0; simp at hfl0; subst hfl0; simp
    | some fl => rw [hg] at hfl0; simp at hfl0; subst hfl0; exact w.orderNodup k _ hg
  have hnames := w.usedOnly n k hk
  obtain ⟨t, ht, htn⟩ := mem_names.mp hnames
  have htk : t.key = k := by
    have := w.used t ht; rw [htn, hk] at this; exact (Option.some.inj this).symm
  have look : ∀ k' fl', aget (aset s.free k
        ⟨if n ∈ s.zombies then fl0.order else fl0.order ++ [n], fl0.members ++ [n]⟩) k' = some fl' →
      (k' = k ∧ fl' = ⟨if n ∈ s.zombies then fl0.order else fl0.order ++ [n], fl0.members ++ [n]⟩)
        ∨ (k' ≠ k ∧ aget s.free k' = some fl') := by
    intro k' fl' h
    by_cases e : k' = k
    · subst e; rw [aget_aset_self] at h; left; exact ⟨rfl, (Option.some.inj h).symm⟩
    · rw [aget_aset_ne _ _ e] at h; exact Or.inr ⟨e, h⟩
  constructor
  · exact w.namesNodup
  · exact w.bound
  · exact w.notTaken
  · exact w.used
  · exact w.usedOnly
  · exact keys_aset_nodup _ _ w.freeKeys
  · intro k' fl' h x hx
    rcases look k' fl' h with ⟨rfl, rfl⟩ | ⟨_, h'⟩
    · rcases List.mem_append.mp hx with hx | hx
      · exact hmem x hx
      · simp at hx; subst hx; exact ⟨t, ht, htn, htk⟩
    · exact w.members k' fl' h' x hx
  · intro k' fl' h x hx
    rcases look k' fl' h with ⟨rfl, rfl⟩ | ⟨_, h'⟩
    · simp only at hx ⊢
      split at hx
      · have := hord x hx; exact ⟨List.mem_append.mpr (Or.inl this.1), this.2⟩
      · rename_i hz
        rcases List.mem_append.mp hx with hx | hx
        · have := hord x hx; exact ⟨List.mem_append.mpr (Or.inl this.1), this.2⟩
        · simp at hx; subst hx; exact ⟨by simp, hz⟩
    · exact w.orderSub k' fl' h' x hx
  · intro k' fl' h x hx hno
    rcases look k' fl' h with ⟨rfl, rfl⟩ | ⟨_, h'⟩
    · simp only at hx hno
      rcases List.mem_append.mp hx with hx | hx
      · apply hdead x hx
        intro hxo; apply hno
        split
        · exact hxo
        · exact List.mem_append.mpr (Or.inl hxo)
      · simp at hx; subst hx
        split at hno
        · assumption
        · exact absurd (List.mem_append.mpr (Or.inr (by simp))) hno
    · exact w.dead k' fl' h' x hx hno
  · intro k' fl' h
    rcases look k' fl' h with ⟨rfl, rfl⟩ | ⟨_, h'⟩
    · exact List.nodup_append.mpr ⟨hmnd, by simp, by
        intro a ha b hb; simp at hb; subst hb; exact fun e => hn (e ▸ ha)⟩
    · exact w.membersNodup k' fl' h'
  · intro k' fl' h
    rcases look k' fl' h with ⟨rfl, rfl⟩ | ⟨_, h'⟩
    · simp only
      split
      · exact hond
      · exact List.nodup_append.mpr ⟨hond, by simp, by
          intro a ha b hb; simp at hb; subst hb; exact fun e => hn (e ▸ (hord a ha).1)⟩
    · exact w.orderNodup k' fl' h'
  · exact w.canonManage
  · exact w.zombiesSub

/-- operations of a history; a rejected `release` leaves the state as it was -/
inductive Op where
  | alloc (ty : Ty) (manage static reusable : Bool)
  | release (n : Nat)
  deriving DecidableEq, Repr

def FS.apply (s : FS) : Op → FS
  | .alloc ty m st r => (allocate s ty m st r).1
  | .release n => match release s n with
    | .ok s' => s'
    | .err _ => s

def FS.runOps (s : FS) (ops : List Op) : FS := ops.foldl FS.apply s

theorem wf_apply {s : FS} (w : WF s) (op : Op) : WF (s.apply op) := by
  cases op with
  | alloc ty m st r => exact wf_allocate w ty m st r
  | release n =>
    simp only [FS.apply]
    split
    · rename_i s' h; exact wf_release w h
    · exact w

theorem wf_runOps {s : FS} (w : WF s) (ops : List Op) : WF (s.runOps ops) := by
  induction ops generalizing s with
  | nil => exact w
  | cons op ops ih => exact ih (wf_apply w op)

/-- every state reachable from the initial one (any `names_taken`, any history) satisfies the invariant -/
theorem wf_run (taken : List Nat) (ops : List Op) : WF ((FS.init taken).runOps ops) :=
  wf_runOps (wf_init taken) ops

end CyVerif.C35

import CyVerif.Lemmas.C09Pool2
/-! C09 part B: the structural induction. -/
namespace CyVerif.C09

mutual
theorem node_sound (v : Variant) : ∀ (n1 n2 : Node) (k1 k2 : Key),
    n1.wf = true → n2.wf = true →
    (v.floatSign = true ∨ n1.noZeroFloat = true) →
    nodeKey v n1 = some k1 → nodeKey v n2 = some k2 → keyEq k1 k2 = true →
    ∃ x1 x2, evalNode n1 = some x1 ∧ evalNode n2 = some x2 ∧ same x1 x2 = true
  | .leaf t1 a1, n2, k1, k2, hw1, hw2, hz, h1, h2, he => by
    simp only [nodeKey, Option.some.injEq] at h1; subst h1
    cases n2 with
    | leaf t2 a2 =>
      simp only [nodeKey, Option.some.injEq] at h2; subst h2
      refine ⟨.atom a1, .atom a2, by simp [evalNode], by simp [evalNode], ?_⟩
      simp only [same]
      exact leaf_sound v t1 t2 a1 a2 (by simpa [Node.wf] using hw1) (by simpa [Node.wf] using hw2)
        (by simpa [Node.noZeroFloat] using hz) he
    | opq => simp [nodeKey] at h2
    | seq k m args =>
      simp only [nodeKey] at h2
      cases hk : nodeKeys v args with
      | none => simp [hk] at h2
      | some ks => simp [hk] at h2; subst h2; simp [leafKey, keyEq] at he
    | slice a b c =>
      simp only [nodeKey] at h2
      cases ha : nodeKey v a <;> cases hb : nodeKey v b <;> cases hc : nodeKey v c <;>
        simp [ha, hb, hc] at h2
      subst h2; simp [leafKey, keyEq] at he
  | .opq, _, _, _, _, _, _, h1, _, _ => by simp [nodeKey] at h1
  | .seq k m args, n2, k1, k2, hw1, hw2, hz, h1, h2, he => by
    simp only [nodeKey] at h1
    cases hk1 : nodeKeys v args with
    | none => simp [hk1] at h1
    | some ks1 =>
      simp [hk1] at h1; subst h1
      cases n2 with
      | leaf t2 a2 => simp only [nodeKey, Option.some.injEq] at h2; subst h2; simp [leafKey, keyEq] at he
      | opq => simp [nodeKey] at h2
      | seq k' m' args' =>
        simp only [nodeKey] at h2
        cases hk2 : nodeKeys v args' with
        | none => simp [hk2] at h2
        | some ks2 =>
          simp [hk2] at h2; subst h2
          simp only [keyEq, keyEqL, Bool.and_eq_true] at he
          obtain ⟨_, hm, hl⟩ := he
          obtain ⟨xs1, xs2, e1, e2, hs⟩ := nodes_sound v args args' ks1 ks2
            (by simpa [Node.wf] using hw1) (by simpa [Node.wf] using hw2)
            (by simpa [Node.noZeroFloat] using hz) hk1 hk2 hl
          rcases multKey_eq v m m' hm with ⟨rfl, rfl⟩ | ⟨t1, t2, n, rfl, rfl⟩
          · exact ⟨.tuple xs1, .tuple xs2, by simp [evalNode, e1], by simp [evalNode, e2], by simpa [same] using hs⟩
          · refine ⟨.tuple (repeatList xs1 n.toNat), .tuple (repeatList xs2 n.toNat),
              by simp [evalNode, e1], by simp [evalNode, e2], ?_⟩
            simp only [same]; exact sameL_repeat _ _ hs _
      | slice a b c =>
        simp only [nodeKey] at h2
        cases ha : nodeKey v a <;> cases hb : nodeKey v b <;> cases hc : nodeKey v c <;>
          simp [ha, hb, hc] at h2
        subst h2; simp [keyEq] at he
  | .slice a b c, n2, k1, k2, hw1, hw2, hz, h1, h2, he => by
    simp only [nodeKey] at h1
    cases ha : nodeKey v a with
    | none => simp [ha] at h1
    | some ka =>
    cases hb : nodeKey v b with
    | none => simp [ha, hb] at h1
    | some kb =>
    cases hc : nodeKey v c with
    | none => simp [ha, hb, hc] at h1
    | some kc =>
      simp [ha, hb, hc] at h1; subst h1
      simp only [Node.wf, Bool.and_eq_true] at hw1
      simp only [Node.noZeroFloat, Bool.and_eq_true] at hz
      cases n2 with
      | leaf t2 a2 => simp only [nodeKey, Option.some.injEq] at h2; subst h2; simp [leafKey, keyEq] at he
      | opq => simp [nodeKey] at h2
      | seq k' m' args' =>
        simp only [nodeKey] at h2
        cases hk2 : nodeKeys v args' with
        | none => simp [hk2] at h2
        | some ks2 => simp [hk2] at h2; subst h2; simp [keyEq] at he
      | slice a' b' c' =>
        simp only [nodeKey] at h2
        cases ha' : nodeKey v a' with
        | none => simp [ha'] at h2
        | some ka' =>
        cases hb' : nodeKey v b' with
        | none => simp [ha', hb'] at h2
        | some kb' =>
        cases hc' : nodeKey v c' with
        | none => simp [ha', hb', hc'] at h2
        | some kc' =>
          simp [ha', hb', hc'] at h2; subst h2
          simp only [Node.wf, Bool.and_eq_true] at hw2
          simp only [keyEq, keyEqL, Bool.and_eq_true] at he
          obtain ⟨_, hea, heb, hec, _⟩ := he
          obtain ⟨x1, x2, ex1, ex2, sx⟩ := node_sound v a a' ka ka' hw1.1.1 hw2.1.1
            (hz.elim Or.inl (fun h => Or.inr h.1.1)) ha ha' hea
          obtain ⟨y1, y2, ey1, ey2, sy⟩ := node_sound v b b' kb kb' hw1.1.2 hw2.1.2
            (hz.elim Or.inl (fun h => Or.inr h.1.2)) hb hb' heb
          obtain ⟨z1, z2, ez1, ez2, sz⟩ := node_sound v c c' kc kc' hw1.2 hw2.2
            (hz.elim Or.inl (fun h => Or.inr h.2)) hc hc' hec
          exact ⟨.slice x1 y1 z1, .slice x2 y2 z2, by simp [evalNode, ex1, ey1, ez1],
            by simp [evalNode, ex2, ey2, ez2], by simp [same, sx, sy, sz]⟩
theorem nodes_sound (v : Variant) : ∀ (l1 l2 : List Node) (ks1 ks2 : List Key),
    Node.wfs l1 = true → Node.wfs l2 = true →
    (v.floatSign = true ∨ Node.noZeroFloats l1 = true) →
    nodeKeys v l1 = some ks1 → nodeKeys v l2 = some ks2 → keyEqL ks1 ks2 = true →
    ∃ xs1 xs2, evalNodes l1 = some xs1 ∧ evalNodes l2 = some xs2 ∧ sameL xs1 xs2 = true
  | [], l2, ks1, ks2, _, _, _, h1, h2, he => by
    simp only [nodeKeys, Option.some.injEq] at h1; subst h1
    cases l2 with
    | nil => exact ⟨[], [], by simp [evalNodes], by simp [evalNodes], by simp [sameL]⟩
    | cons n ns =>
      simp only [nodeKeys] at h2
      cases hn : nodeKey v n <;> cases hns : nodeKeys v ns <;> simp [hn, hns] at h2
      subst h2; simp [keyEqL] at he
  | n :: ns, l2, ks1, ks2, hw1, hw2, hz, h1, h2, he => by
    simp only [nodeKeys] at h1
    cases hn : nodeKey v n with
    | none => simp [hn] at h1
    | some k =>
    cases hns : nodeKeys v ns with
    | none => simp [hn, hns] at h1
    | some ks =>
      simp [hn, hns] at h1; subst h1
      simp only [Node.wfs, Bool.and_eq_true] at hw1
      simp only [Node.noZeroFloats, Bool.and_eq_true] at hz
      cases l2 with
      | nil => simp only [nodeKeys, Option.some.injEq] at h2; subst h2; simp [keyEqL] at he
      | cons n' ns' =>
        simp only [nodeKeys] at h2
        cases hn' : nodeKey v n' with
        | none => simp [hn'] at h2
        | some k' =>
        cases hns' : nodeKeys v ns' with
        | none => simp [hn', hns'] at h2
        | some ks' =>
          simp [hn', hns'] at h2; subst h2
          simp only [Node.wfs, Bool.and_eq_true] at hw2
          simp only [keyEqL, Bool.and_eq_true] at he
          obtain ⟨x1, x2, ex1, ex2, sx⟩ := node_sound v n n' k k' hw1.1 hw2.1
            (hz.elim Or.inl (fun h => Or.inr h.1)) hn hn' he.1
          obtain ⟨xs1, xs2, exs1, exs2, sxs⟩ := nodes_sound v ns ns' ks ks' hw1.2 hw2.2
            (hz.elim Or.inl (fun h => Or.inr h.2)) hns hns' he.2
          exact ⟨x1 :: xs1, x2 :: xs2, by simp [evalNodes, ex1, exs1], by simp [evalNodes, ex2, exs2],
            by simp [sameL, sx, sxs]⟩
end

end CyVerif.C09

import CyVerif.Lemmas.C50DfaL
/-! Subset construction, part M: runs of the NFA, runs of the DFA, simulation; the action of a DFA state. -/
namespace CyVerif.C50
open CyVerif.C46 (Reach)

/-- `Run n s w u`: the NFA can go from state `s` to state `u` reading the symbols `w` (epsilon moves are free) -/
inductive Run (n : NFA) : Nat → List CurChar → Nat → Prop
  | refl (s : Nat) : Run n s [] s
  | eps {s t : Nat} {w : List CurChar} {u : Nat} : t ∈ n.eps s → Run n t w u → Run n s w u
  | sym {s t : Nat} {x : CurChar} {w : List CurChar} {u : Nat} : t ∈ n.delta s x → Run n t w u → Run n s (x :: w) u

/-- the deterministic machine: `none` is the blocked machine -/
def runDfa (d : Dfa) : Option Nat → List CurChar → Option Nat
  | none, _ => none
  | some q, [] => some q
  | some q, x :: w => runDfa d ((dstate d q).step x) w

theorem runDfa_none (d : Dfa) (w : List CurChar) : runDfa d none w = none := by
  cases w <;> rfl

theorem Run.of_reach {n : NFA} {s t u : Nat} {w : List CurChar} (h : Reach n.eps s t) (hr : Run n t w u) :
    Run n s w u := by
  induction h with
  | refl => exact hr
  | step hab _ ih => exact .eps hab (ih hr)

theorem Run.nil_reach {n : NFA} {s u : Nat} {w : List CurChar} (h : Run n s w u) (hw : w = []) : Reach n.eps s u := by
  induction h with
  | refl => exact .refl _
  | eps hst _ ih => exact .step hst (ih hw)
  | sym _ _ _ => cases hw

/-- the first symbol of a run is read after some epsilon moves -/
theorem Run.cons_split {n : NFA} {s u : Nat} {x : CurChar} {w w' : List CurChar} (h : Run n s w' u) (hw : w' = x :: w) :
    ∃ s' t, Reach n.eps s s' ∧ t ∈ n.delta s' x ∧ Run n t w u := by
  induction h with
  | refl => cases hw
  | eps hst _ ih =>
    obtain ⟨s', t, h1, h2, h3⟩ := ih hw
    exact ⟨s', t, .step hst h1, h2, h3⟩
  | @sym s t y w'' u hd hr _ =>
    simp only [List.cons.injEq] at hw
    obtain ⟨rfl, rfl⟩ := hw
    exact ⟨s, t, .refl _, hd, hr⟩

/-- **Simulation.** After any word of valid symbols the DFA is in the state whose key is exactly the set of
NFA states reachable by that word from the key of the start state (the empty set if the DFA is blocked). -/
theorem dfa_simulates {n : NFA} {sm : SMap} (inv : SMInv n sm sm.states.length) (w : List CurChar)
    (hw : ∀ x ∈ w, ValidSym x) :
    ∀ q, q < sm.states.length →
      (∀ q', runDfa sm.states (some q) w = some q' → q' < sm.states.length) ∧
      ∀ u, u ∈ sm.keyOf (runDfa sm.states (some q) w) ↔ ∃ s ∈ sm.key q, Run n s w u := by
  induction w with
  | nil =>
    intro q hq
    have hmem : sm.key q ∈ sm.keys := by
      unfold SMap.key
      rw [List.getElem?_eq_getElem (by rw [inv.len]; exact hq)]
      exact List.getElem_mem _
    refine ⟨fun q' h => (by simp only [runDfa, Option.some.injEq] at h; omega), fun u => ?_⟩
    simp only [runDfa, SMap.keyOf]
    constructor
    · intro hu; exact ⟨u, hu, .refl _⟩
    · rintro ⟨s, hs, hr⟩
      exact (inv.closed _ hmem).reach (hr.nil_reach rfl) hs
  | cons x w ih =>
    intro q hq
    have hmem : sm.key q ∈ sm.keys := by
      unfold SMap.key
      rw [List.getElem?_eq_getElem (by rw [inv.len]; exact hq)]
      exact List.getElem_mem _
    obtain ⟨tlt, tkey⟩ := inv.done q hq hq x (hw x (by simp))
    have ihw := ih (fun y hy => hw y (by simp [hy]))
    simp only [runDfa]
    cases hs : (dstate sm.states q).step x with
    | none =>
      rw [hs] at tkey
      refine ⟨fun q' h => (by rw [runDfa_none] at h; cases h), fun u => ?_⟩
      rw [runDfa_none]
      simp only [SMap.keyOf, List.not_mem_nil, false_iff]
      rintro ⟨s, hs', hr⟩
      obtain ⟨s', t, h1, h2, _⟩ := hr.cons_split rfl
      have : t ∈ sm.keyOf none := (tkey t).2 ⟨s', (inv.closed _ hmem).reach h1 hs', t, h2, .refl _⟩
      cases this
    | some q1 =>
      rw [hs] at tkey
      have hq1 := tlt q1 hs
      obtain ⟨a, b⟩ := ihw q1 hq1
      refine ⟨a, fun u => ?_⟩
      rw [b u]
      constructor
      · rintro ⟨s2, hs2, hr⟩
        obtain ⟨s, hs', t, ht, hreach⟩ := (tkey s2).1 hs2
        exact ⟨s, hs', .sym ht (Run.of_reach hreach hr)⟩
      · rintro ⟨s, hs', hr⟩
        obtain ⟨s', t, h1, h2, h3⟩ := hr.cons_split rfl
        exact ⟨t, (tkey t).2 ⟨s', (inv.closed _ hmem).reach h1 hs', t, h2, .refl _⟩, h3⟩

/-! ### the action of a new state -/

theorem hpa_fold (n : NFA) (S : List Nat) (a0 : Option Nat) (p0 : Int) :
    let r := S.foldl (fun (best : Option Nat × Int) s =>
      if (n.node s).prio > best.2 then ((n.node s).action, (n.node s).prio) else best) (a0, p0)
    (r = (a0, p0) ∧ ∀ s ∈ S, (n.node s).prio ≤ p0) ∨
    (∃ s ∈ S, r = ((n.node s).action, (n.node s).prio) ∧ (n.node s).prio > p0 ∧
      ∀ s' ∈ S, (n.node s').prio ≤ (n.node s).prio) := by
  induction S generalizing a0 p0 with
  | nil => left; simp
  | cons s ss ih =>
    simp only [List.foldl_cons]
    by_cases hgt : (n.node s).prio > p0
    · simp only [hgt, if_true]
      rcases ih (n.node s).action (n.node s).prio with ⟨h1, h2⟩ | ⟨s', hs', h1, h2, h3⟩
      · right
        refine ⟨s, by simp, h1, hgt, ?_⟩
        intro s'' hs''
        rcases List.mem_cons.1 hs'' with e | e
        · subst e; exact Int.le_refl _
        · exact h2 s'' e
      · right
        refine ⟨s', by simp [hs'], h1, by omega, ?_⟩
        intro s'' hs''
        rcases List.mem_cons.1 hs'' with e | e
        · subst e; omega
        · exact h3 s'' e
    · simp only [hgt, if_false]
      rcases ih a0 p0 with ⟨h1, h2⟩ | ⟨s', hs', h1, h2, h3⟩
      · left
        refine ⟨h1, ?_⟩
        intro s'' hs''
        rcases List.mem_cons.1 hs'' with e | e
        · subst e; omega
        · exact h2 s'' e
      · right
        refine ⟨s', by simp [hs'], h1, h2, ?_⟩
        intro s'' hs''
        rcases List.mem_cons.1 hs'' with e | e
        · subst e; omega
        · exact h3 s'' e

/-- `highest_priority_action`: `None` if no state of the set has a priority above `LOWEST_PRIORITY`,
otherwise the action of a state of maximal priority -/
theorem highestPriorityAction_spec (n : NFA) (S : SSet) :
    (highestPriorityAction n S = none ∧ ∀ s ∈ S, (n.node s).prio ≤ -maxint) ∨
    (∃ s ∈ S, highestPriorityAction n S = (n.node s).action ∧ (n.node s).prio > -maxint ∧
      ∀ s' ∈ S, (n.node s').prio ≤ (n.node s).prio) := by
  unfold highestPriorityAction
  rcases hpa_fold n S none (-maxint) with ⟨h1, h2⟩ | ⟨s, hs, h1, h2, h3⟩
  · left; exact ⟨by rw [h1], h2⟩
  · right; exact ⟨s, hs, by rw [h1], h2, h3⟩

end CyVerif.C50

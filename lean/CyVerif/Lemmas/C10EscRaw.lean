import CyVerif.Lemmas.C10EscFinal
/-! Raw literals: the builders receive the body unchanged. -/
namespace CyVerif.C10

theorem bytesSide_append (k : Kind) (a b ba bb : List Nat) (ha : bytesSide k (utf8Encode a) = .ok ba)
    (hb : bytesSide k (utf8Encode b) = .ok bb) : bytesSide k (utf8Encode (a ++ b)) = .ok (ba ++ bb) := by
  by_cases hk : k.hasBytes = true
  · rw [bytesSide_true k hk] at ha hb ⊢
    rw [utf8Encode_ok_iff] at ha hb
    rw [utf8Encode_ok_iff]
    refine ⟨by rw [List.all_append, ha.1, hb.1]; rfl, ?_⟩
    rw [List.flatMap_append, ha.2, hb.2]
  · simp only [bytesSide, hk] at ha hb ⊢
    injection ha with ha; injection hb with hb; subst ha; subst hb; rfl

theorem raw_step (P : LexP) (lk : Lookup) (k : Kind) (c : Nat) (rest : List Nat) (ch1 : Chunk) (rest1 : List Nat)
    (hs : cyStep P lk k true (c :: rest) = (.ok ch1, rest1)) :
    ∃ w, chStr k w true = .ok ch1 ∧ w ++ rest1 = c :: rest ∧ (k = .f → ∀ x ∈ w, x ≠ 123 ∧ x ≠ 125) := by
  simp only [cyStep] at hs
  by_cases h92 : c = 92
  · simp only [h92, if_true] at hs
    by_cases hr : rest = []
    · simp [hr] at hs
    · simp only [hr, if_false] at hs
      injection hs with hs1 hs2
      refine ⟨_, hs1, ?_, ?_⟩
      · rw [← hs2, h92]; simp [List.take_append_drop]
      · intro hkf x hx
        subst hkf
        simp only [if_true, List.mem_cons] at hx
        rcases hx with rfl | hx
        · decide
        · cases rest with
          | nil => simp at hx
          | cons d t =>
            simp only [rawEscLen] at hx
            split at hx
            · rename_i hd
              simp at hx; subst hx; omega
            · simp at hx
  · simp only [h92, if_false] at hs
    by_cases hbr : k = .f ∧ (c = 123 ∨ c = 125)
    · simp [hbr] at hs
    · simp only [hbr, if_false] at hs
      injection hs with hs1 hs2
      refine ⟨[c], hs1, by rw [hs2]; rfl, ?_⟩
      intro hkf x hx
      simp at hx; subst hx
      constructor <;> (intro e; exact hbr ⟨hkf, by simp [e]⟩)

/-- what a raw literal leaves in the builders -/
theorem raw_loop (P : LexP) (lk : Lookup) (k : Kind) (f1 : Nat) (body : List Nat) (ch : Chunk)
    (hcy : cyLoop P lk k true f1 body = .ok ch) :
    ch.nonfatal = false ∧ ch.us = (if k.hasText then body else []) ∧
    bytesSide k (utf8Encode body) = .ok ch.bs ∧
    ch.nonascii = body.any (fun c => decide (128 ≤ c)) ∧
    (k = .f → ∀ x ∈ body, x ≠ 123 ∧ x ≠ 125) := by
  refine cyLoop_induct P lk k true (fun body ch =>
    ch.nonfatal = false ∧ ch.us = (if k.hasText then body else []) ∧
    bytesSide k (utf8Encode body) = .ok ch.bs ∧
    ch.nonascii = body.any (fun c => decide (128 ≤ c)) ∧
    (k = .f → ∀ x ∈ body, x ≠ 123 ∧ x ≠ 125)) ?_ ?_ f1 body ch hcy
  · refine ⟨rfl, by simp, ?_, rfl, by simp⟩
    unfold bytesSide utf8Encode; split <;> rfl
  · intro c rest ch1 rest1 ch2 hs ⟨i1, i2, i3, i4, i5⟩
    obtain ⟨w, hw, hsplit, hbr⟩ := raw_step P lk k c rest ch1 rest1 hs
    obtain ⟨o1, o2, o3, o4⟩ := chStr_ok k w true ch1 hw
    rw [← hsplit]
    refine ⟨by simp [o2, i1], ?_, ?_, ?_, ?_⟩
    · simp only [app_us, o1, i2]; split <;> simp
    · exact bytesSide_append k w rest1 _ _ o4 i3
    · simp only [app_nonascii, o3, i4, Bool.true_and, List.any_append]
    · intro hkf x hx
      rw [List.mem_append] at hx
      rcases hx with hx | hx
      · exact hbr hkf x hx
      · exact i5 hkf x hx

end CyVerif.C10

import CyVerif.Lemmas.C05Top
/-!
The chunk loop of `__Pyx_LargePyLong_…` (Limited API / PyPy before Python 3.13).
-/
namespace CyVerif.C05

theorem shl_ok_int {t : CTy} {a : Int} {k s : Nat} (h0 : 0 ≤ a) (ha : a < two k) (hk : k + s ≤ t.cap)
    (hs : s < t.bits) : shl t a s = .ok (a * two s) := by
  have e : a = (a.toNat : Int) := (Int.toNat_of_nonneg h0).symm
  have hlt : a.toNat < 2 ^ k := by
    have : (a.toNat : Int) < ((2 ^ k : Nat) : Int) := by rw [← e]; exact ha
    exact Int.ofNat_lt.mp this
  rw [e, shl_ok hlt hk hs]
  unfold two; push_cast; rfl

theorem bor_low_high {a m i : Nat} (ha : a < 2 ^ i) :
    bor (a : Int) ((m * 2 ^ i : Nat) : Int) = .ok ((m * 2 ^ i + a : Nat) : Int) := by
  unfold bor
  rw [if_pos ⟨by omega, by omega⟩]
  simp only [Int.toNat_natCast]
  rw [Nat.or_comm, Nat.mul_comm m, ← Nat.two_pow_add_eq_or_of_lt ha m]

/-- canonical loop state after consuming `bits` low bits of `n` -/
def chunkState (n bits : Nat) : ChunkSt := ⟨bits, ((n / 2 ^ bits : Nat) : Int), ((n % 2 ^ bits : Nat) : Int)⟩

theorem chunkState_zero (t : CTy) (ht : 0 < t.bytes) (n : Nat) : (⟨0, (n : Int), cast t 0⟩ : ChunkSt) = chunkState n 0 := by
  have hp := two_pos (t.bits - 1)
  have h0 : cast t 0 = 0 := cast_of_inRange ht (by
    cases hs : t.signed with
    | true => rw [inRange_signed hs]; omega
    | false => rw [inRange_unsigned hs]; have := two_pos t.bits; omega)
  simp [chunkState, h0, Nat.mod_one]

section
variable {P : Plat} {ta t : CTy} {c : Nat}

/-- hypotheses on the chunk size and the arithmetic type shared by the loop lemmas -/
structure ChunkOK (P : Plat) (ta t : CTy) (c : Nat) : Prop where
  cpos : 0 < c
  clong : c + 2 ≤ P.tLong.bits
  lpos : 0 < P.longBytes
  tpos : 0 < t.bytes
  bits : t.bits ≤ ta.bits
  cap : t.cap ≤ ta.cap

theorem chunk_digit_ok (h : ChunkOK P ta t c) (m : Nat) :
    apiAs P.tLong (((m : Nat) : Int) % two c) = (((m % 2 ^ c : Nat) : Int), none) := by
  have e : ((m : Nat) : Int) % two c = ((m % 2 ^ c : Nat) : Int) := by unfold two; rw [Int.natCast_emod]
  have hlt : ((m % 2 ^ c : Nat) : Int) < two c := natCast_lt_two (Nat.mod_lt _ (Nat.two_pow_pos c))
  have hle : two c ≤ two (P.tLong.bits - 1) := two_le_two (by have := h.clong; omega)
  have hr : P.tLong.inRange ((m % 2 ^ c : Nat) : Int) := by
    rw [inRange_signed (by simp [Plat.tLong])]; omega
  rw [e]; exact apiAs_ok hr

theorem chunk_step (h : ChunkOK P ta t c) (n bits fuel : Nat) (hb : bits + c < t.bits) :
    chunkGo P ta t c (fuel + 1) (chunkState n bits) = chunkGo P ta t c fuel (chunkState n (bits + c)) := by
  have hcap : bits + c ≤ t.cap := by unfold CTy.cap; split <;> omega
  have hcond : ((chunkState n bits).bits : Int) < (t.bits : Int) - (c : Int) := by simp [chunkState]; omega
  have hd := chunk_digit_ok h (n / 2 ^ bits)
  have hdlt : (n / 2 ^ bits % 2 ^ c : Nat) < 2 ^ c := Nat.mod_lt _ (Nat.two_pow_pos c)
  have hdr : t.inRange ((n / 2 ^ bits % 2 ^ c : Nat) : Int) :=
    inRange_of_lt_cap (by omega) (Int.lt_of_lt_of_le (natCast_lt_two hdlt) (two_le_two (by omega)))
  have hshl : shl ta ((n / 2 ^ bits % 2 ^ c : Nat) : Int) bits = .ok (((n / 2 ^ bits % 2 ^ c) * 2 ^ bits : Nat) : Int) :=
    shl_ok hdlt (by have := h.cap; omega) (by have := h.bits; omega)
  have hbor := bor_low_high (a := n % 2 ^ bits) (m := n / 2 ^ bits % 2 ^ c) (i := bits) (Nat.mod_lt _ (Nat.two_pow_pos bits))
  have hval : (n / 2 ^ bits % 2 ^ c) * 2 ^ bits + n % 2 ^ bits = n % 2 ^ (bits + c) := by
    rw [Nat.pow_add, Nat.mod_mul, Nat.mul_comm]; omega
  have hvr : t.inRange ((n % 2 ^ (bits + c) : Nat) : Int) :=
    inRange_of_lt_cap (by omega) (Int.lt_of_lt_of_le (natCast_lt_two (Nat.mod_lt _ (Nat.two_pow_pos _))) (two_le_two hcap))
  have hsv : ((n / 2 ^ bits : Nat) : Int) / two c = ((n / 2 ^ (bits + c) : Nat) : Int) := by
    unfold two; rw [← Int.natCast_ediv, Nat.div_div_eq_div_mul, ← Nat.pow_add]
  conv => lhs; unfold chunkGo
  rw [if_pos hcond]
  simp only [chunkState] at hd ⊢
  simp only [hd]
  rw [if_neg (by omega), cast_of_inRange h.tpos hdr, hshl]
  simp only [hbor, hval, cast_of_inRange h.tpos hvr, hsv]

theorem chunkGo_spec (h : ChunkOK P ta t c) (n : Nat) :
    ∀ (fuel bits : Nat), bits < t.bits → t.bits + 1 ≤ fuel + bits →
      ∃ b, chunkGo P ta t c fuel (chunkState n bits) = .ok (.fin (chunkState n b)) ∧ b < t.bits ∧ t.bits ≤ b + c := by
  intro fuel
  induction fuel with
  | zero => intro bits h1 h2; omega
  | succ fuel ih =>
    intro bits h1 h2
    by_cases hb : bits + c < t.bits
    · rw [chunk_step h n bits fuel hb]
      have := h.cpos
      exact ih (bits + c) hb (by omega)
    · refine ⟨bits, ?_, h1, by omega⟩
      unfold chunkGo
      rw [if_neg (by simp [chunkState]; omega)]

end

/-- in range <-> the non-negative magnitude `n` (`v` or `~v`) is below `2^cap` -/
theorem inRange_iff_mag {t : CTy} {v : Int} (hv : t.signed = false → 0 ≤ v) :
    t.inRange v ↔ (if v < 0 then -v - 1 else v) < two t.cap := by
  have hp := two_pos (t.bits - 1)
  unfold CTy.cap
  cases hs : t.signed with
  | true => rw [inRange_signed hs]; simp only [if_true]; split <;> omega
  | false =>
    have := hv hs
    rw [inRange_unsigned hs]; simp only [Bool.false_eq_true, if_false]; rw [if_neg (by omega)]; omega

theorem testBit_small {x : Int} {k : Nat} (h0 : 0 ≤ x) (h : x < two k) : testBit x k = false := by
  unfold testBit; rw [Int.ediv_eq_zero_of_lt h0 h]; simp

section
variable {P : Plat} {ta t : CTy} {c : Nat}

theorem chunkLast_core (cfg : Cfg) (h : ChunkOK P ta t c) (hsb : t.signed = true → ∃ m, signBitMask cfg ta t = .ok m)
    (n b q r : Nat) (hb : b < t.bits) (hbc : t.bits ≤ b + c) (v : Int)
    (hn : (n : Int) = if v < 0 then -v - 1 else v) (hv : t.signed = false → 0 ≤ v)
    (hdiv : q < 2 ^ (t.cap - b) ↔ n < 2 ^ t.cap) (hsum : q * 2 ^ b + r = n) (hrlt : r < 2 ^ b) :
    ∃ res, chunkLast P cfg ta t (isUnsigned t) (decide (v < 0)) ⟨b, (q : Int), (r : Int)⟩ = .ok res ∧
      res.out t = spec t v := by
  have hp := two_pos (t.bits - 1)
  have hbits := two_bits h.tpos
  have hcapb : b ≤ t.cap := by unfold CTy.cap; split <;> omega
  have hrem : (t.bits : Int) - (b : Int) - (if isUnsigned t then 0 else 1) = ((t.cap - b : Nat) : Int) := by
    rw [isUnsigned_eq h.tpos]; unfold CTy.cap
    cases t.signed <;> simp <;> omega
  have hremc : t.cap - b ≤ c := by have := cap_le_bits t; omega
  have hir := inRange_iff_mag (t := t) hv
  rw [← hn] at hir
  have hcapN : (n : Int) < two t.cap ↔ n < 2 ^ t.cap := by unfold two; exact Int.ofNat_lt
  unfold chunkLast
  simp only
  by_cases hfit : P.tLong.inRange (q : Int)
  · -- PyLong_AsLong(stepval) succeeds
    simp only [apiAs_ok hfit]
    rw [if_neg (by omega), hrem, if_neg (by omega)]
    simp only [Int.toNat_natCast]
    have hlim : shl P.tLong 1 (t.cap - b) = .ok (two (t.cap - b)) := by
      have := shl_ok_int (t := P.tLong) (a := 1) (k := 1) (s := t.cap - b) (by omega) (by simp [two])
        (by have := h.clong; simp [CTy.cap, Plat.tLong] at *; omega) (by have := h.clong; omega)
      simpa using this
    simp only [hlim]
    have hge : ((q : Int) ≥ two (t.cap - b)) ↔ ¬ n < 2 ^ t.cap := by
      rw [← hdiv]; unfold two; rw [ge_iff_le, Int.ofNat_le]; exact Nat.not_lt.symm
    by_cases hin : n < 2 ^ t.cap
    · -- in range
      have hr : t.inRange v := hir.mpr (hcapN.mpr hin)
      rw [if_neg (by rw [hge]; simpa using hin)]
      have hq : q < 2 ^ (t.cap - b) := hdiv.mpr hin
      have hqr : t.inRange (q : Int) :=
        inRange_of_lt_cap (by omega) (Int.lt_of_lt_of_le (natCast_lt_two hq) (two_le_two (by omega)))
      have hshl : shl ta (q : Int) b = .ok ((q * 2 ^ b : Nat) : Int) :=
        shl_ok hq (by have := h.cap; omega) (by have := h.bits; omega)
      have hbor := bor_low_high (a := r) (m := q) (i := b) hrlt
      have hnr : t.inRange (n : Int) := inRange_of_lt_cap (by omega) (hcapN.mpr hin)
      simp only [cast_of_inRange h.tpos hqr, hshl, hbor, hsum, cast_of_inRange h.tpos hnr]
      rw [isUnsigned_eq h.tpos]
      cases hs : t.signed with
      | false =>
        have hv0 := hv hs
        have : (n : Int) = v := by rw [hn, if_neg (by omega)]
        simp [R.out, spec, this, hr]
      | true =>
        obtain ⟨m, hm⟩ := hsb hs
        have hcapS : t.cap = t.bits - 1 := by simp [CTy.cap, hs]
        have htb : testBit (n : Int) (t.bits - 1) = false :=
          testBit_small (by omega) (by rw [← hcapS]; exact hcapN.mpr hin)
        simp only [Bool.not_true, Bool.false_eq_true, if_false, hm, htb]
        refine ⟨_, rfl, ?_⟩
        by_cases hneg : v < 0
        · have : -(n : Int) - 1 = v := by rw [hn, if_pos hneg]; omega
          simp [hneg, this, cast_of_inRange h.tpos hr, R.out, spec, hr]
        · have : (n : Int) = v := by rw [hn, if_neg hneg]
          simp [hneg, this, R.out, spec, hr]
    · -- too large: idigit >= (1L << remaining_bits)
      have hr : ¬ t.inRange v := fun hh => hin (hcapN.mp (hir.mp hh))
      rw [if_pos (by rw [hge]; exact hin)]
      exact ⟨_, rfl, by simp [out_overflow, spec, hr]⟩
  · -- PyLong_AsLong(stepval) fails with OverflowError: the value is far out of range
    have hm1 : cast P.tLong (-1) = -1 := cast_neg_one_signed h.lpos (by simp [Plat.tLong])
    simp only [apiAs_fail hfit, hm1]
    rw [if_pos (by omega)]
    refine ⟨_, rfl, ?_⟩
    have hbig : ¬ n < 2 ^ t.cap := by
      intro hin
      apply hfit
      have hq : q < 2 ^ (t.cap - b) := hdiv.mpr hin
      have hle : two (t.cap - b) ≤ two (P.tLong.bits - 1) := two_le_two (by have := h.clong; omega)
      rw [inRange_signed (by simp [Plat.tLong])]
      have := natCast_lt_two hq
      have := two_pos (P.tLong.bits - 1)
      omega
    have hr : ¬ t.inRange v := fun hh => hbig (hcapN.mp (hir.mp hh))
    simp [R.out, spec, hr]

theorem chunkLast_spec (cfg : Cfg) (h : ChunkOK P ta t c) (hsb : t.signed = true → ∃ m, signBitMask cfg ta t = .ok m)
    (n b : Nat) (hb : b < t.bits) (hbc : t.bits ≤ b + c) (v : Int)
    (hn : (n : Int) = if v < 0 then -v - 1 else v) (hv : t.signed = false → 0 ≤ v) :
    ∃ r, chunkLast P cfg ta t (isUnsigned t) (decide (v < 0)) (chunkState n b) = .ok r ∧ r.out t = spec t v := by
  have hcapb : b ≤ t.cap := by unfold CTy.cap; split <;> omega
  have hdiv : n / 2 ^ b < 2 ^ (t.cap - b) ↔ n < 2 ^ t.cap := by
    rw [Nat.div_lt_iff_lt_mul (Nat.two_pow_pos b), ← Nat.pow_add]
    have : t.cap - b + b = t.cap := by omega
    rw [this]
  have hsum : (n / 2 ^ b) * 2 ^ b + n % 2 ^ b = n := by
    have := Nat.div_add_mod n (2 ^ b); rw [Nat.mul_comm]; omega
  exact chunkLast_core cfg h hsb n b _ _ hb hbc v hn hv hdiv hsum (Nat.mod_lt _ (Nat.two_pow_pos b))

end

/-- The chunk size `(sizeof(long) < 8) ? 30 : 62` leaves two spare bits in a `long` of at least 32 bits. -/
theorem chunk_size_ok {P : Plat} (h4 : 4 ≤ P.longBytes) :
    (if P.longBytes < 8 then 30 else 62) + 2 ≤ P.tLong.bits ∧ 0 < (if P.longBytes < 8 then 30 else 62) := by
  simp only [Plat.tLong, CTy.bits]; split <;> omega

theorem promote_bits {P : Plat} (t : CTy) : t.bits ≤ (P.promote t).bits ∧ t.cap ≤ (P.promote t).cap := by
  unfold Plat.promote
  by_cases h : t.bytes < P.intBytes
  · simp only [h, if_true, Plat.tInt, CTy.bits, CTy.cap]; split <;> omega
  · simp [h]

theorem signBitMask_ok {P : Plat} (cfg : Cfg) (t : CTy) (ht : 0 < t.bytes) (hs : t.signed = true)
    (hg : cfg.gccShift = true ∨ t.bytes < P.intBytes) : ∃ m, signBitMask cfg (P.promote t) t = .ok m := by
  unfold signBitMask
  by_cases hpr : t.bytes < P.intBytes
  · have hta : P.promote t = P.tInt := by simp [Plat.promote, hpr]
    have hne : ¬ ((P.promote t).signed = true ∧ (P.promote t).bits = t.bits) := by
      rw [hta]; simp [Plat.tInt, CTy.bits]; omega
    rw [if_neg hne, hta]
    have hp := two_pos (t.bits - 1)
    have h1 : cast t 1 = 1 := cast_of_inRange ht (by
      rw [inRange_signed hs]
      have : 2 * two 0 ≤ two (t.bits - 1) := two_double_le (by simp [CTy.bits]; omega)
      rw [two_zero] at this; omega)
    rw [h1]
    exact ⟨_, shl_ok_int (k := 1) (by omega) (by simp [two]) (by simp [CTy.cap, Plat.tInt, CTy.bits]; omega)
      (by simp [Plat.tInt, CTy.bits]; omega)⟩
  · have hta : P.promote t = t := by simp [Plat.promote, hpr]
    rcases hg with hg | hg
    · rw [hta]; simp [hs, hg]
    · exact absurd hg hpr

/-- The chunk-loop variant of `__Pyx_LargePyLong_…` is the specification (given a `long` of at least 32 bits,
a non-enum target, and gcc's semantics of `(T)1 << (bits-1)` when `T` is signed and not narrower than `int`). -/
theorem largeChunks_spec {P : Plat} (cfg : Cfg) {t : CTy} (ht : 0 < t.bytes) (h4 : 4 ≤ P.longBytes)
    (hg : t.signed = true → (cfg.gccShift = true ∨ t.bytes < P.intBytes)) (v : Int) :
    (largeChunks P cfg t false v).out t = spec t v := by
  obtain ⟨hc1, hc2⟩ := chunk_size_ok h4
  obtain ⟨hb1, hb2⟩ := promote_bits (P := P) t
  have hok : ChunkOK P (P.promote t) t (if P.longBytes < 8 then 30 else 62) :=
    ⟨hc2, hc1, by omega, ht, hb1, hb2⟩
  unfold largeChunks
  simp only [Bool.false_eq_true, if_false]
  by_cases hun : isUnsigned t = true ∧ decide (v < 0) = true
  · rw [if_pos hun]
    obtain ⟨hu, hneg⟩ := hun
    rw [isUnsigned_eq ht] at hu
    have hs : t.signed = false := by simpa using hu
    have hv : v < 0 := by simpa using hneg
    have hr : ¬ t.inRange v := by rw [inRange_unsigned hs]; omega
    simp [R.out, spec, hr]
  · rw [if_neg hun]
    have hv : t.signed = false → 0 ≤ v := by
      intro hs
      rw [isUnsigned_eq ht, hs] at hun
      simp at hun; exact hun
    -- the non-negative magnitude
    have hmag0 : 0 ≤ (if decide (v < 0) = true then -v - 1 else v) := by split <;> simp_all <;> omega
    obtain ⟨n, hn⟩ : ∃ n : Nat, (n : Int) = (if decide (v < 0) = true then -v - 1 else v) :=
      ⟨_, Int.toNat_of_nonneg hmag0⟩
    have hn' : (n : Int) = if v < 0 then -v - 1 else v := by rw [hn]; simp
    rw [← hn]
    have hone : shl P.tLong 1 (if P.longBytes < 8 then 30 else 62) = .ok (two (if P.longBytes < 8 then 30 else 62)) := by
      have := shl_ok_int (t := P.tLong) (a := 1) (k := 1) (s := (if P.longBytes < 8 then 30 else 62)) (by omega)
        (by simp [two]) (by simp [CTy.cap, Plat.tLong] at *; omega) (by omega)
      simpa using this
    have hsub : ∃ m, sub P.tLong (two (if P.longBytes < 8 then 30 else 62)) 1 = .ok m := by
      unfold sub
      have hle : two (if P.longBytes < 8 then 30 else 62) ≤ two (P.tLong.bits - 1) := two_le_two (by omega)
      have hp := two_pos (if P.longBytes < 8 then 30 else 62)
      have hr : P.tLong.inRange (two (if P.longBytes < 8 then 30 else 62) - 1) := by
        rw [inRange_signed (by simp [Plat.tLong])]; omega
      exact ⟨_, by rw [if_pos (by simp [Plat.tLong]), if_pos hr]⟩
    obtain ⟨m, hm⟩ := hsub
    simp only [hone, hm]
    rw [chunkState_zero t ht n]
    obtain ⟨b, hgo, hb, hbc⟩ := chunkGo_spec hok n (t.bits + 1) 0 (bits_pos ht) (by omega)
    simp only [hgo]
    obtain ⟨r, hlast, hout⟩ := chunkLast_spec cfg hok
      (fun hs => signBitMask_ok cfg t ht hs (hg hs)) n b hb hbc v hn' hv
    rw [hlast]
    simpa [ofE] using hout

theorem largeOK_chunks (P : Plat) (cfg : Cfg) (t : CTy) (ht : 0 < t.bytes) (hc : cfg.large = .chunks)
    (h4 : 4 ≤ P.longBytes) (hg : t.signed = true → (cfg.gccShift = true ∨ t.bytes < P.intBytes)) :
    LargeOK P cfg t false := by
  intro _ v; unfold large; rw [hc]; exact largeChunks_spec cfg ht h4 hg v

end CyVerif.C05

import CyVerif.Lemmas.C35Count
/-! Net refcount change of a balanced stream = the references given away. -/
namespace CyVerif.C35

def ind (x o : Nat) : Nat := if x = o then 1 else 0

def NEv.acqOf : NEv → Nat → Nat
  | .acquire x, o => ind x o
  | _, _ => 0
def NEv.gotOf : NEv → Nat → Nat
  | .gotref (some x) _, o => ind x o
  | .xgotref (some x) _, o => ind x o
  | _, _ => 0
def NEv.incOf : NEv → Nat → Nat
  | .incref (some x) _, o => ind x o
  | .xincref (some x) _, o => ind x o
  | _, _ => 0
def NEv.decOf : NEv → Nat → Nat
  | .decref (some x) _, o => ind x o
  | .xdecref (some x) _, o => ind x o
  | _, _ => 0
def NEv.giveOf : NEv → Nat → Nat
  | .giveref (some x) _, o => ind x o
  | .xgiveref (some x) _, o => ind x o
  | _, _ => 0

/-- new references received from callees -/
def acquires (es : List NEv) (o : Nat) : Nat := (es.map (·.acqOf o)).sum
def gotrefs (es : List NEv) (o : Nat) : Nat := (es.map (·.gotOf o)).sum
def increfs (es : List NEv) (o : Nat) : Nat := (es.map (·.incOf o)).sum
def decrefs (es : List NEv) (o : Nat) : Nat := (es.map (·.decOf o)).sum
/-- references handed to someone else (stolen by a container, returned) -/
def giverefs (es : List NEv) (o : Nat) : Nat := (es.map (·.giveOf o)).sum

theorem ev_reg (e : NEv) (o : Nat) : e.regOf o = e.gotOf o + e.incOf o := by
  cases e with
  | acquire x => simp [NEv.regOf, NEv.kind, NEv.gotOf, NEv.incOf]
  | gotref p l => cases p <;> simp [NEv.regOf, NEv.kind, NEv.gotOf, NEv.incOf, ind]
  | giveref p l => cases p <;> simp [NEv.regOf, NEv.kind, NEv.gotOf, NEv.incOf]
  | incref p l => cases p <;> simp [NEv.regOf, NEv.kind, NEv.gotOf, NEv.incOf, ind]
  | decref p l => cases p <;> simp [NEv.regOf, NEv.kind, NEv.gotOf, NEv.incOf]
  | xgotref p l => cases p <;> simp [NEv.regOf, NEv.kind, NEv.gotOf, NEv.incOf, ind]
  | xgiveref p l => cases p <;> simp [NEv.regOf, NEv.kind, NEv.gotOf, NEv.incOf]
  | xincref p l => cases p <;> simp [NEv.regOf, NEv.kind, NEv.gotOf, NEv.incOf, ind]
  | xdecref p l => cases p <;> simp [NEv.regOf, NEv.kind, NEv.gotOf, NEv.incOf]

theorem ev_del (e : NEv) (o : Nat) : e.delOf o = e.giveOf o + e.decOf o := by
  cases e with
  | acquire x => simp [NEv.delOf, NEv.kind, NEv.giveOf, NEv.decOf]
  | gotref p l => cases p <;> simp [NEv.delOf, NEv.kind, NEv.giveOf, NEv.decOf]
  | giveref p l => cases p <;> simp [NEv.delOf, NEv.kind, NEv.giveOf, NEv.decOf, ind]
  | incref p l => cases p <;> simp [NEv.delOf, NEv.kind, NEv.giveOf, NEv.decOf]
  | decref p l => cases p <;> simp [NEv.delOf, NEv.kind, NEv.giveOf, NEv.decOf, ind]
  | xgotref p l => cases p <;> simp [NEv.delOf, NEv.kind, NEv.giveOf, NEv.decOf]
  | xgiveref p l => cases p <;> simp [NEv.delOf, NEv.kind, NEv.giveOf, NEv.decOf, ind]
  | xincref p l => cases p <;> simp [NEv.delOf, NEv.kind, NEv.giveOf, NEv.decOf]
  | xdecref p l => cases p <;> simp [NEv.delOf, NEv.kind, NEv.giveOf, NEv.decOf, ind]

theorem ev_net (e : NEv) (o : Nat) : e.plus o - e.minus o = (e.acqOf o : Int) + e.incOf o - e.decOf o := by
  cases e with
  | acquire x => by_cases h : x = o <;> simp [NEv.plus, NEv.minus, NEv.kind, NEv.acqOf, NEv.incOf, NEv.decOf, ind, h]
  | gotref p l => cases p <;> simp [NEv.plus, NEv.minus, NEv.kind, NEv.acqOf, NEv.incOf, NEv.decOf]
  | giveref p l => cases p <;> simp [NEv.plus, NEv.minus, NEv.kind, NEv.acqOf, NEv.incOf, NEv.decOf]
  | incref p l =>
    cases p with
    | none => simp [NEv.plus, NEv.minus, NEv.kind, NEv.acqOf, NEv.incOf, NEv.decOf]
    | some x => by_cases h : x = o <;> simp [NEv.plus, NEv.minus, NEv.kind, NEv.acqOf, NEv.incOf, NEv.decOf, ind, h]
  | decref p l =>
    cases p with
    | none => simp [NEv.plus, NEv.minus, NEv.kind, NEv.acqOf, NEv.incOf, NEv.decOf]
    | some x => by_cases h : x = o <;> simp [NEv.plus, NEv.minus, NEv.kind, NEv.acqOf, NEv.incOf, NEv.decOf, ind, h]
  | xgotref p l => cases p <;> simp [NEv.plus, NEv.minus, NEv.kind, NEv.acqOf, NEv.incOf, NEv.decOf]
  | xgiveref p l => cases p <;> simp [NEv.plus, NEv.minus, NEv.kind, NEv.acqOf, NEv.incOf, NEv.decOf]
  | xincref p l =>
    cases p with
    | none => simp [NEv.plus, NEv.minus, NEv.kind, NEv.acqOf, NEv.incOf, NEv.decOf]
    | some x => by_cases h : x = o <;> simp [NEv.plus, NEv.minus, NEv.kind, NEv.acqOf, NEv.incOf, NEv.decOf, ind, h]
  | xdecref p l =>
    cases p with
    | none => simp [NEv.plus, NEv.minus, NEv.kind, NEv.acqOf, NEv.incOf, NEv.decOf]
    | some x => by_cases h : x = o <;> simp [NEv.plus, NEv.minus, NEv.kind, NEv.acqOf, NEv.incOf, NEv.decOf, ind, h]

theorem regs_eq (es : List NEv) (o : Nat) : regs es o = gotrefs es o + increfs es o := by
  induction es with
  | nil => simp [regs, gotrefs, increfs]
  | cons e es ih =>
    simp only [regs, gotrefs, increfs, List.map_cons, List.sum_cons] at ih ⊢
    rw [ih, ev_reg]; omega

theorem dels_eq (es : List NEv) (o : Nat) : dels es o = giverefs es o + decrefs es o := by
  induction es with
  | nil => simp [dels, giverefs, decrefs]
  | cons e es ih =>
    simp only [dels, giverefs, decrefs, List.map_cons, List.sum_cons] at ih ⊢
    rw [ih, ev_del]; omega

theorem netRc_eq (es : List NEv) (o : Nat) :
    netRc es o = (acquires es o : Int) + increfs es o - decrefs es o := by
  induction es with
  | nil => simp [netRc, acquires, increfs, decrefs]
  | cons e es ih =>
    simp only [netRc, acquires, increfs, decrefs, List.map_cons, List.sum_cons] at ih ⊢
    rw [ih, ev_net]; omega

/-- a balanced stream in which exactly the received references are `GOTREF`ed changes the
refcount of every object by the number of references it gave away -/
theorem delta_eq_given {es : List NEv} (h : Balanced es) (o : Nat) (ha : acquires es o = gotrefs es o) :
    delta es o = giverefs es o := by
  rw [delta_of_balanced h, netRc_eq]
  have := ((balanced_iff es).mp h).2.2 o
  rw [regs_eq, dels_eq] at this
  omega

end CyVerif.C35

import CyVerif.Lemmas.C40PyOps
/-! C40: every value an expression evaluates to conforms to the expression's static type
(by construction of the evaluator: C results are range-checked, builtin-type claims are checked). -/
namespace CyVerif.C40

variable {F : Type}

/-- C-typed variables hold conforming values -/
def Inv (Γ : Nat → Ty) (σ : Store F) : Prop :=
  ∀ v x, σ v = some x → (tyOf Γ v).isPyObject = false → conf (tyOf Γ v) x

theorem tyOut_ok {α : Type} {t : Option α} {x : α} (h : tyOut t = .ok x) : t = some x := by
  cases t <;> simp [tyOut] at h; exact congrArg some h

theorem nameTy_c {Γ : Nat → Ty} {nt : Nat → Option Ty} {v id : Nat} (h : (nameTy Γ nt v id).isPyObject = false) :
    nameTy Γ nt v id = tyOf Γ v ∧ npar ≤ v := by
  unfold nameTy at h ⊢
  unfold tyOf
  split at h
  · simp [Ty.isPyObject] at h
  · rename_i hv
    split at h
    · rename_i hp
      split at h
      · split at h
        · rename_i t _ hb
          cases t <;> simp [Ty.isBuiltin] at hb <;> simp [Ty.isPyObject] at h
        · rw [hp] at h; cases h
      · rw [hp] at h; cases h
    · rename_i hp
      simp [hv, hp]; omega

theorem cBin_conf {fo : FOps F} {op : BinOp} {ip : Bool} {t : Ty} {a b v : Val F}
    {tl : Ty} (h : cBin fo op ip tl t a b = .ok v) : conf t v := by
  unfold cBin at h
  split at h
  · rename_i ht
    split at h
    · cases op <;> simp only at h
      all_goals repeat' split at h
      all_goals first | exact mkInt_conf ht h | cases h
    · cases h
  · split at h
    · rename_i htd
      subst htd
      obtain ⟨x, _, h⟩ := Out.bind_eq_ok h
      obtain ⟨y, _, h⟩ := Out.bind_eq_ok h
      split at h
      · cases h
      · obtain ⟨z, rfl⟩ := pyFloatBin_flt h; exact ⟨z, rfl⟩
    · cases h

theorem binSem_conf {fo : FOps F} {op : BinOp} {ip : Bool} {ta tb t : Ty} {a b v : Val F}
    (h : binSem fo op ip ta tb (some t) a b = .ok v) : conf t v := by
  unfold binSem at h
  simp only at h
  split at h
  · obtain ⟨r, _, h⟩ := Out.bind_eq_ok h
    exact fromPy_conf h
  · exact cBin_conf h

/-- the static result type of a unary operator, as in `aty` -/
def unATy (op : UnOp) (t : Ty) : Ty :=
  if op = .not then .bint
  else if t.isPyObject then (if t.isBuiltin then t else .obj)
  else if t.isInt then widest t .cint
  else t

theorem aty_un {Γ : Nat → Ty} {nt : Nat → Option Ty} {op : UnOp} {a : Expr} {ta : Ty}
    (h : aty Γ nt a = some ta) : aty Γ nt (.un op a) = some (unATy op ta) := by
  simp only [aty, h, unATy]
  split
  · rfl
  · split
    · split <;> rfl
    · split <;> rfl

theorem unSem_conf {fo : FOps F} {op : UnOp} {ta : Ty} {a v : Val F}
    (h : unSem fo op ta a = .ok v) : conf (unATy op ta) v := by
  unfold unSem at h
  unfold unATy
  split at h
  · rename_i hop; simp [hop]; cases h; exact ⟨_, rfl⟩
  · rename_i hop
    simp only [hop, if_false]
    split at h
    · rename_i hp
      simp only [hp, if_true]
      obtain ⟨r, _, h⟩ := Out.bind_eq_ok h
      exact fromPy_conf h
    · rename_i hp
      simp only [hp]
      split at h
      · cases h
      · rename_i hu
        split at h
        · rename_i hi
          simp only [hi, if_true, Bool.false_eq_true, if_false]
          have hw : (widest ta .cint).isCIntArith = true := by
            cases ta <;> simp [Ty.isInt] at hi <;> first | rfl | exact absurd rfl hu
          split at h
          · cases op <;> simp only at h
            · exact mkInt_conf hw h
            · exact mkInt_conf hw h
            · exact mkInt_conf hw h
            · cases h
          · cases h
        · rename_i hi
          simp only [hi, Bool.false_eq_true, if_false]
          split at h
          · rename_i hd; subst hd
            cases op <;> simp only at h
            · obtain ⟨x, _, h⟩ := Out.bind_eq_ok h; cases h; exact ⟨_, rfl⟩
            · obtain ⟨x, _, h⟩ := Out.bind_eq_ok h; cases h; exact ⟨_, rfl⟩
            · cases h
            · cases h
          · cases h

def cmpATy (op : CmpOp) (ta tb : Ty) : Ty :=
  if op = .is_ ∨ op = .isnot then .bint
  else if ta.isNumeric ∧ tb.isNumeric ∧ ta ≠ .ucs4 ∧ tb ≠ .ucs4 then .bint
  else .obj

theorem aty_cmp {Γ : Nat → Ty} {nt : Nat → Option Ty} {op : CmpOp} {a b : Expr} {ta tb : Ty}
    (ha : aty Γ nt a = some ta) (hb : aty Γ nt b = some tb) :
    aty Γ nt (.cmp op a b) = some (cmpATy op ta tb) := by
  simp only [aty, ha, hb, cmpATy]
  split
  · rfl
  · split <;> rfl

theorem pyCmp_is_bool {fo : FOps F} {op : CmpOp} {a b v : Val F} (hop : op = .is_ ∨ op = .isnot)
    (h : pyCmp fo op a b = .ok v) : ∃ x, v = .bool x := by
  rcases hop with rfl | rfl <;> cases b <;> simp only [pyCmp] at h <;>
    first | (cases h; exact ⟨_, rfl⟩) | cases h

theorem cmpSem_conf {fo : FOps F} {op : CmpOp} {ta tb : Ty} {a b v : Val F}
    (h : cmpSem fo op ta tb a b = .ok v) : conf (cmpATy op ta tb) v := by
  unfold cmpSem at h
  unfold cmpATy
  split at h
  · rename_i hop
    simp only [hop, if_true]
    split at h
    · exact pyCmp_is_bool hop h
    · cases h; exact ⟨_, rfl⟩
  · rename_i hop
    simp only [hop, if_false]
    split at h
    · rename_i hc
      have hc' : ta.isNumeric ∧ tb.isNumeric ∧ ta ≠ .ucs4 ∧ tb ≠ .ucs4 := by
        simpa [cCompare] using hc
      rw [if_pos hc']
      split at h
      · split at h
        · cases h; exact ⟨_, rfl⟩
        · cases h
      · split at h
        · cases h
        · obtain ⟨x, _, h⟩ := Out.bind_eq_ok h
          obtain ⟨y, _, h⟩ := Out.bind_eq_ok h
          cases h; exact ⟨_, rfl⟩
    · rename_i hc
      have hc' : ¬(ta.isNumeric ∧ tb.isNumeric ∧ ta ≠ .ucs4 ∧ tb ≠ .ucs4) := by
        simpa [cCompare] using hc
      rw [if_neg hc']
      trivial

theorem lenSem_conf {ta : Ty} {a v : Val F} (h : lenSem ta a = .ok v) : conf .cssize v := by
  unfold lenSem at h
  split at h
  · cases a <;> simp only [pyLen] at h
    all_goals first
      | cases h
      | (split at h
         · cases h
         · rename_i hn
           cases h
           refine ⟨_, rfl, ?_⟩
           simp [inRange, ssizeMax] at hn ⊢
           omega)
  · cases h

theorem absSem_conf {fo : FOps F} {ta t : Ty} {a v : Val F} (ht : absType (some ta) = some t)
    (h : absSem fo ta a = .ok v) : conf t v := by
  unfold absSem at h
  cases ta <;> simp only [absType] at ht <;> cases ht <;> simp only at h
  all_goals first
    | (obtain ⟨r, _, h⟩ := Out.bind_eq_ok h; exact fromPy_conf h)
    | (split at h
       · exact mkInt_conf rfl h
       · cases h)
    | (obtain ⟨x, _, h⟩ := Out.bind_eq_ok h; cases h; exact ⟨_, rfl⟩)
    | cases h

theorem idxSem_conf {fo : FOps F} {ta t : Ty} {a i v : Val F}
    (h : idxSem fo ta (some t) a i = .ok v) : conf t v := by
  unfold idxSem at h
  split at h
  · simp only at h
    obtain ⟨r, _, h⟩ := Out.bind_eq_ok h
    exact fromPy_conf h
  · cases h

theorem readVar_conf {fo : FOps F} {Γ : Nat → Ty} {nt : Nat → Option Ty} {σ : Store F} {v id : Nat} {x : Val F}
    (hinv : Inv Γ σ) (h : readVar fo Γ (nameTy Γ nt v id) σ v = .ok x) : conf (nameTy Γ nt v id) x := by
  unfold readVar at h
  split at h
  · rename_i y hy
    split at h
    · exact fromPy_conf h
    · rename_i hb
      cases h
      cases hp : (nameTy Γ nt v id).isPyObject
      · obtain ⟨he, _⟩ := nameTy_c hp
        rw [he]
        exact hinv v x hy (by rw [← he]; exact hp)
      · -- a non-builtin Python object type is `object`
        generalize nameTy Γ nt v id = t at hb hp ⊢
        cases t <;> simp [Ty.isBuiltin] at hb <;> simp [Ty.isPyObject] at hp
        trivial
  · split at h <;> cases h

/-- every value conforms to the static type of the expression it comes from -/
theorem evalE_conf {fo : FOps F} {Γ : Nat → Ty} {nt : Nat → Option Ty} {σ : Store F} (hinv : Inv Γ σ)
    {e : Expr} {v : Val F} {t : Ty} (h : evalE fo Γ nt σ e = .ok v) (ht : aty Γ nt e = some t) : conf t v := by
  cases e with
  | int n =>
    simp only [evalE] at h; cases h
    simp only [aty] at ht
    split at ht
    · cases ht; exact Or.inl ⟨n, rfl⟩
    · rename_i hl
      cases ht
      refine ⟨n, rfl, ?_⟩
      simp [isLongLiteral] at hl
      simp [inRange]; omega
  | flt b => simp only [evalE] at h; cases h; simp only [aty] at ht; cases ht; exact ⟨_, rfl⟩
  | bool b => simp only [evalE] at h; cases h; simp only [aty] at ht; cases ht; exact ⟨_, rfl⟩
  | str cs => simp only [evalE] at h; cases h; simp only [aty] at ht; cases ht; exact Or.inl ⟨_, rfl⟩
  | none => simp only [evalE] at h; cases h; simp only [aty] at ht; cases ht; trivial
  | typed t' => simp only [evalE] at h; cases h
  | next a => simp only [evalE] at h; cases h
  | name x id =>
    simp only [evalE] at h
    simp only [aty] at ht; cases ht
    exact readVar_conf hinv h
  | bin op ip a b =>
    simp only [evalE] at h
    obtain ⟨va, _, h⟩ := Out.bind_eq_ok h
    obtain ⟨vb, _, h⟩ := Out.bind_eq_ok h
    unfold binNode at h
    obtain ⟨ta, hta, h⟩ := Out.bind_eq_ok h
    obtain ⟨tb, htb, h⟩ := Out.bind_eq_ok h
    simp only [aty, tyOut_ok hta, tyOut_ok htb] at ht
    rw [ht] at h
    exact binSem_conf h
  | un op a =>
    simp only [evalE] at h
    obtain ⟨va, _, h⟩ := Out.bind_eq_ok h
    obtain ⟨ta, hta, h⟩ := Out.bind_eq_ok h
    rw [aty_un (tyOut_ok hta)] at ht; cases ht
    exact unSem_conf h
  | cmp op a b =>
    simp only [evalE] at h
    obtain ⟨va, _, h⟩ := Out.bind_eq_ok h
    obtain ⟨vb, _, h⟩ := Out.bind_eq_ok h
    obtain ⟨ta, hta, h⟩ := Out.bind_eq_ok h
    obtain ⟨tb, htb, h⟩ := Out.bind_eq_ok h
    rw [aty_cmp (tyOut_ok hta) (tyOut_ok htb)] at ht; cases ht
    exact cmpSem_conf h
  | call a => simp only [aty] at ht; cases ht; trivial
  | len a =>
    simp only [evalE] at h
    obtain ⟨va, _, h⟩ := Out.bind_eq_ok h
    obtain ⟨ta, hta, h⟩ := Out.bind_eq_ok h
    simp only [aty] at ht; cases ht
    exact lenSem_conf h
  | abs a =>
    simp only [evalE] at h
    obtain ⟨va, _, h⟩ := Out.bind_eq_ok h
    obtain ⟨ta, hta, h⟩ := Out.bind_eq_ok h
    simp only [aty, tyOut_ok hta] at ht
    exact absSem_conf ht h
  | idx a b =>
    simp only [evalE] at h
    obtain ⟨va, _, h⟩ := Out.bind_eq_ok h
    obtain ⟨vb, _, h⟩ := Out.bind_eq_ok h
    obtain ⟨ta, hta, h⟩ := Out.bind_eq_ok h
    simp only [aty, tyOut_ok hta] at ht
    rw [ht] at h
    exact idxSem_conf h

end CyVerif.C40

import CyVerif.Lemmas.C09Pool
/-! C09 part B: equal keys ⇒ indistinguishable values, for nodes and lists of nodes. -/
namespace CyVerif.C09

mutual
/-- a node that has a key has a determined run-time value -/
theorem key_eval (v : Variant) : ∀ (n : Node) (k : Key), nodeKey v n = some k → ∃ x, evalNode n = some x
  | .leaf t a, _, _ => ⟨.atom a, by simp [evalNode]⟩
  | .opq, _, h => by simp [nodeKey] at h
  | .seq k m args, _, h => by
    simp only [nodeKey] at h
    cases hk : nodeKeys v args with
    | none => simp [hk] at h
    | some ks =>
      obtain ⟨xs, hxs⟩ := keys_eval v args ks hk
      simp [evalNode, hxs]
  | .slice a b c, _, h => by
    simp only [nodeKey] at h
    cases ha : nodeKey v a with
    | none => simp [ha] at h
    | some ka =>
      cases hb : nodeKey v b with
      | none => simp [ha, hb] at h
      | some kb =>
        cases hc : nodeKey v c with
        | none => simp [ha, hb, hc] at h
        | some kc =>
          obtain ⟨x, hx⟩ := key_eval v a ka ha
          obtain ⟨y, hy⟩ := key_eval v b kb hb
          obtain ⟨z, hz⟩ := key_eval v c kc hc
          simp [evalNode, hx, hy, hz]
theorem keys_eval (v : Variant) : ∀ (l : List Node) (ks : List Key), nodeKeys v l = some ks →
    ∃ xs, evalNodes l = some xs
  | [], _, _ => ⟨[], by simp [evalNodes]⟩
  | n :: ns, _, h => by
    simp only [nodeKeys] at h
    cases hn : nodeKey v n with
    | none => simp [hn] at h
    | some k =>
      cases hns : nodeKeys v ns with
      | none => simp [hn, hns] at h
      | some ks' =>
        obtain ⟨x, hx⟩ := key_eval v n k hn
        obtain ⟨xs, hxs⟩ := keys_eval v ns ks' hns
        simp [evalNodes, hx, hxs]
end

theorem multKey_eq (v : Variant) (m1 m2 : Option (LTag × Int))
    (h : keyEq (multKey v m1) (multKey v m2) = true) :
    (m1 = none ∧ m2 = none) ∨ (∃ t1 t2 n, m1 = some (t1, n) ∧ m2 = some (t2, n)) := by
  cases m1 with
  | none =>
    cases m2 with
    | none => left; exact ⟨rfl, rfl⟩
    | some p => obtain ⟨t, n⟩ := p; simp [multKey, absentKey, leafKey, keyEq, pyEqAtom] at h
  | some p =>
    obtain ⟨t1, n1⟩ := p
    cases m2 with
    | none => simp [multKey, absentKey, leafKey, keyEq, pyEqAtom] at h
    | some q =>
      obtain ⟨t2, n2⟩ := q
      simp only [multKey, leafKey, keyEq, pyEqAtom, Bool.and_eq_true, beq_iff_eq] at h
      right; exact ⟨t1, t2, n1, rfl, by rw [h.1.1.2]⟩

end CyVerif.C09

import CyVerif.Lemmas.C33Round
/-! # C33 — main induction: `fromPy (toPy c) = c` -/
namespace CyVerif.C33

theorem toPyL_length (m : Mode) : ∀ (ts : List Ty) (cs : List CVal) (ps : List PyVal),
    toPyL m ts cs = .ok ps → ps.length = ts.length
  | [], _, ps, h => by simp [toPyL] at h; subst h; rfl
  | _ :: _, [], ps, h => by simp [toPyL] at h
  | t :: ts, c :: cs, ps, h => by
    simp only [toPyL, bind, Except.bind] at h
    cases h1 : toPy m t c with
    | error e => rw [h1] at h; simp at h
    | ok p =>
      rw [h1] at h
      cases h2 : toPyL m ts cs with
      | error e => rw [h2] at h; simp at h
      | ok ps' =>
        rw [h2] at h; simp at h; subst h
        simp [toPyL_length m ts cs ps' h2]

mutual
theorem fromPy_toPy_aux (m : Mode) : ∀ (t : Ty) (c : CVal), WF m t c →
    ∃ p, toPy m t c = .ok p ∧ fromPy m t p = .ok c
  | .int w sg, c, h => by
    cases c <;> simp [WF] at h
    rename_i n
    exact ⟨.int n, by simp [toPy], by simp [fromPy, intLeaf, h, bind, Except.bind]⟩
  | .dbl, c, h => by
    cases c <;> simp [WF] at h
    rename_i b
    exact ⟨.float b, by simp [toPy], by simp [fromPy, dblLeaf, bind, Except.bind]⟩
  | .bool, c, h => by
    cases c <;> simp [WF] at h
    rename_i b
    exact ⟨.bool b, by simp [toPy], by simp [fromPy, truthy]⟩
  | .str, c, h => by
    cases c <;> simp [WF] at h
    rename_i b
    obtain ⟨p, h1, h2⟩ := str_roundtrip m b h
    exact ⟨p, by simp [toPy, h1], by simp [fromPy, h2, bind, Except.bind]⟩
  | .cstr, c, h => by
    cases c <;> simp [WF] at h
    rename_i b
    obtain ⟨p, h1, h2⟩ := str_roundtrip m b h.1
    exact ⟨p, by simp [toPy, h.2, h1], by simp [fromPy, h2, h.2, bind, Except.bind]⟩
  | .cplx, c, h => by
    cases c <;> simp [WF] at h
    rename_i re im
    exact ⟨.cplx re im, by simp [toPy], by simp [fromPy, cplxLeaf, bind, Except.bind]⟩
  | .pair a b, c, h => by
    cases c <;> simp [WF] at h
    rename_i x y
    obtain ⟨px, hx1, hx2⟩ := fromPy_toPy_aux m a x h.1
    obtain ⟨py, hy1, hy2⟩ := fromPy_toPy_aux m b y h.2
    exact ⟨.tuple [px, py], by simp [toPy, hx1, hy1, bind, Except.bind],
      by simp [fromPy, iterate, hx2, hy2, bind, Except.bind]⟩
  | .vec t, c, h => by
    cases c <;> simp [WF] at h
    rename_i cs
    obtain ⟨ps, h1, h2⟩ := mapR_roundtrip (toPy m t) (fromPy m t) cs (fun c hc => fromPy_toPy_aux m t c (h c hc))
    exact ⟨.list ps, by simp [toPy, h1, bind, Except.bind], by simp [fromPy, iterate, h2, bind, Except.bind]⟩
  | .lst t, c, h => by
    cases c <;> simp [WF] at h
    rename_i cs
    obtain ⟨ps, h1, h2⟩ := mapR_roundtrip (toPy m t) (fromPy m t) cs (fun c hc => fromPy_toPy_aux m t c (h c hc))
    exact ⟨.list ps, by simp [toPy, h1, bind, Except.bind], by simp [fromPy, iterate, h2, bind, Except.bind]⟩
  | .set t, c, h => by
    cases c <;> simp [WF] at h
    rename_i cs
    obtain ⟨ps, h1, h2⟩ := mapR_roundtrip_hash (toPy m t) (fromPy m t) cs (fun c hc => by
      obtain ⟨p, hp1, hp2⟩ := fromPy_toPy_aux m t c (h.2.1 c hc)
      exact ⟨p, hp1, hp2, keyTy_hashable m t c p h.1 hp1⟩)
    simp only [bind, Except.bind] at h1 h2
    exact ⟨.set ps, by simp [toPy, h1, bind, Except.bind],
      by simp [fromPy, iterate, h2, foldSet_sorted cs h.2.2, bind, Except.bind]⟩
  | .uset t, c, h => by
    cases c <;> simp [WF] at h
    rename_i cs
    obtain ⟨ps, h1, h2⟩ := mapR_roundtrip_hash (toPy m t) (fromPy m t) cs (fun c hc => by
      obtain ⟨p, hp1, hp2⟩ := fromPy_toPy_aux m t c (h.2.1 c hc)
      exact ⟨p, hp1, hp2, keyTy_hashable m t c p h.1 hp1⟩)
    simp only [bind, Except.bind] at h1 h2
    exact ⟨.set ps, by simp [toPy, h1, bind, Except.bind],
      by simp [fromPy, iterate, h2, foldSet_sorted cs h.2.2, bind, Except.bind]⟩
  | .map k v, c, h => by
    cases c <;> simp [WF] at h
    rename_i kvs
    obtain ⟨ps, h1, h2⟩ := mapR_roundtrip_kv (toPy m k) (toPy m v) (fromPy m k) (fromPy m v) kvs (fun kv hkv => by
      obtain ⟨pk, hk1, hk2⟩ := fromPy_toPy_aux m k kv.1 (h.2.1 kv.1 kv.2 hkv).1
      obtain ⟨pv, hv1, hv2⟩ := fromPy_toPy_aux m v kv.2 (h.2.1 kv.1 kv.2 hkv).2
      exact ⟨pk, pv, hk1, hv1, hk2, hv2, keyTy_hashable m k kv.1 pk h.1 hk1⟩)
    simp only [bind, Except.bind] at h1 h2
    exact ⟨.dict ps, by simp [toPy, h1, bind, Except.bind],
      by simp [fromPy, items, h2, foldMap_sorted kvs h.2.2, bind, Except.bind]⟩
  | .umap k v, c, h => by
    cases c <;> simp [WF] at h
    rename_i kvs
    obtain ⟨ps, h1, h2⟩ := mapR_roundtrip_kv (toPy m k) (toPy m v) (fromPy m k) (fromPy m v) kvs (fun kv hkv => by
      obtain ⟨pk, hk1, hk2⟩ := fromPy_toPy_aux m k kv.1 (h.2.1 kv.1 kv.2 hkv).1
      obtain ⟨pv, hv1, hv2⟩ := fromPy_toPy_aux m v kv.2 (h.2.1 kv.1 kv.2 hkv).2
      exact ⟨pk, pv, hk1, hv1, hk2, hv2, keyTy_hashable m k kv.1 pk h.1 hk1⟩)
    simp only [bind, Except.bind] at h1 h2
    exact ⟨.dict ps, by simp [toPy, h1, bind, Except.bind],
      by simp [fromPy, items, h2, foldMap_sorted kvs h.2.2, bind, Except.bind]⟩
  | .struct ns ts, c, h => by
    cases c <;> simp [WF] at h
    rename_i cs
    obtain ⟨ps, h1, h2⟩ := fromPy_toPy_auxL m ts cs h.2.2
    have hl : ns.length = ps.length := by rw [toPyL_length m ts cs ps h1]; exact h.1
    have hlook := lookups_zip ns ps [] hl h.2.1 (by intro _ _ kv hkv; cases hkv)
    simp only [List.nil_append] at hlook
    exact ⟨.dict ((ns.map nameStr).zip ps), by simp [toPy, h1, bind, Except.bind],
      by simp [fromPy, isMapping, hlook, h2, bind, Except.bind]⟩
  | .union ns ts, c, h => by
    cases c <;> simp [WF] at h
    rename_i i v
    obtain ⟨hn, hi, hw⟩ := h
    obtain ⟨ps, h1, h2⟩ := fromPy_toPy_auxL m ts [v] hw
    subst hi
    match ts, ns, hn, hw, h1, h2 with
    | [t], [n], _, _, h1, h2 =>
      simp only [toPyL, bind, Except.bind] at h1
      cases ht : toPy m t v with
      | error e => rw [ht] at h1; simp at h1
      | ok p =>
        rw [ht] at h1; simp at h1; subst h1
        simp only [fromPyL, bind, Except.bind] at h2
        cases hf : fromPy m t p with
        | error e => rw [hf] at h2; simp at h2
        | ok v' =>
          rw [hf] at h2; simp at h2; subst h2
          refine ⟨.dict [(nameStr n, p)], by simp [toPy, toPyU, ht, bind, Except.bind], ?_⟩
          simp [fromPy, isMapping, pyLen, fromPyU, contains, subscript, dictFind, isName_nameStr, hf, bind, Except.bind]
    | [], _, _, hw, _, _ => simp [WFL] at hw
    | _ :: _ :: _, _, _, hw, _, _ => simp [WFL] at hw
    | [_], [], hn, _, _, _ => simp at hn
    | [_], _ :: _ :: _, hn, _, _, _ => simp at hn
  | .carray t n, c, h => by
    cases c <;> simp [WF] at h
    rename_i cs
    obtain ⟨ps, h1, h2⟩ := mapR_roundtrip (toPy m t) (fromPy m t) cs (fun c hc => fromPy_toPy_aux m t c (h.2 c hc))
    have hl : ps.length = n := by rw [mapR_length _ cs ps h1]; exact h.1
    exact ⟨.list ps, by simp [toPy, h1, bind, Except.bind],
      by simp [fromPy, carrayFrom, pyLen, hl, iterate, h2, bind, Except.bind]⟩
  | .ctuple ts, c, h => by
    cases c <;> simp [WF] at h
    rename_i cs
    obtain ⟨ps, h1, h2⟩ := fromPy_toPy_auxL m ts cs h
    have hl := toPyL_length m ts cs ps h1
    exact ⟨.tuple ps, by simp [toPy, h1, bind, Except.bind], by simp [fromPy, hl, h2, bind, Except.bind]⟩
theorem fromPy_toPy_auxL (m : Mode) : ∀ (ts : List Ty) (cs : List CVal), WFL m ts cs →
    ∃ ps, toPyL m ts cs = .ok ps ∧ fromPyL m ts ps = .ok cs
  | [], [], _ => ⟨[], rfl, rfl⟩
  | [], _ :: _, h => by simp [WFL] at h
  | _ :: _, [], h => by simp [WFL] at h
  | t :: ts, c :: cs, h => by
    simp only [WFL] at h
    obtain ⟨p, h1, h2⟩ := fromPy_toPy_aux m t c h.1
    obtain ⟨ps, h3, h4⟩ := fromPy_toPy_auxL m ts cs h.2
    exact ⟨p :: ps, by simp [toPyL, h1, h3, bind, Except.bind], by simp [fromPyL, h2, h4, bind, Except.bind]⟩
end

end CyVerif.C33

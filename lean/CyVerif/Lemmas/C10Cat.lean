import CyVerif.Model.C10
/-! Implicit concatenation of adjacent literals. -/
namespace CyVerif.C10

theorem cat_flag_true : ∀ (rest : List (CK × List Nat)) (k : CK) (acc : List Nat),
    (cyCatLoop rest k acc true).2.2 = true
  | [], _, _ => rfl
  | (nk, v) :: rest, k, acc => by
    simp only [cyCatLoop]
    split
    · exact cat_flag_true rest k acc
    · split
      · split
        · exact cat_flag_true rest .f (acc ++ v)
        · exact cat_flag_true rest k acc
      · exact cat_flag_true rest k (acc ++ v)

/-- the loop without error: no char literal, kinds compatible, values joined in order -/
theorem cat_loop : ∀ (rest : List (CK × List Nat)) (k : CK) (acc : List Nat) (k' : CK) (v' : List Nat),
    k ≠ .c → cyCatLoop rest k acc false = (k', v', false) →
    (∀ p ∈ rest, p.1 ≠ .c) ∧ v' = acc ++ rest.flatMap (·.2) ∧
    ((k = .b ∧ k' = .b ∧ ∀ p ∈ rest, p.1 = .b) ∨
     (k ≠ .b ∧ (∀ p ∈ rest, p.1 ≠ .b) ∧ k' = if k = .f ∨ rest.any (fun p => p.1 = .f) = true then .f else .u))
  | [], k, acc, k', v' => by
    intro hk h
    simp only [cyCatLoop] at h
    injection h with h1 h2
    injection h2 with h2 _
    subst h1; subst h2
    refine ⟨by simp, by simp, ?_⟩
    cases k <;> simp_all
  | (nk, v) :: rest, k, acc, k', v' => by
    intro hk h
    simp only [cyCatLoop] at h
    have bad : ∀ kk aa, cyCatLoop rest kk aa true = (k', v', false) → False := by
      intro kk aa hh
      have := cat_flag_true rest kk aa
      rw [hh] at this; cases this
    by_cases hc : nk = .c
    · rw [if_pos hc] at h; exact (bad _ _ h).elim
    · simp only [hc, if_false] at h
      by_cases hne : nk ≠ k
      · rw [if_pos hne] at h
        by_cases hmix : (k = .f ∧ nk = .u) ∨ (k = .u ∧ nk = .f)
        · simp only [hmix, if_true] at h
          obtain ⟨i1, i2, i3⟩ := cat_loop rest .f (acc ++ v) k' v' (by decide) h
          refine ⟨?_, ?_, ?_⟩
          · intro p hp; simp only [List.mem_cons] at hp; rcases hp with rfl | hp
            · exact hc
            · exact i1 p hp
          · rw [i2]; simp
          · right
            rcases i3 with ⟨hf, _⟩ | ⟨_, j2, j3⟩
            · cases hf
            · rcases hmix with ⟨rfl, rfl⟩ | ⟨rfl, rfl⟩
              · refine ⟨by decide, ?_, ?_⟩
                · intro p hp; simp only [List.mem_cons] at hp; rcases hp with rfl | hp
                  · simp
                  · exact j2 p hp
                · simpa using j3
              · refine ⟨by decide, ?_, ?_⟩
                · intro p hp; simp only [List.mem_cons] at hp; rcases hp with rfl | hp
                  · simp
                  · exact j2 p hp
                · simpa using j3
        · simp only [hmix, if_false] at h; exact (bad _ _ h).elim
      · have hnk : nk = k := by simpa using hne
        subst hnk
        simp only [ne_eq, not_true_eq_false, if_false] at h
        obtain ⟨i1, i2, i3⟩ := cat_loop rest nk (acc ++ v) k' v' hk h
        refine ⟨?_, ?_, ?_⟩
        · intro p hp; simp only [List.mem_cons] at hp; rcases hp with rfl | hp
          · exact hc
          · exact i1 p hp
        · rw [i2]; simp
        · rcases i3 with ⟨hb, j2, j3⟩ | ⟨hb, j2, j3⟩
          · left
            refine ⟨hb, j2, ?_⟩
            intro p hp; simp only [List.mem_cons] at hp; rcases hp with rfl | hp
            · exact hb
            · exact j3 p hp
          · right
            refine ⟨hb, ?_, ?_⟩
            · intro p hp; simp only [List.mem_cons] at hp; rcases hp with rfl | hp
              · exact hb
              · exact j2 p hp
            · rw [j3]
              simp only [List.any_cons, Bool.or_eq_true, decide_eq_true_eq]
              by_cases hf : nk = .f
              · simp [hf]
              · simp only [hf, false_or]

/-- **Implicit concatenation.**  Whatever `p_cat_string_literal` accepts is what CPython
accepts, with the same kind and the concatenated value. -/
theorem cat_sound (parts : List (CK × List Nat)) (r : CK × List Nat) (h : cyCat parts = .ok r) :
    refCat parts = .ok r := by
  cases parts with
  | nil => simp [cyCat] at h
  | cons p0 rest =>
    obtain ⟨k0, v0⟩ := p0
    simp only [cyCat] at h
    by_cases hc : k0 = .c
    · subst hc
      simp only [if_true] at h
      split at h
      · rename_i hr; subst hr
        injection h with h; subst h
        simp [refCat]
      · cases h
    · simp only [hc, if_false] at h
      cases hl : cyCatLoop rest k0 v0 false with
      | mk k' r2 =>
        obtain ⟨v', e⟩ := r2
        rw [hl] at h
        cases e with
        | true => simp at h
        | false =>
          simp only [] at h
          injection h with h; subst h
          obtain ⟨i1, i2, i3⟩ := cat_loop rest k0 v0 k' v' hc hl
          have hnoc : ((k0, v0) :: rest).any (fun p => decide (p.1 = CK.c)) = false := by
            rw [List.any_eq_false]; intro p hp
            simp only [List.mem_cons] at hp
            rcases hp with rfl | hp
            · simpa using hc
            · simpa using i1 p hp
          unfold refCat
          rw [if_neg (by simp), hnoc]
          simp only [Bool.false_eq_true, if_false]
          rcases i3 with ⟨rfl, rfl, j3⟩ | ⟨hb, j2, j3⟩
          · have : ((CK.b, v0) :: rest).all (fun p => decide (p.1 = CK.b)) = true := by
              rw [List.all_eq_true]; intro p hp
              simp only [List.mem_cons] at hp
              rcases hp with rfl | hp
              · simp
              · simpa using j3 p hp
            rw [if_pos this, i2]; simp
          · have hall : ((k0, v0) :: rest).all (fun p => decide (p.1 = CK.b)) = false := by
              simp [hb]
            have hany : ((k0, v0) :: rest).any (fun p => decide (p.1 = CK.b)) = false := by
              rw [List.any_eq_false]; intro p hp
              simp only [List.mem_cons] at hp
              rcases hp with rfl | hp
              · simpa using hb
              · simpa using j2 p hp
            rw [hall, hany]
            simp only [Bool.false_eq_true, if_false]
            rw [j3, i2]
            simp only [List.any_cons, Bool.or_eq_true, decide_eq_true_eq, List.flatMap_cons]

end CyVerif.C10

import CyVerif.Lemmas.C10EscText2
/-! Remaining escape classes of a text literal: `\x`, `\N{…}`, single characters, unknown. -/
namespace CyVerif.C10

/-- E: `\xXX` -/
theorem text_hex_x (P : LexP) (lk : Lookup) (k : Kind) (hk : k.isText = true) (fstr : Bool)
    (t : List Nat) (ch1 : Chunk)
    (hs : appendEsc P lk k (92 :: (120 :: t).take (escLen P (120 :: t))) = .ok ch1) (hg : ch1.nonfatal = false) :
    refStep lk fstr (92 :: 120 :: t) = (.ok ch1.us, (120 :: t).drop (escLen P (120 :: t))) := by
  have hlen : escLen P (120 :: t) = if hexPrefix 2 t = true then 3 else 1 := by simp [escLen, isOct]
  have href : refStep lk fstr (92 :: 120 :: t) = refHexEsc 2 t := by
    rw [refStep_bs]; simp [refSimple, isOct]
  have hcy : ∀ tl, appendEsc P lk k (92 :: 120 :: tl) =
      if tl.length = 2 then
        (match parseInt 16 isHex tl with
         | some v => chVal P k v
         | none => .err "ValueError")
      else chErr := by
    intro tl; rw [appendEsc_two]; simp [isOct] <;> rfl
  rw [hlen] at hs ⊢
  by_cases hp : hexPrefix 2 t = true
  · obtain ⟨v, hv, hr⟩ := (hex_agree 1 t).1 hp
    have hl := hexPrefix_take_length 2 t hp
    simp only [hp, if_true, List.take_succ_cons, List.drop_succ_cons] at hs ⊢
    rw [hcy, hv] at hs
    simp only [hl, if_true] at hs
    have hus := (chVal_ok P k v ch1 hs).1
    rw [hasText_of_isText k hk] at hus
    have hlt := parseInt_hex_lt _ v hv
    rw [hl] at hlt
    rw [href, refHexEsc, hr]
    have hbig : ¬ v > 0x10FFFF := by omega
    simp [hbig, hus]
  · simp only [hp] at hs
    simp only [Bool.false_eq_true, if_false, List.take_succ_cons, List.take_zero] at hs
    rw [hcy] at hs
    simp only [List.length_nil] at hs
    have := chErr_nonfatal ch1 (by simpa using hs)
    rw [this] at hg; cases hg

/-- F: the single-character escapes and the line continuation -/
theorem text_simple (P : LexP) (lk : Lookup) (k : Kind) (hk : k.isText = true) (fstr : Bool) (d : Nat)
    (hd : d = 10 ∨ d = 92 ∨ d = 39 ∨ d = 34 ∨ d = 97 ∨ d = 98 ∨ d = 102 ∨ d = 110 ∨ d = 114 ∨ d = 116 ∨ d = 118)
    (t : List Nat) (ch1 : Chunk)
    (hs : appendEsc P lk k (92 :: (d :: t).take (escLen P (d :: t))) = .ok ch1) :
    refStep lk fstr (92 :: d :: t) = (.ok ch1.us, (d :: t).drop (escLen P (d :: t))) := by
  have ht := hasText_of_isText k hk
  have hlen : escLen P (d :: t) = 1 := by
    rcases hd with rfl | rfl | rfl | rfl | rfl | rfl | rfl | rfl | rfl | rfl | rfl <;>
      simp [escLen, isOct, simpleSet]
  rw [hlen] at hs ⊢
  rcases hd with rfl | rfl | rfl | rfl | rfl | rfl | rfl | rfl | rfl | rfl | rfl <;>
    (simp only [List.take_succ_cons, List.take_zero, List.drop_succ_cons, List.drop_zero] at hs ⊢
     rw [appendEsc_two] at hs
     rw [refStep_bs]
     simp [isOct, cyCharFromEscape, refSimple] at hs ⊢)
  · subst hs; rfl
  all_goals (have := (chStr_ok k _ false ch1 hs).1; rw [ht] at this; simpa using this.symm)

end CyVerif.C10

import CyVerif.Lemmas.C40Stmt
/-! C40: range loops — the bounds of a C-typed loop are C integers, so every item fits the loop variable. -/
namespace CyVerif.C40

variable {F : Type}

def plainOpt (t : Option Ty) : Bool :=
  match t with
  | some t => t.isInt ∧ t ≠ .ucs4 ∧ t ≠ .bint
  | none => false

theorem plainOpt_iff {t : Option Ty} (h : plainOpt t = true) : ∃ u, t = some u ∧ u.isPlainCInt = true := by
  cases t with
  | none => cases h
  | some u =>
    refine ⟨u, rfl, ?_⟩
    cases u <;> simp [plainOpt, Ty.isInt] at h <;> rfl

theorem rangeItemTy_clong {Γ : Nat → Ty} {nt : Nat → Option Ty} {a1 : Expr} {a2 a3 : Option Expr}
    (h : rangeItemTy Γ nt a1 a2 a3 = some .clong) :
    plainOpt (aty Γ nt a1) = true ∧ (∀ e, a2 = some e → plainOpt (aty Γ nt e) = true) := by
  have key : ∀ (ts : List (Option Ty)),
      (if ts.any Option.isNone then none
       else if ts.all (fun t => match t with | some t => t.isInt ∧ t ≠ .ucs4 ∧ t ≠ .bint | none => false)
         then some Ty.clong else some Ty.obj) = some Ty.clong →
      ∀ t ∈ ts, plainOpt t = true := by
    intro ts hts t ht
    split at hts
    · cases hts
    · split at hts
      · rename_i hall
        have := List.all_eq_true.mp hall t ht
        simpa [plainOpt] using this
      · cases hts
  unfold rangeItemTy at h
  cases a2 with
  | none =>
    cases a3 <;> exact ⟨key _ h _ (by simp), fun e he => by cases he⟩
  | some e2 =>
    cases a3 <;> exact ⟨key _ h _ (by simp), fun e he => by cases he; exact key _ h _ (by simp)⟩

theorem rangeItemTy_cases {Γ : Nat → Ty} {nt : Nat → Option Ty} {a1 : Expr} {a2 a3 : Option Expr} {te : Ty}
    (h : rangeItemTy Γ nt a1 a2 a3 = some te) : te = .clong ∨ te = .obj := by
  have key : ∀ (c1 c2 : Bool), (if c1 then none else if c2 then some Ty.clong else some Ty.obj) = some te →
      te = .clong ∨ te = .obj := by
    intro c1 c2 hh
    cases c1 <;> cases c2 <;> simp at hh
    · exact Or.inr hh.symm
    · exact Or.inl hh.symm
  unfold rangeItemTy at h
  exact key _ _ h

theorem rangeArg_plain {t : Ty} {x : Val F} {n : Int} (ht : t.isPlainCInt = true) (c : conf t x)
    (h : rangeArg x = .ok n) : x = .int n ∧ inRange .clong n = true := by
  obtain ⟨k, rfl, hr⟩ := plain_conf ht c
  simp only [rangeArg] at h; cases h
  exact ⟨rfl, inRange_widen (Or.inl rfl) ht hr⟩

theorem items_inRange {n : Nat} {lo hi st x : Int} (hlo : inRange .clong lo = true) (hhi : inRange .clong hi = true)
    (hx : x ∈ (rangeItems n lo hi st).1) : inRange .clong x = true := by
  have := rangeItems_bounds n lo hi st x hx
  simp only [inRange, decide_eq_true_eq] at hlo hhi ⊢
  by_cases hs : 0 < st
  · have := this.1 hs; omega
  · have := this.2 hs; omega

end CyVerif.C40

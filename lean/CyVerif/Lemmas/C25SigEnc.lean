import CyVerif.Model.C25Sig
/-! Helper lemmas for the `decode (encode s) = some s` theorem of C25 (signature part). -/
namespace CyVerif.C25Sig

/-- reference kind assignment: the shared `posonly_left` counter over one list -/
def kinded : List Param → Nat → List Parameter
  | [], _ => []
  | p :: ps, left => ⟨p.name, (stepKind left).1, p.dflt⟩ :: kinded ps (stepKind left).2

theorem stepKind_snd (left : Nat) : (stepKind left).2 = left - 1 := by
  unfold stepKind; split <;> simp_all

theorem stepKind_fst_pos (left : Nat) (h : 0 < left) : (stepKind left).1 = .posOnly := by
  unfold stepKind; split <;> simp_all

theorem stepKind_fst_zero : (stepKind 0).1 = .posOrKw := by
  simp [stepKind]

theorem kinded_append (l1 l2 : List Param) (left : Nat) :
    kinded (l1 ++ l2) left = kinded l1 left ++ kinded l2 (left - l1.length) := by
  induction l1 generalizing left with
  | nil => simp [kinded]
  | cons p ps ih =>
    simp only [List.cons_append, kinded, ih, stepKind_snd, List.length_cons]
    rw [show left - 1 - ps.length = left - (ps.length + 1) by omega]

theorem kinded_ge (l : List Param) (left : Nat) (h : l.length ≤ left) :
    kinded l left = l.map (mkP .posOnly) := by
  induction l generalizing left with
  | nil => simp [kinded]
  | cons p ps ih =>
    simp only [List.length_cons] at h
    simp only [kinded, List.map_cons, stepKind_snd]
    rw [ih _ (by omega), stepKind_fst_pos _ (by omega)]; rfl

theorem kinded_zero (l : List Param) : kinded l 0 = l.map (mkP .posOrKw) := by
  induction l with
  | nil => simp [kinded]
  | cons p ps ih =>
    simp only [kinded, List.map_cons, stepKind_snd, stepKind_fst_zero]
    rw [show (0 - 1 : Nat) = 0 from rfl, ih]; rfl

theorem kinded_split (po no : List Param) :
    kinded (po ++ no) po.length = po.map (mkP .posOnly) ++ no.map (mkP .posOrKw) := by
  rw [kinded_append, kinded_ge _ _ (Nat.le_refl _), Nat.sub_self, kinded_zero]

theorem loop1_eq (A : List Param) (left : Nat) (h : ∀ a ∈ A, a.dflt = none) :
    loop1 (A.map (·.name)) left = (kinded A left, left - A.length) := by
  induction A generalizing left with
  | nil => simp [loop1, kinded]
  | cons p ps ih =>
    have hp : p.dflt = none := h p (by simp)
    have hps : ∀ a ∈ ps, a.dflt = none := fun a ha => h a (by simp [ha])
    simp only [List.map_cons, loop1, ih _ hps, kinded, hp, stepKind_snd, List.length_cons]
    congr 1; omega

/-- a parameter with a default -/
def mkD (b : String × String) : Param := ⟨b.1, some b.2⟩

theorem loop2_eq (bs : List (String × String)) (pre : List String) (left : Nat) :
    loop2 (pre ++ bs.map (·.2)) (bs.map (·.1)) pre.length left = some (kinded (bs.map mkD) left) := by
  induction bs generalizing pre left with
  | nil => simp [loop2, kinded]
  | cons b bs ih =>
    have hget : (pre ++ (b :: bs).map (·.2))[pre.length]? = some b.2 := by
      rw [List.getElem?_append_right (Nat.le_refl _)]; simp
    have hrec := ih (pre ++ [b.2]) (stepKind left).2
    simp only [List.append_assoc, List.singleton_append, List.length_append, List.length_singleton] at hrec
    simp only [List.map_cons] at hget ⊢
    simp only [loop2, hget, hrec, kinded, mkD]

theorem all_some_split (l : List Param) (h : l.all (·.dflt.isSome) = true) :
    ∃ bs : List (String × String), l = bs.map mkD := by
  induction l with
  | nil => exact ⟨[], rfl⟩
  | cons p ps ih =>
    simp only [List.all_cons, Bool.and_eq_true] at h
    obtain ⟨bs, hbs⟩ := ih h.2
    obtain ⟨n, d⟩ := p
    cases d with
    | none => simp at h
    | some d => exact ⟨(n, d) :: bs, by simp [mkD, hbs]⟩

theorem trailing_split (pos : List Param) (h : trailingOK pos = true) :
    ∃ (A : List Param) (bs : List (String × String)),
      pos = A ++ bs.map mkD ∧ ∀ a ∈ A, a.dflt = none := by
  induction pos with
  | nil => exact ⟨[], [], rfl, by simp⟩
  | cons p ps ih =>
    unfold trailingOK at h
    by_cases hp : p.dflt.isSome = true
    · simp only [hp, if_true] at h
      obtain ⟨bs, hbs⟩ := all_some_split (p :: ps) (by simp [hp, h])
      exact ⟨[], bs, by simpa using hbs, by simp⟩
    · simp only [hp] at h
      obtain ⟨A, bs, hps, hA⟩ := ih (by simpa using h)
      refine ⟨p :: A, bs, by simp [hps], ?_⟩
      intro a ha
      rcases List.mem_cons.1 ha with rfl | ha
      · simpa using hp
      · exact hA a ha

theorem defaultsOf_split (A : List Param) (bs : List (String × String)) (hA : ∀ a ∈ A, a.dflt = none) :
    defaultsOf (A ++ bs.map mkD) = bs.map (·.2) := by
  unfold defaultsOf
  rw [List.filterMap_append]
  have h1 : A.filterMap (·.dflt) = [] := by
    induction A with
    | nil => rfl
    | cons a as ih =>
      have := hA a (by simp)
      simp only [List.filterMap_cons, this]
      exact ih (fun x hx => hA x (by simp [hx]))
  have h2 : (bs.map mkD).filterMap (·.dflt) = bs.map (·.2) := by
    induction bs with
    | nil => rfl
    | cons b bs ih => simp only [List.map_cons, List.filterMap_cons, mkD, ih]
  rw [h1, h2]; rfl

theorem noneIfEmpty_getD {α} (l : List α) : (noneIfEmpty l).getD [] = l := by
  unfold noneIfEmpty
  cases l <;> simp

/-- the two positional loops of `_signature_from_function` on the encoded fields -/
theorem positional_loops (pos : List Param) (po : Nat) (h : trailingOK pos = true) :
    (defaultsOf pos).length ≤ pos.length ∧
    ∃ p2, loop2 (defaultsOf pos)
            ((pos.map (·.name)).drop (pos.length - (defaultsOf pos).length)) 0
            (loop1 ((pos.map (·.name)).take (pos.length - (defaultsOf pos).length)) po).2 = some p2
      ∧ (loop1 ((pos.map (·.name)).take (pos.length - (defaultsOf pos).length)) po).1 ++ p2 = kinded pos po := by
  obtain ⟨A, bs, rfl, hA⟩ := trailing_split pos h
  rw [defaultsOf_split A bs hA]
  have hlen : (A ++ bs.map mkD).length - (bs.map (·.2)).length = A.length := by simp
  have hnames : (A ++ bs.map mkD).map (·.name) = A.map (·.name) ++ bs.map (·.1) := by
    simp [mkD, Function.comp_def]
  refine ⟨by simp, ?_⟩
  rw [hlen, hnames]
  have ht : (A.map (·.name) ++ bs.map (·.1)).take A.length = A.map (·.name) := by
    exact List.take_left' (by simp)
  have hd : (A.map (·.name) ++ bs.map (·.1)).drop A.length = bs.map (·.1) := by
    exact List.drop_left' (by simp)
  rw [ht, hd, loop1_eq A po hA]
  have := loop2_eq bs [] (po - A.length)
  simp only [List.nil_append, List.length_nil] at this
  exact ⟨_, this, (kinded_append A (bs.map mkD) po).symm⟩

/-! keyword-only defaults -/

theorem assoc_notin (l : List Param) (n : String) (h : n ∉ l.map (·.name)) : assoc (kwPairs l) n = none := by
  induction l with
  | nil => rfl
  | cons p ps ih =>
    simp only [List.map_cons, List.mem_cons, not_or] at h
    have := ih h.2
    unfold kwPairs at this ⊢
    cases hd : p.dflt with
    | none => simp [hd, this]
    | some d =>
      simp only [List.filterMap_cons, hd, Option.map_some, assoc]
      rw [if_neg (fun e => h.1 e.symm)]; exact this

theorem assoc_kwPairs (l : List Param) (h : (l.map (·.name)).Nodup) :
    ∀ p ∈ l, assoc (kwPairs l) p.name = p.dflt := by
  induction l with
  | nil => intro p hp; cases hp
  | cons q qs ih =>
    simp only [List.map_cons, List.nodup_cons] at h
    intro p hp
    rcases List.mem_cons.1 hp with rfl | hp
    · unfold kwPairs
      cases hd : p.dflt with
      | none =>
        simp only [List.filterMap_cons, hd, Option.map_none]
        exact assoc_notin qs p.name h.1
      | some d => simp [hd, assoc]
    · have hne : q.name ≠ p.name := by
        intro e; apply h.1; rw [e]; exact List.mem_map.2 ⟨p, hp, rfl⟩
      have := ih h.2 p hp
      unfold kwPairs at this ⊢
      cases hd : q.dflt with
      | none => simpa [hd] using this
      | some d =>
        simp only [List.filterMap_cons, hd, Option.map_some, assoc, if_neg hne]; exact this

theorem kwLookup_noneIfEmpty (l : List (String × String)) (n : String) :
    kwLookup (noneIfEmpty l) n = assoc l n := by
  unfold noneIfEmpty kwLookup
  cases l <;> simp [assoc]

theorem kw_part (kw : List Param) (h : (kw.map (·.name)).Nodup) :
    (kw.map (·.name)).map (fun n => (⟨n, .kwOnly, kwLookup (noneIfEmpty (kwPairs kw)) n⟩ : Parameter))
      = kw.map (mkP .kwOnly) := by
  rw [List.map_map]
  apply List.map_congr_left
  intro p hp
  simp only [Function.comp, kwLookup_noneIfEmpty, assoc_kwPairs kw h p hp, mkP]

/-! grouping by kind -/

theorem pick_same (k : Kind) (l : List Param) : pick k (l.map (mkP k)) = l := by
  induction l with
  | nil => rfl
  | cons p ps ih => unfold pick at ih ⊢; simp [mkP] at ih ⊢; exact ih

theorem pick_diff (k k' : Kind) (hk : k' ≠ k) (l : List Param) : pick k (l.map (mkP k')) = [] := by
  induction l with
  | nil => rfl
  | cons p ps ih => unfold pick at ih ⊢; simp [mkP, hk] at ih ⊢

theorem pick_append (k : Kind) (a b : List Parameter) : pick k (a ++ b) = pick k a ++ pick k b := by
  simp [pick, List.filterMap_append]

end CyVerif.C25Sig

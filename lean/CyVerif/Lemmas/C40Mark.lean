import CyVerif.Model.C40Infer
/-! C40: a variable marked `might_overflow` never gets a plain C integer type from the inferer. -/
namespace CyVerif.C40

def Ty.isPlainCInt' : Ty → Bool
  | .clong | .cssize | .cint => true
  | _ => false

/-- `safe_spanning_type` never returns a plain C integer type for a variable marked `might_overflow`. -/
theorem safeSpan_marked_not_cint (cfg : Cfg) (types : List (Option Ty)) (t : Ty)
    (h : safeSpan cfg types true = .ok t) : t.isPlainCInt' = false := by
  unfold safeSpan at h
  split at h
  · cases h
  · split at h
    · cases h
    · cases h
    · rename_i r _
      cases r <;> simp [Ty.isPyObject, Ty.isInt] at h <;>
        (try (split at h <;> cases h <;> rfl)) <;> (try (cases h; rfl))

/-- repaired tree: nor `bint` -/
theorem safeSpan_marked_not_bint (cfg : Cfg) (hb : cfg.bintNoOverflow = true) (types : List (Option Ty)) (t : Ty)
    (h : safeSpan cfg types true = .ok t) : t ≠ .bint := by
  unfold safeSpan at h
  split at h
  · cases h
  · split at h
    · cases h
    · cases h
    · rename_i r _
      cases r <;> simp [Ty.isPyObject, Ty.isInt, hb] at h <;>
        (try (split at h <;> cases h <;> simp)) <;> (try (cases h; simp))

theorem lookup_filter_ne {β : Type} (l : List (Nat × β)) (v w : Nat) (h : w ≠ v) :
    List.lookup w (l.filter (·.1 ≠ v)) = List.lookup w l := by
  induction l with
  | nil => rfl
  | cons a l ih =>
    by_cases ha : a.1 = v
    · have hf : (a :: l).filter (·.1 ≠ v) = l.filter (·.1 ≠ v) := by
        apply List.filter_cons_of_neg; simp [ha]
      rw [hf, ih]
      have : (w == a.1) = false := by rw [ha]; simpa using h
      cases a with
      | mk k x => simp only [List.lookup]; simp only at this; rw [this]
    · have hf : (a :: l).filter (·.1 ≠ v) = a :: l.filter (·.1 ≠ v) := by
        apply List.filter_cons_of_pos; simp [ha]
      rw [hf]
      cases a with
      | mk k x =>
        simp only [List.lookup]
        cases (w == k)
        · exact ih
        · rfl

theorem Env.get_setAssoc (Γ : Env) (v w : Nat) (t : Ty) :
    Env.get (setAssoc Γ v t) w = if w = v then t else Env.get Γ w := by
  unfold Env.get setAssoc
  by_cases h : w = v
  · subst h; simp [List.lookup]
  · simp only [h, if_false]
    have : (w == v) = false := by simpa using h
    simp only [List.lookup, this]
    rw [lookup_filter_ne _ _ _ h]

def MoGood (P : Ty → Prop) (mo : Nat → Bool) (Γ : Env) : Prop := ∀ v, mo v = true → P (Γ.get v)

theorem MoGood.set {P : Ty → Prop} {mo : Nat → Bool} {Γ : Env} (h : MoGood P mo Γ) (v : Nat) (t : Ty)
    (ht : mo v = true → P t) : MoGood P mo (setAssoc Γ v t) := by
  intro w hw
  rw [Env.get_setAssoc]
  by_cases hwv : w = v
  · subst hwv; simp only [if_true]; exact ht hw
  · simp only [hwv, if_false]; exact h w hw

theorem unboundGuard_good {P : Ty → Prop} {cfg : Cfg} {mu : Nat → Bool} {v : Nat} {t : Ty} (ho : P .obj) (h : P t) :
    P (unboundGuard cfg mu v t) := by
  unfold unboundGuard; split
  · exact ho
  · exact h

/-- `P` holds for `object` and for every result of `safe_spanning_type` on a marked variable -/
def SpanGood (P : Ty → Prop) (cfg : Cfg) : Prop :=
  P .obj ∧ ∀ types t, safeSpan cfg types true = .ok t → P t

theorem firstPass_good {P : Ty → Prop} {cfg : Cfg} (hP : SpanGood P cfg) {mo mu : Nat → Bool} {as : List Assmt}
    {s : IState} :
    ∀ (vs : List Nat) (Γ : Env) (inf : List Nat) (Γ' : Env) (inf' : List Nat),
      firstPass cfg mo mu as s vs Γ inf = .ok (Γ', inf') → MoGood P mo Γ → MoGood P mo Γ' := by
  intro vs
  induction vs with
  | nil => intro Γ inf Γ' inf' h hg; simp only [firstPass] at h; cases h; exact hg
  | cons v vs ih =>
    intro Γ inf Γ' inf' h hg
    simp only [firstPass] at h
    split at h
    · split at h
      · split at h
        · cases h
        · rename_i t hs
          refine ih _ _ _ _ h (hg.set v _ ?_)
          intro hm
          rw [hm] at hs
          exact unboundGuard_good hP.1 (hP.2 _ _ hs)
      · exact ih _ _ _ _ h (hg.set v _ (fun _ => hP.1))
    · exact ih _ _ _ _ h (hg.set v _ (fun _ => hP.1))

theorem reinferPass_good {P : Ty → Prop} {cfg : Cfg} (hP : SpanGood P cfg) {mo mu : Nat → Bool} {as : List Assmt}
    {nty : List (Nat × Ty)} :
    ∀ (vs : List Nat) (Γ : Env) (d : Bool) (Γ' : Env) (d' : Bool),
      reinferPass cfg mo mu as nty vs Γ d = .ok (Γ', d') → MoGood P mo Γ → MoGood P mo Γ' := by
  intro vs
  induction vs with
  | nil => intro Γ d Γ' d' h hg; simp only [reinferPass] at h; cases h; exact hg
  | cons v vs ih =>
    intro Γ d Γ' d' h hg
    simp only [reinferPass] at h
    split at h
    · cases h
    · rename_i t hnt
      have ht : mo v = true → P t := by
        intro hm
        split at hnt
        · cases hnt
        · split at hnt
          · cases hnt; exact hP.1
          · split at hnt
            · rename_i t' hs
              cases hnt
              rw [hm] at hs
              exact unboundGuard_good hP.1 (hP.2 _ _ hs)
            · cases hnt
      split at h
      · exact ih _ _ _ _ h (hg.set v _ ht)
      · exact ih _ _ _ _ h hg

theorem reinferLoop_good {P : Ty → Prop} {cfg : Cfg} (hP : SpanGood P cfg) {mo mu : Nat → Bool} {as : List Assmt}
    {nty : List (Nat × Ty)} {inferred : List Nat} :
    ∀ (fuel : Nat) (Γ Γ' : Env) (nty' : List (Nat × Ty)),
      reinferLoop cfg mo mu as nty inferred fuel Γ = .ok Γ' nty' → MoGood P mo Γ → MoGood P mo Γ' := by
  intro fuel
  induction fuel with
  | zero => intro Γ Γ' nty' h; simp only [reinferLoop] at h; cases h
  | succ n ih =>
    intro Γ Γ' nty' h hg
    simp only [reinferLoop] at h
    split at h
    · cases h
    · rename_i Γ1 hp
      exact ih _ _ _ h (reinferPass_good hP _ _ _ _ _ hp hg)
    · rename_i Γ1 hp
      cases h
      exact reinferPass_good hP _ _ _ _ _ hp hg

/-- every variable marked `might_overflow` gets a type satisfying `P` -/
theorem infer_marked {P : Ty → Prop} {cfg : Cfg} (hP : SpanGood P cfg) {p : Stmt} {Γ : Env} {nty : List (Nat × Ty)}
    (h : infer cfg p = .ok Γ nty) (v : Nat) (hm : mightOverflow cfg p v = true) : P (Γ.get v) := by
  unfold infer at h
  simp only at h
  split at h
  · cases h
  · split at h
    · cases h
    · rename_i Γ0 inferred hfp
      have g0 : MoGood P (mightOverflow cfg p) ([] : Env) := fun w _ => by simp [Env.get]; exact hP.1
      exact reinferLoop_good hP _ _ _ _ h (firstPass_good hP _ _ _ _ _ hfp g0) v hm

end CyVerif.C40

import CyVerif.Lemmas.C09PoolAll
/-! C09 part B: constants and whole modules. -/
namespace CyVerif.C09

theorem const_proc (v : Variant) (once : Bool) (c : Const) (p : Pool) (hinv : PoolInv v p) (hw : c.wf = true)
    (hh : Hyp v c) :
    PoolInv v (procConst v once p c).1 ∧
      (∃ l, firstsOf (procConst v once p c).1 = firstsOf p ++ l) ∧
      ∀ y, evalConst c = some y → ResultOK (procConst v once p c).1 (procConst v once p c).2 y := by
  cases c with
  | tuple n =>
    cases n with
    | leaf t a => simp [Const.wf] at hw
    | opq => simp [Const.wf] at hw
    | slice a b c => simp [Const.wf] at hw
    | seq k m args =>
      exact node_proc v once false _ p hinv (by simpa [Const.wf] using hw) (by simpa [Const.noZeroFloat] using hh.1)
  | slice n =>
    cases n with
    | leaf t a => simp [Const.wf] at hw
    | opq => simp [Const.wf] at hw
    | seq k m args => simp [Const.wf] at hw
    | slice a b c =>
      exact node_proc v once false _ p hinv (by simpa [Const.wf] using hw) (by simpa [Const.noZeroFloat] using hh.1)
  | fset args =>
    have hw' : Node.wfs args = true := by simpa [Const.wf] using hw
    have hz' : v.floatSign = true ∨ Node.noZeroFloats args = true := by simpa [Const.noZeroFloat] using hh.1
    obtain ⟨hinv1, ⟨l1, hl1⟩, hval⟩ := nodes_proc v once true args p hinv hw' hz'
    simp only [procConst]
    obtain ⟨l2, hl2⟩ := register_prefix once false (procNodes v once true p args).1 (constKey v (.fset args))
      ((procNodes v once true p args).2.map (fun xs => .fset (dedupAux [] xs)))
    have hpre := prefix_trans hl1 hl2
    cases he : evalNodes args with
    | none =>
      have hk : constKey v (.fset args) = none := by
        simp only [constKey]
        cases hks : nodeKeys v args with
        | none => rfl
        | some ks =>
          obtain ⟨xs, hxs⟩ := keys_eval v args ks hks
          rw [he] at hxs; simp at hxs
      rw [hk] at hpre ⊢
      exact ⟨hinv1, hpre, fun y hy => by simp [evalConst, he] at hy⟩
    | some ys =>
      obtain ⟨xs, hxs, hs⟩ := hval ys he
      rw [hxs] at hpre ⊢
      have hsame : same (.fset (dedupAux [] ys)) (.fset (dedupAux [] xs)) = true :=
        same_fset_of_sameL _ _ (dedup_congr ys xs [] [] (by simp [sameL]) hs)
      have := resultOK_of_register v once false (procNodes v once true p args).1 (.fset args)
        (constKey v (.fset args)) (.fset (dedupAux [] ys)) (.fset (dedupAux [] xs)) hinv1 hw hh rfl
        (by simp [evalConst, he]) hsame
      refine ⟨this.1, hpre, fun y hy => ?_⟩
      simp only [evalConst, he, Option.map_some, Option.some.injEq] at hy; subst hy
      exact this.2

theorem getElem?_prefix {α} {a b l : List α} (h : b = a ++ l) {i : Nat} {x : α} (hx : a[i]? = some x) :
    b[i]? = some x := by
  rw [h]
  have hi : i < a.length := by
    rcases Nat.lt_or_ge i a.length with h' | h'
    · exact h'
    · rw [List.getElem?_eq_none h'] at hx; exact absurd hx (by simp)
  rw [List.getElem?_append_left hi]; exact hx

/-- all constants of a module, from any justified pool: the invariant at the end, and for every
constant a persistent record (`firstsOf` is append-only) tying its slot to its intended value -/
theorem all_proc (v : Variant) (once : Bool) : ∀ (cs : List Const) (p : Pool), PoolInv v p →
    (∀ c ∈ cs, c.wf = true ∧ Hyp v c) →
    PoolInv v (procAll v once p cs).1 ∧
      (∃ l, firstsOf (procAll v once p cs).1 = firstsOf p ++ l) ∧
      ∀ cr ∈ cs.zip (procAll v once p cs).2, ∀ y, evalConst cr.1 = some y →
        ResultOK (procAll v once p cs).1 cr.2 y := by
  intro cs
  induction cs with
  | nil => intro p hinv _; exact ⟨hinv, ⟨[], by simp [procAll]⟩, fun cr hcr => by simp [procAll] at hcr⟩
  | cons c cs ih =>
    intro p hinv hall
    obtain ⟨hwc, hhc⟩ := hall c (by simp)
    obtain ⟨hinv1, ⟨l1, hl1⟩, hval⟩ := const_proc v once c p hinv hwc hhc
    obtain ⟨hinv2, ⟨l2, hl2⟩, hrest⟩ := ih (procConst v once p c).1 hinv1 (fun c' hc' => hall c' (by simp [hc']))
    simp only [procAll]
    refine ⟨hinv2, prefix_trans hl1 hl2, fun cr hcr y hy => ?_⟩
    simp only [List.zip_cons_cons, List.mem_cons] at hcr
    rcases hcr with rfl | hcr
    · obtain ⟨hx, hslot⟩ := hval y hy
      refine ⟨hx, fun i hi => ?_⟩
      obtain ⟨f, hf, hs⟩ := hslot i hi
      exact ⟨f, getElem?_prefix hl2 hf, hs⟩
    · exact hrest cr hcr y hy

theorem poolInv_nil (v : Variant) : PoolInv v [] := by intro kx h; simp at h

/-- after module init, a function returning the constant yields an object indistinguishable from the
value its source denotes (the slot may have been re-initialised since the constant was generated) -/
theorem module_sound (v : Variant) (once : Bool) (cs : List Const) (hall : ∀ c ∈ cs, c.wf = true ∧ Hyp v c) :
    ∀ cr ∈ cs.zip (runModule v once cs), ∀ y, evalConst cr.1 = some y →
      ∃ x, cr.2.2 = some x ∧ same y x = true := by
  obtain ⟨hinv, _, hres⟩ := all_proc v once cs [] (poolInv_nil v) hall
  intro cr hcr y hy
  simp only [runModule, List.zip_map_right, List.mem_map] at hcr
  obtain ⟨⟨c, r⟩, hmem, rfl⟩ := hcr
  obtain ⟨⟨x, hx, hsx⟩, hslot⟩ := hres (c, r) hmem y hy
  simp only [finalVal]
  cases hr : r.1 with
  | none => exact ⟨x, by simpa [hr] using hx, hsx⟩
  | some i =>
    obtain ⟨f, hf, hsf⟩ := hslot i hr
    simp only [firstsOf, List.getElem?_map] at hf
    cases hp : (procAll v once [] cs).1[i]? with
    | none => simp [hp] at hf
    | some s =>
      simp only [hp, Option.map_some, Option.some.injEq] at hf
      obtain ⟨c0, y0, _, _, _, _, ho, hfi⟩ := hinv s (List.mem_of_getElem? hp)
      refine ⟨s.obj, by simp [hr, hp], ?_⟩
      rw [← hf] at hsf
      exact same_trans y y0 s.obj (same_trans y s.first y0 hsf (same_symm y0 s.first hfi)) ho

end CyVerif.C09

import CyVerif.Model.C28Binop
/-!
# C28 — Boolean tree equality and the finite enumerations used by the exhaustive checks
-/
namespace CyVerif.C28

def Meth.beq : Meth → Meth → Bool
  | .op, .op => true
  | .rop, .rop => true
  | .iop, .iop => true
  | .cmp a, .cmp b => decide (a = b)
  | _, _ => false

theorem Meth.beq_eq {a b : Meth} (h : Meth.beq a b = true) : a = b := by
  cases a <;> cases b <;> simp_all [Meth.beq]

def Side.beq : Side → Side → Bool
  | .L, .L => true
  | .R, .R => true
  | _, _ => false

theorem Side.beq_eq {a b : Side} (h : Side.beq a b = true) : a = b := by
  cases a <;> cases b <;> simp_all [Side.beq]

def Call.beq (a b : Call) : Bool := Nat.beq a.cls b.cls && Meth.beq a.m b.m && Side.beq a.self b.self

theorem Call.beq_eq {a b : Call} (h : Call.beq a b = true) : a = b := by
  cases a; cases b
  simp only [Call.beq, Bool.and_eq_true] at h
  obtain ⟨⟨h1, h2⟩, h3⟩ := h
  have := Nat.eq_of_beq_eq_true h1
  have := Meth.beq_eq h2
  have := Side.beq_eq h3
  simp_all

def Out.beq : Out → Out → Bool
  | .val a, .val b => Call.beq a b
  | .typeError, .typeError => true
  | .attrError, .attrError => true
  | .niLeak, .niLeak => true
  | _, _ => false

theorem Out.beq_eq {a b : Out} (h : Out.beq a b = true) : a = b := by
  cases a <;> cases b <;> simp_all [Out.beq]
  exact Call.beq_eq h

def Tree.beq : Tree → Tree → Bool
  | .done a, .done b => Out.beq a b
  | .ask c a1 a2, .ask d b1 b2 => Call.beq c d && Tree.beq a1 b1 && Tree.beq a2 b2
  | _, _ => false

theorem Tree.beq_eq : ∀ {a b : Tree}, Tree.beq a b = true → a = b
  | .done a, .done b, h => by simp only [Tree.beq] at h; rw [Out.beq_eq h]
  | .ask c a1 a2, .ask d b1 b2, h => by
    simp only [Tree.beq, Bool.and_eq_true] at h
    obtain ⟨⟨h1, h2⟩, h3⟩ := h
    rw [Call.beq_eq h1, Tree.beq_eq h2, Tree.beq_eq h3]
  | .done _, .ask _ _ _, h => by simp [Tree.beq] at h
  | .ask _ _ _, .done _, h => by simp [Tree.beq] at h

/-- which of `__op__`, `__rop__`, `__iop__` a class body defines -/
structure Sub3 where
  op : Bool
  rop : Bool
  iop : Bool
  deriving DecidableEq, Repr

def allBool : List Bool := [false, true]

theorem mem_allBool (b : Bool) : b ∈ allBool := by cases b <;> simp [allBool]

def allSub3 : List Sub3 :=
  allBool.flatMap fun a => allBool.flatMap fun b => allBool.map fun c => ⟨a, b, c⟩

theorem mem_allSub3 (s : Sub3) : s ∈ allSub3 := by
  obtain ⟨a, b, c⟩ := s
  simp only [allSub3, List.mem_flatMap, List.mem_map]
  exact ⟨a, mem_allBool a, b, mem_allBool b, c, mem_allBool c, rfl⟩

def allVariant : List Variant := [⟨true⟩, ⟨false⟩]

theorem mem_allVariant (v : Variant) : v ∈ allVariant := by
  obtain ⟨b⟩ := v; cases b <;> simp [allVariant]

def allOpCfg : List OpCfg := [⟨true, true⟩, ⟨true, false⟩, ⟨false, false⟩, ⟨false, true⟩]

theorem mem_allOpCfg (c : OpCfg) : c ∈ allOpCfg := by
  obtain ⟨a, b⟩ := c; cases a <;> cases b <;> simp [allOpCfg]

/-- a class of the given kind with the given base and method subset (no comparison methods) -/
def mkCls (k : Kind) (b : Option Nat) (s : Sub3) : Cls :=
  { kind := k, base := b, op := s.op, rop := s.rop, iop := s.iop }

/-- operation mode: binary `l op r`, in-place `l op= r`, three-argument `pow(l, r, m)` -/
inductive Mode | bin | inp | pow3
  deriving DecidableEq, Repr

def runOp (v : Variant) (w : World) (cfg : OpCfg) (md : Mode) (l r : Nat) : Tree :=
  match md with
  | .bin => binop v w cfg false l r
  | .inp => inplace v w cfg l r
  | .pow3 => binop v w cfg true l r

/-- Boolean form of "the cdef world and the equivalent Python classes produce the same tree" -/
def agree (v : Variant) (w : World) (cfg : OpCfg) (md : Mode) (l r : Nat) : Bool :=
  Tree.beq (runOp v w cfg md l r) (runOp v (pyWorld w) cfg md l r)

theorem agree_eq {v : Variant} {w : World} {cfg : OpCfg} {md : Mode} {l r : Nat}
    (h : agree v w cfg md l r = true) : runOp v w cfg md l r = runOp v (pyWorld w) cfg md l r :=
  Tree.beq_eq h

end CyVerif.C28

import CyVerif.Lemmas.C19Arith
/-! What the range guard (`is_safe_case_value`) establishes about a case label. -/
namespace CyVerif.C19

/-- the guard's range lies inside the promoted C type of the variable -/
def VarKind.WF : VarKind → Prop
  | .cint ty glo ghi _ => 0 < ty.bits ∧ ty.promote.lo ≤ glo ∧ ghi < ty.promote.hiX
  | _ => True

/-- the constant can be written in C (magnitudes gcc accepts; C enumerators are `int`s) -/
def Const.WF : Const → Prop
  | .int _ mag _ u _ => (u = true → mag < 2 ^ 64) ∧ (u = false → mag < 2 ^ 63)
  | .chr c => c < 2 ^ 31
  | .bchr c => c < 2 ^ 31
  | .enum _ v _ => s32.has v = true
  | _ => True

/-- facts Cython cannot see: an enum type represents its own members; an extern constant
has a value of the switch type -/
def SideOK (ty : CTy) (ext : Nat → Int) : Const → Prop
  | .enum _ v true => ty.promote.has v = true
  | .ext i => ty.promote.has (ext i) = true
  | _ => True

theorem lit_val_eq (c : CLit) (h1 : c.u = true → c.mag < 2 ^ 64) (h2 : c.u = false → c.mag < 2 ^ 63)
    (h3 : ¬(c.neg = true ∧ c.u = true ∧ c.mag ≠ 0)) :
    c.val = if c.neg then -(c.mag : Int) else (c.mag : Int) := by
  obtain ⟨neg, mag, u, l⟩ := c
  simp only at h1 h2 h3
  unfold CLit.val
  cases u
  · have hm := h2 rfl
    cases l
    · by_cases hlt : mag < 2 ^ 31
      · apply wrap_of_has
        · simp [CLit.ty, hlt, s32]
        · cases neg <;> simp [CLit.ty, hlt, s32, CTy.has, CTy.lo, CTy.hiX] <;> omega
      · apply wrap_of_has
        · simp [CLit.ty, hlt, s64]
        · cases neg <;> simp [CLit.ty, hlt, s64, CTy.has, CTy.lo, CTy.hiX] <;> omega
    · apply wrap_of_has
      · simp [CLit.ty, s64]
      · cases neg <;> simp [CLit.ty, s64, CTy.has, CTy.lo, CTy.hiX] <;> omega
  · have hm := h1 rfl
    have hz : neg = false ∨ mag = 0 := by
      cases neg
      · exact Or.inl rfl
      · right
        by_cases hmz : mag = 0
        · exact hmz
        · exact absurd ⟨rfl, rfl, hmz⟩ h3
    have hval : (if neg = true then -(mag : Int) else (mag : Int)) = (mag : Int) := by
      rcases hz with hz | hz <;> subst hz <;> simp
    rw [hval]
    cases l
    · by_cases hlt : mag < 2 ^ 32
      · apply wrap_of_has
        · simp [CLit.ty, hlt, u32]
        · simp [CLit.ty, hlt, u32, CTy.has, CTy.lo, CTy.hiX]; omega
      · apply wrap_of_has
        · simp [CLit.ty, hlt, u64]
        · simp [CLit.ty, hlt, u64, CTy.has, CTy.lo, CTy.hiX]; omega
    · apply wrap_of_has
      · simp [CLit.ty, u64]
      · simp [CLit.ty, u64, CTy.has, CTy.lo, CTy.hiX]; omega

theorem range_has (ty : CTy) (glo ghi v : Int) (hlo : ty.promote.lo ≤ glo) (hhi : ghi < ty.promote.hiX)
    (h1 : glo ≤ v) (h2 : v ≤ ghi) : ty.promote.has v = true := by
  unfold CTy.has
  simp only [Bool.and_eq_true, decide_eq_true_eq]
  omega

/-- a constant accepted by the range guard denotes its Python value in C and the promoted
switch type represents it -/
theorem fits_of_safe (V : Variant) (ty : CTy) (glo ghi : Int) (isEnum : Bool) (c : Const) (ext : Nat → Int)
    (hvk : (VarKind.cint ty glo ghi isEnum).WF) (hc : c.WF) (hside : SideOK ty ext c)
    (hint : c.isIntTyped = true) (hs : safeValue V (.cint ty glo ghi isEnum) c = true) :
    ty.promote.has (c.cval ext) = true ∧ c.cval ext = c.pyval ext := by
  obtain ⟨_, hlo, hhi⟩ := hvk
  cases c with
  | int neg mag hex u l =>
    simp only [safeValue, Bool.and_eq_true, Bool.not_eq_eq_eq_not, Bool.not_true, decide_eq_true_eq] at hs
    obtain ⟨⟨hnu, hg1⟩, hg2⟩ := hs
    have hv : (Const.int neg mag hex u l).cval ext = if neg then -(mag : Int) else (mag : Int) := by
      simp only [Const.cval, Const.lit]
      rw [lit_val_eq]
      · exact hc.1
      · exact hc.2
      · simp only
        intro ⟨hn, hu, hm⟩
        simp [hn, hu, hm] at hnu
    simp only [Const.pyval]
    rw [hv]
    exact ⟨range_has ty glo ghi _ hlo hhi hg1 hg2, rfl⟩
  | bool b =>
    simp only [safeValue, Bool.and_eq_true, Const.pyval] at hs
    have hv : (Const.bool b).cval ext = if b then 1 else 0 := by
      simp only [Const.cval, Const.lit]
      rw [lit_val_eq] <;> cases b <;> simp
    rw [hv]
    exact ⟨range_has ty glo ghi _ hlo hhi (of_decide_eq_true hs.1) (of_decide_eq_true hs.2), by simp [Const.pyval]⟩
  | chr code =>
    simp only [safeValue, Bool.and_eq_true, Const.pyval] at hs
    have hv : (Const.chr code).cval ext = (code : Int) := by
      simp only [Const.cval, Const.lit]
      rw [lit_val_eq] <;> simp
      have : code < 2 ^ 31 := hc
      omega
    rw [hv]
    exact ⟨range_has ty glo ghi _ hlo hhi (of_decide_eq_true hs.1) (of_decide_eq_true hs.2), by simp [Const.pyval]⟩
  | bchr code =>
    simp only [safeValue, Bool.and_eq_true, decide_eq_true_eq] at hs
    have hv : (Const.bchr code).cval ext = (code : Int) := by
      simp only [Const.cval, Const.lit]
      rw [lit_val_eq] <;> simp
      have : code < 2 ^ 31 := hc
      omega
    rw [hv]
    exact ⟨range_has ty glo ghi _ hlo hhi hs.1.2 hs.2, by simp [Const.pyval]⟩
  | flt v => simp [Const.isIntTyped] at hint
  | enum id v own =>
    have hw : s32.has v = true := hc
    have hv : (Const.enum id v own).cval ext = v := by
      simp only [Const.cval, Const.lit]
      unfold CTy.has CTy.lo CTy.hiX s32 at hw
      simp only [Bool.and_eq_true, decide_eq_true_eq] at hw
      simp at hw
      rw [lit_val_eq]
      · simp only
        by_cases hneg : v < 0 <;> simp [hneg] <;> omega
      · simp
      · simp; omega
      · simp
    rw [hv]
    refine ⟨?_, by simp [Const.pyval]⟩
    simp only [safeValue, Bool.or_eq_true, Bool.and_eq_true, decide_eq_true_eq] at hs
    rcases hs with ⟨_, hown⟩ | ⟨h1, h2⟩
    · subst hown; exact hside
    · exact range_has ty glo ghi _ hlo hhi h1 h2
  | ext i =>
    exact ⟨hside, rfl⟩

end CyVerif.C19

import CyVerif.Lemmas.C28BinopChk
/-!
# C28 — exhaustive kernel checks, subclass operands
-/
namespace CyVerif.C28

/-- `defines s` : the class body defines `__op__` or `__rop__` -/
def Sub3.defines (s : Sub3) : Bool := s.op || s.rop

/-- base class and cdef subclass as the two operands (both orders): conforms when at most one of the
two classes defines `__op__`/`__rop__` -/
def subChk (v : Variant) (cfg : OpCfg) : Bool :=
  allSub3.all fun a => allSub3.all fun b =>
    (a.defines && b.defines) || (both v (w2 .cdef a b) cfg 0 1 && both v (w2 .cdef a b) cfg 1 0)

theorem subChk_all : (allVariant.all fun v => allOpCfg.all fun cfg => subChk v cfg) = true := by decide +kernel

/-- two sibling cdef subclasses of one base: conforms when the base defines neither method or
neither sibling does -/
def w3s (a b c : Sub3) : World := [mkCls .cdef none a, mkCls .cdef (some 0) b, mkCls .cdef (some 0) c]

def sibChk (v : Variant) (cfg : OpCfg) : Bool :=
  allSub3.all fun a => allSub3.all fun b => allSub3.all fun c =>
    (a.defines && (b.defines || c.defines)) || both v (w3s a b c) cfg 1 2

theorem sibChk_cur_a : sibChk ⟨true⟩ ⟨true, true⟩ = true := by decide +kernel
theorem sibChk_cur_b : sibChk ⟨true⟩ ⟨true, false⟩ = true := by decide +kernel
theorem sibChk_cur_c : sibChk ⟨true⟩ ⟨false, false⟩ = true := by decide +kernel
theorem sibChk_cur_d : sibChk ⟨true⟩ ⟨false, true⟩ = true := by decide +kernel
theorem sibChk_fix_a : sibChk ⟨false⟩ ⟨true, true⟩ = true := by decide +kernel
theorem sibChk_fix_b : sibChk ⟨false⟩ ⟨true, false⟩ = true := by decide +kernel
theorem sibChk_fix_c : sibChk ⟨false⟩ ⟨false, false⟩ = true := by decide +kernel
theorem sibChk_fix_d : sibChk ⟨false⟩ ⟨false, true⟩ = true := by decide +kernel

theorem sibChk_all (v : Variant) (cfg : OpCfg) : sibChk v cfg = true := by
  obtain ⟨b⟩ := v; obtain ⟨c, a⟩ := cfg
  cases b <;> cases c <;> cases a
  · exact sibChk_fix_c
  · exact sibChk_fix_d
  · exact sibChk_fix_b
  · exact sibChk_fix_a
  · exact sibChk_cur_c
  · exact sibChk_cur_d
  · exact sibChk_cur_b
  · exact sibChk_cur_a

/-- Python subclass of a cdef class as one operand (both orders): conforms when the cdef base
defines neither `__op__` nor `__rop__` (`+=` excluded) -/
def pySubChk (v : Variant) (cfg : OpCfg) : Bool :=
  allSub3.all fun a => allSub3.all fun b =>
    a.defines ||
      (agree v (w2 .py a b) cfg .bin 0 1 && agree v (w2 .py a b) cfg .bin 1 0
        && (cfg.isAdd || (agree v (w2 .py a b) cfg .inp 0 1 && agree v (w2 .py a b) cfg .inp 1 0)))

theorem pySubChk_all : (allVariant.all fun v => allOpCfg.all fun cfg => pySubChk v cfg) = true := by decide +kernel

end CyVerif.C28

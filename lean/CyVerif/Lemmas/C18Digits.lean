import CyVerif.Model.C18Int
import CyVerif.Model.C18Spec
/-! C18 lemmas: the digit loops of `CIntToPyUnicode` produce `Nat.toDigits`. -/
namespace CyVerif.C18

theorem flatMap_pair_length (f g : Nat → Char) (n : Nat) :
    ((List.range n).flatMap fun i => [f i, g i]).length = 2 * n := by
  induction n with
  | zero => rfl
  | succ n ih => simp [List.range_succ, List.flatMap_append, ih]; omega

theorem flatMap_pair_get (f g : Nat → Char) : ∀ n k, k < n →
    ((List.range n).flatMap fun i => [f i, g i])[k*2]? = some (f k) ∧
    ((List.range n).flatMap fun i => [f i, g i])[k*2+1]? = some (g k) := by
  intro n
  induction n with
  | zero => intro k hk; omega
  | succ n ih =>
    intro k hk
    have hlen := flatMap_pair_length f g n
    simp only [List.range_succ, List.flatMap_append, List.flatMap_cons, List.flatMap_nil, List.append_nil]
    by_cases h : k < n
    · obtain ⟨h0, h1⟩ := ih k h
      rw [List.getElem?_append_left (by omega), List.getElem?_append_left (by omega)]
      exact ⟨h0, h1⟩
    · have : k = n := by omega
      subst this
      rw [List.getElem?_append_right (by omega), List.getElem?_append_right (by omega), hlen]
      have e0 : k * 2 - 2 * k = 0 := by omega
      have e1 : k * 2 + 1 - 2 * k = 1 := by omega
      rw [e0, e1]; simp

set_option maxRecDepth 100000 in
theorem pairs10_eq : DIGIT_PAIRS_10 =
    (List.range 100).flatMap (fun k => [Nat.digitChar (k/10), Nat.digitChar (k%10)]) := by rfl

set_option maxRecDepth 100000 in
theorem pairs8_eq : DIGIT_PAIRS_8 =
    (List.range 64).flatMap (fun k => [Nat.digitChar (k/8), Nat.digitChar (k%8)]) := by rfl

set_option maxRecDepth 100000 in
theorem hex_eq : DIGITS_HEX = (List.range 16).map Nat.digitChar ++
    (List.range 16).map (fun k => (Nat.digitChar k).toUpper) := by rfl

theorem pairs10_get : ∀ k, k < 100 → tbl DIGIT_PAIRS_10 (k*2) = some (Nat.digitChar (k/10)) ∧
    tbl DIGIT_PAIRS_10 (k*2+1) = some (Nat.digitChar (k%10)) := by
  intro k hk; unfold tbl; rw [pairs10_eq]; exact flatMap_pair_get _ _ 100 k hk

theorem pairs8_get : ∀ k, k < 64 → tbl DIGIT_PAIRS_8 (k*2) = some (Nat.digitChar (k/8)) ∧
    tbl DIGIT_PAIRS_8 (k*2+1) = some (Nat.digitChar (k%8)) := by
  intro k hk; unfold tbl; rw [pairs8_eq]; exact flatMap_pair_get _ _ 64 k hk

theorem hex_get : ∀ k, k < 16 → tbl DIGITS_HEX (0+k) = some (Nat.digitChar k) ∧
    tbl DIGITS_HEX (16+k) = some (Nat.digitChar k).toUpper := by
  intro k hk; unfold tbl; rw [hex_eq]
  constructor
  · rw [List.getElem?_append_left (by simp; omega)]; simp [hk]
  · rw [List.getElem?_append_right (by simp)]; simp [hk]

/-- an odd-length digit string gets one leading '0' from the two-at-a-time copy -/
def padEven (ds : List Char) : List Char := if ds.length % 2 = 1 then '0' :: ds else ds

theorem natAbs_tmod_nat (r : Int) (k : Nat) : (Int.tmod r (k : Int)).natAbs = r.natAbs % k := by
  rw [Int.natAbs_tmod]; simp

theorem natAbs_tdiv_nat (r : Int) (k : Nat) : (Int.tdiv r (k : Int)).natAbs = r.natAbs / k := by
  rw [Int.natAbs_tdiv]; simp only [Int.natAbs_natCast]; rfl

theorem toDigits_two (lim m : Nat) (hlim : 2 ≤ lim) (h : m < lim * lim) :
    padEven (Nat.toDigits lim m) = [Nat.digitChar (m / lim), Nat.digitChar (m % lim)] ∧
    ((Nat.toDigits lim m).length % 2 = 1 ↔ m < lim) := by
  rw [Nat.toDigits_eq_if (by omega)]
  by_cases h1 : m < lim
  · simp [h1, padEven, Nat.div_eq_of_lt h1, Nat.mod_eq_of_lt h1]
  · have : m / lim < lim := (Nat.div_lt_iff_lt_mul (by omega)).mpr h
    simp [h1, padEven, Nat.toDigits_of_lt_base this]

theorem toDigits_step2 (lim m : Nat) (hlim : 2 ≤ lim) (h : lim * lim ≤ m) :
    Nat.toDigits lim m = Nat.toDigits lim (m / (lim * lim)) ++
      [Nat.digitChar (m % (lim * lim) / lim), Nat.digitChar (m % (lim * lim) % lim)] := by
  have hl : 0 < lim := by omega
  have h1 : lim ≤ m := Nat.le_trans (Nat.le_mul_of_pos_left lim hl) h
  have h2 : lim ≤ m / lim := (Nat.le_div_iff_mul_le hl).mpr h
  rw [Nat.toDigits_of_base_le (by omega) h1, Nat.toDigits_of_base_le (by omega) h2,
    Nat.div_div_eq_div_mul, Nat.mod_mul_right_div_self, Nat.mod_mul_right_mod]
  simp

theorem padEven_step (ds : List Char) (a b : Char) :
    padEven (ds ++ [a, b]) = padEven ds ++ [a, b] ∧
    ((ds ++ [a, b]).length % 2 = 1 ↔ ds.length % 2 = 1) := by
  have : (ds ++ [a, b]).length = ds.length + 2 := by simp
  constructor
  · unfold padEven; rw [this]
    by_cases h : ds.length % 2 = 1
    · have : (ds.length + 2) % 2 = 1 := by omega
      simp [h, this]
    · have : ¬ (ds.length + 2) % 2 = 1 := by omega
      simp [h]
  · rw [this]; omega

end CyVerif.C18

namespace CyVerif.C18

theorem tdiv_eq_zero_iff_nat (r : Int) (k : Nat) : Int.tdiv r (k : Int) = 0 ↔ r.natAbs / k = 0 := by
  rw [← natAbs_tdiv_nat, Int.natAbs_eq_zero]

/-- one `case 'o'`/`case 'd'` iteration, in terms of the magnitude -/
theorem pairStep_eq (table : List Char) (sq lim : Nat) (hlim : 2 ≤ lim) (hsq : sq = lim * lim)
    (htab : ∀ k, k < sq → tbl table (k*2) = some (Nat.digitChar (k/lim)) ∧
      tbl table (k*2+1) = some (Nat.digitChar (k%lim)))
    (rem : Int) (b : DBuf) (hd : 2 ≤ b.dpos) :
    pairStep table sq lim rem b = .ok (Int.tdiv rem sq,
      ⟨b.dpos - 2, Nat.digitChar (rem.natAbs % sq / lim) :: Nat.digitChar (rem.natAbs % sq % lim) :: b.cells⟩,
      decide (rem.natAbs % sq < lim)) := by
  have hsqpos : 0 < sq := by subst hsq; exact Nat.mul_pos (by omega) (by omega)
  have hlt : rem.natAbs % sq < sq := Nat.mod_lt _ hsqpos
  obtain ⟨h0, h1⟩ := htab _ hlt
  unfold pairStep
  simp only [natAbs_tmod_nat, h0, h1, DBuf.push2, hd, if_true]

theorem loopWith_pair (table : List Char) (sq lim : Nat) (hlim : 2 ≤ lim) (hsq : sq = lim * lim)
    (htab : ∀ k, k < sq → tbl table (k*2) = some (Nat.digitChar (k/lim)) ∧
      tbl table (k*2+1) = some (Nat.digitChar (k%lim)))
    (step : Int → DBuf → Bool → Except String (Int × DBuf × Bool))
    (hstep : ∀ r b l, step r b l = pairStep table sq lim r b) :
    ∀ (k fuel : Nat) (rem : Int) (b : DBuf) (loo : Bool),
      rem.natAbs < sq ^ (k+1) → 2 * (k+1) ≤ b.dpos → k + 1 ≤ fuel →
      loopWith step fuel rem b loo =
        .ok (⟨b.dpos - (padEven (Nat.toDigits lim rem.natAbs)).length,
              padEven (Nat.toDigits lim rem.natAbs) ++ b.cells⟩,
             decide ((Nat.toDigits lim rem.natAbs).length % 2 = 1))
      ∧ (padEven (Nat.toDigits lim rem.natAbs)).length ≤ 2 * (k+1) := by
  have hsqpos : 0 < sq := by subst hsq; exact Nat.mul_pos (by omega) (by omega)
  intro k
  induction k with
  | zero =>
    intro fuel rem b loo hm hd hf
    obtain ⟨f, rfl⟩ : ∃ f, fuel = f + 1 := ⟨fuel - 1, by omega⟩
    have hm' : rem.natAbs < lim * lim := by simpa [hsq] using hm
    have hq : Int.tdiv rem sq = 0 := (tdiv_eq_zero_iff_nat _ _).mpr (Nat.div_eq_of_lt (by omega))
    obtain ⟨hp, hodd⟩ := toDigits_two lim rem.natAbs hlim hm'
    unfold loopWith
    rw [hstep, pairStep_eq table sq lim hlim hsq htab rem b (by omega)]
    simp only [hq, ne_eq, not_true_eq_false, if_false]
    rw [hp, Nat.mod_eq_of_lt (by omega : rem.natAbs < sq)]
    simp [hodd]
  | succ k ih =>
    intro fuel rem b loo hm hd hf
    obtain ⟨f, rfl⟩ : ∃ f, fuel = f + 1 := ⟨fuel - 1, by omega⟩
    unfold loopWith
    rw [hstep, pairStep_eq table sq lim hlim hsq htab rem b (by omega)]
    by_cases hq : rem.natAbs / sq = 0
    · have hq' : Int.tdiv rem sq = 0 := (tdiv_eq_zero_iff_nat _ _).mpr hq
      have hm' : rem.natAbs < lim * lim := by
        rw [← hsq]; exact (Nat.div_eq_zero_iff.mp hq).resolve_left (by omega)
      obtain ⟨hp, hodd⟩ := toDigits_two lim rem.natAbs hlim hm'
      simp only [hq', ne_eq, not_true_eq_false, if_false]
      rw [hp, Nat.mod_eq_of_lt (by omega : rem.natAbs < sq)]
      simp [hodd]
      omega
    · have hq' : Int.tdiv rem sq ≠ 0 := fun h => hq ((tdiv_eq_zero_iff_nat _ _).mp h)
      have hge : lim * lim ≤ rem.natAbs := by
        rw [← hsq]
        rcases Nat.lt_or_ge rem.natAbs sq with h | h
        · exact absurd (Nat.div_eq_of_lt h) hq
        · exact h
      have hm2 : (Int.tdiv rem sq).natAbs < sq ^ (k+1) := by
        rw [natAbs_tdiv_nat]
        apply (Nat.div_lt_iff_lt_mul hsqpos).mpr
        rw [← Nat.pow_succ]; exact hm
      simp only [ne_eq, hq', not_false_eq_true, if_true]
      obtain ⟨e, hl⟩ := ih f (Int.tdiv rem sq) ⟨b.dpos - 2, _ :: _ :: b.cells⟩
        (decide (rem.natAbs % sq < lim)) hm2 (by simp; omega) (by omega)
      rw [e, natAbs_tdiv_nat]
      have hs := toDigits_step2 lim rem.natAbs hlim hge
      rw [← hsq] at hs
      obtain ⟨hpe, hpar⟩ := padEven_step (Nat.toDigits lim (rem.natAbs / sq))
        (Nat.digitChar (rem.natAbs % sq / lim)) (Nat.digitChar (rem.natAbs % sq % lim))
      rw [natAbs_tdiv_nat] at hl
      rw [hs, hpe, decide_eq_decide.mpr hpar]
      simp only [List.length_append, List.append_assoc, List.cons_append, List.nil_append,
        List.length_cons, List.length_nil]
      refine ⟨?_, by omega⟩
      congr 2
      simp only [DBuf.mk.injEq, and_true]
      omega

end CyVerif.C18

namespace CyVerif.C18

theorem tdiv16_zero (r : Int) : Int.tdiv r 16 = 0 ↔ r.natAbs / 16 = 0 := tdiv_eq_zero_iff_nat r 16

theorem natAbs_tdiv16 (r : Int) : (Int.tdiv r 16).natAbs = r.natAbs / 16 := natAbs_tdiv_nat r 16

theorem hexStep_eq (off : Nat) (f : Char → Char)
    (htab : ∀ k, k < 16 → tbl DIGITS_HEX (off + k) = some (f (Nat.digitChar k)))
    (rem : Int) (b : DBuf) (loo : Bool) (hd : 1 ≤ b.dpos) :
    hexStep off rem b loo = .ok (Int.tdiv rem 16,
      ⟨b.dpos - 1, f (Nat.digitChar (rem.natAbs % 16)) :: b.cells⟩, loo) := by
  have h := htab (rem.natAbs % 16) (Nat.mod_lt _ (by omega))
  unfold hexStep
  have e : (Int.tmod rem 16).natAbs = rem.natAbs % 16 := natAbs_tmod_nat rem 16
  simp only [e, h, DBuf.push1, hd, if_true]

theorem loopWith_hex (off : Nat) (f : Char → Char)
    (htab : ∀ k, k < 16 → tbl DIGITS_HEX (off + k) = some (f (Nat.digitChar k)))
    (step : Int → DBuf → Bool → Except String (Int × DBuf × Bool))
    (hstep : ∀ r b l, step r b l = hexStep off r b l) :
    ∀ (k fuel : Nat) (rem : Int) (b : DBuf) (loo : Bool),
      rem.natAbs < 16 ^ (k+1) → k + 1 ≤ b.dpos → k + 1 ≤ fuel →
      loopWith step fuel rem b loo =
        .ok (⟨b.dpos - (Nat.toDigits 16 rem.natAbs).length,
              (Nat.toDigits 16 rem.natAbs).map f ++ b.cells⟩, loo)
      ∧ (Nat.toDigits 16 rem.natAbs).length ≤ k + 1 := by
  intro k
  induction k with
  | zero =>
    intro fuel rem b loo hm hd hf
    obtain ⟨g, rfl⟩ : ∃ g, fuel = g + 1 := ⟨fuel - 1, by omega⟩
    have hm' : rem.natAbs < 16 := by simpa using hm
    have hq : Int.tdiv rem 16 = 0 := (tdiv16_zero _).mpr (Nat.div_eq_of_lt hm')
    unfold loopWith
    rw [hstep, hexStep_eq off f htab rem b loo (by omega)]
    simp only [hq, ne_eq, not_true_eq_false, if_false]
    rw [Nat.toDigits_of_lt_base hm', Nat.mod_eq_of_lt hm']
    simp
  | succ k ih =>
    intro fuel rem b loo hm hd hf
    obtain ⟨g, rfl⟩ : ∃ g, fuel = g + 1 := ⟨fuel - 1, by omega⟩
    unfold loopWith
    rw [hstep, hexStep_eq off f htab rem b loo (by omega)]
    by_cases hq : rem.natAbs / 16 = 0
    · have hq' : Int.tdiv rem 16 = 0 := (tdiv16_zero _).mpr hq
      have hm' : rem.natAbs < 16 := (Nat.div_eq_zero_iff.mp hq).resolve_left (by omega)
      simp only [hq', ne_eq, not_true_eq_false, if_false]
      rw [Nat.toDigits_of_lt_base hm', Nat.mod_eq_of_lt hm']
      simp
    · have hq' : Int.tdiv rem 16 ≠ 0 := fun h => hq ((tdiv16_zero _).mp h)
      have hge : 16 ≤ rem.natAbs := by omega
      have hm2 : (Int.tdiv rem 16).natAbs < 16 ^ (k+1) := by
        rw [natAbs_tdiv16]
        apply (Nat.div_lt_iff_lt_mul (by omega)).mpr
        rw [← Nat.pow_succ]; exact hm
      obtain ⟨e, hl⟩ := ih g (Int.tdiv rem 16) ⟨b.dpos - 1, _ :: b.cells⟩ loo hm2
        (by simp; omega) (by omega)
      simp only [ne_eq, hq', not_false_eq_true, if_true]
      rw [e]
      rw [natAbs_tdiv16] at hl ⊢
      rw [Nat.toDigits_of_base_le (by omega) hge]
      simp only [List.length_append, List.map_append, List.append_assoc, List.cons_append, List.nil_append,
        List.length_cons, List.length_nil, List.map_cons, List.map_nil]
      refine ⟨?_, by omega⟩
      congr 2
      simp only [DBuf.mk.injEq, and_true]
      omega

end CyVerif.C18

import CyVerif.Lemmas.C50ScanC
/-! Scanner loop, part D: the symbol stream of the scanner is the declarative event stream of the text:
BOL at the start of every line, EOL before every newline and at the end of the text, then EOF. -/
namespace CyVerif.C50

def evGo : List Nat → List CurChar
  | [] => [.eol, .eof]
  | ch :: r => if ch = 10 then .eol :: .chr 10 :: .bol :: evGo r else .chr ch :: evGo r

/-- the event stream of a text -/
def eventsOf (text : List Nat) : List CurChar := .bol :: evGo text

/-- the rest of the event stream seen from a consistent cursor -/
def streamOf (text : List Nat) (c : Cursor) : List CurChar :=
  if c.inputState = 1 then
    (if c.curChar = .bol then .bol :: evGo (text.drop c.curPos) else evGo (text.drop c.curPos))
  else if c.inputState = 2 then evGo (text.drop c.curPos)
  else if c.inputState = 3 then .chr 10 :: .bol :: evGo (text.drop (c.curPos + 1))
  else if c.inputState = 4 then [.eol, .eof]
  else if c.curChar = .eof then [.eof] else []

theorem drop_cons_of_get {text : List Nat} {p ch : Nat} (h : text[p]? = some ch) :
    text.drop p = ch :: text.drop (p + 1) := by
  have hlt := getElem?_lt h
  rw [List.drop_eq_getElem_cons hlt]
  rw [List.getElem?_eq_getElem hlt] at h
  simp only [Option.some.injEq] at h
  rw [h]

theorem streamOf_state1 (text : List Nat) (c : Cursor) (h1 : c.inputState = 1) (hp : c.nextPos ≤ text.length) :
    streamOf text (nextChar text c) = evGo (text.drop c.nextPos) := by
  unfold nextChar
  simp only [h1, if_true]
  cases hg : text[c.nextPos]? with
  | none =>
    have : text.length ≤ c.nextPos := by
      by_cases hlt : c.nextPos < text.length
      · rw [List.getElem?_eq_getElem hlt] at hg; cases hg
      · omega
    rw [List.drop_eq_nil_of_le this]
    simp [streamOf, evGo]
  | some ch =>
    rw [drop_cons_of_get hg]
    by_cases h10 : ch = 10
    · subst h10
      simp only [if_true, streamOf]
      simp [drop_cons_of_get hg]
    · simp only [h10, if_false, streamOf, h1, if_true]
      simp [drop_cons_of_get hg]

theorem evStream_streamOf (text : List Nat) : ∀ (m : Nat) (c : Cursor), curMeasure text c = m → CursorOK text c →
    evStream text c = streamOf text c := by
  intro m
  induction m using Nat.strongRecOn with
  | ind m ih =>
    intro c hm h
    rw [evStream_eq text c]
    by_cases hne : c.curChar = .empty
    · rcases h with ⟨_, h2, _⟩ | ⟨_, ch, h2, _⟩ | ⟨_, h2, _⟩ | ⟨_, h2, _⟩ | ⟨_, h2, _⟩ | ⟨h1, _, _⟩
      · rw [h2] at hne; cases hne
      · rw [h2] at hne; cases hne
      · rw [h2] at hne; cases hne
      · rw [h2] at hne; cases hne
      · rw [h2] at hne; cases hne
      · simp [hne, streamOf, h1]
    · simp only [hne, if_false]
      obtain ⟨ok1, _⟩ := nextChar_ok text c h hne
      have hlt := nextChar_measure text c hne
      rw [ih (curMeasure text (nextChar text c)) (by omega) (nextChar text c) rfl ok1]
      rcases h with ⟨h1, h2, h3, h4⟩ | ⟨h1, ch, h2, h3, h4, h5⟩ | ⟨h1, h2, h3, h4⟩ | ⟨h1, h2, h3, h4⟩ |
        ⟨h1, h2, h3, h4⟩ | ⟨h1, h2, h3, h4⟩
      · rw [streamOf_state1 text c h1 (by omega)]
        simp [streamOf, h1, h2, h3]
      · rw [streamOf_state1 text c h1 (by have := getElem?_lt h4; omega)]
        have hb : ¬ (CurChar.chr ch = CurChar.bol) := by simp
        simp only [streamOf, h1, h2, if_true, hb, if_false, h5]
        rw [drop_cons_of_get h4]
        simp [evGo, h3]
      · simp only [streamOf, h1, h2]
        rw [drop_cons_of_get h3]
        simp [nextChar, h1, evGo]
      · simp only [streamOf, h1, h2]
        simp [nextChar, h1, h4]
      · simp [streamOf, h1, h2, nextChar]
      · rcases h2 with h2 | h2
        · simp [streamOf, h1, h2, nextChar]
        · exact absurd h2 hne

/-- the scanner starts on the event stream of the whole text -/
theorem evStream_init (text : List Nat) : evStream text Cursor.init = eventsOf text := by
  rw [evStream_streamOf text _ Cursor.init rfl (cursorOK_init text)]
  simp [streamOf, Cursor.init, eventsOf]

theorem charsOf_evGo (t : List Nat) : charsOf (evGo t) = t := by
  induction t with
  | nil => rfl
  | cons ch r ih =>
    simp only [evGo]
    split
    · rename_i h; subst h; simp [charsOf, ih]
    · simp [charsOf, ih]

/-- the characters of the event stream are the text -/
theorem charsOf_eventsOf (t : List Nat) : charsOf (eventsOf t) = t := by
  simp [eventsOf, charsOf, charsOf_evGo]

end CyVerif.C50

import CyVerif.Lemmas.C05Join
/-!
`__PYX_VERIFY_RETURN_INT`, the C-API fall-backs, byte arrays.
-/
namespace CyVerif.C05

/-- The property: the value if it fits the type, `OverflowError` otherwise. -/
def spec (t : CTy) (v : Int) : Out := if t.inRange v then .ok v else .err "OverflowError"

theorem cty_ext {t f : CTy} (h1 : t.bytes = f.bytes) (h2 : t.signed = f.signed) : t = f := by
  cases t; cases f; simp_all

theorem cast_cast_of_le {t f : CTy} (ht : 0 < t.bytes) (hs : t.signed = f.signed) (hb : t.bytes ≤ f.bytes)
    (x : Int) : cast f (cast t x) = cast t x :=
  cast_of_inRange (by omega) (inRange_mono hs hb (cast_inRange ht x))

theorem cast_unsigned_eq {f : CTy} (hfs : f.signed = false) (x : Int) : cast f x = x % two f.bits := by
  unfold cast; simp [hfs]

theorem out_overflow (t : CTy) (path : String) : (raiseOverflow t path).out t = .err "OverflowError" := by
  simp [raiseOverflow, R.out]

theorem out_neg_overflow (t : CTy) (path : String) : (raiseNegOverflow t path).out t = .err "OverflowError" := by
  simp [raiseNegOverflow, R.out]

/-- VERIFY with target and function type of the same signedness. -/
theorem verify_same {t f : CTy} (ht : 0 < t.bytes) (hf : 0 < f.bytes) (hs : t.signed = f.signed)
    {value : Int} (hv : f.inRange value) (isU exc : Bool) (path : String) :
    (verify t f isU exc value none path).out t = spec t value := by
  unfold verify spec
  simp only [cast_of_inRange hf hv]
  by_cases hlt : t.bytes < f.bytes
  · simp only [hlt, if_true]
    rw [cast_cast_of_le ht hs (by omega)]
    by_cases hr : t.inRange value
    · simp [cast_of_inRange ht hr, hr, R.out]
    · have hne : value ≠ cast t value := fun e => hr ((cast_eq_iff ht value).mp e.symm)
      simp only [ne_eq, hne, not_false_eq_true, if_true, Option.isSome_none, Bool.false_eq_true, and_false, if_false, hr]
      split <;> simp [out_overflow, out_neg_overflow]
  · simp only [hlt, if_false]
    have hr : t.inRange value := inRange_mono hs.symm (by omega) hv
    simp [cast_of_inRange ht hr, hr, R.out]

/-- VERIFY of a non-negative `unsigned` function value below half the range against a signed target
(`__Pyx_PySLong_…`, positive digits branch). -/
theorem verify_mixed {t f : CTy} (ht : 0 < t.bytes) (hf : 0 < f.bytes) (hts : t.signed = true) (hfs : f.signed = false)
    {value : Int} (h0 : 0 ≤ value) (hv : value < two (f.bits - 1)) (isU exc : Bool) (path : String) :
    (verify t f isU exc value none path).out t = spec t value := by
  have hfb := two_bits hf
  have htb := two_bits ht
  have hfp := two_pos (f.bits - 1)
  have hfr : f.inRange value := by rw [inRange_unsigned hfs]; omega
  unfold verify spec
  simp only [cast_of_inRange hf hfr]
  by_cases hlt : t.bytes < f.bytes
  · simp only [hlt, if_true]
    by_cases hr : t.inRange value
    · simp [cast_of_inRange ht hr, cast_of_inRange hf hfr, hr, R.out]
    · have hu := cast_inRange ht value
      rw [inRange_signed hts] at hu
      have hne : cast t value ≠ value := fun e => hr ((cast_eq_iff ht value).mp e)
      have hle : two (t.bits - 1) ≤ two (f.bits - 1) := two_le_two (by have := bits_lt hlt; omega)
      have hne2 : value ≠ cast f (cast t value) := by
        by_cases hu0 : 0 ≤ cast t value
        · rw [cast_of_inRange hf (by rw [inRange_unsigned hfs]; omega)]; exact fun e => hne e.symm
        · have : cast f (cast t value) = cast t value + two f.bits := by
            rw [cast_unsigned_eq hfs, ← Int.add_emod_right, Int.emod_eq_of_lt (by omega) (by omega)]
          omega
      simp only [ne_eq, hne2, not_false_eq_true, if_true, Option.isSome_none, Bool.false_eq_true, and_false, if_false, hr]
      split <;> simp [out_overflow, out_neg_overflow]
  · simp only [hlt, if_false]
    have hle : two (f.bits - 1) ≤ two (t.bits - 1) := two_le_two (by have := bits_le (t := f) (f := t) (by omega); omega)
    have hr : t.inRange value := by rw [inRange_signed hts]; omega
    simp [cast_of_inRange ht hr, hr, R.out]

/-- VERIFY_EXC after the API call failed (returned `(f)-1` with the error indicator set). -/
theorem verify_pending {t f : CTy} (ht : 0 < t.bytes) (hs : t.signed = f.signed) (hb : t.bytes ≤ f.bytes)
    (isU : Bool) (e : String) (path : String) :
    (verify t f isU true (cast f (-1)) (some e) path).out t = .err e := by
  have hf : 0 < f.bytes := by omega
  have hfb := two_bits hf
  have htb := two_bits ht
  have hfp := two_pos (f.bits - 1)
  have htp := two_pos (t.bits - 1)
  unfold verify
  simp only [cast_of_inRange hf (cast_inRange hf (-1))]
  by_cases hlt : t.bytes < f.bytes
  · simp only [hlt, if_true]
    cases hfs : f.signed with
    | true =>
      have hts : t.signed = true := by rw [hs, hfs]
      simp [cast_neg_one_signed hf hfs, cast_neg_one_signed ht hts, R.out]
    | false =>
      have hts : t.signed = false := by rw [hs, hfs]
      have h1 : cast t (cast f (-1)) = cast t (-1) := by
        unfold cast; simp only [hts, hfs, Bool.false_eq_true, if_false]
        exact Int.emod_emod_of_dvd _ (two_dvd (bits_le hb))
      have hlt2 : two t.bits < two f.bits := two_lt_two (bits_lt hlt)
      have hne : cast f (-1) ≠ cast f (cast t (cast f (-1))) := by
        rw [h1, cast_cast_of_le ht hs hb, cast_neg_one_unsigned hf hfs, cast_neg_one_unsigned ht hts]; omega
      simp [hne, R.out]
  · simp only [hlt, if_false]
    have : t = f := cty_ext (by omega) hs
    subst this
    simp [cast_of_inRange hf (cast_inRange hf (-1)), R.out]

theorem apiAs_ok {f : CTy} {v : Int} (h : f.inRange v) : apiAs f v = (v, none) := by
  unfold apiAs; rw [if_pos h]

theorem apiAs_fail {f : CTy} {v : Int} (h : ¬ f.inRange v) : apiAs f v = (cast f (-1), some "OverflowError") := by
  unfold apiAs; rw [if_neg h]

/-- C-API conversion to `f` followed by VERIFY_EXC into a target not larger than `f`. -/
theorem api_verify {t f : CTy} (ht : 0 < t.bytes) (hs : t.signed = f.signed) (hb : t.bytes ≤ f.bytes)
    (v : Int) (isU : Bool) (path : String) :
    (verify t f isU true (apiAs f v).1 (apiAs f v).2 path).out t = spec t v := by
  have hf : 0 < f.bytes := by omega
  unfold apiAs
  by_cases hr : f.inRange v
  · simp only [hr, if_true]; exact verify_same ht hf hs hr isU true path
  · simp only [hr, if_false]
    rw [verify_pending ht hs hb]
    have : ¬ t.inRange v := fun h => hr (inRange_mono hs hb h)
    simp [spec, this]

/-! ### byte arrays -/

theorem pow256 (n : Nat) : 256 ^ n = 2 ^ (8 * n) := by
  rw [Nat.pow_mul]

theorem ofBytesLE_bytesLE (n x : Nat) : ofBytesLE (bytesLE n x) = x % 256 ^ n := by
  induction n generalizing x with
  | zero => simp [bytesLE, ofBytesLE, Nat.mod_one]
  | succ n ih =>
    simp only [bytesLE, ofBytesLE, ih]
    rw [Nat.pow_succ, Nat.mul_comm (256 ^ n) 256, Nat.mod_mul]

theorem fromBytes_toBytes {t : CTy} (ht : 0 < t.bytes) {v : Int} (hv : t.inRange v) :
    fromBytes t (toBytes t v) = v := by
  have htb := two_bits ht
  have htp := two_pos (t.bits - 1)
  have hm0 : 0 ≤ v % two t.bits := Int.emod_nonneg _ (by omega)
  have hm1 : v % two t.bits < two t.bits := Int.emod_lt_of_pos _ (by omega)
  have hu : ((ofBytesLE (toBytes t v) : Nat) : Int) = v % two t.bits := by
    unfold toBytes
    rw [ofBytesLE_bytesLE, pow256]
    have : ((v % two t.bits).toNat : Int) = v % two t.bits := Int.toNat_of_nonneg hm0
    have hlt : (v % two t.bits).toNat < 2 ^ (8 * t.bytes) := by
      have : ((v % two t.bits).toNat : Int) < ((2 ^ (8 * t.bytes) : Nat) : Int) := by rw [this]; exact hm1
      exact Int.ofNat_lt.mp this
    rw [Nat.mod_eq_of_lt hlt]; exact this
  unfold fromBytes
  simp only [hu]
  cases hs : t.signed with
  | true =>
    rw [inRange_signed hs] at hv
    by_cases h0 : 0 ≤ v
    · have : v % two t.bits = v := Int.emod_eq_of_lt h0 (by omega)
      rw [this]; simp; omega
    · have : v % two t.bits = v + two t.bits := by
        rw [← Int.add_emod_right, Int.emod_eq_of_lt (by omega) (by omega)]
      rw [this]; simp; omega
  | false =>
    rw [inRange_unsigned hs] at hv
    have : v % two t.bits = v := Int.emod_eq_of_lt hv.1 hv.2
    simp [this]

theorem largeByteArray_spec {t : CTy} (ht : 0 < t.bytes) (v : Int) : (largeByteArray t v).out t = spec t v := by
  unfold largeByteArray asByteArray spec
  rw [isUnsigned_eq ht]
  have : (⟨t.bytes, !!t.signed⟩ : CTy) = t := by cases t; simp
  simp only [this]
  by_cases hr : t.inRange v
  · simp [hr, R.out, fromBytes_toBytes ht hr]
  · simp [hr, R.out]

end CyVerif.C05

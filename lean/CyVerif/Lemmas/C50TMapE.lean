import CyVerif.Lemmas.C50TMapD
/-! TransitionMap, part E: the effect of `add` / `add_set` on the lookup function. -/
namespace CyVerif.C50

/-- the update applied by the `while i < j` loop, expressed on codes -/
def rangeUpd (f : SSet → SSet) (c0 c1 : Int) (e : Int × SSet) : Int × SSet :=
  if c0 ≤ e.1 ∧ e.1 < c1 then (e.1, f e.2) else e

theorem rangeUpd_fst (f : SSet → SSet) (c0 c1 : Int) (e : Int × SSet) : (rangeUpd f c0 c1 e).1 = e.1 := by
  unfold rangeUpd; split <;> rfl

theorem map_rangeUpd_codes (f : SSet → SSet) (c0 c1 : Int) (l : List (Int × SSet)) :
    (l.map (rangeUpd f c0 c1)).map (·.1) = l.map (·.1) := by
  simp [List.map_map, Function.comp_def, rangeUpd_fst]

theorem lookup_map_range {l : List (Int × SSet)} (hs : (l.map (·.1)).Pairwise (· < ·)) (f : SSet → SSet)
    (c0 c1 c : Int) (h0 : c0 < c1 → ∃ e ∈ l, e.1 = c0) (h1 : c0 < c1 → (∃ e ∈ l, e.1 = c1) ∨ c < c1) :
    lookupEnts (l.map (rangeUpd f c0 c1)) c [] =
      if c0 ≤ c ∧ c < c1 then f (lookupEnts l c []) else lookupEnts l c [] := by
  by_cases hex : ∃ e ∈ l, e.1 ≤ c
  · obtain ⟨pre, e, post, hl, he, hpost, hpre⟩ := decomp_at hs hex
    have hdist : ∀ e' ∈ l, e'.1 = e.1 ∨ e'.1 < e.1 ∨ c < e'.1 := by
      intro e' he'
      rw [hl] at he'
      simp only [List.mem_append, List.mem_cons] at he'
      rcases he' with h | h | h
      · exact .inr (.inl (hpre e' h))
      · subst h; exact .inl rfl
      · exact .inr (.inr (hpost e' h))
    have hiff : (c0 ≤ e.1 ∧ e.1 < c1) ↔ (c0 ≤ c ∧ c < c1) := by
      constructor
      · rintro ⟨a, b⟩
        refine ⟨by omega, ?_⟩
        rcases h1 (by omega) with ⟨e', he', hc⟩ | hc
        · rcases hdist e' he' with h | h | h <;> omega
        · exact hc
      · rintro ⟨a, b⟩
        obtain ⟨e0, he0, hc⟩ := h0 (by omega)
        rcases hdist e0 he0 with h | h | h <;> omega
    rw [hl, List.map_append, List.map_cons]
    rw [lookupEnts_decomp (by rw [rangeUpd_fst]; exact he)
        (by intro x hx; obtain ⟨y, hy, rfl⟩ := List.mem_map.1 hx; rw [rangeUpd_fst]; exact hpost y hy)]
    rw [lookupEnts_decomp he hpost]
    unfold rangeUpd
    by_cases hc : c0 ≤ c ∧ c < c1
    · simp [hc, hiff.2 hc]
    · have : ¬ (c0 ≤ e.1 ∧ e.1 < c1) := fun h => hc (hiff.1 h)
      simp [hc, this]
  · have habove : ∀ x ∈ l, c < x.1 := by
      intro x hx
      by_cases hxc : x.1 ≤ c
      · exact absurd ⟨x, hx, hxc⟩ hex
      · omega
    rw [lookupEnts_above habove]
    rw [lookupEnts_above (by
      intro x hx; obtain ⟨y, hy, rfl⟩ := List.mem_map.1 hx; rw [rangeUpd_fst]; exact habove y hy)]
    have : ¬ (c0 ≤ c ∧ c < c1) := by
      rintro ⟨a, b⟩
      obtain ⟨e0, he0, hc⟩ := h0 (by omega)
      have := habove e0 he0
      omega
    simp [this]

/-- an entry exists at every index below the length -/
theorem TMap.entry_at (m : TMap) {k : Nat} (hk : k < m.ents.length) : ∃ e ∈ m.ents, e.1 = m.codeAt k :=
  ⟨m.ents[k], List.getElem_mem hk, (m.codeAt_of_lt hk).symm⟩

/-- replacing sets while keeping codes keeps the invariant -/
theorem TMap.wf_map (m : TMap) (h : m.WF) (f : SSet → SSet) (hf : ∀ s, Sorted s → Sorted (f s)) (c0 c1 : Int) :
    TMap.WF { m with ents := m.ents.map (rangeUpd f c0 c1) } := by
  refine ⟨?_, ?_, h.last, ?_, ?_, h.spSets, h.spKeys⟩
  · have := h.first
    cases hm : m.ents with
    | nil => exact absurd hm h.ne
    | cons e es =>
      simp only [TMap.codeAt, hm, List.map_cons, List.getElem?_cons_zero, rangeUpd_fst] at this ⊢
      exact this
  · simpa using h.ne
  · simp only [TMap.allCodes, map_rangeUpd_codes]; exact h.incr
  · intro e he
    obtain ⟨y, hy, rfl⟩ := List.mem_map.1 he
    unfold rangeUpd
    split
    · exact hf _ (h.sets y hy)
    · exact h.sets y hy

end CyVerif.C50

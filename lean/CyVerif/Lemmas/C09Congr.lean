import CyVerif.Lemmas.C09Same
/-! C09 part B: Python `==` on values respects `same`; so does what a set keeps. -/
namespace CyVerif.C09

theorem floatEqInt_nan (x : Nat) (n : Int) (h : fIsNaN x = true) : floatEqInt x n = false := by
  simp only [fIsNaN, Bool.and_eq_true, beq_iff_eq] at h
  simp [floatEqInt, h.1]

theorem pyEqAtom_nan_left (x : Nat) (b : Atom) (h : fIsNaN x = true) : pyEqAtom (.float x) b = false := by
  cases b <;> simp [pyEqAtom, floatEq, h, floatEqInt_nan x _ h]

theorem pyEqAtom_nan_right (a : Atom) (x : Nat) (h : fIsNaN x = true) : pyEqAtom a (.float x) = false := by
  cases a <;> simp [pyEqAtom, floatEq, h, floatEqInt_nan x _ h]

theorem pyEqAtom_congr {a a' b b' : Atom} (h1 : sameAtom a a' = true) (h2 : sameAtom b b' = true) :
    pyEqAtom a b = pyEqAtom a' b' := by
  rcases sameAtom_cases h1 with rfl | ⟨x, y, rfl, rfl, hx, hy⟩
  · rcases sameAtom_cases h2 with rfl | ⟨u, w, rfl, rfl, hu, hw⟩
    · rfl
    · rw [pyEqAtom_nan_right _ u hu, pyEqAtom_nan_right _ w hw]
  · rw [pyEqAtom_nan_left x _ hx, pyEqAtom_nan_left y _ hy]

mutual
theorem pyEqVal_congr : ∀ (x x' y y' : Val), same x x' = true → same y y' = true →
    pyEqVal x y = pyEqVal x' y'
  | .atom a, x', y, y', h1, h2 => by
    cases x' <;> simp [same] at h1
    cases y <;> cases y' <;> simp [same] at h2 <;> simp [pyEqVal]
    exact pyEqAtom_congr h1 h2
  | .tuple xs, x', y, y', h1, h2 => by
    cases x' <;> simp [same] at h1
    cases y <;> cases y' <;> simp [same] at h2 <;> simp [pyEqVal]
    exact pyEqVals_congr xs _ _ _ h1 h2
  | .fset xs, x', y, y', h1, h2 => by
    cases x' <;> simp [same] at h1
    simp [pyEqVal]
  | .slice a b c, x', y, y', h1, h2 => by
    cases x' <;> simp [same] at h1
    cases y <;> cases y' <;> simp [same] at h2 <;> simp [pyEqVal]
    rw [pyEqVal_congr a _ _ _ h1.1.1 h2.1.1, pyEqVal_congr b _ _ _ h1.1.2 h2.1.2, pyEqVal_congr c _ _ _ h1.2 h2.2]
theorem pyEqVals_congr : ∀ (xs xs' ys ys' : List Val), sameL xs xs' = true → sameL ys ys' = true →
    pyEqVals xs ys = pyEqVals xs' ys'
  | [], xs', ys, ys', h1, h2 => by
    cases xs' <;> simp [sameL] at h1
    cases ys <;> cases ys' <;> simp [sameL] at h2 <;> simp [pyEqVals]
  | x :: xs, xs', ys, ys', h1, h2 => by
    cases xs' with
    | nil => simp [sameL] at h1
    | cons x' xs' =>
      simp only [sameL, Bool.and_eq_true] at h1
      cases ys with
      | nil => cases ys' <;> simp [sameL] at h2; simp [pyEqVals]
      | cons y ys =>
        cases ys' with
        | nil => simp [sameL] at h2
        | cons y' ys' =>
          simp only [sameL, Bool.and_eq_true] at h2
          simp only [pyEqVals]
          rw [pyEqVal_congr x x' y y' h1.1 h2.1, pyEqVals_congr xs xs' ys ys' h1.2 h2.2]
end

theorem any_congr : ∀ (s s' : List Val) (x x' : Val), sameL s s' = true → same x x' = true →
    s.any (fun t => pyEqVal t x) = s'.any (fun t => pyEqVal t x') := by
  intro s
  induction s with
  | nil => intro s' x x' h _; cases s' <;> simp [sameL] at h; rfl
  | cons t ts ih =>
    intro s' x x' h hx
    cases s' with
    | nil => simp [sameL] at h
    | cons t' ts' =>
      simp only [sameL, Bool.and_eq_true] at h
      simp only [List.any_cons]
      rw [pyEqVal_congr t t' x x' h.1 hx, ih ts' x x' h.2 hx]

theorem sameL_snoc (s s' : List Val) (x x' : Val) (h : sameL s s' = true) (hx : same x x' = true) :
    sameL (s ++ [x]) (s' ++ [x']) = true :=
  sameL_append s s' [x] [x'] h (by simp [sameL, hx])

/-- what the set keeps of pointwise-indistinguishable item lists is pointwise indistinguishable -/
theorem dedup_congr : ∀ (ys xs s s' : List Val), sameL s s' = true → sameL ys xs = true →
    sameL (dedupAux s ys) (dedupAux s' xs) = true := by
  intro ys
  induction ys with
  | nil => intro xs s s' _ h; cases xs <;> simp [sameL] at h; simp [dedupAux, sameL]
  | cons y ys ih =>
    intro xs s s' hs h
    cases xs with
    | nil => simp [sameL] at h
    | cons x xs =>
      simp only [sameL, Bool.and_eq_true] at h
      simp only [dedupAux]
      rw [any_congr s s' y x hs h.1]
      split
      · exact ih xs s s' hs h.2
      · simp only [sameL, Bool.and_eq_true]
        exact ⟨h.1, ih xs _ _ (sameL_snoc s s' y x hs h.1) h.2⟩

theorem sameL_mem_left : ∀ (xs ys : List Val), sameL xs ys = true → ∀ x ∈ xs, ∃ y ∈ ys, same x y = true := by
  intro xs
  induction xs with
  | nil => intro ys _ x hx; simp at hx
  | cons a as ih =>
    intro ys h x hx
    cases ys with
    | nil => simp [sameL] at h
    | cons b bs =>
      simp only [sameL, Bool.and_eq_true] at h
      rcases List.mem_cons.mp hx with rfl | hx
      · exact ⟨b, by simp, h.1⟩
      · obtain ⟨y, hy, hs⟩ := ih bs h.2 x hx
        exact ⟨y, by simp [hy], hs⟩

theorem sameL_mem_right : ∀ (xs ys : List Val), sameL xs ys = true → ∀ y ∈ ys, ∃ x ∈ xs, same x y = true := by
  intro xs
  induction xs with
  | nil => intro ys h y hy; cases ys <;> simp [sameL] at h; simp at hy
  | cons a as ih =>
    intro ys h y hy
    cases ys with
    | nil => simp at hy
    | cons b bs =>
      simp only [sameL, Bool.and_eq_true] at h
      rcases List.mem_cons.mp hy with rfl | hy
      · exact ⟨a, by simp, h.1⟩
      · obtain ⟨x, hx, hs⟩ := ih bs h.2 y hy
        exact ⟨x, by simp [hx], hs⟩

/-- pointwise-indistinguishable element lists make indistinguishable frozensets -/
theorem same_fset_of_sameL (xs ys : List Val) (h : sameL xs ys = true) : same (.fset xs) (.fset ys) = true := by
  simp only [same, Bool.and_eq_true, List.all_eq_true]
  exact ⟨(sameSub_iff xs ys).mpr (sameL_mem_left xs ys h),
    fun y hy => (sameAny_iff xs y).mpr (sameL_mem_right xs ys h y hy)⟩

end CyVerif.C09

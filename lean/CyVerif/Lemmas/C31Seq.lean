import CyVerif.Model.C31Match
/-! C31 — index arithmetic of sequence patterns: unchecked reads stay inside the object and
    return exactly the `UNPACK_EX` split, for every length. -/
namespace CyVerif.C31

theorem fetchAll_range' (items : List Val) (g : Nat → Int) (off : Nat) :
    ∀ (k s : Nat), (∀ j, s ≤ j → j < s + k → g j = ((off + j : Nat) : Int)) →
      off + s + k ≤ items.length →
      fetchAll items ((List.range' s k).map g) = some ((items.drop (off + s)).take k) := by
  intro k
  induction k with
  | zero => intro s _ _; simp [fetchAll]
  | succ k ih =>
    intro s hg hlen
    have h1 : g s = ((off + s : Nat) : Int) := hg s (Nat.le_refl _) (by omega)
    have hlt : off + s < items.length := by omega
    have ih' := ih (s + 1) (fun j hj1 hj2 => hg j (by omega) (by omega)) (by omega)
    simp only [List.range'_succ, List.map_cons, fetchAll, h1, itemAt]
    have hnn : (0 : Int) ≤ ((off + s : Nat) : Int) := Int.natCast_nonneg _
    simp only [hnn, if_true, Int.toNat_natCast, List.getElem?_eq_getElem hlt, ih']
    have : off + (s + 1) = off + s + 1 := by omega
    rw [this, List.drop_eq_getElem_cons hlt, List.take_succ_cons]

theorem cySeqBefore_eq (items : List Val) (np : Nat) (h : np ≤ items.length) :
    cySeqBefore items np = some (items.take np) := by
  have := fetchAll_range' items (fun (i : Nat) => (i : Int)) 0 np 0 (by intro j _ _; simp) (by omega)
  simpa [cySeqBefore] using this

theorem cySeqAfter_eq (items : List Val) (nq : Nat) (h : nq ≤ items.length) :
    cySeqAfter items nq = some (items.drop (items.length - nq)) := by
  have := fetchAll_range' items
    (fun (j : Nat) => (items.length : Int) + ((j : Int) - (nq : Int))) (items.length - nq) nq 0
    (by intro j _ hj; omega) (by omega)
  simp only [cySeqAfter, this, Nat.add_zero]
  congr 1
  apply List.take_of_length_le
  simp; omega

theorem cySeqStar_eq (items : List Val) (np nq : Nat) :
    cySeqStar items np nq = (items.drop np).take (items.length - nq - np) := by
  simp only [cySeqStar]
  congr 1
  omega

end CyVerif.C31

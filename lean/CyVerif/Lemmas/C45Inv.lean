import CyVerif.Lemmas.C45
/-! C45 — the invariant of `exec`: inside function `c` the events of a statement leave the stack of open
frames as it was, except that a `return` statement closes the frame of `c`. -/
namespace CyVerif.C45

theorem go_seq {X Y : List Fr} {a b : List Ev} (h : go X a = some Y) : go X (a ++ b) = go Y b := by
  rw [go_append, h]; rfl

theorem post_ne_ret (cfg : Cfg) (c : Fn) (stk : List Fr) (o : Out) (h : o ≠ .ret) :
    post cfg c stk o = fr cfg c stk := by
  simp [post, h]

theorem go_line_only (cfg : Cfg) (c : Fn) (stk : List Fr) (ln : Nat) (h : lnIn c ln = true) :
    go (fr cfg c stk) (evLine cfg c ln) = some (fr cfg c stk) := by
  have := go_evLine cfg c stk ln [] h
  simpa [go] using this

theorem finish_inv (cfg : Cfg) (f : Fn) (S : List Fr) (o : Out) (hs : safeFn cfg f o = true) :
    go (post cfg f S o) (finish cfg f o).1 = some S := by
  have hclose : ∀ k, (k = Kind.ret ∨ k = Kind.unwind ∨ k = Kind.yield) →
      go (fr cfg f S) (evClose cfg f k) = some S := by
    intro k hk
    have := go_evClose cfg f S k [] hk
    simpa [go] using this
  have hw := wrapRet_nil cfg f o hs
  cases o with
  | ret =>
    cases hfx : cfg.fixRet
    · simp [post, finish, go, hfx, hw]
    · simp only [post, finish, hfx, hw]; simpa using hclose .ret (by simp)
  | exc b =>
    rw [post_ne_ret _ _ _ _ (by simp)]
    cases hfk : f.fk <;> simp only [finish, hfk]
    case cpdefPy =>
      have hc : cfg.fixCpdef = true := by simpa [safeFn, hfk, Out.isExc] using hs
      simp only [hc, if_true]; exact hclose _ (by simp)
    all_goals exact hclose _ (by simp)
  | stop =>
    rw [post_ne_ret _ _ _ _ (by simp)]
    cases hfk : f.fk <;> simp only [finish, hfk]
    case cpdefPy =>
      have hc : cfg.fixCpdef = true := by simpa [safeFn, hfk, Out.isExc] using hs
      simp only [hc, if_true]; exact hclose _ (by simp)
    all_goals exact hclose _ (by simp)
  | norm => rw [post_ne_ret _ _ _ _ (by simp)]; simp only [finish, hw, List.append_nil]; exact hclose _ (by simp)
  | brk => rw [post_ne_ret _ _ _ _ (by simp)]; simp only [finish, hw, List.append_nil]; exact hclose _ (by simp)
  | cont => rw [post_ne_ret _ _ _ _ (by simp)]; simp only [finish, hw, List.append_nil]; exact hclose _ (by simp)

theorem exec_inv (cfg : Cfg) : ∀ (s : Stmt) (c : Fn) (stk : List Fr),
    inRange c s = true → extOK s = true → safe cfg c s = true →
    go (fr cfg c stk) (exec cfg c s).1 = some (post cfg c stk (exec cfg c s).2) := by
  intro s
  induction s with
  | skip => intro c stk _ _ _; simp [exec, go, post]
  | simple ln =>
    intro c stk hr _ _
    simp only [inRange] at hr
    simp only [exec]; rw [post_ne_ret _ _ _ _ (by simp)]; exact go_line_only cfg c stk ln hr
  | fail ln k =>
    intro c stk hr _ _
    simp only [inRange] at hr
    simp only [exec]; rw [post_ne_ret _ _ _ _ (by simp)]; exact go_line_only cfg c stk ln hr
  | brk ln =>
    intro c stk hr _ _
    simp only [inRange] at hr
    simp only [exec]; rw [post_ne_ret _ _ _ _ (by simp)]; exact go_line_only cfg c stk ln hr
  | cont ln =>
    intro c stk hr _ _
    simp only [inRange] at hr
    simp only [exec]; rw [post_ne_ret _ _ _ _ (by simp)]; exact go_line_only cfg c stk ln hr
  | stopNoExc ln =>
    intro c stk hr _ _
    simp only [inRange] at hr
    simp only [exec]; rw [post_ne_ret _ _ _ _ (by simp)]; exact go_line_only cfg c stk ln hr
  | ret ln =>
    intro c stk hr _ _
    simp only [inRange] at hr
    simp only [exec, evRetStmt]
    rw [go_evLine cfg c stk ln _ hr]
    cases hfx : cfg.fixRet
    · have := go_evClose cfg c stk .ret [] (by simp)
      simpa [go, post, hfx] using this
    · simp [go, post, hfx]
  | retPar ln =>
    intro c stk hr _ hs
    simp only [inRange] at hr
    simp only [safe, Bool.or_eq_true, Bool.not_eq_true'] at hs
    simp only [exec]
    rcases hs with ht | hfx
    · simp [evLine, ht, go, post, fr]
    · rw [post_fix _ _ _ _ hfx]; exact go_line_only cfg c stk ln hr
  | ext ln w raises =>
    intro c stk hr he _
    simp only [inRange] at hr
    have hw : go [] w = some [] := by simpa [extOK] using he
    simp only [exec]
    rw [go_evLine cfg c stk ln _ hr, go_neutral w hw]
    rw [post_ne_ret]
    split <;> simp
  | yld ln thrown =>
    intro c stk hr _ _
    simp only [inRange] at hr
    cases hfk : c.fk <;> simp only [exec, hfk]
    case gen =>
      rw [List.append_assoc, go_evLine cfg c stk ln _ hr, go_evClose cfg c stk .yield _ (by simp)]
      have := go_evOpen cfg c stk .resume [] (by simp [Kind.isOpen])
      rw [List.append_nil] at this
      rw [this, post_ne_ret]
      · simp [go]
      · split <;> simp
    all_goals (rw [post_ne_ret _ _ _ _ (by simp)]; exact go_line_only cfg c stk ln hr)
  | call ln f body ih =>
    intro c stk hr he hs
    simp only [inRange, Bool.and_eq_true] at hr
    simp only [extOK] at he
    simp only [safe, Bool.and_eq_true] at hs
    simp only [exec]
    rw [go_evLine cfg c stk ln _ hr.1, List.append_assoc,
      go_evStart cfg f (fr cfg c stk) _ (safeFn_cskip cfg f _ hs.2),
      go_seq (ih f (fr cfg c stk) hr.2 he hs.1), finish_inv cfg f _ _ hs.2, post_ne_ret]
    split <;> simp
  | seq a b iha ihb =>
    intro c stk hr he hs
    simp only [inRange, Bool.and_eq_true] at hr
    simp only [extOK, Bool.and_eq_true] at he
    simp only [safe, Bool.and_eq_true] at hs
    have ha := iha c stk hr.1 he.1 hs.1
    have hb := ihb c stk hr.2 he.2 hs.2
    simp only [exec]
    split
    · next hn =>
      simp only
      rw [go_seq ha, hn, post_ne_ret _ _ _ _ (by simp)]
      exact hb
    · simpa using ha
  | tryFin ln body fin ihb ihf =>
    intro c stk hr he hs
    simp only [inRange, Bool.and_eq_true] at hr
    simp only [extOK, Bool.and_eq_true] at he
    simp only [safe, Bool.and_eq_true, Bool.or_eq_true, bne_iff_ne, ne_eq, Bool.not_eq_true'] at hs
    have hb := ihb c stk hr.1.2 he.1 hs.1.1
    simp only [exec]
    rw [List.append_assoc, go_evLine cfg c stk ln _ hr.1.1, go_seq hb]
    by_cases hret : (exec cfg c body).2 = .ret
    · -- the return event is already out: the finally clause must be unobservable (or the frame untraced)
      rcases hs.2 with ((h | h) | h) | h
      · exact absurd hret h
      · have hf := ihf c stk hr.2 he.2 hs.1.2
        rw [fr_untraced cfg c stk h] at hf
        rw [post_untraced cfg c stk _ h, post_untraced cfg c stk _ h]
        rw [hf, post_untraced cfg c stk _ h]
      · simp only [quiet, Bool.and_eq_true, List.isEmpty_iff, beq_iff_eq] at h
        rw [h.1, h.2, hret]
        simp [go]
      · have hf := ihf c stk hr.2 he.2 hs.1.2
        rw [post_fix _ _ _ _ h, hf, post_fix _ _ _ _ h, post_fix _ _ _ _ h]
    · have hf := ihf c stk hr.2 he.2 hs.1.2
      rw [post_ne_ret _ _ _ _ hret, hf]
      congr 1
      unfold post
      cases hfo : (exec cfg c fin).2 <;> simp [hret]
  | tryExc ln body lnExc h ihb ihh =>
    intro c stk hr he hs
    simp only [inRange, Bool.and_eq_true] at hr
    simp only [extOK, Bool.and_eq_true] at he
    simp only [safe, Bool.and_eq_true] at hs
    have hb := ihb c stk hr.1.1.2 he.1 hs.1
    have hh := ihh c stk hr.2 he.2 hs.2
    simp only [exec]
    split
    · next hx =>
      simp only
      rw [List.append_assoc, List.append_assoc, go_evLine cfg c stk ln _ hr.1.1.1, go_seq hb, hx,
        post_ne_ret _ _ _ _ (by simp), go_evLine cfg c stk lnExc _ hr.1.2]
      exact hh
    · simp only
      rw [go_evLine cfg c stk ln _ hr.1.1.1]
      exact hb
  | iter body more ihb ihm =>
    intro c stk hr he hs
    simp only [inRange, Bool.and_eq_true] at hr
    simp only [extOK, Bool.and_eq_true] at he
    simp only [safe, Bool.and_eq_true] at hs
    have hb := ihb c stk hr.1 he.1 hs.1
    have hm := ihm c stk hr.2 he.2 hs.2
    simp only [exec]
    split
    · next hn =>
      simp only; rw [go_seq hb, hn, post_ne_ret _ _ _ _ (by simp), hm]
      congr 1; unfold post; generalize (exec cfg c more).2 = o; cases o <;> simp
    · next hn =>
      simp only; rw [go_seq hb, hn, post_ne_ret _ _ _ _ (by simp), hm]
      congr 1; unfold post; generalize (exec cfg c more).2 = o; cases o <;> simp
    · next hn => simp only; rw [hb, hn]; simp [post]
    · simpa using hb

end CyVerif.C45

import CyVerif.Lemmas.C16Loop
/-!
The view described by a list of per-dimension selections: its address map
(element `ks` of the view is element `srcIndex ks` of the source) and that the
source index is in bounds and is exactly Python's k-th selected index.
-/
namespace CyVerif.C16
open PySlice

/-- Address of element `ks` of the view = address of element `srcIndex sels ks` of the source. -/
theorem view_address : ∀ (sels : List (Dim × Sel)) (ks : List Int),
    ks.length = (viewShape sels).length →
    viewOffset sels + dot ks (viewStrides sels) = dot (srcIndex sels ks) (srcStrides sels) := by
  intro sels
  induction sels with
  | nil => intro ks _; cases ks <;> simp [viewOffset, viewStrides, srcIndex, srcStrides, dot]
  | cons p l ih =>
    intro ks hlen
    obtain ⟨d, sel⟩ := p
    cases sel with
    | point j =>
      simp only [viewShape] at hlen
      simp only [viewOffset, viewStrides, srcIndex, srcStrides, dot]
      rw [← ih ks hlen]; omega
    | range adj step =>
      cases ks with
      | nil => simp [viewShape] at hlen
      | cons k ks =>
        simp only [viewShape, List.length_cons, Nat.add_right_cancel_iff] at hlen
        simp only [viewOffset, viewStrides, srcIndex, srcStrides, dot]
        rw [← ih ks hlen]
        grind
    | newaxis =>
      cases ks with
      | nil => simp [viewShape] at hlen
      | cons k ks =>
        simp only [viewShape, List.length_cons, Nat.add_right_cancel_iff] at hlen
        simp only [viewOffset, viewStrides, srcIndex, srcStrides, dot]
        rw [← ih ks hlen]
        simp

/-- a selection produced by the reference semantics on dimension `d` -/
def SelValid (d : Dim) : Sel → Prop
  | .point j => 0 ≤ j ∧ j < d.shape
  | .range adj step => ∀ k, 0 ≤ k → k < adj.len → 0 ≤ adj.start + k * step ∧ adj.start + k * step < d.shape
  | .newaxis => True

theorem specSel_valid {d : Dim} (hs : 0 ≤ d.shape) {it : Item} {sel : Sel}
    (h : specSel d.shape it = .ok sel) : SelValid d sel := by
  cases it with
  | idx i =>
    simp only [specSel] at h
    unfold PySlice.index at h
    by_cases h1 : 0 ≤ i ∧ i < d.shape
    · simp only [h1, and_self, if_true] at h
      injection h with h; subst h; exact h1
    · rw [if_neg h1] at h
      by_cases h2 : i < 0 ∧ 0 ≤ i + d.shape
      · rw [if_pos h2] at h
        injection h with h; subst h
        simp only [SelValid]; omega
      · rw [if_neg h2] at h; cases h
  | slc s e st =>
    simp only [specSel] at h
    cases hi : PySlice.indices d.shape s e st with
    | err e => rw [hi] at h; cases h
    | ok p =>
      obtain ⟨adj, step⟩ := p
      rw [hi] at h
      injection h with h; subst h
      obtain ⟨hne, hlen, hp, hn⟩ := indices_ranges hs hi
      intro k hk hlt
      rw [hlen] at hlt
      exact sliceLen_in_bounds hne (fun h => by have := hp h; omega) (fun h => by have := hn h; omega) k hk hlt
  | ell => simp [specSel] at h
  | none => simp [specSel] at h
  | bad => simp [specSel] at h

theorem specSels_valid : ∀ (items : List Item) (dims : List Dim) (sels : List (Dim × Sel)),
    (∀ d ∈ dims, 0 ≤ d.shape) → specSels dims items = .ok sels → ∀ p ∈ sels, SelValid p.1 p.2 := by
  intro items
  induction items with
  | nil =>
    intro dims sels _ h
    cases dims with
    | nil => simp only [specSels] at h; injection h with h; subst h; simp
    | cons d ds => simp [specSels] at h
  | cons it rest ih =>
    intro dims sels hsh h
    by_cases hn : it = .none
    · subst hn
      simp only [specSels] at h
      cases hr : specSels dims rest with
      | err e => rw [hr] at h; cases h
      | ok l =>
        rw [hr] at h
        injection h with h; subst h
        intro p hp
        rcases List.mem_cons.1 hp with h1 | h1
        · subst h1; simp [SelValid]
        · exact ih dims l hsh hr p h1
    · cases dims with
      | nil => cases it <;> simp_all [specSels]
      | cons src dims =>
        have hsrc := hsh src (List.mem_cons_self ..)
        have hsh' : ∀ d ∈ dims, 0 ≤ d.shape := fun x hx => hsh x (List.mem_cons_of_mem _ hx)
        have hun : specSels (src :: dims) (it :: rest) =
            match specSel src.shape it with
            | .err e => .err e
            | .ok s =>
              match specSels dims rest with
              | .ok l => .ok ((src, s) :: l)
              | .err e => .err e := by
          cases it <;> first | rfl | exact absurd rfl hn
        rw [hun] at h
        cases hs1 : specSel src.shape it with
        | err e => rw [hs1] at h; cases h
        | ok s =>
          rw [hs1] at h
          cases hr : specSels dims rest with
          | err e => rw [hr] at h; cases h
          | ok l =>
            rw [hr] at h
            injection h with h; subst h
            intro p hp
            rcases List.mem_cons.1 hp with h1 | h1
            · subst h1; exact specSel_valid hsrc hs1
            · exact ih dims l hsh' hr p h1

/-- every element of the view is an element of the source -/
theorem srcIndex_in_bounds : ∀ (sels : List (Dim × Sel)) (ks : List Int),
    (∀ p ∈ sels, SelValid p.1 p.2) → InBox ks (viewShape sels) →
    InBox (srcIndex sels ks) (srcShape sels) := by
  intro sels
  induction sels with
  | nil => intro ks _ h; cases ks <;> simp_all [viewShape, srcIndex, srcShape, InBox]
  | cons p l ih =>
    intro ks hv hb
    obtain ⟨d, sel⟩ := p
    have hv0 := hv (d, sel) (List.mem_cons_self ..)
    have hv' : ∀ p ∈ l, SelValid p.1 p.2 := fun x hx => hv x (List.mem_cons_of_mem _ hx)
    cases sel with
    | point j =>
      simp only [viewShape] at hb
      simp only [srcIndex, srcShape, InBox]
      exact ⟨hv0, ih ks hv' hb⟩
    | range adj step =>
      cases ks with
      | nil => simp [viewShape, InBox] at hb
      | cons k ks =>
        simp only [viewShape, InBox] at hb
        simp only [srcIndex, srcShape, InBox]
        exact ⟨hv0 k hb.1.1 hb.1.2, ih ks hv' hb.2⟩
    | newaxis =>
      cases ks with
      | nil => simp [viewShape, InBox] at hb
      | cons k ks =>
        simp only [viewShape, InBox] at hb
        simp only [srcIndex, srcShape]
        exact ih ks hv' hb.2

end CyVerif.C16

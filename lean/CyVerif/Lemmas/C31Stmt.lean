import CyVerif.Lemmas.C31Frag
/-! C31 — statement level: case order, capture commit before the guard, guard log. -/
namespace CyVerif.C31

/-- stores of the cases executed so far, case by case; inside one case the order of the
    stores may differ (the names of one case pattern are pairwise distinct) -/
inductive SegPerm : Env → Env → Prop
  | nil : SegPerm [] []
  | app {a a' e e' : Env} : SegPerm a a' → e.Perm e' → SegPerm (a ++ e) (a' ++ e')

theorem SegPerm.perm {a b : Env} (h : SegPerm a b) : a.Perm b := by
  induction h with
  | nil => exact List.Perm.refl _
  | app _ hp ih => exact ih.append hp

def OutAgree : Outcome → Outcome → Prop
  | .done s e l, .done s' e' l' => s = s' ∧ l = l' ∧ SegPerm e e'
  | .exc x l, .exc y l' => x = y ∧ l = l'
  | _, _ => False

def niceStmt (V : Variant) : List Case → Bool
  | [] => true
  | c :: cs => nice V c.pat && niceStmt V cs

theorem early_eq (V : Variant) (T : Tab) (p : Pat) (v : Val) (ch : Ch)
    (hn : nice V p = true) (hc : isValueChain p = true) :
    cyAssignEarly V T p v = cyAssign V T p v ch := by
  fun_induction isValueChain p with
  | case1 l => simp [cyAssignEarly, chainNames, cyAssign]
  | case2 k => simp [cyAssignEarly, chainNames, cyAssign]
  | case3 p n ih =>
    simp only [nice, Bool.and_eq_true] at hn
    have hV : V.asSubject = true := by
      have := hn.1
      simp [hc] at this
      exact this
    have ih' := ih hn.2 hc
    simp only [cyAssignEarly, hV, if_true, chainNames, List.map_cons, cyAssign, asValue] at ih' ⊢
    rw [ih']
  | case4 p h1 h2 h3 => simp_all

theorem stmt_agree (V : Variant) (T : Tab) : ∀ (cs : List Case) (i : Nat) (v : Val)
    (acc acc' : Env) (lg : Log), niceStmt V cs = true → SegPerm acc acc' →
    OutAgree (cyStmt V T cs i v acc lg) (refStmt T cs i v acc' lg)
  | [], i, v, acc, acc', lg, _, hs => by simp [cyStmt, refStmt, OutAgree, hs]
  | c :: cs, i, v, acc, acc', lg, h, hs => by
    simp only [niceStmt, Bool.and_eq_true] at h
    have ih1 := agree V T c.pat v lg h.1
    simp only [cyStmt, refStmt]
    generalize hr : cyTest V T c.pat v lg = r1 at ih1 ⊢
    generalize ref T c.pat v lg = r1' at ih1 ⊢
    cases r1 <;> cases r1' <;> simp [Agree] at ih1 ⊢
    · rename_i ch l e l'
      obtain ⟨hl, hp⟩ := ih1
      subst hl
      cases hg : c.guard with
      | none =>
        have henv : (if isValueChain c.pat = true then cyAssignEarly V T c.pat v
            else cyAssign V T c.pat v ch).Perm e := by
          split
          · rename_i hc
            rw [early_eq V T c.pat v ch h.1 hc]
            exact hp
          · exact hp
        simp [OutAgree]
        exact SegPerm.app hs henv
      | some g =>
        have hseg := SegPerm.app hs hp
        cases g
        · simp
          exact stmt_agree V T cs (i + 1) v _ _ _ h.2 hseg
        · simp [OutAgree]
          exact hseg
    · rename_i l l'
      subst ih1
      exact stmt_agree V T cs (i + 1) v acc acc' l h.2 hs
    · simp [OutAgree, ih1]

end CyVerif.C31

import CyVerif.Lemmas.C40Conf
/-! C40: node-by-node agreement of the typed evaluation with the evaluation under object-typed locals,
for the shapes the validator accepts. -/
namespace CyVerif.C40

variable {F : Type}

/-- `float(n)` succeeds for every integer that fits a C long -/
def Lawful (fo : FOps F) : Prop := ∀ n : Int, inRange .clong n = true → (fo.ofInt n).isSome = true

theorem fromPy_builtin_or {fo : FOps F} {t : Ty} (x : Val F) (ht : t.isBuiltin = true) :
    fromPy fo t x = .ok x ∨ fromPy fo t x = .ub "builtin-type-claim" := by
  cases t <;> simp [Ty.isBuiltin] at ht <;> cases x <;> simp [fromPy]

theorem nameTy_obj (v id : Nat) : nameTy objEnv noNt v id = .obj := by
  unfold nameTy objEnv noNt
  split
  · rfl
  · simp [Ty.isPyObject]

/-- locals in `S` are bound -/
def Bound (S : List Nat) (σ : Store F) : Prop := ∀ v, S.contains v = true → (σ v).isSome = true

theorem readVar_agree {fo : FOps F} {Γ : Nat → Ty} {nt : Nat → Option Ty} {σ : Store F} {S : List Nat} {v id : Nat}
    (hb : Bound S σ) (hc : v < npar ∨ (Γ v).isPyObject = true ∨ S.contains v = true) :
    Agree (readVar fo Γ (nameTy Γ nt v id) σ v) (readVar fo objEnv .obj σ v) := by
  unfold readVar
  have ho : (Ty.obj).isBuiltin = false := rfl
  have hoe : (objEnv v).isPyObject = true := rfl
  cases hs : σ v with
  | some x =>
    simp only [ho, Bool.false_eq_true, if_false]
    by_cases ht : (nameTy Γ nt v id).isBuiltin = true
    · rw [if_pos ht]
      rcases fromPy_builtin_or (fo := fo) x ht with h | h
      · exact Or.inl h
      · exact Or.inr h
    · rw [if_neg ht]; exact Or.inl rfl
  | none =>
    simp only [hoe, not_true_eq_false, and_false, if_false]
    rcases hc with hc | hc | hc
    · have : ¬ (v ≥ npar) := by omega
      rw [if_neg (fun h => this h.1)]; exact Or.inl rfl
    · rw [if_neg (fun h => h.2 hc)]; exact Or.inl rfl
    · have := hb v hc; rw [hs] at this; cases this

theorem Out.bind_pure {α : Type} (x : Out α) : x.bind Out.ok = x := by cases x <;> rfl

/-- values of C doubles, C integers and bints -/
def FC (v : Val F) : Prop :=
  (∃ x, v = .flt x) ∨ (∃ n, v = .int n ∧ inRange .clong n = true) ∨ (∃ b, v = .bool b)

theorem conf_FC {t : Ty} {v : Val F} (ht : t = .cdouble ∨ t.isPlainCInt = true ∨ t = .bint) (h : conf t v) : FC v := by
  rcases ht with rfl | ht | rfl
  · obtain ⟨x, rfl⟩ := h; exact Or.inl ⟨x, rfl⟩
  · cases t <;> simp [Ty.isPlainCInt] at ht <;> simp only [conf] at h
    · obtain ⟨n, rfl, hr⟩ := h; exact Or.inr (Or.inl ⟨n, rfl, hr⟩)
    · obtain ⟨n, rfl, hr⟩ := h; exact Or.inr (Or.inl ⟨n, rfl, hr⟩)
    · obtain ⟨n, rfl, hr⟩ := h
      refine Or.inr (Or.inl ⟨n, rfl, ?_⟩)
      simp [inRange] at hr ⊢; omega
  · obtain ⟨b, rfl⟩ := h; exact Or.inr (Or.inr ⟨b, rfl⟩)

theorem cDbl_eq_toF {fo : FOps F} (law : Lawful fo) {v : Val F} (h : FC v) :
    ∃ n, v.num? = some n ∧ cDbl fo v = toF fo n := by
  rcases h with ⟨x, rfl⟩ | ⟨n, rfl, hr⟩ | ⟨b, rfl⟩
  · exact ⟨.f x, rfl, rfl⟩
  · refine ⟨.i n, rfl, ?_⟩
    have := law n hr
    simp only [cDbl, toF]
    cases ho : fo.ofInt n
    · rw [ho] at this; cases this
    · rfl
  · refine ⟨.i (if b then 1 else 0), rfl, ?_⟩
    have := law (if b then 1 else 0) (by cases b <;> decide)
    simp only [cDbl, toF]
    cases ho : fo.ofInt (if b then 1 else 0)
    · rw [ho] at this; cases this
    · rfl

theorem pyBin_num_float {fo : FOps F} {op : BinOp} {a b : Val F} {na nb : Num F} (hop : op.floatArith = true)
    (ha : FC a) (hb : FC b) (hna : a.num? = some na) (hnb : b.num? = some nb)
    (hf : (∃ x, a = .flt x) ∨ (∃ x, b = .flt x)) :
    pyBin fo op a b = (toF fo na).bind fun x => (toF fo nb).bind fun y => pyFloatBin fo op x y := by
  have hio : op.intOnly = false := by cases op <;> simp [BinOp.floatArith] at hop <;> rfl
  rcases ha with ⟨x, rfl⟩ | ⟨n, rfl, _⟩ | ⟨x, rfl⟩ <;> rcases hb with ⟨y, rfl⟩ | ⟨m, rfl, _⟩ | ⟨y, rfl⟩
  all_goals first
    | (rcases hf with ⟨z, hz⟩ | ⟨z, hz⟩ <;> cases hz)
    | skip
  all_goals
    simp only [Val.num?] at hna hnb
    cases hna; cases hnb
    simp only [pyBin, Val.num?, hio, Bool.false_eq_true, if_false]
    rfl

/-- C double arithmetic on conforming operands is the Python float operation -/
theorem floatArith_agree {fo : FOps F} (law : Lawful fo) {op : BinOp} {a b : Val F} (hop : op.floatArith = true)
    (ha : FC a) (hb : FC b) (hf : (∃ x, a = .flt x) ∨ (∃ x, b = .flt x)) {tl : Ty} :
    cBin fo op false tl .cdouble a b = pyBin fo op a b := by
  obtain ⟨na, hna, ea⟩ := cDbl_eq_toF law ha
  obtain ⟨nb, hnb, eb⟩ := cDbl_eq_toF law hb
  rw [pyBin_num_float hop ha hb hna hnb hf]
  have hp : op ≠ .pow := by intro h; subst h; simp [BinOp.floatArith] at hop
  unfold cBin
  simp only [Ty.isCIntArith, Bool.false_eq_true, if_false, if_true, ea, eb]
  cases op <;> first | rfl | exact absurd rfl hp

theorem claimOK_sound {fo : FOps F} {op : BinOp} {ip : Bool} {sa sb ts : Ty} {va vb r : Val F}
    (hc : claimOK op ip sa sb ts = true) (ca : conf sa va) (cb : conf sb vb)
    (hr : pyBin fo op va vb = .ok r) : fromPy fo ts r = .ok r := by
  simp only [claimOK, decide_eq_true_eq] at hc
  rcases hc with hc | hc | hc | hc | hc
  · subst hc; rfl
  · obtain ⟨rfl, hop, ha, hb⟩ := hc
    have := pyBin_intClosedN hop (intLike_conf ha ca) (intLike_conf hb cb) hr
    exact fromPy_of_conf (t := .pyint) (by rcases this with h | h; exact Or.inl h; exact Or.inr (Or.inl h)) (by decide)
  · obtain ⟨rfl, hc⟩ := hc
    have : ∃ cs, r = .str cs := by
      rcases hc with ⟨rfl, rfl, rfl⟩ | ⟨rfl, rfl, hb⟩ | ⟨rfl, ha, rfl⟩
      · rcases ca with ⟨x, rfl⟩ | rfl
        · rcases cb with ⟨y, rfl⟩ | rfl
          · exact pyBin_str_add hr
          · exact (pyBin_none_r hr).elim
        · exact (pyBin_none_l hr).elim
      · rcases ca with ⟨x, rfl⟩ | rfl
        · exact pyBin_str_mul_rN (intLike_conf hb cb) hr
        · exact (pyBin_none_l hr).elim
      · rcases cb with ⟨y, rfl⟩ | rfl
        · exact pyBin_str_mul_lN (intLike_conf ha ca) hr
        · exact (pyBin_none_r hr).elim
    exact fromPy_of_conf (t := .pystr) (Or.inl this) (by decide)
  · obtain ⟨rfl, rfl, _, ha, hb⟩ := hc
    have := pyBin_div_fltN (intLike_conf ha ca) (intLike_conf hb cb) hr
    exact fromPy_of_conf (t := .cdouble) this (by decide)
  · obtain ⟨rfl, hop, hf, ha, hb⟩ := hc
    have na : IsNumLikeN va := by
      rcases ha with rfl | ha
      · obtain ⟨x, rfl⟩ := ca; exact Or.inr ⟨x, rfl⟩
      · exact Or.inl (intLike_conf ha ca)
    have nb : IsNumLikeN vb := by
      rcases hb with rfl | hb
      · obtain ⟨x, rfl⟩ := cb; exact Or.inr ⟨x, rfl⟩
      · exact Or.inl (intLike_conf hb cb)
    have hff : (∃ x, va = .flt x) ∨ (∃ x, vb = .flt x) := by
      rcases hf with rfl | rfl
      · exact Or.inl ca
      · exact Or.inr cb
    have := pyBin_floatN hop na nb hff hr
    exact fromPy_of_conf (t := .cdouble) this (by decide)

def isPyOp (a b : Ty) : Prop := a.isPyObject = true ∨ b.isPyObject = true ∨ a = .ucs4 ∨ b = .ucs4

instance (a b : Ty) : Decidable (isPyOp a b) := by unfold isPyOp; infer_instance

theorem binSem_py {fo : FOps F} {op : BinOp} {ip : Bool} {ta tb t : Ty} {a b : Val F} (h : isPyOp ta tb) :
    binSem fo op ip ta tb (some t) a b = (pyBin fo op a b).bind (fromPy fo t) := by
  unfold binSem
  simp only
  unfold isPyOp at h
  rw [if_pos h]; rfl

theorem binSem_c {fo : FOps F} {op : BinOp} {ip : Bool} {ta tb t : Ty} {a b : Val F} (h : ¬ isPyOp ta tb) :
    binSem fo op ip ta tb (some t) a b = cBin fo op ip (widest ta .cint) t a b := by
  unfold binSem
  simp only
  unfold isPyOp at h
  rw [if_neg h]

theorem floatCompat_FC {s o : Ty} {v : Val F} (h : floatCompat s o = true) (c : conf s v) : FC v := by
  simp only [floatCompat, decide_eq_true_eq] at h
  rcases h with ⟨rfl, _⟩ | ⟨_, h⟩
  · exact conf_FC (Or.inl rfl) c
  · rcases h with h | rfl
    · exact conf_FC (Or.inr (Or.inl h)) c
    · exact conf_FC (Or.inr (Or.inr rfl)) c

theorem binOK_sound {fo : FOps F} (law : Lawful fo) {op : BinOp} {ip lit : Bool} {c1 c2 : Option ConstInfo}
    {sa oa sb ob ts to : Ty} {va vb : Val F}
    (h : binOK op ip lit c1 c2 (sa, oa) (sb, ob) = .ok (ts, to))
    (ca : conf sa va) (cb : conf sb vb) :
    binType op ip lit (some sa) (some sb) c1 c2 = some ts ∧
    binType op ip lit (some oa) (some ob) c1 c2 = some to ∧
    Agree (binSem fo op ip sa sb (some ts) va vb) (binSem fo op ip oa ob (some to) va vb) := by
  unfold binOK at h
  simp only at h
  split at h
  · rename_i ts' to' hts hto
    split at h
    · -- identical operand types
      rename_i hs
      cases h
      obtain ⟨rfl, rfl⟩ := hs
      rw [hts] at hto; cases hto
      exact ⟨hts, hts, Agree.rfl' _⟩
    · split at h
      · -- Python operation on both sides
        rename_i _ hp
        cases h
        obtain ⟨hps, hpo, hc⟩ := hp
        refine ⟨hts, hto, ?_⟩
        rw [binSem_py (by exact hps), binSem_py (by exact hpo)]
        rcases hc with rfl | ⟨rfl, hc⟩
        · exact Agree.rfl' _
        · refine Agree.bind (Agree.rfl' _) ?_
          intro r hr _
          rw [claimOK_sound hc ca cb hr]
          exact Agree.rfl' _
      · split at h
        · -- C double arithmetic against the Python float operation
          rename_i hne _ hf
          cases h
          obtain ⟨hop, hip, fa, fb, hd, rfl, rfl⟩ := hf
          refine ⟨hts, hto, ?_⟩
          have hip' : ip = false := by simpa using hip
          subst hip'
          have hFa := floatCompat_FC (by simpa using fa) ca
          have hFb := floatCompat_FC (by simpa using fb) cb
          have hff : (∃ x, va = .flt x) ∨ (∃ x, vb = .flt x) := by
            rcases hd with rfl | rfl
            · exact Or.inl ca
            · exact Or.inr cb
          -- typed side: C arithmetic
          have hcs : ¬ isPyOp sa sb := by
            simp only [floatCompat, decide_eq_true_eq] at fa fb
            intro hp
            rcases hp with hp | hp | hp | hp
            · rcases fa with ⟨rfl, _⟩ | ⟨_, h | rfl⟩
              · cases hp
              · cases sa <;> simp [Ty.isPlainCInt] at h <;> cases hp
              · cases hp
            · rcases fb with ⟨rfl, _⟩ | ⟨_, h | rfl⟩
              · cases hp
              · cases sb <;> simp [Ty.isPlainCInt] at h <;> cases hp
              · cases hp
            · subst hp
              rcases fa with ⟨h, _⟩ | ⟨_, h | h⟩ <;> simp [Ty.isPlainCInt] at h
            · subst hp
              rcases fb with ⟨h, _⟩ | ⟨_, h | h⟩ <;> simp [Ty.isPlainCInt] at h
          -- reference side: a Python operation (otherwise the operand types would be identical)
          have hpo : isPyOp oa ob := by
            simp only [floatCompat, decide_eq_true_eq] at fa fb
            by_cases h1 : oa.isPyObject = true
            · exact Or.inl h1
            · by_cases h2 : ob.isPyObject = true
              · exact Or.inr (Or.inl h2)
              · exfalso
                apply hne
                constructor
                · rcases fa with ⟨rfl, rfl | rfl⟩ | ⟨h, _⟩
                  · rfl
                  · exact absurd rfl h1
                  · exact h
                · rcases fb with ⟨rfl, rfl | rfl⟩ | ⟨h, _⟩
                  · rfl
                  · exact absurd rfl h2
                  · exact h
          rw [binSem_c hcs, binSem_py hpo, floatArith_agree law hop hFa hFb hff]
          have : fromPy fo .obj = Out.ok := by funext v; rfl
          rw [this, Out.bind_pure]
          exact Agree.rfl' _
        · cases h
  · cases h

end CyVerif.C40

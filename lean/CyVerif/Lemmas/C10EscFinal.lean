import CyVerif.Lemmas.C10EscBytes
/-! Whole-loop statements for bytes literals and raw literals. -/
namespace CyVerif.C10

theorem bytes_sound (P : LexP) (hP : P.WF) (lk : Lookup) (k : Kind) (hk : k.isText = false) (hb : k.hasBytes = true)
    (f1 : Nat) (body : List Nat) (ch : Chunk) (hlen : body.length < f1)
    (hcy : cyLoop P lk k false f1 body = .ok ch) (hg : ch.nonfatal = false ∧ ch.nonascii = false)
    (f2 : Nat) (hf2 : body.length < f2) :
    refLoop refBStep f2 body = .ok ch.bs := by
  refine simulate P lk k false refBStep (·.bs) (fun ch => ch.nonfatal = false ∧ ch.nonascii = false)
    (fun a b => rfl) rfl ?_ ?_ f1 body ch hlen hcy hg f2 hf2
  · intro a b h
    simp only [app_nonfatal, app_nonascii, Bool.or_eq_false_iff] at h
    exact ⟨⟨h.1.1, h.2.1⟩, ⟨h.1.2, h.2.2⟩⟩
  · intro c rest ch1 rest1 hs hg1 f v hf hv f' hf'
    exact H_bytes P hP lk k hk hb c rest ch1 rest1 hs hg1 f v hf hv f' hf'

/-- generic induction over Cython's loop: a property of rounds that is additive over the
consumed input -/
theorem cyLoop_induct (P : LexP) (lk : Lookup) (k : Kind) (raw : Bool) (Q : List Nat → Chunk → Prop)
    (h0 : Q [] {})
    (hstep : ∀ c rest ch1 rest1 ch2, cyStep P lk k raw (c :: rest) = (.ok ch1, rest1) → Q rest1 ch2 →
      Q (c :: rest) (ch1.app ch2)) :
    ∀ (f1 : Nat) (body : List Nat) (ch : Chunk), cyLoop P lk k raw f1 body = .ok ch → Q body ch := by
  intro f1
  induction f1 with
  | zero => intro body ch h; simp [cyLoop] at h
  | succ f1 ih =>
    intro body ch hcy
    cases body with
    | nil => simp only [cyLoop] at hcy; injection hcy with hcy; subst hcy; exact h0
    | cons c rest =>
      simp only [cyLoop] at hcy
      cases hs : cyStep P lk k raw (c :: rest) with
      | mk r rest1 =>
        rw [hs] at hcy
        cases r with
        | err e => simp at hcy
        | ok ch1 =>
          simp only [] at hcy
          cases hl : cyLoop P lk k raw f1 rest1 with
          | err e => rw [hl] at hcy; simp at hcy
          | ok ch2 =>
            rw [hl] at hcy
            injection hcy with hcy; subst hcy
            exact hstep c rest ch1 rest1 ch2 hs (ih rest1 ch2 hl)

theorem utf8Enc1_len (c : Nat) : 1 ≤ (utf8Enc1 c).length ∧ (128 ≤ c → 2 ≤ (utf8Enc1 c).length) := by
  unfold utf8Enc1
  split
  · simp; omega
  · split
    · simp
    · split <;> simp

theorem flatMap_enc_len (l : List Nat) : l.length ≤ (l.flatMap utf8Enc1).length ∧
    (l.any (fun c => decide (128 ≤ c)) = true → 2 ≤ (l.flatMap utf8Enc1).length) := by
  induction l with
  | nil => simp
  | cons x xs ih =>
    have h1 := utf8Enc1_len x
    simp only [List.flatMap_cons, List.length_append, List.length_cons, List.any_cons, Bool.or_eq_true,
      decide_eq_true_eq]
    refine ⟨by omega, ?_⟩
    rintro (h | h)
    · have := h1.2 h; omega
    · have := ih.2 h; omega

/-- a literal non-ASCII character contributes at least two bytes -/
theorem nonascii_two_bytes (P : LexP) (lk : Lookup) (k : Kind) (hb : k.hasBytes = true) (raw : Bool) (f1 : Nat)
    (body : List Nat) (ch : Chunk) (hcy : cyLoop P lk k raw f1 body = .ok ch) :
    ch.nonascii = true → 2 ≤ ch.bs.length := by
  refine cyLoop_induct P lk k raw (fun _ ch => ch.nonascii = true → 2 ≤ ch.bs.length) (by simp) ?_ f1 body ch hcy
  intro c rest ch1 rest1 ch2 hs ih
  simp only [app_nonascii, app_bs, Bool.or_eq_true, List.length_append]
  -- the first chunk: flagged only by `chStr … true`
  have key : ch1.nonascii = true → 2 ≤ ch1.bs.length := by
    have hstr : ∀ chars lit, chStr k chars lit = .ok ch1 → ch1.nonascii = true → 2 ≤ ch1.bs.length := by
      intro chars lit h hf
      obtain ⟨_, _, hna, hbs⟩ := chStr_ok k chars lit ch1 h
      rw [bytesSide_true k hb] at hbs
      rw [utf8Encode_ok_iff] at hbs
      rw [hna] at hf
      simp only [Bool.and_eq_true] at hf
      rw [hbs.2]
      exact (flatMap_enc_len chars).2 hf.2
    simp only [cyStep] at hs
    by_cases h92 : c = 92
    · simp only [h92, if_true] at hs
      by_cases hr : rest = []
      · simp [hr] at hs
      · simp only [hr, if_false] at hs
        cases raw with
        | true =>
          simp only [if_true] at hs
          injection hs with hs1 _
          exact hstr _ _ hs1
        | false =>
          simp only [Bool.false_eq_true, if_false] at hs
          injection hs with hs1 _
          -- decoded escapes never set the flag
          intro hf
          exfalso
          have : ch1.nonascii = false := by
            cases hn : escLen P rest with
            | zero =>
              rw [hn] at hs1
              simp only [List.take_zero, appendEsc_one] at hs1
              have := (chStr_ok k _ false ch1 hs1).2.2.1
              simpa using this
            | succ m =>
              cases rest with
              | nil => exact absurd rfl hr
              | cons d t =>
                rw [hn, List.take_succ_cons, appendEsc_two] at hs1
                repeat' split at hs1
                all_goals first
                  | exact (chVal_ok P k _ ch1 hs1).2.2.1
                  | exact (chUesc_ok k _ _ ch1 hs1).2.2
                  | (have := (chStr_ok k _ false ch1 hs1).2.2.1; simpa using this)
                  | (unfold chErr at hs1; injection hs1 with hs1; subst hs1; rfl)
                  | (cases hs1 <;> rfl)
          rw [this] at hf; cases hf
    · simp only [h92, if_false] at hs
      by_cases hbr : k = .f ∧ (c = 123 ∨ c = 125)
      · exfalso; obtain ⟨e, _⟩ := hbr; subst e; simp [Kind.hasBytes] at hb
      · simp only [hbr, if_false] at hs
        injection hs with hs1 _
        exact hstr _ _ hs1
  rintro (h | h)
  · have := key h; omega
  · have := ih h; omega

end CyVerif.C10

import CyVerif.Model.C19Str
/-! String / bytes helpers against Python's `==`, `in`, `<`. -/
namespace CyVerif.C19

theorem kindOf_one (cs : List Nat) (h : kindOf cs = 1) : ∀ c ∈ cs, c < 256 := by
  unfold kindOf at h
  split at h
  · rename_i hall; simpa using hall
  · split at h <;> omega

theorem kindOf_two (cs : List Nat) (h : kindOf cs = 2) : ∀ c ∈ cs, c < 65536 := by
  unfold kindOf at h
  split at h
  · omega
  · split at h
    · rename_i hall; simpa using hall
    · omega

theorem kindOf_single (c : Nat) : kindOf [c] = if c < 256 then 1 else if c < 65536 then 2 else 4 := by
  simp [kindOf]

/-- `s == 'c'` for a one-character constant -/
theorem equalsUCS4_spec (s : UStr) (hc : s.canon) (ch2 : Nat) (eq : Bool) :
    equalsUCS4 s ch2 eq = if s.chars = [ch2] then eq else !eq := by
  obtain ⟨kind, chars⟩ := s
  unfold UStr.canon at hc
  simp only at hc
  unfold equalsUCS4
  match chars with
  | [] => simp
  | [ch1] =>
    simp only [List.cons.injEq, and_true]
    rw [kindOf_single] at hc
    by_cases h1 : ch2 < 256
    · simp [h1]
    · simp only [h1, ↓reduceIte]
      by_cases h2 : ch2 < 65536
      · simp only [h2, ↓reduceIte]
        by_cases hk : kind = 2 ∨ kind = 4
        · simp [hk]
        · simp only [hk, ↓reduceIte]
          have : ch1 ≠ ch2 := by
            intro he; subst he
            simp only [h1, ↓reduceIte, h2] at hc
            exact hk (Or.inl hc)
          simp [this]
      · simp only [h2, ↓reduceIte]
        by_cases hk : kind = 4
        · simp [hk]
        · simp only [hk, ↓reduceIte]
          have : ch1 ≠ ch2 := by
            intro he; subst he
            simp only [h1, ↓reduceIte, h2] at hc
            exact hk hc
          simp [this]
  | a :: b :: rest => simp

/-- the macro around it: identity, `None`, other types -/
theorem equalsUchar_spec (s : UStr) (hc : s.canon) (ident : Bool) (ch2 : Nat) (eq : Bool)
    (hid : ident = true → s.chars = [ch2]) :
    equalsUchar (.str s ident) ch2 eq = if s.chars = [ch2] then eq else !eq := by
  unfold equalsUchar
  cases ident with
  | true => simp [hid rfl]
  | false => simp [equalsUCS4_spec s hc]

theorem any_congr_mem' {α} (l : List α) (f g : α → Bool) (h : ∀ x ∈ l, f x = g x) : l.any f = l.any g := by
  induction l with
  | nil => rfl
  | cons a as ih =>
    simp only [List.any_cons]
    rw [h a (by simp), ih (fun x hx => h x (by simp [hx]))]

/-- `ch in text` -/
theorem unicodeContains_spec (s : UStr) (hc : s.canon) (ch : Nat) (eq : Bool) :
    unicodeContainsUCS4 ch s eq = ((s.chars.any (· == ch)) == eq) := by
  obtain ⟨kind, chars⟩ := s
  unfold UStr.canon at hc
  simp only at hc
  unfold unicodeContainsUCS4
  simp only
  by_cases h1 : ch ≤ 0xFF ∧ kind = 1
  · simp only [h1, and_self, ↓reduceIte]
    have hall := kindOf_one chars (hc ▸ h1.2)
    congr 1
    apply any_congr_mem'
    intro c hcm
    have := hall c hcm
    have e1 : c % 256 = c := Nat.mod_eq_of_lt this
    have e2 : ch % 256 = ch := Nat.mod_eq_of_lt (by omega)
    rw [e1, e2]
  · simp only [h1, ↓reduceIte]
    by_cases h2 : ch > 0xFF ∧ kind = 1
    · simp only [h2, and_self, ↓reduceIte]
      have hall := kindOf_one chars (hc ▸ h2.2)
      have : chars.any (· == ch) = false := by
        simp only [List.any_eq_false, beq_iff_eq]
        intro c hcm he
        have := hall c hcm
        omega
      simp [this]
    · simp only [h2, ↓reduceIte]
      by_cases h3 : ch > 0xFFFF ∧ kind = 2
      · simp only [h3, and_self, ↓reduceIte]
        have hall := kindOf_two chars (hc ▸ h3.2)
        have : chars.any (· == ch) = false := by
          simp only [List.any_eq_false, beq_iff_eq]
          intro c hcm he
          have := hall c hcm
          omega
        simp [this]
      · simp [h3]

/-- `x in <bytes>` for a C integer whose value is a byte -/
theorem bytesContainsC_byte (co : Bool) (bits : Nat) (x : Int) (bs : List Nat) (eq : Bool)
    (h0 : 0 ≤ x) (h1 : x < 256) : bytesContainsC co bits x bs eq = bytesContainsPy x bs eq := by
  unfold bytesContainsC bytesContainsPy
  split
  · rfl
  · simp only [h0, h1, and_self, ↓reduceIte]
    congr 2
    apply any_congr_mem'
    intro b _
    have : x % 256 = x := Int.emod_eq_of_lt h0 h1
    rw [this]
    rw [Bool.eq_iff_iff]
    simp only [beq_iff_eq]
    omega

/-- repaired: a C integer wider than `char` behaves like the Python int it converts to -/
theorem bytesContainsC_wide (bits : Nat) (hb : bits > 8) (x : Int) (bs : List Nat) (eq : Bool) :
    bytesContainsC true bits x bs eq = bytesContainsPy x bs eq := by
  unfold bytesContainsC bytesContainsPy
  simp [hb]

end CyVerif.C19

import CyVerif.Lemmas.C47LexTok
/-! Runs of quote characters in code: `quoteKind` against the reference lexer (C47 completeness). -/
namespace CyVerif.C47

theorem quoteKind_rep (n : Nat) (c : Char) :
    quoteKind (rep n c) = if n % 6 = 0 ∨ n % 6 = 2 then none else some (rep (min (n % 6) 3) c, n % 6 - 3) := by
  have hm : n % 6 < 6 := Nat.mod_lt _ (by omega)
  unfold quoteKind
  by_cases h6 : n ≥ 6
  · have hle : n % 6 ≤ n := Nat.mod_le _ _
    simp only [rep, List.length_replicate, h6, if_true, List.take_replicate, List.length_replicate,
      Nat.min_eq_left hle, ne_eq, List.replicate_eq_nil_iff]
    by_cases h0 : n % 6 = 0
    · simp [h0]
    by_cases h2 : n % 6 = 2
    · simp [h2]
    simp only [h0, h2, not_false_eq_true, and_self, if_true, or_self, if_false]
    by_cases h3 : n % 6 > 3
    · have : min 3 (n % 6) = 3 := by omega
      have h' : min (n % 6) 3 = 3 := by omega
      simp [h3, this, h']
    · have h' : min (n % 6) 3 = n % 6 := by omega
      have : n % 6 - 3 = 0 := by omega
      simp [h3, h', this]
  · have hn : n % 6 = n := Nat.mod_eq_of_lt (by omega)
    simp only [rep, List.length_replicate, h6, if_false, ne_eq, List.replicate_eq_nil_iff, hn]
    by_cases h0 : n = 0
    · simp [h0]
    by_cases h2 : n = 2
    · simp [h2]
    simp only [h0, h2, not_false_eq_true, and_self, if_true, or_self, if_false]
    by_cases h3 : n > 3
    · have : min 3 n = 3 := by omega
      have h' : min n 3 = 3 := by omega
      simp [h3, this, h', List.take_replicate]
    · have h' : min n 3 = n := by omega
      have : n - 3 = 0 := by omega
      simp [h3, h', this]

theorem rep_split (n : Nat) (c : Char) : rep n c = rep (6 * (n / 6)) c ++ rep (n % 6) c := by
  simp only [rep, List.replicate_append_replicate]
  congr 1
  have := Nat.div_add_mod n 6
  omega

theorem refLex_code_run {c : Char} (hc : isQuote c = true) (post : List Char) (n : Nat) :
    refLex .code 0 (rep n c ++ post) = (refLex .code 0 (rep (n % 6) c ++ post)).map (ff (6 * (n / 6)) ++ ·) := by
  conv => lhs; rw [rep_split n c, List.append_assoc]
  exact refLex_code_q6k hc _ _


def qsOf (c : Char) (triple : Bool) : List Char := if triple then [c, c, c] else [c]

theorem map_ff_ff (a b : Nat) (o : Option (List Bool)) :
    (o.map (ff b ++ ·)).map (ff a ++ ·) = o.map (ff (a + b) ++ ·) := by
  rw [Option.map_map]; congr 1; funext x; simp only [Function.comp, ff_add, List.append_assoc]

/-- a run of `n` quote characters in code that opens a literal -/
theorem code_open {c : Char} (hc : isQuote c = true) (post : List Char) (hp : ∀ x r, post = x :: r → x ≠ c)
    {n : Nat} {qs : List Char} {back : Nat} (hk : quoteKind (rep n c) = some (qs, back)) :
    ∃ triple : Bool, qs = qsOf c triple ∧ back < n ∧ back ≤ 2 ∧
      refLex .code 0 (rep n c ++ post)
        = (refLex (.str c triple) 0 (rep back c ++ post)).map (ff (n - back) ++ ·) := by
  have hm : n % 6 < 6 := Nat.mod_lt _ (by omega)
  have hdm := Nat.div_add_mod n 6
  rw [quoteKind_rep] at hk
  split at hk
  · simp at hk
  · rename_i hne
    simp only [Option.some.injEq, Prod.mk.injEq] at hk
    obtain ⟨rfl, rfl⟩ := hk
    rw [refLex_code_run hc]
    have h15 : n % 6 = 1 ∨ n % 6 = 3 ∨ n % 6 = 4 ∨ n % 6 = 5 := by omega
    rcases h15 with h | h | h | h
    · refine ⟨false, by simp [h, qsOf, rep], by omega, by omega, ?_⟩
      rw [h]
      simp only [rep, List.replicate_one, List.cons_append, List.nil_append, Nat.sub_zero, List.replicate_zero,
        Nat.reduceSub]
      rw [refLex_code_q1 hc post hp]
      have : (fun (x : List Bool) => false :: x) = (ff 1 ++ ·) := by funext x; rfl
      rw [this, map_ff_ff]; congr 1; funext x; congr 2; omega
    · refine ⟨true, by simp [h, qsOf, rep, List.replicate_succ], by omega, by omega, ?_⟩
      rw [h]
      simp only [rep, List.replicate_succ, List.replicate_zero, List.cons_append, List.nil_append, Nat.sub_self]
      rw [refLex_code_q3 hc, map_ff_ff]; congr 1; funext x; congr 2; omega
    · refine ⟨true, by simp [h, qsOf, rep, List.replicate_succ], by omega, by omega, ?_⟩
      rw [h]
      simp only [rep, List.replicate_succ, List.replicate_zero, List.cons_append, List.nil_append, Nat.reduceSub]
      rw [refLex_code_q3 hc, map_ff_ff]; congr 1; funext x; congr 2; omega
    · refine ⟨true, by simp [h, qsOf, rep, List.replicate_succ], by omega, by omega, ?_⟩
      rw [h]
      simp only [rep, List.replicate_succ, List.replicate_zero, List.cons_append, List.nil_append, Nat.reduceSub]
      rw [refLex_code_q3 hc, map_ff_ff]; congr 1; funext x; congr 2; omega

/-- a run of quote characters in code that opens nothing (`''`, ``, …) -/
theorem code_noopen {c : Char} (hc : isQuote c = true) (post : List Char) (hp : ∀ x r, post = x :: r → x ≠ c)
    {n : Nat} (hk : quoteKind (rep n c) = none) :
    refLex .code 0 (rep n c ++ post) = (refLex .code 0 post).map (ff n ++ ·) := by
  have hdm := Nat.div_add_mod n 6
  rw [quoteKind_rep] at hk
  split at hk
  · rename_i h
    rw [refLex_code_run hc]
    rcases h with h | h
    · rw [h]; simp only [rep, List.replicate_zero, List.nil_append]
      congr 2; funext x; congr 2; omega
    · rw [h]
      simp only [rep, List.replicate_succ, List.replicate_zero, List.cons_append, List.nil_append]
      rw [refLex_code_q2 hc post hp, map_ff_ff]; congr 1; funext x; congr 2; omega
  · simp at hk

end CyVerif.C47

import CyVerif.Lemmas.C18Digits
import CyVerif.Lemmas.C18Build
/-! C18 lemmas: the digit loop on an in-range value of an `n`-byte type stays inside
`digits[3n+2]` and leaves `pyDigits` (plus at most one excess '0'); the tail of the function. -/
namespace CyVerif.C18

/-- buffer contents and `last_one_off` after the loop, as a function of the magnitude -/
def rawDigits (fmt : Fmt) (m : Nat) : List Char × Bool :=
  match fmt with
  | .d => (padEven (Nat.toDigits 10 m), decide ((Nat.toDigits 10 m).length % 2 = 1))
  | .o => (padEven (Nat.toDigits 8 m), decide ((Nat.toDigits 8 m).length % 2 = 1))
  | .x => (Nat.toDigits 16 m, false)
  | .X => ((Nat.toDigits 16 m).map Char.toUpper, false)

theorem pow64_bound (n : Nat) : 2 ^ (8 * n) ≤ 64 ^ ((4 * n + 2) / 3) := by
  have : (64 : Nat) = 2 ^ 6 := by decide
  rw [this, ← Nat.pow_mul]
  exact Nat.pow_le_pow_right (by omega) (by omega)

theorem pow100_bound (n : Nat) : 2 ^ (8 * n) ≤ 100 ^ ((4 * n + 2) / 3) :=
  Nat.le_trans (pow64_bound n) (Nat.pow_le_pow_left (by omega) _)

theorem pow16_bound (n : Nat) : 2 ^ (8 * n) = 16 ^ (2 * n) := by
  have : (16 : Nat) = 2 ^ 4 := by decide
  rw [this, ← Nat.pow_mul]; congr 1; omega

theorem digitLoop_spec (n : Nat) (hn : 1 ≤ n) (fmt : Fmt) (value : Int) (hv : value.natAbs < 2 ^ (8 * n)) :
    digitLoop fmt (8 * n + 1) value ⟨n * 3 + 2, []⟩ false =
      .ok (⟨n * 3 + 2 - (rawDigits fmt value.natAbs).1.length, (rawDigits fmt value.natAbs).1⟩,
           (rawDigits fmt value.natAbs).2)
    ∧ (rawDigits fmt value.natAbs).1.length ≤ n * 3 + 1 := by
  obtain ⟨K, hK⟩ : ∃ K, (4 * n + 2) / 3 = K + 1 := ⟨(4 * n + 2) / 3 - 1, by omega⟩
  cases fmt with
  | d =>
    have hm : value.natAbs < 100 ^ (K + 1) := by rw [← hK]; exact Nat.lt_of_lt_of_le hv (pow100_bound n)
    obtain ⟨e, hl⟩ := loopWith_pair DIGIT_PAIRS_10 100 10 (by omega) rfl pairs10_get (loopStep .d)
      (fun _ _ _ => rfl) K (8 * n + 1) value ⟨n * 3 + 2, []⟩ false hm (by simp only []; omega) (by omega)
    simp only [List.append_nil] at e
    exact ⟨e, by simp only [rawDigits]; omega⟩
  | o =>
    have hm : value.natAbs < 64 ^ (K + 1) := by rw [← hK]; exact Nat.lt_of_lt_of_le hv (pow64_bound n)
    obtain ⟨e, hl⟩ := loopWith_pair DIGIT_PAIRS_8 64 8 (by omega) rfl pairs8_get (loopStep .o)
      (fun _ _ _ => rfl) K (8 * n + 1) value ⟨n * 3 + 2, []⟩ false hm (by simp only []; omega) (by omega)
    simp only [List.append_nil] at e
    exact ⟨e, by simp only [rawDigits]; omega⟩
  | x =>
    obtain ⟨k, hk⟩ : ∃ k, 2 * n = k + 1 := ⟨2 * n - 1, by omega⟩
    have hm : value.natAbs < 16 ^ (k + 1) := by rw [← hk, ← pow16_bound]; exact hv
    obtain ⟨e, hl⟩ := loopWith_hex 0 id (fun k hk => (hex_get k hk).1) (loopStep .x)
      (fun _ _ _ => rfl) k (8 * n + 1) value ⟨n * 3 + 2, []⟩ false hm (by simp only []; omega) (by omega)
    simp only [List.append_nil, List.map_id] at e
    exact ⟨e, by simp only [rawDigits]; omega⟩
  | X =>
    obtain ⟨k, hk⟩ : ∃ k, 2 * n = k + 1 := ⟨2 * n - 1, by omega⟩
    have hm : value.natAbs < 16 ^ (k + 1) := by rw [← hk, ← pow16_bound]; exact hv
    obtain ⟨e, hl⟩ := loopWith_hex 16 Char.toUpper (fun k hk => (hex_get k hk).2) (loopStep .X)
      (fun _ _ _ => rfl) k (8 * n + 1) value ⟨n * 3 + 2, []⟩ false hm (by simp only []; omega) (by omega)
    simp only [List.append_nil] at e
    refine ⟨?_, by simp only [rawDigits, List.length_map]; omega⟩
    simp only [rawDigits, List.length_map]
    exact e

end CyVerif.C18

namespace CyVerif.C18

theorem rawDigits_true (fmt : Fmt) (m : Nat) (h : (rawDigits fmt m).2 = true) :
    (rawDigits fmt m).1 = '0' :: pyDigits fmt m := by
  cases fmt <;> simp only [rawDigits, pyDigits, Fmt.base, decide_eq_true_eq] at h ⊢
  · simp [padEven, h]
  · simp [padEven, h]
  · exact absurd h (by simp)
  · exact absurd h (by simp)

theorem rawDigits_false (fmt : Fmt) (m : Nat) (h : (rawDigits fmt m).2 = false) :
    (rawDigits fmt m).1 = pyDigits fmt m := by
  cases fmt <;> simp only [rawDigits, pyDigits, Fmt.base, decide_eq_false_iff_not] at h ⊢
  · simp [padEven, h]
  · simp [padEven, h]

theorem pyDigits_length_pos (fmt : Fmt) (m : Nat) : 1 ≤ (pyDigits fmt m).length := by
  cases fmt <;> simp only [pyDigits, Fmt.base, List.length_map] <;> exact Nat.length_toDigits_pos

/-- result text in terms of an arbitrary digit string -/
def formatWith (ds : List Char) (neg zero : Bool) (width : Nat) : List Char :=
  let sign : List Char := if neg then ['-'] else []
  let padn := width - (sign.length + ds.length)
  if zero then sign ++ List.replicate padn '0' ++ ds
  else List.replicate padn ' ' ++ sign ++ ds

theorem pyFormatInt_eq (fmt : Fmt) (zero : Bool) (width : Nat) (v : Int) :
    pyFormatInt fmt zero width v = formatWith (pyDigits fmt v.natAbs) (decide (v < 0)) zero width := by
  simp [pyFormatInt, formatWith]

end CyVerif.C18

namespace CyVerif.C18

theorem cintFinish_nonneg (size : Nat) (signed : Bool) (value width : Int) (pad : Char) (ds : List Char)
    (hds1 : 1 ≤ ds.length) (hds : ds.length + 1 ≤ size) (hv : 0 ≤ value) (hpad : pad = ' ' ∨ pad = '0') :
    cintFinish size signed value width pad ⟨size - ds.length, ds⟩ false =
      .text (formatWith ds false (pad == '0') width.toNat) := by
  have hlen : (size : Int) - ((size - ds.length : Nat) : Int) = (ds.length : Int) := by omega
  have hneg : (signed && decide (value ≤ -1)) = false := by
    have : ¬ value ≤ -1 := by omega
    simp [this]
  unfold cintFinish
  simp only [Bool.false_eq_true, if_false, hlen, hneg, Bool.false_and]
  by_cases hw : width > (ds.length : Int)
  · simp only [hw, if_true]
    have h1 : ¬ width = 1 := by omega
    obtain ⟨w, rfl⟩ : ∃ w : Nat, width = (w : Int) := ⟨width.toNat, by omega⟩
    simp only [h1, if_false]
    rw [buildFromAscii_spec w ds false pad (by omega)]
    rcases hpad with rfl | rfl <;> simp [formatWith, buildPrefix] <;> omega
  · simp only [hw, if_false]
    have hpadn : width.toNat - ds.length = 0 := by omega
    by_cases h1 : (ds.length : Int) = 1
    · simp only [h1, if_true]
      match ds, hds1, h1 with
      | [c], _, _ =>
        simp only [List.length_singleton] at hpadn
        rcases hpad with rfl | rfl <;> simp [formatWith] <;> omega
    · simp only [h1, if_false]
      rw [buildFromAscii_spec ds.length ds false pad (by omega)]
      rcases hpad with rfl | rfl <;> simp [formatWith, buildPrefix, hpadn]

theorem cintFinish_neg (size : Nat) (value width : Int) (pad : Char) (ds : List Char)
    (hds1 : 1 ≤ ds.length) (hds : ds.length + 1 ≤ size) (hv : value < 0) (hpad : pad = ' ' ∨ pad = '0') :
    cintFinish size true value width pad ⟨size - ds.length, ds⟩ false =
      .text (formatWith ds true (pad == '0') width.toNat) := by
  have hlen : (size : Int) - ((size - ds.length : Nat) : Int) = (ds.length : Int) := by omega
  have hneg : (true && decide (value ≤ -1)) = true := by
    have : value ≤ -1 := by omega
    simp [this]
  have hpush : (⟨size - ds.length, ds⟩ : DBuf).push1 '-' = some ⟨size - ds.length - 1, '-' :: ds⟩ := by
    have : 1 ≤ size - ds.length := by omega
    simp [DBuf.push1, this]
  have hcl : (ds.length : Int) + 1 = ((('-' :: ds).length : Nat) : Int) := by simp
  unfold cintFinish
  simp only [Bool.false_eq_true, if_false, hlen, hneg, Bool.true_and, if_true]
  by_cases hinl : (decide (pad = ' ') || decide (width ≤ (ds.length : Int) + 1)) = true
  · simp only [hinl, if_true, hpush, Bool.not_true]
    by_cases hw : width > (ds.length : Int) + 1
    · -- then pad = ' '
      have hp : pad = ' ' := by
        simp only [Bool.or_eq_true, decide_eq_true_eq] at hinl
        rcases hinl with h | h
        · exact h
        · omega
      subst hp
      obtain ⟨w, rfl⟩ : ∃ w : Nat, width = (w : Int) := ⟨width.toNat, by omega⟩
      have h1 : ¬ (w : Int) = 1 := by omega
      simp only [hw, if_true, h1, if_false]
      rw [hcl, buildFromAscii_spec w ('-' :: ds) false ' ' (by simp; omega)]
      have e1 : ¬ (w - (ds.length + 1) = 0) := by omega
      have e2 : w - (1 + ds.length) = w - (ds.length + 1) := by omega
      simp [formatWith, buildPrefix, e1, e2]
    · have h1 : ¬ (ds.length : Int) + 1 = 1 := by omega
      simp only [hw, if_false, h1]
      have hpadn : width.toNat - (1 + ds.length) = 0 := by omega
      have := buildFromAscii_spec (ds.length + 1) ('-' :: ds) false pad (by simp)
      simp only [List.length_cons, Int.natCast_add, Int.natCast_one] at this
      rw [this]
      rcases hpad with rfl | rfl <;> simp [formatWith, buildPrefix, hpadn]
  · have hinl' : (decide (pad = ' ') || decide (width ≤ (ds.length : Int) + 1)) = false := by
      simpa using hinl
    simp only [Bool.or_eq_false_iff, decide_eq_false_iff_not] at hinl'
    obtain ⟨hp, hw⟩ := hinl'
    have hp0 : pad = '0' := by rcases hpad with h | h; exact absurd h hp; exact h
    subst hp0
    have hw' : width > (ds.length : Int) + 1 := by omega
    obtain ⟨w, rfl⟩ : ∃ w : Nat, width = (w : Int) := ⟨width.toNat, by omega⟩
    have h1 : ¬ (w : Int) = 1 := by omega
    simp only [hinl, Bool.false_eq_true, if_false, hw', if_true, h1, Bool.not_false]
    rw [buildFromAscii_spec w ds true '0' (by omega)]
    have e1 : ¬ (w - ds.length = 0) := by omega
    have e2 : w - (1 + ds.length) = w - ds.length - 1 := by omega
    simp [formatWith, buildPrefix, e1, e2]

theorem cintFinish_loo (size : Nat) (signed : Bool) (value width : Int) (pad : Char) (ds : List Char)
    (hds : ds.length + 1 ≤ size) :
    cintFinish size signed value width pad ⟨size - (ds.length + 1), '0' :: ds⟩ true =
      cintFinish size signed value width pad ⟨size - ds.length, ds⟩ false := by
  have e : size - (ds.length + 1) + 1 = size - ds.length := by omega
  unfold cintFinish
  simp only [if_true, Bool.false_eq_true, if_false, e]

theorem natAbs_lt_of_inRange (n : Nat) (hn : 1 ≤ n) (signed : Bool) (v : Int) (hv : InRange n signed v) :
    v.natAbs < 2 ^ (8 * n) := by
  obtain ⟨k, hk⟩ : ∃ k, 8 * n = k + 1 := ⟨8 * n - 1, by omega⟩
  have hp : (2 : Nat) ^ (8 * n) = 2 * 2 ^ k := by rw [hk, Nat.pow_succ]; omega
  have hk' : 8 * n - 1 = k := by omega
  unfold InRange at hv
  cases signed with
  | true =>
    simp only [if_true, hk'] at hv
    have : ((2 : Int) ^ k) = (((2 : Nat) ^ k : Nat) : Int) := by simp
    rw [this] at hv
    omega
  | false =>
    simp only [Bool.false_eq_true, if_false] at hv
    have : ((2 : Int) ^ (8 * n)) = (((2 : Nat) ^ (8 * n) : Nat) : Int) := by simp
    rw [this] at hv
    omega

end CyVerif.C18

import CyVerif.Lemmas.C10EscBase
/-! The scanner's token length + the parser's `int(…)` agree with CPython's incremental
digit loops; name tokens agree with "up to the next `}`". -/
namespace CyVerif.C10

theorem isOct_iff (c : Nat) : isOct c = true ↔ 48 ≤ c ∧ c ≤ 55 := by simp [isOct]

theorem hexDigVal_oct (c : Nat) (h : isOct c = true) : hexDigVal c = c - 48 := by
  rw [isOct_iff] at h; unfold hexDigVal; rw [if_pos (by omega)]

/-! ### octal -/

theorem oct_agree (P : LexP) (d : Nat) (t : List Nat) (hd : isOct d = true) :
    parseInt 8 isOct ((d :: t).take (escLen P (d :: t))) = some (refOct d t).1 ∧
    (d :: t).drop (escLen P (d :: t)) = (refOct d t).2 ∧ 1 ≤ escLen P (d :: t) := by
  have vd := hexDigVal_oct d hd
  cases t with
  | nil => simp [escLen, refOct, hd, parseInt, parseDigits, vd]
  | cons e t2 =>
    by_cases he : isOct e = true
    · have ve := hexDigVal_oct e he
      cases t2 with
      | nil => simp [escLen, refOct, hd, he, parseInt, parseDigits, vd, ve]
      | cons g t3 =>
        by_cases hg : isOct g = true
        · have vg := hexDigVal_oct g hg
          simp [escLen, refOct, hd, he, hg, parseInt, parseDigits, vd, ve, vg]
        · simp [escLen, refOct, hd, he, hg, parseInt, parseDigits, vd, ve]
    · simp [escLen, refOct, hd, he, parseInt, parseDigits, vd]

/-! ### hexadecimal -/

theorem refHex_spec : ∀ (n : Nat) (t : List Nat) (acc : Nat),
    refHex n t acc = if hexPrefix n t = true then
        (parseDigits 16 isHex (t.take n) acc).map (fun v => (v, t.drop n)) else none
  | 0, t, acc => by simp [refHex, hexPrefix, parseDigits]
  | n + 1, [], acc => by simp [refHex, hexPrefix]
  | n + 1, c :: t, acc => by
    have ih := refHex_spec n t (acc * 16 + hexDigVal c)
    by_cases hc : isHex c = true
    · simp only [refHex, hc, if_true, ih, List.take_succ_cons, List.drop_succ_cons, parseDigits]
      have : hexPrefix (n + 1) (c :: t) = hexPrefix n t := by
        simp [hexPrefix, hc]
      rw [this]
    · have : hexPrefix (n + 1) (c :: t) = false := by
        simp [hexPrefix, hc]
      simp [refHex, hc, this]

theorem hexPrefix_take_ne_nil (n : Nat) (t : List Nat) (h : hexPrefix (n + 1) t = true) : t.take (n + 1) ≠ [] := by
  cases t with
  | nil => simp [hexPrefix] at h
  | cons c t => simp

/-- the three hex escapes: `u`+4, `x`+2, `U`+8 -/
theorem hex_agree (n : Nat) (t : List Nat) :
    (hexPrefix (n + 1) t = true →
      ∃ v, parseInt 16 isHex (t.take (n + 1)) = some v ∧ refHex (n + 1) t 0 = some (v, t.drop (n + 1))) ∧
    (hexPrefix (n + 1) t = false → refHex (n + 1) t 0 = none) := by
  constructor
  · intro h
    have hs := refHex_spec (n + 1) t 0
    rw [h] at hs
    simp only [if_true] at hs
    have hne := hexPrefix_take_ne_nil n t h
    unfold parseInt
    rw [if_neg hne]
    cases hp : parseDigits 16 isHex (t.take (n + 1)) 0 with
    | none =>
      -- all characters are hex digits, so the parse cannot fail
      exfalso
      have hall : (t.take (n + 1)).all isHex = true := by
        simp only [hexPrefix, Bool.and_eq_true] at h; exact h.2
      have : ∀ (l : List Nat) (acc : Nat), l.all isHex = true → parseDigits 16 isHex l acc ≠ none := by
        intro l
        induction l with
        | nil => intro acc _; simp [parseDigits]
        | cons x xs ih =>
          intro acc hx
          simp only [List.all_cons, Bool.and_eq_true] at hx
          simp only [parseDigits, hx.1, if_true]
          exact ih _ hx.2
      exact this _ 0 hall hp
    | some v => rw [hp] at hs; exact ⟨v, rfl, by simpa using hs⟩
  · intro h
    have hs := refHex_spec (n + 1) t 0
    rw [h] at hs
    simpa using hs

/-! ### names -/

theorem takeWhile_dropWhile_agree (p q : Nat → Bool) (hpq : ∀ x, p x = true → q x = true) (stop : Nat)
    (hq : q stop = false) : ∀ (l r : List Nat), l.dropWhile p = stop :: r →
      l.takeWhile q = l.takeWhile p ∧ l.dropWhile q = stop :: r
  | [], r => by simp
  | x :: xs, r => by
    intro h
    by_cases hx : p x = true
    · have ih := takeWhile_dropWhile_agree p q hpq stop hq xs r (by simpa [List.dropWhile, hx] using h)
      simp [List.takeWhile, List.dropWhile, hx, hpq x hx, ih.1, ih.2]
    · have hx' : p x = false := by simpa using hx
      simp only [List.dropWhile, hx'] at h
      injection h with h1 h2
      subst h1
      simp [List.takeWhile, List.dropWhile, hx', hq, h2]

theorem take_takeWhile_succ (p : Nat → Bool) (stop : Nat) : ∀ (l r : List Nat), l.dropWhile p = stop :: r →
    l.take ((l.takeWhile p).length + 1) = l.takeWhile p ++ [stop] ∧
    l.drop ((l.takeWhile p).length + 1) = r
  | [], r => by simp
  | x :: xs, r => by
    intro h
    by_cases hx : p x = true
    · have ih := take_takeWhile_succ p stop xs r (by simpa [List.dropWhile, hx] using h)
      simp [List.takeWhile, hx, ih.1, ih.2]
    · have hx' : p x = false := by simpa using hx
      simp only [List.dropWhile, hx'] at h
      injection h with h1 h2
      subst h1
      simp [List.takeWhile, hx', h2]

end CyVerif.C10

import CyVerif.Lemmas.C35Nanny
/-! Soundness and completeness of the refnanny checker for event streams. -/
namespace CyVerif.C35

theorem step_ctx (s : RS) (e : NEv) :
    (s.step e).ctx = match e.kind with
      | .nop => s.ctx
      | .reg p => s.ctx.regref p e.line
      | .del p _ => (s.ctx.delref p e.line).1 := by
  cases e with
  | acquire o => rfl
  | gotref p l => rfl
  | giveref p l => rfl
  | incref p l => rfl
  | decref p l => rfl
  | xgotref p l => cases p <;> rfl
  | xgiveref p l => cases p <;> rfl
  | xincref p l => cases p <;> rfl
  | xdecref p l => cases p <;> rfl

def NEv.minus (e : NEv) (o : Nat) : Int :=
  match e.kind with
  | .del (some x) true => if x = o then 1 else 0
  | _ => 0

/-- refcount effect of one event when the checker allows every decref -/
theorem step_rc (s : RS) (e : NEv) (o : Nat)
    (hok : ∀ x d, e.kind = .del (some x) d → (s.ctx.delref (some x) e.line).2 = true) :
    (s.step e).rc o = s.rc o + e.plus o - e.minus o := by
  cases e with
  | acquire x => by_cases h : o = x <;> simp [RS.step, bump, NEv.plus, NEv.minus, NEv.kind, h, eq_comm]
  | gotref p l => simp [RS.step, NEv.plus, NEv.minus, NEv.kind]
  | giveref p l => cases p <;> simp [RS.step, NEv.plus, NEv.minus, NEv.kind]
  | incref p l =>
    cases p with
    | none => simp [RS.step, bump, NEv.plus, NEv.minus, NEv.kind]
    | some x => by_cases h : o = x <;> simp [RS.step, bump, NEv.plus, NEv.minus, NEv.kind, h, eq_comm]
  | decref p l =>
    cases p with
    | none => simp [RS.step, NEv.plus, NEv.minus, NEv.kind, Ctx.delref]
    | some x =>
      have := hok x true rfl
      simp only [NEv.line] at this
      by_cases h : o = x <;> simp [RS.step, bump, NEv.plus, NEv.minus, NEv.kind, h, eq_comm, this] <;> omega
  | xgotref p l => cases p <;> simp [RS.step, NEv.plus, NEv.minus, NEv.kind]
  | xgiveref p l => cases p <;> simp [RS.step, NEv.plus, NEv.minus, NEv.kind]
  | xincref p l =>
    cases p with
    | none => simp [RS.step, NEv.plus, NEv.minus, NEv.kind]
    | some x => by_cases h : o = x <;> simp [RS.step, bump, NEv.plus, NEv.minus, NEv.kind, h, eq_comm]
  | xdecref p l =>
    cases p with
    | none => simp [RS.step, NEv.plus, NEv.minus, NEv.kind]
    | some x =>
      have := hok x true rfl
      simp only [NEv.line] at this
      by_cases h : o = x <;> simp [RS.step, bump, NEv.plus, NEv.minus, NEv.kind, h, eq_comm, this] <;> omega

theorem regref_errors (c : Ctx) (p : Option Nat) (l : Nat) :
    ∃ x, (c.regref p l).errors = c.errors ++ x := by
  unfold Ctx.regref
  cases p with
  | none => exact ⟨_, rfl⟩
  | some o => simp only; split <;> exact ⟨[], by simp⟩

theorem delref_errors (c : Ctx) (p : Option Nat) (l : Nat) :
    ∃ x, (c.delref p l).1.errors = c.errors ++ x := by
  unfold Ctx.delref
  cases p with
  | none => exact ⟨_, rfl⟩
  | some o =>
    simp only
    split
    · exact ⟨_, rfl⟩
    · split
      · exact ⟨_, rfl⟩
      · split <;> exact ⟨[], by simp⟩

theorem errors_ne_step (s : RS) (e : NEv) (h : s.ctx.errors ≠ []) : (s.step e).ctx.errors ≠ [] := by
  rw [step_ctx]
  split
  · exact h
  · obtain ⟨x, hx⟩ := regref_errors s.ctx _ e.line; rw [hx]; simp [h]
  · obtain ⟨x, hx⟩ := delref_errors s.ctx _ e.line; rw [hx]; simp [h]

theorem errors_ne_run (s : RS) (es : List NEv) (h : s.ctx.errors ≠ []) : (s.run es).ctx.finish ≠ [] := by
  induction es generalizing s with
  | nil =>
    simp only [RS.run, List.foldl_nil, Ctx.finish]
    by_cases he : s.ctx.refs.isEmpty = true
    · simp only [he, if_true]; exact h
    · simp [he]
  | cons e es ih => exact ih (s.step e) (errors_ne_step s e h)

theorem finish_nil_iff {c : Ctx} {held : Nat → Nat} (r : Rep c held) : c.finish = [] ↔ ∀ o, held o = 0 := by
  unfold Ctx.finish
  constructor
  · intro h o
    split at h
    · rename_i he
      rw [← r.count o]
      have : c.refs = [] := by simpa using he
      simp [cnt, this, aget]
    · simp at h
  · intro h
    have : c.refs = [] := by
      cases hr : c.refs with
      | nil => rfl
      | cons p l =>
        have hg : aget c.refs p.1 = some p.2 := by rw [hr]; simp [aget]
        have h1 := r.pos _ _ hg
        have h2 := r.count p.1
        simp only [cnt, hg] at h2
        have := h p.1
        omega
    simp [this, r.noErr]

def netRc (es : List NEv) (o : Nat) : Int := (es.map (fun e => e.plus o - e.minus o)).sum

theorem run_cons (s : RS) (e : NEv) (es : List NEv) : s.run (e :: es) = (s.step e).run es := rfl

/-- completeness: a clean report means the stream was balanced -/
theorem run_complete {s : RS} {held : Nat → Nat} (r : Rep s.ctx held) (es : List NEv)
    (h : (s.run es).ctx.finish = []) : balFrom held es := by
  induction es generalizing s held with
  | nil => exact (finish_nil_iff r).mp h
  | cons e es ih =>
    rw [run_cons] at h
    have hctx := step_ctx s e
    simp only [balFrom]
    cases hk : e.kind with
    | nop => rw [hk] at hctx; simp only at hctx ⊢; exact ih (hctx ▸ r) h
    | reg p =>
      rw [hk] at hctx; simp only at hctx
      cases p with
      | none =>
        exfalso
        apply errors_ne_run (s.step e) es _ h
        rw [hctx]; simp [Ctx.regref]
      | some o => exact ih (hctx ▸ rep_regref r o e.line) h
    | del p d =>
      rw [hk] at hctx; simp only at hctx
      cases p with
      | none =>
        exfalso
        apply errors_ne_run (s.step e) es _ h
        rw [hctx]; simp [Ctx.delref]
      | some o =>
        by_cases h0 : held o = 0
        · exfalso
          apply errors_ne_run (s.step e) es _ h
          rw [hctx]; exact delref_zero_errors r o e.line h0
        · have hp : 0 < held o := Nat.pos_of_ne_zero h0
          exact ⟨hp, ih (hctx ▸ (rep_delref r o e.line hp).1) h⟩

/-- soundness: a balanced stream gives a clean report, and every decref was carried out -/
theorem run_sound {s : RS} {held : Nat → Nat} (r : Rep s.ctx held) (es : List NEv)
    (h : balFrom held es) :
    (s.run es).ctx.finish = [] ∧ ∀ o, (s.run es).rc o = s.rc o + netRc es o := by
  induction es generalizing s held with
  | nil => exact ⟨(finish_nil_iff r).mpr h, by simp [RS.run, netRc]⟩
  | cons e es ih =>
    rw [run_cons]
    have hctx := step_ctx s e
    simp only [balFrom] at h
    have hnet : ∀ o, netRc (e :: es) o = (e.plus o - e.minus o) + netRc es o := by
      intro o; simp [netRc]
    cases hk : e.kind with
    | nop =>
      rw [hk] at hctx h; simp only at hctx h
      have hrc := fun o => step_rc s e o (by intro x d hx; rw [hk] at hx; cases hx)
      obtain ⟨h1, h2⟩ := ih (hctx ▸ r) h
      exact ⟨h1, fun o => by rw [h2 o, hrc o, hnet o]; omega⟩
    | reg p =>
      rw [hk] at hctx h; simp only at hctx
      cases p with
      | none => exact absurd h (by simp)
      | some x =>
        simp only at h
        have hrc := fun o => step_rc s e o (by intro x d hx; rw [hk] at hx; cases hx)
        obtain ⟨h1, h2⟩ := ih (hctx ▸ rep_regref r x e.line) h
        exact ⟨h1, fun o => by rw [h2 o, hrc o, hnet o]; omega⟩
    | del p d =>
      rw [hk] at hctx h; simp only at hctx
      cases p with
      | none => exact absurd h (by simp)
      | some x =>
        simp only at h
        have hd := rep_delref r x e.line h.1
        have hrc := fun o => step_rc s e o (by
          intro y d' hy; rw [hk] at hy; cases hy; exact hd.2)
        obtain ⟨h1, h2⟩ := ih (hctx ▸ hd.1) h.2
        exact ⟨h1, fun o => by rw [h2 o, hrc o, hnet o]; omega⟩

/-- the checker reports nothing exactly for the balanced streams -/
theorem report_nil_iff (es : List NEv) : report es = [] ↔ Balanced es :=
  ⟨fun h => run_complete (s := RS.init) rep_init es h, fun h => (run_sound (s := RS.init) rep_init es h).1⟩

theorem delta_of_balanced {es : List NEv} (h : Balanced es) (o : Nat) : delta es o = netRc es o := by
  have := (run_sound (s := RS.init) rep_init es h).2 o
  simpa [delta, RS.init] using this

end CyVerif.C35

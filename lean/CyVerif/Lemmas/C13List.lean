import CyVerif.Model.C13Ops
/-! List pop/append fast paths of C13 refine Python list semantics (core Lean only). -/
namespace CyVerif.C13
open CyVerif.C15 (Out pyNorm)

theorem cpyResize_ge (alloc oldsize newsize : Nat) : newsize ≤ cpyResize alloc oldsize newsize := by
  unfold cpyResize
  simp only []
  (repeat' split) <;> omega

/-- the statement proved for every step: same observation as the Python list, same items, invariant kept -/
def StepOK {α} (s : LS α) (op : Op α) (r : StepR α) : Prop :=
  ∃ s', r = .done (specStep s.items op).1 s' ∧ s'.items = (specStep s.items op).2 ∧ s'.inv

theorem pyNorm_some {n : Nat} {i : Int} {k : Nat} (h : pyNorm n i = some k) :
    k < n ∧ (k : Int) = (if i < 0 then i + n else i) := by
  unfold pyNorm at h
  simp only [] at h
  generalize hj : (if i < 0 then i + (n : Int) else i) = j at h
  by_cases hc : 0 ≤ j ∧ j < n
  · rw [if_pos hc] at h; injection h with h; omega
  · rw [if_neg hc] at h; cases h

theorem cpyPop_ok {α} (s : LS α) (hinv : s.inv) (i : Int) : StepOK s (.popi i) (cpyPop s i) := by
  unfold StepOK cpyPop specStep
  simp only []
  by_cases h0 : s.items.length = 0
  · have hn : pyNorm s.items.length i = none := by
      unfold pyNorm; simp only []; rw [if_neg (by omega)]
    rw [if_pos h0]
    simp only [hn]
    exact ⟨s, rfl, rfl, hinv⟩
  · rw [if_neg h0]
    cases hk : pyNorm s.items.length i with
    | none => exact ⟨s, rfl, rfl, hinv⟩
    | some k =>
      have ⟨hkl, _⟩ := pyNorm_some hk
      simp only [List.getElem?_eq_getElem hkl]
      by_cases h1 : s.items.length - 1 = 0
      · rw [if_pos h1]
        refine ⟨⟨[], 0⟩, rfl, ?_, by simp [LS.inv]⟩
        have : (s.items.eraseIdx k).length = 0 := by rw [List.length_eraseIdx_of_lt hkl]; exact h1
        exact (List.eq_nil_of_length_eq_zero this).symm
      · rw [if_neg h1]
        refine ⟨_, rfl, rfl, ?_⟩
        simp only [LS.inv, List.length_eraseIdx_of_lt hkl]
        exact cpyResize_ge _ _ _

theorem specStep_pop {α} (l : List α) : specStep l .pop = specStep l (.popi (-1)) := by
  unfold specStep
  simp only []
  by_cases h0 : l.length = 0
  · have : l = [] := List.eq_nil_of_length_eq_zero h0
    subst this; simp [pyNorm]
  · have hpos : l.length - 1 < l.length := by omega
    have hn : pyNorm l.length (-1) = some (l.length - 1) := by
      unfold pyNorm; simp only []
      rw [if_pos (by omega), if_pos (by omega)]; congr 1; omega
    rw [hn, List.getLast?_eq_getElem?]
    simp only [List.getElem?_eq_getElem hpos]
    congr 1
    rw [List.dropLast_eq_take, List.eraseIdx_eq_take_drop_succ]
    have : l.drop (l.length - 1 + 1) = [] := by apply List.drop_of_length_le; omega
    rw [this, List.append_nil]

theorem cpyAppend_ok {α} (s : LS α) (_hinv : s.inv) (x : α) : StepOK s (.append x) (cpyAppend s x) := by
  unfold StepOK cpyAppend specStep
  simp only []
  split
  · exact ⟨_, rfl, rfl, by simp [LS.inv]; omega⟩
  · exact ⟨_, rfl, rfl, by simp only [LS.inv, List.length_append, List.length_singleton]; exact cpyResize_ge _ _ _⟩

theorem pyxAppend_ok {α} (s : LS α) (hinv : s.inv) (x : α) : StepOK s (.append x) (pyxAppend s x) := by
  unfold pyxAppend
  simp only []
  split
  · rename_i h
    rw [if_pos h.1]
    unfold StepOK specStep
    exact ⟨_, rfl, rfl, by simp [LS.inv]; omega⟩
  · exact cpyAppend_ok s hinv x

theorem pyxPop_ok {α} (s : LS α) (hinv : s.inv) : StepOK s .pop (pyxPop s) := by
  unfold pyxPop
  simp only []
  split
  · rename_i h
    have hpos : s.items.length - 1 < s.items.length := by omega
    simp only [List.getElem?_eq_getElem hpos]
    unfold StepOK
    refine ⟨⟨s.items.take (s.items.length - 1), s.alloc⟩, ?_, ?_, ?_⟩
    · congr 1
      simp only [specStep, List.getLast?_eq_getElem?, List.getElem?_eq_getElem hpos]
    · simp only [specStep, List.getLast?_eq_getElem?, List.getElem?_eq_getElem hpos, List.dropLast_eq_take]
    · unfold LS.inv at *; simp [List.length_take]; omega
  · have := cpyPop_ok s hinv (-1)
    unfold StepOK at *
    rw [specStep_pop]
    exact this

theorem memmove_erase {α} (l : List α) (c : Nat) (hc : c < l.length) :
    ∃ a, memmove l c (c + 1) (l.length - 1 - c) = some a ∧ a.take (l.length - 1) = l.eraseIdx c := by
  unfold memmove
  rw [if_pos (by omega)]
  refine ⟨_, rfl, ?_⟩
  have h1 : (l.drop (c + 1)).take (l.length - 1 - c) = l.drop (c + 1) := by
    apply List.take_of_length_le; simp; omega
  rw [h1, List.eraseIdx_eq_take_drop_succ]
  have h2 : (l.take c ++ l.drop (c + 1)).length = l.length - 1 := by simp [List.length_take]; omega
  rw [List.take_append_of_le_length (by omega), List.take_of_length_le (by omega)]

theorem pyxPopIndex_ok {α} (s : LS α) (hinv : s.inv) (ix : Int) : StepOK s (.popi ix) (pyxPopIndex s ix) := by
  unfold pyxPopIndex
  simp only []
  by_cases hf : s.items.length > s.alloc / 2
  · rw [if_pos hf]
    by_cases hv : 0 ≤ (if ix < 0 then ix + s.items.length else ix) ∧ (if ix < 0 then ix + s.items.length else ix) < s.items.length
    · rw [if_pos hv]
      generalize hcx : (if ix < 0 then ix + (s.items.length : Int) else ix) = cix at hv
      have hc : cix.toNat < s.items.length := by omega
      obtain ⟨a, hm, ha⟩ := memmove_erase s.items cix.toNat hc
      simp only [List.getElem?_eq_getElem hc, hm]
      have hn : pyNorm s.items.length ix = some cix.toNat := by
        unfold pyNorm; simp only []; rw [hcx, if_pos hv]
      unfold StepOK
      refine ⟨⟨a.take (s.items.length - 1), s.alloc⟩, ?_, ?_, ?_⟩
      · simp only [specStep, hn, List.getElem?_eq_getElem hc]
      · simp only [specStep, hn, List.getElem?_eq_getElem hc]; exact ha
      · unfold LS.inv at *; simp only [List.length_take]; omega
    · rw [if_neg hv]; exact cpyPop_ok s hinv ix
  · rw [if_neg hf]; exact cpyPop_ok s hinv ix

theorem pyxStep_ok {α} (s : LS α) (hinv : s.inv) (op : Op α) : StepOK s op (pyxStep s op) := by
  cases op with
  | append x => exact pyxAppend_ok s hinv x
  | pop => exact pyxPop_ok s hinv
  | popi i => exact pyxPopIndex_ok s hinv i

theorem pyxRun_ok {α} (ops : List (Op α)) : ∀ (s : LS α), s.inv →
    ∃ s', pyxRun s ops = some ((specRun s.items ops).1, s') ∧ s'.items = (specRun s.items ops).2 ∧ s'.inv := by
  induction ops with
  | nil => intro s h; exact ⟨s, rfl, rfl, h⟩
  | cons op ops ih =>
    intro s h
    obtain ⟨s1, h1, h2, h3⟩ := pyxStep_ok s h op
    obtain ⟨s2, g1, g2, g3⟩ := ih s1 h3
    refine ⟨s2, ?_, ?_, g3⟩
    · simp only [pyxRun, h1, g1, specRun, h2]
    · simp only [specRun]; rw [← h2]; exact g2

end CyVerif.C13

import CyVerif.Lemmas.C09Pool
/-! C09 part B: `same` is an equivalence relation. -/
namespace CyVerif.C09

theorem sameAtom_refl (a : Atom) : sameAtom a a = true := by
  cases a <;> simp [sameAtom]

theorem sameAtom_cases {a b : Atom} (h : sameAtom a b = true) :
    a = b ∨ (∃ x y, a = .float x ∧ b = .float y ∧ fIsNaN x = true ∧ fIsNaN y = true) := by
  cases a <;> cases b <;> simp [sameAtom] at h <;> try (left; simp [h]; done)
  rename_i x y
  rcases h with h | h
  · left; rw [h]
  · right; exact ⟨x, y, rfl, rfl, h.1, h.2⟩

theorem sameAtom_symm {a b : Atom} (h : sameAtom a b = true) : sameAtom b a = true := by
  rcases sameAtom_cases h with rfl | ⟨x, y, rfl, rfl, hx, hy⟩
  · exact sameAtom_refl _
  · simp [sameAtom, hx, hy]

theorem sameAtom_trans {a b c : Atom} (h1 : sameAtom a b = true) (h2 : sameAtom b c = true) :
    sameAtom a c = true := by
  rcases sameAtom_cases h1 with rfl | ⟨x, y, rfl, rfl, hx, hy⟩
  · exact h2
  · rcases sameAtom_cases h2 with h | ⟨y', z, hyy, rfl, _, hz⟩
    · rw [← h]; exact h1
    · simp [sameAtom, hx, hz]

mutual
theorem same_refl : ∀ x : Val, same x x = true
  | .atom a => by simp [same, sameAtom_refl]
  | .tuple xs => by simp only [same]; exact sameL_refl xs
  | .fset xs => by
    simp only [same, Bool.and_eq_true, List.all_eq_true]
    refine ⟨(sameSub_iff xs xs).mpr (fun x hx => ⟨x, hx, mem_refl xs x hx⟩), fun y hy => ?_⟩
    exact (sameAny_iff xs y).mpr ⟨y, hy, mem_refl xs y hy⟩
  | .slice a b c => by simp [same, same_refl a, same_refl b, same_refl c]
theorem sameL_refl : ∀ xs : List Val, sameL xs xs = true
  | [] => by simp [sameL]
  | x :: xs => by simp [sameL, same_refl x, sameL_refl xs]
theorem mem_refl : ∀ (xs : List Val) (x : Val), x ∈ xs → same x x = true
  | [], _, h => by simp at h
  | y :: ys, x, h =>
    match List.mem_cons.mp h with
    | .inl e => by rw [e]; exact same_refl y
    | .inr h' => mem_refl ys x h'
end

mutual
theorem same_symm : ∀ (x y : Val), same x y = true → same y x = true
  | .atom a, y, h => by
    cases y <;> simp [same] at h
    simp [same, sameAtom_symm h]
  | .tuple xs, y, h => by
    cases y <;> simp [same] at h
    simp only [same]; exact sameL_symm xs _ h
  | .fset xs, y, h => by
    cases y <;> simp [same] at h
    rename_i ys
    obtain ⟨h1, h2⟩ := h
    simp only [same, Bool.and_eq_true, List.all_eq_true]
    constructor
    · refine (sameSub_iff ys xs).mpr (fun y hy => ?_)
      obtain ⟨x, hx, hs⟩ := (sameAny_iff xs y).mp (h2 y hy)
      exact ⟨x, hx, mem_symm xs x hx y hs⟩
    · intro x hx
      obtain ⟨y, hy, hs⟩ := (sameSub_iff xs ys).mp h1 x hx
      exact (sameAny_iff ys x).mpr ⟨y, hy, mem_symm xs x hx y hs⟩
  | .slice a b c, y, h => by
    cases y <;> simp [same] at h
    simp [same, same_symm a _ h.1.1, same_symm b _ h.1.2, same_symm c _ h.2]
theorem sameL_symm : ∀ (xs ys : List Val), sameL xs ys = true → sameL ys xs = true
  | [], ys, h => by cases ys <;> simp [sameL] at h ⊢
  | x :: xs, ys, h => by
    cases ys with
    | nil => simp [sameL] at h
    | cons y ys =>
      simp only [sameL, Bool.and_eq_true] at h ⊢
      exact ⟨same_symm x y h.1, sameL_symm xs ys h.2⟩
theorem mem_symm : ∀ (xs : List Val) (x : Val), x ∈ xs → ∀ y, same x y = true → same y x = true
  | [], _, h, _, _ => by simp at h
  | z :: zs, x, h, y, hs =>
    match List.mem_cons.mp h with
    | .inl e => by rw [e] at hs ⊢; exact same_symm z y hs
    | .inr h' => mem_symm zs x h' y hs
end

mutual
theorem same_trans : ∀ (x y z : Val), same x y = true → same y z = true → same x z = true
  | .atom a, y, z, h1, h2 => by
    cases y <;> simp [same] at h1
    cases z <;> simp [same] at h2
    simp [same, sameAtom_trans h1 h2]
  | .tuple xs, y, z, h1, h2 => by
    cases y <;> simp [same] at h1
    cases z <;> simp [same] at h2
    simp only [same]; exact sameL_trans xs _ _ h1 h2
  | .fset xs, y, z, h1, h2 => by
    cases y <;> simp [same] at h1
    cases z <;> simp [same] at h2
    rename_i ys zs
    simp only [same, Bool.and_eq_true, List.all_eq_true]
    constructor
    · refine (sameSub_iff xs zs).mpr (fun x hx => ?_)
      obtain ⟨y, hy, hxy⟩ := (sameSub_iff xs ys).mp h1.1 x hx
      obtain ⟨z, hz, hyz⟩ := (sameSub_iff ys zs).mp h2.1 y hy
      exact ⟨z, hz, mem_trans xs x hx y z hxy hyz⟩
    · intro z hz
      obtain ⟨y, hy, hyz⟩ := (sameAny_iff ys z).mp (h2.2 z hz)
      obtain ⟨x, hx, hxy⟩ := (sameAny_iff xs y).mp (h1.2 y hy)
      exact (sameAny_iff xs z).mpr ⟨x, hx, mem_trans xs x hx y z hxy hyz⟩
  | .slice a b c, y, z, h1, h2 => by
    cases y <;> simp [same] at h1
    cases z <;> simp [same] at h2
    simp [same, same_trans a _ _ h1.1.1 h2.1.1, same_trans b _ _ h1.1.2 h2.1.2, same_trans c _ _ h1.2 h2.2]
theorem sameL_trans : ∀ (xs ys zs : List Val), sameL xs ys = true → sameL ys zs = true → sameL xs zs = true
  | [], ys, zs, h1, h2 => by
    cases ys <;> simp [sameL] at h1
    exact h2
  | x :: xs, ys, zs, h1, h2 => by
    cases ys with
    | nil => simp [sameL] at h1
    | cons y ys =>
      cases zs with
      | nil => simp [sameL] at h2
      | cons z zs =>
        simp only [sameL, Bool.and_eq_true] at h1 h2 ⊢
        exact ⟨same_trans x y z h1.1 h2.1, sameL_trans xs ys zs h1.2 h2.2⟩
theorem mem_trans : ∀ (xs : List Val) (x : Val), x ∈ xs → ∀ y z, same x y = true → same y z = true → same x z = true
  | [], _, h, _, _, _, _ => by simp at h
  | w :: ws, x, h, y, z, h1, h2 =>
    match List.mem_cons.mp h with
    | .inl e => by rw [e] at h1 ⊢; exact same_trans w y z h1 h2
    | .inr h' => mem_trans ws x h' y z h1 h2
end

end CyVerif.C09

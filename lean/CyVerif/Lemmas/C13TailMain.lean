import CyVerif.Lemmas.C13Tail
/-! Main tailmatch equalities of C13. -/
namespace CyVerif.C13
open CyVerif.C15 (Out)

theorem adjStart_spec (n : Nat) (s : Int) :
    adjStart n s = (if s < 0 then max (s + n) 0 else s) ∧ 0 ≤ adjStart n s := by
  unfold adjStart; constructor <;> (simp only []; (repeat' split) <;> omega)

theorem adjEnd_spec (n : Nat) (e : Int) :
    adjEnd n e = (if e < 0 then max (e + n) 0 else min e n) ∧ 0 ≤ adjEnd n e ∧ adjEnd n e ≤ n := by
  unfold adjEnd; refine ⟨?_, ?_, ?_⟩ <;> (simp only []; (repeat' split) <;> omega)

/-- the comparison part of the repaired `__Pyx_PyBytes_SingleTailmatch` on natural window bounds -/
theorem single_core (self sub : List Nat) (a b : Nat) (hb : b ≤ self.length) (dir : Int) :
    (if (sub.length : Int) ≤ (b : Int) -
          (if dir > 0 then (if (b : Int) - sub.length > a then (b : Int) - sub.length else a) else a)
      then memEq self
          (if dir > 0 then (if (b : Int) - sub.length > a then (b : Int) - sub.length else a) else (a : Int)).toNat sub
      else .ok false)
    = .ok (decide ((a : Int) ≤ b) &&
        (if dir > 0 then sub.isSuffixOf ((self.drop a).take (b - a))
         else sub.isPrefixOf ((self.drop a).take (b - a)))) := by
  by_cases hd : dir > 0
  · simp only [hd, if_true]
    by_cases h1 : (b : Int) - sub.length > a
    · simp only [h1, if_true]
      have e1 : ((b : Int) - sub.length).toNat = b - sub.length := by omega
      have hc : (sub.length : Int) ≤ (b : Int) - ((b : Int) - sub.length) := by omega
      rw [if_pos hc, e1, memEq_ok _ _ _ (by omega), suffix_window self sub a b hb (by omega)]
      simp; omega
    · simp only [h1, if_false]
      by_cases h2 : (sub.length : Int) ≤ (b : Int) - a
      · rw [if_pos h2, Int.toNat_natCast, memEq_ok _ _ _ (by omega), suffix_window self sub a b hb (by omega)]
        have : b - sub.length = a := by omega
        rw [this]; simp; omega
      · rw [if_neg h2]
        by_cases hab : a ≤ b
        · rw [suffix_window_short self sub a b (by omega) hab]; simp
        · simp; omega
  · simp only [hd, if_false]
    by_cases h2 : (sub.length : Int) ≤ (b : Int) - a
    · rw [if_pos h2, Int.toNat_natCast, memEq_ok _ _ _ (by omega), prefix_window self sub a b hb (by omega)]
      simp; omega
    · rw [if_neg h2]
      by_cases hab : a ≤ b
      · rw [prefix_window_short self sub a b (by omega) hab]; simp
      · simp; omega

theorem bytesSingle_fixed_eq (M : Int) (self sub : List Nat) (start end_ dir : Int) :
    bytesSingle true M self sub start end_ dir = .ok (pyTail1 self sub start end_ dir) := by
  obtain ⟨ha, ha0⟩ := adjStart_spec self.length start
  obtain ⟨hb, hb0, hbn⟩ := adjEnd_spec self.length end_
  obtain ⟨a, hae⟩ := Int.eq_ofNat_of_zero_le ha0
  obtain ⟨b, hbe⟩ := Int.eq_ofNat_of_zero_le hb0
  have hbl : b ≤ self.length := by omega
  have core := single_core self sub a b hbl dir
  unfold bytesSingle pyTail1
  simp only [if_true]
  rw [← ha, ← hb, hae, hbe]
  simp only [Int.toNat_natCast, Int.toNat_sub]
  exact core

end CyVerif.C13

namespace CyVerif.C13
open CyVerif.C15 (Out)

/-- the code as it is: equal to the repaired comparison whenever `start + sub_len` cannot overflow -/
theorem bytesSingle_unfixed_eq (M : Int) (self sub : List Nat) (start end_ dir : Int)
    (hlen : (self.length : Int) + sub.length ≤ M) (hst : start + sub.length ≤ M) :
    bytesSingle false M self sub start end_ dir = bytesSingle true M self sub start end_ dir := by
  obtain ⟨ha, ha0⟩ := adjStart_spec self.length start
  obtain ⟨hb, hb0, hbn⟩ := adjEnd_spec self.length end_
  unfold bytesSingle sadd
  simp only []
  generalize hs : (if dir > 0 then
      (if adjEnd self.length end_ - sub.length > adjStart self.length start
       then adjEnd self.length end_ - sub.length else adjStart self.length start)
      else adjStart self.length start) = s
  have hs0 : 0 ≤ s := by rw [← hs]; (repeat' split) <;> omega
  have hsM : s + sub.length ≤ M := by
    rw [← hs, ha]; (repeat' split) <;> omega
  have hr : (-M - 1 ≤ s + sub.length ∧ s + sub.length ≤ M) := by omega
  simp only [hr, and_self, if_true, Bool.false_eq_true, if_false]
  by_cases h : (sub.length : Int) ≤ adjEnd self.length end_ - s
  · rw [if_pos h, if_pos (by omega)]
  · rw [if_neg h, if_neg (by omega)]

theorem uniSingle_eq (self sub : List Nat) (start end_ dir : Int) :
    uniSingle self sub start end_ dir = pyTail1 self sub start end_ dir := by
  have ha : ∃ a : Nat, (if start < 0 then (if start + self.length < 0 then 0 else start + self.length) else start) = a
      ∧ (if start < 0 then max (start + self.length) 0 else start) = a := by
    by_cases h : start < 0
    · by_cases h2 : start + self.length < 0
      · exact ⟨0, by simp [h, h2], by simp [h] <;> omega⟩
      · exact ⟨(start + self.length).toNat, by simp [h, h2] <;> omega, by simp [h] <;> omega⟩
    · exact ⟨start.toNat, by simp [h] <;> omega, by simp [h] <;> omega⟩
  have hb : ∃ b : Nat, b ≤ self.length ∧
      (if end_ > self.length then (self.length : Int) else if end_ < 0 then (if end_ + self.length < 0 then 0 else end_ + self.length) else end_) = b
      ∧ (if end_ < 0 then max (end_ + self.length) 0 else min end_ self.length) = b := by
    by_cases h : end_ > self.length
    · exact ⟨self.length, Nat.le_refl _, by simp [h], by
        have : ¬ end_ < 0 := by omega
        simp [this] <;> omega⟩
    · by_cases h1 : end_ < 0
      · by_cases h2 : end_ + self.length < 0
        · exact ⟨0, Nat.zero_le _, by simp [h, h1, h2], by simp [h1] <;> omega⟩
        · exact ⟨(end_ + self.length).toNat, by omega, by simp [h, h1, h2] <;> omega, by simp [h1] <;> omega⟩
      · exact ⟨end_.toNat, by omega, by simp [h, h1] <;> omega, by simp [h1] <;> omega⟩
  obtain ⟨a, ha1, ha2⟩ := ha
  obtain ⟨b, hbl, hb1, hb2⟩ := hb
  unfold uniSingle pyTail1
  simp only []
  rw [ha1, ha2, hb1, hb2]
  simp only [Int.toNat_natCast, Int.toNat_sub]
  by_cases h1 : (b : Int) - sub.length < a
  · rw [if_pos h1]
    by_cases hab : a ≤ b
    · rw [prefix_window_short self sub a b (by omega) hab, suffix_window_short self sub a b (by omega) hab]; simp
    · simp; omega
  · rw [if_neg h1]
    by_cases h0 : (sub.length : Int) = 0
    · have : sub = [] := List.eq_nil_of_length_eq_zero (by omega)
      subst this
      simp; omega
    · rw [if_neg h0]
      have hab : decide ((a : Int) ≤ b) = true := by simp; omega
      rw [hab, Bool.true_and]
      by_cases hd : dir > 0
      · simp only [hd, if_true]
        have e1 : ((b : Int) - sub.length).toNat = b - sub.length := by omega
        rw [e1, suffix_window self sub a b hbl (by omega)]
        exact Bool.beq_eq_decide_eq ..
      · simp only [hd, if_false, Int.toNat_natCast]
        rw [prefix_window self sub a b hbl (by omega)]
        exact Bool.beq_eq_decide_eq ..

/-- the tuple loop over items that each yield a Boolean or a TypeError = "first decisive item" -/
theorem tupleLoop_find (p : List Nat → Bool) (xs : List Arg) :
    tupleLoop (fun x => match x with | .buf b => .ok (p b) | .bad => .err "TypeError") xs =
      (match xs.find? (fun x => match x with | .buf b => p b | .bad => true) with
       | none => Out.ok false
       | some (.buf _) => .ok true
       | some .bad => .err "TypeError") := by
  induction xs with
  | nil => simp [tupleLoop]
  | cons x xs ih =>
    cases x with
    | bad => simp [tupleLoop]
    | buf b =>
      cases hp : p b
      · simp [tupleLoop, hp, ih]
      · simp [tupleLoop, hp]

end CyVerif.C13

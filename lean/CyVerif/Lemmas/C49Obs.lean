import CyVerif.Lemmas.C49Forest
/-!
The recursive traversals of the model compute the flat-document observations,
given enough fuel (= number of nodes of the forest).
-/
namespace CyVerif.C49
open Forest

theorem joinS_append (a b : List String) : joinS (a ++ b) = joinS a ++ joinS b := by
  induction a with
  | nil => simp [joinS]
  | cons s r ih => simp [joinS, ih, String.append_assoc]

theorem joinS_opt (s : String) : joinS (if s = "" then [] else [s]) = s := by
  by_cases h : s = "" <;> simp [h, joinS]

theorem seqOpt_cons {α} (g : Nat → Option (List α)) (c : Nat) (cs : List Nat) {x y : List α}
    (hx : g c = some x) (hy : seqOpt g cs = some y) : seqOpt g (c :: cs) = some (x ++ y) := by
  simp [seqOpt, hx, hy]

theorem tags_length_cons (id : Nat) (nm : Option Nat) (fs : List Frag) (k r : Forest) :
    (Forest.cons id nm fs k r).tags.length = k.tags.length + r.tags.length + 1 := by
  simp [Forest.tags]

theorem chunks_forest {H : Heap} {F : Forest} (h : Cons H F) :
    ∀ f, F.tags.length ≤ f → ∃ cs, seqOpt (chunks H f) F.rootIds = some cs ∧ joinS cs = textD F.doc := by
  induction F with
  | nil => intro f _; exact ⟨[], rfl, rfl⟩
  | cons id nm fs k r ihk ihr =>
    intro f hf
    rw [tags_length_cons] at hf
    obtain ⟨⟨nd, hn, hch, hst, _⟩, hk, hr⟩ := h
    obtain ⟨f', rfl⟩ : ∃ f', f = f' + 1 := ⟨f - 1, by omega⟩
    obtain ⟨ck, hck, htk⟩ := ihk hk f' (by omega)
    obtain ⟨cr, hcr, htr⟩ := ihr hr (f' + 1) (by omega)
    have hid : chunks H (f' + 1) id = some (ck ++ (if nd.stream = "" then [] else [nd.stream])) := by
      simp [chunks, hn, hch, hck]
    refine ⟨_, seqOpt_cons _ _ _ hid hcr, ?_⟩
    simp [joinS_append, joinS_opt, Forest.doc, textD_append, htk, htr, hst, String.append_assoc]

theorem allm_forest {H : Heap} {F : Forest} (h : Cons H F) :
    ∀ f, F.tags.length ≤ f → seqOpt (allm H f) F.rootIds = some (marksD F.doc) := by
  induction F with
  | nil => intro f _; rfl
  | cons id nm fs k r ihk ihr =>
    intro f hf
    rw [tags_length_cons] at hf
    obtain ⟨⟨nd, hn, hch, _, hmk⟩, hk, hr⟩ := h
    obtain ⟨f', rfl⟩ : ∃ f', f = f' + 1 := ⟨f - 1, by omega⟩
    have hck := ihk hk f' (by omega)
    have hcr := ihr hr (f' + 1) (by omega)
    have hid : allm H (f' + 1) id = some (marksD k.doc ++ nd.markers) := by
      simp [allm, hn, hch, hck]
    show seqOpt (allm H (f' + 1)) (id :: r.rootIds) = _
    rw [seqOpt_cons _ _ _ hid hcr]
    simp [Forest.doc, marksD_append, hmk]

theorem String.append_eq_empty' {a b : String} : a ++ b = "" ↔ a = "" ∧ b = "" := by
  constructor
  · intro h
    have hl := congrArg String.length h
    simp at hl
    exact hl
  · rintro ⟨rfl, rfl⟩; rfl

theorem emp_forest {H : Heap} {F : Forest} (h : Cons H F) :
    ∀ f, F.tags.length ≤ f →
      ∃ bs, seqOpt (emp H f) F.rootIds = some bs ∧ (bs.all id = true ↔ textD F.doc = "") := by
  induction F with
  | nil => intro f _; exact ⟨[], rfl, by simp [Forest.doc, textD]⟩
  | cons i nm fs k r ihk ihr =>
    intro f hf
    rw [tags_length_cons] at hf
    obtain ⟨⟨nd, hn, hch, hst, _⟩, hk, hr⟩ := h
    obtain ⟨f', rfl⟩ : ∃ f', f = f' + 1 := ⟨f - 1, by omega⟩
    obtain ⟨bk, hbk, hek⟩ := ihk hk f' (by omega)
    obtain ⟨br, hbr, her⟩ := ihr hr (f' + 1) (by omega)
    by_cases hs : nd.stream = ""
    · have hid : emp H (f' + 1) i = some [bk.all id] := by
        simp [emp, hn, hch, hbk, hs]
      refine ⟨_, seqOpt_cons _ _ _ hid hbr, ?_⟩
      have hfs : textD (fragItems fs) = "" := by rw [← hst]; exact hs
      simp only [List.cons_append, List.nil_append, List.all_cons, id, Bool.and_eq_true, Forest.doc,
        textD_append, textD_wrap, String.append_eq_empty', hfs, and_true]
      rw [← hek, ← her]
    · have hid : emp H (f' + 1) i = some [false] := by
        simp [emp, hn, hs]
      refine ⟨_, seqOpt_cons _ _ _ hid hbr, ?_⟩
      have hfs : textD (fragItems fs) ≠ "" := by rw [← hst]; exact hs
      simp [Forest.doc, textD_append, hfs]

end CyVerif.C49

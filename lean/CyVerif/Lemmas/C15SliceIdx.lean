import CyVerif.Lemmas.C15SliceList
/-! # C15 — the index set selected by `o[start:stop:step]` -/
namespace CyVerif.C15

variable {α : Type}

theorem unpackStart_pos_range {len step : Int} (hl : 0 ≤ len) (hs : 0 < step) (s : Option Int) :
    0 ≤ unpackStart len step s ∧ unpackStart len step s ≤ len := by
  cases s
  · have : ¬ step < 0 := by omega
    simp [unpackStart, this, hl]
  · exact adjBound_pos_range hl hs

theorem unpackStop_pos_range {len step : Int} (hl : 0 ≤ len) (hs : 0 < step) (s : Option Int) :
    0 ≤ unpackStop len step s ∧ unpackStop len step s ≤ len := by
  cases s
  · have : ¬ step < 0 := by omega
    simp [unpackStop, this, hl]
  · exact adjBound_pos_range hl hs

theorem unpackStart_neg_range {len step : Int} (hl : 0 ≤ len) (hs : step < 0) (s : Option Int) :
    -1 ≤ unpackStart len step s ∧ unpackStart len step s ≤ len - 1 := by
  cases s
  · simp only [unpackStart, hs, if_true]; omega
  · exact adjBound_neg_range hl hs

theorem unpackStop_neg_range {len step : Int} (hl : 0 ≤ len) (hs : step < 0) (s : Option Int) :
    -1 ≤ unpackStop len step s ∧ unpackStop len step s ≤ len - 1 := by
  cases s
  · simp only [unpackStop, hs, if_true]; omega
  · exact adjBound_neg_range hl hs

/-- every position of a progression of `sliceLen a b step` elements lies between the bounds -/
theorem progression_between_pos {a b step x : Int} (hs : 0 < step)
    (hx : x ∈ progression a step (sliceLen a b step).toNat) : a ≤ x ∧ x < b := by
  obtain ⟨i, hi, rfl⟩ := mem_progression.mp hx
  by_cases hab : a < b
  · obtain ⟨h1, h2, _⟩ := sliceLen_pos hs hab
    have hi' : (i : Int) ≤ sliceLen a b step - 1 := by omega
    have m1 := Int.mul_le_mul_of_nonneg_right hi' (Int.le_of_lt hs)
    have m2 := Int.mul_nonneg (Int.natCast_nonneg i) (Int.le_of_lt hs)
    omega
  · rw [sliceLen_pos_empty hs hab] at hi; simp at hi

theorem progression_between_neg {a b step x : Int} (hs : step < 0)
    (hx : x ∈ progression a step (sliceLen a b step).toNat) : b < x ∧ x ≤ a := by
  obtain ⟨i, hi, rfl⟩ := mem_progression.mp hx
  by_cases hab : b < a
  · obtain ⟨h1, h2, _⟩ := sliceLen_neg hs hab
    have hi' : (i : Int) ≤ sliceLen a b step - 1 := by omega
    have hns : (0 : Int) ≤ -step := by omega
    have m1 := Int.mul_le_mul_of_nonneg_right hi' hns
    have m2 := Int.mul_nonneg (Int.natCast_nonneg i) hns
    rw [Int.mul_neg, Int.mul_neg] at m1
    rw [Int.mul_neg] at m2
    omega
  · rw [sliceLen_neg_empty hs hab] at hi; simp at hi

/-- every position selected by a slice is a valid position of the sequence -/
theorem pySliceIdx_inBounds {len : Nat} {start stop : Option Int} {step : Int} (hs : step ≠ 0) :
    ∀ x ∈ pySliceIdx len start stop step, 0 ≤ x ∧ x < len := by
  intro x hx
  have hl : (0 : Int) ≤ len := by omega
  simp only [pySliceIdx] at hx
  by_cases hp : 0 < step
  · have h := progression_between_pos hp hx
    have ha := unpackStart_pos_range hl hp start
    have hb := unpackStop_pos_range hl hp stop
    omega
  · have hn : step < 0 := by omega
    have h := progression_between_neg hn hx
    have ha := unpackStart_neg_range hl hn start
    have hb := unpackStop_neg_range hl hn stop
    omega

theorem progression_length (a step : Int) (n : Nat) : (progression a step n).length = n := by
  simp [progression]

/-- the result of a slice has exactly `sliceLen` elements: no selected position is dropped -/
theorem pySlice_length {l : List α} {start stop : Option Int} {step : Int} (hs : step ≠ 0) :
    ∃ r, pySlice l start stop (some step) = .ok r ∧
      (r.length : Int) = sliceLen (unpackStart l.length step start) (unpackStop l.length step stop) step := by
  refine ⟨gather l (pySliceIdx l.length start stop step), by simp [pySlice, hs], ?_⟩
  rw [gather_length (pySliceIdx_inBounds hs)]
  simp only [pySliceIdx, progression_length]
  exact Int.toNat_of_nonneg (sliceLen_nonneg _ _ _)

/-- positive step: the selected positions are EXACTLY the `x` with `a ≤ x < b` and `x ≡ a (mod step)` -/
theorem mem_progression_pos {a b step x : Int} (hs : 0 < step) :
    x ∈ progression a step (sliceLen a b step).toNat ↔ a ≤ x ∧ x < b ∧ (x - a) % step = 0 := by
  constructor
  · intro hx
    have h := progression_between_pos hs hx
    obtain ⟨i, _, rfl⟩ := mem_progression.mp hx
    refine ⟨h.1, h.2, ?_⟩
    have : a + (i : Int) * step - a = (i : Int) * step := by omega
    rw [this, Int.mul_emod_left]
  · rintro ⟨h1, h2, h3⟩
    have hab : a < b := by omega
    obtain ⟨_, _, hn⟩ := sliceLen_pos hs hab
    have hq0 := Int.ediv_nonneg (a := x - a) (b := step) (by omega) (by omega)
    have hq : x - a = (x - a) / step * step := by
      have := Int.emod_def (x - a) step
      rw [h3, Int.mul_comm] at this; omega
    have hlt : (x - a) / step < sliceLen a b step := by
      apply Int.lt_of_mul_lt_mul_right (a := step) _ (Int.le_of_lt hs)
      omega
    refine mem_progression.mpr ⟨((x - a) / step).toNat, ?_, ?_⟩
    · omega
    · rw [Int.toNat_of_nonneg hq0]; omega

/-- negative step: exactly the `x` with `b < x ≤ a` and `x ≡ a (mod -step)` -/
theorem mem_progression_neg {a b step x : Int} (hs : step < 0) :
    x ∈ progression a step (sliceLen a b step).toNat ↔ b < x ∧ x ≤ a ∧ (a - x) % (-step) = 0 := by
  constructor
  · intro hx
    have h := progression_between_neg hs hx
    obtain ⟨i, _, rfl⟩ := mem_progression.mp hx
    refine ⟨h.1, h.2, ?_⟩
    have : a - (a + (i : Int) * step) = (i : Int) * (-step) := by rw [Int.mul_neg]; omega
    rw [this, Int.mul_emod_left]
  · rintro ⟨h1, h2, h3⟩
    have hab : b < a := by omega
    obtain ⟨_, _, hn⟩ := sliceLen_neg hs hab
    have hns : (0 : Int) < -step := by omega
    have hq0 := Int.ediv_nonneg (a := a - x) (b := -step) (by omega) (by omega)
    have hq : a - x = (a - x) / (-step) * (-step) := by
      have := Int.emod_def (a - x) (-step)
      rw [h3, Int.mul_comm] at this; omega
    have hlt : (a - x) / (-step) < sliceLen a b step := by
      apply Int.lt_of_mul_lt_mul_right (a := -step) _ (Int.le_of_lt hns)
      rw [Int.mul_neg (sliceLen a b step)]
      omega
    rw [Int.mul_neg] at hq
    refine mem_progression.mpr ⟨((a - x) / (-step)).toNat, ?_, ?_⟩
    · omega
    · rw [Int.toNat_of_nonneg hq0]; omega

end CyVerif.C15

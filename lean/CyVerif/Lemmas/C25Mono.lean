import CyVerif.Model.C25
/-! C25 lemmas, part 1: the fuelled reader is monotone in its fuel. -/
namespace CyVerif.C25
structure MonoAt (T : Tbl) (f : Nat) : Prop where
  e : ∀ p ts, parseE T f p ts ≠ none → parseE T (f+1) p ts = parseE T f p ts
  pre : ∀ ts, parsePre T f ts ≠ none → parsePre T (f+1) ts = parsePre T f ts
  lp : ∀ p l ts, loop T f p l ts ≠ none → loop T (f+1) p l ts = loop T f p l ts
  lk : ∀ ts, links T f ts ≠ none → links T (f+1) ts = links T f ts
  els : ∀ cx ts, elems T f cx ts ≠ none → elems T (f+1) cx ts = elems T f cx ts
  el : ∀ cx ts, elem T f cx ts ≠ none → elem T (f+1) cx ts = elem T f cx ts
  sr : ∀ lo ts, sliceRest T f lo ts ≠ none → sliceRest T (f+1) lo ts = sliceRest T f lo ts
  ss : ∀ lo hi ts, sliceStep T f lo hi ts ≠ none → sliceStep T (f+1) lo hi ts = sliceStep T f lo hi ts


macro "mono_tac" h:ident ih:ident : tactic => `(tactic|
  repeat' (split at $h:ident <;> (try simp_all [($ih).e, ($ih).lk, ($ih).lp, ($ih).els, ($ih).pre, ($ih).el, ($ih).sr, ($ih).ss])))
set_option linter.unusedSimpArgs false
theorem mono_step (T : Tbl) (f : Nat) (ih : MonoAt T f) : MonoAt T (f+1) := by
  constructor
  · intro p ts h; unfold parseE at h ⊢; mono_tac h ih
  · intro ts h; unfold parsePre at h ⊢; mono_tac h ih
  · intro p l ts h; unfold loop at h ⊢; mono_tac h ih
    all_goals (rw [if_neg (by omega), if_neg (by omega)])
  · intro ts h; unfold links at h ⊢; mono_tac h ih
  · intro cx ts h; unfold elems at h ⊢; mono_tac h ih
  · intro cx ts h; unfold elem at h ⊢; mono_tac h ih
  · intro lo ts h; unfold sliceRest at h ⊢; mono_tac h ih
  · intro lo hi ts h; unfold sliceStep at h ⊢; mono_tac h ih

theorem mono_zero (T : Tbl) : MonoAt T 0 := by
  constructor
  · intro p ts h; simp [parseE] at h
  · intro ts h; simp [parsePre] at h
  · intro p l ts h; simp [loop] at h
  · intro ts h; simp [links] at h
  · intro cx ts h; simp [elems] at h
  · intro cx ts h; simp [elem] at h
  · intro lo ts h; simp [sliceRest] at h
  · intro lo hi ts h; simp [sliceStep] at h

theorem monoAt (T : Tbl) : ∀ f, MonoAt T f
  | 0 => mono_zero T
  | f+1 => mono_step T f (monoAt T f)

theorem parseE_mono (T : Tbl) {f g p ts r} (h : parseE T f p ts = some r) (hle : f ≤ g) :
    parseE T g p ts = some r := by
  induction hle with
  | refl => exact h
  | step _ ih => rw [(monoAt T _).e _ _ (by simp [ih])]; exact ih

theorem loop_mono (T : Tbl) {f g p l ts r} (h : loop T f p l ts = some r) (hle : f ≤ g) :
    loop T g p l ts = some r := by
  induction hle with
  | refl => exact h
  | step _ ih => rw [(monoAt T _).lp _ _ _ (by simp [ih])]; exact ih

theorem elems_mono (T : Tbl) {f g cx ts r} (h : elems T f cx ts = some r) (hle : f ≤ g) :
    elems T g cx ts = some r := by
  induction hle with
  | refl => exact h
  | step _ ih => rw [(monoAt T _).els _ _ (by simp [ih])]; exact ih

theorem links_mono (T : Tbl) {f g ts r} (h : links T f ts = some r) (hle : f ≤ g) :
    links T g ts = some r := by
  induction hle with
  | refl => exact h
  | step _ ih => rw [(monoAt T _).lk _ (by simp [ih])]; exact ih

theorem elem_mono (T : Tbl) {f g cx ts r} (h : elem T f cx ts = some r) (hle : f ≤ g) :
    elem T g cx ts = some r := by
  induction hle with
  | refl => exact h
  | step _ ih => rw [(monoAt T _).el _ _ (by simp [ih])]; exact ih

end CyVerif.C25

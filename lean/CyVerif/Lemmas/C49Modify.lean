import CyVerif.Lemmas.C49Obs
/-!
How a change at ONE node of the ghost forest shows in the flat document
(`doc_modify`: appending inside the node = inserting before its `cl`), in the
tag list, and what the heap must satisfy afterwards (`Cons_modify`).
-/
namespace CyVerif.C49
open Forest

theorem not_mem_fragItems_cl (k : Nat) (fs : List Frag) : Item.cl k ∉ fragItems fs := by
  simp [fragItems]

theorem not_mem_fragItems_op (k : Nat) (fs : List Frag) : Item.op k ∉ fragItems fs := by
  simp [fragItems]

theorem mem_wrap_cl {k : Nat} {nm : Option Nat} {d : Doc} :
    Item.cl k ∈ wrap nm d ↔ nm = some k ∨ Item.cl k ∈ d := by
  cases nm with
  | none => simp [wrap]
  | some j => simp [wrap]; constructor <;> (intro h; rcases h with h | h <;> simp [h])

theorem mem_wrap_op {k : Nat} {nm : Option Nat} {d : Doc} :
    Item.op k ∈ wrap nm d ↔ nm = some k ∨ Item.op k ∈ d := by
  cases nm with
  | none => simp [wrap]
  | some j => simp [wrap]; constructor <;> (intro h; rcases h with h | h <;> simp [h])

theorem Forest.names_cons (id : Nat) (nm : Option Nat) (fs : List Frag) (k r : Forest) :
    (Forest.cons id nm fs k r).names = nm.toList ++ (k.names ++ r.names) := by
  cases nm <;> simp [Forest.names, Forest.tags, List.filterMap_append]

theorem Forest.ids_cons (id : Nat) (nm : Option Nat) (fs : List Frag) (k r : Forest) :
    (Forest.cons id nm fs k r).ids = id :: (k.ids ++ r.ids) := by
  simp [Forest.ids, Forest.tags]

theorem Forest.mem_ids_of_tag {F : Forest} {b : Nat} {nm : Option Nat} (h : (b, nm) ∈ F.tags) :
    b ∈ F.ids := List.mem_map.2 ⟨_, h, rfl⟩

theorem Forest.mem_names_of_tag {F : Forest} {b k : Nat} (h : (b, some k) ∈ F.tags) :
    k ∈ F.names := List.mem_filterMap.2 ⟨_, h, rfl⟩

/-- brackets of the flat document come from named nodes -/
theorem Forest.cl_mem_doc {F : Forest} {k : Nat} (h : Item.cl k ∈ F.doc) : k ∈ F.names := by
  induction F with
  | nil => simp [Forest.doc] at h
  | cons id nm fs kd r ihk ihr =>
    rw [Forest.names_cons]
    simp only [Forest.doc, List.mem_append, mem_wrap_cl] at h
    rcases h with (h | h | h) | h
    · simp [h]
    · simp [ihk h]
    · exact absurd h (not_mem_fragItems_cl _ _)
    · simp [ihr h]

theorem Forest.op_mem_doc {F : Forest} {k : Nat} (h : Item.op k ∈ F.doc) : k ∈ F.names := by
  induction F with
  | nil => simp [Forest.doc] at h
  | cons id nm fs kd r ihk ihr =>
    rw [Forest.names_cons]
    simp only [Forest.doc, List.mem_append, mem_wrap_op] at h
    rcases h with (h | h | h) | h
    · simp [h]
    · simp [ihk h]
    · exact absurd h (not_mem_fragItems_op _ _)
    · simp [ihr h]

theorem Forest.cl_mem_doc_of_tag {F : Forest} {b k : Nat} (h : (b, some k) ∈ F.tags) :
    Item.cl k ∈ F.doc := by
  induction F with
  | nil => simp [Forest.tags] at h
  | cons id nm fs kd r ihk ihr =>
    simp only [Forest.tags, List.mem_cons, List.mem_append, Prod.mk.injEq] at h
    simp only [Forest.doc, List.mem_append, mem_wrap_cl]
    rcases h with h | h | h
    · exact Or.inl (Or.inl h.2.symm)
    · exact Or.inl (Or.inr (Or.inl (ihk h)))
    · exact Or.inr (ihr h)

theorem Forest.modify_of_not_mem {b : Nat} {g : List Frag → Forest → List Frag × Forest}
    {F : Forest} (h : b ∉ F.ids) : F.modify b g = F := by
  induction F with
  | nil => rfl
  | cons id nm fs kd r ihk ihr =>
    rw [Forest.ids_cons] at h
    simp only [List.mem_cons, List.mem_append, not_or] at h
    have e : id ≠ b := fun e => h.1 e.symm
    simp [Forest.modify, e, ihk h.2.1, ihr h.2.2]

theorem Forest.rootIds_modify (b : Nat) (g : List Frag → Forest → List Frag × Forest) (F : Forest) :
    (F.modify b g).rootIds = F.rootIds := by
  induction F with
  | nil => rfl
  | cons id nm fs kd r _ ihr =>
    by_cases e : id = b <;> simp [Forest.modify, e, Forest.rootIds, ihr]

theorem Forest.rootNames_modify (b : Nat) (g : List Frag → Forest → List Frag × Forest)
    (F : Forest) : (F.modify b g).rootNames = F.rootNames := by
  induction F with
  | nil => rfl
  | cons id nm fs kd r _ ihr =>
    by_cases e : id = b <;> simp [Forest.modify, e, Forest.rootNames, ihr]

/-- pieces of `Nodup` on a `cons` node, in the form the inductions below use -/
theorem Forest.nodup_ids_cons {id : Nat} {nm : Option Nat} {fs : List Frag} {k r : Forest}
    (h : (Forest.cons id nm fs k r).ids.Nodup) :
    id ∉ k.ids ∧ id ∉ r.ids ∧ k.ids.Nodup ∧ r.ids.Nodup ∧ (∀ x ∈ k.ids, x ∉ r.ids) := by
  rw [Forest.ids_cons, List.nodup_cons, List.nodup_append] at h
  obtain ⟨h1, h2, h3, h4⟩ := h
  simp only [List.mem_append, not_or] at h1
  exact ⟨h1.1, h1.2, h2, h3, fun x hx hx' => h4 x hx x hx' rfl⟩

theorem Forest.nodup_names_cons {id : Nat} {nm : Option Nat} {fs : List Frag} {k r : Forest}
    (h : (Forest.cons id nm fs k r).names.Nodup) :
    (∀ j, nm = some j → j ∉ k.names ∧ j ∉ r.names) ∧ k.names.Nodup ∧ r.names.Nodup ∧
      (∀ x ∈ k.names, x ∉ r.names) := by
  rw [Forest.names_cons, List.nodup_append] at h
  obtain ⟨_, h2, h3⟩ := h
  rw [List.nodup_append] at h2
  obtain ⟨h4, h5, h6⟩ := h2
  refine ⟨?_, h4, h5, fun x hx hx' => h6 x hx x hx' rfl⟩
  rintro j rfl
  constructor
  · intro hj; exact h3 j (by simp) j (by simp [hj]) rfl
  · intro hj; exact h3 j (by simp) j (by simp [hj]) rfl

/-- fragments and children of the (first) node with address `b` -/
def Forest.find (b : Nat) : Forest → Option (List Frag × Forest)
  | .nil => none
  | .cons id _ fs kids rest =>
    if id = b then some (fs, kids)
    else match Forest.find b kids with
      | some p => some p
      | none => Forest.find b rest

theorem Forest.find_of_not_mem {b : Nat} {F : Forest} (h : b ∉ F.ids) : F.find b = none := by
  induction F with
  | nil => rfl
  | cons id nm fs kd r ihk ihr =>
    rw [Forest.ids_cons] at h
    simp only [List.mem_cons, List.mem_append, not_or] at h
    have e : id ≠ b := fun e => h.1 e.symm
    simp [Forest.find, e, ihk h.2.1, ihr h.2.2]

theorem Forest.find_of_mem {b : Nat} {F : Forest} (h : b ∈ F.ids) : ∃ p, F.find b = some p := by
  induction F with
  | nil => simp [Forest.ids, Forest.tags] at h
  | cons id nm fs kd r ihk ihr =>
    rw [Forest.ids_cons] at h
    by_cases e : id = b
    · exact ⟨(fs, kd), by simp [Forest.find, e]⟩
    · rcases List.mem_cons.1 h with h | h
      · exact absurd h.symm e
      · cases hk : Forest.find b kd with
        | some p => exact ⟨p, by simp [Forest.find, e, hk]⟩
        | none =>
          rcases List.mem_append.1 h with h | h
          · obtain ⟨p, hp⟩ := ihk h; rw [hp] at hk; cases hk
          · obtain ⟨p, hp⟩ := ihr h; exact ⟨p, by simp [Forest.find, e, hk, hp]⟩

/-- case analysis of `find` on a `cons` node whose addresses are distinct -/
theorem Forest.find_cons_cases {b id : Nat} {nm : Option Nat} {fs : List Frag} {kd r : Forest}
    {p : List Frag × Forest} (hid : (Forest.cons id nm fs kd r).ids.Nodup)
    (h : (Forest.cons id nm fs kd r).find b = some p) :
    (id = b ∧ p = (fs, kd)) ∨ (id ≠ b ∧ b ∈ kd.ids ∧ b ∉ r.ids ∧ kd.find b = some p) ∨
      (id ≠ b ∧ b ∉ kd.ids ∧ b ∈ r.ids ∧ r.find b = some p) := by
  obtain ⟨i1, i2, i3, i4, i5⟩ := Forest.nodup_ids_cons hid
  by_cases e : id = b
  · left; simp [Forest.find, e] at h; exact ⟨e, h.symm⟩
  · right
    simp only [Forest.find, e, if_false] at h
    by_cases hk : b ∈ kd.ids
    · left
      obtain ⟨q, hq⟩ := Forest.find_of_mem hk
      rw [hq] at h
      exact ⟨e, hk, i5 b hk, by rw [hq]; exact h⟩
    · right
      rw [Forest.find_of_not_mem hk] at h
      refine ⟨e, hk, ?_, h⟩
      apply Classical.byContradiction
      intro hr
      rw [Forest.find_of_not_mem hr] at h
      cases h

end CyVerif.C49

import CyVerif.Lemmas.C47Scan
/-! The reference lexer against the code-mode search; masks (C47 completeness). -/
namespace CyVerif.C47

/-- no position is both kept by the scanner (`a`) and a literal/comment body character (`b`) -/
def disj : List Bool → List Bool → Bool
  | a :: as, b :: bs => !(a && b) && disj as bs
  | _, _ => true

theorem disj_append {a1 b1 : List Bool} (a2 b2 : List Bool) (h : a1.length = b1.length) :
    disj (a1 ++ a2) (b1 ++ b2) = (disj a1 b1 && disj a2 b2) := by
  induction a1 generalizing b1 with
  | nil => cases b1 with
    | nil => simp [disj]
    | cons _ _ => simp at h
  | cons x xs ih => cases b1 with
    | nil => simp at h
    | cons y ys =>
      simp only [List.cons_append, disj, ih (by simpa using h), Bool.and_assoc]

theorem disj_false_left (n : Nat) (b : List Bool) : disj (List.replicate n false) b = true := by
  induction n generalizing b with
  | zero => cases b <;> simp [disj]
  | succ n ih => cases b with
    | nil => simp [disj, List.replicate]
    | cons y ys => simp [disj, List.replicate, ih]

theorem disj_false_right (a : List Bool) (n : Nat) : disj a (List.replicate n false) = true := by
  induction n generalizing a with
  | zero => cases a <;> simp [disj]
  | succ n ih => cases a with
    | nil => simp [disj]
    | cons y ys => simp [disj, List.replicate, ih]

theorem keptMask_append (a b : List Piece) : keptMask (a ++ b) = keptMask a ++ keptMask b := by
  induction a with
  | nil => rfl
  | cons x xs ih => cases x <;> simp [keptMask, ih]

theorem keptMask_length (ps : List Piece) : (keptMask ps).length = (expand ps).length := by
  induction ps with
  | nil => rfl
  | cons x xs ih => cases x <;> simp [keptMask, expand, ih]

theorem refLex_length : ∀ (l : List Char) (st : LexSt) (k : Nat) (m : List Bool),
    refLex st k l = some m → m.length = l.length := by
  intro l
  induction l with
  | nil => intro st k m h; simp [refLex] at h; subst h; rfl
  | cons c cs ih =>
    intro st k m h
    cases k with
    | succ k =>
      simp only [refLex, Option.map_eq_some_iff] at h
      obtain ⟨m', h1, rfl⟩ := h
      simp [ih _ _ _ h1]
    | zero =>
      cases st with
      | code =>
        simp only [refLex] at h
        repeat' split at h
        all_goals first
          | (simp only [Option.map_eq_some_iff] at h; obtain ⟨m', h1, rfl⟩ := h; simp [ih _ _ _ h1])
          | (simp at h; subst h; simp_all)
          | simp at h
      | comment =>
        simp only [refLex] at h
        split at h <;>
        (simp only [Option.map_eq_some_iff] at h; obtain ⟨m', h1, rfl⟩ := h; simp [ih _ _ _ h1])
      | esc q t =>
        simp only [refLex, Option.map_eq_some_iff] at h
        obtain ⟨m', h1, rfl⟩ := h; simp [ih _ _ _ h1]
      | str q t =>
        simp only [refLex] at h
        repeat' split at h
        all_goals (simp only [Option.map_eq_some_iff] at h; obtain ⟨m', h1, rfl⟩ := h; simp [ih _ _ _ h1])


abbrev ff (n : Nat) : List Bool := List.replicate n false
abbrev tt (n : Nat) : List Bool := List.replicate n true

theorem refLex_skip (st : LexSt) : ∀ (a b : List Char) (k : Nat), a.length = k →
    refLex st k (a ++ b) = (refLex st 0 b).map (ff k ++ ·) := by
  intro a
  induction a with
  | nil => intro b k h; simp at h; subst h; simp
  | cons c cs ih =>
    intro b k h
    cases k with
    | zero => simp at h
    | succ k =>
      simp only [List.cons_append, refLex, ih b k (by simpa using h), Option.map_map]
      congr 1

theorem mQuote_none {c : Char} {cs : List Char} (h : mQuote (c :: cs) = none) :
    isQuote c = false ∧ (c = 'f' → ∀ c1 r, cs = c1 :: r → isQuote c1 = false) := by
  simp only [mQuote] at h
  split at h
  · rename_i hc
    subst hc
    refine ⟨by decide, fun _ c1 r hcs => ?_⟩
    subst hcs
    simp only [mRun] at h
    split at h
    · simp at h
    · rename_i hq; simpa using hq
  · rename_i hc
    refine ⟨?_, fun h' => absurd h' hc⟩
    simp only [mRun] at h
    split at h
    · simp at h
    · rename_i hq; simpa using hq

theorem refLex_code_plain {c : Char} {cs : List Char} (h1 : c ≠ '#') (h : mQuote (c :: cs) = none) :
    refLex .code 0 (c :: cs) = (refLex .code 0 cs).map (false :: ·) := by
  obtain ⟨hq, hf⟩ := mQuote_none h
  simp only [refLex, h1, hq, if_false, Bool.false_eq_true]
  split
  · rename_i hc
    cases cs with
    | nil => simp [refLex]
    | cons c1 r => simp [hf hc c1 r rfl]
  · rfl

theorem mCode_none {c : Char} {cs : List Char} (h : mCode (c :: cs) = none) :
    c ≠ '#' ∧ mQuote (c :: cs) = none := by
  simp only [mCode] at h
  split at h
  · simp at h
  · split at h
    · simp at h
    · rename_i h1 _; exact ⟨h1, h⟩

theorem search_code_none : ∀ rest : List Char, search mCode rest = none →
    refLex .code 0 rest = some (ff rest.length) := by
  intro rest
  induction rest with
  | nil => intro _; simp [refLex]
  | cons c cs ih =>
    intro h
    simp only [search] at h
    split at h
    · simp at h
    · rename_i hm
      split at h
      · simp at h
      · rename_i hs
        obtain ⟨h1, h2⟩ := mCode_none hm
        rw [refLex_code_plain h1 h2, ih hs]
        simp [List.replicate_succ]

theorem search_code_some : ∀ (rest pre : List Char) (tok : Tok) (post : List Char),
    search mCode rest = some (pre, tok, post) →
    refLex .code 0 rest = (refLex .code 0 (tok.chars ++ post)).map (ff pre.length ++ ·) := by
  intro rest
  induction rest with
  | nil => intro pre tok post h; simp [search] at h
  | cons c cs ih =>
    intro pre tok post h
    simp only [search] at h
    split at h
    · rename_i t p hm
      simp only [Option.some.injEq, Prod.mk.injEq] at h
      obtain ⟨rfl, rfl, rfl⟩ := h
      obtain ⟨e, _⟩ := mCode_sound hm
      simp [← e]
    · rename_i hm
      split at h
      · rename_i pre' t p hs
        simp only [Option.some.injEq, Prod.mk.injEq] at h
        obtain ⟨rfl, rfl, rfl⟩ := h
        obtain ⟨h1, h2⟩ := mCode_none hm
        rw [refLex_code_plain h1 h2, ih _ _ _ hs]
        simp [Option.map_map, List.replicate_succ]
        congr 1
      · simp at h

end CyVerif.C47

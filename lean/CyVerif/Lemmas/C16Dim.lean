import CyVerif.Model.C16Spec
import CyVerif.Lemmas.C16PySlice
/-!
One dimension: the slice arithmetic of `__pyx_memoryview_slice_memviewslice`
against `PySlice` (for each repair variant), and the index path.
-/
namespace CyVerif.C16
open PySlice

/-- The input region of defect F9: negative step and a start/stop below `-shape`. -/
def F9Region (shape : Int) (a : SliceArgs) : Prop :=
  negStep a ∧ ((a.haveStart = true ∧ a.start < -shape) ∨ (a.haveStop = true ∧ a.stop < -shape))

/-- Sufficient to stay clear of defect F14 (rounding): unit step or a non-empty Python slice. -/
def UnitOrNonEmpty (shape : Int) (a : SliceArgs) : Prop :=
  a.haveStep = false ∨ a.step = 1 ∨ a.step = -1 ∨
    ∃ s st n, specTriple shape a = .ok (s, st, n) ∧ 0 < n

/-- The model's per-dimension slice arithmetic agrees with `slice(...).indices(shape)`. -/
def Agrees (v : Variant) (shape : Int) (a : SliceArgs) : Prop :=
  (sliceBounds v shape a).map DimSlice.triple = specTriple shape a

theorem negStep_iff (a : SliceArgs) : negStep a ↔ effStep a < 0 := by
  unfold negStep effStep
  cases a.haveStep <;> simp

theorem newShape_eq_ceilRaw (v : Variant) (s m st : Int) (neg : Prop) [Decidable neg] :
    newShape v s m st neg =
      if ceilRaw (m - s) st < 0 ∨ (v.ceilFix = true ∧ ¬ (m < s ↔ neg)) then 0 else ceilRaw (m - s) st := by
  rfl

/-- `new_shape` equals CPython's slice length when the model's stop `m` is the
Python stop `e`, or is `shape` where Python has `shape - 1` (negative step, `s ≤ shape - 1`). -/
theorem newShape_eq_sliceLen (v : Variant) {s m e st : Int} (neg : Prop) [Decidable neg]
    (hst : st ≠ 0) (hneg : neg ↔ st < 0)
    (hm : m = e ∨ (st < 0 ∧ m = e + 1 ∧ s ≤ e))
    (h14 : v.ceilFix = true ∨ st = 1 ∨ st = -1 ∨ 0 < sliceLen s e st) :
    newShape v s m st neg = sliceLen s e st := by
  rw [newShape_eq_ceilRaw]
  by_cases hpos : 0 < st
  · have hnn : ¬ neg := by rw [hneg]; omega
    have hm' : m = e := by omega
    subst hm'
    have hlt : ¬ st < 0 := by omega
    by_cases hd : s < m
    · have hL : sliceLen s m st = (m - s - 1).tdiv st + 1 := by
        unfold sliceLen; rw [if_neg hlt, if_pos hd]
      have h1 := ceilRaw_pos (d := m - s) (st := st) (by omega) hpos
      have h2 := count_pos (d := m - s) (st := st) (by omega) hpos
      have : ¬ (ceilRaw (m - s) st < 0 ∨ (v.ceilFix = true ∧ ¬ (m < s ↔ neg))) := by
        rintro (h | ⟨_, h⟩)
        · omega
        · apply h; constructor
          · intro; omega
          · intro hn; exact absurd hn hnn
      rw [if_neg this, h1, hL]
    · have hL : sliceLen s m st = 0 := by
        unfold sliceLen; rw [if_neg hlt, if_neg hd]
      rw [hL] at h14 ⊢
      by_cases hz : m - s = 0
      · rw [hz, ceilRaw_zero]; simp
      · have hdn : m - s < 0 := by omega
        have hc := ceilRaw_neg_pos hdn hpos
        rcases h14 with h | h | h | h
        · have : ¬ (m < s ↔ neg) := by
            intro hi; exact hnn (hi.1 (by omega))
          simp [h, this]
        · have := hc.2 (by omega)
          split <;> omega
        · omega
        · omega
  · have hlt : st < 0 := by omega
    have hn : neg := hneg.2 hlt
    rcases hm with hm | ⟨_, hm, hse⟩
    · subst hm
      by_cases hd : m < s
      · have hL : sliceLen s m st = (s - m - 1).tdiv (-st) + 1 := by
          unfold sliceLen; rw [if_pos hlt, if_pos hd]
        have h1 := ceilRaw_neg_neg (d := m - s) (st := st) (by omega) hlt
        have h2 := count_pos (d := s - m) (st := -st) (by omega) (by omega)
        have e1 : -(m - s) - 1 = s - m - 1 := by omega
        rw [e1] at h1
        have : ¬ (ceilRaw (m - s) st < 0 ∨ (v.ceilFix = true ∧ ¬ (m < s ↔ neg))) := by
          rintro (h | ⟨_, h⟩)
          · omega
          · apply h; constructor
            · intro; exact hn
            · intro; exact hd
        rw [if_neg this, h1, hL]
      · have hL : sliceLen s m st = 0 := by
          unfold sliceLen; rw [if_pos hlt, if_neg hd]
        rw [hL] at h14 ⊢
        by_cases hz : m - s = 0
        · rw [hz, ceilRaw_zero]
          split <;> rfl
        · have hdp : 0 < m - s := by omega
          have hc := ceilRaw_pos_neg hdp hlt
          rcases h14 with h | h | h | h
          · have : ¬ (m < s ↔ neg) := by
              intro hi; exact hd (hi.2 hn)
            simp [h, this]
          · omega
          · have := hc.2 (by omega)
            split <;> omega
          · omega
    · have hd : ¬ e < s := by omega
      have hL : sliceLen s e st = 0 := by
        unfold sliceLen; rw [if_pos hlt, if_neg hd]
      rw [hL] at h14 ⊢
      have hdp : 0 < m - s := by omega
      have hc := ceilRaw_pos_neg hdp hlt
      rcases h14 with h | h | h | h
      · have : ¬ (m < s ↔ neg) := by
          intro hi; have := hi.2 hn; omega
        simp [h, this]
      · omega
      · have := hc.2 (by omega)
        split <;> omega
      · omega

/-- Python's adjusted start for C-level arguments. -/
def specStart (shape : Int) (a : SliceArgs) : Int :=
  if a.haveStart then clampBound shape (effStep a) a.start
  else if effStep a < 0 then shape - 1 else 0

def specStop (shape : Int) (a : SliceArgs) : Int :=
  if a.haveStop then clampBound shape (effStep a) a.stop
  else if effStep a < 0 then -1 else shape

theorem specTriple_zero {shape : Int} {a : SliceArgs} (h : a.haveStep = true ∧ a.step = 0) :
    specTriple shape a = .err "ValueError" := by
  unfold specTriple PySlice.indices SliceArgs.pyStep
  simp [h.1, h.2, Res.map]

theorem specTriple_ok {shape : Int} {a : SliceArgs} (h : ¬ (a.haveStep = true ∧ a.step = 0)) :
    specTriple shape a =
      .ok (specStart shape a, effStep a, sliceLen (specStart shape a) (specStop shape a) (effStep a)) := by
  unfold specTriple PySlice.indices SliceArgs.pyStep SliceArgs.pyStart SliceArgs.pyStop specStart specStop effStep
  cases hst : a.haveStep <;> cases hs : a.haveStart <;> cases he : a.haveStop <;>
    simp_all [Res.map]

theorem effStep_ne_zero {a : SliceArgs} (h : ¬ (a.haveStep = true ∧ a.step = 0)) : effStep a ≠ 0 := by
  unfold effStep
  cases hst : a.haveStep <;> simp_all

theorem clampStart_eq (v : Variant) {shape : Int} (a : SliceArgs)
    (h9 : v.negClamp = true ∨ ¬ (negStep a ∧ a.haveStart = true ∧ a.start < -shape)) :
    clampStart v shape a = specStart shape a := by
  have hn := negStep_iff a
  unfold clampStart specStart clampBound
  cases hs : a.haveStart
  · by_cases hneg : negStep a
    · simp [hneg, hn.1 hneg]
    · have hlt : ¬ effStep a < 0 := fun h => hneg (hn.2 h)
      simp [hneg, hlt]
  · simp only [if_true]
    by_cases hneg : negStep a
    · have hlt := hn.1 hneg
      have h9' : v.negClamp = true ∨ ¬ a.start < -shape := by
        rcases h9 with h | h
        · exact Or.inl h
        · right; intro hc; exact h ⟨hneg, hs, hc⟩
      by_cases h1 : a.start < 0 <;> by_cases h2 : a.start + shape < 0 <;> by_cases h3 : a.start ≥ shape <;>
        rcases h9' with h | h <;> simp [hneg, hlt, h1, h2, h3, h] <;> omega
    · have hlt : ¬ effStep a < 0 := fun h => hneg (hn.2 h)
      by_cases h1 : a.start < 0 <;> by_cases h2 : a.start + shape < 0 <;> by_cases h3 : a.start ≥ shape <;>
        simp [hneg, hlt, h1, h2, h3] <;> omega

theorem clampStop_rel (v : Variant) {shape : Int} (a : SliceArgs)
    (h9 : v.negClamp = true ∨ ¬ (negStep a ∧ a.haveStop = true ∧ a.stop < -shape)) :
    clampStop v shape a = specStop shape a ∨
      (effStep a < 0 ∧ clampStop v shape a = specStop shape a + 1 ∧ specStop shape a = shape - 1) := by
  have hn := negStep_iff a
  unfold clampStop specStop clampBound
  cases hs : a.haveStop
  · by_cases hneg : negStep a
    · simp [hneg, hn.1 hneg]
    · have hlt : ¬ effStep a < 0 := fun h => hneg (hn.2 h)
      simp [hneg, hlt]
  · simp only [if_true]
    by_cases hneg : negStep a
    · have hlt := hn.1 hneg
      have h9' : v.negClamp = true ∨ ¬ a.stop < -shape := by
        rcases h9 with h | h
        · exact Or.inl h
        · right; intro hc; exact h ⟨hneg, hs, hc⟩
      by_cases h1 : a.stop < 0 <;> by_cases h2 : a.stop + shape < 0 <;> by_cases h3 : a.stop ≥ shape <;>
        by_cases h4 : a.stop > shape <;>
        rcases h9' with h | h <;> simp [hneg, hlt, h1, h2, h3, h4, h] <;> omega
    · have hlt : ¬ effStep a < 0 := fun h => hneg (hn.2 h)
      by_cases h1 : a.stop < 0 <;> by_cases h2 : a.stop + shape < 0 <;> by_cases h3 : a.stop ≥ shape <;>
        by_cases h4 : a.stop > shape <;>
        simp [hneg, hlt, h1, h2, h3, h4] <;> omega

theorem specStart_range {shape : Int} (hs : 0 ≤ shape) (a : SliceArgs) :
    (0 < effStep a → 0 ≤ specStart shape a ∧ specStart shape a ≤ shape) ∧
    (effStep a < 0 → -1 ≤ specStart shape a ∧ specStart shape a ≤ shape - 1) := by
  unfold specStart
  constructor
  · intro hp
    split
    · exact clampBound_pos_range _ hs hp
    · have : ¬ effStep a < 0 := by omega
      first | omega | (rw [if_neg this]; omega)
  · intro hn
    split
    · exact clampBound_neg_range _ hs hn
    · first | omega | (rw [if_pos hn]; omega)

/-- The per-dimension theorem for every repair variant: outside the defect
regions of the repairs that are NOT applied, the C slice arithmetic equals
`slice(start, stop, step).indices(shape)`. -/
theorem agrees_of (v : Variant) {shape : Int} (hs : 0 ≤ shape) (a : SliceArgs)
    (h9 : v.negClamp = true ∨ ¬ F9Region shape a)
    (h14 : v.ceilFix = true ∨ UnitOrNonEmpty shape a) : Agrees v shape a := by
  unfold Agrees
  by_cases hz : a.haveStep = true ∧ a.step = 0
  · rw [specTriple_zero hz]
    unfold sliceBounds
    rw [if_pos hz]; rfl
  · have hst := effStep_ne_zero hz
    have hT := specTriple_ok (shape := shape) hz
    rw [hT]
    unfold sliceBounds
    rw [if_neg hz]
    simp only [Res.map, DimSlice.triple]
    have h9a : v.negClamp = true ∨ ¬ (negStep a ∧ a.haveStart = true ∧ a.start < -shape) := by
      rcases h9 with h | h
      · exact Or.inl h
      · right; intro hc; exact h ⟨hc.1, Or.inl hc.2⟩
    have h9b : v.negClamp = true ∨ ¬ (negStep a ∧ a.haveStop = true ∧ a.stop < -shape) := by
      rcases h9 with h | h
      · exact Or.inl h
      · right; intro hc; exact h ⟨hc.1, Or.inr hc.2⟩
    have e1 := clampStart_eq v a h9a
    have e2 := clampStop_rel v a h9b
    have hr := specStart_range hs a
    rw [e1]
    have h14' : v.ceilFix = true ∨ effStep a = 1 ∨ effStep a = -1 ∨
        0 < sliceLen (specStart shape a) (specStop shape a) (effStep a) := by
      rcases h14 with h | h
      · exact Or.inl h
      · right
        rcases h with h | h | h | ⟨s, st, n, hh, hn⟩
        · left; unfold effStep; simp [h]
        · by_cases hb : a.haveStep = true
          · unfold effStep; simp [hb, h]
          · left; unfold effStep; simp [hb]
        · by_cases hb : a.haveStep = true
          · unfold effStep; simp [hb, h]
          · left; unfold effStep; simp [hb]
        · rw [hT] at hh
          injection hh with hh
          injection hh with _ hh
          injection hh with _ hh
          right; right; omega
    have hm : clampStop v shape a = specStop shape a ∨
        (effStep a < 0 ∧ clampStop v shape a = specStop shape a + 1 ∧ specStart shape a ≤ specStop shape a) := by
      rcases e2 with h | ⟨h1, h2, h3⟩
      · exact Or.inl h
      · right; exact ⟨h1, h2, by have := (hr.2 h1).2; omega⟩
    have := newShape_eq_sliceLen v (s := specStart shape a) (m := clampStop v shape a)
      (e := specStop shape a) (st := effStep a) (negStep a) hst (negStep_iff a) hm h14'
    rw [this]

end CyVerif.C16

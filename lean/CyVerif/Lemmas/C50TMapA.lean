import CyVerif.Lemmas.C50Set
/-! TransitionMap, part A: representation invariant, code lookup, binary search. -/
namespace CyVerif.C50

def TMap.allCodes (m : TMap) : List Int := m.ents.map (·.1) ++ [m.last]

/-- The invariants stated in the class docstring (`n >= 1`, `code_0 == -maxint`,
`code_n == maxint`, `code_i < code_i+1`), plus: every state set is a set. -/
structure TMap.WF (m : TMap) : Prop where
  first : m.codeAt 0 = -maxint
  ne : m.ents ≠ []
  last : m.last = maxint
  incr : m.allCodes.Pairwise (· < ·)
  sets : ∀ e ∈ m.ents, Sorted e.2
  spSets : ∀ p ∈ m.special, Sorted p.2
  spKeys : (m.special.map (·.1)).Nodup

theorem TMap.empty_wf : TMap.empty.WF := by
  refine ⟨by simp [TMap.empty, TMap.codeAt], by simp [TMap.empty], rfl, ?_, ?_, ?_, by simp [TMap.empty]⟩
  · simp [TMap.allCodes, TMap.empty, maxint]
  · intro e he; simp [TMap.empty] at he; subst he; exact sorted_nil
  · intro p hp; simp [TMap.empty] at hp

theorem TMap.allCodes_get (m : TMap) {k : Nat} (hk : k ≤ m.ents.length) :
    m.allCodes[k]? = some (m.codeAt k) := by
  unfold TMap.allCodes TMap.codeAt
  by_cases h : k < m.ents.length
  · rw [List.getElem?_append_left (by simpa using h)]
    simp [List.getElem?_eq_getElem h]
  · have : k = m.ents.length := by omega
    subst this
    rw [List.getElem?_append_right (by simp)]
    simp

theorem TMap.allCodes_length (m : TMap) : m.allCodes.length = m.ents.length + 1 := by
  simp [TMap.allCodes]

/-- strict monotonicity of the boundary codes -/
theorem TMap.codeAt_lt {m : TMap} (h : m.allCodes.Pairwise (· < ·)) {a b : Nat} (hab : a < b)
    (hb : b ≤ m.ents.length) : m.codeAt a < m.codeAt b := by
  have ha := m.allCodes_get (k := a) (by omega)
  have hb' := m.allCodes_get hb
  have hla : a < m.allCodes.length := by rw [m.allCodes_length]; omega
  have hlb : b < m.allCodes.length := by rw [m.allCodes_length]; omega
  rw [List.getElem?_eq_getElem hla] at ha
  rw [List.getElem?_eq_getElem hlb] at hb'
  have := (List.pairwise_iff_getElem.1 h) a b hla hlb hab
  simp only [Option.some.injEq] at ha hb'
  rw [ha, hb'] at this
  exact this

theorem TMap.codeAt_le {m : TMap} (h : m.allCodes.Pairwise (· < ·)) {a b : Nat} (hab : a ≤ b)
    (hb : b ≤ m.ents.length) : m.codeAt a ≤ m.codeAt b := by
  rcases Nat.lt_or_eq_of_le hab with h' | h'
  · exact Int.le_of_lt (TMap.codeAt_lt h h' hb)
  · subst h'; exact Int.le_refl _

/-- indices are determined by their codes -/
theorem TMap.codeAt_inj {m : TMap} (h : m.allCodes.Pairwise (· < ·)) {a b : Nat}
    (ha : a ≤ m.ents.length) (hb : b ≤ m.ents.length) (he : m.codeAt a = m.codeAt b) : a = b := by
  rcases Nat.lt_trichotomy a b with h' | h' | h'
  · have := TMap.codeAt_lt h h' hb; omega
  · exact h'
  · have := TMap.codeAt_lt h h' ha; omega

theorem TMap.codeAt_len (m : TMap) : m.codeAt m.ents.length = m.last := by
  simp [TMap.codeAt]

/-- the binary search returns the interval that contains `code` -/
theorem TMap.bsearch_spec (m : TMap) (code : Int) (lo hi : Nat)
    (hlt : lo < hi) (hhi : hi ≤ m.ents.length)
    (h1 : m.codeAt lo ≤ code) (h2 : code < m.codeAt hi) :
    let r := m.bsearch code lo hi
    r.2 = r.1 + 1 ∧ r.2 ≤ m.ents.length ∧ m.codeAt r.1 ≤ code ∧ code < m.codeAt r.2 := by
  fun_induction TMap.bsearch m code lo hi with
  | case1 lo hi hge hc ih =>
    exact ih (by omega) (by omega) h1 hc
  | case2 lo hi hge hc ih =>
    exact ih (by omega) hhi (by omega) h2
  | case3 lo hi hge =>
    refine ⟨by simp; omega, hhi, h1, h2⟩

end CyVerif.C50

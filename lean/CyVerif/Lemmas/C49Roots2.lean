import CyVerif.Lemmas.C49Roots
namespace CyVerif.C49
open Forest

theorem Forest.rootNames_sub_names {F : Forest} {t : Nat} (h : t ∈ F.rootNames) : t ∈ F.names := by
  obtain ⟨id, hid⟩ := Forest.rootTag_of_rootName h
  exact Forest.mem_names_of_tag (Forest.rootTags_sub_tags hid)

/-- what a root tag tells about a `cons` node with distinct addresses and names -/
theorem Forest.rootTag_cons_cases {it t id : Nat} {nm : Option Nat} {fs : List Frag} {kd r : Forest}
    (h : (it, some t) ∈ (Forest.cons id nm fs kd r).rootTags)
    (hid : (Forest.cons id nm fs kd r).ids.Nodup) (hnm : (Forest.cons id nm fs kd r).names.Nodup) :
    (id = it ∧ nm = some t ∧ t ∉ kd.names ∧ t ∉ r.names) ∨
      (id ≠ it ∧ nm ≠ some t ∧ t ∉ kd.names ∧ (it, some t) ∈ r.rootTags) := by
  obtain ⟨i1, i2, i3, i4, i5⟩ := Forest.nodup_ids_cons hid
  obtain ⟨n1, n2, n3, n4⟩ := Forest.nodup_names_cons hnm
  simp only [Forest.rootTags, List.mem_cons, Prod.mk.injEq] at h
  rcases h with ⟨h1, h2⟩ | h
  · left
    exact ⟨h1.symm, h2.symm, (n1 t h2.symm).1, (n1 t h2.symm).2⟩
  · right
    have htr : t ∈ r.names := Forest.mem_names_of_tag (Forest.rootTags_sub_tags h)
    refine ⟨?_, ?_, ?_, h⟩
    · intro e
      exact i2 (e ▸ Forest.mem_ids_of_tag (Forest.rootTags_sub_tags h))
    · intro e; exact (n1 t e).2 htr
    · intro hk; exact n4 t hk htr

theorem Forest.doc_removeRoot {it t : Nat} :
    ∀ F : Forest, (it, some t) ∈ F.rootTags → F.ids.Nodup → F.names.Nodup →
      (F.removeRoot it).doc = cut t F.doc ∧
      (F.getRoot it).doc = Item.op t :: (region t F.doc ++ [Item.cl t]) := by
  intro F
  induction F with
  | nil => intro h; simp [Forest.rootTags] at h
  | cons id nm fs kd r _ ihr =>
    intro h hid hnm
    obtain ⟨i1, i2, i3, i4, i5⟩ := Forest.nodup_ids_cons hid
    obtain ⟨n1, n2, n3, n4⟩ := Forest.nodup_names_cons hnm
    rcases Forest.rootTag_cons_cases h hid hnm with ⟨e, hn, hk, hr⟩ | ⟨e, hn, hk, hr⟩
    · subst hn
      have hnot : Item.cl t ∉ kd.doc ++ fragItems fs := by
        simp only [List.mem_append, not_or]
        exact ⟨fun h => hk (Forest.cl_mem_doc h), not_mem_fragItems_cl _ _⟩
      have e1 : (Forest.cons id (some t) fs kd r).doc
          = [] ++ Item.op t :: ((kd.doc ++ fragItems fs) ++ Item.cl t :: r.doc) := by
        simp [Forest.doc, wrap]
      rw [e1, cut_split (by simp) hnot, region_split (by simp) hnot]
      simp [Forest.removeRoot, Forest.getRoot, e, Forest.doc, wrap]
    · have hA : Item.op t ∉ wrap nm (kd.doc ++ fragItems fs) := by
        rw [mem_wrap_op]
        rintro (h1 | h1)
        · exact hn h1
        · rcases List.mem_append.1 h1 with h2 | h2
          · exact hk (Forest.op_mem_doc h2)
          · exact not_mem_fragItems_op _ _ h2
      obtain ⟨ih1, ih2⟩ := ihr hr i4 n3
      simp only [Forest.removeRoot, Forest.getRoot, e, if_false, Forest.doc]
      rw [cut_append_of_not_mem hA, region_append_of_not_mem hA, ih1, ih2]
      exact ⟨rfl, rfl⟩

theorem Forest.rootNames_removeRoot {it t : Nat} :
    ∀ F : Forest, (it, some t) ∈ F.rootTags → F.ids.Nodup → F.names.Nodup →
      (F.removeRoot it).rootNames = F.rootNames.filter (· ≠ t) := by
  intro F
  induction F with
  | nil => intro h; simp [Forest.rootTags] at h
  | cons id nm fs kd r _ ihr =>
    intro h hid hnm
    obtain ⟨i1, i2, i3, i4, i5⟩ := Forest.nodup_ids_cons hid
    obtain ⟨n1, n2, n3, n4⟩ := Forest.nodup_names_cons hnm
    rcases Forest.rootTag_cons_cases h hid hnm with ⟨e, hn, hk, hr⟩ | ⟨e, hn, hk, hr⟩
    · subst hn
      have : r.rootNames.filter (fun x => !decide (x = t)) = r.rootNames := by
        rw [List.filter_eq_self]
        intro a ha
        have : a ≠ t := fun e => hr (e ▸ Forest.rootNames_sub_names ha)
        simp [this]
      simp [Forest.removeRoot, e, Forest.rootNames, this]
    · simp only [Forest.removeRoot, e, if_false, Forest.rootNames, List.filter_append, ihr hr i4 n3]
      congr 1
      cases nm with
      | none => simp
      | some j =>
        have : j ≠ t := fun e => hn (by rw [e])
        simp [this]

theorem Forest.find_removeRoot {it b : Nat} :
    ∀ F : Forest, b ∉ (F.getRoot it).ids → (F.removeRoot it).find b = F.find b := by
  intro F
  induction F with
  | nil => intro _; rfl
  | cons id nm fs kd r _ ihr =>
    intro hb
    by_cases e : id = it
    · simp only [Forest.getRoot, e, if_true, Forest.ids_cons, List.mem_cons, List.mem_append,
        not_or] at hb
      have hne : it ≠ b := fun e' => hb.1 e'.symm
      simp [Forest.removeRoot, e, Forest.find, hne, Forest.find_of_not_mem hb.2.1]
    · simp only [Forest.getRoot, e, if_false] at hb
      simp only [Forest.removeRoot, e, if_false, Forest.find, ihr hb]

end CyVerif.C49

import CyVerif.Lemmas.C50BuildF
/-! RE → NFA, part G: the main structural induction. -/
namespace CyVerif.C50

mutual
/-- **`re.build_machine(m, i, f, match_bol, nocase)` realises `re.Sem match_bol nocase`.** -/
theorem RE.build_cert : (r : RE) → r.InBounds → ∀ (m : NFA) (i f : Nat) (mb nc : Bool), Pre m i f →
    Nonempty (BuildCert m (r.build m i f mb nc) i f (r.Sem mb nc))
  | .raw c0 c1, hb, m, i, f, mb, nc, hp => by
    have hp' := optBol_pre mb hp
    have c0' := certEdge (optBol m i mb).1 hp'.wf (optBol m i mb).2 f hp'.hif hp'.hi (.range c0 c1) hb
    simp only [RE.build, RE.Sem]
    cases nc with
    | false =>
      simp only [Bool.false_eq_true, if_false]
      obtain ⟨c2⟩ := certOptBol mb hp c0'
      refine BuildCert.congr ?_ c2
      intro w
      constructor
      · rintro ⟨p, w', h1, rfl, h2⟩; exact ⟨p, w', h1, rfl, .inl h2⟩
      · rintro ⟨p, w', h1, rfl, h2 | ⟨hf, _⟩⟩
        · exact ⟨p, w', h1, rfl, h2⟩
        · cases hf
    | true =>
      simp only [if_true]
      obtain ⟨cu⟩ := certOptRange hp' c0' (uppercaseRange c0 c1) (fun a b h => caseRange_bounds (.inl h))
      obtain ⟨cl⟩ := certOptRange hp' cu (lowercaseRange c0 c1) (fun a b h => caseRange_bounds (.inr h))
      obtain ⟨c3⟩ := certOptBol mb hp cl
      refine BuildCert.congr ?_ c3
      intro w
      constructor
      · rintro ⟨p, w', h1, rfl, (h2 | h2) | h2⟩
        · exact ⟨p, w', h1, rfl, .inl h2⟩
        · exact ⟨p, w', h1, rfl, .inr ⟨rfl, .inl h2⟩⟩
        · exact ⟨p, w', h1, rfl, .inr ⟨rfl, .inr h2⟩⟩
      · rintro ⟨p, w', h1, rfl, h2 | ⟨_, h2 | h2⟩⟩
        · exact ⟨p, w', h1, rfl, .inl (.inl h2)⟩
        · exact ⟨p, w', h1, rfl, .inl (.inr h2)⟩
        · exact ⟨p, w', h1, rfl, .inr h2⟩
  | .nl, _, m, i, f, mb, nc, hp => by
    have hp' := optBol_pre mb hp
    have hp'' := buildOpt_pre .eol hp'
    have c0' := certEdge _ hp''.wf _ f hp''.hif hp''.hi (.range 10 11) (by simp [Ev.InBounds, maxint])
    obtain ⟨c1⟩ := certBuildOpt .eol hp' c0'
    obtain ⟨c2⟩ := certOptBol mb hp c1
    simp only [RE.build, RE.Sem]
    refine BuildCert.congr ?_ c2
    intro w
    constructor
    · rintro ⟨p, w', h1, rfl, e, w'', he, rfl, h2⟩
      rw [(evLang_nl w'').1 h2]
      exact ⟨p, e, h1, he, rfl⟩
    · rintro ⟨p, e, h1, he, rfl⟩
      exact ⟨p, e ++ [.chr 10], h1, rfl, e, [.chr 10], he, rfl, (evLang_nl _).2 rfl⟩
  | .sym k, _, m, i, f, mb, nc, hp => by
    have hp' := optBol_pre (mb && k == .eol) hp
    have c0' := certEdge _ hp'.wf _ f hp'.hif hp'.hi (.sp k) trivial
    obtain ⟨c1⟩ := certOptBol (mb && k == .eol) hp c0'
    simp only [RE.build, RE.Sem]
    refine BuildCert.congr ?_ c1
    intro w
    constructor
    · rintro ⟨p, w', h1, rfl, h2⟩
      rw [(evLang_sp k w').1 h2]; exact ⟨p, h1, rfl⟩
    · rintro ⟨p, h1, rfl⟩
      exact ⟨p, _, h1, rfl, (evLang_sp k _).2 rfl⟩
  | .seq rs, hb, m, i, f, mb, nc, hp => by
    simp only [RE.build, RE.Sem]
    cases hnil : rs.isNil with
    | true =>
      have := isNil_eq rs hnil
      subst this
      simp only [if_true]
      have c0' := certEdge m hp.wf i f hp.hif hp.hi (.sp .eps) trivial
      refine BuildCert.congr ?_ c0'
      intro w
      simp only [REs.SemSeq]
      exact evLang_eps w
    | false =>
      simp only [Bool.false_eq_true, if_false]
      exact REs.buildSeq_cert rs hb hnil m i f mb nc hp
  | .alt rs, hb, m, i, f, mb, nc, hp => by
    simp only [RE.build, RE.Sem]
    obtain ⟨cN⟩ := REs.buildAltN_cert rs hb m i f mb nc hp
    cases hall : rs.allNullable with
    | true =>
      simp only [if_true]
      refine BuildCert.congr ?_ cN
      intro w
      constructor
      · intro h; exact .inl h
      · rintro (h | ⟨p, w', _, _, h⟩)
        · exact h
        · exact absurd h (semAltNon_false rs nc w' hall)
    | false =>
      simp only [Bool.false_eq_true, if_false]
      have hp1 := hp.after cN
      have hp' := optBol_pre mb hp1
      obtain ⟨cNon⟩ := REs.buildAltNon_cert rs hb _ _ f nc hp'
      obtain ⟨c2⟩ := certOptBol mb hp1 cNon
      exact ⟨certAlt hp.hif hp.hi hp.hf cN c2⟩
  | .rep1 r, hb, m, i, f, mb, nc, hp => by
    have hlen2 : (m.newState.1.newState.1).nodes.length = m.nodes.length + 2 := by simp [NFA.newState]
    have hb2 : (m.newState.1.newState).2 = m.nodes.length + 1 := by simp [NFA.newState]
    have ha2 : (m.newState).2 = m.nodes.length := rfl
    have hwf2 : (m.newState.1.newState.1).WF := newState_wf _ (newState_wf _ hp.wf)
    have hi := hp.hi
    obtain ⟨l1a, l1b, _, _, _⟩ := linkEdge (m.newState.1.newState.1) hwf2 i m.nodes.length (by omega)
    have hpin : Pre ((m.newState.1.newState.1).link i m.nodes.length) m.nodes.length (m.nodes.length + 1) :=
      ⟨l1a, by omega, by rw [l1b, hlen2]; omega, by rw [l1b, hlen2]; omega⟩
    obtain ⟨c⟩ := RE.build_cert r hb _ _ _ (mb || r.matchNl) nc hpin
    have res := certRep1 hp.hif hp.hi hp.hf hp.wf c
    simp only [RE.build, RE.Sem, hb2, ha2]
    exact ⟨res⟩
  | .sw r nocase, hb, m, i, f, mb, nc, hp => by
    simp only [RE.build, RE.Sem]
    exact RE.build_cert r hb m i f mb nocase hp
/-- the loop of `Seq.build_machine` -/
theorem REs.buildSeq_cert : (rs : REs) → rs.InBounds → rs.isNil = false → ∀ (m : NFA) (i f : Nat) (mb nc : Bool), Pre m i f →
    Nonempty (BuildCert m (rs.buildSeq m i f mb nc) i f (rs.SemSeq mb nc))
  | .nil, _, hnil, _, _, _, _, _, _ => by simp [REs.isNil] at hnil
  | .cons r rs, hb, _, m, i, f, mb, nc, hp => by
    simp only [REs.buildSeq, REs.SemSeq]
    cases hnil : rs.isNil with
    | true =>
      have := isNil_eq rs hnil
      subst this
      simp only [if_true]
      obtain ⟨c⟩ := RE.build_cert r hb.1 m i f mb nc hp
      refine BuildCert.congr ?_ c
      intro w
      simp only [REs.SemSeq]
      constructor
      · intro h; exact ⟨w, [], by simp, h, rfl⟩
      · rintro ⟨w1, w2, rfl, h, rfl⟩; simpa using h
    | false =>
      simp only [Bool.false_eq_true, if_false]
      have hi := hp.hi
      have hf := hp.hf
      have hlen' : m.newState.1.nodes.length = m.nodes.length + 1 := by simp [NFA.newState]
      have hp1 : Pre m.newState.1 i m.nodes.length := ⟨newState_wf m hp.wf, by omega, by omega, by omega⟩
      obtain ⟨c1⟩ := RE.build_cert r hb.1 _ _ _ mb nc hp1
      have hg := c1.grow
      have hp2 : Pre (r.build m.newState.1 i m.nodes.length mb nc) m.nodes.length f :=
        ⟨c1.wf, by omega, by omega, by omega⟩
      obtain ⟨c2⟩ := REs.buildSeq_cert rs hb.2 hnil _ _ _ (r.matchNl || (mb && r.nullable)) nc hp2
      exact ⟨certSeq hp.hif hp.hi hp.hf c1 c2⟩
/-- the loop over `nullable_res` of `Alt.build_machine` -/
theorem REs.buildAltN_cert : (rs : REs) → rs.InBounds → ∀ (m : NFA) (i f : Nat) (mb nc : Bool), Pre m i f →
    Nonempty (BuildCert m (rs.buildAltNullable m i f mb nc) i f (rs.SemAltN mb nc))
  | .nil, _, m, i, f, _, _, hp => by
    simp only [REs.buildAltNullable, REs.SemAltN]
    exact ⟨certNone m hp.wf i f hp.hif⟩
  | .cons r rs, hb, m, i, f, mb, nc, hp => by
    simp only [REs.buildAltNullable, REs.SemAltN]
    cases hn : r.nullable with
    | true =>
      simp only [if_true]
      obtain ⟨c1⟩ := RE.build_cert r hb.1 m i f mb nc hp
      obtain ⟨c2⟩ := REs.buildAltN_cert rs hb.2 _ i f mb nc (hp.after c1)
      refine BuildCert.congr ?_ (certAlt hp.hif hp.hi hp.hf c1 c2)
      intro w; simp
    | false =>
      simp only [Bool.false_eq_true, if_false]
      obtain ⟨c2⟩ := REs.buildAltN_cert rs hb.2 m i f mb nc hp
      refine BuildCert.congr ?_ c2
      intro w; simp
/-- the loop over `non_nullable_res` of `Alt.build_machine` -/
theorem REs.buildAltNon_cert : (rs : REs) → rs.InBounds → ∀ (m : NFA) (i f : Nat) (nc : Bool), Pre m i f →
    Nonempty (BuildCert m (rs.buildAltNon m i f nc) i f (rs.SemAltNon nc))
  | .nil, _, m, i, f, _, hp => by
    simp only [REs.buildAltNon, REs.SemAltNon]
    exact ⟨certNone m hp.wf i f hp.hif⟩
  | .cons r rs, hb, m, i, f, nc, hp => by
    simp only [REs.buildAltNon, REs.SemAltNon]
    cases hn : r.nullable with
    | true =>
      simp only [if_true]
      obtain ⟨c2⟩ := REs.buildAltNon_cert rs hb.2 m i f nc hp
      refine BuildCert.congr ?_ c2
      intro w; simp
    | false =>
      simp only [Bool.false_eq_true, if_false]
      obtain ⟨c1⟩ := RE.build_cert r hb.1 m i f false nc hp
      obtain ⟨c2⟩ := REs.buildAltNon_cert rs hb.2 _ i f nc (hp.after c1)
      refine BuildCert.congr ?_ (certAlt hp.hif hp.hi hp.hf c1 c2)
      intro w; simp
end

end CyVerif.C50

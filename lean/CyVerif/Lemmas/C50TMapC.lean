import CyVerif.Lemmas.C50TMapB
/-! TransitionMap, part C: `split` keeps the invariant and the lookup function. -/
namespace CyVerif.C50

theorem take_succ_last {α} (l : List α) {k : Nat} (hk : k < l.length) :
    l.take (k + 1) = l.take k ++ [l[k]] := by
  rw [List.take_add_one]; simp [List.getElem?_eq_getElem hk]

/-- inserting a copy of the previous set at a new split point does not change any lookup -/
theorem insert_lookup (l : List (Int × SSet)) {lo : Nat} (hlo : lo < l.length) (code : Int)
    (hlt : l[lo].1 < code) (c : Int) (acc : SSet) :
    lookupEnts (l.take (lo + 1) ++ (code, l[lo].2) :: l.drop (lo + 1)) c acc = lookupEnts l c acc := by
  conv => rhs; rw [← List.take_append_drop (lo + 1) l]
  rw [lookupEnts_append, lookupEnts_append, lookupEnts_cons]
  congr 1
  rw [take_succ_last l hlo, lookupEnts_append, lookupEnts_cons]
  simp only [lookupEnts, List.foldl_nil]
  by_cases h1 : code ≤ c
  · have : l[lo].1 ≤ c := by omega
    simp [h1, this]
  · simp [h1]

structure SplitPost (m : TMap) (code : Int) (r : TMap × Nat) : Prop where
  wf : r.1.WF
  look : ∀ c acc, lookupEnts r.1.ents c acc = lookupEnts m.ents c acc
  idx : r.2 ≤ r.1.ents.length
  atIdx : r.1.codeAt r.2 = code
  special : r.1.special = m.special
  keep : ∀ k, k ≤ m.ents.length → m.codeAt k ≤ code → r.1.codeAt k = m.codeAt k
  low : ∀ k, k ≤ m.ents.length → code ≤ m.codeAt k → r.2 ≤ k
  len : m.ents.length ≤ r.1.ents.length

theorem pairwise_insert {A B : List Int} {x : Int} (h : (A ++ B).Pairwise (· < ·))
    (hA : ∀ a ∈ A, a < x) (hB : ∀ b ∈ B, x < b) : (A ++ x :: B).Pairwise (· < ·) := by
  rw [List.pairwise_append] at h ⊢
  refine ⟨h.1, List.pairwise_cons.2 ⟨hB, h.2.1⟩, ?_⟩
  intro a ha b hb
  rcases List.mem_cons.1 hb with hb | hb
  · subst hb; exact hA a ha
  · exact h.2.2 a ha b hb

theorem TMap.codeAt_of_lt (m : TMap) {k : Nat} (hk : k < m.ents.length) : m.codeAt k = m.ents[k].1 := by
  simp [TMap.codeAt, List.getElem?_eq_getElem hk]

theorem TMap.setAt_of_lt (m : TMap) {k : Nat} (hk : k < m.ents.length) : m.setAt k = m.ents[k].2 := by
  simp [TMap.setAt, List.getElem?_eq_getElem hk]

/-- the insertion branch of `split` -/
theorem split_insert (m : TMap) (h : m.WF) (code : Int) (lo : Nat) (hlo : lo < m.ents.length)
    (h1 : m.codeAt lo < code) (h2 : code < m.codeAt (lo + 1)) :
    SplitPost m code
      ({ m with ents := m.ents.take (lo + 1) ++ (code, m.setAt lo) :: m.ents.drop (lo + 1) }, lo + 1) := by
  have hcl := m.codeAt_of_lt hlo
  have hsl := m.setAt_of_lt hlo
  have hlen : (m.ents.take (lo + 1) ++ (code, m.setAt lo) :: m.ents.drop (lo + 1)).length = m.ents.length + 1 := by
    simp; omega
  have hget_lt : ∀ k, k ≤ lo →
      (m.ents.take (lo + 1) ++ (code, m.setAt lo) :: m.ents.drop (lo + 1))[k]? = m.ents[k]? := by
    intro k hk
    rw [List.getElem?_append_left (by simp; omega), List.getElem?_take_of_lt (by omega)]
  have hcode_lt : ∀ k, k ≤ lo → TMap.codeAt { m with ents := m.ents.take (lo + 1) ++ (code, m.setAt lo) :: m.ents.drop (lo + 1) } k = m.codeAt k := by
    intro k hk
    simp only [TMap.codeAt, hget_lt k hk]
  refine ⟨⟨?_, by simp, h.last, ?_, ?_, h.spSets, h.spKeys⟩, ?_, by simp; omega, ?_, rfl, ?_, ?_, by simp; omega⟩
  · rw [hcode_lt 0 (by omega)]; exact h.first
  · -- strictly increasing codes
    have hall : TMap.allCodes { m with ents := m.ents.take (lo + 1) ++ (code, m.setAt lo) :: m.ents.drop (lo + 1) }
        = m.allCodes.take (lo + 1) ++ code :: m.allCodes.drop (lo + 1) := by
      simp only [TMap.allCodes, List.map_append, List.map_cons, List.map_take, List.map_drop]
      rw [List.take_append_of_le_length (by simp; omega), List.drop_append_of_le_length (by simp; omega)]
      simp
    rw [hall]
    apply pairwise_insert
    · rw [List.take_append_drop]; exact h.incr
    · intro a ha
      obtain ⟨i, hi, hai⟩ := List.getElem_of_mem ha
      simp only [List.length_take] at hi
      rw [List.getElem_take] at hai
      have hg := m.allCodes_get (k := i) (by omega)
      rw [List.getElem?_eq_getElem (by rw [m.allCodes_length]; omega)] at hg
      simp only [Option.some.injEq] at hg
      have := TMap.codeAt_le h.incr (a := i) (b := lo) (by omega) (by omega)
      omega
    · intro b hb
      obtain ⟨i, hi, hbi⟩ := List.getElem_of_mem hb
      simp only [List.length_drop, m.allCodes_length] at hi
      rw [List.getElem_drop] at hbi
      have hg := m.allCodes_get (k := lo + 1 + i) (by omega)
      rw [List.getElem?_eq_getElem (by rw [m.allCodes_length]; omega)] at hg
      simp only [Option.some.injEq] at hg
      have := TMap.codeAt_le h.incr (a := lo + 1) (b := lo + 1 + i) (by omega) (by omega)
      omega
  · intro e he
    simp only [List.mem_append, List.mem_cons] at he
    rcases he with he | he | he
    · exact h.sets e (List.mem_of_mem_take he)
    · subst he; simp only; rw [hsl]; exact h.sets _ (List.getElem_mem hlo)
    · exact h.sets e (List.mem_of_mem_drop he)
  · intro c acc
    simp only
    rw [hsl]
    exact insert_lookup m.ents hlo code (by omega) c acc
  · simp only [TMap.codeAt]
    rw [List.getElem?_append_right (by simp; omega)]
    simp [Nat.min_eq_left (show lo + 1 ≤ m.ents.length by omega)]
  · intro k hk hkc
    apply hcode_lt
    by_cases hkl : k ≤ lo
    · exact hkl
    · have := TMap.codeAt_le h.incr (a := lo + 1) (b := k) (by omega) hk
      omega
  · intro k hk hkc
    by_cases hkl : k ≤ lo
    · have := TMap.codeAt_le h.incr (a := k) (b := lo) hkl (by omega)
      omega
    · simp only; omega

end CyVerif.C50

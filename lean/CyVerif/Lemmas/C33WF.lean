import CyVerif.Lemmas.C33Basic
/-! # C33 — well-formed C values of a type, field-name lookup lemmas -/
namespace CyVerif.C33

/-- element types of `std::set` / key types of `std::map` whose Python image is hashable and on which
`CVal.cmp` is the C++ order -/
def KeyTy : Ty → Bool
  | .int _ _ => true | .bool => true | .str => true
  | .pair a b => KeyTy a && KeyTy b
  | _ => false

/-- the byte string converts to Python under the string mode and re-encodes to itself -/
def StrOk : Mode → List Nat → Prop
  | .bytes, _ => True
  | .ascii, b => ∀ x ∈ b, x < 128
  | .utf8, b => ∃ s, C10.utf8Decode b = some s ∧ C10.utf8Encode s = .ok b

mutual
/-- `c` is a C value of type `t`: integers in range, `std::set`/`std::map` strictly sorted by `operator<`,
arrays/tuples/structs of the declared length, `char*` without NUL, strings decodable in the mode.
A union is well formed here only if it has a single member (others do not round-trip, see `union_no_roundtrip`). -/
def WF (m : Mode) : Ty → CVal → Prop
  | .int w sg, .int n => inRange w sg n = true
  | .dbl, .dbl _ => True
  | .bool, .bool _ => True
  | .str, .str b => StrOk m b
  | .cstr, .str b => StrOk m b ∧ cTrunc b = b
  | .cplx, .cplx _ _ => True
  | .pair a b, .pair x y => WF m a x ∧ WF m b y
  | .vec t, .seq cs => ∀ c ∈ cs, WF m t c
  | .lst t, .seq cs => ∀ c ∈ cs, WF m t c
  | .set t, .seq cs => KeyTy t = true ∧ (∀ c ∈ cs, WF m t c) ∧ cs.Pairwise (fun a b => CVal.lt a b = true)
  | .uset t, .seq cs => KeyTy t = true ∧ (∀ c ∈ cs, WF m t c) ∧ cs.Pairwise (fun a b => CVal.lt a b = true)
  | .map k v, .map kvs => KeyTy k = true ∧ (∀ kv ∈ kvs, WF m k kv.1 ∧ WF m v kv.2) ∧
      (kvs.map (·.1)).Pairwise (fun a b => CVal.lt a b = true)
  | .umap k v, .map kvs => KeyTy k = true ∧ (∀ kv ∈ kvs, WF m k kv.1 ∧ WF m v kv.2) ∧
      (kvs.map (·.1)).Pairwise (fun a b => CVal.lt a b = true)
  | .struct ns ts, .seq cs => ns.length = ts.length ∧ (ns.map nameCps).Nodup ∧ WFL m ts cs
  | .union ns ts, .umember i v => ns.length = 1 ∧ i = 0 ∧ WFL m ts [v]
  | .carray t n, .seq cs => cs.length = n ∧ ∀ c ∈ cs, WF m t c
  | .ctuple ts, .seq cs => WFL m ts cs
  | _, _ => False
def WFL (m : Mode) : List Ty → List CVal → Prop
  | [], [] => True
  | t :: ts, c :: cs => WF m t c ∧ WFL m ts cs
  | _, _ => False
end

theorem WFL_length (m : Mode) : ∀ (ts : List Ty) (cs : List CVal), WFL m ts cs → cs.length = ts.length
  | [], [], _ => rfl
  | [], _ :: _, h => by simp [WFL] at h
  | _ :: _, [], h => by simp [WFL] at h
  | t :: ts, c :: cs, h => by
    simp only [WFL] at h
    simp [WFL_length m ts cs h.2]

/-! ## field names -/

theorem isName_nameStr (n n' : String) : isName n (nameStr n') = (nameCps n' == nameCps n) := rfl

theorem dictFind_skip (n : String) (pre rest : List (PyVal × PyVal))
    (h : ∀ kv ∈ pre, isName n kv.1 = false) : dictFind n (pre ++ rest) = dictFind n rest := by
  induction pre with
  | nil => rfl
  | cons kv pre ih =>
    obtain ⟨k, v⟩ := kv
    have hk : isName n k = false := h (k, v) (by simp)
    simp [dictFind, hk, ih (fun kv hkv => h kv (by simp [hkv]))]

theorem lookups_zip (ns : List String) : ∀ (ps : List PyVal) (pre : List (PyVal × PyVal)),
    ns.length = ps.length → (ns.map nameCps).Nodup →
    (∀ n ∈ ns, ∀ kv ∈ pre, isName n kv.1 = false) →
    lookups (.dict (pre ++ (ns.map nameStr).zip ps)) ns = .ok ps := by
  induction ns with
  | nil => intro ps pre hl _ _; cases ps <;> simp_all [lookups]
  | cons n ns ih =>
    intro ps pre hl hnd hpre
    cases ps with
    | nil => simp at hl
    | cons p ps =>
      simp only [List.map_cons, List.zip_cons_cons, List.nodup_cons] at hnd ⊢
      have hfind : dictFind n (pre ++ (nameStr n, p) :: (ns.map nameStr).zip ps) = some p := by
        rw [dictFind_skip n pre _ (hpre n (by simp))]
        simp [dictFind, isName_nameStr]
      have hrest := ih ps (pre ++ [(nameStr n, p)]) (by simpa using hl) hnd.2 (by
        intro n' hn' kv hkv
        rcases List.mem_append.mp hkv with h | h
        · exact hpre n' (by simp [hn']) kv h
        · simp only [List.mem_singleton] at h
          subst h
          rw [isName_nameStr]
          have : nameCps n ≠ nameCps n' := by
            intro he; exact hnd.1 (he ▸ List.mem_map_of_mem hn')
          simpa using this)
      simp only [List.append_assoc, List.singleton_append] at hrest
      simp [lookups, subscript, hfind, hrest, bind, Except.bind]

end CyVerif.C33

import CyVerif.Lemmas.C04Helpers
/-!
Exactness of signed `mul`, of the unsigned helpers, the `div` helpers,
`LeftShift` and `__Pyx_UNARY_NEG_WOULD_OVERFLOW`.
-/
namespace CyVerif.C04

theorem mulConstS_portable_eq {w : Nat} (hw : 2 ≤ w) (swap : Bool) {a b : Int}
    (ha : InR true w a) (hb : InR true w b) :
    mulConstS_portable w swap a b = .ok (builtinOvf true w (a * b)) := by
  cases swap
  · exact mulConstS_noswap hw ha hb
  · have : mulConstS_portable w true a b = mulConstS_portable w false b a := by
      simp [mulConstS_portable]
    rw [this, mulConstS_noswap hw hb ha, Int.mul_comm]

theorem mul_bounds {p a b : Int} (ha : -p ≤ a ∧ a ≤ p) (hb : -p ≤ b ∧ b ≤ p) :
    -(p * p) ≤ a * b ∧ a * b ≤ p * p := by
  have hp : 0 ≤ p := by omega
  by_cases h1 : 0 ≤ a <;> by_cases h2 : 0 ≤ b
  · have := Int.mul_le_mul ha.2 hb.2 h2 hp
    have := Int.mul_nonneg h1 h2
    have := Int.mul_nonneg hp hp
    omega
  · have := Int.mul_le_mul ha.2 (show -b ≤ p by omega) (by omega) hp
    have := Int.mul_nonneg h1 (show 0 ≤ -b by omega)
    have := Int.mul_nonneg hp hp
    rw [Int.mul_neg] at *
    omega
  · have := Int.mul_le_mul (show -a ≤ p by omega) hb.2 h2 hp
    have := Int.mul_nonneg (show 0 ≤ -a by omega) h2
    have := Int.mul_nonneg hp hp
    rw [Int.neg_mul] at *
    omega
  · have := Int.mul_le_mul (show -a ≤ p by omega) (show -b ≤ p by omega) (by omega) hp
    have := Int.mul_nonneg (show 0 ≤ -a by omega) (show 0 ≤ -b by omega)
    have := Int.mul_nonneg hp hp
    rw [Int.neg_mul_neg] at *
    omega

theorem smul_widen {w wl : Nat} (hw : 1 ≤ w) (h : 2 * w ≤ wl) {a b : Int} (ha : InR true w a) (hb : InR true w b) :
    smul wl a b = .ok (a * b) := by
  rw [inR_signed] at ha hb
  have hp := two_pow_pos' (w - 1)
  have hbd := mul_bounds (p := (2 : Int) ^ (w - 1)) (a := a) (b := b) (by omega) (by omega)
  have hpp : (2 : Int) ^ (w - 1) * (2 : Int) ^ (w - 1) = (2 : Int) ^ (2 * w - 2) := by
    rw [← two_pow_add]; congr 1; omega
  have hmono : (2 : Int) ^ (2 * w - 2) ≤ (2 : Int) ^ (wl - 2) := two_pow_mono (by omega)
  have hs := two_pow_split (w := wl - 1) (by omega)
  have : wl - 1 - 1 = wl - 2 := by omega
  rw [this] at hs
  have := two_pow_pos' (wl - 2)
  unfold smul
  rw [if_pos]
  rw [inR_signed]; omega

theorem mulS_portable_eq {P : Plat} {w : Nat} (hw : 2 ≤ w) (hwl : w < P.wl → 2 * w ≤ P.wl)
    (hwll : w < P.wll → 2 * w ≤ P.wll) (cp : Constp) {a b : Int}
    (ha : InR true w a) (hb : InR true w b) :
    mulS_portable P w cp a b = .ok (builtinOvf true w (a * b)) := by
  have hw1 : 1 ≤ w := by omega
  unfold mulS_portable
  split
  · exact mulConstS_portable_eq hw _ ha hb
  · split
    · rw [mulConstS_portable_eq hw _ hb ha, Int.mul_comm]
    · split
      · rename_i h
        rw [smul_widen hw1 (hwl h) ha hb]
        simp only [bind, Except.bind, pure, Except.pure]
        rw [widen_result hw1]
      · split
        · rename_i h
          rw [smul_widen hw1 (hwll h) ha hb]
          simp only [bind, Except.bind, pure, Except.pure]
          rw [widen_result hw1]
        · exact mulConstS_portable_eq hw _ ha hb

/-! ### unsigned -/

theorem builtinOvf_unsigned (w : Nat) (e : Int) :
    builtinOvf false w e = (e % (2 : Int) ^ w, decide (e % (2 : Int) ^ w ≠ e)) := by
  simp [builtinOvf, wrap]

theorem emod_range2 {x m : Int} (h0 : 0 ≤ x) (h1 : x < 2 * m) :
    (x % m = x ∧ x < m) ∨ (x % m = x - m ∧ m ≤ x) := by
  by_cases h : x < m
  · left; exact ⟨Int.emod_eq_of_lt h0 h, h⟩
  · right
    have := Int.add_mul_emod_self_right (x - m) 1 m
    rw [Int.one_mul, show x - m + m = x by omega] at this
    rw [this]
    exact ⟨Int.emod_eq_of_lt (by omega) (by omega), by omega⟩

theorem addU_portable_eq {w : Nat} {a b : Int} (ha : InR false w a) (hb : InR false w b) :
    addU_portable w a b = .ok (builtinOvf false w (a + b)) := by
  rw [inR_unsigned] at ha hb
  unfold addU_portable
  simp only [pure, Except.pure]
  rw [builtinOvf_unsigned]
  congr 2
  rcases emod_range2 (x := a + b) (m := (2 : Int) ^ w) (by omega) (by omega) with h | h
  · rw [h.1, Bool.eq_iff_iff]; simp only [decide_eq_true_eq]; omega
  · rw [h.1, Bool.eq_iff_iff]; simp only [decide_eq_true_eq]; omega

theorem subU_portable_eq {w : Nat} {a b : Int} (ha : InR false w a) (hb : InR false w b) :
    subU_portable w a b = .ok (builtinOvf false w (a - b)) := by
  rw [inR_unsigned] at ha hb
  unfold subU_portable
  simp only [pure, Except.pure]
  rw [builtinOvf_unsigned]
  congr 2
  have hs := Int.add_mul_emod_self_right (a - b) 1 ((2 : Int) ^ w)
  rw [Int.one_mul] at hs
  rcases emod_range2 (x := a - b + (2 : Int) ^ w) (m := (2 : Int) ^ w) (by omega) (by omega) with h | h
  · rw [← hs, h.1, Bool.eq_iff_iff]; simp only [decide_eq_true_eq]; omega
  · rw [← hs, h.1, Bool.eq_iff_iff]; simp only [decide_eq_true_eq]; omega

theorem mulConstU_portable_eq {w : Nat} (swap : Bool) {a b : Int}
    (ha : InR false w a) (hb : InR false w b) :
    mulConstU_portable w swap a b = .ok (builtinOvf false w (a * b)) := by
  have main : ∀ a b : Int, InR false w a → InR false w b →
      mulConstU_portable w false a b = .ok (builtinOvf false w (a * b)) := by
    intro a b ha hb
    rw [inR_unsigned] at ha hb
    have hp := two_pow_pos' w
    unfold mulConstU_portable
    simp only [Bool.false_eq_true, if_false]
    rw [builtinOvf_unsigned]
    have hab : 0 ≤ a * b := Int.mul_nonneg ha.1 hb.1
    split
    · rename_i h
      have c1 : cdiv false w (pyxMax false w) b = .ok ((pyxMax false w).tdiv b) := by
        unfold cdiv; rw [if_neg h, if_neg (by simp)]
      rw [c1]
      simp only [bind, Except.bind, pure, Except.pure]
      congr 2
      have hmx : pyxMax false w = (2 : Int) ^ w - 1 := by simp [pyxMax]
      rw [hmx, Bool.eq_iff_iff]
      simp only [decide_eq_true_eq]
      rw [tdiv_lt_iff_pp (by omega) (by omega)]
      by_cases hlt : a * b < (2 : Int) ^ w
      · rw [Int.emod_eq_of_lt hab hlt]; omega
      · have := Int.emod_lt_of_pos (a * b) hp
        omega
    · rename_i h
      have hb0 : b = 0 := by omega
      subst hb0
      simp only [pure, Except.pure]
      congr 2
      simp
  cases swap
  · exact main a b ha hb
  · have : mulConstU_portable w true a b = mulConstU_portable w false b a := by
      simp [mulConstU_portable]
    rw [this, main b a hb ha, Int.mul_comm]

theorem umul_widen {w wl : Nat} (h : 2 * w ≤ wl) {a b : Int} (ha : InR false w a) (hb : InR false w b) :
    (a * b) % (2 : Int) ^ wl = a * b := by
  rw [inR_unsigned] at ha hb
  have hp := two_pow_pos' w
  have h1 : a * b ≤ ((2 : Int) ^ w - 1) * ((2 : Int) ^ w - 1) :=
    Int.mul_le_mul ha.2 hb.2 hb.1 (by omega)
  have h2 : ((2 : Int) ^ w - 1) * ((2 : Int) ^ w - 1) < (2 : Int) ^ w * (2 : Int) ^ w := by
    have : ((2 : Int) ^ w - 1) * ((2 : Int) ^ w - 1) = (2 : Int) ^ w * (2 : Int) ^ w - 2 * (2 : Int) ^ w + 1 := by
      rw [Int.sub_mul, Int.mul_sub]; omega
    omega
  have h3 : (2 : Int) ^ w * (2 : Int) ^ w ≤ (2 : Int) ^ wl := by
    rw [← two_pow_add]; exact two_pow_mono (by omega)
  exact Int.emod_eq_of_lt (Int.mul_nonneg ha.1 hb.1) (by omega)

theorem mulU_portable_eq {P : Plat} {w : Nat} (hwl : w < P.wl → 2 * w ≤ P.wl)
    (hwll : w < P.wll → 2 * w ≤ P.wll) (cp : Constp) {a b : Int}
    (ha : InR false w a) (hb : InR false w b) :
    mulU_portable P w cp a b = .ok (builtinOvf false w (a * b)) := by
  unfold mulU_portable
  split
  · exact mulConstU_portable_eq _ ha hb
  · split
    · rw [mulConstU_portable_eq _ hb ha, Int.mul_comm]
    · split
      · rename_i h
        simp only [pure, Except.pure]
        rw [umul_widen (hwl h) ha hb, builtinOvf_unsigned, decide_ne_comm]
      · split
        · rename_i h
          simp only [pure, Except.pure]
          rw [umul_widen (hwll h) ha hb, builtinOvf_unsigned, decide_ne_comm]
        · exact mulConstU_portable_eq _ ha hb

end CyVerif.C04

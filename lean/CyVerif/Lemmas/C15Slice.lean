import CyVerif.Lemmas.C15Arith
/-! # C15 — `PySlice_AdjustIndices` characterisation and list lemmas for slices -/
namespace CyVerif.C15

variable {α : Type}

/-! ## the adjusted bounds -/

theorem adjBound_pos_range {len step b : Int} (hl : 0 ≤ len) (hs : 0 < step) :
    0 ≤ adjBound len step b ∧ adjBound len step b ≤ len := by
  unfold adjBound
  have : ¬ step < 0 := by omega
  simp only [this, if_false]
  split
  · split <;> omega
  · split <;> omega

theorem adjBound_neg_range {len step b : Int} (hl : 0 ≤ len) (hs : step < 0) :
    -1 ≤ adjBound len step b ∧ adjBound len step b ≤ len - 1 := by
  unfold adjBound
  simp only [hs, if_true]
  split
  · split <;> omega
  · split <;> omega

/-- the adjusted bound is the wrapped-once bound clamped into the admissible interval -/
theorem adjBound_pos_eq {len step b : Int} (hl : 0 ≤ len) (hs : 0 < step) :
    adjBound len step b = max 0 (min len (if b < 0 then b + len else b)) := by
  unfold adjBound
  have : ¬ step < 0 := by omega
  simp only [this, if_false]
  split
  · split <;> omega
  · split <;> omega

theorem adjBound_neg_eq {len step b : Int} (hl : 0 ≤ len) (hs : step < 0) :
    adjBound len step b = max (-1) (min (len - 1) (if b < 0 then b + len else b)) := by
  unfold adjBound
  simp only [hs, if_true]
  split
  · split <;> omega
  · split <;> omega

/-- clamping a bound to the `Py_ssize_t` range first (`_PyEval_SliceIndex`) changes nothing -/
theorem adjBound_clamp {sw : Nat} {len step b : Int} (hm : len ≤ ssMax sw) :
    adjBound len step (max (ssMin sw) (min (ssMax sw) b)) = adjBound len step b := by
  have hp := two_pow_pos (sw - 1)
  unfold ssMin ssMax at *
  generalize hc : max (-(2:Int) ^ (sw - 1)) (min (2 ^ (sw - 1) - 1) b) = c
  have hcc : (c = b) ∨ (2 ^ (sw - 1) - 1 < b ∧ c = 2 ^ (sw - 1) - 1) ∨ (b < -2 ^ (sw - 1) ∧ c = -2 ^ (sw - 1)) := by
    omega
  simp only [adjBound]
  rcases hcc with h | ⟨h1, h2⟩ | ⟨h1, h2⟩
  · rw [h]
  · by_cases hs : step < 0 <;> simp only [hs, if_true, if_false] <;>
      split <;> (try split) <;> split <;> (try split) <;> omega
  · by_cases hs : step < 0 <;> simp only [hs, if_true, if_false] <;>
      split <;> (try split) <;> split <;> (try split) <;> omega

/-! ## the slice length -/

theorem sliceLen_nonneg (a b step : Int) : 0 ≤ sliceLen a b step := by
  unfold sliceLen
  split
  · split
    · have := Int.ediv_nonneg (a := a - b - 1) (b := -step) (by omega) (by omega); omega
    · omega
  · split
    · by_cases hs : 0 ≤ step
      · have := Int.ediv_nonneg (a := b - a - 1) (b := step) (by omega) hs; omega
      · omega
    · omega

/-- positive step: `n` is the number of `a + i*step` strictly below `b` -/
theorem sliceLen_pos {a b step : Int} (hs : 0 < step) (hab : a < b) :
    1 ≤ sliceLen a b step ∧ a + (sliceLen a b step - 1) * step < b ∧ b ≤ a + sliceLen a b step * step := by
  have h1 : ¬ step < 0 := by omega
  simp only [sliceLen, h1, if_false, hab, if_true]
  have hq := Int.ediv_mul_le (b - a - 1) (b := step) (by omega)
  have hq2 := Int.lt_ediv_add_one_mul_self (b - a - 1) hs
  have hq0 := Int.ediv_nonneg (a := b - a - 1) (b := step) (by omega) (by omega)
  refine ⟨by omega, ?_, ?_⟩
  · have : (b - a - 1) / step + 1 - 1 = (b - a - 1) / step := by omega
    rw [this]; omega
  · omega

theorem sliceLen_pos_empty {a b step : Int} (hs : 0 < step) (hab : ¬ a < b) : sliceLen a b step = 0 := by
  have h1 : ¬ step < 0 := by omega
  simp [sliceLen, h1, hab]

/-- negative step: `n` is the number of `a + i*step` strictly above `b` -/
theorem sliceLen_neg {a b step : Int} (hs : step < 0) (hab : b < a) :
    1 ≤ sliceLen a b step ∧ b < a + (sliceLen a b step - 1) * step ∧ a + sliceLen a b step * step ≤ b := by
  simp only [sliceLen, hs, if_true, hab]
  have hq := Int.ediv_mul_le (a - b - 1) (b := -step) (by omega)
  have hq2 := Int.lt_ediv_add_one_mul_self (a - b - 1) (b := -step) (by omega)
  have hq0 := Int.ediv_nonneg (a := a - b - 1) (b := -step) (by omega) (by omega)
  have e1 : (a - b - 1) / -step * -step = -((a - b - 1) / -step * step) := by
    rw [Int.mul_neg]
  have e2 : ((a - b - 1) / -step + 1) * -step = -(((a - b - 1) / -step + 1) * step) := by
    rw [Int.mul_neg]
  rw [e1] at hq
  rw [e2] at hq2
  refine ⟨by omega, ?_, ?_⟩
  · have : (a - b - 1) / -step + 1 - 1 = (a - b - 1) / -step := by omega
    rw [this]; omega
  · omega

theorem sliceLen_neg_empty {a b step : Int} (hs : step < 0) (hab : ¬ b < a) : sliceLen a b step = 0 := by
  simp [sliceLen, hs, hab]

theorem sliceLen_one (a b : Int) : sliceLen a b 1 = if a < b then b - a else 0 := by
  simp only [sliceLen]
  have : ¬ (1 : Int) < 0 := by omega
  simp only [this, if_false, Int.ediv_one]
  split <;> omega

end CyVerif.C15

import CyVerif.Lemmas.C21Card
import CyVerif.Lemmas.C21Solve
/-! Termination of the solver model: outputs only grow, every dirty sweep adds a bit to some
output, and there are at most `blocks × bits` such additions. -/
namespace CyVerif.C21

/-- every bit number that occurs in the graph -/
def allBits (g : Graph) : List Nat := g.ubit ++ g.allEv.filterMap Ev.bit?

def mu (g : Graph) (sol : Sol) : Nat := sumTo (fun b => card (sol.o b)) g.blocks.length

theorem mem_transfer {g : Graph} {evs : List Ev} {s : List Nat} {x : Nat} :
    x ∈ transfer g evs s ↔ x ∈ iGen g evs ∨ (x ∈ s ∧ x ∉ iKill g evs) := by
  simp [transfer, mem_kill]

theorem transfer_mono {g : Graph} {evs : List Ev} {s s' : List Nat} (h : ∀ x ∈ s, x ∈ s') {x : Nat}
    (hx : x ∈ transfer g evs s) : x ∈ transfer g evs s' := by
  rcases mem_transfer.mp hx with h1 | ⟨h1, h2⟩
  · exact mem_transfer.mpr (Or.inl h1)
  · exact mem_transfer.mpr (Or.inr ⟨h _ h1, h2⟩)

theorem mask_sub_allBits {g : Graph} {v : Nat} (hv : v < g.nvars) {x : Nat} (hx : x ∈ g.mask v) :
    x ∈ allBits g := by
  simp only [Graph.mask, List.mem_cons, Graph.statBits, List.mem_filterMap] at hx
  simp only [allBits, List.mem_append, List.mem_filterMap]
  rcases hx with rfl | ⟨e, he, hb⟩
  · exact Or.inl (ubit_mem hv)
  · refine Or.inr ⟨e, he, ?_⟩
    by_cases hev : e.var = v
    · simpa [hev] using hb
    · simp [hev] at hb

theorem iGen_sub_allBits {g : Graph} {evs : List Ev} (hev : ∀ e ∈ evs, e ∈ g.allEv)
    (hvar : ∀ e ∈ g.allEv, e.var < g.nvars) {x : Nat} (hx : x ∈ iGen g evs) : x ∈ allBits g := by
  simp only [iGen, List.mem_map] at hx
  obtain ⟨v, hv, rfl⟩ := hx
  obtain ⟨e, he, _, hev'⟩ := mem_genVars.mp hv
  have hlt : v < g.nvars := hev' ▸ hvar e (hev e he)
  exact mask_sub_allBits hlt (lastFrom_mem_mask hev (ub_mem_mask g v))

/-- invariant of the whole iteration -/
structure TInv (g : Graph) (sol : Sol) : Prop where
  len_i : sol.inp.length = g.blocks.length
  len_o : sol.out.length = g.blocks.length
  inU : ∀ b x, x ∈ sol.o b → x ∈ allBits g
  mono : ∀ b, b < g.blocks.length → b ≠ g.entry → ∀ x ∈ sol.o b,
    x ∈ transfer g (g.ev b) ((parents g b).flatMap sol.o)

theorem flatMap_mono {sol sol' : Sol} (h : ∀ b x, x ∈ sol.o b → x ∈ sol'.o b) (ps : List Nat) {x : Nat}
    (hx : x ∈ ps.flatMap sol.o) : x ∈ ps.flatMap sol'.o := by
  obtain ⟨p, hp, hxp⟩ := List.mem_flatMap.mp hx
  exact List.mem_flatMap.mpr ⟨p, hp, h p x hxp⟩

theorem visit_o {g : Graph} {sol : Sol} {d : Bool} {b : Nat} (hlen : sol.out.length = g.blocks.length)
    (hb : b < g.blocks.length) (b' : Nat) :
    (visit g (sol, d) b).1.o b' =
      if b = b' then transfer g (g.ev b) (dedup ((parents g b).flatMap sol.o)) else sol.o b' := by
  by_cases h : b = b'
  · subst h
    simp only [visit, Sol.o, if_true]
    exact getD_set_same (by rw [hlen]; exact hb) _
  · simp only [visit, Sol.o, h, if_false]
    exact getD_set_ne h _

theorem visit_tinv {g : Graph} (hvar : ∀ e ∈ g.allEv, e.var < g.nvars) {sol : Sol} {d : Bool}
    (h : TInv g sol) {b : Nat} (hb : b < g.blocks.length) (hbe : b ≠ g.entry) :
    TInv g (visit g (sol, d) b).1 ∧ (∀ b' x, x ∈ sol.o b' → x ∈ (visit g (sol, d) b).1.o b') := by
  have hgrow : ∀ b' x, x ∈ sol.o b' → x ∈ (visit g (sol, d) b).1.o b' := by
    intro b' x hx
    rw [visit_o h.len_o hb]
    by_cases hbb : b = b'
    · subst hbb
      simp only [if_true]
      exact transfer_mono (fun y hy => mem_dedup.mpr hy) (h.mono b hb hbe x hx)
    · simpa [hbb] using hx
  refine ⟨⟨by simp [visit, h.len_i], by simp [visit, h.len_o], ?_, ?_⟩, hgrow⟩
  · intro b' x hx
    rw [visit_o h.len_o hb] at hx
    by_cases hbb : b = b'
    · simp only [hbb, if_true] at hx
      rcases mem_transfer.mp hx with h1 | ⟨h1, _⟩
      · exact iGen_sub_allBits (fun e he => ev_sub_allEv he) hvar h1
      · obtain ⟨p, _, hxp⟩ := List.mem_flatMap.mp (mem_dedup.mp h1)
        exact h.inU p x hxp
    · simp only [hbb, if_false] at hx
      exact h.inU b' x hx
  · intro b' hb' hbe' x hx
    rw [visit_o h.len_o hb] at hx
    by_cases hbb : b = b'
    · subst hbb
      simp only [if_true] at hx
      exact transfer_mono (fun y hy => flatMap_mono hgrow _ (mem_dedup.mp hy)) hx
    · simp only [hbb, if_false] at hx
      exact transfer_mono (fun y hy => flatMap_mono hgrow _ hy) (h.mono b' hb' hbe' x hx)

theorem visit_mu {g : Graph} (hvar : ∀ e ∈ g.allEv, e.var < g.nvars) {sol : Sol} {d : Bool}
    (h : TInv g sol) {b : Nat} (hb : b < g.blocks.length) (hbe : b ≠ g.entry) :
    mu g sol ≤ mu g (visit g (sol, d) b).1 ∧
    ((visit g (sol, d) b).2 = true → d = true ∨ mu g sol < mu g (visit g (sol, d) b).1) := by
  obtain ⟨_, hgrow⟩ := visit_tinv hvar (d := d) h hb hbe
  have hle : ∀ b', b' < g.blocks.length → card (sol.o b') ≤ card ((visit g (sol, d) b).1.o b') :=
    fun b' _ => card_le_of_sub (hgrow b')
  refine ⟨sumTo_le _ hle, fun hd => ?_⟩
  by_cases hd0 : d = true
  · exact Or.inl hd0
  · right
    have hd0' : d = false := by simpa using hd0
    have hneq : seteq (transfer g (g.ev b) (dedup ((parents g b).flatMap sol.o))) (sol.o b) = false := by
      simp only [visit, hd0', Bool.false_or, Bool.not_eq_true'] at hd
      exact hd
    -- old ⊆ new, so new has an element that old lacks
    have hsub : ∀ x ∈ sol.o b, x ∈ transfer g (g.ev b) (dedup ((parents g b).flatMap sol.o)) := by
      intro x hx
      have := hgrow b x hx
      rwa [visit_o h.len_o hb, if_pos rfl] at this
    have hex : ∃ y ∈ transfer g (g.ev b) (dedup ((parents g b).flatMap sol.o)), y ∉ sol.o b := by
      apply Classical.byContradiction
      intro hno
      have hall : ∀ y ∈ transfer g (g.ev b) (dedup ((parents g b).flatMap sol.o)), y ∈ sol.o b := by
        intro y hy
        apply Classical.byContradiction
        intro hny
        exact hno ⟨y, hy, hny⟩
      have : seteq (transfer g (g.ev b) (dedup ((parents g b).flatMap sol.o))) (sol.o b) = true :=
        seteq_iff.mpr (fun x => ⟨hall x, hsub x⟩)
      rw [this] at hneq
      cases hneq
    obtain ⟨y, hy, hyn⟩ := hex
    apply sumTo_lt _ hle hb
    have : (visit g (sol, d) b).1.o b = transfer g (g.ev b) (dedup ((parents g b).flatMap sol.o)) := by
      rw [visit_o h.len_o hb, if_pos rfl]
    rw [this]
    exact card_lt_of_ssub hsub hy hyn

theorem sweep_term {g : Graph} (hvar : ∀ e ∈ g.allEv, e.var < g.nvars) (order : List Nat)
    (hord : ∀ b ∈ order, b < g.blocks.length ∧ b ≠ g.entry) (sol : Sol) (d : Bool) (h : TInv g sol) :
    TInv g (order.foldl (visit g) (sol, d)).1 ∧ mu g sol ≤ mu g (order.foldl (visit g) (sol, d)).1 ∧
    ((order.foldl (visit g) (sol, d)).2 = true → d = true ∨ mu g sol < mu g (order.foldl (visit g) (sol, d)).1) := by
  induction order generalizing sol d with
  | nil => exact ⟨h, Nat.le_refl _, fun hd => Or.inl hd⟩
  | cons b rest ih =>
    obtain ⟨hb, hbe⟩ := hord b List.mem_cons_self
    obtain ⟨hinv1, _⟩ := visit_tinv hvar (d := d) h hb hbe
    obtain ⟨hmu1, hd1⟩ := visit_mu hvar (d := d) h hb hbe
    have hst : visit g (sol, d) b = ((visit g (sol, d) b).1, (visit g (sol, d) b).2) := rfl
    simp only [List.foldl_cons]
    rw [hst]
    obtain ⟨hinv2, hmu2, hd2⟩ := ih (fun x hx => hord x (List.mem_cons_of_mem _ hx)) _ (visit g (sol, d) b).2 hinv1
    refine ⟨hinv2, Nat.le_trans hmu1 hmu2, fun hd => ?_⟩
    rcases hd2 hd with h2 | h2
    · rcases hd1 h2 with h1 | h1
      · exact Or.inl h1
      · exact Or.inr (Nat.lt_of_lt_of_le h1 hmu2)
    · exact Or.inr (Nat.lt_of_le_of_lt hmu1 h2)

theorem mu_bound {g : Graph} {sol : Sol} (h : TInv g sol) : mu g sol ≤ g.blocks.length * card (allBits g) :=
  sumTo_bound _ _ (fun b _ => card_le_of_sub (h.inU b))

theorem solveLoop_terminates {g : Graph} (hvar : ∀ e ∈ g.allEv, e.var < g.nvars) (order : List Nat)
    (hord : ∀ b ∈ order, b < g.blocks.length ∧ b ≠ g.entry) (k : Nat) (sol : Sol) (h : TInv g sol)
    (hk : g.blocks.length * card (allBits g) - mu g sol < k) : ∃ sol', solveLoop g order k sol = some sol' := by
  induction k generalizing sol with
  | zero => omega
  | succ n ih =>
    simp only [solveLoop]
    obtain ⟨hinv, hmu, hd⟩ := sweep_term hvar order hord sol false h
    by_cases hdirty : (sweep g order sol).2 = true
    · simp only [hdirty, if_true]
      have hlt : mu g sol < mu g (sweep g order sol).1 := by
        rcases hd hdirty with h0 | h0
        · cases h0
        · exact h0
      have hb := mu_bound hinv
      exact ih _ hinv (by unfold sweep at *; omega)
    · simp only [hdirty, Bool.false_eq_true, if_false]
      exact ⟨_, rfl⟩

theorem initSol_o {g : Graph} {b : Nat} (hb : b < g.blocks.length) :
    (initSol g).o b = if b = g.entry then allUninit g else iGen g (g.ev b) := by
  simp only [initSol, Sol.o]
  rw [List.getD_eq_getElem?_getD, List.getElem?_map, List.getElem?_range hb]
  simp

theorem initSol_tinv {g : Graph} (hvar : ∀ e ∈ g.allEv, e.var < g.nvars) : TInv g (initSol g) := by
  refine ⟨by simp [initSol], by simp [initSol], ?_, ?_⟩
  · intro b x hx
    by_cases hb : b < g.blocks.length
    · rw [initSol_o hb] at hx
      by_cases hbe : b = g.entry
      · simp only [hbe, if_true, allUninit] at hx
        exact List.mem_append.mpr (Or.inl hx)
      · simp only [hbe, if_false] at hx
        exact iGen_sub_allBits (fun e he => ev_sub_allEv he) hvar hx
    · simp only [initSol, Sol.o] at hx
      rw [List.getD_eq_getElem?_getD, List.getElem?_eq_none (by simp; omega)] at hx
      cases hx
  · intro b hb hbe x hx
    rw [initSol_o hb, if_neg hbe] at hx
    exact mem_transfer.mpr (Or.inl hx)

end CyVerif.C21

import CyVerif.Lemmas.C10EscText4
/-! Assembly: one round of Cython's loop on a text literal = one CPython decoder step
(everything except the brace runs of f-strings). -/
namespace CyVerif.C10

/-- G: an unrecognised escape keeps its backslash -/
theorem text_default (P : LexP) (lk : Lookup) (k : Kind) (hk : k.isText = true) (fstr : Bool) (d : Nat)
    (hoct : isOct d = false)
    (hd : d ≠ 78 ∧ d ≠ 117 ∧ d ≠ 120 ∧ d ≠ 85 ∧ d ≠ 10 ∧ d ≠ 92 ∧ d ≠ 39 ∧ d ≠ 34 ∧ d ≠ 97 ∧ d ≠ 98 ∧ d ≠ 102 ∧
      d ≠ 110 ∧ d ≠ 114 ∧ d ≠ 116 ∧ d ≠ 118)
    (t : List Nat) (ch1 : Chunk)
    (hs : appendEsc P lk k (92 :: (d :: t).take (escLen P (d :: t))) = .ok ch1) :
    refStep lk fstr (92 :: d :: t) = (.ok ch1.us, (d :: t).drop (escLen P (d :: t))) := by
  obtain ⟨h1, h2, h3, h4, h5, h6, h7, h8, h9, h10, h11, h12, h13, h14, h15⟩ := hd
  have hlen : escLen P (d :: t) = 0 := by
    simp [escLen, hoct, h1, h2, h3, h4, h5, h6, h7, h8, h9, h10, h11, h12, h13, h14, h15, simpleSet]
  rw [hlen] at hs ⊢
  simp only [List.take_zero, List.drop_zero] at hs ⊢
  rw [appendEsc_one] at hs
  have hus := (chStr_ok k _ false ch1 hs).1
  rw [hasText_of_isText k hk] at hus
  rw [refStep_bs, if_neg h5, refSimple_none d ⟨h6, h7, h8, h10, h11, h14, h12, h13, h15, h9⟩]
  simp [hoct, h1, h2, h3, h4, hus]

theorem text_step_sync (P : LexP) (hP : P.WF) (lk : Lookup) (hlk : lk [] = .missing) (k : Kind)
    (hk : k.isText = true) (c : Nat) (rest : List Nat) (ch1 : Chunk) (rest1 : List Nat)
    (hnb : ¬ (k = .f ∧ (c = 123 ∨ c = 125)))
    (hs : cyStep P lk k false (c :: rest) = (.ok ch1, rest1)) (hg : ch1.nonfatal = false) :
    refStep lk (decide (k = .f)) (c :: rest) = (.ok ch1.us, rest1) := by
  by_cases h92 : c = 92
  · subst h92
    cases rest with
    | nil => simp [cyStep] at hs
    | cons d t =>
      rw [cyStep_bs] at hs
      injection hs with hs1 hs2
      subst hs2
      by_cases hoct : isOct d = true
      · exact text_oct P lk k hk _ d t hoct ch1 hs1
      · have hoct' : isOct d = false := by simpa using hoct
        by_cases h78 : d = 78
        · subst h78; exact text_name P hP lk hlk k hk _ t ch1 hs1 hg
        by_cases h117 : d = 117
        · subst h117; exact text_hex_uU P lk k hk _ 117 3 (Or.inl ⟨rfl, rfl⟩) t ch1 hs1 hg
        by_cases h85 : d = 85
        · subst h85; exact text_hex_uU P lk k hk _ 85 7 (Or.inr ⟨rfl, rfl⟩) t ch1 hs1 hg
        by_cases h120 : d = 120
        · subst h120; exact text_hex_x P lk k hk _ t ch1 hs1 hg
        by_cases hsimple : d = 10 ∨ d = 92 ∨ d = 39 ∨ d = 34 ∨ d = 97 ∨ d = 98 ∨ d = 102 ∨ d = 110 ∨ d = 114 ∨
            d = 116 ∨ d = 118
        · exact text_simple P lk k hk _ d hsimple t ch1 hs1
        · exact text_default P lk k hk _ d hoct' (by omega) t ch1 hs1
  · have hb : ¬ (k = .f ∧ (c = 123 ∨ c = 125)) := hnb
    simp only [cyStep, h92, if_false, hb] at hs
    injection hs with hs1 hs2
    subst hs2
    have hus := (chStr_ok k _ true ch1 hs1).1
    rw [hasText_of_isText k hk] at hus
    have hb' : ¬ (decide (k = .f) = true ∧ (c = 123 ∨ c = 125)) := by simpa using hnb
    simp only [refStep, ne_eq, h92, not_false_eq_true, if_true, hb', if_false, hus]

end CyVerif.C10

import CyVerif.Lemmas.C43
/-! C43: forward simulation CPython tokenizer ⟶ Cython layout scanner for uniformly indented input. -/
namespace CyVerif.C43

/-- column weight of the indentation character in CPython (`tabsize` 8, space 1) -/
def kOf : Ws → Nat
  | .tab => 8
  | _ => 1

theorem kOf_pos (c : Ws) : 0 < kOf c := by cases c <;> decide

/-- every leading white-space run consists of the one character `c` -/
def UniformLine (c : Ws) (l : PLine) : Prop := l.ws = List.replicate l.ws.length c
/-- no physical line consists of white space and a backslash only -/
def NoBareContLine (l : PLine) : Prop := l.body = [] → (l.fin = .nl ∨ l.fin = .cnl)

theorem pyCols_sp (n : Nat) : ∀ a b, pyCols a b (List.replicate n .sp) = (a + n, b + n) := by
  induction n with
  | zero => intro a b; simp [pyCols]
  | succ n ih => intro a b; simp only [List.replicate_succ, pyCols, ih]; simp; omega

theorem pyCols_tab (n : Nat) : ∀ m b, pyCols (8 * m) b (List.replicate n .tab) = (8 * (m + n), b + n) := by
  induction n with
  | zero => intro m b; simp [pyCols]
  | succ n ih =>
    intro m b
    have e : (8 * m / 8 + 1) * 8 = 8 * (m + 1) := by omega
    simp only [List.replicate_succ, pyCols, e, ih]; simp; omega

theorem pyCols_uniform (c : Ws) (hc : c ≠ .ff) (n : Nat) :
    pyCols 0 0 (List.replicate n c) = (kOf c * n, n) := by
  cases c with
  | sp => simpa [kOf] using pyCols_sp n 0 0
  | tab => simpa [kOf] using pyCols_tab n 0 0
  | ff => exact absurd rfl hc

theorem indentText_uniform (c : Ws) (hc : c ≠ .ff) (n : Nat) :
    indentText (List.replicate n c) = List.replicate n c := by
  induction n with
  | zero => simp [indentText]
  | succ n ih => cases c <;> simp_all [List.replicate_succ, indentText]

theorem all_replicate (c : Ws) (n : Nat) : (List.replicate n c).all (· == c) = true := by
  induction n with
  | zero => rfl
  | succ n ih => simp [List.replicate_succ, ih]

theorem cyCheck_uniform (c : Ws) (n : Nat) (ic : Option Ws) (h : ic = none ∨ ic = some c) :
    ∃ ic', cyCheck ic (List.replicate n c) = some ic' ∧ (ic' = none ∨ ic' = some c) := by
  cases n with
  | zero => exact ⟨ic, by simp [cyCheck], h⟩
  | succ n =>
    refine ⟨some c, ?_, Or.inr rfl⟩
    have ha := all_replicate c (n + 1)
    rw [List.replicate_succ] at ha
    rcases h with h | h <;> simp [cyCheck, List.replicate_succ, h, ha]

/-- the CPython pair stack that corresponds to a Cython level stack -/
def liftStack (c : Ws) (s : List Nat) : List (Nat × Nat) := s.map (fun l => (kOf c * l, l))

theorem pop_sim (c : Ws) (n : Nat) : ∀ (s : List Nat), wfStack s → ∀ k top r,
    cyPop n s = some (k, top :: r) → pyPop (kOf c * n) (liftStack c s) = (k, liftStack c (top :: r))
  | [], h, _, _, _, _ => absurd h (by simp [wfStack])
  | [x], h, k, top, r, hp => by
    have hx : x = 0 := h
    subst hx
    simp [cyPop] at hp
    obtain ⟨rfl, rfl, rfl⟩ := hp
    simp [liftStack, pyPop]
  | x :: y :: s, h, k, top, r, hp => by
    rw [cyPop] at hp
    by_cases hlt : n < x
    · rw [if_pos hlt] at hp
      cases hq : cyPop n (y :: s) with
      | none => rw [hq] at hp; simp at hp
      | some q =>
        obtain ⟨k', s'⟩ := q
        rw [hq] at hp
        simp at hp
        obtain ⟨rfl, rfl⟩ := hp
        have ih := pop_sim c n (y :: s) h.2 k' top r hq
        have hl : kOf c * n < kOf c * x := Nat.mul_lt_mul_of_pos_left hlt (kOf_pos c)
        simp only [liftStack, List.map_cons] at ih ⊢
        rw [pyPop]
        · simp [hl, ih]
        · simp
    · rw [if_neg hlt] at hp
      simp at hp
      obtain ⟨rfl, rfl, rfl⟩ := hp
      have hl : ¬ kOf c * n < kOf c * x := by
        intro hh; exact hlt (Nat.lt_of_mul_lt_mul_left hh)
      simp only [liftStack, List.map_cons]
      rw [pyPop]
      · simp [hl]
      · simp

theorem pyBody_delta (L : Limits) : ∀ (b : List Tok) (ps ps' : List BK), pyBody L ps b = .ok ps' →
    (ps'.length : Int) = ps.length + bodyDelta b
  | [], ps, ps', h => by simp [pyBody] at h; subst h; simp [bodyDelta]
  | .other :: r, ps, ps', h => by
    simp only [pyBody] at h
    have := pyBody_delta L r ps ps' h
    simp [bodyDelta, tokDelta, this]
  | .op k :: r, ps, ps', h => by
    simp only [pyBody] at h
    by_cases hl : ps.length ≥ L.maxLevel
    · rw [if_pos hl] at h; cases h
    · rw [if_neg hl] at h
      have := pyBody_delta L r (k :: ps) ps' h
      simp [bodyDelta, tokDelta, this]; omega
  | .cl k :: r, [], ps', h => by simp [pyBody] at h
  | .cl k :: r, p :: ps, ps', h => by
    simp only [pyBody] at h
    by_cases hp : p = k
    · rw [if_pos hp] at h
      have := pyBody_delta L r ps ps' h
      simp [bodyDelta, tokDelta, this]; omega
    · rw [if_neg hp] at h; cases h

/-- simulation relation at physical-line boundaries -/
structure Sim (c : Ws) (py : PySt) (cy : CySt) : Prop where
  wf : wfStack cy.stack
  mode : (py.bol = true ∧ cy.mode = .bol) ∨ (py.bol = false ∧ cy.mode = .mid)
  col : py.col = 0
  alt : py.alt = 0
  cont : py.cont = 0
  pend : py.pend = false
  ind : py.ind = liftStack c cy.stack
  nest : cy.nest = py.parens.length
  ich : cy.ichar = none ∨ cy.ichar = some c

theorem indent_sim (L : Limits) (c : Ws) (py : PySt) (cy : CySt) (n : Nat)
    (hs : Sim c py cy) (t : List Out) (py' : PySt) (h : pyIndent L py (kOf c * n) n = .ok (t, py')) :
    ∃ cy', cyIndent cy (List.replicate n c) = .ok (t, cy') ∧ wfStack cy'.stack ∧ cy'.mode = cy.mode
      ∧ cy'.nest = cy.nest ∧ (cy'.ichar = none ∨ cy'.ichar = some c)
      ∧ py' = { py with ind := liftStack c cy'.stack } := by
  obtain ⟨cur, rest, hst⟩ : ∃ cur rest, cy.stack = cur :: rest := by
    cases hst : cy.stack with
    | nil => have := hs.wf; rw [hst] at this; exact absurd this (by simp [wfStack])
    | cons a b => exact ⟨a, b, rfl⟩
  have hind : py.ind = (kOf c * cur, cur) :: liftStack c rest := by
    rw [hs.ind, hst]; rfl
  obtain ⟨ic', hck, hic'⟩ := cyCheck_uniform c n cy.ichar hs.ich
  have hwf : wfStack (cur :: rest) := hst ▸ hs.wf
  unfold pyIndent at h
  rw [hind] at h
  simp only [] at h
  unfold cyIndent
  rw [hck]
  simp only [hst, List.length_replicate]
  by_cases h1 : n = cur
  · subst h1
    simp at h
    obtain ⟨rfl, rfl⟩ := h
    exact ⟨{ cy with ichar := ic', stack := n :: rest }, by simp, hwf, rfl, rfl, hic', by
      cases py; simp_all [liftStack]⟩
  · have hne : ¬ kOf c * n = kOf c * cur := fun hh => h1 (Nat.eq_of_mul_eq_mul_left (kOf_pos c) hh)
    by_cases h2 : n > cur
    · have hgt : kOf c * n > kOf c * cur := Nat.mul_lt_mul_of_pos_left h2 (kOf_pos c)
      have hle : ¬ n ≤ cur := by omega
      simp only [hne, if_false, hgt, if_true, hle] at h
      by_cases hd : ((kOf c * cur, cur) :: liftStack c rest).length ≥ L.maxIndent
      · rw [if_pos hd] at h; cases h
      · rw [if_neg hd] at h
        simp at h
        obtain ⟨rfl, rfl⟩ := h
        refine ⟨{ cy with ichar := ic', stack := n :: cur :: rest }, by simp [h1, h2], ⟨h2, hwf⟩, rfl, rfl, hic', ?_⟩
        simp [liftStack, hind, hst]
    · have hngt : ¬ kOf c * n > kOf c * cur := by
        intro hh; exact h2 (Nat.lt_of_mul_lt_mul_left hh)
      simp only [hne, if_false, hngt] at h
      obtain ⟨k, top, r, hp, hw, _, _⟩ := cyPop_wf n (cur :: rest) hwf
      have hpy := pop_sim c n (cur :: rest) hwf k top r hp
      have e : (kOf c * cur, cur) :: liftStack c rest = liftStack c (cur :: rest) := rfl
      rw [e, hpy] at h
      simp only [liftStack, List.map_cons] at h
      by_cases h3 : kOf c * n ≠ kOf c * top
      · rw [if_pos h3] at h; cases h
      · rw [if_neg h3] at h
        have h3' : n = top := Nat.eq_of_mul_eq_mul_left (kOf_pos c) (by simpa using h3)
        subst h3'
        simp at h
        obtain ⟨rfl, rfl⟩ := h
        have h2' : ¬ cur < n := h2
        refine ⟨{ cy with ichar := ic', stack := n :: r }, by simp [h1, h2', hp], hw, rfl, rfl, hic', ?_⟩
        simp [liftStack]

theorem fin_sim (c : Ws) (py2 : PySt) (cy2 : CySt) (toks : List Out) (f : Fin)
    (hwf : wfStack cy2.stack) (hind : py2.ind = liftStack c cy2.stack)
    (hn : cy2.nest = py2.parens.length) (hich : cy2.ichar = none ∨ cy2.ichar = some c)
    (t : List Out) (py' : PySt) (h : pyFin py2 toks f = .ok (t, py')) :
    ∃ cy', cyFin cy2 toks f = .ok (t, cy') ∧ Sim c py' cy' := by
  cases f with
  | bsEof => simp [pyFin] at h
  | bs =>
    simp [pyFin] at h
    obtain ⟨rfl, rfl⟩ := h
    exact ⟨{ cy2 with mode := .mid }, rfl,
      ⟨hwf, Or.inr ⟨rfl, rfl⟩, rfl, rfl, rfl, rfl, hind, hn, hich⟩⟩
  | nl =>
    simp only [pyFin] at h
    cases hp : py2.parens with
    | nil =>
      simp [hp] at h
      obtain ⟨rfl, rfl⟩ := h
      have h0 : cy2.nest = 0 := by rw [hn, hp]; rfl
      exact ⟨{ cy2 with mode := .bol }, by simp [cyFin, h0],
        ⟨hwf, Or.inl ⟨rfl, rfl⟩, rfl, rfl, rfl, rfl, hind, by simpa [pyReset] using hn, hich⟩⟩
    | cons p ps =>
      simp [hp] at h
      obtain ⟨rfl, rfl⟩ := h
      have h0 : cy2.nest ≠ 0 := by rw [hn, hp]; simp; omega
      exact ⟨{ cy2 with mode := .mid }, by simp [cyFin, h0],
        ⟨hwf, Or.inr ⟨rfl, rfl⟩, rfl, rfl, rfl, rfl, hind, by simpa [pyReset] using hn, hich⟩⟩
  | cnl =>
    simp only [pyFin] at h
    cases hp : py2.parens with
    | nil =>
      simp [hp] at h
      obtain ⟨rfl, rfl⟩ := h
      have h0 : cy2.nest = 0 := by rw [hn, hp]; rfl
      exact ⟨{ cy2 with mode := .bol }, by simp [cyFin, h0],
        ⟨hwf, Or.inl ⟨rfl, rfl⟩, rfl, rfl, rfl, rfl, hind, by simpa [pyReset] using hn, hich⟩⟩
    | cons p ps =>
      simp [hp] at h
      obtain ⟨rfl, rfl⟩ := h
      have h0 : cy2.nest ≠ 0 := by rw [hn, hp]; simp; omega
      exact ⟨{ cy2 with mode := .mid }, by simp [cyFin, h0],
        ⟨hwf, Or.inr ⟨rfl, rfl⟩, rfl, rfl, rfl, rfl, hind, by simpa [pyReset] using hn, hich⟩⟩

theorem rest_sim (L : Limits) (c : Ws) (py1 : PySt) (cy1 : CySt) (pre : List Out) (l : PLine)
    (hwf : wfStack cy1.stack) (hind : py1.ind = liftStack c cy1.stack)
    (hn : cy1.nest = py1.parens.length) (hich : cy1.ichar = none ∨ cy1.ichar = some c)
    (t : List Out) (py' : PySt) (h : pyRest L py1 pre l = .ok (t, py')) :
    ∃ cy', cyFin { cy1 with nest := cy1.nest + bodyDelta l.body, mode := .mid } (pre ++ l.body.map .tok) l.fin
        = .ok (t, cy') ∧ Sim c py' cy' := by
  unfold pyRest at h
  cases hb : pyBody L py1.parens l.body with
  | error m => rw [hb] at h; cases h
  | ok ps =>
    rw [hb] at h
    simp only [] at h
    have hd := pyBody_delta L l.body py1.parens ps hb
    exact fin_sim c { py1 with parens := ps } { cy1 with nest := cy1.nest + bodyDelta l.body, mode := .mid } _ l.fin
      hwf hind (by show cy1.nest + bodyDelta l.body = (ps.length : Int); rw [hn, hd]) hich t py' h

theorem line_sim (L : Limits) (c : Ws) (hc : c ≠ .ff) (py : PySt) (cy : CySt) (l : PLine)
    (hu : UniformLine c l) (hb : NoBareContLine l) (hs : Sim c py cy)
    (t : List Out) (py' : PySt) (h : pyLine L py l = .ok (t, py')) :
    ∃ cy', cyLine cy l = .ok (t, cy') ∧ Sim c py' cy' := by
  unfold pyLine at h
  unfold cyLine
  rcases hs.mode with ⟨hbol, hmode⟩ | ⟨hbol, hmode⟩
  · rw [hbol] at h
    simp only [if_true] at h
    rw [hs.col, hs.alt, hu, pyCols_uniform c hc] at h
    cases hbody : l.body with
    | nil =>
      have hfin := hb hbody
      have hblank : isBlank l = true := by
        rcases hfin with hf | hf <;> simp [isBlank, hbody, hf]
      simp only [hbody, List.isEmpty_nil, if_true] at h
      have : t = [] ∧ py' = pyReset py := by
        rcases hfin with hf | hf <;> rw [hf] at h <;> simp at h <;> obtain ⟨h1, h2⟩ := h <;>
          exact ⟨by first | exact h1 | exact h1.symm, by first | exact h2 | exact h2.symm⟩
      obtain ⟨rfl, rfl⟩ := this
      refine ⟨cy, by simp [hmode, hblank], ⟨hs.wf, Or.inl ⟨hbol, hmode⟩, rfl, rfl, rfl, rfl, hs.ind, hs.nest, hs.ich⟩⟩
    | cons b bs =>
      have hnb : isBlank l = false := by simp [isBlank, hbody]
      simp only [hbody, List.isEmpty_cons, hs.cont] at h
      simp only [ne_eq, not_true_eq_false, if_false, Bool.false_eq_true] at h
      cases hi : pyIndent L py (kOf c * l.ws.length) l.ws.length with
      | error m => rw [hi] at h; cases h
      | ok r =>
        obtain ⟨pre, py1⟩ := r
        rw [hi] at h
        simp only [] at h
        obtain ⟨cy1, hci, hwf1, hm1, hn1, hic1, hpy1⟩ := indent_sim L c py cy l.ws.length hs pre py1 hi
        have hit : indentText l.ws = List.replicate l.ws.length c := by
          rw [hu, indentText_uniform c hc]; simp
        simp only [hmode, hnb, Bool.false_eq_true, and_false, if_false, if_true, hit, hci]
        have hrest := rest_sim L c py1 cy1 pre l hwf1 (by rw [hpy1]) (by rw [hn1, hs.nest, hpy1]) hic1 t py' h
        rw [← hbody]
        exact hrest
  · rw [hbol] at h
    simp only [Bool.false_eq_true, if_false] at h
    have hne : ¬ (cy.mode = Mode.bol ∧ isBlank l = true) := by rw [hmode]; simp
    have hne2 : ¬ (cy.mode = Mode.bol) := by rw [hmode]; simp
    simp only [hne, hne2, if_false]
    have hrest := rest_sim L c py cy [] l hs.wf hs.ind hs.nest hs.ich t py' h
    exact hrest

theorem run_sim (L : Limits) (c : Ws) (hc : c ≠ .ff) : ∀ (ls : List PLine) (py : PySt) (cy : CySt) (n : Nat),
    (∀ l ∈ ls, UniformLine c l) → (∀ l ∈ ls, NoBareContLine l) → Sim c py cy →
    ∀ t py', pyRun L py n ls = .ok (t, py') → ∃ cy', cyRun cy n ls = .ok (t, cy') ∧ Sim c py' cy'
  | [], py, cy, n, _, _, hs, t, py', h => by
    simp [pyRun] at h
    obtain ⟨rfl, rfl⟩ := h
    exact ⟨cy, rfl, hs⟩
  | l :: ls, py, cy, n, hu, hb, hs, t, py', h => by
    unfold pyRun at h
    cases hl : pyLine L py l with
    | error m => rw [hl] at h; cases h
    | ok r =>
      obtain ⟨t1, py1⟩ := r
      rw [hl] at h
      simp only [] at h
      cases hr : pyRun L py1 (n + 1) ls with
      | error e => rw [hr] at h; cases h
      | ok r2 =>
        obtain ⟨t2, py2⟩ := r2
        rw [hr] at h
        simp at h
        obtain ⟨rfl, rfl⟩ := h
        obtain ⟨cy1, hc1, hs1⟩ := line_sim L c hc py cy l (hu l (by simp)) (hb l (by simp)) hs t1 py1 hl
        obtain ⟨cy2, hc2, hs2⟩ := run_sim L c hc ls py1 cy1 (n + 1) (fun x hx => hu x (by simp [hx]))
          (fun x hx => hb x (by simp [hx])) hs1 t2 py2 hr
        exact ⟨cy2, by unfold cyRun; rw [hc1]; simp only []; rw [hc2], hs2⟩

end CyVerif.C43

import CyVerif.Model.C48
namespace CyVerif.C48

theorem split_at_first {α} [DecidableEq α] (x : α) :
    ∀ (a a' b b' : List α), a ++ x :: b = a' ++ x :: b' → x ∉ a → x ∉ a' → a = a' ∧ b = b'
  | [], [], b, b', h, _, _ => by simp at h; exact ⟨rfl, h⟩
  | [], y :: a', b, b', h, _, h2 => by
    simp at h; exact absurd h.1 (fun e => h2 (by simp [e]))
  | y :: a, [], b, b', h, h1, _ => by
    simp at h; exact absurd h.1.symm (fun e => h1 (by simp [e]))
  | y :: a, z :: a', b, b', h, h1, h2 => by
    simp only [List.cons_append, List.cons.injEq] at h
    have := split_at_first x a a' b b' h.2 (fun m => h1 (by simp [m])) (fun m => h2 (by simp [m]))
    exact ⟨by rw [h.1, this.1], this.2⟩

theorem fileHash_inj {H : Str → Str} {dec : Nat → Str} (hH : HashOK H) (hd : DecOK dec) (f f' : File)
    (h : fileHash H dec f = fileHash H dec f') : f = f' := by
  have h1 := hH.inj _ _ h
  simp only [List.append_assoc] at h1
  have h2 := split_at_first ':' _ _ _ _ h1 (hd.nocolon _) (hd.nocolon _)
  have hl := hd.inj _ _ h2.1
  have h3 := List.append_inj h2.2 hl
  cases f; cases f'; simp_all

theorem map_fileHash_inj {H : Str → Str} {dec : Nat → Str} (hH : HashOK H) (hd : DecOK dec) :
    ∀ (l l' : List File), l.map (fileHash H dec) = l'.map (fileHash H dec) → l = l'
  | [], [], _ => rfl
  | [], _ :: _, h => by simp at h
  | _ :: _, [], h => by simp at h
  | a :: l, b :: l', h => by
    simp only [List.map_cons, List.cons.injEq] at h
    rw [fileHash_inj hH hd a b h.1, map_fileHash_inj hH hd l l' h.2]

/-- a run of 64-character hex blocks followed by text that starts with a non-hex character can be
split in only one way -/
theorem hexrun_inj :
    ∀ (hs hs' : List Str) (t t' : Str),
      (∀ h ∈ hs, h.length = 64 ∧ ∀ c ∈ h, isHexChar c = true) →
      (∀ h ∈ hs', h.length = 64 ∧ ∀ c ∈ h, isHexChar c = true) →
      (∃ c r, t = c :: r ∧ isHexChar c = false) → (∃ c r, t' = c :: r ∧ isHexChar c = false) →
      hs.flatten ++ t = hs'.flatten ++ t' → hs = hs' ∧ t = t'
  | [], [], t, t', _, _, _, _, h => by simpa using h
  | [], h' :: hs', t, t', _, hb', ht, _, h => by
    obtain ⟨c, r, rfl, hc⟩ := ht
    have hh := hb' h' (by simp)
    cases h' with
    | nil => simp at hh
    | cons d ds =>
      simp only [List.flatten_nil, List.nil_append, List.flatten_cons, List.cons_append, List.cons.injEq] at h
      have := hh.2 d (by simp)
      rw [← h.1] at this; rw [this] at hc; cases hc
  | h0 :: hs, [], t, t', hb, _, _, ht', h => by
    obtain ⟨c, r, rfl, hc⟩ := ht'
    have hh := hb h0 (by simp)
    cases h0 with
    | nil => simp at hh
    | cons d ds =>
      simp only [List.flatten_nil, List.nil_append, List.flatten_cons, List.cons_append, List.cons.injEq] at h
      have := hh.2 d (by simp)
      rw [h.1] at this; rw [this] at hc; cases hc
  | h0 :: hs, h0' :: hs', t, t', hb, hb', ht, ht', h => by
    simp only [List.flatten_cons, List.append_assoc] at h
    have hl : h0.length = h0'.length := by rw [(hb h0 (by simp)).1, (hb' h0' (by simp)).1]
    have h2 := List.append_inj h hl
    have := hexrun_inj hs hs' t t' (fun x hx => hb x (by simp [hx])) (fun x hx => hb' x (by simp [hx])) ht ht' h2.2
    exact ⟨by rw [h2.1, this.1], this.2⟩

theorem mem_allFlags (f : Flags) : f ∈ allFlags := by
  obtain ⟨l, a, b⟩ := f
  rcases l with _ | (_ | _) <;> cases a <;> cases b <;> decide

theorem flags_render_prefix_free :
    ∀ f ∈ allFlags, ∀ f' ∈ allFlags, (f.render <+: f'.render) → f = f' := by decide

theorem flags_render_inj (f f' : Flags) (t t' : Str) (h : f.render ++ t = f'.render ++ t') :
    f = f' ∧ t = t' := by
  have hp : f.render <+: f'.render ∨ f'.render <+: f.render :=
    List.prefix_or_prefix_of_prefix (l₃ := f.render ++ t) (List.prefix_append _ _) (h ▸ List.prefix_append _ _)
  have hf : f = f' := by
    rcases hp with hp | hp
    · exact flags_render_prefix_free f (mem_allFlags f) f' (mem_allFlags f') hp
    · exact (flags_render_prefix_free f' (mem_allFlags f') f (mem_allFlags f) hp).symm
  subst hf
  exact ⟨rfl, List.append_cancel_left h⟩

theorem flags_render_head (f : Flags) (t : Str) : ∃ c r, f.render ++ t = c :: r ∧ isHexChar c = false := by
  refine ⟨'(', f.render.tail ++ t, ?_, by decide⟩
  obtain ⟨l, a, b⟩ := f
  rcases l with _ | (_ | _) <;> cases a <;> cases b <;> rfl

theorem optionsFp_keys (excluded : Nat → Bool) (univ : List Nat) (o : Options) :
    ∀ p ∈ optionsFp excluded univ o, p.1 ∈ univ := by
  intro p hp
  simp only [optionsFp, List.mem_filterMap] at hp
  obtain ⟨k, hk, hv⟩ := hp
  split at hv
  · cases hv
  · cases h : o.value k <;> simp [h] at hv
    subst hv; exact hk

theorem optionsFp_agree (excluded : Nat → Bool) :
    ∀ (univ : List Nat), univ.Nodup → ∀ (o o' : Options),
      optionsFp excluded univ o = optionsFp excluded univ o' →
      ∀ k ∈ univ, excluded k = false → o.value k = o'.value k
  | [], _, _, _, _, k, hk, _ => by simp at hk
  | a :: univ, hnd, o, o', h, k, hk, hex => by
    have hnd' := (List.nodup_cons.1 hnd)
    have hfk := optionsFp_keys excluded univ
    simp only [optionsFp, List.filterMap_cons] at h
    by_cases hea : excluded a = true
    · simp only [hea, if_true] at h
      rcases List.mem_cons.1 hk with rfl | hk'
      · rw [hea] at hex; cases hex
      · exact optionsFp_agree excluded univ hnd'.2 o o' h k hk' hex
    · have hea' : excluded a = false := by simpa using hea
      simp only [hea', Bool.false_eq_true, if_false] at h
      have key : o.value a = o'.value a ∧
          optionsFp excluded univ o = optionsFp excluded univ o' := by
        cases h1 : o.value a <;> cases h2 : o'.value a <;> simp only [h1, h2, Option.map_none, Option.map_some] at h
        · exact ⟨rfl, h⟩
        · rename_i w
          exfalso
          have : (a, w) ∈ optionsFp excluded univ o := by
            unfold optionsFp; rw [h]; exact List.mem_cons_self
          exact hnd'.1 (hfk o _ this)
        · rename_i w
          exfalso
          have : (a, w) ∈ optionsFp excluded univ o' := by
            unfold optionsFp; rw [← h]; exact List.mem_cons_self
          exact hnd'.1 (hfk o' _ this)
        · simp only [List.cons.injEq, Prod.mk.injEq, true_and] at h
          exact ⟨by rw [h.1], h.2⟩
      rcases List.mem_cons.1 hk with rfl | hk'
      · exact key.1
      · exact optionsFp_agree excluded univ hnd'.2 o o' key.2 k hk' hex

end CyVerif.C48

import CyVerif.Lemmas.C50Closure
/-! Subset construction, part A: the merged transition map of a set of NFA states. -/
namespace CyVerif.C50
open CyVerif.C46 (Reach)

/-- NFA transition relation on one input symbol -/
def NFA.delta (n : NFA) (s : Nat) : CurChar → SSet
  | .chr c => (n.node s).trans.lookup c
  | .bol => (n.node s).trans.lookupSp .bol
  | .eol => (n.node s).trans.lookupSp .eol
  | .eof => (n.node s).trans.lookupSp .eof
  | .empty => []

/-- every node carries a well-formed transition map -/
def NFA.WF (n : NFA) : Prop := ∀ nd ∈ n.nodes, nd.trans.WF

theorem NFA.node_wf {n : NFA} (h : n.WF) (s : Nat) : (n.node s).trans.WF := by
  unfold NFA.node
  cases hs : n.nodes[s]? with
  | none => exact TMap.empty_wf
  | some nd => exact h nd (List.mem_of_getElem? hs)

theorem TMap.interval_exists {m : TMap} (h : m.WF) {c : Int} (h1 : -maxint ≤ c) (h2 : c < maxint) :
    ∃ k, k < m.ents.length ∧ m.codeAt k ≤ c ∧ c < m.codeAt (k + 1) := by
  have hn : 0 < m.ents.length := List.length_pos_iff.2 h.ne
  -- the largest index whose code is ≤ c, found by induction on the distance to the end
  have key : ∀ d k, k + d = m.ents.length → k < m.ents.length → m.codeAt k ≤ c →
      ∃ k', k' < m.ents.length ∧ m.codeAt k' ≤ c ∧ c < m.codeAt (k' + 1) := by
    intro d
    induction d with
    | zero => intro k hk hlt _; omega
    | succ d ih =>
      intro k hk hlt hc
      by_cases hnext : c < m.codeAt (k + 1)
      · exact ⟨k, hlt, hc, hnext⟩
      · have hk1 : k + 1 < m.ents.length := by
          by_cases he : k + 1 = m.ents.length
          · rw [he, m.codeAt_len, h.last] at hnext; omega
          · omega
        exact ih (k + 1) (by omega) hk1 (by omega)
  exact key m.ents.length 0 (by omega) hn (by rw [h.first]; exact h1)

/-- codes of a well-formed map lie between the sentinels -/
theorem TMap.codeAt_bounds {m : TMap} (h : m.WF) {k : Nat} (hk : k ≤ m.ents.length) :
    -maxint ≤ m.codeAt k ∧ m.codeAt k ≤ maxint := by
  have h1 := TMap.codeAt_le h.incr (a := 0) (b := k) (by omega) hk
  have h2 := TMap.codeAt_le h.incr (a := k) (b := m.ents.length) hk (Nat.le_refl _)
  rw [h.first] at h1
  rw [m.codeAt_len, h.last] at h2
  exact ⟨h1, h2⟩

/-- a target set reachable through the items of a map, on character code `c` -/
theorem TMap.items_cover {m : TMap} (h : m.WF) {c : Int} (h1 : -maxint ≤ c) (h2 : c < maxint) (t : Nat) :
    (∃ c0 c1 S, (Ev.range c0 c1, S) ∈ m.items ∧ c0 ≤ c ∧ c < c1 ∧ t ∈ S) ↔ t ∈ m.lookup c := by
  constructor
  · rintro ⟨c0, c1, S, hmem, ha, hb, ht⟩
    obtain ⟨k, hk, hev, hS, _⟩ := (m.items_range _ S ⟨c0, c1, rfl⟩).1 hmem
    simp only [Ev.range.injEq] at hev
    rw [m.lookup_interval h hk (by omega) (by omega), ← hS]
    exact ht
  · intro ht
    obtain ⟨k, hk, ha, hb⟩ := m.interval_exists h h1 h2
    rw [m.lookup_interval h hk ha hb] at ht
    refine ⟨m.codeAt k, m.codeAt (k + 1), m.setAt k, ?_, ha, hb, ht⟩
    exact (m.items_range _ _ ⟨_, _, rfl⟩).2 ⟨k, hk, rfl, rfl, .inl (List.ne_nil_of_mem ht)⟩

theorem TMap.items_cover_sp {m : TMap} (h : m.WF) (k : Sp) (t : Nat) :
    (∃ S, (Ev.sp k, S) ∈ m.items ∧ t ∈ S) ↔ t ∈ m.lookupSp k := by
  unfold TMap.lookupSp
  constructor
  · rintro ⟨S, hmem, ht⟩
    rw [((m.items_sp h k S).1 hmem).2]
    exact ht
  · intro ht
    cases hg : getSpecial m.special k with
    | none => rw [hg] at ht; cases ht
    | some S =>
      rw [hg] at ht
      exact ⟨S, (m.items_sp h k S).2 ⟨List.ne_nil_of_mem ht, hg⟩, ht⟩

/-- bounds of the range items -/
theorem TMap.items_bounds {m : TMap} (h : m.WF) {c0 c1 : Int} {S : SSet} (hmem : (Ev.range c0 c1, S) ∈ m.items) :
    -maxint ≤ c0 ∧ c0 ≤ maxint ∧ -maxint ≤ c1 ∧ c1 ≤ maxint := by
  obtain ⟨k, hk, hev, _, _⟩ := (m.items_range _ S ⟨c0, c1, rfl⟩).1 hmem
  simp only [Ev.range.injEq] at hev
  have a := TMap.codeAt_bounds h (k := k) (by omega)
  have b := TMap.codeAt_bounds h (k := k + 1) (by omega)
  rw [hev.1, hev.2]
  exact ⟨a.1, a.2, b.1, b.2⟩

end CyVerif.C50

import CyVerif.Lemmas.C04Helpers2
/-!
`div` helpers, `LeftShift`, `__Pyx_UNARY_NEG_WOULD_OVERFLOW`, `DivInt`.
-/
namespace CyVerif.C04

/-! ### C division stays in range except `MIN / -1` -/

theorem tdiv_inR {w : Nat} (_hw : 1 ≤ w) {a b : Int} (ha : InR true w a) (hb0 : b ≠ 0)
    (hmin : ¬ (a = tmin true w ∧ b = -1)) : InR true w (a.tdiv b) := by
  have hp := two_pow_pos' (w - 1)
  have hmn : tmin true w = -(2 : Int) ^ (w - 1) := by simp [tmin]
  rw [hmn] at hmin
  rw [inR_signed] at ha ⊢
  by_cases h1 : b = 1
  · subst h1; rw [Int.tdiv_one]; exact ha
  · by_cases h2 : b = -1
    · subst h2
      have : a.tdiv (-1) = -a := by
        have := Int.tdiv_neg a 1
        rw [Int.tdiv_one] at this; exact this
      rw [this]; omega
    · by_cases h3 : a = 0
      · subst h3; simp; omega
      · have hq := Int.natAbs_tdiv a b
        have hlt : a.natAbs / b.natAbs < a.natAbs := Nat.div_lt_self (by omega) (by omega)
        have : (a.natAbs).div (b.natAbs) = a.natAbs / b.natAbs := rfl
        rw [this] at hq
        omega

theorem divS_nonneg {w : Nat} (hw : 1 ≤ w) {a b : Int} (ha : InR true w a) (hb : InR true w b)
    (ha0 : 0 ≤ a) (hb0 : 0 < b) : divS w a b = .ok (a.tdiv b, false) := by
  have hp := two_pow_pos' (w - 1)
  have hua := toU_signed hw ha
  have hub := toU_signed hw hb
  rw [if_neg (by omega)] at hua hub
  unfold divS
  rw [if_neg (by omega)]
  simp only [pure, Except.pure]
  have hq : (((toU w a / toU w b : Nat)) : Int) = a.tdiv b := by
    rw [Int.natCast_ediv, hua, hub, Int.tdiv_eq_ediv_of_nonneg ha0]
  rw [hq]
  have hr : InR true w (a.tdiv b) := tdiv_inR hw ha (by omega) (by omega)
  rw [wrap_of_inR hw hr]
  congr 2
  have : b ≠ -1 := by omega
  simp [this]

theorem divS_fixed_eq {w : Nat} (hw : 2 ≤ w) {a b : Int} (_ha : InR true w a) :
    divS_fixed w a b = .ok (if b = 0 ∨ (a = tmin true w ∧ b = -1) then (0, true) else (a.tdiv b, false)) := by
  unfold divS_fixed
  rw [pyxMin_eq hw]
  by_cases h0 : b = 0
  · simp [h0, pure, Except.pure]
  · rw [if_neg h0]
    by_cases h1 : a = tmin true w ∧ b = -1
    · rw [if_pos h1, if_pos (Or.inr h1)]; rfl
    · rw [if_neg h1, if_neg (by simp only [h0, false_or]; exact h1)]
      have : cdiv true w a b = .ok (a.tdiv b) := by
        unfold cdiv; rw [if_neg h0, if_neg (by simpa using h1)]
      rw [this]; rfl

theorem divU_eq {w : Nat} {a b : Int} (ha : InR false w a) (hb : InR false w b) :
    divU a b = .ok (if b = 0 then (0, true) else (a.tdiv b, false)) ∧ (b ≠ 0 → InR false w (a.tdiv b)) := by
  rw [inR_unsigned] at ha hb
  constructor
  · unfold divU
    split
    · rfl
    · rw [Int.tdiv_eq_ediv_of_nonneg ha.1]; rfl
  · intro _
    rw [inR_unsigned, Int.tdiv_eq_ediv_of_nonneg ha.1]
    have := Int.ediv_le_self b ha.1
    have := Int.ediv_nonneg ha.1 hb.1
    omega

/-! ### LeftShift -/

/-- when `__Pyx_lshift_*_checking_overflow` sets the flag -/
def lshiftFlag (P : Plat) (sg : Bool) (w : Nat) (a b : Int) : Prop :=
  (sg = true ∧ (a < 0 ∨ b < 0)) ∨ (w : Int) ≤ b ∨ (sg = false ∧ w < P.wint) ∨
    tmax sg w < a * (2 : Int) ^ b.toNat

instance (P sg w a b) : Decidable (lshiftFlag P sg w a b) := by unfold lshiftFlag; exact inferInstance

theorem neg_one_ediv_pos {c : Int} (hc : 0 < c) : (-1 : Int) / c = -1 := by
  have := (Int.ediv_emod_unique (a := -1) (b := c) (r := c - 1) (q := -1) hc).2 ⟨by omega, by omega, by omega⟩
  exact this.1

theorem tmax_le_promoted {P : Plat} {sg : Bool} {w : Nat} (h : w < P.wint) : tmax sg w ≤ tmax true P.wint := by
  have h1 : (2 : Int) ^ w ≤ (2 : Int) ^ (P.wint - 1) := two_pow_mono (by omega)
  have h2 : (2 : Int) ^ (w - 1) ≤ (2 : Int) ^ w := two_pow_mono (by omega)
  cases sg <;> simp [tmax] <;> omega

theorem tmin_nonpos (sg : Bool) (w : Nat) : tmin sg w ≤ 0 := by
  have := two_pow_pos' (w - 1)
  cases sg <;> simp [tmin]; omega

theorem lshift_spec {P : Plat} {sg : Bool} {w : Nat} (hw : 2 ≤ w) {a b : Int}
    (ha : InR sg w a) (hb : InR sg w b) :
    lshift P sg w a b =
      .ok (if lshiftFlag P sg w a b then (0, true) else (a * (2 : Int) ^ b.toNat, false)) := by
  have hw1 : 1 ≤ w := by omega
  have ha0 : tmin sg w ≤ a := ha.1
  have hb0 : tmin sg w ≤ b := hb.1
  unfold lshift
  split
  · rename_i h
    rw [if_pos]; · rfl
    left; exact ⟨h.1, h.2⟩
  · rename_i hneg
    split
    · rename_i h
      rw [if_pos]; · rfl
      right; left; exact h
    · rename_i hbw
      have hge : 0 ≤ a ∧ 0 ≤ b := by
        cases sg
        · simp [tmin] at ha0 hb0; omega
        · simp at hneg; omega
      have hpw : ¬ (b < 0 ∨ ((if w < P.wint then P.wint else w : Nat) : Int) ≤ b) := by
        split <;> omega
      have hc : 0 < (2 : Int) ^ b.toNat := two_pow_pos' _
      have hshr : cshr (if w < P.wint then P.wint else w) (pyxMaxP P sg w) b
          = .ok (pyxMaxP P sg w / (2 : Int) ^ b.toNat) := by
        unfold cshr; rw [if_neg hpw]
      simp only [hshr, bind, Except.bind]
      by_cases hnu : sg = false ∧ w < P.wint
      · -- unsigned narrower than int: always flagged
        have hm : pyxMaxP P sg w = -1 := by
          unfold pyxMaxP; rw [if_pos]; simp [hnu.1, hnu.2]
        rw [hm, neg_one_ediv_pos hc, if_pos (by omega), if_pos]; · rfl
        right; right; left; exact hnu
      · have hm : pyxMaxP P sg w = tmax sg w := by
          unfold pyxMaxP
          rw [if_neg, pyxMax_eq hw]
          intro h; apply hnu; cases sg <;> simp_all
        rw [hm]
        by_cases hov : tmax sg w / (2 : Int) ^ b.toNat < a
        · rw [if_pos hov, if_pos]; · rfl
          right; right; right
          exact (Int.ediv_lt_iff_lt_mul hc).1 hov
        · rw [if_neg hov]
          have hfit : a * (2 : Int) ^ b.toNat ≤ tmax sg w := by
            have := (Int.ediv_lt_iff_lt_mul (a := tmax sg w) (b := a) hc)
            omega
          have hnn : 0 ≤ a * (2 : Int) ^ b.toNat := Int.mul_nonneg hge.1 (by omega)
          have hflag : ¬ lshiftFlag P sg w a b := by
            unfold lshiftFlag
            intro h
            rcases h with h | h | h | h
            · apply hneg; exact ⟨h.1, h.2⟩
            · exact hbw h
            · exact hnu h
            · omega
          rw [if_neg hflag]
          have hinr : InR sg w (a * (2 : Int) ^ b.toNat) := ⟨by have := tmin_nonpos sg w; omega, hfit⟩
          have hshl : cshl (if w < P.wint then true else sg) (if w < P.wint then P.wint else w) a b
              = .ok (a * (2 : Int) ^ b.toNat) := by
            unfold cshl
            rw [if_neg hpw]
            by_cases hn : w < P.wint
            · simp only [hn, if_true]
              rw [if_neg]
              have := tmax_le_promoted (P := P) (sg := sg) hn
              omega
            · simp only [hn, if_false]
              cases sg
              · simp only [Bool.false_eq_true, if_false]
                congr 1
                simp [tmax] at hfit
                exact Int.emod_eq_of_lt hnn (by omega)
              · simp only [if_true]
                rw [if_neg]; omega
          simp only [hshl, pure, Except.pure]
          rw [wrap_of_inR hw1 hinr]

/-! ### `__Pyx_UNARY_NEG_WOULD_OVERFLOW` -/

theorem inR_widen {w wl : Nat} (hw : 1 ≤ w) (h : w ≤ wl) {x : Int} (hx : InR true w x) : InR true wl x := by
  have := two_pow_mono (show w - 1 ≤ wl - 1 by omega)
  rw [inR_signed] at hx ⊢; omega

theorem negmacro_long {P : Plat} (hl : 1 ≤ P.wl) {x : Int} (hx : InR true P.wl x) :
    unaryNegWouldOverflow P x = decide (x = tmin true P.wl) := by
  have hm := two_pow_split hl
  have hmn := two_pow_split_nat hl
  have hp := two_pow_pos' (P.wl - 1)
  have hu := toU_signed hl hx
  have hlt := toU_lt P.wl x
  have hc1 := two_pow_cast P.wl
  have hc2 := two_pow_cast (P.wl - 1)
  have hmin : tmin true P.wl = -(2 : Int) ^ (P.wl - 1) := by simp [tmin]
  rw [inR_signed] at hx
  unfold unaryNegWouldOverflow
  rw [hmin]
  generalize toU P.wl x = ux at *
  by_cases hneg : x < 0
  · rw [if_pos hneg] at hu
    have : (0 + 2 ^ P.wl - ux) % 2 ^ P.wl = 2 ^ P.wl - ux := by
      rw [Nat.zero_add]; apply Nat.mod_eq_of_lt; omega
    rw [this, Bool.eq_iff_iff]
    simp only [Bool.and_eq_true, decide_eq_true_eq]
    omega
  · rw [Bool.eq_iff_iff]
    simp only [Bool.and_eq_true, decide_eq_true_eq]
    omega

theorem negmacro_narrow {P : Plat} {w : Nat} (hw : 1 ≤ w) (h : w < P.wl) {x : Int} (hx : InR true w x) :
    unaryNegWouldOverflow P x = false := by
  have hl : 1 ≤ P.wl := by omega
  have hxl := inR_widen hw (by omega : w ≤ P.wl) hx
  rw [negmacro_long hl hxl]
  have hmin : tmin true P.wl = -(2 : Int) ^ (P.wl - 1) := by simp [tmin]
  have hmono : (2 : Int) ^ w ≤ (2 : Int) ^ (P.wl - 1) := two_pow_mono (by omega)
  have hs := two_pow_split hw
  have hp := two_pow_pos' (w - 1)
  rw [inR_signed] at hx
  rw [hmin]
  simp only [decide_eq_false_iff_not]
  omega

end CyVerif.C04

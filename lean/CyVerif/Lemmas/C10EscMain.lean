import CyVerif.Lemmas.C10EscRaw
/-! Soundness of Cython's literal decoding, all kinds. -/
namespace CyVerif.C10

/-- in a bytes / char literal without the non-ASCII flag every source character is ASCII -/
theorem ascii_of_flag (P : LexP) (hP : P.WF) (lk : Lookup) (k : Kind) (hk : k.isText = false) (f1 : Nat)
    (body : List Nat) (ch : Chunk) (hcy : cyLoop P lk k false f1 body = .ok ch) :
    ch.nonascii = false → ∀ x ∈ body, x < 128 := by
  have hnf : ¬ (k = Kind.f) := by intro e; subst e; simp [Kind.isText] at hk
  refine cyLoop_induct P lk k false (fun body ch => ch.nonascii = false → ∀ x ∈ body, x < 128) (by simp) ?_
    f1 body ch hcy
  intro c rest ch1 rest1 ch2 hs ih hflag
  simp only [app_nonascii, Bool.or_eq_false_iff] at hflag
  have ih' := ih hflag.2
  simp only [cyStep] at hs
  by_cases h92 : c = 92
  · simp only [h92, if_true] at hs
    by_cases hr : rest = []
    · simp [hr] at hs
    · simp only [hr, if_false, Bool.false_eq_true] at hs
      injection hs with _ hs2
      intro x hx
      rw [h92, ← List.take_append_drop (escLen P rest) rest, hs2] at hx
      simp only [List.mem_cons, List.mem_append] at hx
      rcases hx with rfl | hx | hx
      · omega
      · exact escTok_ascii P hP rest x hx
      · exact ih' x hx
  · have hbr : ¬ (k = .f ∧ (c = 123 ∨ c = 125)) := fun h => hnf h.1
    simp only [h92, if_false, hbr] at hs
    injection hs with hs1 hs2
    have hf1 := (chStr_ok k _ true ch1 hs1).2.2.1
    rw [hflag.1] at hf1
    have hc : c < 128 := by
      simp only [Bool.true_and, List.any_cons, List.any_nil, Bool.or_false] at hf1
      have : decide (128 ≤ c) = false := hf1.symm
      simpa using this
    intro x hx
    rw [hs2] at hx
    simp only [List.mem_cons] at hx
    rcases hx with rfl | hx
    · exact hc
    · exact ih' x hx

theorem any_ge_false_iff (body : List Nat) :
    body.any (fun c => decide (128 ≤ c)) = false ↔ ∀ x ∈ body, x < 128 := by
  simp [List.any_eq_false]

/-- **Soundness of literal decoding (full strength).**  Whatever `p_string_literal` accepts
has exactly the value CPython gives the same literal body. -/
theorem escape_sound (P : LexP) (hP : P.WF) (lk : Lookup) (hlk : lk [] = .missing) (k : Kind) (raw : Bool)
    (body : List Nat) (v : LitVal) (h : cyDecode P lk k raw body = .ok v) :
    ∃ w, v.value k = some w ∧ refDecode lk k raw body = .ok w := by
  unfold cyDecode at h
  cases hl : cyLoop P lk k raw (body.length + 1) body with
  | err e => rw [hl] at h; cases h
  | ok ch =>
    rw [hl] at h
    simp only [] at h
    have hlen : body.length < body.length + 1 := by omega
    by_cases hk : k.isText = true
    · -- text kinds
      have hnc : k ≠ .c := by intro e; subst e; simp [Kind.isText] at hk
      have hnb : k ≠ .b := by intro e; subst e; simp [Kind.isText] at hk
      have ht := hasText_of_isText k hk
      simp only [hnc, hnb, if_false, decide_false, Bool.and_false, Bool.false_eq_true, ht, if_true] at h
      split at h
      · cases h
      · rename_i hnf
        have hnf' : ch.nonfatal = false := by simpa using hnf
        injection h with h
        refine ⟨ch.us, by rw [← h]; simp [LitVal.value, ht], ?_⟩
        cases raw with
        | true =>
          obtain ⟨_, hus, _, _, hbr⟩ := raw_loop P lk k _ body ch hl
          rw [ht] at hus
          simp only [if_true] at hus
          rw [hus]
          cases k with
          | u => simp [refDecode]
          | s => simp [refDecode]
          | f =>
            simp only [refDecode, if_true]
            rw [if_neg]
            simp only [List.any_eq_true, decide_eq_true_eq, not_exists, not_and]
            intro x hx
            have := hbr rfl x hx
            omega
          | b => exact absurd rfl hnb
          | c => exact absurd rfl hnc
        | false =>
          have := text_sound P hP lk hlk k hk _ body ch hlen hl hnf' _ hlen
          cases k with
          | u => simpa [refDecode] using this
          | s => simpa [refDecode] using this
          | f => simpa [refDecode] using this
          | b => exact absurd rfl hnb
          | c => exact absurd rfl hnc
    · -- bytes kinds
      have hk' : k.isText = false := by simpa using hk
      have hb : k.hasBytes = true := by cases k <;> simp_all [Kind.isText, Kind.hasBytes]
      have hnt : k.hasText = false := by cases k <;> simp_all [Kind.isText, Kind.hasText]
      -- in both kinds the loop ended without error flag and without the non-ASCII flag
      have key : ch.nonfatal = false ∧ ch.nonascii = false ∧ v = ⟨some ch.bs, none⟩ ∧
          (k = .c → ch.bs.length = 1) := by
        by_cases hc : k = .c
        · subst hc
          simp only [if_true] at h
          split at h
          · cases h
          · rename_i hcond
            injection h with h
            simp only [Bool.or_eq_true, bne_iff_ne, ne_eq, not_or, Bool.not_eq_true, Decidable.not_not] at hcond
            have hna : ch.nonascii = false := by
              cases hf : ch.nonascii with
              | false => rfl
              | true =>
                have := nonascii_two_bytes P lk .c hb raw _ body ch hl hf
                omega
            exact ⟨hcond.1, hna, h.symm, fun _ => hcond.2⟩
        · have hkb : k = .b := by cases k <;> simp_all [Kind.isText]
          subst hkb
          simp only [show ¬ (Kind.b = Kind.c) by decide, if_false, decide_true, Bool.and_true] at h
          split at h
          · cases h
          · rename_i hna
            split at h
            · cases h
            · rename_i hnf
              injection h with h
              have hna' : ch.nonascii = false := by simpa using hna
              refine ⟨by simpa using hnf, hna', ?_, fun e => by cases e⟩
              rw [← h]; simp [Kind.hasText]
      obtain ⟨hnf, hna, hv, hc1⟩ := key
      refine ⟨ch.bs, by rw [hv]; simp [LitVal.value, hnt], ?_⟩
      have hascii : ∀ x ∈ body, x < 128 := by
        cases raw with
        | true =>
          have := (raw_loop P lk k _ body ch hl).2.2.2.1
          rw [hna] at this
          exact (any_ge_false_iff body).1 this.symm
        | false => exact ascii_of_flag P hP lk k hk' _ body ch hl hna
      have hany := (any_ge_false_iff body).2 hascii
      have hinner : (if raw = true then Res.ok body else refLoop refBStep (body.length + 1) body) = .ok ch.bs := by
        cases raw with
        | true =>
          have := (raw_loop P lk k _ body ch hl).2.2.1
          rw [bytesSide_true k hb, utf8Encode_ascii body hascii] at this
          injection this with this
          simp [this]
        | false =>
          simp only [Bool.false_eq_true, if_false]
          exact bytes_sound P hP lk k hk' hb _ body ch hlen hl ⟨hnf, hna⟩ _ hlen
      cases k with
      | b => simp only [refDecode, hany, Bool.false_eq_true, if_false, hinner]; simp
      | c =>
        simp only [refDecode, hany, Bool.false_eq_true, if_false, hinner]
        have := hc1 rfl
        simp [this]
      | u => simp [Kind.isText] at hk
      | s => simp [Kind.isText] at hk
      | f => simp [Kind.isText] at hk

end CyVerif.C10

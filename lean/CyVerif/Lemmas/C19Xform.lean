import CyVerif.Lemmas.C19Switch
/-! Semantics preservation of `xformE` / `xformIf`. -/
namespace CyVerif.C19

/-- repaired variant -/
def Variant.repaired (V : Variant) : Prop := V.andFix = true ∧ V.rangeGuard = true ∧ V.bchrInt = true

/-- a successfully extracted test is decided by the switch labels — given the repaired rules,
or else the explicit side conditions `NoAnd` / `FitsCond` -/
theorem extracted_eq_switch (V : Variant) (vk : Nat → VarKind) (env : Env)
    (hwf : ∀ v, (vk v).WF) (henv : EnvWF vk env)
    (common : Option Nat) (c : Cond) (allowNot ni : Bool) (v : Nat) (cs : List Const)
    (hA : V.andFix = true ∨ NoAnd c) (hG : V.rangeGuard = true ∨ FitsCond vk env.ext c)
    (hok : CondOK vk env.ext c)
    (h : extractCommon V vk common c allowNot = some (ni, v, cs)) :
    evalC vk env c = (swAny vk env v cs != ni) ∧ evalC vk env c = ((cs.any (eqPy env v)) != ni) := by
  obtain ⟨hex, hci, hint, hsafe, _⟩ := extractCommon_some V vk common c allowNot ni v cs h
  have hcs := extract_consts_ok V vk env.ext c allowNot ni v cs hex hok
  have hs := extract_sound V vk env c hA allowNot ni v cs hex
  cases hvk : vk v with
  | cint ty glo ghi e =>
    have hall : ∀ k ∈ cs, eqSem vk env v k = swEq ty (env.val v) (k.cval env.ext) ∧
        eqSem vk env v k = eqPy env v k := by
      intro k hk
      obtain ⟨h1, h2, h3⟩ := hcs k hk
      rcases hG with hG | hG
      · exact eq_all_of_guard V vk env v k ty glo ghi e hvk (hwf v) henv h1 h2 (hint k hk)
          (h3 ty glo ghi e hvk) (hsafe hG k hk)
      · exact eq_all_of_fits vk env v k ty glo ghi e hvk (hwf v) henv h2 (hint k hk)
          (extract_fits V vk env.ext c allowNot ni v cs hex hG ty glo ghi e hvk k hk h2 (hint k hk))
    constructor
    · rw [hs]; unfold swAny; simp only [hvk]
      rw [any_congr_mem cs _ _ (fun k hk => (hall k hk).1)]
    · rw [hs, any_congr_mem cs _ _ (fun k hk => (hall k hk).2)]
  | dbl => simp [hvk, isCInt] at hci
  | obj => simp [hvk, isCInt] at hci

theorem embed_sound (vk : Nat → VarKind) (env : Env) (c : Cond) : evalT vk env (embed c) = evalC vk env c := by
  induction c with
  | cmp ne v k => rfl
  | inStr n v ch b => rfl
  | bin isAnd a b iha ihb => simp [embed, evalT, evalC, iha, ihb]
  | not a ih => simp [embed, evalT, evalC, ih]
  | other k => rfl

/-- **expression level**: `visit_BoolBinopNode` / `visit_PrimaryCmpNode` keep the value of every test -/
theorem xformE_sound (V : Variant) (vk : Nat → VarKind) (env : Env) (hwf : ∀ v, (vk v).WF) (henv : EnvWF vk env)
    (c : Cond) (hA : V.andFix = true ∨ NoAnd c) (hG : V.rangeGuard = true ∨ FitsCond vk env.ext c)
    (hok : CondOK vk env.ext c) : evalT vk env (xformE V vk c) = evalC vk env c := by
  induction c with
  | cmp ne v k => rfl
  | other k => rfl
  | not a ih =>
    simp only [xformE, evalT, evalC]
    rw [ih (hA.elim Or.inl (fun h => Or.inr h)) (hG.elim Or.inl (fun h => Or.inr h)) hok]
  | inStr n v ch b =>
    unfold xformE
    cases hx : extractCommon V vk none (.inStr n v ch b) true with
    | none => rfl
    | some r =>
      obtain ⟨ni, w, cs⟩ := r
      simp only []
      split
      · rfl
      · simp only [evalT]
        exact ((extracted_eq_switch V vk env hwf henv none _ true ni w cs hA hG hok hx).1).symm
  | bin isAnd a b iha ihb =>
    unfold xformE
    have hrec : evalT vk env (.bin isAnd (xformE V vk a) (xformE V vk b)) = evalC vk env (.bin isAnd a b) := by
      simp only [evalT, evalC]
      rw [iha (hA.elim Or.inl (fun h => Or.inr h.2.1)) (hG.elim Or.inl (fun h => Or.inr h.1)) hok.1,
          ihb (hA.elim Or.inl (fun h => Or.inr h.2.2)) (hG.elim Or.inl (fun h => Or.inr h.2)) hok.2]
    cases hx : extractCommon V vk none (.bin isAnd a b) true with
    | none => exact hrec
    | some r =>
      obtain ⟨ni, w, cs⟩ := r
      simp only []
      split
      · exact hrec
      · simp only [evalT]
        exact ((extracted_eq_switch V vk env hwf henv none _ true ni w cs hA hG hok hx).1).symm

theorem firstArm_map {α β} (f : α → β) (ev : β → Bool) (ev' : α → Bool) (cl : List (α × Nat)) (els : Option Nat)
    (h : ∀ p ∈ cl, ev (f p.1) = ev' p.1) :
    firstArm ev (cl.map fun (c, b) => (f c, b)) els = firstArm ev' cl els := by
  induction cl with
  | nil => rfl
  | cons p rest ih =>
    obtain ⟨c, b⟩ := p
    simp only [List.map_cons, firstArm]
    rw [h (c, b) (by simp), ih (fun q hq => h q (by simp [hq]))]

/-- the clause loop of `visit_IfStatNode`: all clauses test the same variable and each clause
is decided by its labels (C view and Python view) -/
theorem collect_sound (V : Variant)
    (vk : Nat → VarKind) (env : Env) (hwf : ∀ v, (vk v).WF) (henv : EnvWF vk env) (els : Option Nat) :
    ∀ (cl : List (Cond × Nat)) (common : Option Nat) (v : Nat) (cases : List (List Const × Nat)),
      (∀ p ∈ cl, CondOK vk env.ext p.1 ∧ (V.andFix = true ∨ NoAnd p.1) ∧
        (V.rangeGuard = true ∨ FitsCond vk env.ext p.1)) →
      collect V vk common cl = some (some v, cases) →
      firstArm (evalC vk env) cl els = firstArm (swAny vk env v) cases els ∧
      firstArm (evalPy env) cl els = firstArm (evalC vk env) cl els ∧
      (∀ u, common = some u → u = v) := by
  intro cl
  induction cl with
  | nil =>
    intro common v cases _ h
    simp only [collect, Option.some.injEq, Prod.mk.injEq] at h
    obtain ⟨rfl, rfl⟩ := h
    exact ⟨rfl, rfl, fun u hu => by cases hu; rfl⟩
  | cons p rest ih =>
    intro common v cases hok h
    obtain ⟨c, b⟩ := p
    unfold collect at h
    cases hx : extractCommon V vk common c false with
    | none => simp [hx] at h
    | some r =>
      obtain ⟨ni, v', cs⟩ := r
      simp only [hx] at h
      cases hr : collect V vk (some v') rest with
      | none => simp [hr] at h
      | some r2 =>
        obtain ⟨w, cases'⟩ := r2
        simp only [hr, Option.some.injEq, Prod.mk.injEq] at h
        obtain ⟨rfl, rfl⟩ := h
        obtain ⟨ih1, ih2, ih3⟩ := ih (some v') v cases' (fun q hq => hok q (by simp [hq])) hr
        have hv : v' = v := ih3 v' rfl
        subst hv
        obtain ⟨hex, _, _, _, hcom⟩ := extractCommon_some V vk common c false ni v' cs hx
        have hni : ni = false := extract_pos V vk c ni v' cs hex
        subst hni
        obtain ⟨hcok, hA, hG⟩ := hok (c, b) (by simp)
        obtain ⟨e1, e2⟩ := extracted_eq_switch V vk env hwf henv common c false false v' cs hA hG hcok hx
        have hpy : evalPy env c = cs.any (eqPy env v') := by
          have := extract_sound_py V vk env c hA false false v' cs hex
          simpa using this
        refine ⟨?_, ?_, hcom⟩
        · simp only [firstArm]
          rw [e1, ih1]; simp
        · simp only [firstArm]
          rw [hpy, ih2, e2]; simp

end CyVerif.C19

import CyVerif.Model.C15Ops
/-! # C15 — C integer layer lemmas (casts, `__Pyx_fits_Py_ssize_t`, `__Pyx_is_valid_index`) -/
namespace CyVerif.C15

theorem two_pow_pos (n : Nat) : (0 : Int) < 2 ^ n := Int.pow_pos (by decide)

theorem two_pow_split {w : Nat} (h : 0 < w) : (2 : Int) ^ w = 2 * 2 ^ (w - 1) := by
  obtain ⟨k, rfl⟩ : ∃ k, w = k + 1 := ⟨w - 1, by omega⟩
  simp [Int.pow_succ]; omega

theorem two_pow_mono {a b : Nat} (h : a ≤ b) : (2 : Int) ^ a ≤ 2 ^ b := by
  exact_mod_cast Nat.pow_le_pow_right (by decide) h

theorem emod_neg_wrap {i M : Int} (h1 : -M ≤ i) (h2 : i < 0) : i % M = i + M := by
  have : (i + M) % M = i % M := by simp
  rw [← this]; exact Int.emod_eq_of_lt (by omega) (by omega)

theorem ssMax_nonneg (sw : Nat) : 0 ≤ ssMax sw := by
  have := two_pow_pos (sw - 1); unfold ssMax; omega

theorem inSS_iff (sw : Nat) (v : Int) : inSS sw v = true ↔ ssMin sw ≤ v ∧ v ≤ ssMax sw := by
  simp [inSS]

theorem inT_iff (w : Nat) (s : Bool) (v : Int) : inT w s v = true ↔ tMin w s ≤ v ∧ v ≤ tMax w s := by
  simp [inT]

/-- a value in the range of the signed type is unchanged by the conversion -/
theorem castT_signed_id {w : Nat} (hw : 0 < w) {v : Int}
    (h1 : -(2 ^ (w - 1)) ≤ v) (h2 : v ≤ 2 ^ (w - 1) - 1) : castT w true v = v := by
  have hs := two_pow_split hw
  have hp := two_pow_pos (w - 1)
  simp only [castT, if_true]
  rw [Int.emod_eq_of_lt (by omega) (by omega)]; omega

theorem castT_unsigned_id {w : Nat} {v : Int} (h1 : 0 ≤ v) (h2 : v < 2 ^ w) : castT w false v = v := by
  simp only [castT, Bool.false_eq_true, if_false]
  exact Int.emod_eq_of_lt h1 h2

theorem castSS_id {sw : Nat} (hsw : 0 < sw) {v : Int} (h : inSS sw v = true) : castSS sw v = v := by
  rw [inSS_iff] at h
  unfold ssMin ssMax at h
  exact castT_signed_id hsw h.1 h.2

/-- `(size_t)i < (size_t)limit` is the two-sided test `0 ≤ i < limit` -/
theorem isValidIndex_iff {sw : Nat} (hsw : 0 < sw) {i limit : Int}
    (hl0 : 0 ≤ limit) (hl : limit ≤ ssMax sw) (hi : inSS sw i = true) :
    isValidIndex sw i limit = true ↔ 0 ≤ i ∧ i < limit := by
  rw [inSS_iff] at hi
  have hs := two_pow_split hsw
  have hp := two_pow_pos (sw - 1)
  unfold ssMin ssMax at *
  have hlim : castT sw false limit = limit := castT_unsigned_id hl0 (by omega)
  simp only [isValidIndex, decide_eq_true_eq, hlim]
  by_cases h0 : 0 ≤ i
  · rw [castT_unsigned_id h0 (by omega)]; omega
  · have : castT sw false i = i + 2 ^ sw := by
      simp only [castT, Bool.false_eq_true, if_false]
      exact emod_neg_wrap (by omega) (by omega)
    rw [this]; omega

/-- the macro decides exactly "the value is a `Py_ssize_t`" for every C integer type -/
theorem fitsSsize_iff {sw w : Nat} (hsw : 0 < sw) (hw : 0 < w) {s : Bool} {v : Int}
    (hv : inT w s v = true) : fitsSsize sw w s v = true ↔ inSS sw v = true := by
  rw [inT_iff] at hv
  rw [inSS_iff]
  have hs := two_pow_split hsw
  have hws := two_pow_split hw
  have hp := two_pow_pos (sw - 1)
  have hq := two_pow_pos (w - 1)
  unfold ssMin ssMax
  unfold tMin tMax at hv
  rcases Nat.lt_trichotomy w sw with hlt | heq | hgt
  · -- narrower type: always fits
    have hm : (2 : Int) ^ w ≤ 2 ^ (sw - 1) := two_pow_mono (by omega)
    have : fitsSsize sw w s v = true := by simp [fitsSsize, hlt]
    simp only [this, true_iff]
    cases s <;> simp at hv <;> omega
  · subst heq
    cases s
    · have hmx : castT w false (2 ^ (w - 1) - 1) = 2 ^ (w - 1) - 1 :=
        castT_unsigned_id (by omega) (by omega)
      simp at hv
      simp [fitsSsize, ssMax, hmx]; omega
    · simp at hv
      simp [fitsSsize]; omega
  · have hm : (2 : Int) ^ (sw - 1) ≤ 2 ^ (w - 1 - 1) := two_pow_mono (by omega)
    have hw1 : (2 : Int) ^ (w - 1) = 2 * 2 ^ (w - 1 - 1) := two_pow_split (by omega)
    have hr := two_pow_pos (w - 1 - 1)
    have hnlt : ¬ w < sw := by omega
    have hne : ¬ w = sw := by omega
    cases s
    · have hmx : castT w false (2 ^ (sw - 1) - 1) = 2 ^ (sw - 1) - 1 :=
        castT_unsigned_id (by omega) (by omega)
      simp at hv
      simp [fitsSsize, ssMax, hmx, hgt, hnlt, hne]; omega
    · have hmx : castT w true (2 ^ (sw - 1) - 1) = 2 ^ (sw - 1) - 1 :=
        castT_signed_id hw (by omega) (by omega)
      have hmn : castT w true (-2 ^ (sw - 1)) = -2 ^ (sw - 1) :=
        castT_signed_id hw (by omega) (by omega)
      simp at hv
      simp [fitsSsize, ssMax, ssMin, hmx, hmn, hgt, hnlt, hne]; omega

end CyVerif.C15

import CyVerif.Lemmas.C03
/-!
Evaluation of the modelled helper bodies (`DivInt`, `ModInt`) on values of a
signed type: no intermediate signed overflow, result = floor quotient /
Python modulo.
-/
namespace CyVerif.C03

/-! ### Size of the truncated quotient -/

theorem tdiv_half_bound (a : Int) {b : Int} (hb2 : 2 ≤ b.natAbs) : 2 * (a.tdiv b).natAbs ≤ a.natAbs := by
  rw [Int.natAbs_tdiv]
  have : a.natAbs / b.natAbs ≤ a.natAbs / 2 := Nat.div_le_div_left hb2 (by decide)
  have e : a.natAbs.div b.natAbs = a.natAbs / b.natAbs := rfl
  rw [e]; omega

theorem tdiv_natAbs_le (a b : Int) : (a.tdiv b).natAbs ≤ a.natAbs := by
  rw [Int.natAbs_tdiv]
  exact Nat.div_le_self _ _

theorem natAbs_cases_one {b : Int} (hb : b ≠ 0) : b = 1 ∨ b = -1 ∨ 2 ≤ b.natAbs := by omega

/-- `MIN // -1 = -MIN`. -/
theorem fdiv_neg_one (a : Int) : a.fdiv (-1) = -a :=
  (fdiv_fmod_unique_ne (a := a) (b := -1) (q := -a) (r := 0) (by decide) (by omega) (by omega) (by omega)).1

theorem fmod_neg_one (a : Int) : a.fmod (-1) = 0 :=
  (fdiv_fmod_unique_ne (a := a) (b := -1) (q := -a) (r := 0) (by decide) (by omega) (by omega) (by omega)).2

/-- In a signed type of width `≥ 2` the floor quotient of two values fits the type
exactly when the pair is not `(MIN, -1)`. -/
theorem fdiv_fits_iff {t : CTy} (hs : t.signed = true) (hw : 2 ≤ t.w) {a b : Int}
    (ha : t.InRange a) (hb : t.InRange b) (hb0 : b ≠ 0) :
    t.InRange (a.fdiv b) ↔ ¬ (a = t.min ∧ b = -1) := by
  rw [inRange_signed hs] at ha hb ⊢
  rw [min_signed hs]
  have hp := two_pow_pos (t.w - 1)
  have hP2 : (2 : Int) ≤ 2 ^ (t.w - 1) := by
    have := two_pow_split (w := t.w - 1) (by omega)
    have := two_pow_pos (t.w - 1 - 1)
    omega
  generalize (2 : Int) ^ (t.w - 1) = P at *
  constructor
  · rintro hfit ⟨rfl, rfl⟩
    rw [fdiv_neg_one] at hfit; omega
  · intro hne
    obtain ⟨e1, -⟩ := fdiv_fmod_adjust a hb0
    rw [e1]
    rcases natAbs_cases_one hb0 with rfl | rfl | hb2
    · simp [b2i]; omega
    · simp only [Int.tdiv_neg, Int.tdiv_one, Int.tmod_neg, Int.tmod_one, b2i]
      simp
      have : a ≠ -P := fun h => hne ⟨h, rfl⟩
      omega
    · have := tdiv_half_bound a hb2
      have hadj : ∀ p, b2i p = 0 ∨ b2i p = 1 := by intro p; cases p <;> simp [b2i]
      rcases hadj (decide (a.tmod b ≠ 0) && (decide (a.tmod b < 0) ^^ decide (b < 0))) with h | h <;>
        rw [h] <;> omega

theorem b2i_cases (p : Bool) : b2i p = 0 ∨ b2i p = 1 := by cases p <;> simp [b2i]

/-! ### The helper bodies on a signed type -/

theorem tmod_inRange {t : CTy} (hs : t.signed = true) {a : Int} (b : Int) (ha : t.InRange a) :
    t.InRange (a.tmod b) := by
  rw [inRange_signed hs] at ha ⊢
  have := natAbs_tmod_le a b
  by_cases h0 : 0 ≤ a
  · have := Int.tmod_nonneg b h0; omega
  · have h := Int.tmod_nonneg (a := -a) b (by omega)
    rw [Int.neg_tmod] at h; omega

theorem tdiv_mul_inRange {t : CTy} (hs : t.signed = true) {a b : Int} (ha : t.InRange a) (hb0 : b ≠ 0) :
    t.InRange (a.tdiv b * b) := by
  rw [inRange_signed hs] at ha ⊢
  have hp := two_pow_pos (t.w - 1)
  obtain ⟨h1, h2⟩ := tdiv_mul_between a hb0
  by_cases h0 : 0 ≤ a
  · have := h1 h0; omega
  · have := h2 (by omega); omega

theorem cdivC_ok {t : CTy} {a b : Int} (hb0 : b ≠ 0) (hne : ¬ (t.signed = true ∧ a = t.min ∧ b = -1)) :
    cdivC t a b = .ok (a.tdiv b) := by
  simp only [cdivC, hb0, if_false, hne]

theorem cmodC_ok {t : CTy} {a b : Int} (hb0 : b ≠ 0) (hne : ¬ (t.signed = true ∧ a = t.min ∧ b = -1)) :
    cmodC t a b = .ok (a.tmod b) := by
  simp only [cmodC, hb0, if_false, hne]

/-- `DivInt` as it is on the pinned tree: every intermediate value is representable and the
result is the floor quotient, for every pair of values of the type except `b = 0` and `(MIN, -1)`. -/
theorem divInt_eq_fdiv {t : CTy} (hs : t.signed = true) (hw : 2 ≤ t.w) {a b : Int}
    (ha : t.InRange a) (hb : t.InRange b) (hb0 : b ≠ 0) (hne : ¬ (a = t.min ∧ b = -1)) (fix c : Bool) :
    divInt fix t c a b = .ok (a.fdiv b) := by
  have hfit := (fdiv_fits_iff hs hw ha hb hb0).2 hne
  by_cases hfx : (fix && b == -1) = true
  · simp only [Bool.and_eq_true, beq_iff_eq] at hfx
    obtain ⟨rfl, rfl⟩ := hfx
    have : a ≠ t.min := fun h => hne ⟨h, rfl⟩
    simp [divInt, wrapNeg, this, fdiv_neg_one, pure, Except.pure]
  · have hq := cdivC_ok (t := t) (a := a) hb0 (fun h => hne h.2)
    have hqb := arith_signed_ok hs (tdiv_mul_inRange hs ha hb0)
    have hr : arith t (a - a.tdiv b * b) = .ok (a.tmod b) := by
      rw [sub_tdiv_mul]; exact arith_signed_ok hs (tmod_inRange hs b ha)
    have had := adaptPython_const_irrelevant hs (by omega) (tmod_inRange hs b ha) hb c
    have hres : arith t (a.tdiv b - adaptPython t c (a.tmod b) b) = .ok (a.fdiv b) := by
      rw [had, ← (fdiv_fmod_adjust a hb0).1]; exact arith_signed_ok hs hfit
    simp only [divInt, hfx, Bool.false_eq_true, if_false, hq, hqb, hr, hres, bind, Except.bind]

/-- `ModInt` as it is on the pinned tree: Python modulo for every pair except `b = 0` and `(MIN, -1)`;
with the repair (`fix = true`) also for `(MIN, -1)`. -/
theorem modInt_eq_fmod {t : CTy} (hs : t.signed = true) (hw : 2 ≤ t.w) {a b : Int}
    (ha : t.InRange a) (hb : t.InRange b) (hb0 : b ≠ 0) (fix c : Bool)
    (hne : fix = true ∨ ¬ (a = t.min ∧ b = -1)) :
    modInt fix t c a b = .ok (a.fmod b) := by
  by_cases hfx : (fix && b == -1) = true
  · simp only [Bool.and_eq_true, beq_iff_eq] at hfx
    obtain ⟨rfl, rfl⟩ := hfx
    simp [modInt, fmod_neg_one, pure, Except.pure]
  · have hne' : ¬ (a = t.min ∧ b = -1) := by
      rcases hne with h | h
      · intro ⟨_, hb1⟩; apply hfx; simp [h, hb1]
      · exact h
    have hr := cmodC_ok (t := t) (a := a) hb0 (fun h => hne' h.2)
    have had := adaptPython_const_irrelevant hs (by omega) (tmod_inRange hs b ha) hb c
    have hab : arith t (adaptPython t c (a.tmod b) b * b) = .ok (adaptPython t c (a.tmod b) b * b) := by
      apply arith_signed_ok hs
      rcases b2i_cases (decide (a.tmod b ≠ 0) && (decide (a.tmod b < 0) ^^ decide (b < 0))) with h | h
      · rw [had, h, Int.zero_mul]
        rw [inRange_signed hs] at hb ⊢; have := two_pow_pos (t.w - 1); omega
      · rw [had, h, Int.one_mul]; exact hb
    have hres : arith t (a.tmod b + adaptPython t c (a.tmod b) b * b) = .ok (a.fmod b) := by
      rw [had, ← (fdiv_fmod_adjust a hb0).2]
      apply arith_signed_ok hs
      rw [inRange_signed hs] at hb ⊢
      by_cases hpos : 0 < b
      · have := fmod_range_pos a hpos; omega
      · have := fmod_range_neg a (show b < 0 by omega); omega
    simp only [modInt, hfx, Bool.false_eq_true, if_false, hr, hab, hres, bind, Except.bind]

/-! ### The undefined points -/

theorem cdivC_min_neg_one {t : CTy} (hs : t.signed = true) : cdivC t t.min (-1) = .error "divOverflow" := by
  simp [cdivC, hs]

theorem cmodC_min_neg_one {t : CTy} (hs : t.signed = true) : cmodC t t.min (-1) = .error "divOverflow" := by
  simp [cmodC, hs]

theorem divInt_min_neg_one {t : CTy} (hs : t.signed = true) (c : Bool) :
    divInt false t c t.min (-1) = .error "divOverflow" := by
  simp [divInt, cdivC_min_neg_one hs, bind, Except.bind]

theorem modInt_min_neg_one {t : CTy} (hs : t.signed = true) (c : Bool) :
    modInt false t c t.min (-1) = .error "divOverflow" := by
  simp [modInt, cmodC_min_neg_one hs, bind, Except.bind]

theorem divInt_fixed_min_neg_one (t : CTy) (c : Bool) : divInt true t c t.min (-1) = .ok t.min := by
  simp [divInt, wrapNeg, pure, Except.pure]

theorem min_inRange (t : CTy) : t.InRange t.min := by
  have := two_pow_pos (t.w - 1)
  have := two_pow_pos t.w
  unfold CTy.InRange CTy.min CTy.max
  cases t.signed <;> simp <;> omega

theorem neg_one_inRange {t : CTy} (hs : t.signed = true) : t.InRange (-1) := by
  rw [inRange_signed hs]
  have := two_pow_pos (t.w - 1)
  omega

/-- The truncated quotient of two values of a type is a value of the type, except for `(MIN, -1)`. -/
theorem tdiv_inRange {t : CTy} (hw : 2 ≤ t.w) {a b : Int} (ha : t.InRange a) (hb : t.InRange b) (hb0 : b ≠ 0)
    (hne : ¬ (t.signed = true ∧ a = t.min ∧ b = -1)) : t.InRange (a.tdiv b) := by
  cases hs : t.signed
  · rw [inRange_unsigned hs] at ha hb ⊢
    have h1 := Int.tdiv_nonneg ha.1 hb.1
    have h2 := Int.tdiv_le_self b ha.1
    omega
  · rw [inRange_signed hs] at ha hb ⊢
    rw [min_signed hs] at hne
    have hp := two_pow_pos (t.w - 1)
    have hP2 : (2 : Int) ≤ 2 ^ (t.w - 1) := by
      have := two_pow_split (w := t.w - 1) (by omega)
      have := two_pow_pos (t.w - 1 - 1)
      omega
    generalize (2 : Int) ^ (t.w - 1) = P at *
    rcases natAbs_cases_one hb0 with rfl | rfl | hb2
    · simp; omega
    · simp only [Int.tdiv_neg, Int.tdiv_one]
      have : a ≠ -P := fun h => hne ⟨hs, h, rfl⟩
      omega
    · have := tdiv_half_bound a hb2
      omega


/-! ### The `OverflowError` guard of `//`, both variants -/

/-- `__PYX_MIN(T)` is the minimum of the type (width `≥ 2`, so that `1 << (w-2)` is defined). -/
theorem pyxMin_eq_min {t : CTy} (hw : 2 ≤ t.w) : pyxMin t = t.min := by
  unfold pyxMin CTy.min
  cases t.signed
  · simp
  · have := two_pow_split (w := t.w - 1) (by omega)
    have e : t.w - 1 - 1 = t.w - 2 := by omega
    rw [e] at this
    simp only [if_true]; omega

/-- Whenever the pair is not `(MIN, -1)` the guard does not fire — old and new variant. -/
theorem overflowGuard_false {c : Cfg} (hs : c.ty.signed = true) (hw : 2 ≤ c.ty.w) {a b : Int}
    (ha : c.ty.InRange a) (hne : ¬ (a = c.ty.min ∧ b = -1)) : c.overflowGuard a b = false := by
  by_cases hb1 : b = -1
  · have hna : a ≠ c.ty.min := fun h => hne ⟨h, hb1⟩
    cases hga : c.guardAllWidths
    · simp only [Cfg.overflowGuard, hga, Bool.false_eq_true, if_false, hs]
      by_cases hwl : c.ty.w = c.wl
      · have hai := (inRange_signed hs a).1 ha
        rw [min_signed hs] at hna
        rw [hwl] at hai hna
        have : negWouldOverflow c.wl a = false := by
          cases hh : negWouldOverflow c.wl a
          · rfl
          · exact absurd ((negWouldOverflow_iff (by omega) hai.1 hai.2).1 hh) hna
        simp [this]
      · simp [hwl]
    · simp [Cfg.overflowGuard, hga, pyxMin_eq_min hw, hna]
  · cases hga : c.guardAllWidths <;> simp [Cfg.overflowGuard, hga, hb1]

/-- New variant: `(MIN, -1)` is caught for every signed width, run-time and constant divisor. -/
theorem overflowGuard_all_min_neg_one {c : Cfg} (hga : c.guardAllWidths = true) (hs : c.ty.signed = true)
    (hw : 2 ≤ c.ty.w) (hcd : c.cdivision = false) : c.overflowGuard c.ty.min (-1) = true := by
  simp [Cfg.overflowGuard, Cfg.minus1Check, hga, hs, hcd, pyxMin_eq_min hw]

/-- Old variant: `(MIN, -1)` is caught only for types as wide as `long` with a run-time divisor. -/
theorem overflowGuard_old_min_neg_one {c : Cfg} (hga : c.guardAllWidths = false) (hs : c.ty.signed = true)
    (hw : 2 ≤ c.ty.w) (hcd : c.cdivision = false) :
    c.overflowGuard c.ty.min (-1) = (decide (c.ty.w = c.wl) && !c.bConst) := by
  by_cases hwl : c.ty.w = c.wl
  · have hn : negWouldOverflow c.wl c.ty.min = true := by
      rw [min_signed hs, hwl]
      exact (negWouldOverflow_iff (by omega) (by omega) (by have := two_pow_pos (c.wl - 1); omega)).2 rfl
    cases hbc : c.bConst <;> simp [Cfg.overflowGuard, Cfg.zeroCheck, hga, hs, hcd, hwl, hn, hbc]
  · simp [Cfg.overflowGuard, hga, hwl]


theorem overflowGuard_unsigned {c : Cfg} (hs : c.ty.signed = false) (a b : Int) : c.overflowGuard a b = false := by
  cases hga : c.guardAllWidths <;> simp [Cfg.overflowGuard, Cfg.minus1Check, hga, hs]

theorem overflowGuard_cdivision {c : Cfg} (hcd : c.cdivision = true) (a b : Int) : c.overflowGuard a b = false := by
  cases hga : c.guardAllWidths <;> simp [Cfg.overflowGuard, Cfg.minus1Check, Cfg.zeroCheck, hga, hcd]


end CyVerif.C03

import CyVerif.Lemmas.C50DfaG
/-! Subset construction, part H: the `FastMachine` encoding of a transition map (explicit characters,
`'else'`, dropped last range) agrees with the lookup function of the map. -/
namespace CyVerif.C50

theorem lookupChars_some {c : Int} {l : List (Int × Int × Nat)} {t : Nat} (h : lookupChars c l = some t) :
    ∃ c0 c1, (c0, c1, t) ∈ l ∧ c0 ≤ c ∧ c < c1 := by
  induction l with
  | nil => simp [lookupChars] at h
  | cons e es ih =>
    obtain ⟨a, b, t'⟩ := e
    simp only [lookupChars] at h
    split at h
    · rename_i hc
      simp only [Option.some.injEq] at h
      subst h
      exact ⟨a, b, by simp, hc.1, hc.2⟩
    · obtain ⟨c0, c1, hm, h1, h2⟩ := ih h
      exact ⟨c0, c1, List.mem_cons_of_mem _ hm, h1, h2⟩

theorem lookupChars_none {c : Int} {l : List (Int × Int × Nat)} (h : lookupChars c l = none)
    {c0 c1 : Int} {t : Nat} (hm : (c0, c1, t) ∈ l) : ¬ (c0 ≤ c ∧ c < c1) := by
  induction l with
  | nil => cases hm
  | cons e es ih =>
    obtain ⟨a, b, t'⟩ := e
    simp only [lookupChars] at h
    split at h
    · cases h
    · rename_i hc
      rcases List.mem_cons.1 hm with e | e
      · simp only [Prod.mk.injEq] at e
        obtain ⟨rfl, rfl, rfl⟩ := e
        exact hc
      · exact ih h e

def keyOfK (keys : List SSet) : Option Nat → SSet
  | none => []
  | some t => (keys[t]?).getD []

/-- the invariant `states_0 == states_n-1` of the class docstring, on the lookup function -/
def TMap.EndsAgree (m : TMap) : Prop := m.lookup (-maxint) = m.lookup (maxint - 1)

theorem TMap.lookup_first {m : TMap} (h : m.WF) : m.lookup (-maxint) = m.setAt 0 := by
  have hn : 0 < m.ents.length := List.length_pos_iff.2 h.ne
  apply m.lookup_interval h hn
  · rw [h.first]; exact Int.le_refl _
  · have := TMap.codeAt_lt h.incr (a := 0) (b := 1) (by omega) (by omega)
    rw [h.first] at this; exact this

theorem TMap.codeAt_eq_first {m : TMap} (h : m.WF) {k : Nat} (hk : k ≤ m.ents.length)
    (he : m.codeAt k = -maxint) : k = 0 :=
  TMap.codeAt_inj h.incr hk (Nat.zero_le _) (by rw [he, h.first])

theorem TMap.codeAt_eq_last {m : TMap} (h : m.WF) {k : Nat} (hk : k ≤ m.ents.length)
    (he : m.codeAt k = maxint) : k = m.ents.length :=
  TMap.codeAt_inj h.incr hk (Nat.le_refl _) (by rw [he, m.codeAt_len, h.last])

/-- character part -/
theorem fast_chr {m : TMap} (h : m.WF) (he : m.EndsAgree) {keys : List SSet} {st : DState}
    (hf : FromItems keys m.items st) (hc : Covers m.items st) (c : Nat) (hcm : (c : Int) < maxint) :
    (∀ t, st.step (.chr c) = some t → t < keys.length) ∧ keyOfK keys (st.step (.chr c)) = m.lookup c := by
  have hc0 : -maxint ≤ (c : Int) := by unfold maxint; omega
  obtain ⟨k, hk, hk1, hk2⟩ := m.interval_exists h hc0 hcm
  have hlk := m.lookup_interval h hk hk1 hk2
  have hn : 0 < m.ents.length := List.length_pos_iff.2 h.ne
  simp only [DState.step]
  cases hl : lookupChars (c : Int) st.chars with
  | some t =>
    simp only
    obtain ⟨c0, c1, hm, ha, hb⟩ := lookupChars_some hl
    obtain ⟨_, _, S, hit, hkey⟩ := hf.chars c0 c1 t hm
    obtain ⟨k', hk', hev, hS, _⟩ := (m.items_range _ S ⟨c0, c1, rfl⟩).1 hit
    simp only [Ev.range.injEq] at hev
    have : m.lookup c = S := by
      rw [hS]; exact m.lookup_interval h hk' (by omega) (by omega)
    refine ⟨fun t' ht' => ?_, ?_⟩
    · simp only [Option.some.injEq] at ht'; subst ht'
      rcases List.getElem?_eq_some_iff.1 hkey with ⟨hlt, _⟩; exact hlt
    · simp only [keyOfK, hkey, Option.getD_some, this]
  | none =>
    simp only
    -- in a middle interval an emitted item would have left an explicit character range
    have hmid : k ≠ 0 → m.codeAt (k + 1) ≠ maxint → ¬ (m.setAt k ≠ [] ∨ m.setAt 0 ≠ []) := by
      intro hk0 hlast hem
      have hit : (Ev.range (m.codeAt k) (m.codeAt (k + 1)), m.setAt k) ∈ m.items :=
        (m.items_range _ _ ⟨_, _, rfl⟩).2 ⟨k, hk, rfl, rfl, hem⟩
      obtain ⟨t', ht'⟩ := hc.chars _ _ _ hit
        (fun e => hk0 (TMap.codeAt_eq_first h (by omega) e)) hlast
      exact lookupChars_none hl ht' ⟨hk1, hk2⟩
    -- in the first and in the last interval the set is `setAt 0`
    have hends : (k = 0 ∨ m.codeAt (k + 1) = maxint) → m.lookup c = m.setAt 0 := by
      rintro (e | e)
      · rw [hlk, e]
      · rw [hlk, ← TMap.lookup_first h, he, m.lookup_interval h hk (by omega) (by omega)]
    cases hels : st.els with
    | some t =>
      obtain ⟨c1', S, hit, hkey⟩ := hf.els t hels
      obtain ⟨k0, hk0, hev, hS, hem⟩ := (m.items_range _ S ⟨_, c1', rfl⟩).1 hit
      simp only [Ev.range.injEq] at hev
      have hk00 : k0 = 0 := TMap.codeAt_eq_first h (by omega) hev.1.symm
      subst hk00
      have hne : m.setAt 0 ≠ [] := by
        rcases hem with e | e
        · rw [← hS]; exact e
        · exact e
      refine ⟨fun t' ht' => ?_, ?_⟩
      · simp only [Option.some.injEq] at ht'; subst ht'
        rcases List.getElem?_eq_some_iff.1 hkey with ⟨hlt, _⟩; exact hlt
      · simp only [keyOfK, hkey, Option.getD_some, hS]
        by_cases hcase : k = 0 ∨ m.codeAt (k + 1) = maxint
        · exact (hends hcase).symm
        · exact absurd (.inr hne) (hmid (fun e => hcase (.inl e)) (fun e => hcase (.inr e)))
    | none =>
      have h0 : m.setAt 0 = [] := by
        by_cases hz : m.setAt 0 = []
        · exact hz
        · have hit : (Ev.range (m.codeAt 0) (m.codeAt 1), m.setAt 0) ∈ m.items :=
            (m.items_range _ _ ⟨_, _, rfl⟩).2 ⟨0, hn, rfl, rfl, .inl hz⟩
          rw [h.first] at hit
          exact absurd hels (hc.els _ _ hit)
      refine ⟨fun t' ht' => (by cases ht'), ?_⟩
      simp only [keyOfK]
      by_cases hcase : k = 0 ∨ m.codeAt (k + 1) = maxint
      · rw [hends hcase, h0]
      · have := hmid (fun e => hcase (.inl e)) (fun e => hcase (.inr e))
        rw [hlk]
        by_cases hz : m.setAt k = []
        · exact hz.symm
        · exact absurd (.inl hz) this

/-- special-symbol part -/
theorem fast_sp {m : TMap} (h : m.WF) {keys : List SSet} {st : DState}
    (hf : FromItems keys m.items st) (hc : Covers m.items st) (k : Sp) (hk : k ≠ .eps) :
    (∀ t, st.spGet k = some t → t < keys.length) ∧ keyOfK keys (st.spGet k) = m.lookupSp k := by
  cases hs : st.spGet k with
  | some t =>
    obtain ⟨S, hit, hkey⟩ := hf.sp k t hs
    have := ((m.items_sp h k S).1 hit).2
    refine ⟨fun t' ht' => ?_, ?_⟩
    · simp only [Option.some.injEq] at ht'; subst ht'
      rcases List.getElem?_eq_some_iff.1 hkey with ⟨hlt, _⟩; exact hlt
    · simp only [keyOfK, hkey, Option.getD_some, TMap.lookupSp, this]
  | none =>
    refine ⟨fun t' ht' => (by cases ht'), ?_⟩
    simp only [keyOfK]
    cases hl : m.lookupSp k with
    | nil => rfl
    | cons u us =>
      obtain ⟨S, hit, _⟩ := (m.items_cover_sp h k u).2 (by rw [hl]; simp)
      exact absurd hs (hc.sp k S hk hit)

end CyVerif.C50

import CyVerif.Model.C06
import CyVerif.Lemmas.C06Strtod
import CyVerif.Lemmas.C06Trim
import CyVerif.Lemmas.C06Scan
import CyVerif.Lemmas.C06Gate
/-! `float(bytes)`: CPython's route and Cython's fast path, both expressed on the trimmed region. -/
namespace CyVerif.C06

theorem isSpaceB_cases {c : Nat} (h : isSpaceB c = true) : c = 9 ∨ c = 10 ∨ c = 11 ∨ c = 12 ∨ c = 13 ∨ c = 32 := by
  simp only [isSpaceB, Bool.or_eq_true, beq_iff_eq, Bool.and_eq_true, decide_eq_true_eq] at h
  omega

theorem isSpaceB_stop {c : Nat} (h : isSpaceB c = true) : gchar c = false := by
  rcases isSpaceB_cases h with e | e | e | e | e | e <;> subst e <;> decide

theorem isSpaceB_neutral {c : Nat} (h : isSpaceB c = true) : Neutral c := by
  rcases isSpaceB_cases h with e | e | e | e | e | e <;> subst e <;> exact ⟨by decide, by decide⟩

theorem isSpaceB_ne {c : Nat} (h : isSpaceB c = true) : c ≠ 0 ∧ c ≠ cUS := by
  rcases isSpaceB_cases h with e | e | e | e | e | e <;> subst e <;> exact ⟨by decide, by decide⟩

theorem stopHead_of_spaces {tl : List Nat} (ht : ∀ c ∈ tl, isSpaceB c = true) : StopHead tl := by
  intro c hc
  cases tl with
  | nil => simp at hc
  | cons a as => simp at hc; subst hc; exact isSpaceB_stop (ht a (by simp))

theorem gchar_ne {c : Nat} (h : gchar c = true) : c ≠ 0 ∧ c ≠ cUS ∧ isSpaceB c = false := by
  refine ⟨?_, ?_, ?_⟩
  · intro e; subst e; simp [gchar, isDigit, isExp, isSign, lower] at h
  · intro e; subst e; simp [gchar, isDigit, isExp, isSign, lower, cUS] at h
  · cases hs : isSpaceB c with
    | false => rfl
    | true => rw [isSpaceB_stop hs] at h; exact absurd h (by simp)

/-- `s = lead ++ r ++ tl` as produced by the two trimming loops -/
structure Decomp (p : Nat → Bool) (s lead r tl : List Nat) : Prop where
  eq : s = lead ++ r ++ tl
  lead_sp : ∀ c ∈ lead, p c = true
  tl_sp : ∀ c ∈ tl, p c = true
  ne : r ≠ []
  head : ∀ c, r.head? = some c → p c = false
  trimmed : Trimmed p r

theorem decomp_of (p : Nat → Bool) (s : List Nat) (h : s.dropWhile p ≠ []) :
    Decomp p s (s.takeWhile p) (region p (s.dropWhile p))
      ((s.dropWhile p).drop (region p (s.dropWhile p)).length) := by
  have hd := region_decomp (p := p) (s.dropWhile p)
  refine ⟨?_, fun c hc => mem_takeWhile_sat c hc, hd.2, region_ne_nil h, ?_, region_trimmed _⟩
  · rw [List.append_assoc, hd.1, List.takeWhile_append_dropWhile]
  · intro c hc
    rw [region_head] at hc
    cases ha : s.dropWhile p with
    | nil => exact absurd ha h
    | cons a as =>
      rw [ha] at hc; simp at hc; subst hc
      exact dropWhile_head ha

theorem Decomp.dropWhile {p : Nat → Bool} {s lead r tl : List Nat} (d : Decomp p s lead r tl) :
    s.dropWhile p = r ++ tl := by
  rw [d.eq, List.append_assoc, dropWhile_all_append d.lead_sp]
  cases hr : r with
  | nil => exact absurd hr d.ne
  | cons c cs =>
    have := d.head c (by simp [hr])
    rw [List.cons_append, dropWhile_of_head this]

theorem pyInner_decomp {lead x tl : List Nat} (d : Decomp isSpaceB (lead ++ x ++ tl) lead x tl) :
    pyInner (lead ++ x ++ tl) = innerCheck x x.length := by
  unfold pyInner
  simp only [d.dropWhile]
  have hne : x ++ tl ≠ [] := by
    intro h; exact d.ne (List.append_eq_nil_iff.1 h).1
  rw [if_neg hne, region_append d.trimmed d.ne d.tl_sp]
  unfold innerCheck
  rw [strtod_append (stopHead_of_spaces d.tl_sp)]

theorem takeWhile_all {q : Nat → Bool} {x : List Nat} (h : ∀ c ∈ x, q c = true) : x.takeWhile q = x := by
  induction x with
  | nil => rfl
  | cons a as ih =>
    rw [List.takeWhile_cons, if_pos (h a (by simp)), ih (fun c hc => h c (by simp [hc]))]

theorem takeWhile_contains {x y : List Nat} (h0 : ∀ c ∈ x, c ≠ 0) (hu : cUS ∈ x) :
    ((x ++ y).takeWhile (· != 0)).contains cUS = true := by
  have hx : x.takeWhile (· != 0) = x := takeWhile_all (fun c hc => by simpa using h0 c hc)
  rw [List.takeWhile_append, hx]
  simp [hu]

theorem contains_false_of {x : List Nat} {a : Nat} (h : ∀ c ∈ x, c ≠ a) : x.contains a = false := by
  cases hc : x.contains a with
  | false => rfl
  | true => exact absurd rfl (h a (List.contains_iff_mem.1 hc))

theorem stripUS_spaces {l : List Nat} (h : ∀ c ∈ l, isSpaceB c = true) : stripUS l = l :=
  stripUS_of_not_mem (fun c hc => by simpa using (isSpaceB_ne (h c hc)).2)

/-- CPython, region without `_` -/
theorem py_nous {s lead r tl : List Nat} (d : Decomp isSpaceB s lead r tl) (hu : r.contains cUS = false) :
    pyBytes s = innerCheck r r.length := by
  have hs : ∀ c ∈ s, c ≠ cUS := by
    intro c hc
    rw [d.eq] at hc
    simp only [List.mem_append] at hc
    rcases hc with (hc | hc) | hc
    · exact (isSpaceB_ne (d.lead_sp c hc)).2
    · intro e; subst e
      rw [List.contains_iff_mem.2 hc] at hu; exact absurd hu (by simp)
    · exact (isSpaceB_ne (d.tl_sp c hc)).2
  have : (s.takeWhile (· != 0)).contains cUS = false :=
    contains_false_of (fun c hc => hs c ((List.takeWhile_sublist _).subset hc))
  unfold pyBytes
  rw [this]
  simp only [Bool.not_false, if_true]
  have e := d.eq
  subst e
  exact pyInner_decomp d

theorem innerCheck_err_of_bad {r : List Nat} {b : Nat} (hb : b ∈ r) (hg : gchar b = false) :
    innerCheck r r.length = .err "ValueError" := by
  unfold innerCheck
  cases h : strtod r with
  | none => rfl
  | some nv =>
    obtain ⟨n, v⟩ := nv
    by_cases hn : n = r.length
    · subst hn
      have := strtod_full h b hb
      rw [hg] at this; exact absurd this (by simp)
    · simp [hn]

theorem pyInner_none {lead x tl : List Nat} (hl : ∀ c ∈ lead, isSpaceB c = true) (ht : ∀ c ∈ tl, isSpaceB c = true)
    {c : Nat} {cs : List Nat} (hx : x = c :: cs) (hc : isSpaceB c = false) (hn : strtod x = none) :
    pyInner (lead ++ x ++ tl) = .err "ValueError" := by
  unfold pyInner
  rw [List.append_assoc, dropWhile_all_append hl, hx, List.cons_append, dropWhile_of_head hc]
  simp only [List.cons_ne_nil, if_false]
  unfold innerCheck
  rw [← List.cons_append, ← hx, strtod_append (stopHead_of_spaces ht), hn]

theorem stripUS_decomp {lead r tl : List Nat} (hl : ∀ c ∈ lead, isSpaceB c = true) (ht : ∀ c ∈ tl, isSpaceB c = true) :
    stripUS (lead ++ r ++ tl) = lead ++ stripUS r ++ tl := by
  rw [stripUS_append, stripUS_append, stripUS_spaces hl, stripUS_spaces ht]

/-- CPython, `PyOS_string_to_double` rejects the underscore-free text at its first character -/
theorem py_none {s lead r tl : List Nat} (d : Decomp isSpaceB s lead r tl) {c : Nat} {cs : List Nat}
    (hr : r = c :: cs) (hc : c ≠ cUS) (hu : cUS ∈ r) (hn : strtod (stripUS r) = none) :
    pyBytes s = .err "ValueError" := by
  have hsp : isSpaceB c = false := d.head c (by simp [hr])
  unfold pyBytes
  split
  · have e := d.eq
    subst e
    rw [pyInner_decomp d]
    exact innerCheck_err_of_bad hu (by decide)
  · split
    · rw [d.eq, stripUS_decomp d.lead_sp d.tl_sp]
      exact pyInner_none d.lead_sp d.tl_sp (by rw [hr, stripUS_cons_ne hc]) hsp hn
    · rfl

/-- CPython, the digit rule holds and the underscore-free text is consumed completely -/
theorem py_full {s lead r tl : List Nat} (d : Decomp isSpaceB s lead r tl)
    (hds : digitScan false false r = true) (hu : cUS ∈ r) {v : Num}
    (hf : strtod (stripUS r) = some ((stripUS r).length, v)) :
    pyBytes s = .ok v := by
  have hg := strtod_full hf
  obtain ⟨c, cs, hr⟩ : ∃ c cs, r = c :: cs := by
    cases r with
    | nil => exact absurd rfl d.ne
    | cons c cs => exact ⟨c, cs, rfl⟩
  have hc : c ≠ cUS := digitScan_head_ne (hr ▸ hds)
  have hsp : isSpaceB c = false := d.head c (by simp [hr])
  have h0 : ∀ x ∈ lead ++ r, x ≠ 0 := by
    intro x hx
    rcases List.mem_append.1 hx with hx | hx
    · exact (isSpaceB_ne (d.lead_sp x hx)).1
    · by_cases e : x = cUS
      · subst e; decide
      · exact (gchar_ne (hg x (mem_stripUS.2 ⟨hx, e⟩))).1
  have hstr : (s.takeWhile (· != 0)).contains cUS = true := by
    rw [d.eq]
    exact takeWhile_contains h0 (List.mem_append.2 (Or.inr hu))
  have hpy : pyUS 0 s = true := by
    rw [pyUS_eq_digitScan, d.eq, List.append_assoc,
      show isDigit 0 = false from rfl, show (0 == cUS) = false from rfl,
      digitScan_lead (fun x hx => isSpaceB_neutral (d.lead_sp x hx)),
      digitScan_tail (fun x hx => isSpaceB_neutral (d.tl_sp x hx))]
    exact hds
  have hstrip : stripUS r = c :: stripUS cs := by rw [hr, stripUS_cons_ne hc]
  have d' : Decomp isSpaceB (lead ++ stripUS r ++ tl) lead (stripUS r) tl := by
    refine ⟨rfl, d.lead_sp, d.tl_sp, by rw [hstrip]; simp, ?_, ?_⟩
    · intro x hx; rw [hstrip] at hx; simp at hx; subst hx; exact hsp
    · rw [hstrip, trimmed_cons_iff]
      intro x hx
      have hmem : x ∈ stripUS r := by
        rw [hstrip]
        exact List.mem_cons_of_mem _ (List.mem_of_getLast? hx)
      exact (gchar_ne (hg x hmem)).2.2
  unfold pyBytes
  rw [hstr, hpy]
  simp only [Bool.not_true, Bool.false_eq_true, if_false, if_true]
  rw [d.eq, stripUS_decomp d.lead_sp d.tl_sp, pyInner_decomp d']
  unfold innerCheck
  rw [hf]
  simp

/-- CPython, special values -/
theorem py_special {s lead r tl : List Nat} (d : Decomp isSpaceB s lead r tl) {v : Num}
    (h : gate r tl = .special v) : pyBytes s = .ok v := by
  have hf := gate_special h
  have hg := strtod_full hf
  have hu : r.contains cUS = false := contains_false_of (fun c hc => (gchar_ne (hg c hc)).2.1)
  rw [py_nous d hu]
  unfold innerCheck
  rw [hf]; simp

theorem digit_or_dot_ne_us {a : Nat} (ha : a = 46 ∨ isDigit a = true) : a ≠ cUS := by
  intro e; subst e
  rcases ha with h | h
  · simp [cUS] at h
  · simp [isDigit, cUS] at h

theorem stripUS_gate_head {r : List Nat} {a : Nat} {as : List Nat}
    (hs : r.drop (signLen r) = a :: as) (ha : a = 46 ∨ isDigit a = true) :
    (stripUS r).drop (signLen (stripUS r)) = a :: stripUS as := by
  have hau := digit_or_dot_ne_us ha
  cases r with
  | nil => simp at hs
  | cons c cs =>
    simp only [signLen] at hs
    by_cases hc : isSign c = true
    · simp only [hc, if_true, List.drop_succ_cons, List.drop_zero] at hs
      subst hs
      have hcu : c ≠ cUS := by
        intro e; subst e; simp [isSign, cUS] at hc
      rw [stripUS_cons_ne hcu, stripUS_cons_ne hau]
      simp [signLen, hc]
    · simp only [hc] at hs
      simp only [Bool.false_eq_true, if_false, List.drop_zero, List.cons.injEq] at hs
      obtain ⟨rfl, rfl⟩ := hs
      rw [stripUS_cons_ne hau]
      simp [signLen, hc]

/-- a completely consumed text that starts (after the sign) with a digit or `.` is a decimal literal -/
theorem strtod_dec {x : List Nat} {a : Nat} {as : List Nat} {v : Num}
    (hs : x.drop (signLen x) = a :: as) (ha : a = 46 ∨ isDigit a = true)
    (hf : strtod x = some (x.length, v)) : ∀ c ∈ x, dchar c = true := by
  simp only [strtod] at hf
  split at hf
  · -- `_Py_parse_inf_or_nan` cannot match
    exfalso
    have hl : lower a = a := by
      rcases ha with h | h
      · subst h; rfl
      · simp only [isDigit, Bool.and_eq_true, decide_eq_true_eq] at h
        unfold lower
        rw [if_neg]; simp; omega
    have h1 : ciMatch (a :: as) sINF = false := by
      simp only [sINF, ciMatch, hl]
      rcases ha with h | h
      · subst h; rfl
      · simp only [isDigit, Bool.and_eq_true, decide_eq_true_eq] at h
        have : (a == 105) = false := by simp; omega
        simp [this]
    have h2 : ciMatch (a :: as) sNAN = false := by
      simp only [sNAN, ciMatch, hl]
      rcases ha with h | h
      · subst h; rfl
      · simp only [isDigit, Bool.and_eq_true, decide_eq_true_eq] at h
        have : (a == 110) = false := by simp; omega
        simp [this]
    simp [parseInfNan, hs, h1, h2] at hf
  · simp only [Option.some.injEq, Prod.mk.injEq] at hf
    have := decLen_take x
    rw [hf.1] at this
    simpa using this

/-- the copy rule is sound on region `r`: accepted + decimal text ⇒ CPython's digit rule -/
def RuleSound (rule : CopyRule) (r : List Nat) : Prop :=
  ruleOK rule r = true → (∀ c ∈ stripUS r, dchar c = true) → digitScan false false r = true

theorem resolve_innerCheck (text r : List Nat) (h : strtod text = strtod r) :
    resolve (afterStrtod text r.length) (innerCheck r r.length) = innerCheck r r.length := by
  unfold afterStrtod innerCheck
  rw [h]
  cases strtod r with
  | none => rfl
  | some nv =>
    obtain ⟨n, v⟩ := nv
    by_cases hn : n = r.length <;> simp [hn, resolve]

/-- **bytes / bytearray / ASCII str**: the compiled `float(x)` equals CPython's, whenever the copy rule is sound
on the trimmed region. -/
theorem cyFloatBytes_eq (P : Params) (s : List Nat)
    (H : RuleSound P.ruleB (region isSpaceB (s.dropWhile isSpaceB))) :
    cyFloatBytes P s = pyBytes s := by
  unfold cyFloatBytes cyBytes
  by_cases ha : s.dropWhile isSpaceB = []
  · simp [ha, resolve]
  · have d := decomp_of isSpaceB s ha
    have hst := stopHead_of_spaces d.tl_sp
    simp only [if_neg ha]
    generalize hr : region isSpaceB (s.dropWhile isSpaceB) = r at *
    generalize htl : (s.dropWhile isSpaceB).drop r.length = tl at *
    cases hg : gate r tl with
    | special v => simp only [resolve]; exact (py_special d hg).symm
    | fail => rfl
    | numeric =>
      simp only
      obtain ⟨c, cs, hrc, hcu, _⟩ := gate_numeric_head hg hst
      obtain ⟨a, as, hsa, haa⟩ := gate_numeric hg hst
      by_cases hu : r.contains cUS = true
      · simp only [hu, Bool.not_true, Bool.false_eq_true, if_false]
        by_cases hok : ruleOK P.ruleB r = true
        · simp only [hok, if_true]
          unfold afterStrtod
          cases hs : strtod (stripUS r) with
          | none =>
            simp only [resolve]
            exact (py_none d hrc hcu (List.contains_iff_mem.1 hu) hs).symm
          | some nv =>
            obtain ⟨n, v⟩ := nv
            by_cases hn : n = (stripUS r).length
            · subst hn
              simp only [if_true, resolve]
              have hd := strtod_dec (stripUS_gate_head hsa haa) haa hs
              exact (py_full d (H hok hd) (List.contains_iff_mem.1 hu) hs).symm
            · simp [hn, resolve]
        · simp [hok, resolve]
      · have hu' : r.contains cUS = false := by simpa using hu
        simp only [hu', Bool.not_false, if_true]
        rw [py_nous d hu', d.dropWhile]
        exact resolve_innerCheck _ _ (strtod_append hst)

theorem ruleSound_digits (r : List Nat) : RuleSound .digits r := fun h _ => h

theorem noUSSign_append_left {x y : List Nat} (h : noUSSign (x ++ y) = true) : noUSSign x = true := by
  induction x with
  | nil => rfl
  | cons a as ih =>
    cases as with
    | nil => rfl
    | cons b bs =>
      simp only [List.cons_append, noUSSign, Bool.and_eq_true] at h ⊢
      exact ⟨h.1, ih h.2⟩

theorem noUSSign_append_right {x y : List Nat} (h : noUSSign (x ++ y) = true) : noUSSign y = true := by
  induction x with
  | nil => exact h
  | cons a as ih =>
    apply ih
    cases hh : as ++ y with
    | nil => rfl
    | cons b bs =>
      rw [List.cons_append, hh] at h
      simp only [noUSSign, Bool.and_eq_true] at h
      exact h.2

theorem ruleSound_punct (S : List Nat)
    (hS : S.contains 95 = true ∧ S.contains 46 = true ∧ S.contains 101 = true ∧ S.contains 69 = true)
    (r : List Nat) (hadj : (S.contains 43 = true ∧ S.contains 45 = true) ∨ noUSSign r = true) :
    RuleSound (.punct S) r := by
  intro hok hd
  have h46 : S.contains 46 = true := hS.2.1
  have := punct_imp_digit S hS 46 r (Or.inl (by decide))
    (fun c hc => by
      by_cases e : c = cUS
      · exact Or.inr e
      · exact Or.inl (hd c (mem_stripUS.2 ⟨hc, e⟩)))
    (by
      rcases hadj with h | h
      · exact Or.inl h
      · right
        cases r with
        | nil => rfl
        | cons b bs =>
          simp only [noUSSign, Bool.and_eq_true]
          exact ⟨by simp [isSign, cUS], h⟩)
    (by rw [h46]; exact hok)
  rw [show isDigit 46 = false from rfl, show (46 == cUS) = false from rfl] at this
  exact this

/-- the trimmed region is a contiguous part of the string -/
theorem noUSSign_region {s : List Nat} (h : noUSSign s = true) :
    noUSSign (region isSpaceB (s.dropWhile isSpaceB)) = true := by
  by_cases ha : s.dropWhile isSpaceB = []
  · rw [ha]; rfl
  · have d := decomp_of isSpaceB s ha
    have e := d.eq
    rw [e] at h
    exact noUSSign_append_right (noUSSign_append_left h)

/-- CPython, no `_` and the region is consumed completely -/
theorem py_whole {s lead r tl : List Nat} (d : Decomp isSpaceB s lead r tl) {v : Num}
    (hf : strtod r = some (r.length, v)) : pyBytes s = .ok v := by
  have hg := strtod_full hf
  have hu : r.contains cUS = false := contains_false_of (fun c hc => (gchar_ne (hg c hc)).2.1)
  rw [py_nous d hu]
  unfold innerCheck
  rw [hf]; simp

/-- a text that ends in `?` is never a float -/
theorem pyInner_question (y : List Nat) : pyInner (y ++ [63]) = .err "ValueError" := by
  have hz : ∃ z, (y ++ [63]).dropWhile isSpaceB = z ++ [63] := by
    induction y with
    | nil => exact ⟨[], by simp [isSpaceB]⟩
    | cons c cs ih =>
      rw [List.cons_append, List.dropWhile_cons]
      split
      · exact ih
      · exact ⟨c :: cs, rfl⟩
  obtain ⟨z, hz⟩ := hz
  unfold pyInner
  simp only [hz]
  rw [if_neg (by simp)]
  have hreg : region isSpaceB (z ++ [63]) = z ++ [63] := by
    cases z with
    | nil => rfl
    | cons c cs =>
      have : Trimmed isSpaceB (c :: (cs ++ [63])) :=
        trimmed_cons_iff.2 (fun d hd => by
          rw [List.getLast?_concat] at hd
          simp at hd; subst hd; rfl)
      exact this
  rw [hreg]
  exact innerCheck_err_of_bad (b := 63) (by simp) (by decide)

theorem pyBytes_question (x : List Nat) : pyBytes (x ++ [63]) = .err "ValueError" := by
  unfold pyBytes
  split
  · exact pyInner_question x
  · split
    · rw [stripUS_append, show stripUS [63] = [63] from rfl]
      exact pyInner_question _
    · rfl

import CyVerif.Lemmas.C19Extract
/-! From `extract_common_conditions` to the equality of the emitted switch with the if-chain. -/
namespace CyVerif.C19

/-- every variable holds a value of its C type -/
def EnvWF (vk : Nat → VarKind) (env : Env) : Prop :=
  ∀ v ty glo ghi e, vk v = .cint ty glo ghi e → ty.has (env.val v) = true

/-- constants of a test are writable in C; side facts about own-enum members / extern constants -/
def CondOK (vk : Nat → VarKind) (ext : Nat → Int) : Cond → Prop
  | .cmp _ v c => c.WF ∧ (∀ ty glo ghi e, vk v = .cint ty glo ghi e → SideOK ty ext c)
  | .inStr _ _ chars _ => ∀ ch ∈ chars, ch < 2 ^ 31
  | .bin _ a b => CondOK vk ext a ∧ CondOK vk ext b
  | .not a => CondOK vk ext a
  | .other _ => True

theorem any_congr_mem {α} (l : List α) (f g : α → Bool) (h : ∀ x ∈ l, f x = g x) : l.any f = l.any g := by
  induction l with
  | nil => rfl
  | cons a as ih =>
    simp only [List.any_cons]
    rw [h a (by simp), ih (fun x hx => h x (by simp [hx]))]

theorem mem_strConsts (k : Const) (chars : List Nat) (bytes : Bool) (h : k ∈ strConsts chars bytes) :
    ∃ ch ∈ chars, k = (if bytes then .bchr ch else .chr ch) := by
  unfold strConsts at h
  simp only [List.mem_map, mem_sortDedup] at h
  obtain ⟨ch, hch, rfl⟩ := h
  exact ⟨ch, hch, rfl⟩

/-- the constants returned by `extract_conditions` come from the test -/
theorem extract_consts_ok (V : Variant) (vk : Nat → VarKind) (ext : Nat → Int) :
    ∀ (c : Cond) (allowNot ni : Bool) (v : Nat) (cs : List Const),
      extract V vk c allowNot = some (ni, v, cs) → CondOK vk ext c →
      ∀ k ∈ cs, k.WF ∧ k.isPy = false ∧ (∀ ty glo ghi e, vk v = .cint ty glo ghi e → SideOK ty ext k) := by
  intro c
  induction c with
  | cmp ne w k0 =>
    intro allowNot ni v cs h hok k hk
    unfold extract at h
    split at h
    · cases h
    · rename_i hpy
      split at h
      · cases h
      · simp only [Option.some.injEq, Prod.mk.injEq] at h
        obtain ⟨rfl, rfl, rfl⟩ := h
        simp only [List.mem_singleton] at hk
        subst hk
        simp only [Bool.or_eq_true, not_or, Bool.not_eq_true] at hpy
        exact ⟨hok.1, hpy.2, hok.2⟩
  | inStr notin w chars bytes =>
    intro allowNot ni v cs h hok k hk
    unfold extract at h
    split at h
    · split at h
      · cases h
      · simp only [Option.some.injEq, Prod.mk.injEq] at h
        obtain ⟨rfl, rfl, rfl⟩ := h
        obtain ⟨ch, hch, rfl⟩ := mem_strConsts k chars bytes hk
        have := hok ch hch
        cases bytes <;> simp [Const.WF, Const.isPy, SideOK, this]
    · cases h
  | bin isAnd a b iha ihb =>
    intro allowNot ni v cs h hok k hk
    unfold extract at h
    cases hV : V.andFix <;> simp only [hV, Bool.false_eq_true, ↓reduceIte] at h
    all_goals
      split at h
      · split at h
        · rename_i n1 t1 c1 n2 t2 c2 ha hb
          split at h
          · rename_i hcommon
            split at h
            · simp only [Option.some.injEq, Prod.mk.injEq] at h
              obtain ⟨rfl, rfl, rfl⟩ := h
              simp only [Bool.and_eq_true, beq_iff_eq] at hcommon
              obtain ⟨rfl, rfl⟩ := hcommon
              simp only [List.mem_append] at hk
              rcases hk with hk | hk
              · exact iha _ _ _ _ ha hok.1 k hk
              · exact ihb _ _ _ _ hb hok.2 k hk
            · cases h
          · cases h
        · cases h
      · cases h
  | not a _ => intro allowNot ni v cs h; simp [extract] at h
  | other k => intro allowNot ni v cs h; simp [extract] at h

/-- what a successful `extract_common_conditions` guarantees -/
theorem extractCommon_some (V : Variant) (vk : Nat → VarKind) (common : Option Nat) (c : Cond) (allowNot : Bool)
    (ni : Bool) (v : Nat) (cs : List Const) (h : extractCommon V vk common c allowNot = some (ni, v, cs)) :
    extract V vk c allowNot = some (ni, v, cs) ∧ isCInt (vk v) = true ∧ (∀ k ∈ cs, k.isIntTyped = true) ∧
    (V.rangeGuard = true → ∀ k ∈ cs, safeValue V (vk v) k = true) ∧ (∀ w, common = some w → w = v) := by
  unfold extractCommon at h
  cases hex : extract V vk c allowNot with
  | none => simp [hex] at h
  | some r =>
    obtain ⟨ni', v', cs'⟩ := r
    simp [hex] at h
    obtain ⟨hc, ⟨hint1, hint2⟩, hg, rfl, rfl, rfl⟩ := h
    refine ⟨rfl, hint1, hint2, hg, ?_⟩
    intro w hw
    subst hw
    simpa using hc

/-- a constant that passed extraction and the range guard: the if-chain test, the case label
and Python's `==` all decide `value = constant` -/
theorem eq_all_of_guard (V : Variant) (vk : Nat → VarKind) (env : Env) (v : Nat) (k : Const)
    (ty : CTy) (glo ghi : Int) (e : Bool) (hvk : vk v = .cint ty glo ghi e)
    (hwf : (vk v).WF) (henv : EnvWF vk env) (hk : k.WF) (hpy : k.isPy = false) (hint : k.isIntTyped = true)
    (hside : SideOK ty env.ext k) (hsafe : safeValue V (vk v) k = true) :
    eqSem vk env v k = swEq ty (env.val v) (k.cval env.ext) ∧ eqSem vk env v k = eqPy env v k := by
  rw [hvk] at hwf hsafe
  have hfit := fits_of_safe V ty glo ghi e k env.ext hwf hk hside hint hsafe
  have hx := henv v ty glo ghi e hvk
  have hkey := cEq_swEq_of_fits ty hwf.1 (env.val v) hx k.cty (k.cval env.ext) hfit.1
  unfold eqSem eqPy
  simp only [hvk, hpy, hint, Bool.not_true, Bool.or_self, Bool.false_eq_true, ↓reduceIte]
  rw [hkey.1, hkey.2, hfit.2]
  simp only [true_and]
  by_cases hh : env.val v = Const.pyval env.ext k <;> simp [hh]

/-- the same from the bare facts the guard establishes -/
theorem eq_all_of_fits (vk : Nat → VarKind) (env : Env) (v : Nat) (k : Const)
    (ty : CTy) (glo ghi : Int) (e : Bool) (hvk : vk v = .cint ty glo ghi e)
    (hwf : (vk v).WF) (henv : EnvWF vk env) (hpy : k.isPy = false) (hint : k.isIntTyped = true)
    (hfit : ty.promote.has (k.cval env.ext) = true ∧ k.cval env.ext = k.pyval env.ext) :
    eqSem vk env v k = swEq ty (env.val v) (k.cval env.ext) ∧ eqSem vk env v k = eqPy env v k := by
  rw [hvk] at hwf
  have hx := henv v ty glo ghi e hvk
  have hkey := cEq_swEq_of_fits ty hwf.1 (env.val v) hx k.cty (k.cval env.ext) hfit.1
  unfold eqSem eqPy
  simp only [hvk, hpy, hint, Bool.not_true, Bool.or_self, Bool.false_eq_true, ↓reduceIte]
  rw [hkey.1, hkey.2, hfit.2]
  simp only [true_and]
  by_cases hh : env.val v = Const.pyval env.ext k <;> simp [hh]

/-- explicit form of what the range guard checks: every constant that a C integer variable is
compared with denotes its Python value in C and fits the promoted type of the variable -/
def FitsCond (vk : Nat → VarKind) (ext : Nat → Int) : Cond → Prop
  | .cmp _ v k => ∀ ty glo ghi e, vk v = .cint ty glo ghi e → k.isPy = false → k.isIntTyped = true →
      ty.promote.has (k.cval ext) = true ∧ k.cval ext = k.pyval ext
  | .inStr _ v chars _ => ∀ ty glo ghi e, vk v = .cint ty glo ghi e →
      ∀ ch ∈ chars, ty.promote.has (ch : Int) = true ∧ ch < 2 ^ 31
  | .bin _ a b => FitsCond vk ext a ∧ FitsCond vk ext b
  | .not a => FitsCond vk ext a
  | .other _ => True

theorem chr_cval (ext : Nat → Int) (ch : Nat) (bytes : Bool) (h : ch < 2 ^ 31) :
    (if bytes then Const.bchr ch else Const.chr ch).cval ext = (ch : Int) ∧
    (if bytes then Const.bchr ch else Const.chr ch).pyval ext = (ch : Int) := by
  cases bytes <;> simp only [Bool.false_eq_true, ↓reduceIte, Const.cval, Const.lit, Const.pyval, and_true]
  all_goals
    rw [lit_val_eq] <;> simp
    omega

theorem extract_fits (V : Variant) (vk : Nat → VarKind) (ext : Nat → Int) :
    ∀ (c : Cond) (allowNot ni : Bool) (v : Nat) (cs : List Const),
      extract V vk c allowNot = some (ni, v, cs) → FitsCond vk ext c →
      ∀ ty glo ghi e, vk v = .cint ty glo ghi e → ∀ k ∈ cs, k.isPy = false → k.isIntTyped = true →
        ty.promote.has (k.cval ext) = true ∧ k.cval ext = k.pyval ext := by
  intro c
  induction c with
  | cmp ne w k0 =>
    intro allowNot ni v cs h hok ty glo ghi e hvk k hk hpy hint
    unfold extract at h
    split at h
    · cases h
    · split at h
      · cases h
      · simp only [Option.some.injEq, Prod.mk.injEq] at h
        obtain ⟨rfl, rfl, rfl⟩ := h
        simp only [List.mem_singleton] at hk
        subst hk
        exact hok ty glo ghi e hvk hpy hint
  | inStr notin w chars bytes =>
    intro allowNot ni v cs h hok ty glo ghi e hvk k hk hpy hint
    unfold extract at h
    split at h
    · split at h
      · cases h
      · simp only [Option.some.injEq, Prod.mk.injEq] at h
        obtain ⟨rfl, rfl, rfl⟩ := h
        obtain ⟨ch, hch, rfl⟩ := mem_strConsts k chars bytes hk
        obtain ⟨h1, h2⟩ := hok ty glo ghi e hvk ch hch
        obtain ⟨e1, e2⟩ := chr_cval ext ch bytes h2
        rw [e1, e2]
        exact ⟨h1, rfl⟩
    · cases h
  | bin isAnd a b iha ihb =>
    intro allowNot ni v cs h hok ty glo ghi e hvk k hk hpy hint
    unfold extract at h
    cases hV : V.andFix <;> simp only [hV, Bool.false_eq_true, ↓reduceIte] at h
    all_goals
      split at h
      · split at h
        · rename_i n1 t1 c1 n2 t2 c2 ha hb
          split at h
          · rename_i hcommon
            split at h
            · simp only [Option.some.injEq, Prod.mk.injEq] at h
              obtain ⟨rfl, rfl, rfl⟩ := h
              simp only [Bool.and_eq_true, beq_iff_eq] at hcommon
              obtain ⟨rfl, rfl⟩ := hcommon
              simp only [List.mem_append] at hk
              rcases hk with hk | hk
              · exact iha _ _ _ _ ha hok.1 ty glo ghi e hvk k hk hpy hint
              · exact ihb _ _ _ _ hb hok.2 ty glo ghi e hvk k hk hpy hint
            · cases h
          · cases h
        · cases h
      · cases h
  | not a _ => intro allowNot ni v cs h; simp [extract] at h
  | other k => intro allowNot ni v cs h; simp [extract] at h

end CyVerif.C19

import CyVerif.Lemmas.C23Sim
import CyVerif.Model.C23Run
namespace CyVerif.C23
variable {σ ι : Type}

theorem probe_eq {c : CyObj σ ι} {p : PyObj σ ι} (h : RelN c p) : cyProbe c = pyProbe p := by
  cases h with
  | deleg hd =>
    cases hd with
    | null => rfl
    | opq o => rfl
    | gen s h => cases h <;> simp [cyProbe, pyProbe, pyYf]
  | created s => simp [cyProbe, pyProbe, pyYf]
  | finished s s' => simp [cyProbe, pyProbe, pyYf]

/-- `send` on a finished generator: Cython reports StopIteration as an error of the am_send slot, CPython returns
None from `gen_send_ex2`; the `send` method raises StopIteration in both -/
theorem sim_send_finished (fl : Flags) (B : Body σ ι) (O : OpqSem ι) (n : Nat) (st st' : σ) (v : Val) :
    outOfOp (.send v) (cyRun fl B O n (.gen .finished false st .null) (.send v)).out =
      outOfOp (.send v) (pyRun fl.coro B O n (.gen .cleared st' .null) (.send v)).out ∧
    (cyRun fl B O n (.gen .finished false st .null) (.send v)).log = (pyRun fl.coro B O n (.gen .cleared st' .null) (.send v)).log ∧
    (pyRun fl.coro B O n (.gen .cleared st' .null) (.send v)).devs = [] ∧
    (outOfOp (.send v) (pyRun fl.coro B O n (.gen .cleared st' .null) (.send v)).out ≠ .diverged →
      RelN (cyRun fl B O n (.gen .finished false st .null) (.send v)).obj (pyRun fl.coro B O n (.gen .cleared st' .null) (.send v)).obj) := by
  cases n with
  | zero => simp [cyRun, pyRun, cyDiv, pyDiv, outOfOp, outOfRes, methodReturn]
  | succ n =>
    simp only [cyRun, pyRun, cyF, pyF, cyAmSend, Bool.false_eq_true, if_false, cySendEx, pySendEx2, Bool.not_false, Bool.and_true]
    cases fl.coro <;> simp [cyUnset, outOfOp, outOfRes, methodReturn, CyObj.setRunning] <;> exact .finished st st'

/-- one method call of a history -/
theorem sim_method (fl : Flags) (B : Body σ ι) (O : OpqSem ι) (n : Nat) (c : CyObj σ ι) (p : PyObj σ ι) (h : RelN c p) (op : Op)
    (hd : okDevs fl (pyMethod (pyRun fl.coro B O n) p op).2.2.2) :
    (cyMethod (cyRun fl B O n) c op).1 = (pyMethod (pyRun fl.coro B O n) p op).1 ∧
    (cyMethod (cyRun fl B O n) c op).2.2 = (pyMethod (pyRun fl.coro B O n) p op).2.2.1 ∧
    ((pyMethod (pyRun fl.coro B O n) p op).1 ≠ .diverged →
      RelN (cyMethod (cyRun fl B O n) c op).2.1 (pyMethod (pyRun fl.coro B O n) p op).2.1) := by
  have H := sim_run fl B O n
  have gen : ∀ op : Op, ReqOk c (reqOfOp op) → okDevs fl (pyRun fl.coro B O n p (reqOfOp op)).devs →
      outOfOp op (cyRun fl B O n c (reqOfOp op)).out = outOfOp op (pyRun fl.coro B O n p (reqOfOp op)).out ∧
      (cyRun fl B O n c (reqOfOp op)).log = (pyRun fl.coro B O n p (reqOfOp op)).log ∧
      RelN (cyRun fl B O n c (reqOfOp op)).obj (pyRun fl.coro B O n p (reqOfOp op)).obj := by
    intro op hok hd
    obtain ⟨h1, h2, h3⟩ := H.nonrun c p _ h hok hd
    exact ⟨by rw [h1], h2, h3.1⟩
  cases op with
  | probe => exact ⟨probe_eq h, rfl, fun _ => h⟩
  | next =>
    obtain ⟨h1, h2, h3⟩ := gen .next trivial hd
    exact ⟨h1, h2, fun _ => h3⟩
  | throw e =>
    obtain ⟨h1, h2, h3⟩ := gen (.throw e) trivial hd
    exact ⟨h1, h2, fun _ => h3⟩
  | close =>
    obtain ⟨h1, h2, h3⟩ := gen .close trivial hd
    exact ⟨h1, h2, fun _ => h3⟩
  | send v =>
    by_cases hf : c.isFinished = true
    · cases h with
      | deleg hdd => cases hdd <;> simp [CyObj.isFinished] at hf
      | created s => simp [CyObj.isFinished] at hf
      | finished s s' =>
        obtain ⟨h1, h2, _, h4⟩ := sim_send_finished fl B O n s s' v
        exact ⟨h1, h2, h4⟩
    · obtain ⟨h1, h2, h3⟩ := gen (.send v) (by simpa [ReqOk, reqOfOp] using hf) hd
      exact ⟨h1, h2, fun _ => h3⟩

/-- histories: the traces agree as long as the CPython run passes through no unrepaired deviation -/
theorem sim_trace (fl : Flags) (B : Body σ ι) (O : OpqSem ι) (n : Nat) (hist : List HOp) :
    ∀ (c : CyObj σ ι) (p : PyObj σ ι), RelN c p → okDevs fl (pyDevs fl.coro B O n p hist) →
      cyTrace fl B O n c hist = pyTrace fl.coro B O n p hist := by
  have hfin : ∀ (c : CyObj σ ι) (p : PyObj σ ι), RelN c p → okDevs fl (pyRun fl.coro B O n p .del).devs →
      [((if (cyRun fl B O n c .del).out = .div then Out.diverged else .deleted), (cyRun fl B O n c .del).log)] =
      [((if (pyRun fl.coro B O n p .del).out = .div then Out.diverged else .deleted), (pyRun fl.coro B O n p .del).log)] := by
    intro c p h hd
    obtain ⟨h1, h2, _⟩ := (sim_run fl B O n).nonrun c p .del h trivial hd
    rw [h1, h2]
  induction hist with
  | nil =>
    intro c p h hd
    exact hfin c p h hd
  | cons x rest ih =>
    intro c p h hd
    cases x with
    | del => exact hfin c p h hd
    | op o =>
      simp only [cyTrace, pyTrace, pyDevs] at hd ⊢
      by_cases hdiv : (pyMethod (pyRun fl.coro B O n) p o).1 = .diverged
      · simp only [hdiv, if_true] at hd ⊢
        obtain ⟨h1, h2, _⟩ := sim_method fl B O n c p h o hd
        simp only [h1, hdiv, if_true, h2]
      · simp only [hdiv, if_false, okDevs_append] at hd ⊢
        obtain ⟨h1, h2, h3⟩ := sim_method fl B O n c p h o hd.1
        simp only [h1, hdiv, if_false, h2]
        rw [ih _ _ (h3 hdiv) hd.2]

end CyVerif.C23

import CyVerif.Lemmas.C49Steps3
/-! Simulation of `insertion_point`. -/
namespace CyVerif.C49
open Forest

theorem addChildH_eq {H : Heap} {b c : Nat} {n : Node} (hn : H[b]? = some n) :
    addChildH H b c = H.set b { n with children := n.children ++ [c] } := by
  simp [addChildH, hn]

/-- appending a fresh empty named child to a node whose stream is empty -/
theorem step_addNew {σ : St} {sp : Spec} {F : Forest} (h : Sim σ sp F) {k b : Nat}
    (hk : σ.handles[k]? = some b) {kids0 : Forest} (hfind : F.find b = some ([], kids0)) :
    Sim ⟨addChildH σ.heap b σ.heap.length ++ [emptyNode], σ.handles ++ [σ.heap.length]⟩
      ⟨insBefore (Item.cl k) [Item.op sp.n, Item.cl sp.n] sp.doc, sp.n + 1, sp.roots⟩
      (F.modify b (fun fs kids => (fs, kids.append (leaf σ.heap.length (some σ.handles.length) [])))) := by
  have htag := h.h2t k b hk
  obtain ⟨n, hn, hch, hst, hmk, hck, hbk, _⟩ := Cons_find F h.cons hfind h.ids
  have hlt : b < σ.heap.length := (List.getElem?_eq_some_iff.1 hn).1
  have hH := addChildH_eq (c := σ.heap.length) hn
  have hfr : ∀ i, i ≠ b → ∀ nd, σ.heap[i]? = some nd →
      (addChildH σ.heap b σ.heap.length ++ [emptyNode])[i]? = some nd := by
    intro i hi nd hnd
    apply getElem?_push_of_some
    rw [hH, List.getElem?_set_ne (Ne.symm hi)]; exact hnd
  rw [← h.doc]
  refine Sim_modify (new := [(σ.heap.length, some σ.handles.length)]) h.cons h.ids h.names h.ne h.roots
    hfind htag ?_ ?_ ?_ hfr ?_ ?_ ?_ ?_ ?_ ?_ ?_
  · simp [Forest.doc_append, leaf, Forest.doc, wrap, fragItems, h.n]
  · simp [Forest.tags_append, leaf, Forest.tags]
  · intro fs kids hfs hkids
    exact ⟨hfs, Forest.NE_append hkids ⟨by simp, trivial, trivial⟩⟩
  · refine ⟨{ n with children := n.children ++ [σ.heap.length] }, ?_, ?_, hst, hmk⟩
    · apply getElem?_push_of_some
      rw [hH]; exact List.getElem?_set_self hlt
    · simp [Forest.rootIds_append, leaf, Forest.rootIds, hch]
  · refine Cons_append ?_ ?_
    · exact Cons_frame (fun i hi nd hnd => hfr i (fun e => hbk (e ▸ hi)) nd hnd) hck
    · refine Cons_leaf (s := "") (ms := []) ?_ rfl rfl
      have : σ.heap.length = (addChildH σ.heap b σ.heap.length).length := by
        rw [hH]; simp
      conv => lhs; arg 2; rw [this]
      exact List.getElem?_concat_length
  · exact nodup_ids_push h.ids (h.fresh_id (Nat.le_refl _))
  · exact nodup_names_push_some h.names h.fresh_name
  · simp [h.n]
  · exact h2t_push _ h.h2t
  · exact t2h_push _ h.t2h

/-- `insertion_point`: a fresh empty segment immediately before the buffer's cursor -/
theorem step_ip {σ : St} {sp : Spec} {F : Forest} (h : Sim σ sp F) {k b : Nat}
    (hk : σ.handles[k]? = some b) :
    ∃ F', Sim ⟨addChildH (commitH σ.heap b) b (commitH σ.heap b).length ++ [emptyNode],
          σ.handles ++ [(commitH σ.heap b).length]⟩
      ⟨insBefore (Item.cl k) [Item.op sp.n, Item.cl sp.n] sp.doc, sp.n + 1, sp.roots⟩ F' := by
  obtain ⟨F1, kids1, h1, hf1⟩ := step_commit h hk
  exact ⟨_, step_addNew h1 hk hf1⟩

end CyVerif.C49

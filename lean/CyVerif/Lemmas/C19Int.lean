import CyVerif.Model.C19Int
/-! `__Pyx_PyObject_CompareIntInt` decides the order of the two integers. -/
namespace CyVerif.C19

theorem magBE_lt (B : Nat) : ∀ (xs : List Nat), (∀ d ∈ xs, d < B) → magBE B xs < B ^ xs.length := by
  intro xs
  induction xs with
  | nil => intro _; simp [magBE]
  | cons x xs ih =>
    intro h
    have hx : x < B := h x (by simp)
    have hm := ih (fun d hd => h d (by simp [hd]))
    simp only [magBE, List.length_cons, Nat.pow_succ]
    have h1 : x * B ^ xs.length + B ^ xs.length ≤ B * B ^ xs.length := by
      have : (x + 1) * B ^ xs.length ≤ B * B ^ xs.length := Nat.mul_le_mul_right _ hx
      rw [Nat.add_mul, Nat.one_mul] at this
      exact this
    rw [Nat.mul_comm (B ^ xs.length) B]
    omega

theorem magBE_ge (B : Nat) (x : Nat) (xs : List Nat) (hx : x ≠ 0) : B ^ xs.length ≤ magBE B (x :: xs) := by
  simp only [magBE]
  have : 1 * B ^ xs.length ≤ x * B ^ xs.length := Nat.mul_le_mul_right _ (by omega)
  omega

/-- the digit loop has the sign of the difference of the magnitudes -/
theorem digitLoop_sign (B : Nat) : ∀ (xs ys : List Nat), xs.length = ys.length →
    (∀ d ∈ xs, d < B) → (∀ d ∈ ys, d < B) →
    (digitLoop xs ys < 0 ↔ magBE B xs < magBE B ys) ∧ (0 < digitLoop xs ys ↔ magBE B ys < magBE B xs) := by
  intro xs
  induction xs with
  | nil => intro ys hl _ _; cases ys <;> simp_all [digitLoop, magBE]
  | cons x xs ih =>
    intro ys hl hx hy
    cases ys with
    | nil => simp at hl
    | cons y ys =>
      simp only [List.length_cons, Nat.add_right_cancel_iff] at hl
      have hmx := magBE_lt B xs (fun d hd => hx d (by simp [hd]))
      have hmy := magBE_lt B ys (fun d hd => hy d (by simp [hd]))
      rw [← hl] at hmy
      have ih' := ih ys hl (fun d hd => hx d (by simp [hd])) (fun d hd => hy d (by simp [hd]))
      simp only [digitLoop, magBE, ← hl]
      generalize hP : B ^ xs.length = P at *
      rcases Nat.lt_trichotomy x y with hlt | heq | hgt
      · have h1 : (x + 1) * P ≤ y * P := Nat.mul_le_mul_right _ hlt
        rw [Nat.add_mul, Nat.one_mul] at h1
        have hne : (x : Int) - (y : Int) ≠ 0 := by omega
        simp only [hne, ne_eq, not_false_eq_true, ↓reduceIte]
        generalize x * P = t at *
        generalize y * P = u at *
        omega
      · subst heq
        simp only [Int.sub_self, ne_eq, not_true_eq_false, ↓reduceIte]
        generalize x * P = t at *
        omega
      · have h1 : (y + 1) * P ≤ x * P := Nat.mul_le_mul_right _ hgt
        rw [Nat.add_mul, Nat.one_mul] at h1
        have hne : (x : Int) - (y : Int) ≠ 0 := by omega
        simp only [hne, ne_eq, not_false_eq_true, ↓reduceIte]
        generalize x * P = t at *
        generalize y * P = u at *
        omega

/-- also the 1- and 2-digit fast paths -/
theorem digitCmp_sign (B : Nat) (xs ys : List Nat) (hl : xs.length = ys.length)
    (hx : ∀ d ∈ xs, d < B) (hy : ∀ d ∈ ys, d < B) :
    (digitCmp B xs ys < 0 ↔ magBE B xs < magBE B ys) ∧ (0 < digitCmp B xs ys ↔ magBE B ys < magBE B xs) := by
  unfold digitCmp
  split
  · simp [magBE]; omega
  · simp [magBE]; omega
  · exact digitLoop_sign B xs ys hl hx hy

theorem mag_pos (B : Nat) (hB : 2 ≤ B) (p : PyInt) (hw : p.WF B) (hne : p.ds ≠ []) : 0 < magBE B p.ds := by
  cases hds : p.ds with
  | nil => exact absurd hds hne
  | cons x xs =>
    have := magBE_ge B x xs (hw.2.1 x xs hds)
    have hp : 0 < B ^ xs.length := Nat.pow_pos (by omega)
    omega

/-- more digits, larger magnitude (canonical digit strings) -/
theorem mag_lt_of_length_lt (B : Nat) (hB : 2 ≤ B) (a b : PyInt) (ha : a.WF B) (hb : b.WF B)
    (hl : a.ds.length < b.ds.length) : magBE B a.ds < magBE B b.ds := by
  have h1 := magBE_lt B a.ds ha.1
  cases hds : b.ds with
  | nil => simp [hds] at hl
  | cons y ys =>
    have h2 := magBE_ge B y ys (hb.2.1 y ys hds)
    rw [hds] at hl
    simp only [List.length_cons] at hl
    have h3 : B ^ a.ds.length ≤ B ^ ys.length := Nat.pow_le_pow_right (by omega) (by omega)
    omega

theorem finalCmp_spec (op : CmpOp) (c x y : Int) (hneg : c < 0 ↔ x < y) (hpos : 0 < c ↔ y < x) (hc : c ≠ 0) :
    finalCmp op c = op.holds x y := by
  cases op <;> simp only [finalCmp, CmpOp.holds] <;> rw [Bool.eq_iff_iff] <;> simp <;> omega

theorem signTag_cases (p : PyInt) :
    (p.ds = [] ∧ p.signTag = 1) ∨ (p.ds ≠ [] ∧ p.neg = true ∧ p.signTag = 2) ∨ (p.ds ≠ [] ∧ p.neg = false ∧ p.signTag = 0) := by
  unfold PyInt.signTag
  cases hds : p.ds with
  | nil => simp
  | cons x xs => cases hn : p.neg <;> simp

/-- sign of the value from the tag -/
theorem val_of_tag (B : Nat) (hB : 2 ≤ B) (p : PyInt) (hw : p.WF B) :
    (p.signTag = 1 → p.val B = 0) ∧ (p.signTag = 2 → p.val B < 0 ∧ p.val B = -(magBE B p.ds : Int)) ∧
    (p.signTag = 0 → 0 < p.val B ∧ p.val B = (magBE B p.ds : Int)) := by
  rcases signTag_cases p with ⟨h1, h2⟩ | ⟨h1, h2, h3⟩ | ⟨h1, h2, h3⟩
  · have hn := hw.2.2 h1
    refine ⟨fun _ => by simp [PyInt.val, h1, hn, magBE], fun h => by omega, fun h => by omega⟩
  · have hp := mag_pos B hB p hw h1
    have hv : p.val B = -(magBE B p.ds : Int) := by simp [PyInt.val, h2]
    refine ⟨fun h => by omega, fun _ => ⟨by omega, hv⟩, fun h => by omega⟩
  · have hp := mag_pos B hB p hw h1
    have hv : p.val B = (magBE B p.ds : Int) := by simp [PyInt.val, h2]
    refine ⟨fun h => by omega, fun h => by omega, fun _ => ⟨by omega, hv⟩⟩

theorem css_same (a b : PyInt) (h : a.signTag = b.signTag ∧ a.ds.length = b.ds.length) :
    compareSignAndSize a b = 0 := by
  unfold compareSignAndSize; rw [if_pos h]

theorem css_gt (a b : PyInt) (h : a.signTag > b.signTag) : compareSignAndSize a b = -1 := by
  unfold compareSignAndSize
  rw [if_neg (by omega), if_pos h]

theorem css_lt (a b : PyInt) (h : a.signTag < b.signTag) : compareSignAndSize a b = 1 := by
  unfold compareSignAndSize
  rw [if_neg (by omega), if_neg (by omega), if_pos h]

theorem css_len (a b : PyInt) (ht : a.signTag = b.signTag) (hl : a.ds.length ≠ b.ds.length) :
    compareSignAndSize a b = (1 - (a.signTag : Int)) * ((a.ds.length : Int) - (b.ds.length : Int)) := by
  unfold compareSignAndSize
  rw [if_neg (fun h => hl h.2), if_neg (by omega), if_neg (by omega)]

theorem cii_nonzero (B : Nat) (op : CmpOp) (a b : PyInt) (c : Int) (h : compareSignAndSize a b = c) (hc : c ≠ 0) :
    compareIntInt B op a b = finalCmp op c := by
  unfold compareIntInt
  simp only [h, hc, ↓reduceIte]

theorem cii_zero (B : Nat) (op : CmpOp) (a b : PyInt) (h : compareSignAndSize a b = 0) :
    compareIntInt B op a b =
      (if (if a.ds.length > 0 then digitCmp B a.ds b.ds else 0) = 0 then op.isEqLeGe
       else finalCmp op (if a.neg then -(if a.ds.length > 0 then digitCmp B a.ds b.ds else 0)
                         else (if a.ds.length > 0 then digitCmp B a.ds b.ds else 0))) := by
  unfold compareIntInt
  simp only [h, ↓reduceIte]

theorem holds_refl (op : CmpOp) (x : Int) : op.holds x x = op.isEqLeGe := by
  cases op <;> simp [CmpOp.isEqLeGe, CmpOp.holds]

/-- **`__Pyx_PyObject_CompareIntInt<op>` = the comparison of the two integers**, for ints of any digit count -/
theorem compareIntInt_spec (B : Nat) (hB : 2 ≤ B) (op : CmpOp) (a b : PyInt) (ha : a.WF B) (hb : b.WF B) :
    compareIntInt B op a b = op.holds (a.val B) (b.val B) := by
  obtain ⟨az, an, ap⟩ := val_of_tag B hB a ha
  obtain ⟨bz, bn, bp⟩ := val_of_tag B hB b hb
  have hta : a.signTag = 0 ∨ a.signTag = 1 ∨ a.signTag = 2 := by
    rcases signTag_cases a with ⟨_, h⟩ | ⟨_, _, h⟩ | ⟨_, _, h⟩ <;> omega
  have htb : b.signTag = 0 ∨ b.signTag = 1 ∨ b.signTag = 2 := by
    rcases signTag_cases b with ⟨_, h⟩ | ⟨_, _, h⟩ | ⟨_, _, h⟩ <;> omega
  by_cases hsame : a.signTag = b.signTag ∧ a.ds.length = b.ds.length
  · rw [cii_zero B op a b (css_same a b hsame)]
    obtain ⟨ht, hl⟩ := hsame
    by_cases hlen : a.ds.length > 0
    · simp only [hlen, ↓reduceIte]
      have hS := digitCmp_sign B a.ds b.ds hl ha.1 hb.1
      have hane : a.ds ≠ [] := by intro h; simp [h] at hlen
      rcases signTag_cases a with ⟨h1, _⟩ | ⟨_, hneg, htag⟩ | ⟨_, hneg, htag⟩
      · exact absurd h1 hane
      · have hbt : b.signTag = 2 := by omega
        obtain ⟨_, va⟩ := an htag
        obtain ⟨_, vb⟩ := bn hbt
        by_cases hc : digitCmp B a.ds b.ds = 0
        · have hm : magBE B a.ds = magBE B b.ds := by omega
          rw [if_pos hc, va, vb, hm, holds_refl]
        · rw [if_neg hc]
          simp only [hneg, ↓reduceIte]
          apply finalCmp_spec <;> omega
      · have hbt : b.signTag = 0 := by omega
        obtain ⟨_, va⟩ := ap htag
        obtain ⟨_, vb⟩ := bp hbt
        by_cases hc : digitCmp B a.ds b.ds = 0
        · have hm : magBE B a.ds = magBE B b.ds := by omega
          rw [if_pos hc, va, vb, hm, holds_refl]
        · rw [if_neg hc]
          simp only [hneg, Bool.false_eq_true, ↓reduceIte]
          apply finalCmp_spec <;> omega
    · have hae : a.ds = [] := by
        cases h : a.ds with
        | nil => rfl
        | cons x xs => simp [h] at hlen
      have hbe : b.ds = [] := by
        cases h : b.ds with
        | nil => rfl
        | cons x xs => rw [hae, h] at hl; simp at hl
      have hat : a.signTag = 1 := by simp [PyInt.signTag, hae]
      have hbt : b.signTag = 1 := by simp [PyInt.signTag, hbe]
      simp only [hlen, ↓reduceIte]
      rw [az hat, bz hbt, holds_refl]
  · by_cases hgt : a.signTag > b.signTag
    · rw [cii_nonzero B op a b (-1) (css_gt a b hgt) (by omega)]
      have hlt : a.val B < b.val B := by
        have e2 := fun h => (an h).1
        have e3 := fun h => (ap h).1
        have e5 := fun h => (bn h).1
        have e6 := fun h => (bp h).1
        rcases hta with h | h | h <;> rcases htb with h' | h' | h' <;> omega
      apply finalCmp_spec <;> omega
    · by_cases hlt : a.signTag < b.signTag
      · rw [cii_nonzero B op a b 1 (css_lt a b hlt) (by omega)]
        have hvgt : b.val B < a.val B := by
          have e2 := fun h => (an h).1
          have e3 := fun h => (ap h).1
          have e5 := fun h => (bn h).1
          have e6 := fun h => (bp h).1
          rcases hta with h | h | h <;> rcases htb with h' | h' | h' <;> omega
        apply finalCmp_spec <;> omega
      · have hteq : a.signTag = b.signTag := by omega
        have hlne : a.ds.length ≠ b.ds.length := fun h => hsame ⟨hteq, h⟩
        have hord : (a.ds.length < b.ds.length → magBE B a.ds < magBE B b.ds) ∧
            (b.ds.length < a.ds.length → magBE B b.ds < magBE B a.ds) :=
          ⟨mag_lt_of_length_lt B hB a b ha hb, mag_lt_of_length_lt B hB b a hb ha⟩
        rcases hta with h | h | h
        · have hb0 : b.signTag = 0 := by omega
          obtain ⟨_, va⟩ := ap h
          obtain ⟨_, vb⟩ := bp hb0
          have hcv : compareSignAndSize a b = (a.ds.length : Int) - (b.ds.length : Int) := by
            rw [css_len a b hteq hlne, h]; simp
          rw [cii_nonzero B op a b _ hcv (by omega)]
          apply finalCmp_spec <;> omega
        · have hb1 : b.signTag = 1 := by omega
          exfalso
          rcases signTag_cases a with ⟨e1, _⟩ | ⟨_, _, t⟩ | ⟨_, _, t⟩ <;> try omega
          rcases signTag_cases b with ⟨e2, _⟩ | ⟨_, _, t⟩ | ⟨_, _, t⟩ <;> try omega
          apply hlne; rw [e1, e2]
        · have hb2 : b.signTag = 2 := by omega
          obtain ⟨_, va⟩ := an h
          obtain ⟨_, vb⟩ := bn hb2
          have hcv : compareSignAndSize a b = (b.ds.length : Int) - (a.ds.length : Int) := by
            rw [css_len a b hteq hlne, h]; simp; omega
          rw [cii_nonzero B op a b _ hcv (by omega)]
          apply finalCmp_spec <;> omega

end CyVerif.C19

import CyVerif.Lemmas.C10EscDecr
/-! Text literals: a successful, error-free run of Cython's loop gives CPython's value. -/
namespace CyVerif.C10

theorem takeWhile_eq_replicate (c : Nat) : ∀ l : List Nat,
    l.takeWhile (· = c) = List.replicate (l.takeWhile (· = c)).length c
  | [] => by simp
  | x :: xs => by
    by_cases hx : x = c
    · subst hx
      have ih := takeWhile_eq_replicate x xs
      simp only [List.takeWhile, decide_true, List.length_cons, List.replicate_succ]
      congr 1
    · simp [List.takeWhile, hx]

/-- CPython reads a run of `2m` equal braces in an f-string as `m` braces -/
theorem ref_brace_run (lk : Lookup) (c : Nat) (hc : c = 123 ∨ c = 125) (tail v : List Nat) (f : Nat)
    (hv : refLoop (refStep lk true) f tail = .ok v) (hf : tail.length < f) :
    ∀ (m f' : Nat), (List.replicate (2 * m) c ++ tail).length < f' →
      refLoop (refStep lk true) f' (List.replicate (2 * m) c ++ tail) = .ok (List.replicate m c ++ v) := by
  intro m
  induction m with
  | zero =>
    intro f' hf'
    simp only [Nat.mul_zero, List.replicate_zero, List.nil_append] at hf' ⊢
    rw [refLoop_fuel _ (refStep_decr lk true) f' f tail hf' hf, hv]
  | succ m ih =>
    intro f' hf'
    have e : List.replicate (2 * (m + 1)) c ++ tail = c :: c :: (List.replicate (2 * m) c ++ tail) := by
      rw [show 2 * (m + 1) = (2 * m + 1) + 1 by omega, List.replicate_succ, List.replicate_succ]; rfl
    rw [e] at hf' ⊢
    have h92 : c ≠ 92 := by rcases hc with rfl | rfl <;> decide
    have hstep : refStep lk true (c :: c :: (List.replicate (2 * m) c ++ tail)) =
        (.ok [c], List.replicate (2 * m) c ++ tail) := by
      simp [refStep, h92, hc]
    have hl : (List.replicate (2 * m) c ++ tail).length < f' := by
      simp only [List.length_cons] at hf'; omega
    have := refLoop_cons _ (refStep_decr lk true) c _ _ [c] _ f' f' hstep (ih f' hl) hl hf'
    rw [this, List.replicate_succ]; rfl

/-- every good round of Cython's loop on a text literal can be replayed by CPython's decoder -/
theorem H_text (P : LexP) (hP : P.WF) (lk : Lookup) (hlk : lk [] = .missing) (k : Kind) (hk : k.isText = true)
    (c : Nat) (rest : List Nat) (ch1 : Chunk) (rest1 : List Nat)
    (hs : cyStep P lk k false (c :: rest) = (.ok ch1, rest1)) (hg : ch1.nonfatal = false)
    (f : Nat) (v : List Nat) (hf : rest1.length < f)
    (hv : refLoop (refStep lk (decide (k = .f))) f rest1 = .ok v)
    (f' : Nat) (hf' : (c :: rest).length < f') :
    refLoop (refStep lk (decide (k = .f))) f' (c :: rest) = .ok (ch1.us ++ v) := by
  by_cases hb : k = .f ∧ (c = 123 ∨ c = 125)
  · obtain ⟨hkf, hc⟩ := hb
    have h92 : c ≠ 92 := by rcases hc with rfl | rfl <;> decide
    subst hkf
    simp only [cyStep, h92, if_false, hc, and_self, if_true, Bool.false_eq_true] at hs
    have hsplit : c :: rest = List.replicate ((c :: rest).takeWhile (· = c)).length c ++
        (c :: rest).drop ((c :: rest).takeWhile (· = c)).length := by
      have h1 := takeWhile_eq_replicate c (c :: rest)
      have h2 := List.take_append_drop ((c :: rest).takeWhile (· = c)).length (c :: rest)
      have h3 : (c :: rest).take ((c :: rest).takeWhile (· = c)).length = (c :: rest).takeWhile (· = c) := by
        rw [List.takeWhile_eq_take_findIdx_not]
        simp
      rw [h3] at h2
      exact h2.symm.trans (congrArg (· ++ (c :: rest).drop ((c :: rest).takeWhile (· = c)).length) h1)
    generalize hn : ((c :: rest).takeWhile (· = c)).length = n at hs hsplit
    by_cases hev : n % 2 = 0
    · simp only [hev, if_true] at hs
      injection hs with hs1 hs2
      subst hs2
      have hus := (chStr_ok _ _ true ch1 hs1).1
      simp only [Kind.hasText, if_true] at hus
      obtain ⟨m, hm⟩ : ∃ m, n = 2 * m := ⟨n / 2, by omega⟩
      have hm2 : n / 2 = m := by omega
      rw [hus, hm2]
      rw [hsplit, hm] at hf' ⊢
      simp only [decide_true] at hv ⊢
      rw [hm] at hv hf
      exact ref_brace_run lk c hc _ v f hv hf m f' hf'
    · simp only [hev, if_false] at hs
      rcases hc with rfl | rfl
      · simp at hs
      · simp only [show ¬ (125 : Nat) = 123 by decide, if_false] at hs
        injection hs with hs1 hs2
        cases hc1 : chStr Kind.f (List.replicate (n / 2) 125) true with
        | err e => rw [hc1] at hs1; cases hs1
        | ok ch0 =>
          rw [hc1] at hs1
          injection hs1 with hs1
          rw [← hs1] at hg
          cases hg
  · have hsync := text_step_sync P hP lk hlk k hk c rest ch1 rest1 hb hs hg
    exact refLoop_cons _ (refStep_decr lk _) c rest rest1 ch1.us v f f' hsync hv hf hf'

/-- **Text literals.** -/
theorem text_sound (P : LexP) (hP : P.WF) (lk : Lookup) (hlk : lk [] = .missing) (k : Kind) (hk : k.isText = true)
    (f1 : Nat) (body : List Nat) (ch : Chunk) (hlen : body.length < f1)
    (hcy : cyLoop P lk k false f1 body = .ok ch) (hg : ch.nonfatal = false) (f2 : Nat) (hf2 : body.length < f2) :
    refLoop (refStep lk (decide (k = .f))) f2 body = .ok ch.us := by
  refine simulate P lk k false (refStep lk (decide (k = .f))) (·.us) (fun ch => ch.nonfatal = false)
    (fun a b => rfl) rfl ?_ ?_ f1 body ch hlen hcy hg f2 hf2
  · intro a b h
    simp only [app_nonfatal, Bool.or_eq_false_iff] at h
    exact h
  · intro c rest ch1 rest1 hs hg1 f v hf hv f' hf'
    exact H_text P hP lk hlk k hk c rest ch1 rest1 hs hg1 f v hf hv f' hf'

end CyVerif.C10

import CyVerif.Model.C14
/-! Lemmas about the Python-side spec of C14: `rangeFrom`, `rangeLen`, `pyRange`, `pyFor`. -/
namespace CyVerif.C14

theorem rangeFrom_length (a s : Int) (n : Nat) : (rangeFrom a s n).length = n := by
  induction n generalizing a with
  | zero => rfl
  | succ n ih => simp [rangeFrom, ih]

theorem rangeFrom_snoc (a s : Int) (n : Nat) : rangeFrom a s (n + 1) = rangeFrom a s n ++ [a + (n : Int) * s] := by
  induction n generalizing a with
  | zero => simp [rangeFrom]
  | succ n ih =>
    rw [rangeFrom, ih (a + s)]
    simp only [rangeFrom, List.cons_append, List.cons.injEq, true_and]
    congr 2
    rw [Int.add_assoc]; congr 1
    rw [Int.natCast_add, Int.add_mul]; omega

/-- reversing a stride: the last element first, stride negated -/
theorem rangeFrom_reverse (a s : Int) (n : Nat) :
    (rangeFrom a s n).reverse = rangeFrom (a + ((n : Int) - 1) * s) (-s) n := by
  induction n generalizing a with
  | zero => rfl
  | succ n ih =>
    rw [rangeFrom_snoc, List.reverse_append, ih]
    simp only [List.reverse_cons, List.reverse_nil, List.nil_append, List.singleton_append, rangeFrom, List.cons.injEq]
    constructor
    · push_cast; grind
    · congr 1; push_cast; grind

theorem mem_rangeFrom {a s x : Int} {n : Nat} (h : x ∈ rangeFrom a s n) : ∃ i : Nat, i < n ∧ x = a + (i : Int) * s := by
  induction n generalizing a with
  | zero => simp [rangeFrom] at h
  | succ n ih =>
    simp only [rangeFrom, List.mem_cons] at h
    rcases h with h | h
    · exact ⟨0, by omega, by simp [h]⟩
    · obtain ⟨i, hi, hx⟩ := ih h
      refine ⟨i + 1, by omega, ?_⟩
      rw [hx, Int.natCast_add, Int.add_mul]; omega

theorem rangeFrom_getElem? (a s : Int) (n i : Nat) (h : i < n) : (rangeFrom a s n)[i]? = some (a + (i : Int) * s) := by
  induction n generalizing a i with
  | zero => omega
  | succ n ih =>
    cases i with
    | zero => simp [rangeFrom]
    | succ i =>
      simp only [rangeFrom, List.getElem?_cons_succ]
      rw [ih (a + s) i (by omega), Int.natCast_add, Int.add_mul]; congr 1; omega

/-! ### `rangeLen` / `pyRange`: one step -/

/-- `a` lies before the stop bound `b`, seen in the direction of the stride -/
def before (a b s : Int) : Prop := (0 < s ∧ a < b) ∨ (s < 0 ∧ b < a)

instance (a b s : Int) : Decidable (before a b s) := by unfold before; infer_instance

theorem rangeLen_of_not_before {a b s : Int} (h : ¬ before a b s) : rangeLen a b s = 0 := by
  unfold before at h
  unfold rangeLen
  split
  · split
    · omega
    · rfl
  · split
    · split
      · omega
      · rfl
    · rfl

private theorem len_step_pos {a b s : Int} (hs : 0 < s) (hab : a < b) :
    ((b - a - 1) / s + 1).toNat = (if a + s < b then ((b - (a + s) - 1) / s + 1).toNat else 0) + 1 := by
  split
  · rename_i h
    have e : b - a - 1 = (b - (a + s) - 1) + 1 * s := by omega
    have hq : 0 ≤ (b - (a + s) - 1) / s := Int.ediv_nonneg (by omega) (by omega)
    rw [e, Int.add_mul_ediv_right _ _ (by omega : s ≠ 0)]
    omega
  · rename_i h
    have : (b - a - 1) / s = 0 := Int.ediv_eq_zero_of_lt (by omega) (by omega)
    rw [this]; rfl

theorem rangeLen_succ {a b s : Int} (h : before a b s) : rangeLen a b s = rangeLen (a + s) b s + 1 := by
  unfold before at h
  rcases h with ⟨hs, hab⟩ | ⟨hs, hab⟩
  · unfold rangeLen
    rw [if_pos hs, if_pos hab, if_pos hs]
    exact len_step_pos hs hab
  · unfold rangeLen
    rw [if_neg (by omega), if_pos hs, if_pos hab, if_neg (by omega), if_pos hs]
    have := len_step_pos (a := b) (b := a) (s := -s) (by omega) hab
    have e1 : a + s - b - 1 = a - (b + -s) - 1 := by omega
    have e2 : (b < a + s) = (b + -s < a) := by apply propext; constructor <;> intro <;> omega
    rw [e1]
    simp only [e2]
    exact this

theorem pyRange_nil {a b s : Int} (h : ¬ before a b s) : pyRange a b s = [] := by
  unfold pyRange; rw [rangeLen_of_not_before h]; rfl

theorem pyRange_cons {a b s : Int} (h : before a b s) : pyRange a b s = a :: pyRange (a + s) b s := by
  unfold pyRange; rw [rangeLen_succ h]; rfl

theorem pyRange_length (a b s : Int) : (pyRange a b s).length = rangeLen a b s := rangeFrom_length _ _ _

/-- the i-th element of `range(a, b, s)` is `a + i*s` -/
theorem pyRange_getElem? (a b s : Int) (i : Nat) (h : i < rangeLen a b s) : (pyRange a b s)[i]? = some (a + (i : Int) * s) :=
  rangeFrom_getElem? _ _ _ _ h

/-- `reversed(range(a, b, s))` starts at the last element and walks with stride `-s` -/
theorem pyRange_reverse (a b s : Int) : (pyRange a b s).reverse = rangeFrom (rangeLast a b s) (-s) (rangeLen a b s) :=
  rangeFrom_reverse _ _ _

/-! ### closed forms -/

theorem rangeLen_pos_eq {a b s : Int} (hs : 0 < s) (hab : a < b) : (rangeLen a b s : Int) = (b - a - 1) / s + 1 := by
  unfold rangeLen
  rw [if_pos hs, if_pos hab]
  have : 0 ≤ (b - a - 1) / s := Int.ediv_nonneg (by omega) (by omega)
  omega

theorem rangeLen_neg_eq {a b s : Int} (hs : s < 0) (hab : b < a) : (rangeLen a b s : Int) = (a - b - 1) / (-s) + 1 := by
  unfold rangeLen
  rw [if_neg (by omega), if_pos hs, if_pos hab]
  have : 0 ≤ (a - b - 1) / (-s) := Int.ediv_nonneg (by omega) (by omega)
  omega

/-- last element of a non-empty ascending range: `a + s * ((b-a-1) / s)`, within `s` of the stop bound -/
theorem rangeLast_pos {a b s : Int} (hs : 0 < s) (hab : a < b) :
    rangeLast a b s = a + s * ((b - a - 1) / s) ∧ a ≤ rangeLast a b s ∧ rangeLast a b s < b ∧ b ≤ rangeLast a b s + s := by
  unfold rangeLast
  rw [rangeLen_pos_eq hs hab]
  have hq : 0 ≤ (b - a - 1) / s := Int.ediv_nonneg (by omega) (by omega)
  have hdm := Int.mul_ediv_add_emod (b - a - 1) s
  have hr0 := Int.emod_nonneg (b - a - 1) (by omega : s ≠ 0)
  have hr1 := Int.emod_lt_of_pos (b - a - 1) hs
  have hnn : 0 ≤ s * ((b - a - 1) / s) := Int.mul_nonneg (by omega) hq
  have e : ((b - a - 1) / s + 1 - 1) * s = s * ((b - a - 1) / s) := by grind
  rw [e]
  refine ⟨rfl, by omega, by omega, by omega⟩

theorem rangeLast_neg {a b s : Int} (hs : s < 0) (hab : b < a) :
    rangeLast a b s = a - (-s) * ((a - b - 1) / (-s)) ∧ rangeLast a b s ≤ a ∧ b < rangeLast a b s ∧ rangeLast a b s + s ≤ b := by
  unfold rangeLast
  rw [rangeLen_neg_eq hs hab]
  have hq : 0 ≤ (a - b - 1) / (-s) := Int.ediv_nonneg (by omega) (by omega)
  have hdm := Int.mul_ediv_add_emod (a - b - 1) (-s)
  have hr0 := Int.emod_nonneg (a - b - 1) (by omega : -s ≠ 0)
  have hr1 := Int.emod_lt_of_pos (a - b - 1) (by omega : 0 < -s)
  have hnn : 0 ≤ (-s) * ((a - b - 1) / (-s)) := Int.mul_nonneg (by omega) hq
  have e : ((a - b - 1) / (-s) + 1 - 1) * s = - ((-s) * ((a - b - 1) / (-s))) := by grind
  rw [e]
  refine ⟨by omega, by omega, by omega, by omega⟩

theorem mem_pyRange_pos {a b s x : Int} (hs : 0 < s) (hx : x ∈ pyRange a b s) : a ≤ x ∧ x ≤ rangeLast a b s := by
  obtain ⟨i, hi, rfl⟩ := mem_rangeFrom hx
  unfold rangeLast
  have h1 : 0 ≤ (i : Int) * s := Int.mul_nonneg (by omega) (by omega)
  have h2 : (i : Int) * s ≤ ((rangeLen a b s : Int) - 1) * s := Int.mul_le_mul_of_nonneg_right (by omega) (by omega)
  omega

theorem mem_pyRange_neg {a b s x : Int} (hs : s < 0) (hx : x ∈ pyRange a b s) : rangeLast a b s ≤ x ∧ x ≤ a := by
  obtain ⟨i, hi, rfl⟩ := mem_rangeFrom hx
  unfold rangeLast
  have h1 : 0 ≤ (i : Int) * (-s) := Int.mul_nonneg (by omega) (by omega)
  have h2 : (i : Int) * (-s) ≤ ((rangeLen a b s : Int) - 1) * (-s) := Int.mul_le_mul_of_nonneg_right (by omega) (by omega)
  rw [Int.mul_neg] at h1 h2
  rw [Int.mul_neg] at h2
  omega

/-! ### `pyFor` -/

theorem pyFor_nil {σ : Type} (body : σ → Int → σ × Ctl) (st : σ) : pyFor body [] st = (st, true) := rfl

theorem pyFor_cons_brk {σ : Type} (body : σ → Int → σ × Ctl) (x : Int) (xs : List Int) (st st' : σ)
    (h : body st x = (st', .brk)) : pyFor body (x :: xs) st = (st', false) := by
  simp [pyFor, h]

theorem pyFor_cons_next {σ : Type} (body : σ → Int → σ × Ctl) (x : Int) (xs : List Int) (st st' : σ)
    (h : body st x = (st', .next)) : pyFor body (x :: xs) st = pyFor body xs st' := by
  simp [pyFor, h]

end CyVerif.C14

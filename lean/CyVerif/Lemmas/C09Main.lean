import CyVerif.Lemmas.C09Shape
/-! C09 part A: every `intconst` token has one of the shapes of `C09Shape`. -/
namespace CyVerif.C09

theorem us_not_dec : decDigit '_' = false := by decide
theorem us_not_hex : hexDigit '_' = false := by decide
theorem us_not_oct : octDigit '_' = false := by decide
theorem us_not_bin : binDigit '_' = false := by decide
theorem us_not_zero : zeroDigit '_' = false := by decide

/-- alternative 4 / zero-led decimal text without underscores -/
theorem alldec_value (lim : Nat) (tok : List Char) (hne : tok ≠ []) (hall : tok.all decDigit = true)
    (hleg : legacyBad tok = false) (hlim : digitsOK lim (decDigitCount tok)) :
    strToNumber lim (stripUnderscores tok) = .ok (litValue tok : Nat) := by
  have hs : tok.filter (· ≠ '_') = tok := filter_us_of_all us_not_dec tok hall
  have hmem : ∀ x ∈ tok, decDigit x = true := List.all_eq_true.mp hall
  obtain ⟨c, r, rfl⟩ := List.exists_cons_of_ne_nil hne
  by_cases hc : c = '0'
  · subst hc
    cases r with
    | nil => exact shape_zero lim _ hs
    | cons d ds =>
      have h8 : ∀ x ∈ '0' :: d :: ds, digitValue x < 8 := by
        intro x hx
        rcases List.mem_cons.mp hx with rfl | hx'
        · decide
        · rcases decDigit_lt8_or (hmem x hx) with h | h
          · exact h
          · exfalso
            have : legacyBad ('0' :: d :: ds) = true := by
              unfold legacyBad
              simp only [hall, Bool.true_and]
              rw [List.any_eq_true]
              exact ⟨x, hx', by rcases h with rfl | rfl <;> decide⟩
            rw [this] at hleg; exact absurd hleg (by decide)
      exact shape_legacy lim _ d ds hs hmem h8
  · exact shape_dec lim _ c r hs hc hmem hlim

/-- every token of the scanner's `intconst` language that is not a legacy literal with a digit 8/9
is converted to its positional value (given the decimal digit limit of the running Python) -/
theorem intconst_value (lim : Nat) (tok : List Char) (hscan : intconst tok = true)
    (hleg : legacyBad tok = false) (hlim : digitsOK lim (decDigitCount tok)) :
    strToNumber lim (stripUnderscores tok) = .ok (litValue tok : Nat) := by
  unfold intconst at hscan
  simp only [Bool.or_eq_true] at hscan
  rcases hscan with ((h1 | h2) | h3) | h4
  · -- nonzero digit, optional underscore, digits
    cases tok with
    | nil => exact absurd h1 (by decide)
    | cons c r =>
      simp only [Bool.and_eq_true] at h1
      obtain ⟨hnz, hud⟩ := h1
      obtain ⟨hcdec, hc0⟩ := nonzeroDigit_spec hnz
      obtain ⟨hall, _⟩ := optUd_filter decDigit us_not_dec r hud
      have hcu : c ≠ '_' := by intro h; subst h; exact absurd hcdec (by decide)
      have hs : (c :: r).filter (· ≠ '_') = c :: r.filter (· ≠ '_') := by simp [hcu]
      refine shape_dec lim _ c _ hs hc0 ?_ hlim
      intro x hx
      rcases List.mem_cons.mp hx with rfl | hx
      · exact hcdec
      · exact hall x hx
  · -- prefixed literals
    split at h2
    · rename_i c r
      have hs : ('0' :: c :: r).filter (· ≠ '_') = '0' :: (c :: r).filter (· ≠ '_') := by
        simp [List.filter_cons]
      simp only [Bool.or_eq_true, Bool.and_eq_true, beq_iff_eq] at h2
      rcases h2 with (⟨hx, hud⟩ | ⟨hx, hud⟩) | ⟨hx, hud⟩
      · have hcu : c ≠ '_' := by rcases hx with rfl | rfl <;> decide
        obtain ⟨hall, hne⟩ := optUd_filter hexDigit us_not_hex r hud
        refine shape_hex lim _ c (r.filter (· ≠ '_')) ?_ hx.symm hne hall
        simp [hcu]
      · have hcu : c ≠ '_' := by rcases hx with rfl | rfl <;> decide
        obtain ⟨hall, hne⟩ := optUd_filter octDigit us_not_oct r hud
        refine shape_oct lim _ c (r.filter (· ≠ '_')) ?_ hx.symm hne hall
        simp [hcu]
      · have hcu : c ≠ '_' := by rcases hx with rfl | rfl <;> decide
        obtain ⟨hall, hne⟩ := optUd_filter binDigit us_not_bin r hud
        refine shape_bin lim _ c (r.filter (· ≠ '_')) ?_ hx.symm hne hall
        simp [hcu]
    · exact absurd h2 (by decide)
  · -- zeros with underscores
    obtain ⟨hall, hne⟩ := ud_filter zeroDigit us_not_zero tok true h3
    have hne := hne rfl
    obtain ⟨c, r, hs⟩ := List.exists_cons_of_ne_nil hne
    have hz : ∀ x ∈ c :: r, x = '0' := fun x hx => zeroDigit_spec (hall x (by rw [hs]; exact hx))
    have hc := hz c (by simp); subst hc
    cases r with
    | nil => exact shape_zero lim tok hs
    | cons d ds =>
      refine shape_legacy lim tok d ds hs ?_ ?_
      · intro x hx; rw [hz x hx]; decide
      · intro x hx; rw [hz x hx]; decide
  · -- plain digit strings (Python 2 style)
    simp only [Bool.and_eq_true, Bool.not_eq_true', List.isEmpty_eq_false_iff] at h4
    exact alldec_value lim tok h4.1 h4.2 hleg hlim

end CyVerif.C09

import CyVerif.Model.C09Fold
/-! C09: the item-list slice of a literal without pending repetition is the slice of its value. -/
namespace CyVerif.C09

theorem evalNodes_drop : ∀ (l : List Node) (xs : List Val) (a : Nat), evalNodes l = some xs →
    evalNodes (l.drop a) = some (xs.drop a) := by
  intro l
  induction l with
  | nil => intro xs a h; simp only [evalNodes, Option.some.injEq] at h; subst h; simp [evalNodes]
  | cons n ns ih =>
    intro xs a h
    simp only [evalNodes] at h
    cases hn : evalNode n with
    | none => simp [hn] at h
    | some x =>
    cases hns : evalNodes ns with
    | none => simp [hn, hns] at h
    | some xs' =>
      simp [hn, hns] at h; subst h
      cases a with
      | zero => simp [evalNodes, hn, hns]
      | succ a => simpa using ih xs' a hns

theorem evalNodes_take : ∀ (l : List Node) (xs : List Val) (a : Nat), evalNodes l = some xs →
    evalNodes (l.take a) = some (xs.take a) := by
  intro l
  induction l with
  | nil => intro xs a h; simp only [evalNodes, Option.some.injEq] at h; subst h; simp [evalNodes]
  | cons n ns ih =>
    intro xs a h
    simp only [evalNodes] at h
    cases hn : evalNode n with
    | none => simp [hn] at h
    | some x =>
    cases hns : evalNodes ns with
    | none => simp [hn, hns] at h
    | some xs' =>
      simp [hn, hns] at h; subst h
      cases a with
      | zero => simp [evalNodes]
      | succ a => simp [evalNodes, hn, ih xs' a hns]

theorem evalNodes_slice (l : List Node) (xs : List Val) (a b : Nat) (h : evalNodes l = some xs) :
    evalNodes (pySlice l a b) = some (pySlice xs a b) := by
  unfold pySlice
  exact evalNodes_take _ _ _ (evalNodes_drop l xs a h)

end CyVerif.C09

import CyVerif.Lemmas.C35Alloc2
/-! (b) the cleanup sets computed LATER cover the managed temps in use NOW. -/
namespace CyVerif.C35

theorem allManaged_mono (s : FS) (ops : List Op) {n : Nat} (h : n ∈ allManaged s) :
    n ∈ allManaged (s.runOps ops) := by
  obtain ⟨t, ht, e, hm⟩ := mem_allManaged.mp h
  exact mem_allManaged.mpr ⟨t, (allocated_prefix_runOps s ops).subset ht, e, hm⟩

/-- no refcount-managed temp is non-reusable (what every call site of `allocate_temp(…, reusable=False)` obeys) -/
def NoManagedZombie (s : FS) : Prop := ∀ t ∈ s.allocated, t.name ∈ s.zombies → t.manage = false

def Op.zombieFree : Op → Prop
  | .alloc ty m _ r => r = false → (reqKey ty m).2 = false
  | .release _ => True

theorem noManagedZombie_apply {s : FS} (w : WF s) (h : NoManagedZombie s) {op : Op} (hz : op.zombieFree) :
    NoManagedZombie (s.apply op) := by
  cases op with
  | release n =>
    simp only [FS.apply]
    split
    · rename_i s' hr
      obtain ⟨k, -, -, rfl⟩ := release_ok hr
      exact h
    · exact h
  | alloc ty m st r =>
    simp only [FS.apply]
    rcases allocate_fresh_or_reuse s ty m st r with ⟨fl, n, -, he⟩ | ⟨-, he⟩
    · rw [he]; exact h
    · rw [he]
      have fresh : nextName s.taken s.counter ∉ names s := by
        intro h'
        obtain ⟨t, ht, e⟩ := mem_names.mp h'
        have := w.bound t ht
        have := (nextName_spec s.taken s.counter).1
        omega
      intro t ht hzm
      change t ∈ s.allocated ++ [_] at ht
      change t.name ∈ (if r then s.zombies else s.zombies ++ [_]) at hzm
      rcases List.mem_append.mp ht with ht | ht
      · apply h t ht
        split at hzm
        · exact hzm
        · rcases List.mem_append.mp hzm with hzm | hzm
          · exact hzm
          · simp at hzm; exact absurd (mem_names.mpr ⟨t, ht, hzm⟩) fresh
      · simp at ht; subst ht
        cases hr : r with
        | false => exact hz hr
        | true =>
          rw [hr] at hzm
          exact absurd (w.zombiesSub _ hzm) fresh

theorem noManagedZombie_runOps {s : FS} (w : WF s) (h : NoManagedZombie s) {ops : List Op}
    (hz : ∀ op ∈ ops, op.zombieFree) : NoManagedZombie (s.runOps ops) := by
  induction ops generalizing s with
  | nil => exact h
  | cons op ops ih =>
    exact ih (wf_apply w op) (noManagedZombie_apply w h (hz op (by simp))) (fun o ho => hz o (by simp [ho]))

theorem deadManaged_empty {s : FS} (w : WF s) (h : NoManagedZombie s) (n : Nat) : n ∉ deadManaged s := by
  intro hd
  obtain ⟨k, fl, hent, hk2, hm, hno⟩ := mem_deadManaged.mp hd
  have hg := aget_of_mem w.freeKeys hent
  obtain ⟨t, ht, e, hk⟩ := w.members k fl hg n hm
  have hz := w.dead k fl hg n hm hno
  have := h t ht (e ▸ hz)
  rw [← hk] at hk2
  have : t.manage = true := hk2
  simp_all

/-- (c) with no managed non-reusable temp: `all_managed_temps = temps_holding_reference ⊎ all_free_managed_temps` -/
theorem free_union_inuse {s : FS} (w : WF s) (h : NoManagedZombie s) (n : Nat) :
    (n ∈ allManaged s ↔ n ∈ holdingRef s ∨ n ∈ freeManaged s) ∧ ¬ (n ∈ holdingRef s ∧ n ∈ freeManaged s) := by
  have p := managed_partition w n
  have d := deadManaged_empty w h n
  refine ⟨?_, p.2.1⟩
  rw [p.1]
  simp [d]

end CyVerif.C35

import CyVerif.Model.C29
/-! Helper lemmas for C29: slot maps, the assign/read induction, join injectivity, sorting. -/
namespace CyVerif.C29

theorem lookupSlot_cons (e : String × CVal) (s : List (String × CVal)) (k : String) :
    lookupSlot (e :: s) k = if e.1 = k then some e.2 else lookupSlot s k := by
  unfold lookupSlot
  by_cases h : e.1 = k
  · simp [List.find?, h]
  · have : (e.1 == k) = false := by simpa using h
    simp [List.find?, this, h]

theorem setSlot_cons (e : String × CVal) (t : List (String × CVal)) (n : String) (c : CVal) :
    setSlot (e :: t) n c = (if e.1 = n then (e.1, c) else e) :: setSlot t n c := by
  by_cases h : e.1 = n <;> simp [setSlot, h]

theorem setSlot_keys (s : List (String × CVal)) (n : String) (c : CVal) :
    (setSlot s n c).map (·.1) = s.map (·.1) := by
  induction s with
  | nil => rfl
  | cons e t ih =>
    rw [setSlot_cons]
    by_cases h : e.1 = n <;> simp [h, ih]

theorem lookupSlot_setSlot (s : List (String × CVal)) (n k : String) (c : CVal) :
    lookupSlot (setSlot s n c) k = if k = n then (lookupSlot s n).map (fun _ => c) else lookupSlot s k := by
  induction s with
  | nil => simp [setSlot, lookupSlot]
  | cons e t ih =>
    rw [setSlot_cons]
    by_cases hen : e.1 = n
    · by_cases hk : k = n
      · subst hk; simp [lookupSlot_cons, hen]
      · have h1 : ¬ e.1 = k := fun h => hk (h ▸ hen)
        have h2 : ¬ n = k := fun h => hk h.symm
        simp [lookupSlot_cons, hen, hk, ih, h2]
    · by_cases hk : k = n
      · subst hk; simp [lookupSlot_cons, hen, ih]
      · simp [lookupSlot_cons, hen, hk, ih]

theorem lookupSlot_isSome_of_mem (s : List (String × CVal)) (k : String) (h : k ∈ s.map (·.1)) :
    ∃ c, lookupSlot s k = some c := by
  induction s with
  | nil => simp at h
  | cons e t ih =>
    rw [lookupSlot_cons]
    by_cases hek : e.1 = k
    · exact ⟨e.2, by simp [hek]⟩
    · simp only [List.map_cons, List.mem_cons] at h
      rcases h with h | h
      · exact absurd h.symm hek
      · simp [hek]; exact ih h

/-- Two slot lists with the same duplicate-free key sequence and equal look-ups are equal. -/
theorem slots_ext : ∀ (s t : List (String × CVal)), s.map (·.1) = t.map (·.1) → (s.map (·.1)).Nodup →
    (∀ k ∈ s.map (·.1), lookupSlot s k = lookupSlot t k) → s = t
  | [], [], _, _, _ => rfl
  | [], _ :: _, h, _, _ => by simp at h
  | _ :: _, [], h, _, _ => by simp at h
  | e :: s, f :: t, hk, hnd, hl => by
    simp only [List.map_cons, List.cons.injEq] at hk
    have hnd' := List.nodup_cons.mp hnd
    have h0 := hl e.1 (by simp)
    rw [lookupSlot_cons, lookupSlot_cons] at h0
    simp [hk.1] at h0
    have hef : e = f := Prod.ext hk.1 h0
    have := slots_ext s t hk.2 hnd'.2 (by
      intro k hkm
      have h1 := hl k (by simp [hkm])
      rw [lookupSlot_cons, lookupSlot_cons] at h1
      have hne : ¬ e.1 = k := fun h => hnd'.1 (by show e.1 ∈ _; rw [h]; exact hkm)
      have hne' : ¬ f.1 = k := fun h => hne (hk.1 ▸ h)
      simpa [hne, hne'] using h1)
    rw [hef, this]

/-! ### conversions -/

/-- Attribute types whose values survive `toPy` / `fromPy` in variant `cfg`. -/
def safeTy (cfg : Cfg) : Ty → Bool
  | .charptr | .memview | .structNC | .ptr => false
  | .chararr _ => cfg.charArrExact
  | _ => true

/-- The Python image of the slot can be pickled at all (a Cython memoryview object cannot). -/
def picklable : CVal → Bool
  | .py (.ref t _) => t != "_memoryviewslice"
  | _ => true

def isRef : PyVal → Bool
  | .ref _ _ => true
  | _ => false

theorem conv_roundtrip (cfg : Cfg) (ty : Ty) (c : CVal) (hw : wtVal ty c = true) (hs : safeTy cfg ty = true)
    (hp : picklable c = true) :
    ∃ v, toPy cfg ty c = .ok v ∧ fromPy ty v = .ok c ∧ transportVal v = .ok v ∧
      (isRef v = true → ty.isPy = true ∧ c ≠ .py .none) := by
  cases ty <;> cases c <;> simp [wtVal, safeTy] at hw hs <;>
    simp_all [toPy, fromPy, isRef, Ty.isPy, truthy, transportVal, picklable]
  all_goals (rename_i v; cases v <;> simp_all)

/-- Member `e` of the class has a legal, surviving, picklable content in the slot list `S`. -/
def OkSlot (cfg : Cfg) (S : List (String × CVal)) (e : String × Ty) : Prop :=
  ∃ c, lookupSlot S e.1 = some c ∧ wtVal e.2 c = true ∧ safeTy cfg e.2 = true ∧ picklable c = true

theorem transport_cons_ok (v : PyVal) (vs : List PyVal) (h1 : transportVal v = .ok v) (h2 : transport vs = .ok vs) :
    transport (v :: vs) = .ok (v :: vs) := by
  simp [transport, h1, h2]

/-- Reading the state of `S` over any member list and assigning it (followed by any tail `rest`) into a slot list
`cur` with the same keys: both succeed, the tail is handed on, and every assigned key now holds `S`'s content. -/
theorem assign_read (cfg : Cfg) (S : List (String × CVal)) :
    ∀ (ms : List (String × Ty)) (cur : List (String × CVal)) (rest : List PyVal),
      cur.map (·.1) = S.map (·.1) → (∀ e ∈ ms, OkSlot cfg S e) →
      ∃ vs cur', readState cfg S ms = .ok vs ∧ assignAll ms (vs ++ rest) cur = .ok (cur', rest) ∧
        cur'.map (·.1) = S.map (·.1) ∧
        (∀ k, lookupSlot cur' k = if k ∈ ms.map (·.1) then lookupSlot S k else lookupSlot cur k) ∧
        transport vs = .ok vs ∧
        (∀ v ∈ vs, isRef v = true → anyNotNone S ms = true)
  | [], cur, rest, hk, _ => ⟨[], cur, rfl, rfl, hk, by simp, rfl, by simp⟩
  | (n, ty) :: ms, cur, rest, hk, hok => by
    obtain ⟨c, hl, hw, hs, hp⟩ := hok (n, ty) (by simp)
    obtain ⟨v, htp, hfp, htr, href⟩ := conv_roundtrip cfg ty c hw hs hp
    have hkeys : (setSlot cur n c).map (·.1) = S.map (·.1) := by rw [setSlot_keys]; exact hk
    obtain ⟨vs, cur', hr, ha, hk', hlk, htv, hrf⟩ :=
      assign_read cfg S ms (setSlot cur n c) rest hkeys (fun e he => hok e (by simp [he]))
    refine ⟨v :: vs, cur', ?_, ?_, hk', ?_, transport_cons_ok v vs htr htv, ?_⟩
    · simp [readState, hl, htp, hr]
    · simp [assignAll, hfp, ha]
    · intro k
      rw [hlk k, lookupSlot_setSlot]
      by_cases hkm : k ∈ ms.map (·.1)
      · simp [hkm]
      · by_cases hkn : k = n
        · subst hkn
          have hcur : ∃ c', lookupSlot cur k = some c' := by
            apply lookupSlot_isSome_of_mem
            rw [hk]
            have : ∃ c, lookupSlot S k = some c := ⟨c, hl⟩
            obtain ⟨c0, hc0⟩ := this
            unfold lookupSlot at hc0
            cases hf : S.find? (fun x => x.1 == k) with
            | none => simp [hf] at hc0
            | some e =>
              have hm := List.mem_of_find?_eq_some hf
              have he := List.find?_some hf
              simp at he
              exact List.mem_map.mpr ⟨e, hm, he⟩
          obtain ⟨c', hc'⟩ := hcur
          simp [hkm, hc', hl]
        · simp [hkm, hkn]
    · intro w hwm hwr
      simp only [List.mem_cons] at hwm
      rcases hwm with hwv | hwm
      · subst hwv
        have := href hwr
        simp [anyNotNone, this.1, hl, this.2]
      · have := hrf w hwm hwr
        simp only [anyNotNone, List.any_cons] at this ⊢
        simp [this]

/-! ### the layout text `' '.join(names)` determines the name list -/

theorem append_sep_inj : ∀ (a b r1 r2 : List Char), ' ' ∉ a → ' ' ∉ b →
    (r1 = [] ∨ ∃ t, r1 = ' ' :: t) → (r2 = [] ∨ ∃ t, r2 = ' ' :: t) → a ++ r1 = b ++ r2 → a = b ∧ r1 = r2
  | [], [], _, _, _, _, _, _, h => ⟨rfl, by simpa using h⟩
  | [], y :: b, r1, r2, _, hb, h1, _, h => by
    rcases h1 with h1 | ⟨t, h1⟩
    · subst h1; simp at h
    · subst h1; simp at h; exact absurd (List.mem_cons.mpr (Or.inl h.1)) hb
  | x :: a, [], r1, r2, ha, _, _, h2, h => by
    rcases h2 with h2 | ⟨t, h2⟩
    · subst h2; simp at h
    · subst h2; simp at h; exact absurd (List.mem_cons.mpr (Or.inl h.1.symm)) ha
  | x :: a, y :: b, r1, r2, ha, hb, h1, h2, h => by
    simp only [List.cons_append, List.cons.injEq] at h
    have := append_sep_inj a b r1 r2 (fun m => ha (by simp [m])) (fun m => hb (by simp [m])) h1 h2 h.2
    exact ⟨by rw [h.1, this.1], this.2⟩

theorem joinRest_shape (t : List (List Char)) : joinRest t = [] ∨ ∃ r, joinRest t = ' ' :: r := by
  cases t with
  | nil => exact Or.inl rfl
  | cons a t => exact Or.inr ⟨_, rfl⟩

theorem joinRest_inj : ∀ (l1 l2 : List (List Char)), (∀ a ∈ l1, ' ' ∉ a) → (∀ a ∈ l2, ' ' ∉ a) →
    joinRest l1 = joinRest l2 → l1 = l2
  | [], [], _, _, _ => rfl
  | [], _ :: _, _, _, h => by simp [joinRest] at h
  | _ :: _, [], _, _, h => by simp [joinRest] at h
  | a :: t1, b :: t2, h1, h2, h => by
    simp only [joinRest, List.cons.injEq, true_and] at h
    have := append_sep_inj a b _ _ (h1 a (by simp)) (h2 b (by simp)) (joinRest_shape t1) (joinRest_shape t2) h
    rw [this.1, joinRest_inj t1 t2 (fun x hx => h1 x (by simp [hx])) (fun x hx => h2 x (by simp [hx])) this.2]

/-- An identifier: non-empty and without a blank. -/
def IsIdent (a : List Char) : Prop := a ≠ [] ∧ ' ' ∉ a

theorem joinNames_inj (l1 l2 : List (List Char)) (h1 : ∀ a ∈ l1, IsIdent a) (h2 : ∀ a ∈ l2, IsIdent a)
    (h : joinNames l1 = joinNames l2) : l1 = l2 := by
  cases l1 with
  | nil =>
    cases l2 with
    | nil => rfl
    | cons b t2 =>
      have hb := (h2 b (by simp)).1
      simp only [joinNames] at h
      exact absurd (List.append_eq_nil_iff.mp h.symm).1 hb
  | cons a t1 =>
    cases l2 with
    | nil =>
      have ha := (h1 a (by simp)).1
      simp only [joinNames] at h
      exact absurd (List.append_eq_nil_iff.mp h).1 ha
    | cons b t2 =>
      simp only [joinNames] at h
      have := append_sep_inj a b _ _ (h1 a (by simp)).2 (h2 b (by simp)).2 (joinRest_shape t1) (joinRest_shape t2) h
      rw [this.1, joinRest_inj t1 t2 (fun x hx => (h1 x (by simp [hx])).2) (fun x hx => (h2 x (by simp [hx])).2) this.2]

theorem layoutText_inj (n1 n2 : List String) (h1 : ∀ a ∈ n1, IsIdent a.toList) (h2 : ∀ a ∈ n2, IsIdent a.toList)
    (h : layoutText n1 = layoutText n2) : n1 = n2 := by
  have := joinNames_inj (n1.map String.toList) (n2.map String.toList)
    (by intro a ha; obtain ⟨x, hx, rfl⟩ := List.mem_map.mp ha; exact h1 x hx)
    (by intro a ha; obtain ⟨x, hx, rfl⟩ := List.mem_map.mp ha; exact h2 x hx) h
  exact (List.map_inj_right (fun x y hxy => String.toList_injective hxy)).mp this

/-! ### sorting -/

theorem nameLe_trans (a b c : String × Ty) (h1 : nameLe a b = true) (h2 : nameLe b c = true) : nameLe a c = true := by
  simp only [nameLe, decide_eq_true_eq] at *
  exact String.le_trans h1 h2

theorem nameLe_total (a b : String × Ty) : (nameLe a b || nameLe b a) = true := by
  have := String.le_total a.1 b.1
  simp only [nameLe, Bool.or_eq_true, decide_eq_true_eq]
  exact this

theorem members_perm_raw (K : Klass) : (members K).Perm (rawMembers K.chain) := List.mergeSort_perm _ _

theorem members_perm_layout (K : Klass) : (members K).Perm (layout K) :=
  (members_perm_raw K).trans ((List.reverse_perm K.chain).flatMap_right _).symm

theorem members_sorted (K : Klass) : (members K).Pairwise (fun a b => nameLe a b = true) :=
  List.pairwise_mergeSort nameLe_trans nameLe_total _

theorem eq_of_fst_eq_of_nodup : ∀ (l : List (String × Ty)), (l.map (·.1)).Nodup → ∀ a ∈ l, ∀ b ∈ l, a.1 = b.1 → a = b
  | [], _, a, ha, _, _, _ => by simp at ha
  | e :: l, hnd, a, ha, b, hb, hab => by
    simp only [List.map_cons, List.nodup_cons] at hnd
    simp only [List.mem_cons] at ha hb
    rcases ha with ha | ha <;> rcases hb with hb | hb
    · rw [ha, hb]
    · subst ha
      exact absurd (List.mem_map.mpr ⟨b, hb, hab.symm⟩) hnd.1
    · subst hb
      exact absurd (List.mem_map.mpr ⟨a, ha, hab⟩) hnd.1
    · exact eq_of_fst_eq_of_nodup l hnd.2 a ha b hb hab

/-- The sorted member list depends only on the SET of (name, type) pairs of the whole chain: declaration order and
the distribution of the attributes over the classes of the chain do not matter. -/
theorem members_eq_of_perm (KA KB : Klass) (hp : (rawMembers KA.chain).Perm (rawMembers KB.chain))
    (hnd : ((rawMembers KA.chain).map (·.1)).Nodup) : members KA = members KB := by
  have hpm : (members KA).Perm (members KB) :=
    (members_perm_raw KA).trans (hp.trans (members_perm_raw KB).symm)
  have hndA : ((members KA).map (·.1)).Nodup := ((members_perm_raw KA).map _).nodup_iff.mpr hnd
  refine List.Perm.eq_of_pairwise ?_ (members_sorted KA) (members_sorted KB) hpm
  intro a b ha hb hab hba
  have hb' : b ∈ members KA := hpm.mem_iff.mpr hb
  apply eq_of_fst_eq_of_nodup (members KA) hndA a ha b hb'
  simp only [nameLe, decide_eq_true_eq] at hab hba
  exact String.le_antisymm hab hba

/-- The sorted member list is THE sorted duplicate-free permutation of the collected members. -/
theorem members_eq_of_sorted_perm (K : Klass) (c : List (String × Ty)) (hs : c.Pairwise (fun a b => nameLe a b = true))
    (hp : c.Perm (rawMembers K.chain)) (hnd : (c.map (·.1)).Nodup) : members K = c := by
  have hpm : (members K).Perm c := (members_perm_raw K).trans hp.symm
  refine List.Perm.eq_of_pairwise ?_ (members_sorted K) hs hpm
  intro a b ha hb hab hba
  have ha' : a ∈ c := hpm.mem_iff.mp ha
  apply eq_of_fst_eq_of_nodup c hnd a ha' b hb
  simp only [nameLe, decide_eq_true_eq] at hab hba
  exact String.le_antisymm hab hba

end CyVerif.C29

import CyVerif.Lemmas.C37InvA
/-! C37 leg 2: invariants, part B (meaning of `parallel_why`, of the return slot and of the pending program counters). -/
namespace CyVerif.C37

/-- a value written to `parallel_why` is justified by an iteration that ran -/
def whyOK (c : Cfg) (ran : List Nat) (ret : Option Nat) (v : Nat) : Prop :=
  (v = 2 ∧ ∃ k ∈ ran, c.kinds k = .brk) ∨ (v = 3 ∧ ret.isSome = true) ∨ (v = 4 ∧ ∃ k ∈ ran, c.kinds k = .raise)

def pending (p : PC) : Prop := p ≠ .idle ∧ p ≠ .finished

theorem whyOK_ge {c : Cfg} {ran : List Nat} {ret : Option Nat} {v : Nat} (h : whyOK c ran ret v) : 2 ≤ v := by
  rcases h with h | h | h <;> omega

theorem whyOK_cons {c : Cfg} {ran : List Nat} {ret : Option Nat} {v : Nat} (k : Nat) (h : whyOK c ran ret v) :
    whyOK c (k :: ran) ret v := by
  rcases h with ⟨h1, k', hm, hk⟩ | h | ⟨h1, k', hm, hk⟩
  · exact Or.inl ⟨h1, k', List.mem_cons_of_mem _ hm, hk⟩
  · exact Or.inr (Or.inl h)
  · exact Or.inr (Or.inr ⟨h1, k', List.mem_cons_of_mem _ hm, hk⟩)

theorem whyOK_ret {c : Cfg} {ran : List Nat} {ret : Option Nat} {v : Nat} (r : Nat) (h : whyOK c ran ret v) :
    whyOK c ran (some r) v := by
  rcases h with h | h | h
  · exact Or.inl h
  · exact Or.inr (Or.inl ⟨h.1, rfl⟩)
  · exact Or.inr (Or.inr h)

structure InvB (c : Cfg) (st : St) : Prop where
  pcWhy : ∀ t < c.n, ∀ v, st.pc t = .setWhy v → whyOK c st.ran st.ret v
  whyInv : st.why = 0 ∨ whyOK c st.ran st.ret st.why
  retInv : ∀ k, st.ret = some k → k ∈ st.ran ∧ c.kinds k = .ret
  pcRet : ∀ t < c.n, ∀ k, st.pc t = .writeRet k → k ∈ st.ran ∧ c.kinds k = .ret
  pcFetch : ∀ t < c.n, st.pc t = .fetch → ∃ k ∈ st.ran, c.kinds k = .raise
  exitPending : (∃ k ∈ st.ran, c.kinds k ≠ .cont) → 2 ≤ st.why ∨ ∃ t < c.n, pending (st.pc t)
  skipWhy : st.skipped ≠ [] → 2 ≤ st.why

theorem pend_other {n t : Nat} {pc : Nat → PC} {v : PC} (hne : ¬ pending (pc t))
    (h : ∃ u < n, pending (pc u)) : ∃ u < n, pending (upd pc t v u) := by
  obtain ⟨u, hu, hp⟩ := h
  refine ⟨u, hu, ?_⟩
  have : u ≠ t := fun e => hne (e ▸ hp)
  rw [upd_other pc t v u this]; exact hp

theorem pend_self {n t : Nat} {pc : Nat → PC} {v : PC} (ht : t < n) (hv : pending v) : ∃ u < n, pending (upd pc t v u) :=
  ⟨t, ht, by rw [upd_same]; exact hv⟩

theorem exit_cons_cont {c : Cfg} {ran : List Nat} {k : Nat} (hk : c.kinds k = .cont)
    (h : ∃ k' ∈ k :: ran, c.kinds k' ≠ .cont) : ∃ k' ∈ ran, c.kinds k' ≠ .cont := by
  obtain ⟨k', hm, hk'⟩ := h
  rcases List.mem_cons.mp hm with e | hm'
  · exact absurd (e ▸ hk) hk'
  · exact ⟨k', hm', hk'⟩

end CyVerif.C37

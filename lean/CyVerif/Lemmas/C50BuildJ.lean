import CyVerif.Lemmas.C50BuildI
/-! RE → NFA, part J: the machine of a whole single-state lexicon; runs of the NFA vs the certificates. -/
namespace CyVerif.C50

theorem targets_delta (n : NFA) (s : Nat) (x : CurChar) : (n.node s).trans.targets (some x) = n.delta s x := by
  cases x <;> rfl

theorem LexCert.sound {n : NFA} {Fs : List (Nat × (List CurChar → Prop))} (lc : LexCert n Fs)
    {s u : Nat} {w : List CurChar} (hr : Run n s w u) :
    ∀ w0, (∀ x ∈ w, ValidSym x) → lc.lab s w0 → lc.lab u (w0 ++ w) := by
  induction hr with
  | refl => intro w0 _ h; simpa using h
  | eps ht _ ih =>
    intro w0 hv h
    have he := (lc.edges _ none _).1 ⟨trivial, ht⟩
    have := lc.labEdge _ none _ w0 he h
    simp only [Option.toList_none, List.append_nil] at this
    exact ih w0 hv this
  | @sym s t x w u ht _ ih =>
    intro w0 hv h
    have hx : ValidSym x := hv x (by simp)
    have he := (lc.edges s (some x) t).1 ⟨hx, by rw [targets_delta]; exact ht⟩
    have := lc.labEdge _ (some x) _ w0 he h
    have := ih (w0 ++ [x]) (fun y hy => hv y (by simp [hy])) (by simpa using this)
    simpa using this

theorem LexCert.complete {n : NFA} {Fs : List (Nat × (List CurChar → Prop))} (lc : LexCert n Fs)
    {s u : Nat} {w : List CurChar} (hp : APath lc.added s w u) : Run n s w u := by
  induction hp with
  | refl => exact .refl _
  | @step s t l w u he _ ih =>
    have hn := (lc.edges s l t).2 he
    cases l with
    | none => simpa using Run.eps hn.2 ih
    | some x =>
      have : t ∈ n.delta s x := by rw [← targets_delta]; exact hn.2
      simpa using Run.sym this ih

/-- the NFA accepts exactly the language of rule `k` in the final state of rule `k` -/
theorem LexCert.run_iff {n : NFA} {Fs : List (Nat × (List CurChar → Prop))} (lc : LexCert n Fs)
    (p : Nat × (List CurChar → Prop)) (hp : p ∈ Fs) (w : List CurChar) (hv : ∀ x ∈ w, ValidSym x) :
    Run n 0 w p.1 ↔ p.2 w := by
  obtain ⟨_, _, q3, q4⟩ := lc.finals p hp
  constructor
  · intro hr
    have := lc.sound hr [] hv lc.labInit
    exact q3 w (by simpa using this)
  · intro hw
    exact lc.complete (q4 w hw)

/-- all rules belong to the default state and use code ranges between the sentinels -/
def RulesOK (rules : List Rule) : Prop := ∀ r ∈ rules, r.state = "" ∧ r.re.InBounds

theorem addRules_cert (rules : List Rule) : ∀ (n : NFA) (Fs : List (Nat × (List CurChar → Prop)))
    (cur : Option (String × Nat)), RulesOK rules → LexCert n Fs → LexActs n Fs →
    (Fs.length : Int) + rules.length + 1 < maxint →
    ∃ Fs', Nonempty (LexCert (addRules rules n 0 cur (Fs.length + 1)) (Fs ++ Fs')) ∧
      LexActs (addRules rules n 0 cur (Fs.length + 1)) (Fs ++ Fs') ∧
      Fs'.map (·.2) = rules.map (fun r => r.re.Sem true false) := by
  induction rules with
  | nil =>
    intro n Fs cur _ lc la _
    refine ⟨[], ?_, ?_, rfl⟩
    · rw [List.append_nil]; exact ⟨lc⟩
    · rw [List.append_nil]; exact la
  | cons r rs ih =>
    intro n Fs cur hok lc la hsmall
    obtain ⟨hst, hib⟩ := hok r (by simp)
    have hpos := lc.pos
    have hpre : Pre n.newState.1 0 n.nodes.length :=
      ⟨newState_wf n lc.wf, by omega, by simp [NFA.newState], by simp [NFA.newState]⟩
    obtain ⟨c⟩ := RE.build_cert r.re hib _ _ _ true false hpre
    have lc' := lexCertStep lc r.re (Fs.length + 1 - 1) (-((Fs.length + 1 : Nat) : Int)) c
    have hs1 : (Fs.length : Int) + 1 < maxint := by
      simp only [List.length_cons] at hsmall; omega
    have la' := lexActsStep lc la r.re hs1 c
    have hlen : (Fs ++ [(n.nodes.length, r.re.Sem true false)]).length = Fs.length + 1 := by simp
    have hs2 : (((Fs ++ [(n.nodes.length, r.re.Sem true false)]).length : Nat) : Int) + rs.length + 1 < maxint := by
      rw [hlen]; simp only [List.length_cons] at hsmall; omega
    obtain ⟨Fs', ⟨lc2⟩, la2, hmap⟩ := ih _ (Fs ++ [(n.nodes.length, r.re.Sem true false)]) none
      (fun r' hr' => hok r' (by simp [hr'])) lc' la' hs2
    rw [hlen] at lc2 la2
    have happ : Fs ++ (n.nodes.length, r.re.Sem true false) :: Fs' = (Fs ++ [(n.nodes.length, r.re.Sem true false)]) ++ Fs' := by
      simp
    have hunf : addRules (r :: rs) n 0 cur (Fs.length + 1) =
        addRules rs ((r.re.build n.newState.1 0 n.nodes.length true false).setAction n.nodes.length (Fs.length + 1 - 1)
          (-((Fs.length + 1 : Nat) : Int))) 0 none (Fs.length + 1 + 1) := by
      conv => lhs; unfold addRules
      rw [if_pos hst]
      rfl
    refine ⟨(n.nodes.length, r.re.Sem true false) :: Fs', ?_, ?_, by simp [hmap]⟩
    · rw [hunf, happ]; exact ⟨lc2⟩
    · rw [hunf, happ]; exact la2

end CyVerif.C50

import CyVerif.Model.C46
/-!
Graph-theoretic vocabulary for C46 and small facts about the model's data
structures (no Mathlib).
-/
namespace CyVerif.C46

/-- Reflexive-transitive closure of the outgoing relation `b ∈ g a`. -/
inductive Reach (g : Nat → List Nat) : Nat → Nat → Prop
  | refl (a : Nat) : Reach g a a
  | step {a b c : Nat} : b ∈ g a → Reach g b c → Reach g a c

/-- `x` is in the union of `extract` over everything reachable from `n`. -/
def InClos (g E : Nat → List Nat) (n x : Nat) : Prop := ∃ v, Reach g n v ∧ x ∈ E v

/-- Reachability by a path none of whose vertices, except possibly the last,
lies in `S` (the open stack). -/
inductive RA (g : Nat → List Nat) (S : List Nat) : Nat → Nat → Prop
  | refl (a : Nat) : RA g S a a
  | step {a b c : Nat} : a ∉ S → b ∈ g a → RA g S b c → RA g S a c

variable {g E : Nat → List Nat}

theorem Reach.trans {a b c : Nat} (h1 : Reach g a b) (h2 : Reach g b c) : Reach g a c := by
  induction h1 with
  | refl => exact h2
  | step hab _ ih => exact .step hab (ih h2)

theorem RA.reach {S : List Nat} {a b : Nat} (h : RA g S a b) : Reach g a b := by
  induction h with
  | refl => exact .refl _
  | step _ hab _ ih => exact .step hab ih

theorem InClos.of_reach {n m x : Nat} (h : Reach g n m) (hx : InClos g E m x) : InClos g E n x := by
  obtain ⟨v, hv, hxv⟩ := hx
  exact ⟨v, h.trans hv, hxv⟩

theorem InClos.self {n x : Nat} (hx : x ∈ E n) : InClos g E n x := ⟨n, .refl n, hx⟩

/-- A path either avoids the stack (except at its end) or has a first stack vertex. -/
theorem Reach.split (S : List Nat) {a v : Nat} (h : Reach g a v) :
    RA g S a v ∨ ∃ t, t ∈ S ∧ RA g S a t ∧ Reach g t v := by
  induction h with
  | refl a => exact .inl (.refl a)
  | @step a b c hab hbc ih =>
    by_cases ha : a ∈ S
    · exact .inr ⟨a, ha, .refl a, .step hab hbc⟩
    · rcases ih with h | ⟨t, ht, h1, h2⟩
      · exact .inl (.step ha hab h)
      · exact .inr ⟨t, ht, .step ha hab h1, h2⟩

/-- Pushing `n`: a stack-avoiding path either also avoids `n`, or its part after
the last visit of `n` starts at a child of `n` and avoids `n`. -/
theorem RA.push (n : Nat) {S : List Nat} {a v : Nat} (h : RA g S a v) :
    RA g (n :: S) a v ∨ ∃ c, c ∈ g n ∧ RA g (n :: S) c v := by
  induction h with
  | refl a => exact .inl (.refl a)
  | @step a b c ha hab _ ih =>
    rcases ih with h | h
    · by_cases hn : a = n
      · subst hn; exact .inr ⟨b, hab, h⟩
      · refine .inl (.step ?_ hab h)
        simp only [List.mem_cons, not_or]; exact ⟨hn, ha⟩
    · exact .inr h

theorem RA.of_mem {S : List Nat} {a v : Nat} (h : RA g S a v) (ha : a ∈ S) : v = a := by
  cases h with
  | refl => rfl
  | step hna _ _ => exact absurd ha hna

/-- From a fresh node: the path is trivial or continues from a child avoiding the node. -/
theorem RA.from_node {S : List Nat} {n v : Nat} (h : RA g S n v) :
    v = n ∨ ∃ c, c ∈ g n ∧ RA g (n :: S) c v := by
  rcases h.push n with h | h
  · exact .inl (h.of_mem (List.mem_cons_self ..))
  · exact .inr h

/-! ### data structures -/

theorem mem_union {a b : List Nat} {x : Nat} : x ∈ union a b ↔ x ∈ a ∨ x ∈ b := by
  unfold union
  by_cases hx : x ∈ a <;> simp [hx]

theorem pos_lt {S : List Nat} {m : Nat} (h : m ∈ S) : pos S m < S.length := by
  induction S with
  | nil => cases h
  | cons n rest ih =>
    simp only [pos, List.length_cons]
    split
    · omega
    · rename_i hne
      rcases List.mem_cons.1 h with h | h
      · exact absurd h hne
      · have := ih h; omega

theorem pos_cons_ne {S : List Nat} {n m : Nat} (h : m ≠ n) : pos (n :: S) m = pos S m := by
  simp [pos, h]

theorem pos_cons_self {S : List Nat} {n : Nat} : pos (n :: S) n = S.length := by
  simp [pos]

theorem lookup_insert (c : Cache) (n m : Nat) (d : List Nat) :
    lookup (insert c n d) m = if n = m then some d else lookup c m := by
  simp [insert, lookup]

/-- Number of vertices `< N` not on the stack: the recursion measure. -/
def countFree (N : Nat) (S : List Nat) : Nat :=
  ((List.range N).filter (fun v => decide (v ∉ S))).length

theorem filter_length_lt {p q : Nat → Bool} {l : List Nat} {a : Nat}
    (hpq : ∀ x, p x = true → q x = true) (ha : a ∈ l) (hqa : q a = true) (hpa : p a = false) :
    (l.filter p).length < (l.filter q).length := by
  induction l with
  | nil => cases ha
  | cons x xs ih =>
    have hle : (xs.filter p).length ≤ (xs.filter q).length := by
      clear ih ha
      induction xs with
      | nil => simp
      | cons y ys ih2 =>
        simp only [List.filter_cons]
        cases hp : p y
        · cases hq : q y <;> simp <;> omega
        · simp [hpq y hp]; omega
    rcases List.mem_cons.1 ha with h | h
    · subst h
      simp only [List.filter_cons, hqa, hpa]
      simp; omega
    · have := ih h
      simp only [List.filter_cons]
      cases hp : p x
      · cases hq : q x <;> simp <;> omega
      · simp [hpq x hp]; omega

theorem countFree_push {N : Nat} {S : List Nat} {n : Nat} (hn : n < N) (hS : n ∉ S) :
    countFree N (n :: S) < countFree N S := by
  unfold countFree
  apply filter_length_lt (a := n)
  · intro x hx
    simp only [List.mem_cons, not_or, decide_eq_true_eq] at hx ⊢
    exact hx.2
  · exact List.mem_range.2 hn
  · simpa using hS
  · simp

theorem countFree_nil (N : Nat) : countFree N [] = N := by
  have h : (List.range N).filter (fun _ => true) = List.range N := List.filter_eq_self.2 (by simp)
  simp [countFree, h]

end CyVerif.C46

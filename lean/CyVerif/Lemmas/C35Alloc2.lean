import CyVerif.Lemmas.C35Alloc
/-! (a) what `allocate_temp` may hand out; (c) the partition of the managed temps. -/
namespace CyVerif.C35

/-- the canonical key of a request -/
def reqKey (ty : Ty) (m : Bool) : Key :=
  (canon ty, if (canon ty).needsRefcounting then m else false)

theorem allocate_fresh_or_reuse (s : FS) (ty : Ty) (m st r : Bool) :
    (∃ fl n, reuseCandidate s (reqKey ty m) r = some (fl, n) ∧
        allocate s ty m st r = allocReuse s (reqKey ty m) fl n) ∨
    (reuseCandidate s (reqKey ty m) r = none ∧
        allocate s ty m st r = allocFresh s (reqKey ty m).1 (reqKey ty m).2 st r) := by
  unfold allocate reqKey
  simp only
  generalize (if (canon ty).needsRefcounting = true then m else false) = mm
  cases h : reuseCandidate s (canon ty, mm) r with
  | none => exact Or.inr ⟨rfl, rfl⟩
  | some p => obtain ⟨fl, n⟩ := p; exact Or.inl ⟨fl, n, rfl, rfl⟩

/-- (a) the name handed out is not in use before the call, is in use after it, is not in
`names_taken`, and — if it existed before — belongs to the same `(type, manage_ref)` key and was
released -/
theorem allocate_spec {s : FS} (w : WF s) (ty : Ty) (m st r : Bool) :
    let n := (allocate s ty m st r).2
    n ∉ inUseNames s ∧ n ∈ inUseNames (allocate s ty m st r).1 ∧ n ∉ s.taken ∧
    (n ∈ names s → r = true ∧ ∃ t ∈ s.allocated, t.name = n ∧ t.key = reqKey ty m ∧ isFree s t = true) := by
  have w' := wf_allocate w ty m st r
  rcases allocate_fresh_or_reuse s ty m st r with ⟨fl, n, hc, he⟩ | ⟨-, he⟩
  · obtain ⟨hr, hfl, hlast⟩ := reuseCandidate_some hc
    rw [he] at w' ⊢
    have hnord : n ∈ fl.order := by rw [order_split hlast]; simp
    have hnmem := (w.orderSub _ fl hfl n hnord).1
    obtain ⟨u, hu, hun, huk⟩ := w.members _ fl hfl n hnmem
    have huf : isFree s u = true := isFree_iff.mpr ⟨fl, huk ▸ hfl, hun ▸ hnmem⟩
    refine ⟨?_, ?_, ?_, fun _ => ⟨hr, u, hu, hun, huk, huf⟩⟩
    · intro h
      obtain ⟨t, ht, htn, hf⟩ := mem_inUseNames.mp h
      have : t = u := temp_eq_of_name w ht hu (by rw [htn]; exact hun.symm)
      rw [this, huf] at hf; cases hf
    · refine mem_inUseNames.mpr ⟨u, hu, hun, ?_⟩
      cases hf : isFree (allocReuse s (reqKey ty m) fl n).1 u with
      | false => rfl
      | true =>
        obtain ⟨fl', hfl', hm'⟩ := isFree_iff.mp hf
        change aget (aset s.free _ _) u.key = _ at hfl'
        rw [huk, aget_aset_self] at hfl'
        cases hfl'
        rw [hun] at hm'
        exact absurd hm' (List.Nodup.not_mem_erase (w.membersNodup _ fl hfl))
    · rw [← hun]; exact w.notTaken u hu
  · rw [he] at w' ⊢
    have hn := nextName_spec s.taken s.counter
    have fresh : nextName s.taken s.counter ∉ names s := by
      intro h
      obtain ⟨t, ht, e⟩ := mem_names.mp h
      have := w.bound t ht; omega
    refine ⟨fun h => fresh (inUseNames_sub_names h), ?_, hn.2, fun h => absurd h fresh⟩
    let t' : Temp := ⟨nextName s.taken s.counter, (reqKey ty m).1, (reqKey ty m).2, st⟩
    refine mem_inUseNames.mpr ⟨t', List.mem_append.mpr (Or.inr (by simp [t'])), rfl, ?_⟩
    cases hf : isFree (allocFresh s (reqKey ty m).1 (reqKey ty m).2 st r).1 t' with
    | false => rfl
    | true =>
      obtain ⟨fl', hfl', hm'⟩ := isFree_iff.mp hf
      obtain ⟨u, hu, hun, -⟩ := w.members _ fl' hfl' _ hm'
      exact absurd (mem_names.mpr ⟨u, hu, hun⟩) fresh

theorem mem_freeManaged {s : FS} {n : Nat} :
    n ∈ freeManaged s ↔ ∃ k fl, (k, fl) ∈ s.free ∧ k.2 = true ∧ n ∈ fl.order := by
  simp only [freeManaged, List.mem_mergeSort, freeManagedRaw, List.mem_flatMap, List.mem_filter]
  constructor
  · rintro ⟨⟨k, fl⟩, ⟨h, hk⟩, hn⟩; exact ⟨k, fl, h, hk, hn⟩
  · rintro ⟨k, fl, h, hk, hn⟩; exact ⟨(k, fl), ⟨h, hk⟩, hn⟩

theorem mem_deadManaged {s : FS} {n : Nat} :
    n ∈ deadManaged s ↔ ∃ k fl, (k, fl) ∈ s.free ∧ k.2 = true ∧ n ∈ fl.members ∧ n ∉ fl.order := by
  simp only [deadManaged, List.mem_flatMap, List.mem_filter]
  constructor
  · rintro ⟨⟨k, fl⟩, ⟨h, hk⟩, hn, hno⟩; exact ⟨k, fl, h, hk, hn, by simpa using hno⟩
  · rintro ⟨k, fl, h, hk, hn, hno⟩; exact ⟨(k, fl), ⟨h, hk⟩, hn, by simpa using hno⟩

theorem mem_allManaged {s : FS} {n : Nat} :
    n ∈ allManaged s ↔ ∃ t ∈ s.allocated, t.name = n ∧ t.manage = true := by
  simp only [allManaged, List.mem_map, List.mem_filter]
  constructor
  · rintro ⟨t, ⟨ht, hm⟩, e⟩; exact ⟨t, ht, e, hm⟩
  · rintro ⟨t, ht, e, hm⟩; exact ⟨t, ⟨ht, hm⟩, e⟩

/-- (c) every managed temp is in exactly one of: holding a reference (in use), free and reusable,
released and not reusable -/
theorem managed_partition {s : FS} (w : WF s) (n : Nat) :
    (n ∈ allManaged s ↔ n ∈ holdingRef s ∨ n ∈ freeManaged s ∨ n ∈ deadManaged s) ∧
    ¬ (n ∈ holdingRef s ∧ n ∈ freeManaged s) ∧ ¬ (n ∈ holdingRef s ∧ n ∈ deadManaged s) ∧
    ¬ (n ∈ freeManaged s ∧ n ∈ deadManaged s) := by
  -- a name listed in some free list belongs to a free temp of that key
  have key : ∀ k fl, (k, fl) ∈ s.free → n ∈ fl.members →
      ∃ t ∈ s.allocated, t.name = n ∧ t.key = k ∧ isFree s t = true ∧ aget s.free k = some fl := by
    intro k fl h hm
    have hg := aget_of_mem w.freeKeys h
    obtain ⟨t, ht, e, hk⟩ := w.members k fl hg n hm
    exact ⟨t, ht, e, hk, isFree_iff.mpr ⟨fl, hk ▸ hg, e ▸ hm⟩, hg⟩
  refine ⟨⟨?_, ?_⟩, ?_, ?_, ?_⟩
  · intro h
    obtain ⟨t, ht, e, hm⟩ := mem_allManaged.mp h
    cases hf : isFree s t with
    | false => exact Or.inl ((mem_holdingRef w).mpr ⟨t, ht, e, hm, hf⟩)
    | true =>
      obtain ⟨fl, hfl, hmem⟩ := isFree_iff.mp hf
      have hent := mem_of_aget hfl
      have hk2 : t.key.2 = true := hm
      by_cases ho : n ∈ fl.order
      · exact Or.inr (Or.inl (mem_freeManaged.mpr ⟨t.key, fl, hent, hk2, ho⟩))
      · exact Or.inr (Or.inr (mem_deadManaged.mpr ⟨t.key, fl, hent, hk2, e ▸ hmem, ho⟩))
  · rintro (h | h | h)
    · exact holdingRef_sub_allManaged h
    · obtain ⟨k, fl, hent, hk2, ho⟩ := mem_freeManaged.mp h
      obtain ⟨t, ht, e, hk, -, hg⟩ := key k fl hent ((w.orderSub k fl (aget_of_mem w.freeKeys hent) n ho).1)
      exact mem_allManaged.mpr ⟨t, ht, e, by rw [← hk] at hk2; exact hk2⟩
    · obtain ⟨k, fl, hent, hk2, hm, -⟩ := mem_deadManaged.mp h
      obtain ⟨t, ht, e, hk, -, -⟩ := key k fl hent hm
      exact mem_allManaged.mpr ⟨t, ht, e, by rw [← hk] at hk2; exact hk2⟩
  · rintro ⟨h1, h2⟩
    obtain ⟨t, ht, e, -, hf⟩ := (mem_holdingRef w).mp h1
    obtain ⟨k, fl, hent, -, ho⟩ := mem_freeManaged.mp h2
    obtain ⟨u, hu, eu, -, huf, -⟩ := key k fl hent ((w.orderSub k fl (aget_of_mem w.freeKeys hent) n ho).1)
    have : t = u := temp_eq_of_name w ht hu (by rw [e, eu])
    rw [this, huf] at hf; cases hf
  · rintro ⟨h1, h2⟩
    obtain ⟨t, ht, e, -, hf⟩ := (mem_holdingRef w).mp h1
    obtain ⟨k, fl, hent, -, hm, -⟩ := mem_deadManaged.mp h2
    obtain ⟨u, hu, eu, -, huf, -⟩ := key k fl hent hm
    have : t = u := temp_eq_of_name w ht hu (by rw [e, eu])
    rw [this, huf] at hf; cases hf
  · rintro ⟨h1, h2⟩
    obtain ⟨k, fl, hent, -, ho⟩ := mem_freeManaged.mp h1
    obtain ⟨k', fl', hent', -, hm', hno'⟩ := mem_deadManaged.mp h2
    obtain ⟨u, hu, eu, hk, -, hg⟩ := key k fl hent ((w.orderSub k fl (aget_of_mem w.freeKeys hent) n ho).1)
    obtain ⟨u', hu', eu', hk', -, hg'⟩ := key k' fl' hent' hm'
    have : u = u' := temp_eq_of_name w hu hu' (by rw [eu, eu'])
    subst this
    rw [← hk, hk'] at hg
    rw [hg'] at hg
    cases hg
    exact hno' ho

end CyVerif.C35

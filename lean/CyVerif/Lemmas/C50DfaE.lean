import CyVerif.Lemmas.C50DfaD
/-! Subset construction, part E: how one pass over `transitions.items()` extends the machine. -/
namespace CyVerif.C50

/-- `sm'` extends `sm`: keys and states are only appended, only state `q` is modified -/
structure Ext (n : NFA) (q : Nat) (its : List (Ev × SSet)) (sm sm' : SMap) : Prop where
  len : sm'.keys.length = sm'.states.length
  keys : ∃ extra, sm'.keys = sm.keys ++ extra ∧ ∀ K ∈ extra, ∃ ev, (ev, K) ∈ its
  grow : sm.states.length ≤ sm'.states.length
  same : ∀ p, p < sm.states.length → p ≠ q → sm'.states[p]? = sm.states[p]?
  fresh : ∀ p, sm.states.length ≤ p → p < sm'.states.length →
    sm'.states[p]? = some (freshD (highestPriorityAction n (sm'.key p)))
  act : (dstate sm'.states q).action = (dstate sm.states q).action
  inits : sm'.inits = sm.inits

theorem Ext.refl (n : NFA) (q : Nat) (sm : SMap) (hlen : sm.keys.length = sm.states.length) :
    Ext n q [] sm sm :=
  ⟨hlen, ⟨[], by simp, by simp⟩, Nat.le_refl _, fun _ _ _ => rfl, fun p h1 h2 => by omega, rfl, rfl⟩

theorem Ext.key_eq {n : NFA} {q : Nat} {its : List (Ev × SSet)} {sm sm' : SMap} (h : Ext n q its sm sm')
    {p : Nat} (hp : p < sm.keys.length) : sm'.key p = sm.key p := by
  obtain ⟨extra, hk, _⟩ := h.keys
  unfold SMap.key
  rw [hk, List.getElem?_append_left hp]

theorem Ext.trans {n : NFA} {q : Nat} {A B : List (Ev × SSet)} {sm sm1 sm2 : SMap}
    (hq : q < sm.states.length)
    (h1 : Ext n q A sm sm1) (h2 : Ext n q B sm1 sm2) : Ext n q (A ++ B) sm sm2 := by
  obtain ⟨e1, k1, m1⟩ := h1.keys
  obtain ⟨e2, k2, m2⟩ := h2.keys
  refine ⟨h2.len, ⟨e1 ++ e2, by rw [k2, k1, List.append_assoc], ?_⟩, Nat.le_trans h1.grow h2.grow, ?_, ?_,
    by rw [h2.act, h1.act], by rw [h2.inits, h1.inits]⟩
  · intro K hK
    rcases List.mem_append.1 hK with hK | hK
    · obtain ⟨ev, hev⟩ := m1 K hK; exact ⟨ev, List.mem_append_left _ hev⟩
    · obtain ⟨ev, hev⟩ := m2 K hK; exact ⟨ev, List.mem_append_right _ hev⟩
  · intro p hp hpq
    rw [h2.same p (Nat.lt_of_lt_of_le hp h1.grow) hpq, h1.same p hp hpq]
  · intro p hp1 hp2
    by_cases hp : p < sm1.states.length
    · rw [h2.same p hp (by omega), h1.fresh p hp1 hp, h2.key_eq (by rw [h1.len]; exact hp)]
    · exact h2.fresh p (by omega) hp2

/-- step A: `state_map.old_to_new(old_states)` -/
theorem ext_oldToNew (n : NFA) (q : Nat) (sm : SMap) (ev : Ev) (S : SSet)
    (hlen : sm.keys.length = sm.states.length) (hq : q < sm.states.length) :
    Ext n q [(ev, S)] sm (sm.oldToNew n S).1 := by
  obtain ⟨_, hi, hc⟩ := oldToNew_spec n sm S hlen
  rcases hc with hc | ⟨hk, hs⟩
  · rw [hc]
    exact ⟨hlen, ⟨[], by simp, by simp⟩, Nat.le_refl _, fun _ _ _ => rfl, fun p h1 h2 => by omega, rfl, rfl⟩
  · refine ⟨by rw [hk, hs]; simp [hlen], ⟨[S], hk, ?_⟩, by rw [hs]; simp, ?_, ?_, ?_, hi⟩
    · intro K hK; simp only [List.mem_singleton] at hK; subst hK; exact ⟨ev, by simp⟩
    · intro p hp _
      rw [hs, List.getElem?_append_left hp]
    · intro p hp1 hp2
      rw [hs] at hp2 ⊢
      simp only [List.length_append, List.length_singleton] at hp2
      have hp : p = sm.states.length := by omega
      subst hp
      rw [List.getElem?_append_right (Nat.le_refl _)]
      simp only [Nat.sub_self, List.getElem?_cons_zero, Option.some.injEq]
      unfold SMap.key
      rw [hk, ← hlen, List.getElem?_append_right (Nat.le_refl _)]
      simp
    · unfold dstate
      rw [hs, List.getElem?_append_left hq]

/-- step B: overwrite state `q` keeping its action -/
theorem ext_modify (n : NFA) (q : Nat) (sm : SMap) (st : DState)
    (hlen : sm.keys.length = sm.states.length) (ha : st.action = (dstate sm.states q).action) :
    Ext n q [] sm { sm with states := modifyNth (fun _ => st) q sm.states } := by
  refine ⟨by simp [modifyNth_length, hlen], ⟨[], by simp, by simp⟩, by simp [modifyNth_length], ?_, ?_, ?_, rfl⟩
  · intro p _ hpq
    simp only [modifyNth_get, hpq, if_false]
  · intro p h1 h2
    simp only [modifyNth_length] at h2
    omega
  · unfold dstate
    simp only [modifyNth_get, if_true]
    cases hq : sm.states[q]? with
    | none => simp
    | some st0 =>
      simp only [Option.map_some, Option.getD_some]
      rw [ha]; unfold dstate; rw [hq]; rfl

theorem dstate_modify (q : Nat) (states : List DState) (st : DState) (hq : q < states.length) :
    dstate (modifyNth (fun _ => st) q states) q = st := by
  unfold dstate
  simp [modifyNth_get, List.getElem?_eq_getElem hq]

end CyVerif.C50

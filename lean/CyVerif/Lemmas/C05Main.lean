import CyVerif.Lemmas.C05Verify
/-!
The digit-count cases, the compact path, the API tails and their composition `fromPyLong`.
-/
namespace CyVerif.C05

/-- What the main theorem needs to know about `__Pyx_LargePyLong_…` for types wider than `long long`. -/
def LargeOK (P : Plat) (cfg : Cfg) (t : CTy) (isEnum : Bool) : Prop :=
  P.llBytes < t.bytes → ∀ v : Int, (large P cfg t isEnum v).out t = spec t v

theorem largeOK_byteArray (P : Plat) (cfg : Cfg) (t : CTy) (isEnum : Bool) (ht : 0 < t.bytes)
    (hc : cfg.large = .byteArray) : LargeOK P cfg t isEnum := by
  intro _ v; unfold large; rw [hc]; exact largeByteArray_spec ht v

theorem P_shift_pos {P : Plat} (hP : P.WF) : 0 < P.shift := hP.1
theorem P_long_pos {P : Plat} (hP : P.WF) : 0 < P.longBytes := by have := hP; unfold Plat.WF at this; omega
theorem P_ll_pos {P : Plat} (hP : P.WF) : 0 < P.llBytes := by have := hP; unfold Plat.WF at this; omega
theorem P_size_pos {P : Plat} (hP : P.WF) : 0 < P.sizeBytes := by have := hP; unfold Plat.WF at this; omega

section
variable {P : Plat}

theorem apiU_spec (cfg : Cfg) {t : CTy} (ht : 0 < t.bytes) (hs : t.signed = false) (isEnum : Bool)
    (hL : LargeOK P cfg t isEnum) (v : Int) : (apiU P cfg t isEnum v).out t = spec t v := by
  unfold apiU
  by_cases h1 : t.bytes ≤ P.longBytes
  · simp only [h1, if_true]
    exact api_verify (f := P.tULong) ht hs h1 v true _
  · simp only [h1, if_false]
    by_cases h2 : t.bytes ≤ P.llBytes
    · simp only [h2, if_true]
      exact api_verify (f := P.tULL) ht hs h2 v true _
    · simp only [h2, if_false]; exact hL (by omega) v

theorem apiS_spec (cfg : Cfg) {t : CTy} (ht : 0 < t.bytes) (hs : t.signed = true) (isEnum : Bool)
    (hL : LargeOK P cfg t isEnum) (v : Int) : (apiS P cfg t isEnum v).out t = spec t v := by
  unfold apiS
  by_cases h1 : t.bytes ≤ P.longBytes
  · simp only [h1, if_true]
    exact api_verify (f := P.tLong) ht hs h1 v false _
  · simp only [h1, if_false]
    by_cases h2 : t.bytes ≤ P.llBytes
    · simp only [h2, if_true]
      exact api_verify (f := P.tLL) ht hs h2 v false _
    · simp only [h2, if_false]; exact hL (by omega) v

end

/-- facts about a digit list used by all digit-count cases -/
structure DigitsOK (S : Nat) (ds : List Nat) : Prop where
  lt : ∀ d ∈ ds, d < 2 ^ S
  last : ds.getLast? ≠ some 0

theorem DigitsOK.val_lt {S : Nat} {ds : List Nat} (h : DigitsOK S ds) : (natVal S ds : Int) < two (ds.length * S) :=
  natCast_lt_two (natVal_lt S ds h.lt)

theorem DigitsOK.val_pos {S : Nat} {ds : List Nat} (h : DigitsOK S ds) (hne : ds ≠ []) : 0 < natVal S ds := by
  have := natVal_ge S ds hne h.last
  have := Nat.two_pow_pos ((ds.length - 1) * S)
  omega

section
variable {P : Plat} (hP : P.WF)
include hP

theorem join_ulong {ds : List Nat} (hd : DigitsOK P.shift ds) (hne : ds ≠ [])
    (hg : ds.length * P.shift < P.tULong.bits) :
    pylongJoin P P.tULong ds = .ok ((natVal P.shift ds : Nat) : Int) :=
  pylongJoin_spec P P.tULong ds hP.1 hne hd.lt (by simp [CTy.cap, Plat.tULong] at *; omega)
    (by have := hP; unfold Plat.WF at this; simp [Plat.tULong]; omega) (P_long_pos hP)

theorem join_T {t : CTy} {ds : List Nat} (hd : DigitsOK P.shift ds) (hne : ds ≠ [])
    (hcap : ds.length * P.shift ≤ t.cap) (hnl : P.tULong.bits ≤ ds.length * P.shift) :
    pylongJoin P t ds = .ok ((natVal P.shift ds : Nat) : Int) := by
  have hb : P.longBytes ≤ t.bytes := by
    have := cap_le_bits t; simp [CTy.bits, Plat.tULong] at *; omega
  exact pylongJoin_spec P t ds hP.1 hne hd.lt hcap (by have := hP; unfold Plat.WF at this; omega)
    (by have := P_long_pos hP; omega)

theorem digitsU_spec {t : CTy} (ht : 0 < t.bytes) (hs : t.signed = false) {ds : List Nat}
    (hd : DigitsOK P.shift ds) (hne : ds ≠ []) :
    ∀ (ns : List Nat) (r : R), digitsU P t ds ns = some r → r.out t = spec t (natVal P.shift ds) := by
  intro ns
  induction ns with
  | nil => intro r h; simp [digitsU] at h
  | cons n ns ih =>
    intro r h
    unfold digitsU at h
    by_cases hc : ds.length = n ∧ t.bits > (n - 1) * P.shift
    · simp only [hc, and_self, if_true] at h
      obtain ⟨hlen, _⟩ := hc
      subst hlen
      have hvlt := hd.val_lt
      by_cases h1 : P.tULong.bits > ds.length * P.shift
      · simp only [h1, if_true, Option.some.injEq] at h
        rw [join_ulong hP hd hne (by omega)] at h
        subst h
        simp only [bind, Except.bind, pure, Except.pure, ofE]
        have hle : two (ds.length * P.shift) ≤ two P.tULong.bits := two_le_two (by omega)
        exact verify_same ht (P_long_pos hP) (by simp [hs, Plat.tULong])
          (by rw [inRange_unsigned (by simp [Plat.tULong])]; omega) _ _ _
      · simp only [h1, if_false] at h
        by_cases h2 : t.bits ≥ ds.length * P.shift
        · simp only [h2, if_true, Option.some.injEq] at h
          rw [join_T hP hd hne (by simp [CTy.cap, hs]; omega) (by omega)] at h
          subst h
          simp only [bind, Except.bind, pure, Except.pure, ofE]
          have hle : two (ds.length * P.shift) ≤ two t.bits := two_le_two (by omega)
          have hr : t.inRange (natVal P.shift ds : Int) := by rw [inRange_unsigned hs]; omega
          simp [R.out, spec, cast_of_inRange ht hr, hr]
        · simp [h2] at h
    · simp only [hc, if_false] at h
      exact ih r h

theorem digitsSNeg_spec {t : CTy} (ht : 0 < t.bytes) (hs : t.signed = true) {ds : List Nat}
    (hd : DigitsOK P.shift ds) (hne : ds ≠ []) :
    ∀ (ns : List Nat) (r : R), digitsSNeg P t ds ns = some r → r.out t = spec t (- (natVal P.shift ds : Int)) := by
  intro ns
  induction ns with
  | nil => intro r h; simp [digitsSNeg] at h
  | cons n ns ih =>
    intro r h
    unfold digitsSNeg at h
    by_cases hc : ds.length = n ∧ t.bits > (n - 1) * P.shift
    · simp only [hc, and_self, if_true] at h
      obtain ⟨hlen, _⟩ := hc
      subst hlen
      have hvlt := hd.val_lt
      have hLb : P.tLong.bits = P.tULong.bits := rfl
      by_cases h1 : P.tLong.bits > ds.length * P.shift
      · simp only [h1, if_true, Option.some.injEq] at h
        rw [join_ulong hP hd hne (by omega)] at h
        have hle : two (ds.length * P.shift) ≤ two (P.tLong.bits - 1) := two_le_two (by omega)
        have hr : P.tLong.inRange (natVal P.shift ds : Int) := by
          rw [inRange_signed (by simp [Plat.tLong])]; omega
        have hr' : P.tLong.inRange (-(natVal P.shift ds : Int)) := by
          rw [inRange_signed (by simp [Plat.tLong])]; omega
        have hneg : neg P.tLong (natVal P.shift ds : Int) = .ok (-(natVal P.shift ds : Int)) := by
          unfold neg; rw [if_pos (by simp [Plat.tLong]), if_pos hr']
        subst h
        simp only [bind, Except.bind, pure, Except.pure, ofE, cast_of_inRange (t := P.tLong) (P_long_pos hP) hr, hneg]
        exact verify_same ht (P_long_pos hP) (by simp [hs, Plat.tLong]) hr' _ _ _
      · simp only [h1, if_false] at h
        by_cases h2 : t.bits - 1 > ds.length * P.shift
        · simp only [h2, if_true, Option.some.injEq] at h
          rw [join_T hP hd hne (by simp [CTy.cap, hs]; omega) (by omega)] at h
          have hb : P.intBytes ≤ t.bytes := by
            have := hP; unfold Plat.WF at this; simp [CTy.bits, Plat.tLong] at *; omega
          have hle : two (ds.length * P.shift) ≤ two (t.bits - 1) := two_le_two (by omega)
          have hr : t.inRange (-(natVal P.shift ds : Int)) := by rw [inRange_signed hs]; omega
          subst h
          simp only [bind, Except.bind, pure, Except.pure, ofE, promote_of_ge hb, cast_neg_one_signed ht hs, mul, hs,
            if_true, Int.neg_mul, Int.one_mul, hr]
          simp [R.out, spec, cast_of_inRange ht hr, hr]
        · simp [h2] at h
    · simp only [hc, if_false] at h
      exact ih r h

theorem digitsSPos_spec {t : CTy} (ht : 0 < t.bytes) (hs : t.signed = true) {ds : List Nat}
    (hd : DigitsOK P.shift ds) (hne : ds ≠ []) :
    ∀ (ns : List Nat) (r : R), digitsSPos P t ds ns = some r → r.out t = spec t (natVal P.shift ds : Int) := by
  intro ns
  induction ns with
  | nil => intro r h; simp [digitsSPos] at h
  | cons n ns ih =>
    intro r h
    unfold digitsSPos at h
    by_cases hc : ds.length = n ∧ t.bits > (n - 1) * P.shift
    · simp only [hc, and_self, if_true] at h
      obtain ⟨hlen, _⟩ := hc
      subst hlen
      have hvlt := hd.val_lt
      have hLb : P.tLong.bits = P.tULong.bits := rfl
      by_cases h1 : P.tLong.bits > ds.length * P.shift
      · simp only [h1, if_true, Option.some.injEq] at h
        rw [join_ulong hP hd hne (by omega)] at h
        have hle : two (ds.length * P.shift) ≤ two (P.tULong.bits - 1) := two_le_two (by omega)
        subst h
        simp only [bind, Except.bind, pure, Except.pure, ofE]
        exact verify_mixed ht (P_long_pos hP) hs (by simp [Plat.tULong]) (by omega) (by omega) _ _ _
      · simp only [h1, if_false] at h
        by_cases h2 : t.bits - 1 > ds.length * P.shift
        · simp only [h2, if_true, Option.some.injEq] at h
          rw [join_T hP hd hne (by simp [CTy.cap, hs]; omega) (by omega)] at h
          have hle : two (ds.length * P.shift) ≤ two (t.bits - 1) := two_le_two (by omega)
          have hr : t.inRange (natVal P.shift ds : Int) := by rw [inRange_signed hs]; omega
          subst h
          simp [bind, Except.bind, pure, Except.pure, ofE, R.out, spec, cast_of_inRange ht hr, hr]
        · simp [h2] at h
    · simp only [hc, if_false] at h
      exact ih r h

end

end CyVerif.C05

import CyVerif.Model.C18Join
/-! C18 lemmas: the copy loop of `__Pyx_PyUnicode_Join` and the kind bookkeeping. -/
namespace CyVerif.C18

theorem set_append_mid' {α} (l1 : List α) (a b : α) (l2 : List α) :
    (l1 ++ a :: l2).set l1.length b = l1 ++ b :: l2 := by
  induction l1 with
  | nil => rfl
  | cons x xs ih => simp [ih]

theorem joinWrite_spec (cellMax : Nat) : ∀ (cs pre : List Nat) (k : Nat),
    joinWrite cellMax (pre.map some ++ List.replicate (cs.length + k) none) pre.length cs =
      some ((pre ++ cs.map (· % cellMax)).map some ++ List.replicate k none) := by
  intro cs
  induction cs with
  | nil => intro pre k; simp [joinWrite]
  | cons c cs ih =>
    intro pre k
    unfold joinWrite
    have hlt : pre.length < (pre.map some ++ List.replicate ((c :: cs).length + k) (none : Option Nat)).length := by
      simp; omega
    simp only [hlt, if_true]
    have hr : List.replicate ((c :: cs).length + k) (none : Option Nat) = none :: List.replicate (cs.length + k) none := by
      simp [List.length_cons, Nat.add_right_comm _ 1 k, List.replicate_succ]
    rw [hr]
    have h2 := set_append_mid' (pre.map some) (none : Option Nat) (some (c % cellMax)) (List.replicate (cs.length + k) none)
    simp only [List.length_map] at h2
    rw [h2]
    have := ih (pre ++ [c % cellMax]) k
    simp only [List.length_append, List.length_cons, List.length_nil, Nat.zero_add, List.map_append,
      List.map_cons, List.map_nil, List.append_assoc, List.cons_append, List.nil_append] at this
    simpa using this

theorem collectNat_map_some (l : List Nat) : collectNat (l.map some) = some l := by
  induction l with
  | nil => rfl
  | cons a l ih => simp [collectNat, ih]

/-- the copy loop fills the buffer with the concatenation of the (reduced) values -/
theorem joinLoop_spec (cellMax : Nat) : ∀ (vs : List (List Nat)) (pre : List Nat) (k : Nat),
    joinLoop cellMax vs (pre.map some ++ List.replicate ((vs.map List.length).sum + k) none) pre.length =
      some ((pre ++ (vs.map fun v => v.map (· % cellMax)).flatten).map some ++ List.replicate k none) := by
  intro vs
  induction vs with
  | nil => intro pre k; simp [joinLoop]
  | cons v vs ih =>
    intro pre k
    unfold joinLoop
    have e : ((v :: vs).map List.length).sum + k = v.length + ((vs.map List.length).sum + k) := by
      simp [Nat.add_assoc]
    rw [e, joinWrite_spec]
    simp only []
    have := ih (pre ++ v.map (· % cellMax)) k
    simp only [List.length_append, List.length_map] at this
    rw [this]
    simp


theorem foldl_max_ge_init (l : List Nat) (a : Nat) : a ≤ l.foldl max a := by
  induction l generalizing a with
  | nil => exact Nat.le_refl _
  | cons x xs ih => exact Nat.le_trans (Nat.le_max_left a x) (ih (max a x))

theorem foldl_max_ge_mem (l : List Nat) (a c : Nat) (h : c ∈ l) : c ≤ l.foldl max a := by
  induction l generalizing a with
  | nil => simp at h
  | cons x xs ih =>
    simp only [List.mem_cons] at h
    rcases h with rfl | h
    · exact Nat.le_trans (Nat.le_max_right a c) (foldl_max_ge_init xs (max a c))
    · exact ih (max a x) h

theorem kind04_le_four (s : List Nat) : kind04 s ≤ 4 := by
  unfold kind04; simp only []
  split
  · omega
  · split
    · omega
    · split <;> omega

/-- cell capacity for a `kind` argument -/
def cellOf (kind : Nat) : Nat := 2 ^ (8 * (1 <<< ((if kind > 4 then 4 else kind) >>> 1)))

theorem cellOf_mono (k K : Nat) (hk : k ≤ 4) (h : k ≤ K) : cellOf k ≤ cellOf K := by
  unfold cellOf
  have hk' : ¬ k > 4 := by omega
  simp only [hk', if_false]
  apply Nat.pow_le_pow_right (by omega)
  apply Nat.mul_le_mul_left
  have hle : k ≤ (if K > 4 then 4 else K) := by split <;> omega
  have h1 : k >>> 1 ≤ (if K > 4 then 4 else K) >>> 1 := by
    rw [Nat.shiftRight_eq_div_pow, Nat.shiftRight_eq_div_pow]
    exact Nat.div_le_div_right hle
  rw [Nat.one_shiftLeft, Nat.one_shiftLeft]
  exact Nat.pow_le_pow_right (by omega) h1

theorem lt_cellOf_kind04 (s : List Nat) (c : Nat) (hc : c ∈ s) (hv : c < 0x110000) : c < cellOf (kind04 s) := by
  have hm := foldl_max_ge_mem s 0 c hc
  unfold cellOf kind04
  simp only []
  by_cases h1 : s.foldl max 0 < 128
  · simp only [h1, if_true]; have : c < 128 := by omega
    exact Nat.lt_of_lt_of_le this (by decide)
  · by_cases h2 : s.foldl max 0 < 256
    · simp only [h1, if_false, h2, if_true]; have : c < 256 := by omega
      exact Nat.lt_of_lt_of_le this (by decide)
    · by_cases h3 : s.foldl max 0 < 65536
      · simp only [h1, if_false, h2, h3, if_true]; have : c < 65536 := by omega
        exact Nat.lt_of_lt_of_le this (by decide)
      · simp only [h1, if_false, h2, h3]
        exact Nat.lt_of_lt_of_le hv (by decide)


/-- the fold that ors the kinds of the values counted by the compiler -/
def orKinds (k : Nat) (nodes : List JNode) : Nat :=
  nodes.foldl (fun k n => match n with | .val s false => k ||| kind04 s | _ => k) k

theorem orKinds_ge_init (nodes : List JNode) (k : Nat) : k ≤ orKinds k nodes := by
  induction nodes generalizing k with
  | nil => exact Nat.le_refl _
  | cons n ns ih =>
    unfold orKinds; simp only [List.foldl_cons]
    cases n with
    | lit s => exact ih k
    | val s a =>
      cases a with
      | true => exact ih k
      | false => exact Nat.le_trans Nat.left_le_or (ih _)

theorem orKinds_ge_mem (nodes : List JNode) (k : Nat) (s : List Nat) (h : JNode.val s false ∈ nodes) :
    kind04 s ≤ orKinds k nodes := by
  induction nodes generalizing k with
  | nil => simp at h
  | cons n ns ih =>
    simp only [List.mem_cons] at h
    unfold orKinds; simp only [List.foldl_cons]
    rcases h with rfl | h
    · exact Nat.le_trans Nat.right_le_or (orKinds_ge_init ns _)
    · cases n with
      | lit s' => exact ih k h
      | val s' a =>
        cases a with
        | true => exact ih k h
        | false => exact ih _ h

/-- the `kind` argument bounds the kind of every value the compiler did not assume to be ASCII -/
theorem joinArgs_kind_ge (nodes : List JNode) (n : JNode) (hn : n ∈ nodes)
    (hna : ∀ s, n ≠ .val s true) : kind04 n.text ≤ (joinArgs nodes).2 := by
  unfold joinArgs
  simp only []
  split
  · exact kind04_le_four _
  · cases n with
    | lit s =>
      have h1 : kind04 s ≤ (nodes.map fun n => match n with | .lit s => kind04 s | .val _ _ => 0).foldl max 0 :=
        foldl_max_ge_mem _ 0 _ (List.mem_map.mpr ⟨.lit s, hn, rfl⟩)
      exact Nat.le_trans h1 (orKinds_ge_init nodes _)
    | val s a =>
      cases a with
      | true => exact absurd rfl (hna s)
      | false => exact orKinds_ge_mem nodes _ s hn

theorem map_mod_id (cell : Nat) (s : List Nat) (h : ∀ c ∈ s, c < cell) : s.map (· % cell) = s := by
  induction s with
  | nil => rfl
  | cons a s ih =>
    simp only [List.map_cons]
    rw [Nat.mod_eq_of_lt (h a (by simp)), ih (fun c hc => h c (by simp [hc]))]

end CyVerif.C18

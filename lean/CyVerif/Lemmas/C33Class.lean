import CyVerif.Lemmas.C33Compl
/-! # C33 — which exception classes `fromPy` can raise -/
namespace CyVerif.C33

/-- the classes the property allows (`UnicodeEncodeError` is a subclass of `ValueError`) -/
def Documented (e : String) : Prop :=
  e = "TypeError" ∨ e = "ValueError" ∨ e = "OverflowError" ∨ e = "UnicodeEncodeError"

mutual
/-- some sub-term of the type satisfies `q` -/
def anySub (q : Ty → Bool) : Ty → Bool
  | .pair a b => q (.pair a b) || anySub q a || anySub q b
  | .vec t => q (.vec t) || anySub q t
  | .lst t => q (.lst t) || anySub q t
  | .set t => q (.set t) || anySub q t
  | .uset t => q (.uset t) || anySub q t
  | .map k v => q (.map k v) || anySub q k || anySub q v
  | .umap k v => q (.umap k v) || anySub q k || anySub q v
  | .struct ns ts => q (.struct ns ts) || anySubL q ts
  | .union ns ts => q (.union ns ts) || anySubL q ts
  | .carray t n => q (.carray t n) || anySub q t
  | .ctuple ts => q (.ctuple ts) || anySubL q ts
  | t => q t
def anySubL (q : Ty → Bool) : List Ty → Bool
  | [] => false
  | t :: ts => anySub q t || anySubL q ts
end

def isCarray : Ty → Bool | .carray _ _ => true | _ => false
def isMap : Ty → Bool | .map _ _ => true | .umap _ _ => true | _ => false

theorem floatTrunc_class (b e) (h : floatTrunc b = .error e) : Documented e := by
  simp only [floatTrunc] at h
  split at h
  · split at h <;> simp at h <;> subst h <;> simp [Documented]
  · simp at h

theorem intLeaf_class (w sg p e) (h : intLeaf w sg p = .error e) : Documented e := by
  cases p <;> simp only [intLeaf] at h
  case int n => split at h <;> simp at h; subst h; simp [Documented]
  case bool b => simp at h
  case float bits =>
    simp only [bind, Except.bind] at h
    cases hf : floatTrunc bits with
    | error e' => rw [hf] at h; simp at h; subst h; exact floatTrunc_class _ _ hf
    | ok n => rw [hf] at h; simp only at h; split at h <;> simp at h; subst h; simp [Documented]
  all_goals (simp at h; subst h; simp [Documented])

theorem dblLeaf_class (p e) (h : dblLeaf p = .error e) : Documented e := by
  cases p <;> simp only [dblLeaf] at h
  case int n =>
    simp only [intToDouble] at h
    split at h <;> simp at h; subst h; simp [Documented]
  case float b => simp at h
  case bool b => simp at h
  all_goals (simp at h; subst h; simp [Documented])

theorem strLeaf_class (m p e) (h : strLeaf m p = .error e) : Documented e := by
  cases p <;> simp only [strLeaf] at h
  case str s =>
    cases m
    · simp [strEncode] at h; subst h; simp [Documented]
    · simp only [strEncode, asciiEncode] at h; split at h <;> simp at h; subst h; simp [Documented]
    · cases hu : C10.utf8Encode s with
      | ok b => simp [strEncode, hu] at h
      | err e' =>
        simp [strEncode, hu] at h; subst h
        unfold C10.utf8Encode at hu
        split at hu <;> simp at hu
        subst hu; simp [Documented]
  case bytes b => simp at h
  case bytearray b => simp at h
  all_goals (simp at h; subst h; simp [Documented])

theorem cplxLeaf_class (p e) (h : cplxLeaf p = .error e) : Documented e := by
  cases p <;> simp only [cplxLeaf, bind, Except.bind] at h
  case cplx re im => simp at h
  all_goals (split at h <;> simp at h; subst h; rename_i hd; exact dblLeaf_class _ _ hd)

theorem iterate_class (p e) (h : iterate p = .error e) : e = "TypeError" := by
  cases p <;> simp [iterate] at h <;> exact h.symm

theorem items_class (p e) (h : items p = .error e) : e = "AttributeError" := by
  cases p <;> simp [items] at h <;> exact h.symm

theorem lookups_class (p : PyVal) : ∀ (ns : List String) (e : String), lookups p ns = .error e → Documented e
  | [], e, h => by simp [lookups] at h
  | n :: ns, e, h => by
    simp only [lookups, bind, Except.bind] at h
    cases hs : subscript n p with
    | error e' =>
      rw [hs] at h; simp at h; subst h
      cases p <;> simp [subscript] at hs <;> subst hs <;> simp [Documented]
    | ok o =>
      rw [hs] at h
      cases o with
      | none => simp at h; subst h; simp [Documented]
      | some v =>
        simp only at h
        cases hr : lookups p ns with
        | error e' => rw [hr] at h; simp at h; subst h; exact lookups_class p ns _ hr
        | ok r => rw [hr] at h; simp at h

/-- the error a node raises by itself -/
theorem immediate_class (m : Mode) (t : Ty) (p : PyVal) (e : String) (h : immediate m t p = some e) :
    Documented e ∨ (e = "IndexError" ∧ isCarray t = true) ∨ (e = "AttributeError" ∧ isMap t = true) := by
  have TE : Documented "TypeError" := by simp [Documented]
  have VE : Documented "ValueError" := by simp [Documented]
  cases t with
  | int w sg => exact .inl (intLeaf_class _ _ _ _ (errOf_some _ _ h))
  | dbl => exact .inl (dblLeaf_class _ _ (errOf_some _ _ h))
  | bool => simp [immediate] at h
  | str => exact .inl (strLeaf_class _ _ _ (errOf_some _ _ h))
  | cstr => exact .inl (strLeaf_class _ _ _ (errOf_some _ _ h))
  | cplx => exact .inl (cplxLeaf_class _ _ (errOf_some _ _ h))
  | pair a b =>
    simp only [immediate] at h
    split at h
    · rename_i e' hi; injection h with h; subst h; rw [iterate_class _ _ hi]; exact .inl TE
    · split at h <;> simp at h; subst h; exact .inl VE
  | vec t => rw [iterate_class _ _ (errOf_some _ _ h)]; exact .inl TE
  | lst t => rw [iterate_class _ _ (errOf_some _ _ h)]; exact .inl TE
  | set t => rw [iterate_class _ _ (errOf_some _ _ h)]; exact .inl TE
  | uset t => rw [iterate_class _ _ (errOf_some _ _ h)]; exact .inl TE
  | map k v => exact .inr (.inr ⟨items_class _ _ (errOf_some _ _ h), rfl⟩)
  | umap k v => exact .inr (.inr ⟨items_class _ _ (errOf_some _ _ h), rfl⟩)
  | struct ns ts =>
    simp only [immediate] at h
    split at h
    · exact .inl (lookups_class _ _ _ (errOf_some _ _ h))
    · injection h with h; subst h; exact .inl TE
  | union ns ts => simp [immediate] at h
  | carray t n =>
    simp only [immediate] at h
    split at h
    · split at h
      · rw [iterate_class _ _ (errOf_some _ _ h)]; exact .inl TE
      · injection h with h; subst h; exact .inr (.inl ⟨rfl, rfl⟩)
    · rw [iterate_class _ _ (errOf_some _ _ h)]; exact .inl TE
  | ctuple ts =>
    have := immediate_err m _ _ _ h
    rcases ctuple_cases m ts p with ⟨xs, hc, hlen, heq⟩ | ⟨e', hi⟩
    · exfalso
      cases p <;> simp_all [immediate, comps, isSequence, iterate]
    · cases p <;> simp only [immediate, isSequence, iterate] at h <;>
        first
        | (simp at h; subst h; exact .inl TE)
        | (split at h <;> simp at h; subst h; exact .inl TE)
        | (simp only [if_true] at h; split at h <;> simp at h; subst h; exact .inl TE)

theorem anySub_self (q : Ty → Bool) (t : Ty) (h : q t = true) : anySub q t = true := by
  cases t <;> simp [anySub, h]

theorem anySub_elems (q : Ty → Bool) (t : Ty) (p : PyVal) (t' : Ty) (xs : List PyVal)
    (h : elems t p = some (t', xs)) (hq : anySub q t' = true) : anySub q t = true := by
  cases t <;> simp only [elems] at h
  case vec t => split at h <;> simp at h; obtain ⟨rfl, _⟩ := h; simp [anySub, hq]
  case lst t => split at h <;> simp at h; obtain ⟨rfl, _⟩ := h; simp [anySub, hq]
  case set t => split at h <;> simp at h; obtain ⟨rfl, _⟩ := h; simp [anySub, hq]
  case uset t => split at h <;> simp at h; obtain ⟨rfl, _⟩ := h; simp [anySub, hq]
  case carray t n =>
    split at h
    · split at h <;> simp at h; obtain ⟨rfl, _⟩ := h; simp [anySub, hq]
    · simp at h; obtain ⟨rfl, _⟩ := h; simp [anySub, hq]
    · simp at h
  all_goals simp at h

theorem anySubL_mem (q : Ty → Bool) : ∀ (tpre : List Ty) (ti : Ty) (tpost : List Ty),
    anySub q ti = true → anySubL q (tpre ++ ti :: tpost) = true
  | [], ti, tpost, h => by simp [anySubL, h]
  | t :: tpre, ti, tpost, h => by simp [anySubL, anySubL_mem q tpre ti tpost h]

theorem anySub_comps (q : Ty → Bool) (t : Ty) (p : PyVal) (ts : List Ty) (xs : List PyVal)
    (h : comps t p = some (ts, xs)) (hq : anySubL q ts = true) : anySub q t = true := by
  cases t <;> simp only [comps] at h
  case pair a b =>
    split at h <;> simp at h; obtain ⟨rfl, _⟩ := h
    simp only [anySubL, Bool.or_false, Bool.or_eq_true] at hq
    rcases hq with hq | hq <;> simp [anySub, hq]
  case struct ns ts' =>
    split at h
    · split at h <;> simp at h; obtain ⟨rfl, _⟩ := h; simp [anySub, hq]
    · simp at h
  case ctuple ts' =>
    have : ts = ts' := by
      cases p <;> simp only [isSequence] at h <;>
        first
        | (simp at h; done)
        | (split at h <;> simp at h; exact h.1.symm)
        | (simp only [if_true] at h; split at h
           · split at h <;> simp at h; exact h.1.symm
           · simp at h)
    subst this; simp [anySub, hq]
  all_goals simp at h

theorem anySub_mapTys (q : Ty → Bool) (t k v : Ty) (h : mapTys t = some (k, v)) :
    (anySub q k = true → anySub q t = true) ∧ (anySub q v = true → anySub q t = true) := by
  cases t <;> simp [mapTys] at h <;> obtain ⟨rfl, rfl⟩ := h <;>
    exact ⟨fun hq => by simp [anySub, hq], fun hq => by simp [anySub, hq]⟩

theorem firstBad_class (m : Mode) (t : Ty) (p : PyVal) (e : String) (h : FirstBad m t p e) :
    Documented e ∨ (e = "IndexError" ∧ anySub isCarray t = true) ∨
      (e = "AttributeError" ∧ anySub isMap t = true) := by
  induction h with
  | node h =>
    rcases immediate_class m _ _ _ h with h | ⟨h1, h2⟩ | ⟨h1, h2⟩
    · exact .inl h
    · exact .inr (.inl ⟨h1, anySub_self _ _ h2⟩)
    · exact .inr (.inr ⟨h1, anySub_self _ _ h2⟩)
  | elem hel _ _ ih =>
    rcases ih with h | ⟨h1, h2⟩ | ⟨h1, h2⟩
    · exact .inl h
    · exact .inr (.inl ⟨h1, anySub_elems _ _ _ _ _ hel h2⟩)
    · exact .inr (.inr ⟨h1, anySub_elems _ _ _ _ _ hel h2⟩)
  | comp hc hts _ _ _ _ ih =>
    subst hts
    rcases ih with h | ⟨h1, h2⟩ | ⟨h1, h2⟩
    · exact .inl h
    · exact .inr (.inl ⟨h1, anySub_comps _ _ _ _ _ hc (anySubL_mem _ _ _ _ h2)⟩)
    · exact .inr (.inr ⟨h1, anySub_comps _ _ _ _ _ hc (anySubL_mem _ _ _ _ h2)⟩)
  | mapKey ht _ _ _ _ ih =>
    rcases ih with h | ⟨h1, h2⟩ | ⟨h1, h2⟩
    · exact .inl h
    · exact .inr (.inl ⟨h1, (anySub_mapTys _ _ _ _ ht).1 h2⟩)
    · exact .inr (.inr ⟨h1, (anySub_mapTys _ _ _ _ ht).1 h2⟩)
  | mapVal ht _ _ _ _ _ ih =>
    rcases ih with h | ⟨h1, h2⟩ | ⟨h1, h2⟩
    · exact .inl h
    · exact .inr (.inl ⟨h1, (anySub_mapTys _ _ _ _ ht).2 h2⟩)
    · exact .inr (.inr ⟨h1, (anySub_mapTys _ _ _ _ ht).2 h2⟩)
  | carrayLate _ _ _ _ => exact .inr (.inl ⟨rfl, by simp [anySub, isCarray]⟩)

end CyVerif.C33

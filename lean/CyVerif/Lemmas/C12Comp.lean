import CyVerif.Lemmas.C12Match
import CyVerif.Lemmas.C12Format
/-!
Compressor validity, part 2: the main loop of `lzss_compress` raises nothing, its output
is `emit toks` for the token list it chose, and that token list is well formed and expands
to the input.
-/
namespace CyVerif.C12

theorem pushAll_ok : ∀ (bs : List Nat) (out : Array Nat), (∀ b ∈ bs, b < 256) →
    ∃ out', pushAll out bs = .ok out' ∧ out'.toList = out.toList ++ bs := by
  intro bs
  induction bs with
  | nil => intro out _; exact ⟨out, rfl, by simp⟩
  | cons b bs ih =>
    intro out h
    have hb : b < 256 := h b (List.mem_cons_self ..)
    obtain ⟨out', h1, h2⟩ := ih (out.push b) (fun x hx => h x (List.mem_cons_of_mem _ hx))
    refine ⟨out', ?_, ?_⟩
    · unfold pushAll; rw [if_pos hb]; exact h1
    · rw [h2]; simp

/-- the bytes a genuine match copies are the bytes that follow in the input -/
theorem copy_eq (d : List Nat) (pos bo bl : Nat) (hbo : bl ≤ bo) (hbp : bo ≤ pos)
    (hm : ∀ i, i < bl → d[pos - bo + i]? = d[pos + i]?) :
    ((d.take pos).drop (pos - bo)).take bl = (d.drop pos).take bl := by
  apply List.ext_getElem?
  intro i
  simp only [List.getElem?_take, List.getElem?_drop]
  by_cases hi : i < bl
  · simp only [hi, if_true]
    rw [if_pos (by omega)]
    exact hm i hi
  · simp [hi]

theorem applyTok_ref (d : Array Nat) (pos bl bo : Nat) (t : Token) (hl : t.isLit = false)
    (hoff : t.off = bo - bl) (hlen : t.len = bl) (hbo : bl ≤ bo) (hbp : bo ≤ pos)
    (hn : pos + bl ≤ d.size) (hm : ∀ i, i < bl → d[pos - bo + i]? = d[pos + i]?) :
    applyTok (d.toList.take pos) t = d.toList.take (pos + bl) := by
  have happ : applyTok (d.toList.take pos) t = d.toList.take pos ++
      (((d.toList.take pos).drop ((d.toList.take pos).length - t.off - t.len)).take t.len) := by
    cases t <;> simp_all [applyTok, Token.isLit]
  have hlen' : (d.toList.take pos).length = pos := by
    rw [List.length_take, Array.length_toList]; omega
  rw [happ, hlen', hoff, hlen]
  have e : pos - (bo - bl) - bl = pos - bo := by omega
  rw [e, copy_eq d.toList pos bo bl hbo hbp (by simpa using hm), ← List.take_add]

theorem choose_spec (P : Params) (hP : WF P) (d : Array Nat) (pos bl bo lit : Nat)
    (hpos : pos < d.size) (hlit : d[pos]? = some lit) (hlit256 : lit < 256)
    (hg : Good P d pos bl bo) :
    TokOK pos (choose P bo bl lit).1 ∧
    applyTok (d.toList.take pos) (choose P bo bl lit).1
      = d.toList.take (pos + (choose P bo bl lit).1.len) ∧
    pos + (choose P bo bl lit).1.len ≤ d.size ∧
    (∀ b ∈ encTok (choose P bo bl lit).1, b < 256) := by
  have hlitcase : TokOK pos (.lit lit) ∧
      applyTok (d.toList.take pos) (.lit lit) = d.toList.take (pos + (Token.lit lit).len) ∧
      pos + (Token.lit lit).len ≤ d.size ∧ (∀ b ∈ encTok (.lit lit), b < 256) := by
    refine ⟨hlit256, ?_, by simp [Token.len]; omega, by simp [encTok]; exact hlit256⟩
    simp only [applyTok, Token.len]
    rw [List.take_add_one, Array.getElem?_toList, hlit]
    rfl
  obtain ⟨hmm, hshort, hml, hmo, hlo, _⟩ := hP
  unfold choose
  by_cases h1 : bl < 3 ∨ bo < bl
  · rw [if_pos h1]; exact hlitcase
  · rw [if_neg h1]
    have hbl3 : 3 ≤ bl := by omega
    have hbo : bl ≤ bo := by omega
    rcases hg with hz | ⟨_, h258, hn, _, hbp, hwin, hm⟩
    · omega
    simp only
    by_cases h2 : bo - bl ≤ P.shortMax
    · rw [if_pos h2]
      refine ⟨?_, applyTok_ref d pos bl bo _ rfl rfl rfl hbo hbp hn hm, hn, ?_⟩
      · simp only [TokOK]; omega
      · simp only [encTok, List.mem_cons, List.not_mem_nil, or_false]
        rintro b (rfl | rfl) <;> omega
    · rw [if_neg h2]
      by_cases h3 : bl - 3 < P.midLenLim ∧ bo - bl - 0x80 < P.midOffLim
      · rw [if_pos h3]
        refine ⟨?_, applyTok_ref d pos bl bo _ rfl rfl rfl hbo hbp hn hm, hn, ?_⟩
        · simp only [TokOK]; omega
        · obtain ⟨_, _, _, _, k5, k6⟩ := mid_codec (bo - bl - 0x80) (bl - 3) (by omega) (by omega)
          simp only [encTok, List.mem_cons, List.not_mem_nil, or_false]
          rintro b (rfl | rfl)
          · exact k5
          · exact k6
      · rw [if_neg h3]
        by_cases h4 : bl > 3 ∧ bo - bl - 0x80 < P.longOffLim
        · rw [if_pos h4]
          refine ⟨?_, applyTok_ref d pos bl bo _ rfl rfl rfl hbo hbp hn hm, hn, ?_⟩
          · simp only [TokOK]; omega
          · obtain ⟨_, _, _, k4, k5⟩ := long_codec (bo - bl - 0x80) (by omega)
            simp only [encTok, List.mem_cons, List.not_mem_nil, or_false]
            rintro b (rfl | rfl | rfl)
            · exact k4
            · exact k5
            · omega
        · rw [if_neg h4]; exact hlitcase

/-! ### the flag-byte bookkeeping equals the stream format -/

theorem emit_of_ne' {ts : List Token} (h : ts ≠ []) :
    emit ts = emitGroup (ts.take 8) ++ emit (ts.drop 8) := by
  rw [emit]; simp [h]

theorem emit_append_group : ∀ (n : Nat) (full : List Token), full.length ≤ n → 8 ∣ full.length →
    ∀ g : List Token, g ≠ [] → g.length ≤ 8 → emit (full ++ g) = emit full ++ emitGroup g := by
  intro n
  induction n with
  | zero =>
    intro full hlen _ g hg hg8
    have : full = [] := List.eq_nil_of_length_eq_zero (by omega)
    subst this
    rw [List.nil_append, emit_nil, List.nil_append, emit_of_ne' hg,
      List.take_of_length_le hg8, List.drop_eq_nil_of_le hg8, emit_nil, List.append_nil]
  | succ n ih =>
    intro full hlen hdvd g hg hg8
    by_cases hf : full = []
    · subst hf
      rw [List.nil_append, emit_nil, List.nil_append, emit_of_ne' hg,
        List.take_of_length_le hg8, List.drop_eq_nil_of_le hg8, emit_nil, List.append_nil]
    · have hpos : 0 < full.length := List.length_pos_iff.mpr hf
      have h8 : 8 ≤ full.length := by omega
      have hne : full ++ g ≠ [] := by simp [hf]
      rw [emit_of_ne' hne, emit_of_ne' hf, List.take_append_of_le_length h8,
        List.drop_append_of_le_length h8, List.append_assoc]
      congr 1
      apply ih
      · simp only [List.length_drop]; omega
      · simp only [List.length_drop]; omega
      · exact hg
      · exact hg8

/-- relation between the byte-level state of the main loop and the tokens emitted so far -/
def Layout (st : CState) : Prop :=
  ∃ full cur, st.toks.toList = full ++ cur ∧ 8 ∣ full.length ∧ cur.length < 8 ∧
    st.out.toList = emit full ++ 0 :: cur.flatMap encTok ∧ st.flagsPos = (emit full).length ∧
    st.flags = reg (cur.map Token.isLit)

/-- hash-table invariant: every recorded position starts with the key's bytes -/
def TblInv (d : Array Nat) (tbl : Table) : Prop :=
  ∀ k l, tbl[k]? = some l → ∀ p ∈ l, key3 d p = k

structure Inv (d : Array Nat) (st : CState) : Prop where
  pos_le : st.pos ≤ d.size
  toks_ok : ToksOK 0 st.toks.toList
  expand : expand st.toks.toList = d.toList.take st.pos
  layout : Layout st
  bytes : ∀ b ∈ st.out.toList, b < 256

theorem ToksOK_snoc (ts : List Token) (t : Token) (m : Nat) :
    ToksOK m (ts ++ [t]) ↔ ToksOK m ts ∧ TokOK (m + sumLen ts) t := by
  rw [ToksOK_append]; simp [ToksOK]

theorem inv_init (d : Array Nat) : Inv d cinit where
  pos_le := Nat.zero_le _
  toks_ok := by simp [cinit, ToksOK]
  expand := by simp [cinit, C12.expand]
  layout := ⟨[], [], by simp [cinit], by simp, by simp, by simp [cinit, emit_nil],
    by simp [cinit, emit_nil], by simp [cinit, reg]⟩
  bytes := by simp [cinit]

theorem advance_spec (d : Array Nat) (st : CState) (tok : Token) (fb : Bool)
    (out : Array Nat) (hinv : Inv d st) (hout : out.toList = st.out.toList ++ encTok tok)
    (hbytes : ∀ b ∈ encTok tok, b < 256)
    (hok : TokOK st.pos tok)
    (happ : applyTok (d.toList.take st.pos) tok = d.toList.take (st.pos + tok.len))
    (hle : st.pos + tok.len ≤ d.size) :
    ∃ st', advance st.pos st.flagsPos st.flags st.toks st.fallbacks tok fb out = .ok st' ∧
      Inv d st' ∧ st'.pos = st.pos + tok.len := by
  obtain ⟨full, cur, htoks, hdvd, hcur, hlay, hfp, hflags⟩ := hinv.layout
  have hexplen : sumLen st.toks.toList = st.pos := by
    rw [← expand_length hinv.toks_ok, hinv.expand, List.length_take, Array.length_toList]
    have := hinv.pos_le
    omega
  have htoks_ok' : ToksOK 0 (st.toks.toList ++ [tok]) := by
    rw [ToksOK_snoc]; exact ⟨hinv.toks_ok, by rw [Nat.zero_add, hexplen]; exact hok⟩
  have hexp' : C12.expand (st.toks.toList ++ [tok]) = d.toList.take (st.pos + tok.len) := by
    unfold C12.expand
    rw [List.foldl_append]
    simp only [List.foldl_cons, List.foldl_nil]
    have := hinv.expand
    unfold C12.expand at this
    rw [this, happ]
  have hreg : ((if tok.isLit then 1 else 0) <<< 7) ||| (st.flags >>> 1)
      = reg ((cur ++ [tok]).map Token.isLit) := by
    rw [List.map_append, List.map_singleton, reg_snoc, hflags]
  have hcurlen : ((cur ++ [tok]).map Token.isLit).length ≤ 8 := by simp; omega
  obtain ⟨hf1, hf2, _, hf4, _, _⟩ := flagFacts _ hcurlen
  have houtbytes : ∀ b ∈ out.toList, b < 256 := by
    intro b hb
    rw [hout, List.mem_append] at hb
    rcases hb with hb | hb
    · exact hinv.bytes b hb
    · exact hbytes b hb
  have houtlist : out.toList = emit full ++ 0 :: (cur ++ [tok]).flatMap encTok := by
    rw [hout, hlay]; simp
  unfold advance
  simp only
  by_cases hflush : ((if tok.isLit then 1 else 0) <<< 7) ||| (st.flags >>> 1) < 0x10000
  · rw [if_pos hflush]
    have hlen8 : (cur ++ [tok]).length = 8 := by
      by_cases h : (cur ++ [tok]).length < 8
      · have := hf1 (by simpa using h)
        rw [← hreg] at this
        omega
      · simp at h ⊢; omega
    have hfpos : st.flagsPos < out.size := by
      rw [← Array.length_toList, houtlist, hfp]; simp
    rw [dif_pos hfpos]
    refine ⟨_, rfl, ?_, rfl⟩
    obtain ⟨_, hbyte⟩ := hf2 (by simpa using hlen8)
    rw [← hreg, ← flagByte_eq_fb] at hbyte
    have hemit : emit (full ++ (cur ++ [tok])) = emit full ++ emitGroup (cur ++ [tok]) :=
      emit_append_group full.length full (Nat.le_refl _) hdvd _ (by simp) (by omega)
    have hsetlist : (out.set st.flagsPos
        ((((if tok.isLit then 1 else 0) <<< 7) ||| (st.flags >>> 1)) &&& 0xFF) hfpos).toList
        = emit (full ++ (cur ++ [tok])) := by
      rw [Array.toList_set, houtlist, hfp, hemit, hbyte]
      simp [emitGroup]
    constructor
    · exact hle
    · simpa using htoks_ok'
    · simpa using hexp'
    · refine ⟨full ++ (cur ++ [tok]), [], ?_, ?_, by simp, ?_, ?_, ?_⟩
      · simp [htoks]
      · rw [List.length_append, hlen8]; omega
      · simp only [Array.toList_push, hsetlist, List.flatMap_nil]
      · simp only
        rw [← hsetlist, Array.length_toList, Array.size_set]
      · simp [reg]
    · intro b hb
      simp only [Array.toList_push, List.mem_append, List.mem_singleton] at hb
      rcases hb with hb | rfl
      · rcases List.mem_or_eq_of_mem_set hb with h | rfl
        · exact houtbytes b h
        · exact Nat.lt_of_le_of_lt Nat.and_le_right (by decide)
      · decide
  · rw [if_neg hflush]
    refine ⟨_, rfl, ?_, rfl⟩
    have hlen8 : (cur ++ [tok]).length < 8 := by
      by_cases h : (cur ++ [tok]).length = 8
      · have := (hf2 (by simpa using h)).1
        rw [← hreg] at this
        omega
      · simp at h ⊢; omega
    constructor
    · exact hle
    · simpa using htoks_ok'
    · simpa using hexp'
    · exact ⟨full, cur ++ [tok], by simp [htoks], hdvd, hlen8, houtlist, hfp, hreg⟩
    · exact houtbytes

theorem tbl_insert_inv (d : Array Nat) (tbl : Table) (pos : Nat) (htbl : TblInv d tbl) :
    TblInv d (tbl.insert (key3 d pos) (tbl.getD (key3 d pos) [] ++ [pos])) := by
  intro k l h p hp
  rw [Std.HashMap.getElem?_insert] at h
  by_cases hk : (key3 d pos == k) = true
  · rw [if_pos hk] at h
    have hk' : key3 d pos = k := by simpa using hk
    injection h with h
    subst h
    rw [List.mem_append] at hp
    rcases hp with hp | hp
    · rw [Std.HashMap.getD_eq_getD_getElem?] at hp
      cases hold : tbl[key3 d pos]? with
      | none => rw [hold] at hp; simp at hp
      | some l0 =>
        rw [hold] at hp
        rw [← hk']
        exact htbl _ l0 hold p (by simpa using hp)
    · have : p = pos := by simpa using hp
      rw [this, hk']
  · rw [if_neg hk] at h
    exact htbl k l h p hp

theorem tblInv_empty (d : Array Nat) : TblInv d ({} : Table) := by
  intro k l h; simp at h

theorem cstep_spec (P : Params) (hP : WF P) (d : Array Nat) (hd : ∀ b ∈ d.toList, b < 256)
    (tbl : Table) (st : CState) (htbl : TblInv d tbl) (hinv : Inv d st) (hpos : st.pos < d.size) :
    ∃ tbl' st', cstep P d tbl st = .ok (tbl', st') ∧ TblInv d tbl' ∧ Inv d st' ∧ st.pos < st'.pos := by
  obtain ⟨bo, bl, hflm, hg⟩ := flm_spec P hP d tbl st.pos hpos htbl
  have hlit : d[st.pos]? = some d[st.pos] := Array.getElem?_eq_getElem hpos
  have hlit256 : d[st.pos] < 256 := hd _ (by simp)
  obtain ⟨c1, c2, c3, c4⟩ := choose_spec P hP d st.pos bl bo d[st.pos] hpos hlit hlit256 hg
  obtain ⟨out, hpush, hout⟩ := pushAll_ok (encTok (choose P bo bl d[st.pos]).1) st.out c4
  obtain ⟨st', hadv, hinv', hpos'⟩ := advance_spec d st
    (choose P bo bl d[st.pos]).1 (choose P bo bl d[st.pos]).2 out hinv hout c4 c1 c2 c3
  refine ⟨_, st', ?_, tbl_insert_inv d tbl st.pos htbl, hinv', ?_⟩
  · obtain ⟨pos, out0, flagsPos, flags, toks, fallbacks⟩ := st
    simp only at hflm hlit hpush hadv
    simp only [cstep, hflm, hlit, hpush, hadv]
  · have := c1.len_pos
    omega

theorem cloop_spec (P : Params) (hP : WF P) (d : Array Nat) (hd : ∀ b ∈ d.toList, b < 256) :
    ∀ (fuel : Nat) (tbl : Table) (st : CState), TblInv d tbl → Inv d st → d.size - st.pos ≤ fuel →
    ∃ st', cloop P d fuel tbl st = .ok st' ∧ Inv d st' ∧ st'.pos = d.size := by
  intro fuel
  induction fuel with
  | zero =>
    intro tbl st _ hinv hf
    have := hinv.pos_le
    refine ⟨st, ?_, hinv, by omega⟩
    unfold cloop
    rw [if_neg (by omega)]
  | succ fuel ih =>
    intro tbl st htbl hinv hf
    unfold cloop
    by_cases hpos : st.pos < d.size
    · rw [if_pos hpos]
      obtain ⟨tbl1, st1, hs, htbl1, hinv1, hlt⟩ := cstep_spec P hP d hd tbl st htbl hinv hpos
      rw [hs]
      exact ih tbl1 st1 htbl1 hinv1 (by omega)
    · rw [if_neg hpos]
      have := hinv.pos_le
      exact ⟨st, rfl, hinv, by omega⟩

theorem flatMap_encTok_eq_nil {ts : List Token} (h : ts.flatMap encTok = []) : ts = [] := by
  have := flatMap_encTok_length_ge ts
  rw [h] at this
  exact List.eq_nil_of_length_eq_zero (by simpa using this)

/-- The compressor on a non-empty byte string: no exception, output bytes, and the output is
the stream encoding of a well-formed token list that expands to the input. -/
theorem compressSt_spec (P : Params) (hP : WF P) (d : Array Nat) (hd : ∀ b ∈ d.toList, b < 256)
    (hne : d.size ≠ 0) :
    ∃ c st, compressSt P d = .ok (c, st) ∧ c.toList = emit st.toks.toList ∧
      ToksOK 0 st.toks.toList ∧ expand st.toks.toList = d.toList ∧ st.toks.toList ≠ [] ∧
      ∀ b ∈ c.toList, b < 256 := by
  obtain ⟨st, hloop, hinv, hend⟩ := cloop_spec P hP d hd d.size {} cinit (tblInv_empty d) (inv_init d)
    (by simp [cinit])
  have hexp : expand st.toks.toList = d.toList := by
    rw [hinv.expand, hend, ← Array.length_toList, List.take_length]
  have htne : st.toks.toList ≠ [] := by
    intro h
    rw [h] at hexp
    have : d.toList.length = 0 := by rw [← hexp]; rfl
    rw [Array.length_toList] at this
    exact hne this
  obtain ⟨full, cur, htoks, hdvd, hcur, hlay, hfp, hflags⟩ := hinv.layout
  unfold compressSt
  rw [if_neg hne, hloop]
  simp only
  have hsize : st.out.size = (emit full).length + 1 + (cur.flatMap encTok).length := by
    rw [← Array.length_toList, hlay]; simp; omega
  by_cases hlast : st.flagsPos + 1 = st.out.size
  · rw [if_pos hlast]
    have hcurnil : cur = [] := flatMap_encTok_eq_nil (List.eq_nil_of_length_eq_zero (by omega))
    subst hcurnil
    refine ⟨_, st, rfl, ?_, hinv.toks_ok, hexp, htne, ?_⟩
    · rw [Array.toList_pop, hlay, htoks]; simp
    · intro b hb
      rw [Array.toList_pop] at hb
      exact hinv.bytes b (List.dropLast_subset _ hb)
  · rw [if_neg hlast]
    have hfpos : st.flagsPos < st.out.size := by omega
    rw [dif_pos hfpos]
    have hcurne : cur ≠ [] := by
      intro h; subst h; simp at hsize; omega
    obtain ⟨_, _, hpad, _, _, _⟩ := flagFacts (cur.map Token.isLit) (by simp; omega)
    rw [← hflags, ← flagByte_eq_fb] at hpad
    refine ⟨_, st, rfl, ?_, hinv.toks_ok, hexp, htne, ?_⟩
    · rw [Array.toList_set, hlay, hfp, htoks, hpad,
        emit_append_group full.length full (Nat.le_refl _) hdvd cur hcurne (by omega)]
      simp [emitGroup]
    · intro b hb
      rcases List.mem_or_eq_of_mem_set (by simpa using hb) with h | rfl
      · exact hinv.bytes b h
      · exact Nat.lt_of_le_of_lt Nat.and_le_right (by decide)

end CyVerif.C12

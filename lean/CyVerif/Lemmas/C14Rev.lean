import CyVerif.Lemmas.C14Loop
/-! `reversed(range(a, b, s))`: the start value `_transform_range_iteration` / `_build_range_step_calculation` compute (C14). -/
namespace CyVerif.C14

/-- the start-bound formula over the integers (floor division; the divisor is positive, so `/` on `Int` is it) -/
def revExact (a b s : Int) : Int :=
  if s < 0 then a - (-s) * ((a - b - 1) / (-s)) - 1 else a + s * ((b - a - 1) / s) + 1

/-- reversing an ascending range = descending from `revExact - 1` down to `a` inclusive (also when the range is empty) -/
theorem pyRange_reverse_pos {a b s : Int} (hs : 0 < s) :
    (pyRange a b s).reverse = pyRange (revExact a b s - 1) (a - 1) (-s) := by
  have hre : revExact a b s - 1 = a + s * ((b - a - 1) / s) := by unfold revExact; rw [if_neg (by omega)]; omega
  rw [hre]
  by_cases hab : a < b
  · obtain ⟨hl, hla, _, _⟩ := rangeLast_pos hs hab
    rw [pyRange_reverse, ← hl]
    unfold pyRange
    congr 1
    -- both lengths are n
    have hn := rangeLen_pos_eq hs hab
    have hq : 0 ≤ (b - a - 1) / s := Int.ediv_nonneg (by omega) (by omega)
    have hn2 := rangeLen_neg_eq (a := rangeLast a b s) (b := a - 1) (s := -s) (by omega) (by omega)
    have e : (rangeLast a b s - (a - 1) - 1) / (- -s) = (b - a - 1) / s := by
      rw [hl, Int.neg_neg]
      have : a + s * ((b - a - 1) / s) - (a - 1) - 1 = s * ((b - a - 1) / s) := by omega
      rw [this, Int.mul_ediv_cancel_left _ (by omega : s ≠ 0)]
    rw [e] at hn2
    omega
  · have hq : (b - a - 1) / s < 0 := Int.ediv_neg_of_neg_of_pos (by omega) hs
    have : s * ((b - a - 1) / s) ≤ s * (-1) := Int.mul_le_mul_of_nonneg_left (by omega) (by omega)
    rw [pyRange_nil (by unfold before; omega), pyRange_nil (by unfold before; omega)]
    rfl

theorem pyRange_reverse_neg {a b s : Int} (hs : s < 0) :
    (pyRange a b s).reverse = pyRange (revExact a b s + 1) (a + 1) (-s) := by
  have hre : revExact a b s + 1 = a - (-s) * ((a - b - 1) / (-s)) := by unfold revExact; rw [if_pos hs]; omega
  rw [hre]
  by_cases hab : b < a
  · obtain ⟨hl, hla, _, _⟩ := rangeLast_neg hs hab
    rw [pyRange_reverse, ← hl]
    unfold pyRange
    congr 1
    have hn := rangeLen_neg_eq hs hab
    have hq : 0 ≤ (a - b - 1) / (-s) := Int.ediv_nonneg (by omega) (by omega)
    have hn2 := rangeLen_pos_eq (a := rangeLast a b s) (b := a + 1) (s := -s) (by omega) (by omega)
    have e : (a + 1 - rangeLast a b s - 1) / (-s) = (a - b - 1) / (-s) := by
      rw [hl]
      have : a + 1 - (a - -s * ((a - b - 1) / -s)) - 1 = (-s) * ((a - b - 1) / (-s)) := by omega
      rw [this, Int.mul_ediv_cancel_left _ (by omega : -s ≠ 0)]
    rw [e] at hn2
    omega
  · have hq : (a - b - 1) / (-s) < 0 := Int.ediv_neg_of_neg_of_pos (by omega) (by omega)
    have : (-s) * ((a - b - 1) / (-s)) ≤ (-s) * (-1) := Int.mul_le_mul_of_nonneg_left (by omega) (by omega)
    rw [pyRange_nil (by unfold before; omega), pyRange_nil (by unfold before; omega)]
    rfl

/-- compile-time constant bounds: the compiler evaluates the formula with Python integers -/
theorem revBound_const (m : Mode) (cfg : RangeCfg) (a b s : Int) (hc : cfg.constBounds = true) (_hs : s ≠ 0) :
    revBound m cfg a b s = some (revExact a b s) := by
  unfold revBound revExact
  simp only [hc, if_true]
  by_cases h : s < 0
  · have e : (s.natAbs : Int) = -s := by omega
    simp only [e, if_pos h, Int.fdiv_eq_ediv_of_nonneg _ (by omega : (0:Int) ≤ -s)]
  · have e : (s.natAbs : Int) = s := by omega
    simp only [e, if_neg h, Int.fdiv_eq_ediv_of_nonneg _ (by omega : (0:Int) ≤ s)]

/-- run-time bounds, ascending range: the five C operations, none of which may leave the arithmetic type -/
theorem revBound_runtime_pos (m : Mode) (cfg : RangeCfg) (a b s : Int) (hc : cfg.constBounds = false) (hs : 0 < s)
    (hdiv : (cfg.cdiv = false ∧ cfg.C.prom.signed = true) ∨ 0 ≤ b - a - 1)
    (h1 : cfg.C.prom.inR (b - a) = true) (h2 : cfg.C.prom.inR (b - a - 1) = true)
    (h3 : cfg.C.prom.inR (s * ((b - a - 1) / s)) = true) (h4 : cfg.C.prom.inR (a + s * ((b - a - 1) / s)) = true)
    (h5 : cfg.C.prom.inR (a + s * ((b - a - 1) / s) + 1) = true) :
    revBound m cfg a b s = some (revExact a b s) := by
  have e : (s.natAbs : Int) = s := by omega
  have hdv : (if (cfg.cdiv || !cfg.C.prom.signed) = true then Int.tdiv (b - a - 1) s else Int.fdiv (b - a - 1) s) = (b - a - 1) / s := by
    rcases hdiv with ⟨hcd, hsg⟩ | hnn
    · simp [hcd, hsg, Int.fdiv_eq_ediv_of_nonneg _ (by omega : (0:Int) ≤ s)]
    · split
      · exact Int.tdiv_eq_ediv_of_nonneg hnn
      · exact Int.fdiv_eq_ediv_of_nonneg _ (by omega)
  unfold revBound revExact
  simp only [hc, Bool.false_eq_true, if_false, e, if_neg (by omega : ¬ s < 0), arith_of_inR h1, Option.bind_some, arith_of_inR h2,
    hdv, arith_of_inR h3, arith_of_inR h4, arith_of_inR h5]

theorem revBound_runtime_neg (m : Mode) (cfg : RangeCfg) (a b s : Int) (hc : cfg.constBounds = false) (hs : s < 0)
    (hdiv : (cfg.cdiv = false ∧ cfg.C.prom.signed = true) ∨ 0 ≤ a - b - 1)
    (h1 : cfg.C.prom.inR (a - b) = true) (h2 : cfg.C.prom.inR (a - b - 1) = true)
    (h3 : cfg.C.prom.inR ((-s) * ((a - b - 1) / (-s))) = true) (h4 : cfg.C.prom.inR (a - (-s) * ((a - b - 1) / (-s))) = true)
    (h5 : cfg.C.prom.inR (a - (-s) * ((a - b - 1) / (-s)) - 1) = true) :
    revBound m cfg a b s = some (revExact a b s) := by
  have e : (s.natAbs : Int) = -s := by omega
  have hdv : (if (cfg.cdiv || !cfg.C.prom.signed) = true then Int.tdiv (a - b - 1) (-s) else Int.fdiv (a - b - 1) (-s)) = (a - b - 1) / (-s) := by
    rcases hdiv with ⟨hcd, hsg⟩ | hnn
    · simp [hcd, hsg, Int.fdiv_eq_ediv_of_nonneg _ (by omega : (0:Int) ≤ -s)]
    · split
      · exact Int.tdiv_eq_ediv_of_nonneg hnn
      · exact Int.fdiv_eq_ediv_of_nonneg _ (by omega)
  unfold revBound revExact
  simp only [hc, Bool.false_eq_true, if_false, e, if_pos hs, arith_of_inR h1, Option.bind_some, arith_of_inR h2,
    hdv, arith_of_inR h3, arith_of_inR h4, arith_of_inR h5]

end CyVerif.C14

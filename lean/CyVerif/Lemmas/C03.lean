import CyVerif.Model.C03
import CyVerif.Lemmas.IntDiv
/-!
Helper lemmas for C03: the sign adjustment that turns C's truncating `/`, `%`
into Python's floor `//`, `%`; range facts that rule out signed overflow in the
helper bodies; the xor sign test; the `__Pyx_UNARY_NEG_WOULD_OVERFLOW` macro.
-/
namespace CyVerif.C03

/-! ### Pure integer facts -/

/-- The adjustment of `DivInt`/`ModInt` on unbounded integers: with `r = a tmod b` and
`adj = (r != 0) & ((r < 0) ^ (b < 0))`, floor quotient = `a tdiv b - adj`, Python modulo = `r + adj*b`. -/
theorem fdiv_fmod_adjust (a : Int) {b : Int} (hb : b ≠ 0) :
    a.fdiv b = a.tdiv b - b2i (decide (a.tmod b ≠ 0) && (decide (a.tmod b < 0) ^^ decide (b < 0))) ∧
    a.fmod b = a.tmod b + b2i (decide (a.tmod b ≠ 0) && (decide (a.tmod b < 0) ^^ decide (b < 0))) * b := by
  obtain ⟨h1, h2, h3, h4⟩ := tdiv_tmod_spec a hb
  by_cases hr0 : a.tmod b = 0
  · simp only [hr0, ne_eq, not_true_eq_false, decide_false, Bool.false_and, b2i]
    simp only [Bool.false_eq_true, if_false, Int.sub_zero, Int.zero_mul, Int.add_zero]
    refine fdiv_fmod_unique_ne (r := 0) hb (by omega) (by omega) (by omega)
  · by_cases hr : a.tmod b < 0 <;> by_cases hbn : b < 0
    · -- same sign (both negative): no adjustment
      simp only [hr0, hr, hbn, ne_eq, not_false_eq_true, decide_true, Bool.xor_self, Bool.and_false, b2i]
      simp only [Bool.false_eq_true, if_false, Int.sub_zero, Int.zero_mul, Int.add_zero]
      exact fdiv_fmod_unique_ne hb h1 (by omega) (by omega)
    · simp only [hr0, hr, hbn, ne_eq, not_false_eq_true, decide_true, decide_false, Bool.xor_false,
        Bool.and_true, b2i, if_true, Int.one_mul]
      refine fdiv_fmod_unique_ne hb ?_ (by omega) (by omega)
      rw [Int.mul_sub]; omega
    · simp only [hr0, hr, hbn, ne_eq, not_false_eq_true, decide_true, decide_false, Bool.false_xor,
        Bool.and_true, b2i, if_true, Int.one_mul]
      refine fdiv_fmod_unique_ne hb ?_ (by omega) (by omega)
      rw [Int.mul_sub]; omega
    · simp only [hr0, hr, hbn, ne_eq, not_false_eq_true, decide_true, decide_false, Bool.xor_self,
        Bool.and_false, b2i]
      simp only [Bool.false_eq_true, if_false, Int.sub_zero, Int.zero_mul, Int.add_zero]
      exact fdiv_fmod_unique_ne hb h1 (by omega) (by omega)

theorem natAbs_tmod_le (a b : Int) : (a.tmod b).natAbs ≤ a.natAbs := by
  rw [Int.natAbs_tmod]; exact Nat.mod_le _ _

/-- `q*b` of the helper lies between `0` and `a`. -/
theorem tdiv_mul_between (a : Int) {b : Int} (hb : b ≠ 0) :
    (0 ≤ a → 0 ≤ a.tdiv b * b ∧ a.tdiv b * b ≤ a) ∧ (a ≤ 0 → a ≤ a.tdiv b * b ∧ a.tdiv b * b ≤ 0) := by
  obtain ⟨h1, _, h3, h4⟩ := tdiv_tmod_spec a hb
  have hle := natAbs_tmod_le a b
  rw [Int.mul_comm]
  constructor
  · intro ha; have := h3 ha; omega
  · intro ha; have := h4 ha; omega

/-- `a - (a/b)*b` is C's remainder. -/
theorem sub_tdiv_mul (a b : Int) : a - a.tdiv b * b = a.tmod b := by
  have := Int.tmod_add_mul_tdiv a b
  rw [Int.mul_comm]; omega

/-! ### Types and ranges -/

theorem two_pow_pos (n : Nat) : (0 : Int) < 2 ^ n := Int.pow_pos (by decide)

theorem inRange_signed {t : CTy} (hs : t.signed = true) (x : Int) :
    t.InRange x ↔ -(2 ^ (t.w - 1)) ≤ x ∧ x ≤ 2 ^ (t.w - 1) - 1 := by
  simp [CTy.InRange, CTy.min, CTy.max, hs]

theorem inRange_unsigned {t : CTy} (hs : t.signed = false) (x : Int) :
    t.InRange x ↔ 0 ≤ x ∧ x ≤ 2 ^ t.w - 1 := by
  simp [CTy.InRange, CTy.min, CTy.max, hs]

theorem min_signed {t : CTy} (hs : t.signed = true) : t.min = -(2 ^ (t.w - 1)) := by
  simp [CTy.min, hs]

theorem arith_signed_ok {t : CTy} (hs : t.signed = true) {x : Int} (hx : t.InRange x) :
    arith t x = .ok x := by
  simp [arith, hs, hx]

/-- `2^w = 2 * 2^(w-1)` for `w ≥ 1`. -/
theorem two_pow_split {w : Nat} (hw : 1 ≤ w) : (2 : Int) ^ w = 2 * 2 ^ (w - 1) := by
  obtain ⟨k, rfl⟩ : ∃ k, w = k + 1 := ⟨w - 1, by omega⟩
  simp [Int.pow_succ, Int.mul_comm]

/-! ### The xor sign test (`(r ^ b) < 0`) -/

theorem toInt_ofInt_inRange {t : CTy} (hs : t.signed = true) (hw : 1 ≤ t.w) {x : Int} (hx : t.InRange x) :
    (BitVec.ofInt t.w x).toInt = x := by
  rw [BitVec.toInt_ofInt]
  rw [inRange_signed hs] at hx
  have hp := two_pow_pos (t.w - 1)
  have h2 := two_pow_split hw
  apply Int.bmod_eq_of_le
  · have : ((2 ^ t.w : Nat) : Int) = 2 * 2 ^ (t.w - 1) := by rw [← h2]; simp
    rw [this]; omega
  · have : ((2 ^ t.w : Nat) : Int) = 2 * 2 ^ (t.w - 1) := by rw [← h2]; simp
    rw [this]; omega

/-- The non-constant form of the adjustment test equals the constant form:
for values of a signed type, `(r ^ b) < 0` iff exactly one of `r`, `b` is negative. -/
theorem xorNeg_eq {t : CTy} (hs : t.signed = true) (hw : 1 ≤ t.w) {r b : Int}
    (hr : t.InRange r) (hb : t.InRange b) :
    xorNeg t r b = (decide (r < 0) ^^ decide (b < 0)) := by
  simp only [xorNeg, hs, if_true]
  rw [← BitVec.msb_eq_toInt, BitVec.msb_xor, BitVec.msb_eq_toInt, BitVec.msb_eq_toInt,
    toInt_ofInt_inRange hs hw hr, toInt_ofInt_inRange hs hw hb]

/-- `const_form_eq`: both `b_is_constant` forms of `adapt_python` agree on values of the type. -/
theorem adaptPython_const_irrelevant {t : CTy} (hs : t.signed = true) (hw : 1 ≤ t.w) {r b : Int}
    (hr : t.InRange r) (hb : t.InRange b) (c : Bool) :
    adaptPython t c r b = b2i (decide (r ≠ 0) && (decide (r < 0) ^^ decide (b < 0))) := by
  cases c
  · simp only [adaptPython, Bool.false_eq_true, if_false, xorNeg_eq hs hw hr hb]
  · simp only [adaptPython, if_true]

/-! ### `__Pyx_UNARY_NEG_WOULD_OVERFLOW` -/

theorem emod_eq_of {a m q r : Int} (hm : 0 < m) (h : r + m * q = a) (h0 : 0 ≤ r) (h1 : r < m) :
    a % m = r := ((Int.ediv_emod_unique hm).2 ⟨h, h0, h1⟩).2

/-- For a value of a signed type as wide as `long`, the macro is true exactly for the minimum. -/
theorem negWouldOverflow_iff {wl : Nat} (hw : 1 ≤ wl) {x : Int}
    (hlo : -(2 ^ (wl - 1)) ≤ x) (hhi : x ≤ 2 ^ (wl - 1) - 1) :
    negWouldOverflow wl x = true ↔ x = -(2 ^ (wl - 1)) := by
  have hp := two_pow_pos (wl - 1)
  have h2 := two_pow_split hw
  simp only [negWouldOverflow, Bool.and_eq_true, decide_eq_true_eq]
  rw [h2]
  generalize (2 : Int) ^ (wl - 1) = P at *
  constructor
  · rintro ⟨hneg, heq⟩
    have e1 : x % (2 * P) = x + 2 * P :=
      emod_eq_of (q := -1) (by omega) (by omega) (by omega) (by omega)
    rw [e1] at heq
    by_cases hx : x = -P
    · exact hx
    · exfalso
      have e2 : (0 - (x + 2 * P)) % (2 * P) = -x :=
        emod_eq_of (q := -1) (by omega) (by omega) (by omega) (by omega)
      omega
  · intro hx
    subst hx
    have e1 : (-P) % (2 * P) = P :=
      emod_eq_of (q := -1) (by omega) (by omega) (by omega) (by omega)
    refine ⟨by omega, ?_⟩
    rw [e1]
    exact (emod_eq_of (q := -1) (by omega) (by omega) (by omega) (by omega)).symm

end CyVerif.C03

import CyVerif.Lemmas.C24Wrap
set_option linter.unusedSimpArgs false
/-! C24 helper lemmas, part 6: METH_NOARGS / METH_O entry points and the dispatch of `cyBind`. -/
namespace CyVerif.C24

theorem methKind_noargs {cfg : Cfg} {s : Sig} (hm : methKind cfg s = .noargs) :
    s.star = false ∧ s.sstar = false ∧ s.pos = [] ∧ s.kwo = [] := by
  unfold methKind at hm
  split at hm
  · rename_i hc
    split at hm
    · rename_i hc2
      simp only [Bool.and_eq_true, Bool.not_eq_true', List.isEmpty_iff] at hc hc2
      exact ⟨hc.1.1, hc.1.2, hc2.1, hc2.2⟩
    · split at hm <;> cases hm
  · cases hm

theorem methKind_o {cfg : Cfg} {s : Sig} (hm : methKind cfg s = .o) :
    s.star = false ∧ s.sstar = false ∧ s.kwo = [] ∧ ∃ p, s.pos = [p] ∧ isReq p = true := by
  unfold methKind at hm
  split at hm
  · rename_i hc
    split at hm
    · cases hm
    · split at hm
      · rename_i hc3
        simp only [Bool.and_eq_true, Bool.not_eq_true', List.isEmpty_iff, beq_iff_eq, List.all_eq_true] at hc hc3
        refine ⟨hc.1.1, hc.1.2, hc3.1.1, ?_⟩
        match hpos : s.pos, hc3 with
        | [p], hc3 => exact ⟨p, rfl, hc3.2 p (by simp)⟩
        | [], hc3 => simp at hc3
        | _ :: _ :: _, hc3 => simp at hc3
      · cases hm
  · cases hm

theorem methKind_generic_or (cfg : Cfg) (s : Sig) (halways : cfg.alwaysKw = true) (hm : methKind cfg s = .o) :
    s.npo = s.pos.length := by
  unfold methKind at hm
  split at hm
  · rename_i hc
    simp only [Bool.and_eq_true, Bool.not_eq_true', Bool.or_eq_true, halways, beq_iff_eq] at hc
    rcases hc.2 with h | h
    · cases h
    · exact h.1.2
  · cases hm

/-- METH_NOARGS entry (`__Pyx_CyFunction_Vectorcall_NOARGS`, `cfunction_vectorcall_NOARGS`) -/
theorem noargs_eq (cfg : Cfg) {s : Sig} (h : s.WF) {c : Call} (hk : KeysDistinct c.kws)
    (hvec : cfg.vec = true → hasNonStr c.kws = false) (hm : methKind cfg s = .noargs) :
    (if c.kws.length > 0 then (tyErr : Res Binding)
      else if c.args.length != 0 then tyErr
      else .ok { vals := [], star := none, kw := none }) = mapRes (observe cfg) (pyBind s c) := by
  obtain ⟨hst, hss, hp, hq⟩ := methKind_noargs hm
  rw [← cyStarargCopy_eq cfg h hk hp hq hvec]
  unfold cyStarargCopy
  simp only [hst, hss, Bool.not_false, Bool.true_and, Bool.false_eq_true, if_false]
  by_cases hl : 0 < c.args.length <;> by_cases hl2 : 0 < c.kws.length <;> simp [hl, hl2, tyErr]
  · intro he; rw [he] at hl; simp at hl
  · exact List.length_eq_zero_iff.1 (by omega)

theorem locate_single_one (n t : Nat) : locate [n] 1 t = none := by
  unfold locate
  have : ¬(1 ≤ List.idxOf t [n] ∧ List.idxOf t [n] < [n].length) := by
    simp only [List.length_singleton]; omega
  rw [if_neg this]

/-- METH_O entry (`__Pyx_CyFunction_Vectorcall_O`, `cfunction_vectorcall_O`) -/
theorem methO_eq (cfg : Cfg) {s : Sig} (h : s.WF) {c : Call} (hk : KeysDistinct c.kws)
    (hm : methKind cfg s = .o) (hguard : s.npo = s.pos.length ∨ c.kws = []) :
    (if c.kws.length > 0 then (tyErr : Res Binding)
      else if c.args.length != 1 then tyErr
      else .ok { vals := s.pos.map (fun p => (p.name, c.args.headD 0)), star := none, kw := none }) =
      mapRes (observe cfg) (pyBind s c) := by
  obtain ⟨hst, hss, hq, p, hp, hreq⟩ := methKind_o hm
  rw [pyBind_closed h hk]
  have hdecl : s.decl = [p] := by unfold Sig.decl; rw [hp, hq]; rfl
  by_cases hne : c.kws.length > 0
  · -- keywords passed: the parameter is positional-only, CPython rejects every keyword
    have hnpo : s.npo = 1 := by
      rcases hguard with hg | hg
      · rw [hg, hp]; rfl
      · rw [hg] at hne; simp at hne
    have hb : c.kws.any (fun kv => pyLoc s (argSlots s c) kv.1 == .bad) = true := by
      obtain ⟨kv, hkv⟩ := List.exists_mem_of_length_pos hne
      rw [List.any_eq_true]
      refine ⟨kv, hkv, ?_⟩
      rw [beq_iff_eq, pyLoc_bad_iff]
      cases hs : kv.1.isStr
      · exact Or.inl rfl
      · right; right
        refine ⟨?_, hss⟩
        unfold Sig.declNames
        rw [hdecl, hnpo]
        exact locate_single_one _ _
    rw [hb, if_pos hne]
    rfl
  · have hkw : c.kws = [] := List.length_eq_zero_iff.1 (by omega)
    have hnb : c.kws.any (fun kv => pyLoc s (argSlots s c) kv.1 == .bad) = false := by rw [hkw]; rfl
    rw [hnb, if_neg hne]
    simp only [Bool.false_eq_true, if_false, hst, Bool.not_false, Bool.and_true, hss]
    change _ = mapRes (observe cfg) (if decide (c.args.length > s.pos.length) = true then tyErr
      else if (!allSet (pyL s c) s.total) = true then tyErr
      else Res.ok (Binding.mk (readSlots s.decl (pyL s c)) none none))
    have hcn := complete_nokw h hkw
    have hm1 : (s.pos.filter isReq).length = 1 := by rw [hp]; simp [hreq]
    have hq0 : (s.kwo.filter isReq).length = 0 := by rw [hq]; rfl
    rw [hm1, hq0] at hcn
    have hP : s.pos.length = 1 := by rw [hp]; rfl
    rw [hP]
    by_cases h1 : c.args.length = 1
    · have hC : Complete s c := hcn.2 ⟨by omega, rfl⟩
      rw [(py_allSet_iff h c).2 hC]
      have e1 : (c.args.length != 1) = false := by simp [h1]
      have e2 : decide (c.args.length > 1) = false := by simp [h1]
      rw [e1, e2]
      simp only [Bool.false_eq_true, if_false, Bool.not_true, mapRes, observe]
      have hv : readSlots s.decl (pyL s c) = s.pos.map (fun p => (p.name, c.args.headD 0)) := by
        have h0 : pyL s c 0 = V s c 0 p := pyL_eq h c (by rw [hdecl]; rfl)
        unfold readSlots
        rw [hdecl, hp]
        simp only [List.length_singleton, List.range_one, List.map_cons, List.map_nil, List.getD_cons_zero, h0]
        unfold V specSlot
        rw [hP, h1]
        match hargs : c.args, h1 with
        | [a], _ => simp
      rw [hv]
      cases cfg.kwUsed <;> rfl
    · have e1 : (c.args.length != 1) = true := by simp [h1]
      rw [e1]
      simp only [if_true]
      by_cases h2 : c.args.length > 1
      · simp [h2, mapRes_tyErr]
      · have hnC : ¬ Complete s c := fun hC => by have := (hcn.1 hC).1; omega
        have hns : allSet (pyL s c) s.total = false := by
          rw [Bool.eq_false_iff]; intro hc; exact hnC ((py_allSet_iff h c).1 hc)
        simp [h2, hns, mapRes_tyErr]

/-- the generated binding code equals CPython's binding unless the METH_O shortcut is taken for a
    parameter that may be passed by keyword and keywords are passed -/
theorem cyBind_eq (cfg : Cfg) {s : Sig} (h : s.WF) {c : Call} (hk : KeysDistinct c.kws)
    (hvec : cfg.vec = true → hasNonStr c.kws = false)
    (hguard : methKind cfg s = .o → s.npo = s.pos.length ∨ c.kws = []) :
    cyBind cfg s c = mapRes (observe cfg) (pyBind s c) := by
  unfold cyBind
  cases hm : methKind cfg s with
  | noargs => exact noargs_eq cfg h hk hvec hm
  | o => exact methO_eq cfg h hk hm (hguard hm)
  | generic =>
    simp only
    by_cases he : (s.pos.isEmpty && s.kwo.isEmpty) = true
    · rw [if_pos he]
      simp only [Bool.and_eq_true, List.isEmpty_iff] at he
      exact cyStarargCopy_eq cfg h hk he.1 he.2 hvec
    · rw [if_neg he]
      exact cyGeneral_eq cfg h hk

/-- a call arriving at the function object -/
theorem cyCall_eq (cfg : Cfg) {s : Sig} (h : s.WF) {c : Call} (hk : KeysDistinct c.kws)
    (hguard : methKind cfg s = .o → s.npo = s.pos.length ∨ c.kws = []) :
    cyCall cfg s c = mapRes (observe cfg) (pyBind s c) := by
  unfold cyCall
  by_cases hv : (cfg.vec && hasNonStr c.kws) = true
  · rw [if_pos hv]
    simp only [Bool.and_eq_true] at hv
    -- CPython rejects a non-string key as well
    rw [pyBind_closed h hk]
    have hb : c.kws.any (fun kv => pyLoc s (argSlots s c) kv.1 == .bad) = true := by
      obtain ⟨kv, hkv, hs⟩ := hasNonStr_iff.1 hv.2
      rw [List.any_eq_true]
      exact ⟨kv, hkv, by rw [beq_iff_eq, pyLoc_bad_iff]; exact Or.inl hs⟩
    rw [hb]; rfl
  · rw [if_neg hv]
    apply cyBind_eq cfg h hk _ hguard
    intro hvec
    cases hns : hasNonStr c.kws
    · rfl
    · exact absurd (by rw [hvec, hns]; rfl) hv

end CyVerif.C24

import CyVerif.Lemmas.C50TMapC
/-! TransitionMap, part D: `split`, `add`, `add_set`. -/
namespace CyVerif.C50

theorem TMap.split_spec (m : TMap) (h : m.WF) (code : Int) (hlo : -maxint ≤ code) (hhi : code ≤ maxint) :
    SplitPost m code (m.split code) := by
  have hn : 0 < m.ents.length := List.length_pos_iff.2 h.ne
  unfold TMap.split
  by_cases hmax : code = maxint
  · simp only [hmax, if_true]
    refine ⟨h, fun _ _ => rfl, Nat.le_refl _, by rw [m.codeAt_len, h.last], rfl, fun _ _ _ => rfl, ?_, Nat.le_refl _⟩
    intro k hk hkc
    have h1 := TMap.codeAt_le h.incr (a := k) (b := m.ents.length) hk (Nat.le_refl _)
    rw [m.codeAt_len, h.last] at h1
    have : m.codeAt k = m.codeAt m.ents.length := by rw [m.codeAt_len, h.last]; omega
    have := TMap.codeAt_inj h.incr hk (Nat.le_refl _) this
    omega
  · simp only [hmax, if_false]
    have hb := m.bsearch_spec code 0 m.ents.length hn (Nat.le_refl _)
      (by rw [h.first]; exact hlo) (by rw [m.codeAt_len, h.last]; omega)
    generalize m.bsearch code 0 m.ents.length = r at hb
    obtain ⟨lo, hi⟩ := r
    simp only at hb
    obtain ⟨e1, e2, e3, e4⟩ := hb
    subst e1
    simp only
    by_cases hfound : m.codeAt lo = code
    · simp only [hfound, if_true]
      refine ⟨h, fun _ _ => rfl, by simp only; omega, hfound, rfl, fun _ _ _ => rfl, ?_, Nat.le_refl _⟩
      intro k hk hkc
      by_cases hkl : lo ≤ k
      · exact hkl
      · have := TMap.codeAt_lt h.incr (a := k) (b := lo) (by omega) (by omega)
        omega
    · simp only [hfound, if_false, Nat.add_sub_cancel]
      exact split_insert m h code lo (by omega) (by omega) e4

theorem updRange_noop (f : SSet → SSet) {i j : Nat} (h : j ≤ i) (l : List (Int × SSet)) :
    updRange f i j l = l := by
  induction l generalizing i j with
  | nil => rfl
  | cons e es ih =>
    simp only [updRange]
    have : ¬ (i = 0 ∧ 0 < j) := by omega
    simp only [this, if_false]
    rw [ih (by omega)]

theorem updRange_get (f : SSet → SSet) (i j : Nat) (l : List (Int × SSet)) (k : Nat) :
    (updRange f i j l)[k]? = (l[k]?).map (fun e => if i ≤ k ∧ k < j then (e.1, f e.2) else e) := by
  induction l generalizing i j k with
  | nil => simp [updRange]
  | cons e es ih =>
    simp only [updRange]
    cases k with
    | zero =>
      simp only [List.getElem?_cons_zero, Option.map_some]
      by_cases h : i = 0 ∧ 0 < j
      · simp [h]
      · have : ¬ (i ≤ 0 ∧ 0 < j) := by omega
        simp [h, this]
    | succ k =>
      simp only [List.getElem?_cons_succ]
      rw [ih]
      congr 1
      funext e'
      have : (i - 1 ≤ k ∧ k < j - 1) ↔ (i ≤ k + 1 ∧ k + 1 < j) := by omega
      simp only [this]

theorem updRange_length (f : SSet → SSet) (i j : Nat) (l : List (Int × SSet)) :
    (updRange f i j l).length = l.length := by
  induction l generalizing i j with
  | nil => rfl
  | cons e es ih => simp [updRange, ih]

/-- with both end points present as split points, the index range `[i, j)` is the code range `[c0, c1)` -/
theorem updRange_eq_map (m : TMap) (h : m.allCodes.Pairwise (· < ·)) (f : SSet → SSet) {i j : Nat} {c0 c1 : Int}
    (hi : i ≤ m.ents.length) (hj : j ≤ m.ents.length) (hci : m.codeAt i = c0) (hcj : m.codeAt j = c1) :
    updRange f i j m.ents = m.ents.map (fun e => if c0 ≤ e.1 ∧ e.1 < c1 then (e.1, f e.2) else e) := by
  apply List.ext_getElem?
  intro k
  rw [updRange_get, List.getElem?_map]
  by_cases hk : k < m.ents.length
  · rw [List.getElem?_eq_getElem hk]
    simp only [Option.map_some, Option.some.injEq]
    have hck := m.codeAt_of_lt hk
    have : (i ≤ k ∧ k < j) ↔ (c0 ≤ m.ents[k].1 ∧ m.ents[k].1 < c1) := by
      rw [← hck, ← hci, ← hcj]
      constructor
      · rintro ⟨a, b⟩
        exact ⟨TMap.codeAt_le h a (by omega), TMap.codeAt_lt h b hj⟩
      · rintro ⟨a, b⟩
        constructor
        · by_cases hik : i ≤ k
          · exact hik
          · have := TMap.codeAt_lt h (a := k) (b := i) (by omega) hi; omega
        · by_cases hkj : k < j
          · exact hkj
          · have := TMap.codeAt_le h (a := j) (b := k) (by omega) (by omega); omega
    simp only [this]
  · rw [List.getElem?_eq_none (by omega)]; simp

end CyVerif.C50

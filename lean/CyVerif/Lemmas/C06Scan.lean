import CyVerif.Model.C06
import CyVerif.Lemmas.C06Strtod
/-! The underscore automata: CPython's rule, the digit rule, the punctuation rule. -/
namespace CyVerif.C06

/-- CPython's loop is the digit rule started in the state given by `prev` -/
theorem pyUS_eq_digitScan (prev : Nat) (x : List Nat) :
    pyUS prev x = digitScan (isDigit prev) (prev == cUS) x := by
  induction x generalizing prev with
  | nil => simp [pyUS, digitScan, bne]
  | cons c cs ih =>
    simp only [pyUS, digitScan, ih c]
    by_cases hc : c = cUS
    · subst hc
      by_cases hp : isDigit prev = true
      · have : (prev == 95) = false := by
          simp only [isDigit, Bool.and_eq_true, decide_eq_true_eq] at hp
          simp; omega
        simp [this, cUS, isDigit]
      · simp [hp]
    · have : (c == cUS) = false := by simpa using hc
      simp [this]

/-- neither a digit nor `_`: resets the digit rule -/
def Neutral (c : Nat) : Prop := isDigit c = false ∧ (c == cUS) = false

theorem digitScan_neutral_all {l : List Nat} (h : ∀ c ∈ l, Neutral c) (ld : Bool) :
    digitScan ld false l = true := by
  induction l generalizing ld with
  | nil => rfl
  | cons a as ih =>
    obtain ⟨h1, h2⟩ := h a (by simp)
    simp only [digitScan, h1, h2]
    simpa using ih (fun c hc => h c (by simp [hc])) false

theorem digitScan_lead {lead x : List Nat} (h : ∀ c ∈ lead, Neutral c) :
    digitScan false false (lead ++ x) = digitScan false false x := by
  induction lead with
  | nil => rfl
  | cons a as ih =>
    obtain ⟨h1, h2⟩ := h a (by simp)
    simp only [List.cons_append, digitScan, h1, h2]
    simpa using ih (fun c hc => h c (by simp [hc]))

theorem digitScan_tail {x tl : List Nat} (h : ∀ c ∈ tl, Neutral c) (ld lu : Bool) :
    digitScan ld lu (x ++ tl) = digitScan ld lu x := by
  induction x generalizing ld lu with
  | nil =>
    cases tl with
    | nil => rfl
    | cons a as =>
      obtain ⟨h1, h2⟩ := h a (by simp)
      simp only [List.nil_append, digitScan, h1, h2]
      rw [digitScan_neutral_all (fun c hc => h c (by simp [hc]))]
      simp
  | cons c cs ih => simp only [List.cons_append, digitScan, ih]

theorem digitScan_no_us {x : List Nat} (h : x.contains cUS = false) (ld : Bool) :
    digitScan ld false x = true := by
  induction x generalizing ld with
  | nil => rfl
  | cons c cs ih =>
    simp only [List.contains_cons, Bool.or_eq_false_iff] at h
    have hc : (c == cUS) = false := by
      have := h.1; rw [Bool.beq_comm] at this; exact this
    simp only [digitScan, hc]
    simpa using ih h.2 (isDigit c)

theorem digitScan_end_us (ys : List Nat) (ld lu : Bool) : digitScan ld lu (ys ++ [cUS]) = false := by
  induction ys generalizing ld lu with
  | nil => simp [digitScan]
  | cons c cs ih => simp only [List.cons_append, digitScan, ih]; simp

theorem digitScan_last_ne {x : List Nat} {ld lu : Bool} (h : digitScan ld lu x = true) :
    ∀ d, x.getLast? = some d → d ≠ cUS := by
  intro d hd hdu
  obtain ⟨ys, rfl⟩ := List.getLast?_eq_some_iff.1 hd
  subst hdu
  rw [digitScan_end_us] at h
  exact absurd h (by simp)

theorem digitScan_head_ne {c : Nat} {cs : List Nat} (h : digitScan false false (c :: cs) = true) : c ≠ cUS := by
  intro hc; subst hc
  simp [digitScan] at h

/-! ### stripping underscores -/
theorem stripUS_append (x y : List Nat) : stripUS (x ++ y) = stripUS x ++ stripUS y := by
  simp [stripUS]

theorem stripUS_of_not_mem {x : List Nat} (h : ∀ c ∈ x, (c == cUS) = false) : stripUS x = x := by
  simp only [stripUS]
  rw [List.filter_eq_self]
  intro a ha
  simp [bne, h a ha]

theorem stripUS_cons_ne {c : Nat} {cs : List Nat} (h : c ≠ cUS) : stripUS (c :: cs) = c :: stripUS cs := by
  simp [stripUS, h]

theorem mem_stripUS {x : List Nat} {c : Nat} : c ∈ stripUS x ↔ c ∈ x ∧ c ≠ cUS := by
  simp [stripUS]

theorem stripUS_getLast {x : List Nat} {d : Nat} (h : x.getLast? = some d) (hd : d ≠ cUS) :
    (stripUS x).getLast? = some d := by
  obtain ⟨ys, rfl⟩ := List.getLast?_eq_some_iff.1 h
  rw [stripUS_append]
  have : stripUS [d] = [d] := by simp [stripUS, hd]
  rw [this, List.getLast?_concat]

/-! ### the punctuation automaton implies the digit rule on decimal text -/

/-- no `_` directly beside a `+` or `-` -/
def noUSSign : List Nat → Bool
  | a :: b :: rest => !((isSign a && b == cUS) || (a == cUS && isSign b)) && noUSSign (b :: rest)
  | _ => true

theorem punct_imp_digit (S : List Nat) (hS : S.contains 95 = true ∧ S.contains 46 = true ∧ S.contains 101 = true ∧ S.contains 69 = true)
    (prev : Nat) (r : List Nat)
    (hprev : dchar prev = true ∨ prev = cUS)
    (hr : ∀ c ∈ r, dchar c = true ∨ c = cUS)
    (hadj : (S.contains 43 = true ∧ S.contains 45 = true) ∨ noUSSign (prev :: r) = true)
    (hp : punctScan S (S.contains prev) r = true) :
    digitScan (isDigit prev) (prev == cUS) r = true := by
  induction r generalizing prev with
  | nil =>
    simp only [punctScan, Bool.not_eq_true'] at hp
    simp only [digitScan, Bool.not_eq_true', beq_eq_false_iff_ne]
    intro h; subst h
    rw [show cUS = 95 from rfl, hS.1] at hp; exact absurd hp (by simp)
  | cons c cs ih =>
    simp only [punctScan, Bool.and_eq_true, Bool.not_eq_true', Bool.and_eq_false_iff] at hp
    obtain ⟨hpc, hrest⟩ := hp
    have hc := hr c (by simp)
    have hadj' : (S.contains 43 = true ∧ S.contains 45 = true) ∨ noUSSign (c :: cs) = true := by
      rcases hadj with h | h
      · exact Or.inl h
      · right
        simp only [noUSSign, Bool.and_eq_true] at h
        exact h.2
    have ihc := ih c hc (fun d hd => hr d (by simp [hd])) hadj' hrest
    -- a non-punctuation decimal character is a digit or a sign
    have key : ∀ x, (dchar x = true ∨ x = cUS) → S.contains x = false → isDigit x = true ∨ isSign x = true := by
      intro x hx hxs
      rcases hx with hx | hx
      · simp only [dchar, Bool.or_eq_true] at hx
        rcases hx with ((hx | hx) | hx) | hx
        · exact Or.inl hx
        · simp at hx; subst hx; rw [hS.2.1] at hxs; exact absurd hxs (by simp)
        · simp only [isExp, Bool.or_eq_true, beq_iff_eq] at hx
          rcases hx with hx | hx <;> subst hx
          · rw [hS.2.2.1] at hxs; exact absurd hxs (by simp)
          · rw [hS.2.2.2] at hxs; exact absurd hxs (by simp)
        · exact Or.inr hx
      · subst hx; simp only [cUS] at hxs; rw [hS.1] at hxs; exact absurd hxs (by simp)
    have signNotS : ∀ x, isSign x = true → S.contains x = false →
        ¬ (S.contains 43 = true ∧ S.contains 45 = true) := by
      intro x hx hxs ⟨h1, h2⟩
      simp only [isSign, Bool.or_eq_true, beq_iff_eq] at hx
      rcases hx with hx | hx <;> subst hx
      · rw [h1] at hxs; exact absurd hxs (by simp)
      · rw [h2] at hxs; exact absurd hxs (by simp)
    simp only [digitScan, Bool.and_eq_true, Bool.not_eq_true', Bool.and_eq_false_iff]
    refine ⟨⟨?_, ?_⟩, ihc⟩
    · -- `_` must follow a digit
      by_cases hcu : c = cUS
      · right
        subst hcu
        have hcS : S.contains cUS = true := by simp only [cUS]; exact hS.1
        have hprevS : S.contains prev = false := by
          rcases hpc with h | h
          · exact h
          · rw [hcS] at h; exact absurd h (by simp)
        rcases key prev hprev hprevS with h | h
        · simp [h]
        · exfalso
          rcases hadj with h' | h'
          · exact signNotS prev h hprevS h'
          · simp only [noUSSign, Bool.and_eq_true, Bool.not_eq_true', Bool.or_eq_false_iff, Bool.and_eq_false_iff] at h'
            have := h'.1.1
            rcases this with e | e
            · rw [h] at e; exact absurd e (by simp)
            · simp at e
      · left; simpa using hcu
    · -- what follows `_` must be a digit
      by_cases hpu : prev = cUS
      · right
        subst hpu
        have hpS : S.contains cUS = true := by simp only [cUS]; exact hS.1
        have hcS : S.contains c = false := by
          rcases hpc with h | h
          · rw [hpS] at h; exact absurd h (by simp)
          · exact h
        rcases key c hc hcS with h | h
        · simp [h]
        · exfalso
          rcases hadj with h' | h'
          · exact signNotS c h hcS h'
          · simp only [noUSSign, Bool.and_eq_true, Bool.not_eq_true', Bool.or_eq_false_iff, Bool.and_eq_false_iff] at h'
            have := h'.1.2
            rcases this with e | e
            · simp at e
            · rw [h] at e; exact absurd e (by simp)
      · left; simpa using hpu

import CyVerif.Lemmas.C11Lex
/-! Structure of `esc tbl b` for a well-formed table: a concatenation of safe tokens spelling `b`,
without two adjacent question marks. -/
namespace CyVerif.C11

/-- `text` is a concatenation of safe tokens whose values are `b`. -/
def Tokens (text b : List Nat) : Prop := ∃ ts, ts.flatten = text ∧ decodeToks ts = some b

theorem Tokens.nil : Tokens [] [] := ⟨[], rfl, rfl⟩

theorem Tokens.append {x a y b : List Nat} (h1 : Tokens x a) (h2 : Tokens y b) : Tokens (x ++ y) (a ++ b) := by
  obtain ⟨ts, rfl, hts⟩ := h1
  obtain ⟨us, rfl, hus⟩ := h2
  exact ⟨ts ++ us, by simp, decodeToks_append hts hus⟩

theorem Tokens.single {t : List Nat} {v : Nat} (h : tokVal t = some v) : Tokens t [v] :=
  ⟨[t], by simp, by simp [decodeToks, h]⟩

theorem tokLen_pos (c : Nat) (rest : List Nat) : 1 ≤ tokLen (c :: rest) := by
  unfold tokLen
  split
  · simp at *
  · omega
  · split
    · split
      · split <;> omega
      · omega
    · omega

theorem splitCharactersF_flatten (fuel : Nat) (s : List Nat) (h : s.length ≤ fuel) :
    (splitCharactersF fuel s).flatten = s := by
  induction fuel generalizing s with
  | zero =>
    have : s = [] := List.eq_nil_of_length_eq_zero (by omega)
    subst this; simp [splitCharactersF]
  | succ f ih =>
    cases s with
    | nil => simp [splitCharactersF]
    | cons c rest =>
      simp only [splitCharactersF, List.flatten_cons]
      have hp := tokLen_pos c rest
      rw [ih]
      · exact List.take_append_drop _ _
      · simp only [List.length_drop, List.length_cons] at *; omega

theorem splitCharacters_flatten (s : List Nat) : (splitCharacters s).flatten = s :=
  splitCharactersF_flatten _ _ (Nat.le_refl _)

theorem tableWF_entry {tbl : Table} (h : tableWF tbl = true) {e : List Nat × List Nat} (he : e ∈ tbl) :
    e.1 ≠ [] ∧ (∀ x ∈ e.2, 32 ≤ x ∧ x < 127 ∧ x ≠ 63) ∧ Tokens e.2 e.1 := by
  simp only [tableWF, Bool.and_eq_true, List.all_eq_true] at h
  have := h.1.1 e he
  simp only [decide_eq_true_eq, bne_iff_ne, ne_eq, beq_iff_eq] at this
  refine ⟨this.1.1, ?_, ⟨splitCharacters e.2, splitCharacters_flatten _, this.2⟩⟩
  intro x hx
  have := this.1.2 x hx
  omega

theorem tableWF_must {tbl : Table} (h : tableWF tbl = true) {d : Nat} (hd : d ∈ mustEscape) :
    ∃ e ∈ tbl, e.1 = [d] := by
  simp only [tableWF, Bool.and_eq_true, List.all_eq_true, List.any_eq_true, beq_iff_eq] at h
  exact h.1.2 d hd

theorem tableWF_qq {tbl : Table} (h : tableWF tbl = true) : ∃ e ∈ tbl, e.1 = [63, 63] := by
  simp only [tableWF, Bool.and_eq_true, List.any_eq_true, beq_iff_eq] at h
  exact h.2

theorem findEntry_some {tbl : Table} {s : List Nat} {e : List Nat × List Nat} (h : findEntry tbl s = some e) :
    e ∈ tbl ∧ s = e.1 ++ s.drop e.1.length := by
  unfold findEntry at h
  refine ⟨List.mem_of_find?_eq_some h, ?_⟩
  have := List.find?_some h
  rw [List.isPrefixOf_iff_prefix] at this
  obtain ⟨r, hr⟩ := this
  rw [← hr]; simp

theorem findEntry_none {tbl : Table} {s : List Nat} (h : findEntry tbl s = none)
    {e : List Nat × List Nat} (he : e ∈ tbl) : ¬ e.1 <+: s := by
  unfold findEntry at h
  rw [List.find?_eq_none] at h
  have := h e he
  rwa [List.isPrefixOf_iff_prefix] at this

theorem scan_skip (tbl : Table) (k : Nat) (s : List Nat) : scan tbl k s = scan tbl 0 (s.drop k) := by
  induction k generalizing s with
  | zero => simp
  | succ k ih =>
    cases s with
    | nil => simp [scan]
    | cons c rest => simp [scan, ih]

theorem mem_mustEscape (c : Nat) : c ∈ mustEscape ↔ (c < 32 ∨ c = 34 ∨ c = 39 ∨ c = 92) := by
  simp [mustEscape, List.mem_range]

theorem tokVal_octal3 : ∀ c, c < 256 → tokVal (octal3 c) = some c := by decide +kernel

theorem octal3_no63 : ∀ c, c < 256 → ∀ x ∈ octal3 c, x ≠ 63 := by decide +kernel

theorem noQQ_append_no63 (r y : List Nat) (h : ∀ x ∈ r, x ≠ 63) : noQQ (r ++ y) = noQQ y := by
  induction r with
  | nil => rfl
  | cons a r ih =>
    rw [List.cons_append, noQQ_cons_of_ne (h a (by simp))]
    exact ih (fun x hx => h x (by simp [hx]))

theorem noQQ_63_cons (y : List Nat) (h : y.head? ≠ some 63) : noQQ (63 :: y) = noQQ y := by
  conv => lhs; unfold noQQ
  split
  · simp at h
  · rfl

/-- The render step of `escape_byte_string` after `_replace_specials`. -/
def render (hi : Bool) (s : List Nat) : List Nat := if hi then octPass s else s

theorem render_append (hi : Bool) (x y : List Nat) : render hi (x ++ y) = render hi x ++ render hi y := by
  cases hi <;> simp [render, octPass]

theorem render_low (hi : Bool) (x : List Nat) (h : ∀ c ∈ x, c < 127) : render hi x = x := by
  cases hi
  · rfl
  · simp only [render, octPass, if_true]
    induction x with
    | nil => rfl
    | cons a x ih =>
      have := h a (by simp)
      simp only [List.flatMap_cons]
      rw [ih (fun c hc => h c (by simp [hc]))]
      have h127 : ¬ a ≥ 127 := by omega
      simp [h127]

theorem esc_eq_render (tbl : Table) (b : List Nat) : ∃ hi, esc tbl b = render hi (scan tbl 0 b) := by
  unfold esc replaceSpecials
  by_cases h : (scan tbl 0 b).all (· < 128) = true
  · exact ⟨false, by simp only [h, if_true, render]; rfl⟩
  · exact ⟨true, by simp only [h, render]; rfl⟩

theorem scan_structure (tbl : Table) (hT : tableWF tbl = true) (hi : Bool) :
    ∀ n (b : List Nat), b.length ≤ n → (∀ x ∈ b, x < 256) →
      Tokens (render hi (scan tbl 0 b)) b ∧ noQQ (render hi (scan tbl 0 b)) = true ∧
      ((render hi (scan tbl 0 b)).head? = some 63 → b.head? = some 63 ∧ findEntry tbl b = none) := by
  intro n
  induction n with
  | zero =>
    intro b hb _
    have : b = [] := List.eq_nil_of_length_eq_zero (by omega)
    subst this
    refine ⟨by cases hi <;> simpa [render, scan, octPass] using Tokens.nil, by cases hi <;> simp [render, scan, octPass, noQQ],
      by cases hi <;> simp [render, scan, octPass]⟩
  | succ n ih =>
    intro b hb hbytes
    cases b with
    | nil => exact ih [] (by simp) hbytes
    | cons c rest =>
      cases hf : findEntry tbl (c :: rest) with
      | some e =>
        obtain ⟨hmem, hpre⟩ := findEntry_some hf
        obtain ⟨hne, hrep, htok⟩ := tableWF_entry hT hmem
        have hlen : 1 ≤ e.1.length := by
          cases h : e.1 with
          | nil => exact absurd h hne
          | cons _ _ => simp
        have hscan : scan tbl 0 (c :: rest) = e.2 ++ scan tbl 0 ((c :: rest).drop e.1.length) := by
          simp only [scan, hf]
          rw [scan_skip]
          congr 2
          obtain ⟨k, hk⟩ : ∃ k, e.1.length = k + 1 := ⟨e.1.length - 1, by omega⟩
          rw [hk]; simp
        have hshort : ((c :: rest).drop e.1.length).length ≤ n := by
          have h1 : ((c :: rest).drop e.1.length).length = (c :: rest).length - e.1.length := List.length_drop
          simp only [List.length_cons] at h1 hb; omega
        have hb' : ∀ x ∈ (c :: rest).drop e.1.length, x < 256 := fun x hx => hbytes x (List.mem_of_mem_drop hx)
        obtain ⟨i1, i2, _⟩ := ih _ hshort hb'
        rw [hscan, render_append, render_low hi e.2 (fun x hx => (hrep x hx).2.1)]
        have he2 : e.2 ≠ [] := by
          intro h0
          obtain ⟨ts, hfl, hdec⟩ := htok
          rw [h0] at hfl
          -- an empty text decodes to the empty pattern
          have : ∀ (ts : List (List Nat)) (vs : List Nat), ts.flatten = [] → decodeToks ts = some vs → vs = [] := by
            intro ts
            induction ts with
            | nil => intro vs _ h; simpa [decodeToks] using h.symm
            | cons t ts _ =>
              intro vs hfl h
              obtain ⟨v, vs', hv, _, _⟩ := decodeToks_cons h
              have : t = [] := by
                simp at hfl
                exact hfl.1
              subst this
              simp [tokVal] at hv
          exact hne (this ts _ hfl hdec)
        refine ⟨?_, ?_, ?_⟩
        · have := Tokens.append htok i1
          rwa [← hpre] at this
        · rw [noQQ_append_no63 _ _ (fun x hx => (hrep x hx).2.2)]; exact i2
        · intro hh
          exfalso
          cases h2 : e.2 with
          | nil => exact he2 h2
          | cons a r =>
            rw [h2] at hh
            simp at hh
            have := (hrep a (by rw [h2]; simp)).2.2
            omega
      | none =>
        have hscan : scan tbl 0 (c :: rest) = c :: scan tbl 0 rest := by simp only [scan, hf]
        have hc256 : c < 256 := hbytes c (by simp)
        have hcsafe : ¬ (c < 32 ∨ c = 34 ∨ c = 39 ∨ c = 92) := by
          intro hc
          obtain ⟨e, he, hp⟩ := tableWF_must hT ((mem_mustEscape c).2 hc)
          exact findEntry_none hf he (by rw [hp]; simp)
        obtain ⟨i1, i2, i3⟩ := ih rest (by simp at hb; omega) (fun x hx => hbytes x (by simp [hx]))
        rw [hscan, show c :: scan tbl 0 rest = [c] ++ scan tbl 0 rest from rfl, render_append]
        by_cases hoct : hi = true ∧ c ≥ 127
        · have hr : render hi [c] = octal3 c := by
            obtain ⟨h1, h2⟩ := hoct
            subst h1
            simp [render, octPass, h2]
          rw [hr]
          refine ⟨?_, ?_, ?_⟩
          · exact Tokens.append (Tokens.single (tokVal_octal3 c hc256)) i1
          · rw [noQQ_append_no63 _ _ (octal3_no63 c hc256)]; exact i2
          · intro hh; simp [octal3] at hh
        · have hr : render hi [c] = [c] := by
            cases hi
            · rfl
            · simp only [render, octPass, if_true, List.flatMap_cons, List.flatMap_nil, List.append_nil]
              have : ¬ c ≥ 127 := fun h => hoct ⟨rfl, h⟩
              simp [this]
          rw [hr, List.singleton_append]
          have htv : tokVal [c] = some c := by
            simp only [tokVal]
            rw [if_pos]
            omega
          refine ⟨?_, ?_, ?_⟩
          · exact Tokens.append (Tokens.single htv) i1 (x := [c])
          · by_cases h63 : c = 63
            · subst h63
              have : (render hi (scan tbl 0 rest)).head? ≠ some 63 := by
                intro hh
                obtain ⟨hh1, _⟩ := i3 hh
                obtain ⟨e, he, hp⟩ := tableWF_qq hT
                apply findEntry_none hf he
                rw [hp]
                cases rest with
                | nil => simp at hh1
                | cons a r => simp at hh1; subst hh1; simp
              rw [noQQ_63_cons _ this]; exact i2
            · rw [noQQ_cons_of_ne h63]; exact i2
          · intro hh
            simp at hh
            exact ⟨by simp [hh], rfl⟩

end CyVerif.C11

import CyVerif.Lemmas.C37InvB2
/-! C37 leg 2: part-B invariant is inductive (global fields), initial state, runs. -/
namespace CyVerif.C37

theorem invB_whyInv {c : Cfg} {st st' : St} {t : Nat} (ht : t < c.n) (inv : InvB c st) (h : Step c st t st') :
    st'.why = 0 ∨ whyOK c st'.ran st'.ret st'.why := by
  have ih := inv.whyInv
  cases h with
  | skip | finMaster | finWorker | fetchFull | fetchTake => exact ih
  | runCont k | runBrk k | runRet k | runRaise k => exact ih.imp id (whyOK_cons k)
  | setWhy v hp => exact Or.inr (inv.pcWhy t ht v hp)
  | writeRet v hp => exact ih.imp id (whyOK_ret v)

theorem invB_retInv {c : Cfg} {st st' : St} {t : Nat} (ht : t < c.n) (inv : InvB c st) (h : Step c st t st') :
    ∀ k, st'.ret = some k → k ∈ st'.ran ∧ c.kinds k = .ret := by
  intro r hr
  have ih := inv.retInv r
  cases h with
  | skip | finMaster | finWorker | fetchFull | fetchTake | setWhy => exact ih hr
  | runCont k | runBrk k | runRet k | runRaise k => exact ⟨List.mem_cons_of_mem _ (ih hr).1, (ih hr).2⟩
  | writeRet v hp =>
    dsimp only at hr; cases hr
    exact inv.pcRet t ht r hp

theorem invB_skipWhy {c : Cfg} {st st' : St} {t : Nat} (ht : t < c.n) (inv : InvB c st) (h : Step c st t st') :
    st'.skipped ≠ [] → 2 ≤ st'.why := by
  intro hs
  have ih := inv.skipWhy
  cases h with
  | skip k rest hp htodo hw => exact hw
  | finMaster | finWorker | fetchFull | fetchTake | runCont | runBrk | runRet | runRaise | writeRet => exact ih hs
  | setWhy v hp => exact whyOK_ge (inv.pcWhy t ht v hp)

theorem invB_exitPending {c : Cfg} {st st' : St} {t : Nat} (ht : t < c.n) (inv : InvB c st) (h : Step c st t st') :
    (∃ k ∈ st'.ran, c.kinds k ≠ .cont) → 2 ≤ st'.why ∨ ∃ u < c.n, pending (st'.pc u) := by
  intro he
  have ih := inv.exitPending
  cases h with
  | skip k rest hp htodo hw => exact Or.inl hw
  | runCont k rest hp htodo hk => exact ih (exit_cons_cont hk he)
  | runBrk k rest hp htodo hk | runRet k rest hp htodo hk | runRaise k rest hp htodo hk =>
    exact Or.inr (pend_self ht (by simp [pending]))
  | finMaster hp | finWorker hp =>
    exact (ih he).imp id (pend_other (by simp [pending, hp]))
  | setWhy v hp => exact Or.inl (whyOK_ge (inv.pcWhy t ht v hp))
  | writeRet v hp | fetchFull hp | fetchTake hp => exact Or.inr (pend_self ht (by simp [pending]))

theorem invB_step {c : Cfg} {st st' : St} {t : Nat} {sk : Bool} (inv : InvB c st) (h : step c st t sk = some st') :
    InvB c st' := by
  obtain ⟨ht, hs⟩ := step_sound h
  exact { pcWhy := invB_pcWhy ht inv hs, whyInv := invB_whyInv ht inv hs, retInv := invB_retInv ht inv hs,
          pcRet := invB_pcRet inv hs, pcFetch := invB_pcFetch inv hs, exitPending := invB_exitPending ht inv hs,
          skipWhy := invB_skipWhy ht inv hs }

theorem invB_init (c : Cfg) (parts : List (List Nat)) : InvB c (initSt parts) := by
  refine { pcWhy := ?_, whyInv := Or.inl rfl, retInv := ?_, pcRet := ?_, pcFetch := ?_, exitPending := ?_, skipWhy := ?_ }
  · intro t _ v h; simp [initSt] at h
  · intro k h; simp [initSt] at h
  · intro t _ k h; simp [initSt] at h
  · intro t _ h; simp [initSt] at h
  · intro ⟨k, hk, _⟩; simp [initSt] at hk
  · intro h; simp [initSt] at h

theorem invB_run {c : Cfg} (acts : List (Nat × Bool)) {st st' : St} (inv : InvB c st)
    (h : runActs c st acts = some st') : InvB c st' := by
  induction acts generalizing st with
  | nil => simp [runActs] at h; exact h ▸ inv
  | cons a rest ih =>
    obtain ⟨t, sk⟩ := a
    simp only [runActs] at h
    split at h
    next st1 hs => exact ih (invB_step inv hs) h
    next => cases h

end CyVerif.C37

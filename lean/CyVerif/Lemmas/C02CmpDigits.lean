import CyVerif.Model.C02Cmp
import CyVerif.Lemmas.C02Basic
/-!
C02: digit-wise comparison = comparison of values (for digit lists in CPython normal form).
-/
namespace CyVerif.C02
open CyVerif.C05

/-- digit `i` of `u` in base `2^S` as the C code extracts it: `(u >> (i*S)) & MASK` -/
def dig (S u i : Nat) : Nat := (u >>> (i * S)) % 2 ^ S

theorem dig_zero (S u : Nat) : dig S u 0 = u % 2 ^ S := by simp [dig]

theorem dig_succ (S u i : Nat) : dig S u (i + 1) = dig S (u / 2 ^ S) i := by
  unfold dig
  rw [Nat.shiftRight_eq_div_pow, Nat.shiftRight_eq_div_pow, Nat.div_div_eq_div_mul, ← Nat.pow_add]
  congr 3; rw [Nat.add_mul]; omega

/-- evaluation of the unrolled `|` chain: no out-of-bounds read when `i + n ≤ size`, and the result says whether
some digit differs -/
theorem digitDiffs_spec (S : Nat) (ds : List Nat) (u : Nat) : ∀ (n i : Nat), i + n ≤ ds.length →
    ∃ b, digitDiffs S ds u i n = .ok b ∧ (b = false ↔ ∀ j, j < n → ds[i + j]? = some (dig S u (i + j))) := by
  intro n
  induction n with
  | zero => intro i _; exact ⟨false, rfl, by simp⟩
  | succ n ih =>
    intro i hi
    obtain ⟨b, hb, hiff⟩ := ih (i + 1) (by omega)
    have hlt : i < ds.length := by omega
    refine ⟨decide (ds[i] ≠ dig S u i) || b, ?_, ?_⟩
    · simp only [digitDiffs, digitAt, dif_pos hlt, bind, Except.bind, hb, pure, Except.pure, dig]
      congr 2
    · rw [Bool.or_eq_false_iff, hiff]
      constructor
      · intro ⟨h0, hrest⟩ j hj
        cases j with
        | zero =>
          have : ds[i] = dig S u i := by simpa using h0
          simp [List.getElem?_eq_getElem hlt, this]
        | succ j => have := hrest j (by omega); rw [show i + (j + 1) = i + 1 + j by omega]; exact this
      · intro h
        refine ⟨?_, fun j hj => ?_⟩
        · have := h 0 (by omega)
          simp only [Nat.add_zero, List.getElem?_eq_getElem hlt, Option.some.injEq] at this
          simp [this]
        · have := h (j + 1) (by omega); rw [show i + (j + 1) = i + 1 + j by omega] at this; exact this

/-- a digit list (all digits below the base) has value `u` iff it lists the digits of `u` and `u` has no more digits -/
theorem natVal_eq_iff (S : Nat) : ∀ (ds : List Nat) (u : Nat), (∀ d ∈ ds, d < 2 ^ S) →
    (natVal S ds = u ↔ (u < 2 ^ (ds.length * S) ∧ ∀ j, j < ds.length → ds[j]? = some (dig S u j))) := by
  intro ds
  induction ds with
  | nil => intro u _; simp [natVal]; omega
  | cons d rest ih =>
    intro u hd
    have hd0 : d < 2 ^ S := hd d (by simp)
    have hrest : ∀ x ∈ rest, x < 2 ^ S := fun x hx => hd x (by simp [hx])
    have hpow : 2 ^ ((rest.length + 1) * S) = 2 ^ S * 2 ^ (rest.length * S) := by
      rw [← Nat.pow_add]; congr 1; rw [Nat.add_mul]; omega
    have hpos := Nat.two_pow_pos S
    simp only [natVal, List.length_cons]
    constructor
    · intro h
      have hmod : u % 2 ^ S = d := by rw [← h, Nat.add_mul_mod_self_left, Nat.mod_eq_of_lt hd0]
      have hdiv : u / 2 ^ S = natVal S rest := by
        rw [← h, Nat.add_mul_div_left _ _ hpos, Nat.div_eq_of_lt hd0, Nat.zero_add]
      have := (ih (u / 2 ^ S) hrest).mp hdiv.symm
      refine ⟨?_, fun j hj => ?_⟩
      · rw [hpow]
        have h1 := this.1
        have := Nat.div_add_mod u (2 ^ S)
        calc u = 2 ^ S * (u / 2 ^ S) + u % 2 ^ S := this.symm
          _ < 2 ^ S * (u / 2 ^ S) + 2 ^ S := by omega
          _ = 2 ^ S * (u / 2 ^ S + 1) := by rw [Nat.mul_add, Nat.mul_one]
          _ ≤ 2 ^ S * 2 ^ (rest.length * S) := Nat.mul_le_mul_left _ (by omega)
      · cases j with
        | zero => simp [dig_zero, hmod]
        | succ j => rw [List.getElem?_cons_succ, dig_succ]; exact this.2 j (by omega)
    · intro ⟨hlt, hdig⟩
      have h0 := hdig 0 (by omega)
      simp only [List.getElem?_cons_zero, Option.some.injEq, dig_zero] at h0
      have hr : natVal S rest = u / 2 ^ S := by
        apply (ih (u / 2 ^ S) hrest).mpr
        refine ⟨?_, fun j hj => ?_⟩
        · rw [hpow] at hlt; exact Nat.div_lt_of_lt_mul hlt
        · have := hdig (j + 1) (by omega)
          rw [List.getElem?_cons_succ, dig_succ] at this; exact this
      rw [hr, h0, Nat.add_comm]; exact Nat.div_add_mod u (2 ^ S)

end CyVerif.C02

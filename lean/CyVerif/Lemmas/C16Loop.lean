import CyVerif.Lemmas.C16Dim
/-!
All dimensions: the loops of `memview_slice`, `get_item_pointer` and
`generate_buffer_slice_code` over direct dimensions against `specSels`.
-/
namespace CyVerif.C16
open PySlice

theorem indexBounds_eq (shape i : Int) : indexBounds shape i = PySlice.index shape i := by
  unfold indexBounds PySlice.index
  by_cases h1 : i < 0 <;> by_cases h2 : 0 ≤ i + shape <;> by_cases h3 : i < shape <;> by_cases h4 : 0 ≤ i <;>
    simp [h1, h2, h3, h4] <;> omega

theorem toSsize_ok {x : Int} (h : InSsize x) : toSsize x = .ok x := by
  unfold toSsize; unfold InSsize at h
  have : ¬ (x > ssizeMax ∨ x < -ssizeMax - 1) := by omega
  rw [if_neg this]

theorem optToSsize_ok {o : Option Int} (h : OptIn o) : optToSsize o = .ok (o.getD 0) := by
  cases o with
  | none => rfl
  | some x => exact toSsize_ok h

theorem specTriple_ofOptions (shape : Int) (s e st : Option Int) :
    specTriple shape ⟨s.getD 0, e.getD 0, st.getD 0, s.isSome, e.isSome, st.isSome⟩ =
      (PySlice.indices shape s e st).map fun p => (p.1.start, p.2, p.1.len) := by
  unfold specTriple SliceArgs.pyStart SliceArgs.pyStop SliceArgs.pyStep
  cases s <;> cases e <;> cases st <;> rfl

/-- per-item agreement hypothesis of the composition theorems -/
def AgreesItem (v : Variant) (src : Dim) : Item → Prop
  | .slc s e st => Agrees v src.shape ⟨s.getD 0, e.getD 0, st.getD 0, s.isSome, e.isSome, st.isSome⟩
  | _ => True

theorem slice_step_direct (v : Variant) (sh st : List Int) (off : Int) (src : Dim)
    (hsub : src.suboffset = -1) (a : SliceArgs) (hag : Agrees v src.shape a) :
    sliceMemviewslice v (Dst.direct sh st off) src a true =
      (specTriple src.shape a).map fun t =>
        Dst.direct (sh ++ [t.2.2]) (st ++ [src.stride * t.2.1]) (off + t.1 * src.stride) := by
  unfold Agrees at hag
  unfold sliceMemviewslice
  simp only [if_true]
  cases hb : sliceBounds v src.shape a with
  | err e =>
    rw [hb] at hag
    simp only [Res.map] at hag
    rw [← hag]; rfl
  | ok b =>
    rw [hb] at hag
    simp only [Res.map] at hag
    rw [← hag]
    simp only [Res.map, DimSlice.triple, Dst.direct, Dst.addOffset, addLast, hsub]
    simp

theorem index_step_direct (v : Variant) (sh st : List Int) (off : Int) (src : Dim)
    (hsub : src.suboffset = -1) (i : Int) :
    sliceMemviewslice v (Dst.direct sh st off) src ⟨i, 0, 0, false, false, false⟩ false =
      (PySlice.index src.shape i).map fun j => Dst.direct sh st (off + j * src.stride) := by
  unfold sliceMemviewslice
  simp only [Bool.false_eq_true, if_false]
  rw [indexBounds_eq]
  cases hj : PySlice.index src.shape i with
  | err e => rfl
  | ok j =>
    simp only [Res.map, Dst.direct, Dst.addOffset, addLast, hsub]
    simp

/-- how a list of per-dimension selections extends a direct destination -/
def extendDirect (sh st : List Int) (off : Int) (sels : List (Dim × Sel)) : Dst :=
  Dst.direct (sh ++ viewShape sels) (st ++ viewStrides sels) (off + viewOffset sels)

theorem specSels_cons_idx (src : Dim) (dims : List Dim) (i : Int) (rest : List Item) :
    specSels (src :: dims) (.idx i :: rest) =
      match PySlice.index src.shape i with
      | .err e => .err e
      | .ok j =>
        match specSels dims rest with
        | .ok l => .ok ((src, .point j) :: l)
        | .err e => .err e := by
  simp only [specSels, specSel]
  cases PySlice.index src.shape i <;> rfl

theorem specSels_cons_slc (src : Dim) (dims : List Dim) (s e st : Option Int) (rest : List Item) :
    specSels (src :: dims) (.slc s e st :: rest) =
      match PySlice.indices src.shape s e st with
      | .err e => .err e
      | .ok (adj, step) =>
        match specSels dims rest with
        | .ok l => .ok ((src, .range adj step) :: l)
        | .err e => .err e := by
  simp only [specSels, specSel]
  cases PySlice.indices src.shape s e st with
  | err e => rfl
  | ok p => cases p; rfl

/-- `memview_slice` loop over direct dimensions, one plain item per dimension. -/
theorem memviewSliceLoop_direct (v : Variant) :
    ∀ (items : List Item) (dims : List Dim) (sh st : List Int) (off : Int),
      items.length = dims.length →
      (∀ it ∈ items, PlainItem it) →
      (∀ d ∈ dims, d.suboffset = -1) →
      (∀ p ∈ dims.zip items, AgreesItem v p.1 p.2) →
      memviewSliceLoop v dims items (Dst.direct sh st off) =
        (specSels dims items).map (extendDirect sh st off) := by
  intro items
  induction items with
  | nil =>
    intro dims sh st off hlen _ _ _
    cases dims with
    | nil => simp [memviewSliceLoop, specSels, Res.map, extendDirect, viewShape, viewStrides, viewOffset]
    | cons d ds => simp at hlen
  | cons it rest ih =>
    intro dims sh st off hlen hplain hdir hag
    cases dims with
    | nil => simp at hlen
    | cons src dims =>
      have hlen' : rest.length = dims.length := by simpa using hlen
      have hp := hplain it (List.mem_cons_self ..)
      have hplain' : ∀ it ∈ rest, PlainItem it := fun x hx => hplain x (List.mem_cons_of_mem _ hx)
      have hsub := hdir src (List.mem_cons_self ..)
      have hdir' : ∀ d ∈ dims, d.suboffset = -1 := fun x hx => hdir x (List.mem_cons_of_mem _ hx)
      have hag0 := hag (src, it) (by simp [List.zip])
      have hag' : ∀ p ∈ dims.zip rest, AgreesItem v p.1 p.2 :=
        fun p hp => hag p (by simp only [List.zip_cons_cons]; exact List.mem_cons_of_mem _ hp)
      cases it with
      | idx i =>
        rw [specSels_cons_idx]
        simp only [memviewSliceLoop]
        rw [toSsize_ok hp]
        simp only []
        rw [index_step_direct v sh st off src hsub i]
        cases hj : PySlice.index src.shape i with
        | err e => rfl
        | ok j =>
          simp only [Res.map]
          rw [ih dims sh st (off + j * src.stride) hlen' hplain' hdir' hag']
          cases specSels dims rest with
          | err e => rfl
          | ok l =>
            simp only [Res.map, extendDirect, viewShape, viewStrides, viewOffset]
            rw [Int.add_assoc]
      | slc s e c =>
        obtain ⟨h1, h2, h3⟩ := hp
        rw [specSels_cons_slc]
        simp only [memviewSliceLoop]
        rw [optToSsize_ok h1, optToSsize_ok h2, optToSsize_ok h3]
        simp only []
        rw [slice_step_direct v sh st off src hsub _ hag0, specTriple_ofOptions]
        cases hj : PySlice.indices src.shape s e c with
        | err e => rfl
        | ok p =>
          obtain ⟨adj, step⟩ := p
          simp only [Res.map]
          rw [ih dims _ _ _ hlen' hplain' hdir' hag']
          cases specSels dims rest with
          | err e => rfl
          | ok l =>
            simp only [Res.map, extendDirect, viewShape, viewStrides, viewOffset, List.append_assoc,
              List.singleton_append]
            rw [Int.add_assoc]
      | ell => exact absurd hp (by simp [PlainItem])
      | none => exact absurd hp (by simp [PlainItem])
      | bad => exact absurd hp (by simp [PlainItem])

end CyVerif.C16

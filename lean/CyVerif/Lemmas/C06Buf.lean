import CyVerif.Model.C06
import CyVerif.Lemmas.C06Scan
/-! Bytes written by the copy loops. -/
namespace CyVerif.C06

theorem stripUS_length_le (x : List Nat) : (stripUS x).length ≤ x.length := by
  simp only [stripUS]; exact List.length_filter_le _ _

theorem uCopyGo_le (rule : CopyRule) (lp ld : Bool) (pos hi : Nat) (xs : List Nat) :
    uCopyGo rule lp ld pos hi xs ≤ max hi (pos + (stripUS xs).length + 1) := by
  induction xs generalizing lp ld pos hi with
  | nil =>
    simp only [uCopyGo]
    cases rule <;> simp only <;> split <;> omega
  | cons c cs ih =>
    have hlen : (stripUS (c :: cs)).length = (if c == cUS then 0 else 1) + (stripUS cs).length := by
      by_cases hc : c = cUS
      · subst hc; simp [stripUS]
      · rw [stripUS_cons_ne hc]; simp [hc]; omega
    simp only [uCopyGo]
    split
    · rw [hlen]; split <;> omega
    · cases rule with
      | punct S =>
        simp only
        split
        · rw [hlen]; split <;> omega
        · have := ih (S.contains c) false (if c == cUS then pos else pos + 1) (pos + 1)
          rw [hlen]
          split at this <;> simp_all <;> omega
      | digits =>
        simp only
        split
        · rw [hlen]; split <;> omega
        · have := ih (c == cUS) (isDigit c) (if c == cUS then pos else pos + 1) (pos + 1)
          rw [hlen]
          split at this <;> simp_all <;> omega

theorem uCopyWritten_le (rule : CopyRule) (xs : List Nat) : uCopyWritten rule xs ≤ xs.length + 1 := by
  have h := stripUS_length_le xs
  unfold uCopyWritten
  cases rule with
  | punct S => have := uCopyGo_le (.punct S) true false 0 0 xs; simp only at *; omega
  | digits => have := uCopyGo_le .digits false false 0 0 xs; simp only at *; omega

end CyVerif.C06

import CyVerif.Lemmas.C02Basic
/-!
C02: the digit-count dispatch of `__Pyx_Unpacked_…` yields the exact value of the Python int in `long` /
`long long`, with the magnitude bound implied by the `sizeof` guard — or takes the slot fallback.  Never UB.
-/
namespace CyVerif.C02
open CyVerif.C05

/-- What `unpack` can produce for a Python int of value `v`. -/
inductive UnpackOK (P : Plat) (op : Op) (v : Int) (n : Nat) : Unp → Prop where
  | slot : UnpackOK P op v n .slot
  | long (hb : Bnd n v) (h1 : n + 2 ≤ 8 * P.longBytes) (h2 : n + extra op + 1 ≤ 8 * P.llBytes) :
      UnpackOK P op v n (.long v)
  | ll (hb : Bnd n v) (h2 : n + extra op + 2 ≤ 8 * P.llBytes) (hop : op ≠ .tdiv) : UnpackOK P op v n (.ll v)

theorem extra_le (op : Op) : extra op ≤ 30 := by unfold extra; split <;> omega

theorem value_bnd {S : Nat} {p : PyLong} (hd : ∀ d ∈ p.digits, d < 2 ^ S) :
    Bnd (p.digits.length * S) (p.value S) := by
  have h := natCast_lt_two (natVal_lt S p.digits hd)
  unfold PyLong.value Bnd
  split <;> omega

theorem joinChain_spec (P : Plat) (hP : PlatOK P) (op : Op) (p : PyLong) (hwf : p.WF P.shift) (hne : p.digits ≠ [])
    (ks : List Nat) :
    ∃ u, joinChain P op (!p.neg) p.digits ks = .ok u ∧ UnpackOK P op (p.value P.shift) (p.digits.length * P.shift) u := by
  obtain ⟨hS, hi0, hiL, hL4, hLLL, hLL8, hSL, hSLL⟩ := hP
  have hd := hwf.1
  have hb := value_bnd hd
  have hval : (if (!p.neg) = true then ((natVal P.shift p.digits : Nat) : Int) else -((natVal P.shift p.digits : Nat) : Int))
      = p.value P.shift := by
    unfold PyLong.value; cases p.neg <;> simp
  have hnat : Bnd (p.digits.length * P.shift) ((natVal P.shift p.digits : Nat) : Int) := by
    have h := natCast_lt_two (natVal_lt P.shift p.digits hd)
    have := two_pos (p.digits.length * P.shift)
    unfold Bnd; omega
  induction ks with
  | nil => exact ⟨.slot, rfl, .slot⟩
  | cons k ks ih =>
    unfold joinChain
    by_cases h1 : p.digits.length = k ∧ 8 * P.longBytes - 1 > k * P.shift + extra op ∧ (op ≠ .tdiv ∨ (k - 1) * P.shift < 53)
    · rw [if_pos h1]
      obtain ⟨hk, hg, _⟩ := h1
      subst hk
      have hj := pylongJoin_spec P P.tULong p.digits hS hne hd
        (by show p.digits.length * P.shift ≤ (if false = true then 8 * P.longBytes - 1 else 8 * P.longBytes); simp; omega)
        hiL (by show 0 < P.longBytes; omega)
      have hr : P.tLong.inRange ((natVal P.shift p.digits : Nat) : Int) :=
        inRange_of_bnd rfl hnat (by rw [tLong_bits]; omega)
      have hs := signFix_ok (t := P.tLong) rfl hnat (by rw [tLong_bits]; omega) (!p.neg)
      refine ⟨.long (p.value P.shift), ?_, .long hb (by omega) (by omega)⟩
      rw [hj]
      simp only [bind, Except.bind, pure, Except.pure]
      rw [cast_of_inRange (by show 0 < P.longBytes; omega) hr, hs, hval]
    · rw [if_neg h1]
      by_cases h2 : op ≠ .tdiv ∧ p.digits.length = k ∧ 8 * P.llBytes - 1 > k * P.shift + extra op
      · rw [if_pos h2]
        obtain ⟨hop, hk, hg⟩ := h2
        subst hk
        have hj := pylongJoin_spec P P.tULL p.digits hS hne hd
          (by show p.digits.length * P.shift ≤ (if false = true then 8 * P.llBytes - 1 else 8 * P.llBytes); simp; omega)
          (by show P.intBytes ≤ P.llBytes; omega) (by show 0 < P.llBytes; omega)
        have hr : P.tLL.inRange ((natVal P.shift p.digits : Nat) : Int) :=
          inRange_of_bnd rfl hnat (by rw [tLL_bits]; omega)
        have hs := signFix_ok (t := P.tLL) rfl hnat (by rw [tLL_bits]; omega) (!p.neg)
        refine ⟨.ll (p.value P.shift), ?_, .ll hb (by omega) hop⟩
        rw [hj]
        simp only [bind, Except.bind, pure, Except.pure]
        rw [cast_of_inRange (by show 0 < P.llBytes; omega) hr, hs, hval]
      · rw [if_neg h2]; exact ih

theorem isPos_of_ne {p : PyLong} (hne : p.digits ≠ []) : isPos p = !p.neg := by
  unfold isPos; cases hd : p.digits with
  | nil => exact absurd hd hne
  | cons d ds => simp

/-- The dispatch on the digit count, for a non-zero int. -/
theorem unpack_spec (P : Plat) (hP : PlatOK P) (op : Op) (p : PyLong) (hwf : p.WF P.shift) (hne : p.digits ≠ []) :
    ∃ u, unpack P op p (isPos p) = .ok u ∧ UnpackOK P op (p.value P.shift) (p.digits.length * P.shift) u := by
  rw [isPos_of_ne hne]
  unfold unpack
  by_cases h1 : p.digits.length = 1
  · rw [if_pos h1]
    obtain ⟨hS, hi0, hiL, hL4, hLLL, hLL8, hSL, hSLL⟩ := hP
    have hb := value_bnd hwf.1
    match hds : p.digits, h1 with
    | [d], _ =>
      have hd : d < 2 ^ P.shift := hwf.1 d (by rw [hds]; simp)
      have hdb : Bnd P.shift (d : Int) := by
        have := natCast_lt_two hd; have := two_pos P.shift; unfold Bnd; omega
      have hdig : p.digit0 = d := by unfold PyLong.digit0; rw [hds]
      have hval : (if (!p.neg) = true then (d : Int) else -(d : Int)) = p.value P.shift := by
        unfold PyLong.value; rw [hds]; cases p.neg <;> simp [natVal]
      have hs := signFix_ok (t := P.tLong) rfl hdb (by rw [tLong_bits]; omega) (!p.neg)
      have hlen : [d].length * P.shift = P.shift := by simp
      refine ⟨.long (p.value P.shift), ?_, .long (by rw [hlen]; rw [hds] at hb; simpa using hb) (by rw [hlen]; omega)
        (by rw [hlen]; have := extra_le op; omega)⟩
      rw [hdig, cast_of_inRange (by show 0 < P.longBytes; omega) (inRange_of_bnd rfl hdb (by rw [tLong_bits]; omega))]
      simp only [bind, Except.bind, pure, Except.pure]
      rw [hs, hval]
  · rw [if_neg h1]; exact joinChain_spec P hP op p hwf hne [2, 3, 4]

/-- zero: no digit count matches. -/
theorem unpack_zero (P : Plat) (op : Op) (p : PyLong) (hz : p.digits = []) (b : Bool) : unpack P op p b = .ok .slot := by
  unfold unpack; rw [hz]; simp [joinChain]

end CyVerif.C02

import CyVerif.Model.C13
/-! Lemmas for the tailmatch theorems of C13 (core Lean only). -/
namespace CyVerif.C13
open CyVerif.C15 (Out)

theorem memEq_ok (mem : List Nat) : ∀ (sub : List Nat) (off : Nat), off + sub.length ≤ mem.length →
    memEq mem off sub = .ok (decide ((mem.drop off).take sub.length = sub))
  | [], off, _ => by simp [memEq]
  | c :: cs, off, h => by
    have hlt : off < mem.length := by simp at h; omega
    have ih := memEq_ok mem cs (off + 1) (by simp at h ⊢; omega)
    simp only [memEq, List.getElem?_eq_getElem hlt, ih]
    rw [List.drop_eq_getElem_cons hlt, List.length_cons, List.take_succ_cons]
    simp only [List.cons.injEq, Bool.decide_and]
    congr 1

/-- prefix test on a window: the window `[a, b)` of `l` starts with `sub` iff the `|sub|` items at `a` equal `sub` -/
theorem prefix_window (l sub : List Nat) (a b : Nat) (_hb : b ≤ l.length) (h : a + sub.length ≤ b) :
    sub.isPrefixOf ((l.drop a).take (b - a)) = decide ((l.drop a).take sub.length = sub) := by
  rw [Bool.eq_iff_iff, List.isPrefixOf_iff_prefix, decide_eq_true_iff]
  constructor
  · intro hp
    have := List.prefix_iff_eq_take.mp hp
    rw [List.take_take, Nat.min_eq_left (by omega)] at this
    exact this.symm
  · intro he
    have : sub.length ≤ b - a := by omega
    have hp := List.take_prefix_take_left (l := l.drop a) this
    rwa [he] at hp

theorem prefix_window_short (l sub : List Nat) (a b : Nat) (h : b < a + sub.length) (hab : a ≤ b) :
    sub.isPrefixOf ((l.drop a).take (b - a)) = false := by
  rw [Bool.eq_false_iff]
  intro hp
  have := (List.isPrefixOf_iff_prefix.mp hp).length_le
  simp [List.length_take] at this
  omega

theorem suffix_window_short (l sub : List Nat) (a b : Nat) (h : b < a + sub.length) (hab : a ≤ b) :
    sub.isSuffixOf ((l.drop a).take (b - a)) = false := by
  rw [Bool.eq_false_iff]
  intro hp
  have := (List.isSuffixOf_iff_suffix.mp hp).length_le
  simp [List.length_take] at this
  omega

/-- suffix test on a window `[a, b)`: compare the `|sub|` items ending at `b` -/
theorem suffix_window (l sub : List Nat) (a b : Nat) (hb : b ≤ l.length) (h : a + sub.length ≤ b) :
    sub.isSuffixOf ((l.drop a).take (b - a)) = decide ((l.drop (b - sub.length)).take sub.length = sub) := by
  have hlen : ((l.drop a).take (b - a)).length = b - a := by simp [List.length_take]; omega
  have hd : ((l.drop a).take (b - a)).drop (b - a - sub.length) = (l.drop (b - sub.length)).take sub.length := by
    rw [List.drop_take, List.drop_drop]
    congr 1
    · omega
    · congr 1; omega
  rw [Bool.eq_iff_iff, List.isSuffixOf_iff_suffix, decide_eq_true_iff, List.suffix_iff_eq_drop, hlen, hd]
  exact eq_comm

end CyVerif.C13

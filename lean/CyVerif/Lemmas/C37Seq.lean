import CyVerif.Model.C37
/-! Lemmas for C37 leg 1: the combiners form commutative monoids; folds are schedule independent. -/
namespace CyVerif.C37

/-- what `x op= v` contributes in terms of the combiner -/
def Op.contrib {w : Nat} : Op → BitVec w → BitVec w
  | .sub, v => -v
  | _, v => v

theorem Op.apply_eq_comb {w} (op : Op) (a v : BitVec w) : op.apply a v = op.comb a (op.contrib v) := by
  cases op <;> simp [Op.apply, Op.comb, Op.contrib, BitVec.sub_eq_add_neg]

theorem Op.comb_assoc {w} (op : Op) (a b c : BitVec w) : op.comb (op.comb a b) c = op.comb a (op.comb b c) := by
  cases op <;> simp [Op.comb, BitVec.add_assoc, BitVec.mul_assoc, BitVec.and_assoc, BitVec.or_assoc, BitVec.xor_assoc]

theorem Op.comb_comm {w} (op : Op) (a b : BitVec w) : op.comb a b = op.comb b a := by
  cases op <;> simp [Op.comb, BitVec.add_comm, BitVec.mul_comm, BitVec.and_comm, BitVec.or_comm, BitVec.xor_comm]

theorem Op.comb_ident {w} (op : Op) (a : BitVec w) : op.comb a (op.ident w) = a := by
  cases op <;> simp [Op.comb, Op.ident]

/-- two body statements commute -/
theorem Op.apply_comm {w} (op : Op) (z x y : BitVec w) :
    op.apply (op.apply z x) y = op.apply (op.apply z y) x := by
  simp only [Op.apply_eq_comb, Op.comb_assoc]
  rw [op.comb_comm (op.contrib x)]

@[simp] theorem upd_same {α} (f : Nat → α) (t : Nat) (v : α) : upd f t v t = v := by simp [upd]
theorem upd_other {α} (f : Nat → α) (t : Nat) (v : α) (x : Nat) (h : x ≠ t) : upd f t v x = f x := by simp [upd, h]

theorem foldl_comb_shift {w} (op : Op) (h : Nat → BitVec w) (c : BitVec w) (L : List Nat) (a : BitVec w) :
    L.foldl (fun acc t => op.comb acc (h t)) (op.comb a c) = op.comb (L.foldl (fun acc t => op.comb acc (h t)) a) c := by
  induction L generalizing a with
  | nil => rfl
  | cons x xs ih =>
    simp only [List.foldl_cons]
    rw [← ih]
    congr 1
    rw [Op.comb_assoc, Op.comb_assoc, op.comb_comm c]

theorem foldl_upd_notin {w} (op : Op) (f : Nat → BitVec w) (t : Nat) (v : BitVec w) (L : List Nat) (a : BitVec w)
    (h : t ∉ L) :
    L.foldl (fun acc t' => op.comb acc (upd f t v t')) a = L.foldl (fun acc t' => op.comb acc (f t')) a := by
  induction L generalizing a with
  | nil => rfl
  | cons x xs ih =>
    have hx : x ≠ t := fun e => h (e ▸ List.mem_cons_self)
    have hxs : t ∉ xs := fun m => h (List.mem_cons_of_mem _ m)
    simp only [List.foldl_cons, upd_other f t v x hx]
    exact ih _ hxs

/-- adding `c` to the private copy of one thread adds `c` to the merged result, whatever the merge order -/
theorem foldl_upd_mem {w} (op : Op) (f : Nat → BitVec w) (t : Nat) (c : BitVec w) (L : List Nat) (a : BitVec w)
    (hnd : L.Nodup) (hm : t ∈ L) :
    L.foldl (fun acc t' => op.comb acc (upd f t (op.comb (f t) c) t')) a
      = op.comb (L.foldl (fun acc t' => op.comb acc (f t')) a) c := by
  induction L generalizing a with
  | nil => cases hm
  | cons x xs ih =>
    rw [List.nodup_cons] at hnd
    by_cases hx : x = t
    · subst hx
      simp only [List.foldl_cons, upd_same]
      rw [foldl_upd_notin op f x _ xs _ hnd.1, ← Op.comb_assoc, foldl_comb_shift]
    · have hm' : t ∈ xs := by
        rcases List.mem_cons.mp hm with h | h
        · exact absurd h.symm hx
        · exact h
      simp only [List.foldl_cons]
      rw [upd_other f t _ x hx]
      exact ih _ hnd.2 hm'

end CyVerif.C37

import CyVerif.Lemmas.C09Pool4
/-! C09 part B: soundness of the dedup key at the `get_py_const` call sites. -/
namespace CyVerif.C09

/-- the set keeps all items when they are pairwise different -/
theorem fset_keeps_all (v : Variant) (args : List Node) (k : Key) (xs : List Val)
    (hd : v.fsDistinct = true ∨ (Const.fset args).itemsDistinct = true)
    (hk : constKey v (.fset args) = some k) (he : evalNodes args = some xs) :
    dedupAux [] xs = xs := by
  apply dedup_of_distinct
  rcases hd with hfd | hid
  · simp only [constKey, hfd, if_true] at hk
    cases hks : nodeKeys v args with
    | none => simp [hks] at hk
    | some ks =>
      simp only [hks] at hk
      cases hcr : constResults args with
      | none => simp [hcr] at hk
      | some cr =>
        simp only [hcr] at hk
        have := constResults_eval args cr hcr
        rw [he] at this; injection this with this; subst this
        by_cases hdist : distinctAux [] xs = true
        · exact hdist
        · simp [hdist] at hk
  · simpa [Const.itemsDistinct, he] using hid

theorem fset_key (v : Variant) (args : List Node) (k : Key) (hk : constKey v (.fset args) = some k) :
    ∃ ks, nodeKeys v args = some ks ∧ k = .set .fset ks := by
  simp only [constKey] at hk
  cases hks : nodeKeys v args with
  | none => simp [hks] at hk
  | some ks =>
    refine ⟨ks, rfl, ?_⟩
    simp only [hks] at hk
    split at hk
    · cases hcr : constResults args with
      | none => simp [hcr] at hk
      | some cr =>
        simp only [hcr] at hk
        split at hk
        · exact (Option.some.inj hk).symm
        · exact absurd hk (by simp)
    · exact (Option.some.inj hk).symm

/-- Equal dedup keys ⇒ the two constants are indistinguishable, provided
(1) float leaves are keyed sign-aware, or the first constant has no float zero, and
(2) frozensets with `==`-equal items get no key, or both item lists are pairwise different. -/
theorem const_sound (v : Variant) (c1 c2 : Const) (k1 k2 : Key)
    (hw1 : c1.wf = true) (hw2 : c2.wf = true)
    (hz : v.floatSign = true ∨ c1.noZeroFloat = true)
    (hd : v.fsDistinct = true ∨ (c1.itemsDistinct = true ∧ c2.itemsDistinct = true))
    (h1 : constKey v c1 = some k1) (h2 : constKey v c2 = some k2) (he : keyEq k1 k2 = true) :
    ∃ x1 x2, evalConst c1 = some x1 ∧ evalConst c2 = some x2 ∧ same x1 x2 = true := by
  cases c1 with
  | tuple n1 =>
    cases n1 with
    | leaf t a => simp [Const.wf] at hw1
    | opq => simp [Const.wf] at hw1
    | slice a b c => simp [Const.wf] at hw1
    | seq k m args =>
      simp only [Const.wf] at hw1
      cases c2 with
      | tuple n2 =>
        cases n2 with
        | leaf t a => simp [Const.wf] at hw2
        | opq => simp [Const.wf] at hw2
        | slice a b c => simp [Const.wf] at hw2
        | seq k' m' args' =>
          simp only [Const.wf] at hw2
          exact node_sound v _ _ k1 k2 hw1 hw2 (by simpa [Const.noZeroFloat] using hz) h1 h2 he
      | slice n2 =>
        simp only [constKey, nodeKey] at h1 h2
        cases hks : nodeKeys v args with
        | none => simp [hks] at h1
        | some ks =>
          simp [hks] at h1; subst h1
          cases hk2 : nodeKey v n2 with
          | none => simp [hk2] at h2
          | some kk => simp [hk2] at h2; subst h2; simp [keyEq] at he
      | fset args2 =>
        obtain ⟨ks2, _, rfl⟩ := fset_key v args2 k2 h2
        simp only [constKey, nodeKey] at h1
        cases hks : nodeKeys v args with
        | none => simp [hks] at h1
        | some ks => simp [hks] at h1; subst h1; simp [keyEq] at he
  | slice n1 =>
    cases n1 with
    | leaf t a => simp [Const.wf] at hw1
    | opq => simp [Const.wf] at hw1
    | seq k m args => simp [Const.wf] at hw1
    | slice a b c =>
      simp only [Const.wf] at hw1
      simp only [constKey] at h1
      cases hk1 : nodeKey v (.slice a b c) with
      | none => simp [hk1] at h1
      | some kn1 =>
        simp [hk1] at h1; subst h1
        cases c2 with
        | tuple n2 =>
          cases n2 with
          | leaf t a => simp [Const.wf] at hw2
          | opq => simp [Const.wf] at hw2
          | slice a b c => simp [Const.wf] at hw2
          | seq k' m' args' =>
            simp only [constKey, nodeKey] at h2
            cases hks : nodeKeys v args' with
            | none => simp [hks] at h2
            | some ks => simp [hks] at h2; subst h2; simp [keyEq] at he
        | slice n2 =>
          cases n2 with
          | leaf t a => simp [Const.wf] at hw2
          | opq => simp [Const.wf] at hw2
          | seq k m args => simp [Const.wf] at hw2
          | slice a' b' c' =>
            simp only [Const.wf] at hw2
            simp only [constKey] at h2
            cases hk2 : nodeKey v (.slice a' b' c') with
            | none => simp [hk2] at h2
            | some kn2 =>
              simp [hk2] at h2; subst h2
              simp only [keyEq, keyEqL, Bool.and_eq_true] at he
              exact node_sound v _ _ kn1 kn2 hw1 hw2 (by simpa [Const.noZeroFloat] using hz) hk1 hk2 he.2.1
        | fset args2 =>
          obtain ⟨ks2, _, rfl⟩ := fset_key v args2 k2 h2
          simp [keyEq] at he
  | fset args1 =>
    obtain ⟨ks1, hks1, rfl⟩ := fset_key v args1 k1 h1
    cases c2 with
    | tuple n2 =>
      cases n2 with
      | leaf t a => simp [Const.wf] at hw2
      | opq => simp [Const.wf] at hw2
      | slice a b c => simp [Const.wf] at hw2
      | seq k' m' args' =>
        simp only [constKey, nodeKey] at h2
        cases hks : nodeKeys v args' with
        | none => simp [hks] at h2
        | some ks => simp [hks] at h2; subst h2; simp [keyEq] at he
    | slice n2 =>
      simp only [constKey] at h2
      cases hk2 : nodeKey v n2 with
      | none => simp [hk2] at h2
      | some kk => simp [hk2] at h2; subst h2; simp [keyEq] at he
    | fset args2 =>
      obtain ⟨ks2, hks2, rfl⟩ := fset_key v args2 k2 h2
      simp only [Const.wf] at hw1 hw2
      obtain ⟨xs1, he1⟩ := keys_eval v args1 ks1 hks1
      obtain ⟨xs2, he2⟩ := keys_eval v args2 ks2 hks2
      have hd1 := fset_keeps_all v args1 _ xs1 (hd.elim Or.inl (fun h => Or.inr h.1)) h1 he1
      have hd2 := fset_keeps_all v args2 _ xs2 (hd.elim Or.inl (fun h => Or.inr h.2)) h2 he2
      simp only [keyEq, Bool.and_eq_true, List.all_eq_true] at he
      obtain ⟨⟨_, hsub⟩, hsup⟩ := he
      have hz' : v.floatSign = true ∨ Node.noZeroFloats args1 = true := by
        simpa [Const.noZeroFloat] using hz
      have s1 := items_sub v args1 args2 ks1 ks2 xs1 xs2 hw1 hw2 hz' hks1 hks2 he1 he2
        ((keySub_iff ks1 ks2).mp hsub)
      have s2 := items_sup v args1 args2 ks1 ks2 xs1 xs2 hw1 hw2 hz' hks1 hks2 he1 he2
        (fun k2 hk2 => (keyAny_iff ks1 k2).mp (hsup k2 hk2))
      refine ⟨.fset xs1, .fset xs2, by simp [evalConst, he1, hd1], by simp [evalConst, he2, hd2], ?_⟩
      simp only [same, Bool.and_eq_true, List.all_eq_true]
      exact ⟨(sameSub_iff xs1 xs2).mpr s1, fun y hy => (sameAny_iff xs1 y).mpr (s2 y hy)⟩

end CyVerif.C09

import CyVerif.Lemmas.C06Bytes
/-! `float(str)` for non-ASCII strings: `__Pyx_PyUnicode_AsDouble_WithSpaces` against
`_PyUnicode_TransformDecimalAndSpaceToASCII` + the bytes route. -/
namespace CyVerif.C06

theorem gchar_lt {c : Nat} (h : gchar c = true) : c < 127 := by
  simp only [gchar, isDigit, isExp, isSign, lower, Bool.or_eq_true, Bool.and_eq_true, beq_iff_eq, decide_eq_true_eq] at h
  rcases h with ((((((((h | h) | h) | h) | h) | h) | h) | h) | h) | h
  · omega
  · omega
  · omega
  · omega
  all_goals (split at h <;> omega)

theorem gchar_big {c : Nat} (h : 128 ≤ c) : gchar c = false := by
  cases hg : gchar c with
  | false => rfl
  | true => have := gchar_lt hg; omega

/-- what the transformation does to one white-space character -/
def spaceMap (l : List Nat) : List Nat := l.map (fun c => if c < 127 then c else 32)

/-- hypotheses on the white-space test `pU` of the unicode path, relative to the characters of `s` -/
structure SpaceOK (T : UTab) (pU : Nat → Bool) (s : List Nat) : Prop where
  ascii : ∀ c ∈ s, c < 128 → pU c = true → isSpaceB c = true
  nonascii : ∀ c, 128 ≤ c → pU c = T.uspace.contains c
  conv : ∀ c, isSpaceB c = true → pU c = true

theorem spaceMap_spaces {T : UTab} {pU : Nat → Bool} {s l : List Nat} (ok : SpaceOK T pU s)
    (hsub : ∀ c ∈ l, c ∈ s) (hl : ∀ c ∈ l, pU c = true) : ∀ c ∈ spaceMap l, isSpaceB c = true := by
  intro c hc
  simp only [spaceMap, List.mem_map] at hc
  obtain ⟨b, hb, rfl⟩ := hc
  by_cases h : b < 127
  · simp only [h, if_true]
    exact ok.ascii b (hsub b hb) (by omega) (hl b hb)
  · simp only [h, if_false]; rfl

theorem transform_lead {T : UTab} {pU : Nat → Bool} {s l : List Nat} (ok : SpaceOK T pU s)
    (hsub : ∀ c ∈ l, c ∈ s) (hl : ∀ c ∈ l, pU c = true) (x : List Nat) :
    transform T (l ++ x) = spaceMap l ++ transform T x := by
  induction l with
  | nil => rfl
  | cons a as ih =>
    have iha := ih (fun c hc => hsub c (by simp [hc])) (fun c hc => hl c (by simp [hc]))
    simp only [List.cons_append, transform, spaceMap, List.map_cons]
    by_cases h : a < 127
    · simp only [h, if_true]
      rw [iha]; rfl
    · simp only [h, if_false]
      have hp := hl a (by simp)
      by_cases h128 : 128 ≤ a
      · rw [ok.nonascii a h128] at hp
        simp only [hp, if_true]
        rw [iha]; rfl
      · -- a = 127 is not a space
        have : a = 127 := by omega
        subst this
        have := ok.ascii 127 (hsub 127 (by simp)) (by omega) hp
        exact absurd this (by decide)

theorem transform_ascii (T : UTab) {r : List Nat} (hr : ∀ c ∈ r, c < 127) (x : List Nat) :
    transform T (r ++ x) = r ++ transform T x := by
  induction r with
  | nil => rfl
  | cons a as ih =>
    simp only [List.cons_append, transform, hr a (by simp), if_true]
    rw [ih (fun c hc => hr c (by simp [hc]))]

theorem transform_127 {T : UTab} (hT : T.WF) {x : List Nat} (hx : ∀ c ∈ x, c < 127) (y : List Nat) :
    transform T (x ++ 127 :: y) = x ++ [63] := by
  rw [transform_ascii T hx]
  congr 1
  simp only [transform, Nat.lt_irrefl, if_false]
  have h1 : ¬ 127 ∈ T.uspace := fun hc => by have := hT.1 127 hc; omega
  have h2 : T.decimal 127 = none := by
    unfold UTab.decimal
    have : T.zeros.find? (fun z => z ≤ 127 && 127 < z + 10) = none := by
      rw [List.find?_eq_none]
      intro z hz
      have := hT.2 z hz
      simp; omega
    rw [this]
  simp [h1, h2]

theorem split_first_127 {r : List Nat} (hle : ∀ c ∈ r, c ≤ 127) (hn : ¬ ∀ c ∈ r, c < 127) :
    ∃ x y, r = x ++ 127 :: y ∧ ∀ c ∈ x, c < 127 := by
  induction r with
  | nil => exact absurd (fun c hc => by simp at hc) hn
  | cons a as ih =>
    by_cases ha : a < 127
    · have hn' : ¬ ∀ c ∈ as, c < 127 := by
        intro h; apply hn
        intro c hc
        rcases List.mem_cons.1 hc with rfl | hc
        · exact ha
        · exact h c hc
      obtain ⟨x, y, hxy, hx⟩ := ih (fun c hc => hle c (by simp [hc])) hn'
      refine ⟨a :: x, y, by rw [hxy]; rfl, ?_⟩
      intro c hc
      rcases List.mem_cons.1 hc with rfl | hc
      · exact ha
      · exact hx c hc
    · have : a = 127 := by have := hle a (by simp); omega
      subst this
      exact ⟨[], as, rfl, by simp⟩

section region
variable {T : UTab} {pU : Nat → Bool} {s lead r tl : List Nat}

theorem decomp_sub (d : Decomp pU s lead r tl) :
    (∀ c ∈ lead, c ∈ s) ∧ (∀ c ∈ r, c ∈ s) ∧ (∀ c ∈ tl, c ∈ s) := by
  rw [d.eq]
  refine ⟨fun c hc => ?_, fun c hc => ?_, fun c hc => ?_⟩ <;> simp [hc]

theorem stopHead_uspaces (ok : SpaceOK T pU s) (d : Decomp pU s lead r tl) : StopHead tl := by
  intro c hc
  cases htl : tl with
  | nil => rw [htl] at hc; simp at hc
  | cons a as =>
    rw [htl] at hc; simp at hc; subst hc
    have hmem : a ∈ tl := by rw [htl]; simp
    by_cases h : a < 128
    · exact isSpaceB_stop (ok.ascii a ((decomp_sub d).2.2 a hmem) h (d.tl_sp a hmem))
    · exact gchar_big (by omega)

/-- when the region is plain ASCII, the transformed string has the same region between ASCII spaces -/
theorem uni_decomp_ascii (ok : SpaceOK T pU s) (d : Decomp pU s lead r tl) (hr : ∀ c ∈ r, c < 127) :
    transform T s = spaceMap lead ++ r ++ spaceMap tl ∧
    Decomp isSpaceB (spaceMap lead ++ r ++ spaceMap tl) (spaceMap lead) r (spaceMap tl) := by
  have hsub := decomp_sub d
  have e1 : transform T s = spaceMap lead ++ r ++ spaceMap tl := by
    rw [d.eq, List.append_assoc, transform_lead ok hsub.1 d.lead_sp, transform_ascii T hr]
    have := transform_lead ok hsub.2.2 d.tl_sp []
    simp only [List.append_nil] at this
    rw [this]; simp [transform]
  refine ⟨e1, rfl, spaceMap_spaces ok hsub.1 d.lead_sp, spaceMap_spaces ok hsub.2.2 d.tl_sp, d.ne, ?_, ?_⟩
  · intro c hc
    have := d.head c hc
    cases hsp : isSpaceB c with
    | false => rfl
    | true => rw [ok.conv c hsp] at this; exact absurd this (by simp)
  · cases hrc : r with
    | nil => exact absurd hrc d.ne
    | cons c cs =>
      have ht := d.trimmed
      rw [hrc, trimmed_cons_iff] at ht
      rw [trimmed_cons_iff]
      intro x hx
      have := ht x hx
      cases hsp : isSpaceB x with
      | false => rfl
      | true => rw [ok.conv x hsp] at this; exact absurd this (by simp)

theorem uni_special (ok : SpaceOK T pU s) (d : Decomp pU s lead r tl) {v : Num}
    (h : gate r tl = .special v) : pyBytes (transform T s) = .ok v := by
  have hf := gate_special h
  have hg := strtod_full hf
  obtain ⟨e, d'⟩ := uni_decomp_ascii ok d (fun c hc => gchar_lt (hg c hc))
  rw [e]
  exact py_whole d' hf

theorem uni_fast (ok : SpaceOK T pU s) (d : Decomp pU s lead r tl) {v : Num}
    (hf : strtod (stripUS r) = some ((stripUS r).length, v))
    (hds : cUS ∈ r → digitScan false false r = true) : pyBytes (transform T s) = .ok v := by
  have hg := strtod_full hf
  have hlt : ∀ c ∈ r, c < 127 := by
    intro c hc
    by_cases e : c = cUS
    · subst e; decide
    · exact gchar_lt (hg c (mem_stripUS.2 ⟨hc, e⟩))
  obtain ⟨e, d'⟩ := uni_decomp_ascii ok d hlt
  rw [e]
  by_cases hu : cUS ∈ r
  · exact py_full d' (hds hu) hu hf
  · have : stripUS r = r := stripUS_of_not_mem (fun c hc => by
      simp only [beq_eq_false_iff_ne, ne_eq]
      intro e; subst e; exact hu hc)
    rw [this] at hf
    exact py_whole d' hf

theorem uni_ve (hT : T.WF) (ok : SpaceOK T pU s) (d : Decomp pU s lead r tl)
    (hg : gate r tl = .numeric) (hle : ∀ c ∈ r, c ≤ 127) (hn : strtod (stripUS r) = none) :
    pyBytes (transform T s) = .err "ValueError" := by
  by_cases hlt : ∀ c ∈ r, c < 127
  · obtain ⟨e, d'⟩ := uni_decomp_ascii ok d hlt
    rw [e]
    obtain ⟨c, cs, hrc, hcu, _⟩ := gate_numeric_head hg (stopHead_uspaces ok d)
    by_cases hu : cUS ∈ r
    · exact py_none d' hrc hcu hu hn
    · have hs : stripUS r = r := stripUS_of_not_mem (fun c hc => by
        simp only [beq_eq_false_iff_ne, ne_eq]
        intro e; subst e; exact hu hc)
      rw [hs] at hn
      rw [py_nous d' (contains_false_of (fun c hc e => hu (e ▸ hc)))]
      unfold innerCheck
      rw [hn]
  · obtain ⟨x, y, hxy, hx⟩ := split_first_127 hle hlt
    have hsub := decomp_sub d
    rw [d.eq, List.append_assoc, transform_lead ok hsub.1 d.lead_sp, hxy, List.append_assoc,
      List.cons_append, transform_127 hT hx, ← List.append_assoc]
    exact pyBytes_question _

end region

/-- the character the inclusive copy loop reads after the region is a stop character, not `_` -/
theorem extra_stop {T : UTab} {pU : Nat → Bool} {s lead r tl : List Nat} (ok : SpaceOK T pU s)
    (d : Decomp pU s lead r tl) :
    gchar ((tl ++ [0]).headD 0) = false ∧ (tl ++ [0]).headD 0 ≠ cUS := by
  cases htl : tl with
  | nil => exact ⟨by decide, by decide⟩
  | cons a as =>
    have hst := stopHead_uspaces ok d
    rw [htl] at hst
    have hg : gchar a = false := hst a rfl
    refine ⟨hg, ?_⟩
    simp only [List.cons_append, List.headD_cons]
    intro e; subst e
    have hmem : cUS ∈ tl := by rw [htl]; simp
    have := ok.ascii cUS ((decomp_sub d).2.2 cUS hmem) (by decide) (d.tl_sp cUS hmem)
    exact absurd this (by decide)

/-- **non-ASCII str**: the compiled `float(s)` equals CPython's -/
theorem cyUni_eq (P : Params) (T : UTab) (s : List Nat) (hT : T.WF)
    (ok : SpaceOK T (isSpaceU P T) s)
    (H : P.uniInclusive = false →
      RuleSound P.ruleU (region (isSpaceU P T) (s.dropWhile (isSpaceU P T)))) :
    resolve (cyUni P T s) (pyBytes (transform T s)) = pyBytes (transform T s) := by
  unfold cyUni
  by_cases ha : s.dropWhile (isSpaceU P T) = []
  · simp [ha, resolve]
  · have d := decomp_of (isSpaceU P T) s ha
    simp only [if_neg ha]
    generalize hr : region (isSpaceU P T) (s.dropWhile (isSpaceU P T)) = r at *
    generalize htl : (s.dropWhile (isSpaceU P T)).drop r.length = tl at *
    have hst := stopHead_uspaces ok d
    cases hg : gate r tl with
    | special v => simp only [resolve]; exact (uni_special ok d hg).symm
    | fail => rfl
    | numeric =>
      simp only
      obtain ⟨a, as, hsa, haa⟩ := gate_numeric hg hst
      by_cases hok : uCopyOK P.ruleU (uniVisited P r tl) = true
      · simp only [hok, if_true]
        simp only [uCopyOK, Bool.and_eq_true, List.all_eq_true, decide_eq_true_eq] at hok
        obtain ⟨hall, hrule⟩ := hok
        cases hinc : P.uniInclusive with
        | false =>
          simp only [uniVisited, hinc, Bool.false_eq_true, if_false] at hall hrule ⊢
          unfold afterStrtod
          cases hs : strtod (stripUS r) with
          | none => simp only [resolve]; exact (uni_ve hT ok d hg hall hs).symm
          | some nv =>
            obtain ⟨n, v⟩ := nv
            by_cases hn : n = (stripUS r).length
            · subst hn
              simp only [if_true, resolve]
              have hd := strtod_dec (stripUS_gate_head hsa haa) haa hs
              exact (uni_fast ok d hs (fun _ => H hinc hrule hd)).symm
            · simp [hn, resolve]
        | true =>
          simp only [uniVisited, hinc, if_true] at hall hrule ⊢
          obtain ⟨hx1, hx2⟩ := extra_stop ok d
          generalize (tl ++ [0]).headD 0 = extra at *
          have hstrip : stripUS (r ++ [extra]) = stripUS r ++ [extra] := by
            rw [stripUS_append]; simp [stripUS, hx2]
          have hstop : StopHead [extra] := by
            intro c hc; simp at hc; subst hc; exact hx1
          rw [hstrip]
          unfold afterStrtod
          rw [strtod_append hstop]
          have hle : ∀ c ∈ r, c ≤ 127 := fun c hc => hall c (by simp [hc])
          cases hs : strtod (stripUS r) with
          | none => simp only [resolve]; exact (uni_ve hT ok d hg hle hs).symm
          | some nv =>
            obtain ⟨n, v⟩ := nv
            have := (strtod_take hs).1
            have hn : ¬ n = (stripUS r).length + 1 := by omega
            simp [hn, resolve]
      · simp [hok, resolve]

/-- with the inclusive loop the numeric fast path of the unicode function is dead code -/
theorem cyUni_inclusive_not_fast_numeric (P : Params) (T : UTab) (s : List Nat)
    (ok : SpaceOK T (isSpaceU P T) s) (hinc : P.uniInclusive = true) {v : Num}
    (h : cyUni P T s = .fast v) : ∃ neg, v = .inf neg ∨ v = .nan neg := by
  unfold cyUni at h
  by_cases ha : s.dropWhile (isSpaceU P T) = []
  · simp [ha] at h
  · have d := decomp_of (isSpaceU P T) s ha
    simp only [if_neg ha] at h
    generalize hr : region (isSpaceU P T) (s.dropWhile (isSpaceU P T)) = r at *
    generalize htl : (s.dropWhile (isSpaceU P T)).drop r.length = tl at *
    cases hg : gate r tl with
    | special w =>
      rw [hg] at h
      simp only [CyOut.fast.injEq] at h
      subst h
      -- the recogniser only returns inf / nan
      simp only [gate] at hg
      split at hg
      · simp at hg
      · split at hg
        · split at hg
          · simp at hg
          · split at hg
            · simp at hg; exact ⟨_, Or.inr hg.symm⟩
            · simp at hg
        · split at hg
          · split at hg
            · simp at hg
            · split at hg
              · simp at hg; exact ⟨_, Or.inl hg.symm⟩
              · split at hg
                · simp at hg
                · split at hg
                  · simp at hg; exact ⟨_, Or.inl hg.symm⟩
                  · simp at hg
          · split at hg <;> simp at hg
    | fail => rw [hg] at h; simp at h
    | numeric =>
      exfalso
      rw [hg] at h
      simp only at h
      split at h
      · simp only [uniVisited, hinc, if_true] at h
        obtain ⟨hx1, hx2⟩ := extra_stop ok d
        generalize (tl ++ [0]).headD 0 = extra at *
        have hstrip : stripUS (r ++ [extra]) = stripUS r ++ [extra] := by
          rw [stripUS_append]; simp [stripUS, hx2]
        have hstop : StopHead [extra] := by
          intro c hc; simp at hc; subst hc; exact hx1
        rw [hstrip] at h
        unfold afterStrtod at h
        rw [strtod_append hstop] at h
        cases hs : strtod (stripUS r) with
        | none => rw [hs] at h; simp at h
        | some nv =>
          obtain ⟨n, w⟩ := nv
          rw [hs] at h
          have := (strtod_take hs).1
          have hn : ¬ n = (stripUS r).length + 1 := by omega
          simp [hn] at h
      · simp at h

import CyVerif.Lemmas.C05Main
/-!
Composition: `__Pyx_PyULong_…`, `__Pyx_PySLong_…`, the compact paths, `__Pyx_PyLong_…`,
`__Pyx_PyLong_AsSsize_t`, `CIntToPy`.
-/
namespace CyVerif.C05

theorem PyLong.WF.digitsOK {S : Nat} {p : PyLong} (h : p.WF S) : DigitsOK S p.digits := ⟨h.1, h.2.1⟩

theorem value_nonneg {S : Nat} {p : PyLong} (h : p.neg = false) : p.value S = (natVal S p.digits : Int) := by
  simp [PyLong.value, h]

theorem value_neg {S : Nat} {p : PyLong} (h : p.neg = true) : p.value S = - (natVal S p.digits : Int) := by
  simp [PyLong.value, h]

theorem spec_of_neg_unsigned {t : CTy} (hs : t.signed = false) {v : Int} (hv : v < 0) :
    spec t v = .err "OverflowError" := by
  have : ¬ t.inRange v := by rw [inRange_unsigned hs]; omega
  simp [spec, this]

section
variable {P : Plat} (hP : P.WF)
include hP

theorem pyULong_spec (cfg : Cfg) (tm : Tmpl) {t : CTy} (ht : 0 < t.bytes) (hs : t.signed = false) (isEnum : Bool)
    (hL : LargeOK P cfg t isEnum) {p : PyLong} (hp : p.WF P.shift)
    (hi : cfg.internals = true → p.neg = false ∧ p.digits ≠ []) :
    (pyULong P cfg tm t isEnum p).out t = spec t (p.value P.shift) := by
  unfold pyULong
  cases hint : cfg.internals with
  | true =>
    obtain ⟨hneg, hne⟩ := hi hint
    simp only [if_true]
    rw [value_nonneg hneg]
    cases hm : digitsU P t p.digits tm.sizesU with
    | some r => exact digitsU_spec hP ht hs hp.digitsOK hne _ r hm
    | none => exact apiU_spec cfg ht hs isEnum hL _
  | false =>
    simp only [Bool.false_eq_true, if_false]
    by_cases hv : p.value P.shift < 0
    · simp only [hv, if_true]; rw [out_neg_overflow, spec_of_neg_unsigned hs hv]
    · simp only [hv, if_false]; exact apiU_spec cfg ht hs isEnum hL _

theorem pySLong_spec (cfg : Cfg) (tm : Tmpl) {t : CTy} (ht : 0 < t.bytes) (hs : t.signed = true) (isEnum : Bool)
    (hL : LargeOK P cfg t isEnum) {p : PyLong} (hp : p.WF P.shift)
    (hi : cfg.internals = true → p.digits ≠ []) :
    (pySLong P cfg tm t isEnum p).out t = spec t (p.value P.shift) := by
  unfold pySLong
  cases hint : cfg.internals with
  | true =>
    have hne := hi hint
    simp only [if_true]
    cases hneg : p.neg with
    | true =>
      simp only [if_true]
      cases hm : digitsSNeg P t p.digits tm.sizesSNeg with
      | some r => rw [value_neg hneg]; exact digitsSNeg_spec hP ht hs hp.digitsOK hne _ r hm
      | none => exact apiS_spec cfg ht hs isEnum hL _
    | false =>
      simp only [Bool.false_eq_true, if_false]
      cases hm : digitsSPos P t p.digits tm.sizesSPos with
      | some r => rw [value_nonneg hneg]; exact digitsSPos_spec hP ht hs hp.digitsOK hne _ r hm
      | none => exact apiS_spec cfg ht hs isEnum hL _
  | false =>
    simp only [Bool.false_eq_true, if_false]
    exact apiS_spec cfg ht hs isEnum hL _

omit hP in
/-- one digit (or none): the value is the digit with the sign -/
theorem compact_digit {p : PyLong} (hp : p.WF P.shift) (hlen : p.digits.length < 2) :
    (natVal P.shift p.digits : Int) = (p.digit0 : Int) ∧ (p.digit0 : Int) < two P.shift ∧
    (p.digits = [] → p.digit0 = 0) := by
  match hd : p.digits, hlen with
  | [], _ => simp [PyLong.digit0, hd, natVal, two_pos]
  | [d], _ =>
    have : d < 2 ^ P.shift := hp.1 d (by simp [hd])
    simp [PyLong.digit0, hd, natVal]
    exact natCast_lt_two this

theorem compactU_spec {t : CTy} (ht : 0 < t.bytes) (hs : t.signed = false) {p : PyLong} (hp : p.WF P.shift)
    (hneg : p.neg = false) (hlen : p.digits.length < 2) (path : String) :
    (verify t P.tSize true false (p.digit0 : Int) none path).out t = spec t (p.value P.shift) := by
  obtain ⟨h1, h2, _⟩ := compact_digit hp hlen
  rw [value_nonneg hneg, h1]
  have hle : two P.shift ≤ two P.tSize.bits := two_le_two (by
    have := hP; unfold Plat.WF at this; simp [Plat.tSize, CTy.bits]; omega)
  exact verify_same ht (P_size_pos hP) (by simp [hs, Plat.tSize])
    (by rw [inRange_unsigned (by simp [Plat.tSize])]; omega) _ _ _

theorem compactValue_spec {p : PyLong} (hp : p.WF P.shift) (hlen : p.digits.length < 2) :
    compactValue P p = .ok (p.value P.shift) ∧ P.tSsize.inRange (p.value P.shift) := by
  obtain ⟨h1, h2, h3⟩ := compact_digit hp hlen
  have hsz := P_size_pos hP
  have hsg : P.tSsize.signed = true := by simp [Plat.tSsize]
  have hle : 2 * two P.shift ≤ two (P.tSsize.bits - 1) := two_double_le (by
    have := hP; unfold Plat.WF at this; simp [Plat.tSsize, CTy.bits]; omega)
  have hp2 := two_pos P.shift
  have hrd : P.tSsize.inRange (p.digit0 : Int) := by rw [inRange_signed hsg]; omega
  have hval : p.value P.shift = (if p.digits = [] then 0 else if p.neg then -1 else 1) * (p.digit0 : Int) := by
    unfold PyLong.value
    by_cases he : p.digits = []
    · have := h3 he; simp [he, natVal, this]
    · rw [h1]; cases p.neg <;> simp [he]
  have hrs : P.tSsize.inRange (if p.digits = [] then (0 : Int) else if p.neg then -1 else 1) := by
    rw [inRange_signed hsg]; split
    · omega
    · split <;> omega
  have hrv : P.tSsize.inRange (p.value P.shift) := by
    rw [hval, inRange_signed hsg]
    split
    · omega
    · split <;> omega
  refine ⟨?_, hrv⟩
  unfold compactValue mul
  simp only [hsg, if_true, cast_of_inRange hsz hrs, cast_of_inRange hsz hrd, ← hval, hrv]

theorem compactS_spec {t : CTy} (ht : 0 < t.bytes) (hs : t.signed = true) {p : PyLong} (hp : p.WF P.shift)
    (hlen : p.digits.length < 2) :
    (ofE "S/compact" do
        let cv ← compactValue P p
        return verify t P.tSsize false false cv none "S/compact").out t = spec t (p.value P.shift) := by
  obtain ⟨h1, h2⟩ := compactValue_spec hP hp hlen
  rw [h1]
  simp only [bind, Except.bind, pure, Except.pure, ofE]
  exact verify_same ht (P_size_pos hP) (by simp [hs, Plat.tSsize]) h2 _ _ _

/-- `__Pyx_PyLong_{{FROM_PY_FUNCTION}}` is the specification, in every configuration. -/
theorem fromPyLong_spec (cfg : Cfg) (tm : Tmpl) {t : CTy} (ht : 0 < t.bytes) (isEnum : Bool)
    (hL : LargeOK P cfg t isEnum) {p : PyLong} (hp : p.WF P.shift) :
    (fromPyLong P cfg tm t isEnum p).out t = spec t (p.value P.shift) := by
  unfold fromPyLong
  rw [isUnsigned_eq ht]
  cases hs : t.signed with
  | false =>
    simp only [Bool.not_false, if_true]
    cases hint : cfg.internals with
    | false =>
      simp only [Bool.false_eq_true, if_false]
      exact pyULong_spec hP cfg tm ht hs isEnum hL hp (by simp [hint])
    | true =>
      simp only [if_true]
      cases hneg : p.neg with
      | true =>
        simp only [if_true]
        have hne := hp.2.2 hneg
        have := hp.digitsOK.val_pos hne
        rw [out_neg_overflow, spec_of_neg_unsigned hs (by rw [value_neg hneg]; omega)]
      | false =>
        simp only [Bool.false_eq_true, if_false]
        by_cases hlen : p.digits.length < 2
        · simp only [hlen, if_true]; exact compactU_spec hP ht hs hp hneg hlen _
        · simp only [hlen, if_false]
          exact pyULong_spec hP cfg tm ht hs isEnum hL hp
            (fun _ => ⟨hneg, by intro h; rw [h] at hlen; simp at hlen⟩)
  | true =>
    simp only [Bool.not_true, Bool.false_eq_true, if_false]
    cases hint : cfg.internals with
    | false =>
      simp only [Bool.false_eq_true, if_false]
      exact pySLong_spec hP cfg tm ht hs isEnum hL hp (by simp [hint])
    | true =>
      simp only [if_true]
      by_cases hlen : p.digits.length < 2
      · simp only [hlen, if_true]; exact compactS_spec hP ht hs hp hlen
      · simp only [hlen, if_false]
        exact pySLong_spec hP cfg tm ht hs isEnum hL hp
          (fun _ => by intro h; rw [h] at hlen; simp at hlen)

/-! ### `__Pyx_PyLong_AsSsize_t` -/

theorem ssizeGo_spec {ds : List Nat} (hd : DigitsOK P.shift ds) (hne : ds ≠ []) :
    ∀ (ns : List Nat) (ej : E Int), ssizeGo P ds ns = some ej →
      ej = .ok (natVal P.shift ds : Int) ∧ ds.length * P.shift < P.tSize.bits := by
  intro ns
  induction ns with
  | nil => intro ej h; simp [ssizeGo] at h
  | cons n ns ih =>
    intro ej h
    unfold ssizeGo at h
    by_cases h1 : P.tSize.bits > n * P.shift
    · simp only [h1, if_true] at h
      by_cases h2 : ds.length = n
      · subst h2
        simp only [if_true, Option.some.injEq] at h
        have hj := pylongJoin_spec P P.tSize ds hP.1 hne hd.lt (by simp [CTy.cap, Plat.tSize] at *; omega)
          (by have := hP; unfold Plat.WF at this; simp [Plat.tSize]; omega) (P_size_pos hP)
        rw [hj] at h
        have hvlt := hd.val_lt
        have hle : two (ds.length * P.shift) ≤ two (P.tSsize.bits - 1) := two_le_two (by
          have : P.tSsize.bits = P.tSize.bits := rfl
          omega)
        have hr : P.tSsize.inRange (natVal P.shift ds : Int) := by
          rw [inRange_signed (by simp [Plat.tSsize])]; omega
        subst h
        simp [bind, Except.bind, pure, Except.pure, cast_of_inRange (t := P.tSsize) (P_size_pos hP) hr]
        omega
      · simp only [h2, if_false] at h; exact ih ej h
    · simp only [h1, if_false] at h; exact ih ej h

theorem asSsize_spec (cfg : Cfg) (tm : Tmpl) {p : PyLong} (hp : p.WF P.shift) :
    (asSsize P cfg tm p).out P.tSsize = spec P.tSsize (p.value P.shift) := by
  have hsz := P_size_pos hP
  have hsg : P.tSsize.signed = true := by simp [Plat.tSsize]
  have hapi : (R.ret (apiAs P.tSsize (p.value P.shift)).1 (apiAs P.tSsize (p.value P.shift)).2 "ssize/api").out P.tSsize
      = spec P.tSsize (p.value P.shift) := by
    unfold apiAs spec
    by_cases hr : P.tSsize.inRange (p.value P.shift) <;> simp [hr, R.out]
  unfold asSsize
  cases hint : cfg.internals with
  | false => simpa using hapi
  | true =>
    simp only [if_true]
    by_cases h0 : p.digits.length = 0
    · have hnil : p.digits = [] := List.length_eq_zero_iff.mp h0
      have hv : p.value P.shift = 0 := by unfold PyLong.value; simp [hnil, natVal]
      have hp2 := two_pos (P.tSsize.bits - 1)
      have hr : P.tSsize.inRange 0 := by rw [inRange_signed hsg]; omega
      simp [h0, hv, R.out, spec, hr]
    · simp only [h0, if_false]
      have hne : p.digits ≠ [] := fun h => h0 (by simp [h])
      cases hm : ssizeGo P p.digits tm.sizesSsize with
      | none => simpa using hapi
      | some ej =>
        obtain ⟨hej, hlt⟩ := ssizeGo_spec hP hp.digitsOK hne _ ej hm
        subst hej
        have hvlt := hp.digitsOK.val_lt
        have hle : two (p.digits.length * P.shift) ≤ two (P.tSsize.bits - 1) := two_le_two (by
          have : P.tSsize.bits = P.tSize.bits := rfl
          omega)
        cases hneg : p.neg with
        | true =>
          have hr : P.tSsize.inRange (-(natVal P.shift p.digits : Int)) := by rw [inRange_signed hsg]; omega
          simp [bind, Except.bind, pure, Except.pure, ofE, neg, hsg, hr, R.out, spec, value_neg hneg]
        | false =>
          have hr : P.tSsize.inRange (natVal P.shift p.digits : Int) := by rw [inRange_signed hsg]; omega
          simp [bind, Except.bind, pure, Except.pure, ofE, hr, R.out, spec, value_nonneg hneg]

/-! ### `CIntToPy` -/

theorem toPy_spec {t : CTy} (ht : 0 < t.bytes) {v : Int} (hv : t.inRange v) : (toPy P t v).1 = v := by
  have hl := P_long_pos hP
  have hll := P_ll_pos hP
  unfold toPy
  rw [isUnsigned_eq ht]
  cases hs : t.signed with
  | false =>
    simp only [Bool.not_false, if_true]
    rw [inRange_unsigned hs] at hv
    by_cases h1 : t.bytes < P.longBytes
    · simp only [h1, if_true]
      have hle : two t.bits ≤ two (P.tLong.bits - 1) := two_le_two (by
        have := bits_lt (t := t) (f := P.tLong) h1; omega)
      exact cast_of_inRange hl (by rw [inRange_signed (by simp [Plat.tLong])]; omega)
    · simp only [h1, if_false]
      by_cases h2 : t.bytes ≤ P.longBytes
      · simp only [h2, if_true]
        have hle : two t.bits ≤ two P.tULong.bits := two_le_two (bits_le (f := P.tULong) h2)
        exact cast_of_inRange hl (by rw [inRange_unsigned (by simp [Plat.tULong])]; omega)
      · simp only [h2, if_false]
        by_cases h3 : t.bytes ≤ P.llBytes
        · simp only [h3, if_true]
          have hle : two t.bits ≤ two P.tULL.bits := two_le_two (bits_le (f := P.tULL) h3)
          exact cast_of_inRange hll (by rw [inRange_unsigned (by simp [Plat.tULL])]; omega)
        · simp only [h3, if_false]
          have : (⟨t.bytes, false⟩ : CTy) = t := by cases t; simp_all
          rw [this]; exact fromBytes_toBytes ht (by rw [inRange_unsigned hs]; exact hv)
  | true =>
    simp only [Bool.not_true, Bool.false_eq_true, if_false]
    by_cases h2 : t.bytes ≤ P.longBytes
    · simp only [h2, if_true]
      exact cast_of_inRange hl (inRange_mono (f := P.tLong) (by simp [hs, Plat.tLong]) h2 hv)
    · simp only [h2, if_false]
      by_cases h3 : t.bytes ≤ P.llBytes
      · simp only [h3, if_true]
        exact cast_of_inRange hll (inRange_mono (f := P.tLL) (by simp [hs, Plat.tLL]) h3 hv)
      · simp only [h3, if_false]
        have : (⟨t.bytes, true⟩ : CTy) = t := by cases t; simp_all
        rw [this]; exact fromBytes_toBytes ht hv

end

end CyVerif.C05

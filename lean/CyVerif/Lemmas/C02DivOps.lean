import CyVerif.Lemmas.C02Div
import CyVerif.Lemmas.C02Arith
/-!
C02: `%` and `//` of `__Pyx_Unpacked_…` (both operand orders, with and without the zero-division test).
-/
namespace CyVerif.C02
open CyVerif.C05

/-- Python's outcome for `a % b` / `a // b` with exact result `r`, or deferral to CPython. -/
def DivRight (_a b r : Int) (o : Out) : Prop :=
  IsFallback o ∨ (b ≠ 0 ∧ o = .int r) ∨ (b = 0 ∧ o = .err "ZeroDivisionError")

theorem max_cases (n : Nat) : max n 31 = n ∨ max n 31 = 31 := by omega

theorem divops_aux (P : Plat) (hP : PlatOK P) (cfg : Cfg) (op : Op) (hop : op = .rem ∨ op = .fdiv) (ord : Order)
    (p : PyLong) (hwf : p.WF P.shift) (c : Int) (hc : CBnd c) (zc : Bool) (hadm : ord = .objC → c ≠ 0) :
    DivRight (opA ord (p.value P.shift) c) (opB ord (p.value P.shift) c)
      (if op = .rem then (opA ord (p.value P.shift) c).fmod (opB ord (p.value P.shift) c)
        else (opA ord (p.value P.shift) c).fdiv (opB ord (p.value P.shift) c))
      (unpacked P cfg op ord p c zc) := by
  have hP' := hP
  obtain ⟨hS, hi0, hiL, hL4, hLLL, hLL8, hSL, hSLL⟩ := hP'
  have hex : extra op = 0 := by rcases hop with h | h <;> subst h <;> rfl
  have key : ∀ (t : CTy), t.signed = true → 0 < t.bytes → ∀ v n, v ≠ 0 → Bnd n v → n + 2 ≤ t.bits → 32 ≤ t.bits →
      (if op = .rem then cRemainder t (opA ord v c) (opB ord v c) else cFloorDivide t (opA ord v c) (opB ord v c))
        = .ok (.int (if op = .rem then (opA ord v c).fmod (opB ord v c) else (opA ord v c).fdiv (opB ord v c))) := by
    intro t hs hb v n hv0 hb1 hn h32
    have hbv : Bnd (max n 31) v := bnd_mono hb1 (by omega)
    have hbc : Bnd (max n 31) c := bnd_mono (cbnd_bnd hc) (by omega)
    have hm : max n 31 + 1 ≤ t.bits := by omega
    cases ord
    · have hc0 := hadm rfl
      simp only [opA, opB]
      split
      · exact cRemainder_spec hs hb hbv hbc hm hc0
      · exact cFloorDivide_spec hs hb hbv hbc hm hc0
    · simp only [opA, opB]
      split
      · exact cRemainder_spec hs hb hbc hbv hm hv0
      · exact cFloorDivide_spec hs hb hbc hbv hm hv0
  apply unpacked_frame P hP cfg op ord p hwf c zc
    (fun o => DivRight (opA ord (p.value P.shift) c) (opB ord (p.value P.shift) c)
      (if op = .rem then (opA ord (p.value P.shift) c).fmod (opB ord (p.value P.shift) c)
        else (opA ord (p.value P.shift) c).fdiv (opB ord (p.value P.shift) c)) o)
  · intro hz o ho
    rw [value_zero hz]
    cases ord
    · have hc0 := hadm rfl
      rcases hop with h | h <;> subst h <;> simp [zeroCase] at ho <;> subst ho <;>
        exact .inr (.inl ⟨by simpa [opB] using hc0, by simp [opA, opB]⟩)
    · rcases hop with h | h <;> subst h <;> simp [zeroCase] at ho <;> obtain ⟨_, ho⟩ := ho <;> subst ho <;>
        exact .inr (.inr ⟨by simp [opB], rfl⟩)
  · exact .inl ⟨_, rfl⟩
  · intro h; rcases hop with h' | h' <;> rw [h'] at h <;> cases h
  · intro v n hv _ hv0 hb h1 _
    subst hv
    have hk := key P.tLong rfl (by show 0 < P.longBytes; omega) _ n hv0 hb (by rw [tLong_bits]; omega) (by rw [tLong_bits]; omega)
    have hb0 : opB ord (p.value P.shift) c ≠ 0 := by
      cases ord
      · exact hadm rfl
      · exact hv0
    refine .inr (.inl ⟨hb0, ?_⟩)
    rcases hop with h | h <;> subst h <;> simp only [calcLong] <;> simp at hk <;> rw [hk] <;> simp [ofE]
  · intro v n hv _ hv0 hb h2 _
    subst hv
    rw [hex] at h2
    have hk := key P.tLL rfl (by show 0 < P.llBytes; omega) _ n hv0 hb (by rw [tLL_bits]; omega) (by rw [tLL_bits]; omega)
    have hb0 : opB ord (p.value P.shift) c ≠ 0 := by
      cases ord
      · exact hadm rfl
      · exact hv0
    refine .inr (.inl ⟨hb0, ?_⟩)
    rcases hop with h | h <;> subst h <;> simp only [calcLL] <;> simp at hk <;> rw [hk] <;> simp [ofE]

theorem rem_raw (P : Plat) (hP : PlatOK P) (cfg : Cfg) (ord : Order) (p : PyLong) (hwf : p.WF P.shift)
    (c : Int) (hc : CBnd c) (zc : Bool) (hadm : ord = .objC → c ≠ 0) :
    DivRight (opA ord (p.value P.shift) c) (opB ord (p.value P.shift) c)
      ((opA ord (p.value P.shift) c).fmod (opB ord (p.value P.shift) c)) (unpacked P cfg .rem ord p c zc) := by
  have := divops_aux P hP cfg .rem (.inl rfl) ord p hwf c hc zc hadm
  simpa using this

theorem fdiv_raw (P : Plat) (hP : PlatOK P) (cfg : Cfg) (ord : Order) (p : PyLong) (hwf : p.WF P.shift)
    (c : Int) (hc : CBnd c) (zc : Bool) (hadm : ord = .objC → c ≠ 0) :
    DivRight (opA ord (p.value P.shift) c) (opB ord (p.value P.shift) c)
      ((opA ord (p.value P.shift) c).fdiv (opB ord (p.value P.shift) c)) (unpacked P cfg .fdiv ord p c zc) := by
  have := divops_aux P hP cfg .fdiv (.inr rfl) ord p hwf c hc zc hadm
  simpa using this

end CyVerif.C02

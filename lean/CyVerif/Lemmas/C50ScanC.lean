import CyVerif.Lemmas.C50ScanB
/-! Scanner loop, part C: the cursor (`cur_pos`, `next_pos`, `cur_char`, `input_state`) and the text. -/
namespace CyVerif.C50

/-- consistency of the scanner fields with the text -/
def CursorOK (text : List Nat) (c : Cursor) : Prop :=
  (c.inputState = 1 ∧ c.curChar = .bol ∧ c.nextPos = c.curPos ∧ c.curPos ≤ text.length) ∨
  (c.inputState = 1 ∧ ∃ ch, c.curChar = .chr ch ∧ ch ≠ 10 ∧ text[c.curPos]? = some ch ∧ c.nextPos = c.curPos + 1) ∨
  (c.inputState = 2 ∧ c.curChar = .eol ∧ text[c.curPos]? = some 10 ∧ c.nextPos = c.curPos + 1) ∨
  (c.inputState = 3 ∧ c.curChar = .chr 10 ∧ text[c.curPos]? = some 10 ∧ c.nextPos = c.curPos + 1) ∨
  (c.inputState = 4 ∧ c.curChar = .eol ∧ c.nextPos = c.curPos ∧ c.curPos = text.length) ∨
  (c.inputState = 5 ∧ (c.curChar = .eof ∨ c.curChar = .empty) ∧ c.nextPos = c.curPos ∧ c.curPos = text.length)

theorem cursorOK_init (text : List Nat) : CursorOK text Cursor.init := by
  left; simp [Cursor.init]

theorem getElem?_lt {text : List Nat} {p ch : Nat} (h : text[p]? = some ch) : p < text.length := by
  rcases List.getElem?_eq_some_iff.1 h with ⟨h', _⟩; exact h'

/-- reading from position `p` in input state 1 -/
theorem nextChar_state1 (text : List Nat) (c : Cursor) (h1 : c.inputState = 1) (hp : c.nextPos ≤ text.length) :
    CursorOK text (nextChar text c) ∧ (nextChar text c).curPos = c.nextPos := by
  unfold nextChar
  simp only [h1, if_true]
  cases hg : text[c.nextPos]? with
  | none =>
    have : text.length ≤ c.nextPos := by
      by_cases hlt : c.nextPos < text.length
      · rw [List.getElem?_eq_getElem hlt] at hg; cases hg
      · omega
    refine ⟨?_, rfl⟩
    right; right; right; right; left
    simp; omega
  | some ch =>
    by_cases h10 : ch = 10
    · subst h10
      refine ⟨?_, by simp⟩
      right; right; left
      simp [hg]
    · refine ⟨?_, by simp [h10]⟩
      right; left
      simp [h10, hg]

/-- one `next_char()`: the cursor stays consistent; `cur_pos` advances exactly over a character symbol -/
theorem nextChar_ok (text : List Nat) (c : Cursor) (h : CursorOK text c) (hne : c.curChar ≠ .empty) :
    CursorOK text (nextChar text c) ∧
    ((∃ ch, c.curChar = .chr ch ∧ text[c.curPos]? = some ch ∧ (nextChar text c).curPos = c.curPos + 1) ∨
     ((∀ ch, c.curChar ≠ .chr ch) ∧ (nextChar text c).curPos = c.curPos)) := by
  rcases h with ⟨h1, h2, h3, h4⟩ | ⟨h1, ch, h2, h3, h4, h5⟩ | ⟨h1, h2, h3, h4⟩ | ⟨h1, h2, h3, h4⟩ |
    ⟨h1, h2, h3, h4⟩ | ⟨h1, h2, h3, h4⟩
  · obtain ⟨a, b⟩ := nextChar_state1 text c h1 (by omega)
    exact ⟨a, .inr ⟨by rw [h2]; simp, by rw [b, h3]⟩⟩
  · obtain ⟨a, b⟩ := nextChar_state1 text c h1 (by have := getElem?_lt h4; omega)
    exact ⟨a, .inl ⟨ch, h2, h4, by rw [b, h5]⟩⟩
  · refine ⟨?_, .inr ⟨by rw [h2]; simp, by simp [nextChar, h1]⟩⟩
    right; right; right; left
    simp [nextChar, h1, h3, h4]
  · refine ⟨?_, .inl ⟨10, h2, h3, by simp [nextChar, h1, h4]⟩⟩
    left
    have := getElem?_lt h3
    simp [nextChar, h1, h4]; omega
  · refine ⟨?_, .inr ⟨by rw [h2]; simp, by simp [nextChar, h1]⟩⟩
    right; right; right; right; right
    simp [nextChar, h1, h3, h4]
  · rcases h2 with h2 | h2
    · refine ⟨?_, .inr ⟨by rw [h2]; simp, by simp [nextChar, h1]⟩⟩
      right; right; right; right; right
      simp [nextChar, h1, h3, h4]
    · exact absurd h2 hne

theorem cursorOK_pos {text : List Nat} {c : Cursor} (h : CursorOK text c) : c.curPos ≤ text.length := by
  rcases h with ⟨_, _, _, h4⟩ | ⟨_, ch, _, _, h4, _⟩ | ⟨_, _, h3, _⟩ | ⟨_, _, h3, _⟩ | ⟨_, _, _, h4⟩ | ⟨_, _, _, h4⟩
  · exact h4
  · have := getElem?_lt h4; omega
  · have := getElem?_lt h3; omega
  · have := getElem?_lt h3; omega
  · omega
  · omega

/-- the characters among a list of symbols -/
def charsOf : List CurChar → List Nat
  | [] => []
  | .chr ch :: r => ch :: charsOf r
  | _ :: r => charsOf r

/-- after `k` symbols of the stream the cursor is consistent and `cur_pos` has advanced over exactly the
characters among those symbols -/
theorem nextN_chars (text : List Nat) (k : Nat) : ∀ c, CursorOK text c → k ≤ (evStream text c).length →
    CursorOK text (nextN text k c) ∧ c.curPos ≤ (nextN text k c).curPos ∧
    charsOf ((evStream text c).take k) = (text.drop c.curPos).take ((nextN text k c).curPos - c.curPos) ∧
    evStream text (nextN text k c) = (evStream text c).drop k := by
  induction k with
  | zero => intro c h _; simp [nextN, charsOf, h]
  | succ k ih =>
    intro c h hk
    rw [evStream_eq text c] at hk ⊢
    by_cases hne : c.curChar = .empty
    · simp [hne] at hk
    · simp only [hne, if_false, List.length_cons, Nat.add_le_add_iff_right] at hk
      simp only [hne, if_false, List.take_succ_cons, List.drop_succ_cons, nextN]
      obtain ⟨ok1, hstep⟩ := nextChar_ok text c h hne
      obtain ⟨a, b, e, f⟩ := ih (nextChar text c) ok1 hk
      refine ⟨a, ?_, ?_, f⟩
      · rcases hstep with ⟨_, _, _, hp⟩ | ⟨_, hp⟩ <;> omega
      · rcases hstep with ⟨ch, hc, ht, hp⟩ | ⟨hc, hp⟩
        · rw [hc]
          simp only [charsOf, e]
          have hlt := getElem?_lt ht
          rw [List.drop_eq_getElem_cons hlt]
          have : (nextN text k (nextChar text c)).curPos - c.curPos
              = ((nextN text k (nextChar text c)).curPos - (nextChar text c).curPos) + 1 := by omega
          rw [this, List.take_succ_cons, hp]
          have hv : text[c.curPos] = ch := by
            rw [List.getElem?_eq_getElem hlt] at ht; simpa using ht
          rw [hv]
        · have : charsOf (c.curChar :: List.take k (evStream text (nextChar text c)))
              = charsOf (List.take k (evStream text (nextChar text c))) := by
            cases hcc : c.curChar with
            | chr ch => exact absurd hcc (hc ch)
            | _ => rfl
          rw [this, e, hp]

end CyVerif.C50

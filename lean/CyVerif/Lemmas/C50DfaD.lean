import CyVerif.Lemmas.C50DfaC
/-! Subset construction, part D: `StateMap.old_to_new`, `FastMachine.add_transitions`. -/
namespace CyVerif.C50

def freshD (a : Option Nat) : DState := ⟨[], none, none, none, none, a⟩

def SMap.key (sm : SMap) (q : Nat) : SSet := (sm.keys[q]?).getD []

/-- the old-state set of an optional new state (`None` stands for the empty set) -/
def SMap.keyOf (sm : SMap) : Option Nat → SSet
  | none => []
  | some q => sm.key q

def DState.spGet (st : DState) : Sp → Option Nat
  | .bol => st.bol
  | .eol => st.eol
  | .eof => st.eof
  | .eps => none

theorem modifyNth_get {α} (f : α → α) (q : Nat) (l : List α) (p : Nat) :
    (modifyNth f q l)[p]? = if p = q then (l[p]?).map f else l[p]? := by
  induction l generalizing q p with
  | nil => cases q <;> simp [modifyNth]
  | cons x xs ih =>
    cases q with
    | zero =>
      cases p with
      | zero => simp [modifyNth]
      | succ p => simp [modifyNth]
    | succ q =>
      cases p with
      | zero => simp [modifyNth]
      | succ p => simp [modifyNth, ih]

theorem modifyNth_length {α} (f : α → α) (q : Nat) (l : List α) : (modifyNth f q l).length = l.length := by
  induction l generalizing q with
  | nil => cases q <;> simp [modifyNth]
  | cons x xs ih => cases q <;> simp [modifyNth, ih]

theorem findKey_some {key : SSet} {ks : List SSet} {i q : Nat} (h : findKey key ks i = some q) :
    ∃ j, q = i + j ∧ ks[j]? = some key := by
  induction ks generalizing i with
  | nil => simp [findKey] at h
  | cons k ks ih =>
    simp only [findKey] at h
    split at h
    · rename_i hk
      simp only [Option.some.injEq] at h
      exact ⟨0, by omega, by simp [hk]⟩
    · obtain ⟨j, hj, hk⟩ := ih h
      exact ⟨j + 1, by omega, by simpa using hk⟩

/-- `old_to_new`: the returned state has the given key; nothing else changes except one appended fresh state -/
theorem oldToNew_spec (n : NFA) (sm : SMap) (S : SSet) (hlen : sm.keys.length = sm.states.length) :
    let r := sm.oldToNew n S
    r.1.keys[r.2]? = some S ∧ r.1.inits = sm.inits ∧
    ((r.1 = sm) ∨ (r.1.keys = sm.keys ++ [S] ∧
        r.1.states = sm.states ++ [freshD (highestPriorityAction n S)])) := by
  unfold SMap.oldToNew
  cases hf : findKey S sm.keys 0 with
  | some q =>
    obtain ⟨j, hj, hk⟩ := findKey_some hf
    simp only [Nat.zero_add] at hj
    subst hj
    exact ⟨hk, rfl, .inl rfl⟩
  | none =>
    refine ⟨?_, rfl, .inr ⟨rfl, rfl⟩⟩
    simp only
    rw [← hlen, List.getElem?_append_right (Nat.le_refl _)]
    simp

theorem addTransitions_action {st st' : DState} {ev : Ev} {t : Nat} (h : st.addTransitions ev t = some st') :
    st'.action = st.action := by
  unfold DState.addTransitions at h
  cases ev with
  | range c0 c1 =>
    simp only at h
    split at h
    · simp only [Option.some.injEq] at h; subst h; rfl
    · split at h
      · split at h
        · cases h
        · simp only [Option.some.injEq] at h; subst h; rfl
      · simp only [Option.some.injEq] at h; subst h; rfl
  | sp k =>
    cases k <;> simp only [Option.some.injEq] at h <;> subst h <;> rfl

/-- effect of `add_transitions` with a character range -/
theorem addTransitions_range {st st' : DState} {c0 c1 : Int} {t : Nat}
    (h : st.addTransitions (.range c0 c1) t = some st') :
    (∀ k, st'.spGet k = st.spGet k) ∧
    (c0 = -maxint → st'.els = some t ∧ st'.chars = st.chars) ∧
    (c0 ≠ -maxint → c1 ≠ maxint → st'.els = st.els ∧ st'.chars = (c0, c1, t) :: st.chars) ∧
    (c0 ≠ -maxint → c1 = maxint → st' = st) := by
  unfold DState.addTransitions at h
  simp only at h
  by_cases h0 : c0 = -maxint
  · simp only [h0, if_true, Option.some.injEq] at h
    subst h
    exact ⟨fun k => by cases k <;> rfl, fun _ => ⟨rfl, rfl⟩, fun hc => absurd h0 hc, fun hc => absurd h0 hc⟩
  · simp only [h0, if_false] at h
    by_cases h1 : c1 = maxint
    · simp only [h1, ne_eq, not_true_eq_false, if_false, Option.some.injEq] at h
      subst h
      exact ⟨fun _ => rfl, fun hc => absurd hc h0, fun _ hc => absurd h1 hc, fun _ _ => rfl⟩
    · simp only [ne_eq, h1, not_false_eq_true, if_true] at h
      split at h
      · cases h
      · simp only [Option.some.injEq] at h
        subst h
        exact ⟨fun k => by cases k <;> rfl, fun hc => absurd hc h0, fun _ _ => ⟨rfl, rfl⟩, fun _ hc => absurd hc h1⟩

/-- effect of `add_transitions` with a special event -/
theorem addTransitions_sp {st st' : DState} {k : Sp} {t : Nat}
    (h : st.addTransitions (.sp k) t = some st') :
    st'.els = st.els ∧ st'.chars = st.chars ∧
    (∀ k', st'.spGet k' = if k' = k ∧ k ≠ .eps then some t else st.spGet k') := by
  unfold DState.addTransitions at h
  cases k <;> simp only [Option.some.injEq] at h <;> subst h <;>
    exact ⟨rfl, rfl, fun k' => by cases k' <;> simp [DState.spGet]⟩

end CyVerif.C50

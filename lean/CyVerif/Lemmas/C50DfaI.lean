import CyVerif.Lemmas.C50DfaH
/-! Subset construction, part I: the invariant of the work-list loop and one iteration. -/
namespace CyVerif.C50
open CyVerif.C46 (Reach)

/-- input symbols a scanner can present: characters below the sentinel, BOL, EOL, EOF -/
def ValidSym : CurChar → Prop
  | .chr c => (c : Int) < maxint
  | .empty => False
  | _ => True

/-- `states_0 == states_n-1` in every node of the NFA (needed because `FastMachine.add_transitions`
drops the range that ends at `maxint` and lets `'else'` stand for it) -/
def NFA.EndsAgree (n : NFA) : Prop := ∀ s, (n.node s).trans.EndsAgree

/-- DFA state `q` has its final transitions, and they are the subset-construction ones -/
def TransOK (n : NFA) (sm : SMap) (q : Nat) : Prop :=
  ∀ x, ValidSym x →
    (∀ t, (dstate sm.states q).step x = some t → t < sm.states.length) ∧
    ∀ u, u ∈ sm.keyOf ((dstate sm.states q).step x) ↔ StepSet n (sm.key q) x u

structure SMInv (n : NFA) (sm : SMap) (k : Nat) : Prop where
  len : sm.keys.length = sm.states.length
  sorted : ∀ K ∈ sm.keys, Sorted K
  closed : ∀ K ∈ sm.keys, EpsClosed n K
  action : ∀ q, q < sm.states.length → (dstate sm.states q).action = highestPriorityAction n (sm.key q)
  fresh : ∀ q, k ≤ q → q < sm.states.length → dstate sm.states q = freshD (dstate sm.states q).action
  done : ∀ q, q < k → q < sm.states.length → TransOK n sm q

theorem lookupEnts_mem (l : List (Int × SSet)) (c : Int) (acc : SSet) :
    lookupEnts l c acc = acc ∨ ∃ e ∈ l, lookupEnts l c acc = e.2 := by
  induction l generalizing acc with
  | nil => exact .inl rfl
  | cons e es ih =>
    rw [lookupEnts_cons]
    rcases ih (if e.1 ≤ c then e.2 else acc) with h | ⟨e', he', h⟩
    · rw [h]
      split
      · exact .inr ⟨e, by simp, rfl⟩
      · exact .inl rfl
    · exact .inr ⟨e', by simp [he'], h⟩

theorem TMap.lookup_sorted {m : TMap} (h : m.WF) (c : Int) : Sorted (m.lookup c) := by
  unfold TMap.lookup
  rcases lookupEnts_mem m.ents c [] with e | ⟨e, he, e'⟩
  · rw [e]; exact sorted_nil
  · rw [e']; exact h.sets e he

theorem TMap.lookupSp_sorted {m : TMap} (h : m.WF) (k : Sp) : Sorted (m.lookupSp k) := by
  unfold TMap.lookupSp
  cases hg : getSpecial m.special k with
  | none => exact sorted_nil
  | some S => exact h.spSets (k, S) ((mem_getSpecial h.spKeys k S).2 hg)

/-- a set described as "everything epsilon-reachable from a base set" is epsilon-closed -/
theorem closed_of_reach {n : NFA} {K : SSet} {B : Nat → Prop}
    (h : ∀ u, u ∈ K ↔ ∃ t, B t ∧ Reach n.eps t u) : EpsClosed n K := by
  intro v hv w hw
  obtain ⟨t, ht, hr⟩ := (h v).1 hv
  exact (h w).2 ⟨t, ht, reach_trans hr (.step hw (.refl _))⟩

end CyVerif.C50

import CyVerif.Lemmas.C09Pool3
/-! C09 part B: frozensets and the pooled constants. -/
namespace CyVerif.C09

theorem keys_of_mem (v : Variant) : ∀ (l : List Node) (ks : List Key), nodeKeys v l = some ks →
    ∀ n ∈ l, ∃ k ∈ ks, nodeKey v n = some k := by
  intro l
  induction l with
  | nil => intro ks _ n hn; simp at hn
  | cons a as ih =>
    intro ks h n hn
    simp only [nodeKeys] at h
    cases ha : nodeKey v a with
    | none => simp [ha] at h
    | some k =>
    cases has : nodeKeys v as with
    | none => simp [ha, has] at h
    | some ks' =>
      simp [ha, has] at h; subst h
      rcases List.mem_cons.mp hn with rfl | hn
      · exact ⟨k, by simp, ha⟩
      · obtain ⟨k', hk', e⟩ := ih ks' has n hn
        exact ⟨k', by simp [hk'], e⟩

theorem mem_of_keys (v : Variant) : ∀ (l : List Node) (ks : List Key), nodeKeys v l = some ks →
    ∀ k ∈ ks, ∃ n ∈ l, nodeKey v n = some k := by
  intro l
  induction l with
  | nil => intro ks h k hk; simp only [nodeKeys, Option.some.injEq] at h; subst h; simp at hk
  | cons a as ih =>
    intro ks h k hk
    simp only [nodeKeys] at h
    cases ha : nodeKey v a with
    | none => simp [ha] at h
    | some k0 =>
    cases has : nodeKeys v as with
    | none => simp [ha, has] at h
    | some ks' =>
      simp [ha, has] at h; subst h
      rcases List.mem_cons.mp hk with rfl | hk
      · exact ⟨a, by simp, ha⟩
      · obtain ⟨n, hn, e⟩ := ih ks' has k hk
        exact ⟨n, by simp [hn], e⟩

theorem evals_of_mem : ∀ (l : List Node) (xs : List Val), evalNodes l = some xs →
    ∀ n ∈ l, ∃ x ∈ xs, evalNode n = some x := by
  intro l
  induction l with
  | nil => intro xs _ n hn; simp at hn
  | cons a as ih =>
    intro xs h n hn
    simp only [evalNodes] at h
    cases ha : evalNode a with
    | none => simp [ha] at h
    | some x =>
    cases has : evalNodes as with
    | none => simp [ha, has] at h
    | some xs' =>
      simp [ha, has] at h; subst h
      rcases List.mem_cons.mp hn with rfl | hn
      · exact ⟨x, by simp, ha⟩
      · obtain ⟨x', hx', e⟩ := ih xs' has n hn
        exact ⟨x', by simp [hx'], e⟩

theorem mem_of_evals : ∀ (l : List Node) (xs : List Val), evalNodes l = some xs →
    ∀ x ∈ xs, ∃ n ∈ l, evalNode n = some x := by
  intro l
  induction l with
  | nil => intro xs h x hx; simp only [evalNodes, Option.some.injEq] at h; subst h; simp at hx
  | cons a as ih =>
    intro xs h x hx
    simp only [evalNodes] at h
    cases ha : evalNode a with
    | none => simp [ha] at h
    | some x0 =>
    cases has : evalNodes as with
    | none => simp [ha, has] at h
    | some xs' =>
      simp [ha, has] at h; subst h
      rcases List.mem_cons.mp hx with rfl | hx
      · exact ⟨a, by simp, ha⟩
      · obtain ⟨n, hn, e⟩ := ih xs' has x hx
        exact ⟨n, by simp [hn], e⟩

theorem wfs_mem : ∀ (l : List Node), Node.wfs l = true → ∀ n ∈ l, n.wf = true := by
  intro l
  induction l with
  | nil => intro _ n hn; simp at hn
  | cons a as ih =>
    intro h n hn
    simp only [Node.wfs, Bool.and_eq_true] at h
    rcases List.mem_cons.mp hn with rfl | hn
    · exact h.1
    · exact ih h.2 n hn

theorem noZeroFloats_mem : ∀ (l : List Node), Node.noZeroFloats l = true → ∀ n ∈ l, n.noZeroFloat = true := by
  intro l
  induction l with
  | nil => intro _ n hn; simp at hn
  | cons a as ih =>
    intro h n hn
    simp only [Node.noZeroFloats, Bool.and_eq_true] at h
    rcases List.mem_cons.mp hn with rfl | hn
    · exact h.1
    · exact ih h.2 n hn

/-- every item value of the first set has an indistinguishable partner in the second -/
theorem items_sub (v : Variant) (l1 l2 : List Node) (ks1 ks2 : List Key) (xs1 xs2 : List Val)
    (hw1 : Node.wfs l1 = true) (hw2 : Node.wfs l2 = true)
    (hz : v.floatSign = true ∨ Node.noZeroFloats l1 = true)
    (hk1 : nodeKeys v l1 = some ks1) (hk2 : nodeKeys v l2 = some ks2)
    (he1 : evalNodes l1 = some xs1) (he2 : evalNodes l2 = some xs2)
    (h : ∀ k1 ∈ ks1, ∃ k2 ∈ ks2, keyEq k1 k2 = true) :
    ∀ x1 ∈ xs1, ∃ x2 ∈ xs2, same x1 x2 = true := by
  intro x1 hx1
  obtain ⟨n1, hn1, en1⟩ := mem_of_evals l1 xs1 he1 x1 hx1
  obtain ⟨k1, hk1m, kn1⟩ := keys_of_mem v l1 ks1 hk1 n1 hn1
  obtain ⟨k2, hk2m, heq⟩ := h k1 hk1m
  obtain ⟨n2, hn2, kn2⟩ := mem_of_keys v l2 ks2 hk2 k2 hk2m
  obtain ⟨y1, y2, ey1, ey2, hs⟩ := node_sound v n1 n2 k1 k2 (wfs_mem l1 hw1 n1 hn1) (wfs_mem l2 hw2 n2 hn2)
    (hz.elim Or.inl (fun h => Or.inr (noZeroFloats_mem l1 h n1 hn1))) kn1 kn2 heq
  rw [en1] at ey1; injection ey1 with ey1; subst ey1
  obtain ⟨x2, hx2, en2⟩ := evals_of_mem l2 xs2 he2 n2 hn2
  rw [ey2] at en2; injection en2 with en2; subst en2
  exact ⟨y2, hx2, hs⟩

/-- every item value of the second set has an indistinguishable partner in the first -/
theorem items_sup (v : Variant) (l1 l2 : List Node) (ks1 ks2 : List Key) (xs1 xs2 : List Val)
    (hw1 : Node.wfs l1 = true) (hw2 : Node.wfs l2 = true)
    (hz : v.floatSign = true ∨ Node.noZeroFloats l1 = true)
    (hk1 : nodeKeys v l1 = some ks1) (hk2 : nodeKeys v l2 = some ks2)
    (he1 : evalNodes l1 = some xs1) (he2 : evalNodes l2 = some xs2)
    (h : ∀ k2 ∈ ks2, ∃ k1 ∈ ks1, keyEq k1 k2 = true) :
    ∀ x2 ∈ xs2, ∃ x1 ∈ xs1, same x1 x2 = true := by
  intro x2 hx2
  obtain ⟨n2, hn2, en2⟩ := mem_of_evals l2 xs2 he2 x2 hx2
  obtain ⟨k2, hk2m, kn2⟩ := keys_of_mem v l2 ks2 hk2 n2 hn2
  obtain ⟨k1, hk1m, heq⟩ := h k2 hk2m
  obtain ⟨n1, hn1, kn1⟩ := mem_of_keys v l1 ks1 hk1 k1 hk1m
  obtain ⟨y1, y2, ey1, ey2, hs⟩ := node_sound v n1 n2 k1 k2 (wfs_mem l1 hw1 n1 hn1) (wfs_mem l2 hw2 n2 hn2)
    (hz.elim Or.inl (fun h => Or.inr (noZeroFloats_mem l1 h n1 hn1))) kn1 kn2 heq
  rw [en2] at ey2; injection ey2 with ey2; subst ey2
  obtain ⟨x1, hx1, en1⟩ := evals_of_mem l1 xs1 he1 n1 hn1
  rw [ey1] at en1; injection en1 with en1; subst en1
  exact ⟨y1, hx1, hs⟩

theorem dedup_of_distinct : ∀ (xs seen : List Val), distinctAux seen xs = true → dedupAux seen xs = xs := by
  intro xs
  induction xs with
  | nil => intro seen _; rfl
  | cons x xs ih =>
    intro seen h
    simp only [distinctAux, Bool.and_eq_true, Bool.not_eq_true'] at h
    simp only [dedupAux, h.1, Bool.false_eq_true, if_false]
    rw [ih _ h.2]

mutual
theorem constResult_eval : ∀ (n : Node) (x : Val), constResult n = some x → evalNode n = some x
  | .leaf t a, x, h => by simpa [constResult, evalNode] using h
  | .opq, _, h => by simp [constResult] at h
  | .seq k m args, x, h => by
    simp only [constResult] at h
    cases m with
    | some p => simp at h
    | none =>
      cases hc : constResults args with
      | none => simp [hc] at h
      | some xs =>
        simp [hc] at h; subst h
        simp [evalNode, constResults_eval args xs hc]
  | .slice a b c, x, h => by
    simp only [constResult] at h
    cases ha : constResult a with
    | none => simp [ha] at h
    | some xa =>
    cases hb : constResult b with
    | none => simp [ha, hb] at h
    | some xb =>
    cases hc : constResult c with
    | none => simp [ha, hb, hc] at h
    | some xc =>
      simp [ha, hb, hc] at h; subst h
      simp [evalNode, constResult_eval a xa ha, constResult_eval b xb hb, constResult_eval c xc hc]
theorem constResults_eval : ∀ (l : List Node) (xs : List Val), constResults l = some xs → evalNodes l = some xs
  | [], xs, h => by simpa [constResults, evalNodes] using h
  | n :: ns, xs, h => by
    simp only [constResults] at h
    cases hn : constResult n with
    | none => simp [hn] at h
    | some x =>
    cases hns : constResults ns with
    | none => simp [hn, hns] at h
    | some xs' =>
      simp [hn, hns] at h; subst h
      simp [evalNodes, constResult_eval n x hn, constResults_eval ns xs' hns]
end

end CyVerif.C09

import CyVerif.Lemmas.C47Tok
/-! Helper definitions and lemmas for the scanner induction (C47). -/
namespace CyVerif.C47

def tail : Option (List Char) → List Char
  | none => []
  | some r => r

@[simp] theorem tail_none : tail none = [] := rfl
@[simp] theorem tail_some (r) : tail (some r) = r := rfl

@[simp] theorem expand_append (a b : List Piece) : expand (a ++ b) = expand a ++ expand b := by
  induction a with
  | nil => rfl
  | cons x xs ih => cases x <;> simp [expand, ih]

@[simp] theorem expand_litIf (b : List Char) : expand (litIf b) = b := by
  unfold litIf; split <;> simp_all [expand]

def isDelim (c : Char) : Bool := c == '\'' || c == '"' || c == '{' || c == '\n'

/-- the rendering of the pieces is empty or starts with a kept delimiter character -/
def startsDelim : List Piece → Bool
  | [] => true
  | .kept [] :: ps => startsDelim ps
  | .kept (c :: _) :: _ => isDelim c
  | .lit _ :: _ => false

/-- every label is followed by nothing or by a kept delimiter character -/
def followOK : List Piece → Bool
  | [] => true
  | .kept _ :: ps => followOK ps
  | .lit _ :: ps => startsDelim ps && followOK ps

/-- the last piece is a non-empty kept piece -/
def endsOK : List Piece → Bool
  | [] => false
  | [.kept (_ :: _)] => true
  | [_] => false
  | _ :: p :: ps => endsOK (p :: ps)

theorem endsOK_cons_cons (x p : Piece) (ps) : endsOK (x :: p :: ps) = endsOK (p :: ps) := by
  cases x with
  | kept s => cases s <;> rfl
  | lit s => rfl

theorem endsOK_append_ne (a b : List Piece) (hb : b ≠ []) : endsOK (a ++ b) = endsOK b := by
  induction a with
  | nil => rfl
  | cons x xs ih =>
    cases h : xs ++ b with
    | nil => simp at h; exact absurd h.2 hb
    | cons y ys => rw [List.cons_append, h, endsOK_cons_cons, ← h, ih]

theorem startsDelim_append (a b : List Piece) (ha : startsDelim a = true)
    (h : endsOK a = true ∨ startsDelim b = true) : startsDelim (a ++ b) = true := by
  induction a with
  | nil => simpa [endsOK] using h
  | cons x xs ih =>
    cases x with
    | lit s => simp [startsDelim] at ha
    | kept s =>
      cases s with
      | cons c s => simpa [startsDelim] using ha
      | nil =>
        simp only [startsDelim, List.cons_append] at ha ⊢
        apply ih ha
        cases xs with
        | nil => simpa [endsOK] using h
        | cons y ys => simpa [endsOK_cons_cons] using h

theorem followOK_append (a b : List Piece) (ha : followOK a = true) (hb : followOK b = true)
    (h : endsOK a = true ∨ startsDelim b = true) : followOK (a ++ b) = true := by
  induction a with
  | nil => simpa using hb
  | cons x xs ih =>
    have h' : endsOK xs = true ∨ startsDelim b = true ∨ xs = [] := by
      cases xs with
      | nil => simp
      | cons y ys => rw [endsOK_cons_cons] at h; rcases h with h | h <;> simp [h]
    cases x with
    | kept s =>
      simp only [followOK, List.cons_append] at ha ⊢
      rcases h' with h' | h' | h'
      · exact ih ha (Or.inl h')
      · exact ih ha (Or.inr h')
      · subst h'; simpa using hb
    | lit s =>
      simp only [followOK, List.cons_append, Bool.and_eq_true] at ha ⊢
      have hs : endsOK xs = true ∨ startsDelim b = true := by
        rcases h' with h' | h' | h'
        · exact Or.inl h'
        · exact Or.inr h'
        · subst h'; simpa [endsOK] using h
      exact ⟨startsDelim_append _ _ ha.1 hs, ih ha.2 hs⟩


theorem dropLast_append_getLast {l : List Char} {c : Char} (h : l.getLast? = some c) : l.dropLast ++ [c] = l := by
  induction l with
  | nil => simp at h
  | cons x xs ih =>
    cases xs with
    | nil => simp at h; simp [h]
    | cons y ys =>
      rw [List.getLast?_cons_cons] at h
      simp [List.dropLast, ih h]

theorem quoteKind_spec {run qs : List Char} {back : Nat} (h : quoteKind run = some (qs, back)) :
    back < run.length ∧ qs ≠ [] ∧ qs.head? = run.head? := by
  unfold quoteKind at h
  by_cases h6 : run.length ≥ 6
  · simp [h6] at h
    obtain ⟨⟨⟨hm0, hr⟩, h2⟩, rfl, rfl⟩ := h
    have hlt : run.length % 6 < 6 := Nat.mod_lt _ (by omega)
    have hm : min (run.length % 6) run.length = run.length % 6 := by omega
    simp only [hm] at h2 ⊢
    have hle : run.length % 6 ≤ run.length := Nat.mod_le _ _
    refine ⟨by split <;> omega, ?_, ?_⟩
    · split
      · simp; exact ⟨hm0, hr⟩
      · simp; exact ⟨hm0, hr⟩
    · split
      · rw [List.take_take, List.head?_take]; split <;> first | omega | rfl
      · rw [List.head?_take]; split <;> first | omega | rfl
  · simp [h6] at h
    obtain ⟨⟨hr, h2⟩, rfl, rfl⟩ := h
    have hpos : 0 < run.length := List.length_pos_iff.mpr hr
    refine ⟨by split <;> omega, ?_, ?_⟩
    · split
      · simp; omega
      · exact hr
    · split
      · rw [List.head?_take]; simp
      · rfl

def Post (pend rest : List Char) (o : Out) : Prop :=
  expand o.1 ++ tail o.2 = pend ++ rest ∧ (tail o.2).length ≤ rest.length ∧
  followOK o.1 = true ∧ (o.2 ≠ none → endsOK o.1 = true)

def QS (qs : List Char) : Prop := ∃ q t, qs = q :: t ∧ isDelim q = true

def MotS (fuel : Nat) (qs : List Char) (isF : Bool) (pend rest : List Char) : Prop :=
  rest.length < fuel → QS qs → Post pend rest (parseString fuel qs isF pend rest)

def MotC (fuel : Nat) (inF : Bool) (pend rest : List Char) : Prop :=
  rest.length < fuel → Post pend rest (parseCode fuel inF pend rest) ∧
    ∃ s ps', (parseCode fuel inF pend rest).1 = .kept s :: ps' ∧ (pend ≠ [] ∨ rest ≠ [] → s ≠ [])

theorem strSearch {isF : Bool} {rest pre t post}
    (h : search (if isF = true then mFStr else mStr) rest = some (pre, t, post)) :
    rest = pre ++ t.chars ++ post ∧ t.isStr isF :=
  search_sound (P := Tok.isStr isF) (fun _ _ _ h => mStrSel_sound h) h

theorem codeSearch {rest pre t post} (h : search mCode rest = some (pre, t, post)) :
    rest = pre ++ t.chars ++ post ∧ t.isCode :=
  search_sound (P := Tok.isCode) (fun _ _ _ h => mCode_sound h) h


end CyVerif.C47

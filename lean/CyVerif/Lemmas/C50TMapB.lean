import CyVerif.Lemmas.C50TMapA
/-! TransitionMap, part B: lookup semantics and `split`. -/
namespace CyVerif.C50

theorem lookupEnts_append (a b : List (Int × SSet)) (c : Int) (acc : SSet) :
    lookupEnts (a ++ b) c acc = lookupEnts b c (lookupEnts a c acc) := by
  simp [lookupEnts, List.foldl_append]

theorem lookupEnts_cons (e : Int × SSet) (b : List (Int × SSet)) (c : Int) (acc : SSet) :
    lookupEnts (e :: b) c acc = lookupEnts b c (if e.1 ≤ c then e.2 else acc) := by
  simp [lookupEnts]

/-- entries above `c` do not matter -/
theorem lookupEnts_above {l : List (Int × SSet)} {c : Int} (h : ∀ x ∈ l, c < x.1) (acc : SSet) :
    lookupEnts l c acc = acc := by
  induction l generalizing acc with
  | nil => rfl
  | cons e es ih =>
    rw [lookupEnts_cons]
    have : ¬ e.1 ≤ c := by have := h e (by simp); omega
    simp only [this, if_false]
    exact ih (fun x hx => h x (by simp [hx])) acc

/-- A sorted entry list splits at `c`: the last entry with code `≤ c` and the entries above. -/
theorem decomp_at {l : List (Int × SSet)} (hs : (l.map (·.1)).Pairwise (· < ·)) {c : Int}
    (hex : ∃ e ∈ l, e.1 ≤ c) :
    ∃ pre e post, l = pre ++ e :: post ∧ e.1 ≤ c ∧ (∀ x ∈ post, c < x.1) ∧ (∀ x ∈ pre, x.1 < e.1) := by
  induction l with
  | nil => obtain ⟨e, he, _⟩ := hex; cases he
  | cons a as ih =>
    simp only [List.map_cons, List.pairwise_cons] at hs
    by_cases hmore : ∃ e ∈ as, e.1 ≤ c
    · obtain ⟨pre, e, post, hl, h1, h2, h3⟩ := ih hs.2 hmore
      refine ⟨a :: pre, e, post, by simp [hl], h1, h2, ?_⟩
      intro x hx
      rcases List.mem_cons.1 hx with hx | hx
      · subst hx
        apply hs.1
        rw [hl]; simp
      · exact h3 x hx
    · refine ⟨[], a, as, rfl, ?_, ?_, by simp⟩
      · obtain ⟨e, he, hec⟩ := hex
        rcases List.mem_cons.1 he with he | he
        · subst he; exact hec
        · exact absurd ⟨e, he, hec⟩ hmore
      · intro x hx
        by_cases hxc : x.1 ≤ c
        · exact absurd ⟨x, hx, hxc⟩ hmore
        · omega

theorem lookupEnts_decomp {pre post : List (Int × SSet)} {e : Int × SSet} {c : Int}
    (h1 : e.1 ≤ c) (h2 : ∀ x ∈ post, c < x.1) (acc : SSet) :
    lookupEnts (pre ++ e :: post) c acc = e.2 := by
  rw [lookupEnts_append, lookupEnts_cons, lookupEnts_above h2]
  simp [h1]

/-- `lookup` is the intended reading of the list: the set of the interval that contains `c`. -/
theorem TMap.lookup_interval {m : TMap} (h : m.WF) {k : Nat} (hk : k < m.ents.length) {c : Int}
    (h1 : m.codeAt k ≤ c) (h2 : c < m.codeAt (k + 1)) : m.lookup c = m.setAt k := by
  have hsplit : m.ents = m.ents.take k ++ m.ents[k] :: m.ents.drop (k + 1) := by
    rw [← List.drop_eq_getElem_cons hk, List.take_append_drop]
  have hck : m.codeAt k = m.ents[k].1 := by simp [TMap.codeAt, List.getElem?_eq_getElem hk]
  have hsk : m.setAt k = m.ents[k].2 := by simp [TMap.setAt, List.getElem?_eq_getElem hk]
  unfold TMap.lookup
  rw [hsplit, hsk]
  apply lookupEnts_decomp (by omega)
  intro x hx
  obtain ⟨i, hi, hxi⟩ := List.getElem_of_mem hx
  simp only [List.length_drop] at hi
  rw [List.getElem_drop] at hxi
  have hlt := TMap.codeAt_le h.incr (a := k + 1) (b := k + 1 + i) (by omega) (by omega)
  have : m.codeAt (k + 1 + i) = x.1 := by
    simp [TMap.codeAt, List.getElem?_eq_getElem (show k + 1 + i < m.ents.length by omega), hxi]
  omega

end CyVerif.C50

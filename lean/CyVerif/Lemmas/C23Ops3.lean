import CyVerif.Lemmas.C23Ops2
namespace CyVerif.C23
variable {σ ι : Type}

/-- the end of close(): Cython's test of the body's answer vs CPython's (`closeStatus` = what callers look at) -/
theorem sim_closeResult (fl : Flags) {a : R (CyObj σ ι)} {b : R (PyObj σ ι)} (h : RSim fl RelU a b) :
    RSim fl RelO ((cyCloseResult fl a).mapOut closeStatus) ((pyCloseResult b).mapOut closeStatus) := by
  rcases a with ⟨ao, aobj, alog, adev⟩
  rcases b with ⟨bo, bobj, blog, bdev⟩
  intro hd
  cases bo with
  | div =>
    simp only [pyCloseResult, R.mapOut] at hd ⊢
    obtain ⟨ho, hl, hq⟩ := h hd
    simp only at ho hl hq
    subst ho; subst hl
    exact ⟨rfl, rfl, hq.1, fun v hv => by simp [closeStatus] at hv⟩
  | next v =>
    simp only [pyCloseResult, R.mapOut] at hd ⊢
    obtain ⟨ho, hl, hq⟩ := h hd
    simp only at ho hl hq
    subst ho; subst hl
    exact ⟨rfl, rfl, hq.1, fun v hv => by simp [closeStatus] at hv⟩
  | ret v =>
    simp only [pyCloseResult, R.mapOut, okDevs_append] at hd ⊢
    obtain ⟨ho, hl, hq⟩ := h hd.1
    simp only at ho hl hq
    subst ho; subst hl
    have hc : v = 0 ∨ fl.fixB = true := by
      by_cases hv : v = 0
      · exact Or.inl hv
      · have := hd.2
        simp only [hv, if_false, okDevs_single, Flags.fixed] at this
        exact Or.inr this
    simp only [cyCloseResult, hc, if_true, cyUnset, closeStatus]
    exact ⟨trivial, trivial, hq.1, fun v hv => by simp at hv⟩
  | err e =>
    simp only [pyCloseResult, R.mapOut] at hd ⊢
    by_cases hc : e = .generatorExit ∨ e.isStop.isSome = true
    · simp only [hc, if_true] at hd ⊢
      obtain ⟨ho, hl, hq⟩ := h hd
      simp only at ho hl hq
      subst ho; subst hl
      simp only [cyCloseResult, hc, if_true, cyUnset, closeStatus]
      exact ⟨trivial, trivial, hq.1, fun v hv => by simp at hv⟩
    · simp only [hc, if_false] at hd ⊢
      obtain ⟨ho, hl, hq⟩ := h hd
      simp only at ho hl hq
      subst ho; subst hl
      simp only [cyCloseResult, hc, if_false, cyUnset, closeStatus]
      exact ⟨trivial, trivial, hq.1, fun v hv => by simp at hv⟩

theorem sim_close_suspended (fl : Flags) (B : Body σ ι) (O : OpqSem ι) (rc : CyRec σ ι) (rp : PyRec σ ι)
    (H : SimAll fl rc rp) (st : σ) (yf : CyObj σ ι) (yf' : PyObj σ ι) (hd : RelD yf yf') :
    RSim fl RelO ((cyClose fl B O rc .suspended false st yf).mapOut closeStatus)
      ((pyClose fl.coro B O rp .suspended st yf').mapOut closeStatus) := by
  have hgx : ∀ (y : CyObj σ ι) (y' : PyObj σ ι), RelD y y' →
      RSim fl RelU
        (R.bind .null (cyCloseIter O rc y) fun o sub => cyResume fl B rc .suspended st sub (.throw (excOfStatus .generatorExit o)) true)
        (R.bind .null (pyCloseIter O rp y') fun o sub =>
          pySendEx2 fl.coro B O rp .suspended st sub (.throw (excOfStatus .generatorExit o)) true) := by
    intro y y' hy
    apply RSim.bind (sim_closeIter fl O rc rp H y y' hy) (relU_null _)
    intro o ca pa _ hq
    exact sim_resume_throw fl B O rc rp H st ca pa hq _ true
  cases hd with
  | null =>
    simp only [cyClose, pyClose, pyYf, Bool.false_eq_true, if_false]
    exact sim_closeResult fl (sim_sendEx_suspended fl B O rc rp H st _ true)
  | opq o =>
    simp only [cyClose, pyClose, pyYf, Bool.false_eq_true, if_false]
    exact sim_closeResult fl (hgx _ _ (.opq o))
  | gen s h =>
    simp only [cyClose, pyClose, pyYf, Bool.false_eq_true, if_false]
    exact sim_closeResult fl (hgx _ _ (.gen s h))

theorem sim_close_created (fl : Flags) (B : Body σ ι) (O : OpqSem ι) (rc : CyRec σ ι) (rp : PyRec σ ι) (st : σ) :
    RSim fl RelO ((cyClose fl B O rc .created false st .null).mapOut closeStatus)
      ((pyClose fl.coro B O rp .created st .null).mapOut closeStatus) := by
  simp only [cyClose, pyClose, Bool.false_eq_true, if_false, cySendEx, cyCloseResult, R.mapOut, cyUnset, closeStatus]
  cases fl.fixC <;> simp [pep479, CyObj.setRunning] <;>
    exact RSim.pure rfl rfl ⟨.finished st st, fun v hv => by simp at hv⟩

theorem sim_close_finished (fl : Flags) (B : Body σ ι) (O : OpqSem ι) (rc : CyRec σ ι) (rp : PyRec σ ι) (st st' : σ) :
    RSim fl RelO ((cyClose fl B O rc .finished false st .null).mapOut closeStatus)
      ((pyClose fl.coro B O rp .cleared st' .null).mapOut closeStatus) := by
  simp only [cyClose, pyClose, Bool.false_eq_true, if_false, cySendEx, cyCloseResult, R.mapOut, cyUnset, closeStatus,
    Bool.not_true, Bool.and_false]
  simp [CyObj.setRunning]
  exact RSim.pure rfl rfl ⟨.finished st st', fun v hv => by simp at hv⟩

end CyVerif.C23

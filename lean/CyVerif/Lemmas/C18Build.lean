import CyVerif.Model.C18Int
/-! C18 lemmas: `__Pyx_PyUnicode_BuildFromAscii` writes exactly `[sign] ++ padding ++ chars`, in bounds. -/
namespace CyVerif.C18

theorem set_append_mid {α} (l1 : List α) (a b : α) (l2 : List α) :
    (l1 ++ a :: l2).set l1.length b = l1 ++ b :: l2 := by
  induction l1 with
  | nil => rfl
  | cons x xs ih => simp [ih]

theorem writeRun_spec : ∀ (cs pre : List Char) (k : Nat),
    writeRun (pre.map some ++ List.replicate (cs.length + k) none) (pre.length : Int) cs =
      some ((pre ++ cs).map some ++ List.replicate k none) := by
  intro cs
  induction cs with
  | nil => intro pre k; simp [writeRun]
  | cons c cs ih =>
    intro pre k
    have hlen : ((pre.map some ++ List.replicate ((c :: cs).length + k) (none : Option Char)).length : Int)
        = pre.length + (cs.length + 1 + k) := by simp
    have hw : writeAt (pre.map some ++ List.replicate ((c :: cs).length + k) none) (pre.length : Int) c =
        some ((pre ++ [c]).map some ++ List.replicate (cs.length + k) none) := by
      unfold writeAt
      rw [hlen]
      have h1 : (0 : Int) ≤ pre.length ∧ (pre.length : Int) < pre.length + (cs.length + 1 + k) := by omega
      simp only [h1, and_self, if_true, Int.toNat_natCast]
      have : List.replicate ((c :: cs).length + k) (none : Option Char) =
          none :: List.replicate (cs.length + k) none := by
        simp [List.length_cons, Nat.add_right_comm _ 1 k, List.replicate_succ]
      rw [this]
      have h2 := set_append_mid (pre.map some) (none : Option Char) (some c) (List.replicate (cs.length + k) none)
      simp only [List.length_map] at h2
      rw [h2]; simp
    unfold writeRun
    rw [hw]
    have := ih (pre ++ [c]) k
    simp only [List.length_append, List.length_cons, List.length_nil, Nat.zero_add, Int.natCast_add,
      Int.natCast_one, List.append_assoc, List.cons_append, List.nil_append] at this
    simpa using this

theorem collect_map_some (l : List Char) : collect (l.map some) = some l := by
  induction l with
  | nil => rfl
  | cons a l ih => simp [collect, ih]

/-- the padding + sign prefix written by `BuildFromAscii` -/
def buildPrefix (uoffset : Nat) (prependSign : Bool) (pad : Char) : List Char :=
  if uoffset = 0 then [] else
  if prependSign then '-' :: List.replicate (uoffset - 1) pad else List.replicate uoffset pad

theorem buildPrefix_length (uoffset : Nat) (p : Bool) (pad : Char) : (buildPrefix uoffset p pad).length = uoffset := by
  unfold buildPrefix
  by_cases h : uoffset = 0
  · simp [h]
  · cases p <;> simp [h] <;> omega

end CyVerif.C18

namespace CyVerif.C18

theorem writeRun_from_zero (cs : List Char) (k : Nat) :
    writeRun (List.replicate (cs.length + k) none) 0 cs = some (cs.map some ++ List.replicate k none) := by
  have := writeRun_spec cs [] k
  simpa using this

/-- `BuildFromAscii(ulength, chars, len(chars), prepend_sign, pad)` with `len(chars) ≤ ulength`:
all writes in bounds, every cell written, text = prefix ++ chars. -/
theorem buildFromAscii_spec (ul : Nat) (chars : List Char) (p : Bool) (pad : Char)
    (h : chars.length ≤ ul) :
    buildFromAscii (ul : Int) chars (chars.length : Int) p pad =
      .text (buildPrefix (ul - chars.length) p pad ++ chars) := by
  obtain ⟨off, rfl⟩ : ∃ off, ul = chars.length + off := ⟨ul - chars.length, by omega⟩
  have hoff : chars.length + off - chars.length = off := by omega
  unfold buildFromAscii
  have h0 : ¬ ((chars.length + off : Nat) : Int) < 0 := by omega
  have hsub : ((chars.length + off : Nat) : Int) - (chars.length : Int) = (off : Int) := by omega
  simp only [h0, if_false, hsub, Int.toNat_natCast, Nat.lt_irrefl, List.take_length, hoff]
  by_cases hz : off = 0
  · subst hz
    have := writeRun_from_zero chars 0
    simp only [Nat.add_zero, List.replicate_zero, List.append_nil] at this
    have hgt : ¬ ((0 : Int) > 0) := by omega
    simp only [Nat.add_zero, Int.natCast_zero, hgt, if_false]
    rw [this]
    simp only [collect_map_some]
    simp [buildPrefix]
  · have hpos : (off : Int) > 0 := by omega
    simp only [hpos, if_true]
    cases p with
    | false =>
      have h1 := writeRun_from_zero (List.replicate off pad) chars.length
      simp only [List.length_replicate] at h1
      rw [Nat.add_comm] at h1
      simp only [Bool.false_eq_true, if_false, h1]
      have h2 := writeRun_spec chars (List.replicate off pad) 0
      simp only [List.length_replicate, Nat.add_zero, List.replicate_zero, List.append_nil] at h2
      rw [h2]
      simp only [collect_map_some]
      simp [buildPrefix, hz]
    | true =>
      obtain ⟨o, rfl⟩ : ∃ o, off = o + 1 := ⟨off - 1, by omega⟩
      have hw : writeAt (List.replicate (chars.length + (o + 1)) none) 0 '-' =
          some ((['-'] : List Char).map some ++ List.replicate (o + chars.length) none) := by
        unfold writeAt
        have : (0 : Int) ≤ 0 ∧ (0 : Int) < ((List.replicate (chars.length + (o + 1)) (none : Option Char)).length : Int) := by
          simp; omega
        simp only [this, and_self, if_true]
        have e : chars.length + (o + 1) = (o + chars.length) + 1 := by omega
        rw [e, List.replicate_succ]; rfl
      have h1 := writeRun_spec (List.replicate o pad) ['-'] chars.length
      simp only [List.length_replicate, List.length_cons, List.length_nil, Nat.zero_add, Int.natCast_one] at h1
      have e1 : ((o + 1 : Nat) : Int) - 1 = (o : Int) := by omega
      simp only [if_true, hw, Option.bind_some, e1, Int.toNat_natCast, h1]
      have h2 := writeRun_spec chars (['-'] ++ List.replicate o pad) 0
      simp only [List.length_replicate, List.length_cons, List.length_append, List.length_nil,
        Nat.add_zero, List.replicate_zero, List.append_nil, Nat.zero_add] at h2
      rw [Nat.add_comm 1 o] at h2
      rw [h2]
      simp only [collect_map_some]
      simp [buildPrefix]

end CyVerif.C18

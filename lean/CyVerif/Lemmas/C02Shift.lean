import CyVerif.Lemmas.C02Bits
import CyVerif.Lemmas.C02Arith
/-!
C02: `>>` and `<<` of `__Pyx_Unpacked_…` (`x >> c`, `x << c` with the constant on the right).
-/
namespace CyVerif.C02
open CyVerif.C05

theorem shr_eq_div (a : Int) (n : Nat) : a >>> n = a / two n := Int.shiftRight_eq_div_pow a n

/-- shifting out all value bits leaves the sign -/
theorem shr_wide {a : Int} {k n : Nat} (ha : Bnd k a) (hkn : k ≤ n) : a >>> n = if a < 0 then -1 else 0 := by
  rw [shr_eq_div]
  have := two_le_two hkn
  have hp := two_pos n
  unfold Bnd at ha
  split
  · exact Int.ediv_eq_neg_one_of_neg_of_le (by omega) (by omega)
  · exact Int.ediv_eq_zero_of_lt (by omega) (by omega)

/-- The overflow test of `<<`: if shifting the wrapped result back gives the operand, nothing was lost. -/
theorem shl_roundtrip {t : CTy} (hs : t.signed = true) (hb : 0 < t.bytes) {a : Int} {n : Nat} (hn : n < t.bits)
    (h : (C05.cast t (a * two n)) >>> n = a) : C05.cast t (a * two n) = a * two n := by
  have hbits := bits_pos hb
  have hmod := cast_emod hs hbits (a * two n)
  have hdvd : two t.bits ∣ C05.cast t (a * two n) - a * two n := by
    have := Int.emod_eq_emod_iff_emod_sub_eq_zero.mp hmod
    exact Int.dvd_of_emod_eq_zero this
  obtain ⟨m, hm⟩ := hdvd
  have hsplit : two t.bits = two n * two (t.bits - n) := by rw [← two_add]; congr 1; omega
  have hy : C05.cast t (a * two n) = two n * (two (t.bits - n) * m) + a * two n := by
    rw [← Int.mul_assoc, ← hsplit]; omega
  rw [shr_eq_div, hy, Int.mul_add_ediv_left _ _ (two_ne_zero n), Int.mul_ediv_cancel _ (two_ne_zero n)] at h
  have hz : two (t.bits - n) * m = 0 := by omega
  have hm0 : m = 0 := by
    rcases Int.mul_eq_zero.mp hz with h1 | h1
    · exact absurd h1 (two_ne_zero _)
    · exact h1
  rw [hy, hm0]; simp

/-- result of `>>` / `<<`, or deferral -/
def ShiftRight' (r : Int) (o : Out) : Prop := IsFallback o ∨ o = .int r

theorem calc_rsh {t : CTy} (cfg : Cfg) (hcfg : cfg.negShiftWorks = true → cfg.gccShift = true)
    {a c : Int} {k : Nat} (ha : Bnd k a) (hk : k + 1 ≤ t.bits) (hc : 0 ≤ c) :
    ShiftRight' (a >>> c.toNat)
      (ofE (if cfg.negShiftWorks = false ∧ a < 0 then pure (.fallback "generic")
        else if (t.bits : Int) ≤ c then pure (.int (if a < 0 then -1 else 0))
        else do let x ← cshr cfg t a c; pure (.int x))) := by
  by_cases h1 : cfg.negShiftWorks = false ∧ a < 0
  · rw [if_pos h1]; exact .inl ⟨_, rfl⟩
  · rw [if_neg h1]
    by_cases h2 : (t.bits : Int) ≤ c
    · rw [if_pos h2]
      right
      rw [shr_wide ha (show k ≤ c.toNat by omega)]; rfl
    · rw [if_neg h2]
      right
      unfold cshr
      rw [if_neg (by omega)]
      have : ¬(a < 0 ∧ cfg.gccShift = false) := by
        intro ⟨hneg, hg⟩
        cases hw : cfg.negShiftWorks
        · exact h1 ⟨hw, hneg⟩
        · rw [hcfg hw] at hg; cases hg
      rw [if_neg this]; rfl

theorem rsh_raw (P : Plat) (hP : PlatOK P) (cfg : Cfg) (hcfg : cfg.negShiftWorks = true → cfg.gccShift = true)
    (p : PyLong) (hwf : p.WF P.shift) (c : Int) (hc : 0 ≤ c) (zc : Bool) :
    ShiftRight' (p.value P.shift >>> c.toNat) (unpacked P cfg .rsh .objC p c zc) := by
  have hP' := hP
  obtain ⟨hS, hi0, hiL, hL4, hLLL, hLL8, hSL, hSLL⟩ := hP'
  apply unpacked_frame P hP cfg .rsh .objC p hwf c zc (fun o => ShiftRight' (p.value P.shift >>> c.toNat) o)
  · intro hz o ho
    rw [value_zero hz]
    simp [zeroCase] at ho; subst ho
    right; simp
  · exact .inl ⟨_, rfl⟩
  · intro h; cases h
  · intro v n hv _ _ hb h1 _
    subst hv
    exact calc_rsh (t := P.tLong) cfg hcfg hb (by rw [tLong_bits]; omega) hc
  · intro v n hv _ _ hb h2 _
    subst hv
    have : extra .rsh = 0 := rfl
    rw [this] at h2
    exact calc_rsh (t := P.tLL) cfg hcfg hb (by rw [tLL_bits]; omega) hc

/-- `calculate_long_long` of `<<` -/
theorem calcLL_lsh (P : Plat) (hP : PlatOK P) (cfg : Cfg) (hg : cfg.gccShift = true) {a c : Int} (hc0 : 0 ≤ c) (hc : c ≤ 63) :
    ShiftRight' (a * two c.toNat) (ofE (calcLL P cfg .lsh a c)) := by
  obtain ⟨hS, hi0, hiL, hL4, hLLL, hLL8, hSL, hSLL⟩ := hP
  have hb : 0 < P.tLL.bytes := by show 0 < P.llBytes; omega
  have hcnt : ¬(c < 0 ∨ (P.tLL.bits : Int) ≤ c) := by rw [tLL_bits]; omega
  simp only [calcLL, cshl, cshr, if_neg hcnt, hg, if_true, bind, Except.bind]
  rw [if_neg (by simp)]
  simp only [pure, Except.pure]
  by_cases hsame : a ≠ C05.cast P.tLL (a * two c.toNat) >>> c.toNat
  · rw [if_pos hsame]; exact .inl ⟨_, rfl⟩
  · rw [if_neg hsame]
    right
    have := shl_roundtrip (t := P.tLL) rfl hb (n := c.toNat) (by rw [tLL_bits]; omega) (by
      have := Decidable.not_not.mp hsame; exact this.symm)
    simp only [ofE]; rw [this]

theorem calcLong_lsh (P : Plat) (hP : PlatOK P) (cfg : Cfg) (hg : cfg.gccShift = true) {a c : Int} (hc0 : 0 ≤ c) (hc : c ≤ 63)
    (hcL : c < 8 * P.longBytes) (xv : Int) (size : Nat) :
    ShiftRight' (a * two c.toNat) (ofE (calcLong P cfg .lsh a c xv size)) := by
  have hP' := hP
  obtain ⟨hS, hi0, hiL, hL4, hLLL, hLL8, hSL, hSLL⟩ := hP'
  have hb : 0 < P.tLong.bytes := by show 0 < P.longBytes; omega
  have hcnt : ¬(c < 0 ∨ (P.tLong.bits : Int) ≤ c) := by rw [tLong_bits]; omega
  simp only [calcLong]
  by_cases h1 : cfg.negShiftWorks = false ∧ a < 0
  · rw [if_pos h1]; exact .inl ⟨_, rfl⟩
  · rw [if_neg h1]
    have hlt : c < (P.tLong.bits : Int) := by rw [tLong_bits]; omega
    simp only [cshl, cshr, if_neg hcnt, hg, if_true, bind, Except.bind, if_pos hlt]
    rw [if_neg (by simp)]
    simp only [pure, Except.pure]
    by_cases hsame : a = C05.cast P.tLong (a * two c.toNat) >>> c.toNat
    · have hd : decide (a = C05.cast P.tLong (a * two c.toNat) >>> c.toNat) = true := by simpa using hsame
      rw [hd, if_neg (by simp)]
      right
      have := shl_roundtrip (t := P.tLong) rfl hb (n := c.toNat) (by rw [tLong_bits]; omega) hsame.symm
      simp only [ofE]; rw [this]
    · have hd : decide (a = C05.cast P.tLong (a * two c.toNat) >>> c.toNat) = false := by simpa using hsame
      rw [hd]
      by_cases ha0 : a ≠ 0
      · rw [if_pos ⟨rfl, ha0⟩]; exact calcLL_lsh P hP cfg hg hc0 hc
      · rw [if_neg (by simp [ha0])]
        have : a = 0 := Decidable.not_not.mp ha0
        subst this
        right; simp [ofE, C05.cast]
        have := two_pos (P.tLong.bits - 1)
        have h2 : two P.tLong.bits = 2 * two (P.tLong.bits - 1) := two_pred (bits_pos hb)
        rw [Int.emod_eq_of_lt (by omega) (by omega)]; omega

theorem lsh_raw (P : Plat) (hP : PlatOK P) (cfg : Cfg) (hg : cfg.gccShift = true)
    (p : PyLong) (hwf : p.WF P.shift) (c : Int) (hc0 : 0 ≤ c) (hc : c ≤ 63) (hcL : c < 8 * P.longBytes) (zc : Bool) :
    ShiftRight' (p.value P.shift * two c.toNat) (unpacked P cfg .lsh .objC p c zc) := by
  apply unpacked_frame P hP cfg .lsh .objC p hwf c zc (fun o => ShiftRight' (p.value P.shift * two c.toNat) o)
  · intro hz o ho
    rw [value_zero hz]
    simp [zeroCase] at ho; subst ho
    right; simp
  · exact .inl ⟨_, rfl⟩
  · intro h; cases h
  · intro v n hv _ _ _ _ _
    subst hv
    exact calcLong_lsh P hP cfg hg hc0 hc hcL _ _
  · intro v n hv _ _ _ _ _
    subst hv
    exact calcLL_lsh P hP cfg hg hc0 hc

end CyVerif.C02
